(* C15 - lemmas. *)
From HT Require Import Common.Bytes C15.Model.
From Coq Require Import Permutation Sorted.
Open Scope Z_scope.

(* ------------------------------------------------------------------ *)
(* splitting                                                           *)

Lemma has_app c a b : has c (a ++ b) = has c a || has c b.
Proof. induction a as [|x a IH]; cbn [has app]; [reflexivity|]. rewrite IH, orb_assoc; reflexivity. Qed.

Lemma split_first_spec c l a b :
  split_first c l = Some (a, b) -> l = a ++ c :: b /\ has c a = false.
Proof.
  revert a b; induction l as [|x l IH]; intros a b H; cbn [split_first] in H; [discriminate|].
  destruct (x =? c)%N eqn:E.
  - inversion H; subst. apply N.eqb_eq in E; subst. split; reflexivity.
  - destruct (split_first c l) as [[a' b']|] eqn:S; [|discriminate].
    inversion H; subst. destruct (IH _ _ eq_refl) as [-> Hn].
    split; [reflexivity|]. cbn [has]. rewrite E, Hn; reflexivity.
Qed.

Lemma split_first_app c a b : has c a = false -> split_first c (a ++ c :: b) = Some (a, b).
Proof.
  induction a as [|x a IH]; intros H; cbn [app split_first].
  - rewrite N.eqb_refl; reflexivity.
  - cbn [has] in H. apply orb_false_iff in H as [Hx Ha]. rewrite Hx, (IH Ha); reflexivity.
Qed.

Lemma split_first_none c l : has c l = false -> split_first c l = None.
Proof.
  induction l as [|x l IH]; intros H; cbn [split_first]; [reflexivity|].
  cbn [has] in H. apply orb_false_iff in H as [Hx Hl]. rewrite Hx, (IH Hl); reflexivity.
Qed.

Lemma split_last_none c l : has c l = false -> split_last c l = None.
Proof.
  induction l as [|x l IH]; intros H; cbn [split_last]; [reflexivity|].
  cbn [has] in H. apply orb_false_iff in H as [Hx Hl]. rewrite (IH Hl), Hx; reflexivity.
Qed.

Lemma split_last_app c a b : has c b = false -> split_last c (a ++ c :: b) = Some (a, b).
Proof.
  intros Hb. induction a as [|x a IH]; cbn [app split_last].
  - rewrite (split_last_none _ _ Hb), N.eqb_refl; reflexivity.
  - rewrite IH; reflexivity.
Qed.

Lemma split_last_none_inv c l : split_last c l = None -> has c l = false.
Proof.
  induction l as [|y l IH]; intros S; [reflexivity|]. cbn [split_last] in S. cbn [has].
  destruct (split_last c l) as [[? ?]|]; [discriminate|].
  destruct (y =? c)%N; [discriminate|]. cbn [orb]. apply IH; reflexivity.
Qed.

Lemma split_last_spec c l a b :
  split_last c l = Some (a, b) -> l = a ++ c :: b /\ has c b = false.
Proof.
  revert a b; induction l as [|x l IH]; intros a b H; cbn [split_last] in H; [discriminate|].
  destruct (split_last c l) as [[a' b']|] eqn:S.
  - inversion H; subst. destruct (IH _ _ eq_refl) as [-> Hn]. split; [reflexivity|exact Hn].
  - destruct (x =? c)%N eqn:E; [|discriminate]. inversion H; subst a b.
    apply N.eqb_eq in E; subst x. split; [reflexivity|]. apply split_last_none_inv, S.
Qed.

(* digits contain neither colon nor bracket *)
Lemma digits_has c p : all_digits p = true -> (c <? 48)%N || (57 <? c)%N = true -> has c p = false.
Proof.
  intros Hd Hc. induction p as [|x p IH]; [reflexivity|].
  cbn [all_digits forallb] in Hd. apply andb_true_iff in Hd as [Hx Hp].
  cbn [has]. rewrite (IH Hp), orb_false_r. unfold is_digit in Hx.
  apply N.eqb_neq. intros ->. lia.
Qed.

(* ------------------------------------------------------------------ *)
(* (a) dial                                                            *)

Lemma split_join_plain h p :
  has COLON h = false -> has 37%N h = false -> has LBR h = false -> has RBR h = false ->
  has COLON p = false -> has LBR p = false -> has RBR p = false ->
  split_host_port (join_host_port h p) = Some (h, p).
Proof.
  intros H1 H2 H3 H4 H5 H6 H7. unfold join_host_port. rewrite H1, H2. cbn [orb].
  unfold split_host_port. rewrite (split_last_app _ _ _ H5).
  destruct h as [|x h'].
  - rewrite H6, H7; reflexivity.
  - assert (Hx : (x =? LBR)%N = false) by (cbn [has] in H3; apply orb_false_iff in H3; tauto).
    rewrite Hx, H1, H3, H4, H6, H7. reflexivity.
Qed.

Lemma split_join_bracket h p :
  has LBR h = false -> has RBR h = false ->
  has COLON p = false -> has LBR p = false -> has RBR p = false ->
  split_host_port (LBR :: h ++ RBR :: COLON :: p) = Some (h, p).
Proof.
  intros H3 H4 H5 H6 H7. unfold split_host_port.
  replace (LBR :: h ++ RBR :: COLON :: p) with ((LBR :: h ++ [RBR]) ++ COLON :: p)
    by (cbn [app]; rewrite <- app_assoc; reflexivity).
  rewrite (split_last_app _ _ _ H5). cbn [app]. rewrite N.eqb_refl.
  rewrite (split_first_app RBR h [] H4). rewrite H3, H6, H7. reflexivity.
Qed.

Lemma split_join h p :
  has LBR h = false -> has RBR h = false ->
  has COLON p = false -> has LBR p = false -> has RBR p = false ->
  split_host_port (join_host_port h p) = Some (h, p).
Proof.
  intros H3 H4 H5 H6 H7.
  destruct (has COLON h || has 37%N h) eqn:E.
  - unfold join_host_port; rewrite E. apply split_join_bracket; assumption.
  - apply orb_false_iff in E as [E1 E2]. apply split_join_plain; assumption.
Qed.

(* decimal printing and reading back *)
Lemma dec_fuel_spec fuel : forall n acc, (n < 10 ^ N.of_nat fuel)%N -> (0 < fuel)%nat ->
  exists d, dec_fuel fuel n acc = d ++ acc /\ all_digits d = true /\ d <> [] /\
            forall a, parse_dec_acc a (d ++ acc) = parse_dec_acc (a * 10 ^ N.of_nat (length d) + n)%N acc.
Proof.
  induction fuel as [|f IH]; intros n acc Hn Hf; [lia|].
  cbn [dec_fuel]. destruct (n <? 10)%N eqn:E.
  - exists [(48 + n mod 10)%N]. apply N.ltb_lt in E.
    rewrite (N.mod_small n 10 E).
    split; [reflexivity|]. split.
    { cbn [all_digits forallb]. unfold is_digit. rewrite andb_true_r. apply andb_true_iff; split; apply N.leb_le; lia. }
    split; [discriminate|]. intros a. cbn [app parse_dec_acc length].
    assert (Hd : is_digit (48 + n)%N = true) by (unfold is_digit; apply andb_true_iff; split; apply N.leb_le; lia).
    rewrite Hd. f_equal. change (N.of_nat 1) with 1%N. lia.
  - apply N.ltb_ge in E.
    destruct f as [|f'].
    { change (10 ^ N.of_nat 1)%N with 10%N in Hn. lia. }
    assert (Hq : (n / 10 < 10 ^ N.of_nat (S f'))%N).
    { apply N.div_lt_upper_bound; [lia|]. rewrite <- N.pow_succ_r'. 
      replace (N.succ (N.of_nat (S f'))) with (N.of_nat (S (S f'))) by lia. exact Hn. }
    destruct (IH (n / 10)%N ((48 + n mod 10)%N :: acc) Hq ltac:(lia)) as (d & Hd & Hdig & Hne & Hp).
    exists (d ++ [(48 + n mod 10)%N]). rewrite Hd, <- app_assoc. cbn [app].
    split; [reflexivity|]. split.
    { unfold all_digits in *. rewrite forallb_app, Hdig. cbn [forallb andb]. rewrite andb_true_r.
      unfold is_digit. pose proof (N.mod_lt n 10 ltac:(lia)). apply andb_true_iff; split; apply N.leb_le; lia. }
    split; [intros C; apply app_eq_nil in C; destruct C; discriminate|].
    intros a. rewrite Hp. cbn [parse_dec_acc].
    pose proof (N.mod_lt n 10 ltac:(lia)) as Hm.
    assert (Hd2 : is_digit (48 + n mod 10)%N = true) by (unfold is_digit; apply andb_true_iff; split; apply N.leb_le; lia).
    rewrite Hd2. f_equal. rewrite app_length. cbn [length].
    replace (N.of_nat (length d + 1)) with (N.succ (N.of_nat (length d))) by lia.
    rewrite N.pow_succ_r'. pose proof (N.div_mod n 10 ltac:(lia)). 
    replace (48 + n mod 10 - 48)%N with (n mod 10)%N by lia. nia.
Qed.

Lemma dec_spec n : (n <= 65535)%N ->
  all_digits (dec n) = true /\ dec n <> [] /\ parse_port (dec n) = Some n.
Proof.
  intros Hn. unfold dec.
  destruct (dec_fuel_spec 40 n [] ltac:(change (10 ^ N.of_nat 40)%N with 10000000000000000000000000000000000000000%N; lia) ltac:(lia))
    as (d & Hd & Hdig & Hne & Hp).
  rewrite app_nil_r in Hd. rewrite Hd. split; [exact Hdig|]. split; [exact Hne|].
  unfold parse_port, parse_dec. destruct d as [|x d']; [congruence|].
  specialize (Hp 0%N). rewrite app_nil_r in Hp. rewrite Hp. cbn [parse_dec_acc].
  replace (0 * 10 ^ N.of_nat (length (x :: d')) + n)%N with n by lia.
  destruct (n <=? 65535)%N eqn:E; [reflexivity|]. apply N.leb_gt in E. lia.
Qed.

Lemma digits_no_special p : all_digits p = true ->
  has COLON p = false /\ has LBR p = false /\ has RBR p = false.
Proof. intros H. repeat split; apply digits_has; auto. Qed.

Lemma has_split c h x p : has c (h ++ x :: p) = false -> has c h = false /\ (x =? c)%N = false /\ has c p = false.
Proof.
  rewrite has_app. cbn [has]. intros H. apply orb_false_iff in H as [H1 H2].
  apply orb_false_iff in H2 as [H2 H3]. auto.
Qed.

Lemma dial_only_backend cfg k lport h po :
  spec_backend cfg = Some (h, po) -> k <> LOther -> (lport <= 65535)%N ->
  dial_model cfg k lport = DAddr k h (match po with Some n => n | None => lport end).
Proof.
  intros Hs Hk Hl. unfold spec_backend in Hs.
  destruct (dec_spec lport Hl) as (Dd & Dne & Dp).
  destruct (digits_no_special _ Dd) as (Dc & Dl & Dr).
  assert (Htgt : forall h' p', split_host_port cfg = Some (h', p') -> dial_target cfg k lport = Some (k, h', p')).
  { intros h' p' E. unfold dial_target. rewrite E. destruct k; congruence. }
  assert (Hnone : split_host_port cfg = None -> dial_target cfg k lport = Some (k, cfg, dec lport)).
  { intros E. unfold dial_target. rewrite E. destruct k; congruence. }
  destruct (has LBR cfg || has RBR cfg) eqn:Ebr.
  - (* "[h]:p" *)
    destruct cfg as [|x r]; [discriminate|].
    destruct (x =? LBR)%N eqn:Ex; [|discriminate]. apply N.eqb_eq in Ex; subst x.
    destruct (split_first RBR r) as [[h1 rest]|] eqn:Sf; [|discriminate].
    destruct rest as [|y p]; [discriminate|].
    destruct ((y =? COLON)%N && negb (has LBR h1) && nonempty h1 && all_digits p && nonempty p) eqn:Ec; [|discriminate].
    repeat (apply andb_true_iff in Ec; destruct Ec as [Ec ?]).
    destruct (parse_port p) as [n|] eqn:Pp; [|discriminate]. inversion Hs; subst h po.
    apply N.eqb_eq in Ec; subst y. apply negb_true_iff in H2.
    destruct (split_first_spec _ _ _ _ Sf) as [-> Hrb].
    destruct (digits_no_special _ H0) as (Pc & Pl & Pr).
    unfold dial_model. rewrite (Htgt h1 p (split_join_bracket h1 p H2 Hrb Pc Pl Pr)).
    rewrite (split_join h1 p H2 Hrb Pc Pl Pr), Pp. reflexivity.
  - apply orb_false_iff in Ebr as [El Er].
    destruct (split_first COLON cfg) as [[h1 p]|] eqn:Sf.
    + destruct (split_first_spec _ _ _ _ Sf) as [-> Hch].
      destruct (has_split _ _ _ _ El) as (Hl1 & _ & Hl2).
      destruct (has_split _ _ _ _ Er) as (Hr1 & _ & Hr2).
      destruct (has COLON p) eqn:Ecp.
      * (* bare IPv6 *)
        inversion Hs; subst h po.
        assert (Hn : split_host_port (h1 ++ COLON :: p) = None).
        { unfold split_host_port.
          destruct (split_last COLON (h1 ++ COLON :: p)) as [[a b]|] eqn:Sl; [|reflexivity].
          destruct (split_last_spec _ _ _ _ Sl) as [Eab Hb].
          destruct (has COLON a) eqn:Ea.
          - destruct a as [|x a']; [discriminate|].
            assert (Hx : (x =? LBR)%N = false).
            { rewrite Eab in El. cbn [app has] in El. apply orb_false_iff in El; tauto. }
            rewrite Hx. reflexivity.
          - exfalso. pose proof (split_first_app COLON a b Ea) as Sf'. rewrite <- Eab, Sf in Sf'.
            inversion Sf'; subst. congruence. }
        unfold dial_model. rewrite (Hnone Hn).
        assert (Hc : has COLON (h1 ++ COLON :: p) = true).
        { rewrite has_app. cbn [has]. rewrite N.eqb_refl, orb_true_r. reflexivity. }
        rewrite (split_join _ _ El Er Dc Dl Dr), Dp. reflexivity.
      * destruct (nonempty h1 && nonempty p && all_digits p) eqn:Ec; [|discriminate].
        repeat (apply andb_true_iff in Ec; destruct Ec as [Ec ?]).
        destruct (parse_port p) as [n|] eqn:Pp; [|discriminate]. inversion Hs; subst h po.
        assert (Hsp : split_host_port (h1 ++ COLON :: p) = Some (h1, p)).
        { unfold split_host_port. rewrite (split_last_app _ _ _ Ecp).
          destruct h1 as [|x h']; [discriminate|].
          assert (Hx : (x =? LBR)%N = false) by (cbn [has] in Hl1; apply orb_false_iff in Hl1; tauto).
          rewrite Hx, Hch, Hl1, Hl2, Hr1, Hr2. reflexivity. }
        unfold dial_model. rewrite (Htgt _ _ Hsp), (split_join _ _ Hl1 Hr1 Ecp Hl2 Hr2), Pp. reflexivity.
    + destruct (nonempty cfg) eqn:Ene; [|discriminate]. inversion Hs; subst h po.
      assert (Hn : split_host_port cfg = None).
      { unfold split_host_port.
        destruct (split_last COLON cfg) as [[a b]|] eqn:Sl; [|reflexivity].
        destruct (split_last_spec _ _ _ _ Sl) as [Eab _]. exfalso.
        destruct (has COLON a) eqn:Ea.
        - assert (has COLON cfg = true) by (rewrite Eab, has_app, Ea; reflexivity).
          clear -Sf H. induction cfg as [|x l IH]; [discriminate|].
          cbn [split_first] in Sf. cbn [has] in H. destruct (x =? COLON)%N; [discriminate|].
          destruct (split_first COLON l) as [[? ?]|]; [discriminate|]. apply IH; auto.
        - rewrite Eab, (split_first_app COLON a b Ea) in Sf. discriminate. }
      unfold dial_model. rewrite (Hnone Hn), (split_join _ _ El Er Dc Dl Dr), Dp. reflexivity.
Qed.

Lemma split_host_port_shape cfg h p :
  split_host_port cfg = Some (h, p) ->
  exists a, cfg = a ++ COLON :: p /\ (h = a \/ a = LBR :: h ++ [RBR]).
Proof.
  unfold split_host_port. destruct (split_last COLON cfg) as [[a b]|] eqn:Sl; [|discriminate].
  destruct (split_last_spec _ _ _ _ Sl) as [-> _]. intros E.
  destruct a as [|x a'].
  - destruct (has LBR b || has RBR b); inversion E; subst. exists []; auto.
  - destruct (x =? LBR)%N eqn:Ex.
    + apply N.eqb_eq in Ex; subst x.
      destruct (split_first RBR a') as [[h1 rest]|] eqn:Sf; [|discriminate].
      destruct rest; [|discriminate].
      destruct (has LBR h1 || has LBR b || has RBR b); inversion E; subst.
      destruct (split_first_spec _ _ _ _ Sf) as [-> _]. exists (LBR :: h ++ [RBR]); auto.
    + destruct (has COLON (x :: a') || has LBR (x :: a') || has LBR b || has RBR (x :: a') || has RBR b);
        inversion E; subst. exists (x :: a'); auto.
Qed.

(* whatever the configuration value: the host handed to net.Dial is the value itself or
   a contiguous part of it, the port is a suffix of it or the connection's own port *)
Lemma dial_host_from_config cfg k lport k' h p :
  dial_target cfg k lport = Some (k', h, p) ->
  k' = k /\ ((h = cfg /\ p = dec lport) \/
             ((exists pre post, cfg = pre ++ h ++ post) /\ (exists pre, cfg = pre ++ p))).
Proof.
  unfold dial_target. destruct k; try discriminate.
  all: destruct (split_host_port cfg) as [[h' p']|] eqn:E; intros H; inversion H; subst; split; auto; right.
  all: destruct (split_host_port_shape _ _ _ E) as (a & -> & [-> | ->]).
  all: split; [|eexists (_ ++ [COLON]); rewrite <- app_assoc; reflexivity].
  all: try (exists [], (COLON :: p); reflexivity).
  all: exists [LBR], (RBR :: COLON :: p); cbn [app]; rewrite <- app_assoc; reflexivity.
Qed.

(* a shared director: what it dials for a connection depends on that connection alone,
   whatever it has dialled for before and will dial for afterwards *)
Lemma dial_seq_independent cfg pre c post :
  nth (length pre) (dial_seq cfg (pre ++ c :: post)) DError = dial_model cfg (fst c) (snd c).
Proof.
  unfold dial_seq. rewrite map_app. cbn [map].
  rewrite app_nth2 by (rewrite map_length; lia). rewrite map_length, Nat.sub_diag. reflexivity.
Qed.

Lemma dial_unsupported cfg lport : dial_model cfg LOther lport = DUnsupported.
Proof. reflexivity. Qed.

(* ------------------------------------------------------------------ *)
(* the concrete framing is self-delimiting for length-framed messages   *)

Lemma is_prefix_length p l : is_prefix p l = true -> (length p <= length l)%nat.
Proof.
  revert l; induction p as [|x p IH]; intros l H; cbn [length]; [lia|].
  destruct l as [|y l]; cbn [is_prefix] in H; [discriminate|].
  apply andb_true_iff in H as [_ H]. specialize (IH _ H). cbn [length]. lia.
Qed.

Lemma is_prefix_firstn p k l : is_prefix p (firstn k l) = true -> is_prefix p l = true.
Proof.
  revert k l; induction p as [|x p IH]; intros k l H; [reflexivity|].
  destruct k as [|k]; [cbn in H; discriminate|]. destruct l as [|y l]; [cbn in H; discriminate|].
  cbn [firstn is_prefix] in *. apply andb_true_iff in H as [H1 H2]. rewrite H1, (IH _ _ H2). reflexivity.
Qed.

Lemma is_prefix_firstn_ge p k l : is_prefix p l = true -> (length p <= k)%nat -> is_prefix p (firstn k l) = true.
Proof.
  revert k l; induction p as [|x p IH]; intros k l H Hk; [reflexivity|].
  destruct l as [|y l]; [cbn in H; discriminate|]. destruct k as [|k]; [cbn [length] in Hk; lia|].
  cbn [firstn is_prefix] in *. apply andb_true_iff in H as [H1 H2]. rewrite H1. cbn [andb].
  apply IH; [exact H2|cbn [length] in Hk; lia].
Qed.

Lemma find_crlf2_short l : (length l < 4)%nat -> find_crlf2 l = None.
Proof.
  induction l as [|x l IH]; intros H; [reflexivity|]. cbn [find_crlf2].
  destruct (is_prefix CRLF2 (x :: l)) eqn:E.
  - apply is_prefix_length in E. cbn [CRLF2 length] in *. lia.
  - rewrite IH; [reflexivity|cbn [length] in H; lia].
Qed.

Lemma find_crlf2_firstn_lt l : forall i k, find_crlf2 l = Some i -> (k < i + 4)%nat -> find_crlf2 (firstn k l) = None.
Proof.
  induction l as [|x l IH]; intros i k H Hk; [discriminate|].
  destruct k as [|k]; [reflexivity|]. cbn [firstn]. cbn [find_crlf2] in H.
  destruct (is_prefix CRLF2 (x :: l)) eqn:E.
  - inversion H; subst i. apply find_crlf2_short.
    change (x :: firstn k l) with (firstn (S k) (x :: l)). rewrite firstn_length. lia.
  - destruct (find_crlf2 l) as [i'|] eqn:F; [|discriminate]. inversion H; subst i.
    cbn [find_crlf2].
    destruct (is_prefix CRLF2 (x :: firstn k l)) eqn:E2.
    + change (x :: firstn k l) with (firstn (S k) (x :: l)) in E2. apply is_prefix_firstn in E2. congruence.
    + rewrite (IH i' k eq_refl) by lia. reflexivity.
Qed.

Lemma find_crlf2_firstn_ge l : forall i k, find_crlf2 l = Some i -> (i + 4 <= k)%nat -> find_crlf2 (firstn k l) = Some i.
Proof.
  induction l as [|x l IH]; intros i k H Hk; [discriminate|].
  destruct k as [|k]; [lia|]. cbn [firstn]. cbn [find_crlf2] in H. cbn [find_crlf2].
  destruct (is_prefix CRLF2 (x :: l)) eqn:E.
  - inversion H; subst i.
    change (x :: firstn k l) with (firstn (S k) (x :: l)).
    rewrite (is_prefix_firstn_ge _ _ _ E) by (cbn [CRLF2 length]; lia). reflexivity.
  - destruct (find_crlf2 l) as [i'|] eqn:F; [|discriminate]. inversion H; subst i.
    destruct (is_prefix CRLF2 (x :: firstn k l)) eqn:E2.
    + change (x :: firstn k l) with (firstn (S k) (x :: l)) in E2. apply is_prefix_firstn in E2. congruence.
    + rewrite (IH i' k eq_refl) by lia. reflexivity.
Qed.

Lemma find_crlf2_bound l i : find_crlf2 l = Some i -> (i + 4 <= length l)%nat.
Proof.
  revert i; induction l as [|x l IH]; intros i H; [discriminate|]. cbn [find_crlf2] in H.
  destruct (is_prefix CRLF2 (x :: l)) eqn:E.
  - inversion H; subst. apply is_prefix_length in E. cbn [CRLF2 length] in *. lia.
  - destruct (find_crlf2 l) as [i'|]; [|discriminate]. inversion H; subst. specialize (IH _ eq_refl). cbn [length]. lia.
Qed.

Lemma firstn_firstn_le {A} (l : list A) i k : (i <= k)%nat -> firstn i (firstn k l) = firstn i l.
Proof. intros H. rewrite firstn_firstn. f_equal. lia. Qed.

Lemma skipn_firstn_length {A} (l : list A) a k : (k <= length l)%nat ->
  length (skipn a (firstn k l)) = (k - a)%nat.
Proof. intros H. rewrite skipn_length, firstn_length. lia. Qed.

Lemma is_prefix_app p l x : is_prefix p l = true -> is_prefix p (l ++ x) = true.
Proof.
  revert l; induction p as [|a p IH]; intros l H; [reflexivity|].
  destruct l as [|b l]; [cbn in H; discriminate|]. cbn [app is_prefix] in *.
  apply andb_true_iff in H as [H1 H2]. rewrite H1, (IH _ H2). reflexivity.
Qed.

Lemma find_crlf2_app l x : forall i, find_crlf2 l = Some i -> find_crlf2 (l ++ x) = Some i.
Proof.
  induction l as [|a l IH]; intros i H; [discriminate|]. cbn [find_crlf2] in H.
  change ((a :: l) ++ x) with (a :: (l ++ x)). cbn [find_crlf2].
  destruct (is_prefix CRLF2 (a :: l)) eqn:E.
  - change (a :: l ++ x) with ((a :: l) ++ x). rewrite (is_prefix_app _ _ x E). exact H.
  - destruct (find_crlf2 l) as [i'|] eqn:F; [|discriminate]. inversion H; subst i.
    rewrite (IH i' eq_refl).
    destruct (is_prefix CRLF2 (a :: l ++ x)) eqn:E2; [|reflexivity].
    exfalso. (* a match at position 0 of the extension lies within the first i'+1+4 bytes of l *)
    pose proof (find_crlf2_bound _ _ F) as Hb.
    assert (E3 : is_prefix CRLF2 (firstn 4 ((a :: l) ++ x)) = true)
      by (apply is_prefix_firstn_ge; [exact E2|cbn [CRLF2 length]; lia]).
    rewrite firstn_app in E3. replace (4 - length (a :: l))%nat with 0%nat in E3 by (cbn [length]; lia).
    rewrite firstn_O, app_nil_r in E3. apply is_prefix_firstn in E3. congruence.
Qed.

Lemma split_line_app l : forall a b x, split_line l = Some (a, b) -> split_line (l ++ x) = Some (a, b ++ x).
Proof.
  induction l as [|c l IH]; intros a b x H; [discriminate|].
  destruct l as [|d l']; [cbn in H; discriminate|].
  change ((c :: d :: l') ++ x) with (c :: d :: (l' ++ x)).
  cbn [split_line] in H |- *.
  destruct ((c =? 13) && (d =? 10))%N.
  - inversion H; subst. reflexivity.
  - destruct (match l' with [] => None | y :: r' => _ end) as [[a' b']|] eqn:S; [|discriminate].
    inversion H; subst a b. 
    pose proof (IH a' b' x) as IH'. cbn [split_line app] in IH'. rewrite (IH' S). reflexivity.
Qed.

Lemma dechunk_app f : forall l used body u b x f',
  dechunk f l used body = CkDone u b -> (f <= f')%nat -> dechunk f' (l ++ x) used body = CkDone u b.
Proof.
  induction f as [|f IH]; intros l used body u b x f' H Hf; [discriminate|].
  destruct f' as [|f']; [lia|]. cbn [dechunk] in H |- *.
  destruct (split_line l) as [[line after]|] eqn:S; [|discriminate].
  rewrite (split_line_app _ _ _ x S).
  destruct (parse_hex line) as [n|]; [|discriminate].
  destruct (n =? 0)%N.
  - destruct after as [|a1 [|a2 after']]; [discriminate| |].
    + destruct (a1 =? 13)%N; discriminate.
    + cbn [app]. exact H.
  - destruct (length after <? N.to_nat n + 2)%nat eqn:EL; [discriminate|].
    apply Nat.ltb_ge in EL.
    destruct (is_prefix [13; 10]%N (skipn (N.to_nat n) after)) eqn:EP; [|discriminate].
    assert (E1 : (length (after ++ x) <? N.to_nat n + 2)%nat = false)
      by (apply Nat.ltb_ge; rewrite app_length; lia).
    rewrite E1.
    rewrite !skipn_app, firstn_app.
    replace (N.to_nat n - length after)%nat with 0%nat by lia.
    replace (N.to_nat n + 2 - length after)%nat with 0%nat by lia.
    cbn [skipn firstn]. rewrite app_nil_r, (is_prefix_app _ _ x EP).
    apply IH; [exact H|lia].
Qed.

(* whatever follows a complete request in the buffer does not change how it is framed *)
Lemma frame_req_extend msg m x :
  frame_req msg = QComplete (length msg) m -> frame_req (msg ++ x) = QComplete (length msg) m.
Proof.
  intros H. unfold frame_req in H |- *.
  destruct (find_crlf2 msg) as [i|] eqn:F; [|discriminate].
  pose proof (find_crlf2_bound _ _ F) as Hb.
  rewrite (find_crlf2_app _ x _ F).
  rewrite firstn_app. replace (i - length msg)%nat with 0%nat by lia. cbn [firstn]. rewrite app_nil_r.
  destruct (split_crlf (firstn i msg)) as [|l0 ls]; [discriminate|].
  destruct (parse_reqline l0) as [[mt tg]|]; [|discriminate].
  destruct (parse_headers ls) as [hs|]; [|discriminate].
  rewrite skipn_app. replace (i + 4 - length msg)%nat with 0%nat by lia. cbn [skipn].
  destruct (body_kind_of hs (BKLen 0)) as [|n|]; [discriminate| |].
  - destruct (N.to_nat n <=? length (skipn (i + 4) msg))%nat eqn:E; [|discriminate].
    inversion H as [[Hn Hm]]. apply Nat.leb_le in E.
    rewrite app_length.
    destruct (N.to_nat n <=? length (skipn (i + 4) msg) + length x)%nat eqn:E2.
    + rewrite firstn_app. replace (N.to_nat n - length (skipn (i + 4) msg))%nat with 0%nat by lia.
      cbn [firstn]. rewrite app_nil_r. reflexivity.
    + apply Nat.leb_gt in E2. lia.
  - destruct (dechunk (S (length (skipn (i + 4) msg))) (skipn (i + 4) msg) 0 []) as [| |used body] eqn:D; try discriminate.
    rewrite (dechunk_app _ _ _ _ _ _ x (S (length (skipn (i + 4) msg ++ x))) D) by (rewrite app_length; lia).
    exact H.
Qed.


(* ------------------------------------------------------------------ *)
(* self-delimiting messages                                            *)

(* a request is self-delimiting for the framing: followed by anything it is framed as
   exactly itself, and no proper prefix of it is complete (or rejected) *)
Definition sd_req (msg : bytes) (m : sem_req) : Prop :=
  (forall x, frame_req (msg ++ x) = QComplete (length msg) m) /\
  forall k, (k < length msg)%nat -> frame_req (firstn k msg) = QIncomplete.

(* a reply: it parses as exactly itself and no proper prefix is complete (the backend
   writes a reply only after it has the request, so nothing follows it in the buffer) *)
Definition sd_resp (to_head : bool) (raw : bytes) (p : sem_resp) : Prop :=
  frame_resp to_head raw = PComplete (length raw) p /\
  forall k, (k < length raw)%nat -> frame_resp to_head (firstn k raw) = PIncomplete.

Lemma frame_req_nil : frame_req [] = QIncomplete.
Proof. reflexivity. Qed.

Lemma sd_req_alone msg m : sd_req msg m -> frame_req msg = QComplete (length msg) m.
Proof. intros [H _]. specialize (H []). rewrite app_nil_r in H. exact H. Qed.

Lemma sd_req_nonempty msg m : sd_req msg m -> msg <> [].
Proof. intros H E. apply sd_req_alone in H. subst msg. rewrite frame_req_nil in H. discriminate. Qed.

(* a length-framed request that parses as exactly itself is self-delimiting *)
Lemma frame_req_sd msg m :
  frame_req msg = QComplete (length msg) m -> r_chunked m = false -> sd_req msg m.
Proof.
  intros H Hc. split; [intros x; apply frame_req_extend, H|]. intros k Hk.
  unfold frame_req in H |- *.
  destruct (find_crlf2 msg) as [i|] eqn:F; [|discriminate].
  pose proof (find_crlf2_bound _ _ F) as Hb.
  destruct (Nat.lt_ge_cases k (i + 4)) as [Hlt|Hge].
  - rewrite (find_crlf2_firstn_lt _ _ _ F Hlt). reflexivity.
  - rewrite (find_crlf2_firstn_ge _ _ _ F Hge).
    rewrite (firstn_firstn_le msg i k) by lia.
    destruct (split_crlf (firstn i msg)) as [|l0 ls]; [discriminate|].
    destruct (parse_reqline l0) as [[mt tg]|]; [|discriminate].
    destruct (parse_headers ls) as [hs|]; [|discriminate].
    destruct (body_kind_of hs (BKLen 0)) as [|n|]; [discriminate| |].
    + destruct (N.to_nat n <=? length (skipn (i + 4) msg))%nat eqn:E; [|discriminate].
      inversion H as [[Hn Hm]]. rewrite skipn_firstn_length by lia.
      destruct (N.to_nat n <=? k - (i + 4))%nat eqn:E2; [|reflexivity].
      apply Nat.leb_le in E2. lia.
    + destruct (dechunk _ _ _ _); try discriminate. inversion H as [[Hn Hm]]. subst m. cbn in Hc. discriminate.
Qed.


(* ------------------------------------------------------------------ *)
(* (b) http relay: one reader per leg                                   *)

Lemma drain_step f s n m p l rest :
  frame_req (s_buf s) = QComplete n m -> s_bclosed s = false ->
  read_reply (is_head m) (s_bbuf s) (s_bq s ++ match s_replies s with [] => DEFAULT_REPLY | x :: _ => x end) = RGot p l rest ->
  drain (S f) s = drain f (mkSt (skipn n (s_buf s)) l rest (tl (s_replies s)) (s_recvd s + 1)%N
                                (reser_req m :: s_fwd s) (reser_resp p :: s_del s)
                                (tl (s_closes s)) (match s_closes s with c :: _ => c | [] => false end)).
Proof.
  intros H1 Hc H2. cbn [drain]. rewrite H1, Hc.
  cbn [s_bbuf s_bq s_buf s_replies s_recvd s_fwd s_del s_closes s_bclosed]. rewrite H2. reflexivity.
Qed.

Lemma drain_incomplete f s : frame_req (s_buf s) = QIncomplete -> drain (S f) s = (s, None).
Proof. intros H. cbn [drain]. rewrite H. reflexivity. Qed.

(* the fuel used by [run] suffices: every complete request takes at least one byte *)
Lemma frame_req_complete_pos buf n m : frame_req buf = QComplete n m -> (0 < n)%nat.
Proof.
  unfold frame_req. destruct (find_crlf2 buf) as [i|]; [|discriminate].
  destruct (split_crlf (firstn i buf)) as [|l0 ls]; [discriminate|].
  destruct (parse_reqline l0) as [[mt tg]|]; [|discriminate].
  destruct (parse_headers ls) as [hs|]; [|discriminate].
  destruct (body_kind_of hs (BKLen 0)) as [|c|]; [discriminate| |].
  - destruct (N.to_nat c <=? _)%nat; [|discriminate]. intros H; inversion H; lia.
  - destruct (dechunk _ _ _ _); try discriminate. intros H; inversion H; lia.
Qed.

Lemma drain_fuel_suffices fuel : forall s, (length (s_buf s) < fuel)%nat -> snd (drain fuel s) <> Some EFuel.
Proof.
  induction fuel as [|f IH]; intros s Hl; [lia|]. cbn [drain].
  destruct (frame_req (s_buf s)) as [| |n m] eqn:F; cbn [snd]; try discriminate.
  destruct (s_bclosed s); cbn [snd]; try discriminate.
  destruct (read_reply _ _ _); cbn [snd]; try discriminate.
  apply IH. cbn [s_buf]. pose proof (frame_req_complete_pos _ _ _ F).
  destruct (s_buf s) as [|x b] eqn:E; [rewrite frame_req_nil in F; discriminate|].
  rewrite skipn_length. cbn [length] in *. lia.
Qed.

(* the backend leg: however the reply is cut, ReadResponse reads exactly it and leaves
   nothing behind *)
Lemma backend_leg h raw p : sd_resp h raw p ->
  forall rsegs buf, buf ++ concat rsegs = raw ->
  exists rest, read_reply h buf rsegs = RGot p [] rest /\ concat rest = [].
Proof.
  intros [Hc Hp]. induction rsegs as [|x r IH]; intros buf Hcat.
  - cbn [concat] in Hcat. rewrite app_nil_r in Hcat. subst buf. cbn [read_reply]. rewrite Hc.
    exists []. rewrite skipn_all. split; reflexivity.
  - cbn [read_reply]. destruct (Nat.eq_dec (length buf) (length raw)) as [E|E].
    + assert (length raw = (length buf + length (concat (x :: r)))%nat) by (rewrite <- Hcat, app_length; reflexivity).
      assert (L : length (concat (x :: r)) = 0%nat) by lia.
      apply length_zero_iff_nil in L. rewrite L, app_nil_r in Hcat. subst buf. rewrite Hc.
      exists (x :: r). rewrite skipn_all. split; [reflexivity|exact L].
    + assert (Hlt : (length buf < length raw)%nat).
      { assert (length raw = (length buf + length (concat (x :: r)))%nat) by (rewrite <- Hcat, app_length; reflexivity). lia. }
      assert (Hpre : firstn (length buf) raw = buf).
      { rewrite <- Hcat. rewrite firstn_app, firstn_all, Nat.sub_diag. cbn [firstn]. apply app_nil_r. }
      rewrite <- Hpre, (Hp _ Hlt), Hpre. apply IH.
      rewrite <- Hcat. cbn [concat]. rewrite <- app_assoc. reflexivity.
Qed.

(* one exchange: the request, what it parses to, the backend's reply, what it parses
   to, and how the backend writes it *)
Record exch := mkEx {
  x_msg : bytes; x_req : sem_req;
  x_raw : bytes; x_resp : sem_resp;
  x_rsegs : list bytes }.

Definition ex_ok (e : exch) : Prop :=
  sd_req (x_msg e) (x_req e) /\
  sd_resp (is_head (x_req e)) (x_raw e) (x_resp e) /\ concat (x_rsegs e) = x_raw e.

Definition stream (exs : list exch) : bytes := concat (map x_msg exs).
Definition fwd_of (exs : list exch) : list sem_req := map (fun e => reser_req (x_req e)) exs.
Definition del_of (exs : list exch) : list sem_resp := map (fun e => reser_resp (x_resp e)) exs.

Definition proper (buf : bytes) (rem : list exch) : Prop :=
  match rem with [] => buf = [] | e :: _ => (length buf < length (x_msg e))%nat end.

Lemma app_prefix_firstn {A} (a b c d : list A) :
  a ++ b = c ++ d -> (length a <= length c)%nat -> a = firstn (length a) c.
Proof.
  revert c; induction a as [|x a IH]; intros c H Hl; [reflexivity|].
  destruct c as [|y c]; [cbn [length] in Hl; lia|]. cbn [app] in H. inversion H; subst.
  cbn [length firstn]. f_equal. apply IH; [assumption|cbn [length] in Hl; lia].
Qed.

Lemma app_split_ge {A} (a b c d : list A) :
  a ++ b = c ++ d -> (length c <= length a)%nat ->
  a = c ++ skipn (length c) a /\ skipn (length c) a ++ b = d.
Proof.
  revert a; induction c as [|y c IH]; intros a H Hl; [cbn [length skipn app] in *; auto|].
  destruct a as [|x a]; [cbn [length] in Hl; lia|]. cbn [app] in H. inversion H; subst.
  cbn [length skipn]. destruct (IH a H2 ltac:(cbn [length] in Hl; lia)) as [E1 E2].
  split; [cbn [app]; f_equal; exact E1|exact E2].
Qed.

(* the loop over a buffer that is a prefix of the remaining stream: it serves exactly the
   requests that are complete in it, in order, and keeps the rest *)
Lemma drain_spec exs : Forall ex_ok exs ->
  forall fuel s R,
    s_buf s ++ R = stream exs -> (length (s_buf s) < fuel)%nat ->
    s_bbuf s = [] -> concat (s_bq s) = [] -> s_replies s = map x_rsegs exs ->
    s_closes s = [] -> s_bclosed s = false ->
    exists done rem s',
      exs = done ++ rem /\ drain fuel s = (s', None) /\
      s_buf s = stream done ++ s_buf s' /\ proper (s_buf s') rem /\
      s_bbuf s' = [] /\ concat (s_bq s') = [] /\ s_replies s' = map x_rsegs rem /\
      s_closes s' = [] /\ s_bclosed s' = false /\
      s_recvd s' = (s_recvd s + N.of_nat (length done))%N /\
      s_fwd s' = rev (fwd_of done) ++ s_fwd s /\ s_del s' = rev (del_of done) ++ s_del s.
Proof.
  induction 1 as [|e r He Hr IH]; intros fuel s R Hs Hf Hbb Hbq Hrep Hcl Hbc.
  - unfold stream in Hs. cbn [map concat] in Hs. apply app_eq_nil in Hs as [Hb _].
    destruct fuel as [|f]; [lia|].
    exists [], [], s. rewrite drain_incomplete by (rewrite Hb; reflexivity).
    unfold stream, fwd_of, del_of, proper. cbn [map concat rev app length]. repeat split; auto. lia.
  - destruct He as (Hsd & Hsr & Hrc).
    destruct fuel as [|f]; [lia|].
    unfold stream in Hs. cbn [map concat] in Hs.
    destruct (Nat.lt_ge_cases (length (s_buf s)) (length (x_msg e))) as [Hlt|Hge].
    + (* only a proper prefix of the next request is there *)
      pose proof (app_prefix_firstn _ _ _ _ Hs ltac:(lia)) as Hpre.
      destruct Hsd as [_ Hp].
      exists [], (e :: r), s. rewrite drain_incomplete by (rewrite Hpre; apply Hp, Hlt).
      unfold stream, fwd_of, del_of, proper. cbn [map concat rev app length]. repeat split; auto. lia.
    + destruct (app_split_ge _ _ _ _ Hs Hge) as [Hsplit Hrest].
      set (B' := skipn (length (x_msg e)) (s_buf s)) in *.
      assert (Hfr : frame_req (s_buf s) = QComplete (length (x_msg e)) (x_req e))
        by (rewrite Hsplit; apply Hsd).
      destruct (backend_leg _ _ _ Hsr (s_bq s ++ x_rsegs e) []) as (rest & Hrr & Hrest0).
      { cbn [app]. rewrite concat_app, Hbq, Hrc. reflexivity. }
      rewrite (drain_step f s _ _ (x_resp e) [] rest Hfr Hbc).
      2: { rewrite Hbb, Hrep. cbn [map]. exact Hrr. }
      fold B'.
      pose proof (sd_req_nonempty _ _ Hsd) as Hne.
      assert (Hlen : (length B' < f)%nat).
      { unfold B'. rewrite skipn_length. destruct (x_msg e); [congruence|]. cbn [length] in *. lia. }
      rewrite Hcl. cbn [tl].
      destruct (IH f (mkSt B' [] rest (tl (s_replies s)) (s_recvd s + 1)%N
                         (reser_req (x_req e) :: s_fwd s) (reser_resp (x_resp e) :: s_del s) [] false) R)
        as (done & rem & s' & Hex & Hd & Hb & Hpr & Hbb' & Hbq' & Hrep' & Hcl' & Hbc' & Hrc' & Hfw & Hdl); cbn [s_buf s_bbuf s_bq s_replies s_closes s_bclosed].
      * exact Hrest.
      * exact Hlen.
      * reflexivity.
      * exact Hrest0.
      * rewrite Hrep. reflexivity.
      * reflexivity.
      * reflexivity.
      * exists (e :: done), rem, s'. cbn [s_buf s_recvd s_fwd s_del] in *.
        split; [rewrite Hex; reflexivity|]. split; [exact Hd|].
        split; [rewrite Hsplit at 1; unfold stream in *; cbn [map concat]; rewrite <- app_assoc, <- Hb; reflexivity|].
        split; [exact Hpr|]. split; [exact Hbb'|]. split; [exact Hbq'|]. split; [exact Hrep'|].
        split; [exact Hcl'|]. split; [exact Hbc'|].
        unfold fwd_of, del_of in *. cbn [map rev length].
        split; [rewrite Hrc'; lia|]. rewrite Hfw, Hdl, <- !app_assoc. split; reflexivity.
Qed.

(* what the client does: its writes, in order, make up the stream; it may wait for k
   replies only once k requests are completely written *)
Fixpoint stream_of (its : list citem) : bytes :=
  match its with
  | [] => []
  | ISeg b :: r => b ++ stream_of r
  | IWait _ :: r => stream_of r
  end.

Fixpoint complete_count (lens : list nat) (t : nat) : nat :=
  match lens with
  | [] => 0
  | l :: r => if (l <=? t)%nat then S (complete_count r (t - l)) else 0
  end.

Fixpoint waits_ok (lens : list nat) (t : nat) (its : list citem) : Prop :=
  match its with
  | [] => True
  | ISeg b :: r => waits_ok lens (t + length b) r
  | IWait k :: r => (N.to_nat k <= complete_count lens t)%nat /\ waits_ok lens t r
  end.

Definition lens_of (exs : list exch) : list nat := map (fun e => length (x_msg e)) exs.

Lemma stream_app a b : stream (a ++ b) = stream a ++ stream b.
Proof. unfold stream. rewrite map_app, concat_app. reflexivity. Qed.

Lemma complete_count_done done : forall rem p, proper p rem ->
  complete_count (lens_of (done ++ rem)) (length (stream done) + length p) = length done.
Proof.
  induction done as [|d done IH]; intros rem p Hp.
  - cbn [app stream map concat length Nat.add]. unfold stream. cbn [map concat length Nat.add].
    destruct rem as [|e rem]; [reflexivity|]. cbn [lens_of map complete_count].
    cbn [proper] in Hp. destruct (length (x_msg e) <=? length p)%nat eqn:E; [apply Nat.leb_le in E; lia|reflexivity].
  - assert (E1 : stream (d :: done) = x_msg d ++ stream done) by reflexivity.
    assert (E2 : lens_of ((d :: done) ++ rem) = length (x_msg d) :: lens_of (done ++ rem)) by reflexivity.
    rewrite E1, E2, app_length. cbn [complete_count length].
    destruct (length (x_msg d) <=? length (x_msg d) + length (stream done) + length p)%nat eqn:E;
      [|apply Nat.leb_gt in E; lia].
    f_equal. replace (length (x_msg d) + length (stream done) + length p - length (x_msg d))%nat
      with (length (stream done) + length p)%nat by lia.
    apply IH, Hp.
Qed.

Lemma run_seg b r s :
  run (ISeg b :: r) s =
  match drain (S (length (s_buf s ++ b))) (set_buf s (s_buf s ++ b)) with
  | (s2, None) => run r s2
  | (s2, Some e) => (s2, e)
  end.
Proof. reflexivity. Qed.

Lemma relay_gen its : forall done rem s,
  Forall ex_ok rem ->
  s_buf s ++ stream_of its = stream rem -> proper (s_buf s) rem ->
  s_bbuf s = [] -> concat (s_bq s) = [] -> s_replies s = map x_rsegs rem ->
  s_closes s = [] -> s_bclosed s = false ->
  s_recvd s = N.of_nat (length done) ->
  waits_ok (lens_of (done ++ rem)) (length (stream done) + length (s_buf s)) its ->
  exists s', run its s = (s', EEof) /\
    s_fwd s' = rev (fwd_of rem) ++ s_fwd s /\ s_del s' = rev (del_of rem) ++ s_del s /\
    s_recvd s' = N.of_nat (length done + length rem).
Proof.
  induction its as [|it its IH]; intros done rem s Hok Hs Hp Hbb Hbq Hrep Hcl Hbc Hrc Hw.
  - cbn [stream_of] in Hs. rewrite app_nil_r in Hs.
    destruct rem as [|e rem].
    + cbn [proper] in Hp. exists s. cbn [run]. rewrite Hp.
      unfold fwd_of, del_of. cbn [map rev app length]. repeat split; auto. rewrite Hrc. f_equal. lia.
    + exfalso. cbn [proper] in Hp. unfold stream in Hs. cbn [map concat] in Hs.
      assert (length (s_buf s) = length (x_msg e ++ concat (map x_msg rem))) by (rewrite Hs; reflexivity).
      rewrite app_length in H. lia.
  - destruct it as [b|k].
    + cbn [stream_of] in Hs. cbn [waits_ok] in Hw. rewrite run_seg.
      destruct (drain_spec rem Hok (S (length (s_buf s ++ b))) (set_buf s (s_buf s ++ b)) (stream_of its))
        as (done2 & rem2 & s' & Hex & Hd & Hb & Hpr & Hbb' & Hbq' & Hrep' & Hcl' & Hbc' & Hrc' & Hfw & Hdl).
      { cbn [set_buf s_buf]. rewrite <- app_assoc. exact Hs. }
      { cbn [set_buf s_buf]. lia. }
      { exact Hbb. }
      { exact Hbq. }
      { exact Hrep. }
      { exact Hcl. }
      { exact Hbc. }
      rewrite Hd. cbn [set_buf s_buf s_recvd s_fwd s_del] in *.
      subst rem. apply Forall_app in Hok as [_ Hok2].
      destruct (IH (done ++ done2) rem2 s' Hok2) as (s'' & Hrun & Hf2 & Hd2 & Hn2); auto.
      * rewrite stream_app in Hs.
        assert (E : (stream done2 ++ s_buf s') ++ stream_of its = stream done2 ++ stream rem2)
          by (rewrite <- Hb, <- app_assoc; exact Hs).
        rewrite <- app_assoc in E. apply app_inv_head in E. exact E.
      * rewrite Hrc', Hrc, app_length. lia.
      * rewrite <- app_assoc. rewrite stream_app, app_length.
        replace (length (stream done) + length (stream done2) + length (s_buf s'))%nat
          with (length (stream done) + length (s_buf s) + length b)%nat; [exact Hw|].
        assert (E : length (s_buf s ++ b) = length (stream done2 ++ s_buf s')) by (rewrite Hb; reflexivity).
        rewrite !app_length in E. lia.
      * exists s''. split; [exact Hrun|]. unfold fwd_of, del_of in *.
        rewrite Hf2, Hd2, Hfw, Hdl, !map_app, !rev_app_distr, <- !app_assoc.
        repeat split; auto. rewrite Hn2, !app_length. f_equal. lia.
    + cbn [stream_of] in Hs. cbn [waits_ok] in Hw. destruct Hw as [Hk Hw]. cbn [run].
      rewrite (complete_count_done done rem (s_buf s) Hp) in Hk.
      destruct (k <=? s_recvd s)%N eqn:E; [|apply N.leb_gt in E; lia].
      apply (IH done rem s); auto.
Qed.

(* for ALL segmentations of the client's stream - requests cut anywhere, several requests
   or parts of them in one write - and of every reply: every request reaches the backend,
   every reply the client, in order, once *)
Lemma relay_all_segmentations exs its :
  Forall ex_ok exs -> stream_of its = stream exs -> waits_ok (lens_of exs) 0 its ->
  exists s, run its (st0 (map x_rsegs exs)) = (s, EEof) /\
    rev (s_fwd s) = fwd_of exs /\ rev (s_del s) = del_of exs /\ s_recvd s = N.of_nat (length exs).
Proof.
  intros Hok Hs Hw.
  destruct (relay_gen its [] exs (st0 (map x_rsegs exs)) Hok) as (s & Hr & Hf & Hd & Hn); unfold st0, st0c; cbn [s_buf s_bbuf s_bq s_replies s_recvd s_closes s_bclosed]; auto.
  - destruct exs as [|e r]; cbn [proper]; [reflexivity|].
    inversion Hok as [|? ? [Hsd _] _]. pose proof (sd_req_nonempty _ _ Hsd). destruct (x_msg e); [congruence|cbn [length]; lia].
  - exists s. unfold st0, st0c in *. cbn [s_fwd s_del] in *. rewrite Hf, Hd, !app_nil_r, !rev_involutive. repeat split; auto.
Qed.

(* what has been relayed stays relayed: whatever comes afterwards - a malformed or
   incomplete next request, a backend that has closed or answers garbage, the client going
   away - the requests forwarded and the replies delivered so far are only ever extended *)
Lemma drain_monotone fuel : forall s,
  exists mf md, s_fwd (fst (drain fuel s)) = mf ++ s_fwd s /\ s_del (fst (drain fuel s)) = md ++ s_del s.
Proof.
  induction fuel as [|f IH]; intros s; [exists [], []; split; reflexivity|]. cbn [drain].
  destruct (frame_req (s_buf s)) as [| |n m]; try (exists [], []; split; reflexivity).
  destruct (s_bclosed s); [exists [], []; split; reflexivity|].
  destruct (read_reply _ _ _) as [p l rest| |].
  - match goal with |- context [drain f ?x] => destruct (IH x) as (mf & md & A & B) end.
    rewrite A, B. cbn [s_fwd s_del].
    exists (mf ++ [reser_req m]), (md ++ [reser_resp p]). rewrite <- !app_assoc. split; reflexivity.
  - exists [reser_req m], []. split; reflexivity.
  - exists [reser_req m], []. split; reflexivity.
Qed.

Lemma run_monotone its : forall s,
  exists mf md, s_fwd (fst (run its s)) = mf ++ s_fwd s /\ s_del (fst (run its s)) = md ++ s_del s.
Proof.
  induction its as [|it r IH]; intros s; [exists [], []; split; reflexivity|].
  destruct it as [b|k].
  - rewrite run_seg.
    destruct (drain_monotone (S (length (s_buf s ++ b))) (set_buf s (s_buf s ++ b))) as (mf & md & A & B).
    destruct (drain _ _) as [s2 [e|]]; cbn [fst] in *.
    + exists mf, md. split; assumption.
    + destruct (IH s2) as (mf2 & md2 & A2 & B2). rewrite A2, B2, A, B. cbn [set_buf s_fwd s_del].
      exists (mf2 ++ mf), (md2 ++ md). rewrite <- !app_assoc. split; reflexivity.
  - cbn [run]. destruct (k <=? s_recvd s)%N; [apply IH|exists [], []; split; reflexivity].
Qed.

Lemma drain_not_eof fuel : forall s s', drain fuel s <> (s', Some EEof).
Proof.
  induction fuel as [|f IH]; intros s s'; cbn [drain]; [intros H; inversion H|].
  destruct (frame_req (s_buf s)); try (intros H; inversion H; fail).
  destruct (s_bclosed s); [intros H; inversion H|].
  destruct (read_reply _ _ _); try (intros H; inversion H; fail). apply IH.
Qed.

Lemma run_app_eof a : forall s s', run a s = (s', EEof) -> forall b, run (a ++ b) s = run b s'.
Proof.
  induction a as [|it r IH]; intros s s' H b.
  - cbn [run] in H. destruct (s_buf s) eqn:E; inversion H; subst. reflexivity.
  - destruct it as [x|k]; cbn [app].
    + rewrite run_seg in H |- *. destruct (drain _ _) as [s2 [e|]] eqn:D.
      * inversion H; subst. exfalso. exact (drain_not_eof _ _ _ D).
      * apply IH, H.
    + cbn [run] in H |- *. destruct (k <=? s_recvd s)%N; [apply IH, H|inversion H].
Qed.

(* every reply the backend gave for a complete request reaches the client, whole and in
   order, whatever follows the requests in the client's stream (from a write of its own on):
   more requests, a malformed one, an incomplete one, nothing *)
Lemma replies_survive_failing_next exs its tail :
  Forall ex_ok exs -> stream_of its = stream exs -> waits_ok (lens_of exs) 0 its ->
  exists more_f more_d,
    rev (s_fwd (fst (run (its ++ tail) (st0 (map x_rsegs exs))))) = fwd_of exs ++ more_f /\
    rev (s_del (fst (run (its ++ tail) (st0 (map x_rsegs exs))))) = del_of exs ++ more_d.
Proof.
  intros Hok Hs Hw. destruct (relay_all_segmentations exs its Hok Hs Hw) as (s & Hr & Hf & Hd & _).
  rewrite (run_app_eof _ _ _ Hr tail).
  destruct (run_monotone tail s) as (mf & md & A & B). rewrite A, B, !rev_app_distr, Hf, Hd.
  exists (rev mf), (rev md). split; reflexivity.
Qed.

(* once the backend has closed its connection nothing more is relayed - and nothing is taken back *)
Lemma backend_closed_keeps_replies f s n m :
  frame_req (s_buf s) = QComplete n m -> s_bclosed s = true -> drain (S f) s = (s, Some EBackendClosed).
Proof. intros H1 H2. cbn [drain]. rewrite H1, H2. reflexivity. Qed.

(* the same for a reply with a declared length, or without a body *)
Lemma frame_resp_sd h raw p :
  frame_resp h raw = PComplete (length raw) p -> (p_chunked p = false \/ h = true \/ no_body_status (p_status p) = true) ->
  sd_resp h raw p.
Proof.
  intros H Hc. split; [exact H|]. intros k Hk.
  unfold frame_resp in H |- *.
  destruct (find_crlf2 raw) as [i|] eqn:F; [|discriminate].
  pose proof (find_crlf2_bound _ _ F) as Hb.
  destruct (Nat.lt_ge_cases k (i + 4)) as [Hlt|Hge].
  - rewrite (find_crlf2_firstn_lt _ _ _ F Hlt). reflexivity.
  - rewrite (find_crlf2_firstn_ge _ _ _ F Hge).
    rewrite (firstn_firstn_le raw i k) by lia.
    destruct (split_crlf (firstn i raw)) as [|l0 ls]; [discriminate|].
    destruct (parse_statusline l0) as [st|]; [|discriminate].
    destruct (parse_headers ls) as [hs|]; [|discriminate].
    destruct (h || no_body_status st) eqn:Enb.
    + inversion H as [[Hn Hm]]. lia.
    + destruct (body_kind_of hs BKBad) as [|n|]; [discriminate| |].
      * destruct (N.to_nat n <=? length (skipn (i + 4) raw))%nat eqn:E; [|discriminate].
        inversion H as [[Hn Hm]]. rewrite skipn_firstn_length by lia.
        destruct (N.to_nat n <=? k - (i + 4))%nat eqn:E2; [|reflexivity].
        apply Nat.leb_le in E2. lia.
      * destruct (dechunk _ _ _ _); try discriminate. inversion H as [[Hn Hm]]. subst p. cbn in Hc.
        apply orb_false_iff in Enb as [-> Hs]. destruct Hc as [Hc|[Hc|Hc]]; congruence.
Qed.


(* ------------------------------------------------------------------ *)
(* re-serialisation contract                                           *)

Lemma insert_h_perm h l : Permutation (insert_h h l) (h :: l).
Proof.
  induction l as [|x l IH]; cbn [insert_h]; [apply Permutation_refl|].
  destruct (leb_bytes (fst x) (fst h)); [|apply Permutation_refl].
  eapply Permutation_trans; [apply perm_skip, IH|apply perm_swap].
Qed.

Lemma sort_headers_perm l : Permutation (sort_headers l) l.
Proof.
  unfold sort_headers.
  assert (G : forall acc, Permutation (fold_left (fun acc h => insert_h h acc) l acc) (l ++ acc)).
  { induction l as [|h l IH]; intros acc; cbn [fold_left app]; [apply Permutation_refl|].
    eapply Permutation_trans; [apply IH|].
    eapply Permutation_trans; [apply Permutation_app_head, insert_h_perm|].
    apply Permutation_sym, Permutation_middle. }
  specialize (G []). rewrite app_nil_r in G. exact G.
Qed.

Lemma reser_req_contract m :
  let m' := reser_req m in
  r_method m' = r_method m /\ r_target m' = r_target m /\ r_host m' = r_host m /\
  r_chunked m' = r_chunked m /\ r_body m' = r_body m /\
  Permutation (r_headers m') (pragma_fix (r_headers m)).
Proof. cbn. repeat split; auto. apply sort_headers_perm. Qed.

Lemma pragma_fix_id hs : hget S_PRAGMA hs = None \/ hget S_CC hs <> None -> pragma_fix hs = hs.
Proof.
  unfold pragma_fix. intros [H|H].
  - rewrite H. reflexivity.
  - destruct (hget S_PRAGMA hs); [|reflexivity]. destruct (hget S_CC hs); [reflexivity|congruence].
Qed.

Lemma reser_req_same_headers m :
  hget S_PRAGMA (r_headers m) = None \/ hget S_CC (r_headers m) <> None ->
  Permutation (r_headers (reser_req m)) (r_headers m).
Proof. intros Hp. cbn. rewrite (pragma_fix_id _ Hp). apply sort_headers_perm. Qed.

Lemma reser_resp_contract p :
  let p' := reser_resp p in
  p_status p' = p_status p /\ p_chunked p' = p_chunked p /\ p_body p' = p_body p /\
  Permutation (p_headers p') (pragma_fix (p_headers p)).
Proof. cbn. repeat split; auto. apply sort_headers_perm. Qed.

(* ------------------------------------------------------------------ *)
(* (c) copy and dns-proxy behind the server's wrappers                  *)

Lemma local_kind_behind_server peeked accepted : local_kind (server_wrap peeked accepted) = local_kind accepted.
Proof. destruct peeked; reflexivity. Qed.

Lemma switch_behind_server peeked accepted : type_switch (server_wrap peeked accepted) = type_switch accepted.
Proof. unfold type_switch. rewrite local_kind_behind_server. reflexivity. Qed.

(* copy, stream: both directions unchanged, one backend connection, one event *)
Lemma copy_stream_behind_server peeked accepted segs reply : local_kind accepted = ATcp ->
  copy_model (server_wrap peeked accepted) segs reply = mkRaw 1 segs reply 1.
Proof. intros H. unfold copy_model. rewrite switch_behind_server. unfold type_switch. rewrite H. reflexivity. Qed.

(* copy, datagram: the datagram, then one reply *)
(* however the peek wrapper hands it out, the datagram is read whole *)
Lemma dgram_read_whole k d : dgram_read k d = d.
Proof.
  unfold dgram_read, dgram_reads. destruct (has_peek k); cbn [concat]; rewrite app_nil_r; [apply firstn_skipn|reflexivity].
Qed.

Lemma copy_datagram_behind_server peeked accepted d reply more : local_kind accepted = AUdp ->
  copy_model (server_wrap peeked accepted) [d] (reply :: more) = mkRaw 1 [d] [reply] 1.
Proof.
  intros H. unfold copy_model. rewrite switch_behind_server. unfold type_switch. rewrite H.
  cbn [concat]. rewrite app_nil_r, dgram_read_whole. reflexivity.
Qed.

(* regression example: a datagram longer than the server's peek, on a shared port *)
Lemma long_datagram_on_shared_port :
  w_backend (copy_model (server_wrap true KDummyUdp) [repeat 7%N 1025] [[1]%N]) = [repeat 7%N 1025].
Proof. vm_compute. reflexivity. Qed.

(* dns-proxy, datagram: forwarded, answered, recorded - whether or not it is a DNS message *)
Lemma dns_datagram_behind_server peeked accepted d parses reply more : local_kind accepted = AUdp ->
  dns_model (server_wrap peeked accepted) [d] parses (reply :: more) = mkRaw 1 [d] [reply] 1.
Proof.
  intros H. unfold dns_model. rewrite switch_behind_server. unfold type_switch. rewrite H.
  cbn [concat]. rewrite app_nil_r, dgram_read_whole. reflexivity.
Qed.

(* io.ReadFull over any segmentation: the first n bytes of the stream, the rest stays *)
Lemma take_concat segs : forall n, (n <= length (concat segs))%nat ->
  exists rest, take segs n = Some (firstn n (concat segs), rest) /\ concat rest = skipn n (concat segs).
Proof.
  induction segs as [|s r IH]; intros n Hn.
  - cbn [concat length] in Hn. assert (n = 0%nat) by lia. subst n. exists []. split; reflexivity.
  - destruct n as [|n']; [exists (s :: r); split; reflexivity|].
    cbn [take concat]. cbn [concat] in Hn. rewrite app_length in Hn.
    destruct (length s <? S n')%nat eqn:E.
    + apply Nat.ltb_lt in E.
      destruct (IH (S n' - length s)%nat ltac:(lia)) as (rest & Ht & Hc).
      rewrite Ht. exists rest. split.
      * f_equal. f_equal. rewrite firstn_app, (firstn_all2 s) by lia. reflexivity.
      * rewrite Hc, skipn_app, (skipn_all2 s) by lia. reflexivity.
    + apply Nat.ltb_ge in E.
      exists (match skipn (S n') s with [] => r | t => t :: r end). split.
      * f_equal. f_equal. rewrite firstn_app. replace (S n' - length s)%nat with 0%nat by lia.
        rewrite firstn_O, app_nil_r. reflexivity.
      * rewrite skipn_app. replace (S n' - length s)%nat with 0%nat by lia. rewrite skipn_O.
        destruct (skipn (S n') s); reflexivity.
Qed.

Lemma pfx_value n : N.to_nat (N.of_nat (n / 256) * 256 + N.of_nat (n mod 256)) = n.
Proof.
  rewrite N2Nat.inj_add, N2Nat.inj_mul, !Nat2N.id. change (N.to_nat 256) with 256%nat.
  pose proof (Nat.div_mod n 256 ltac:(lia)). lia.
Qed.

(* readMsg: a length-framed message is read whole, however the stream is cut, and what
   follows it stays *)
Lemma read_msg_framed segs q x :
  concat segs = pfx (length q) ++ q ++ x ->
  exists rest, read_msg segs = Some (q, rest) /\ concat rest = x.
Proof.
  intros H. unfold read_msg.
  destruct (take_concat segs 2) as (r1 & Ht & Hc).
  { rewrite H. unfold pfx. cbn [app length]. lia. }
  rewrite Ht, H. unfold pfx. cbn [app firstn]. rewrite H in Hc. unfold pfx in Hc. cbn [app skipn] in Hc.
  rewrite pfx_value.
  destruct (take_concat r1 (length q)) as (r2 & Ht2 & Hc2).
  { rewrite Hc, app_length. lia. }
  rewrite Ht2, Hc. exists r2. split.
  - rewrite firstn_app, firstn_all, Nat.sub_diag. cbn [firstn]. rewrite app_nil_r. reflexivity.
  - rewrite Hc2, Hc, skipn_app, skipn_all, Nat.sub_diag. reflexivity.
Qed.

(* dns-proxy over a stream behind the server: for ALL segmentations of a length-framed DNS
   query and of the length-framed answer, the backend receives the framed query, the client
   the framed answer; one backend connection, one event *)
Lemma dns_stream_behind_server peeked accepted csegs bsegs q a x y : local_kind accepted = ATcp ->
  (N.of_nat (length q) < 65536)%N -> (N.of_nat (length a) < 65536)%N ->
  concat csegs = pfx (length q) ++ q ++ x -> concat bsegs = pfx (length a) ++ a ++ y ->
  dns_model (server_wrap peeked accepted) csegs true bsegs =
  mkRaw 1 [pfx (length q) ++ q] [pfx (length a) ++ a] 1.
Proof.
  intros H _ _ Hq Ha. unfold dns_model. rewrite switch_behind_server. unfold type_switch. rewrite H.
  destruct (read_msg_framed _ _ _ Hq) as (r1 & -> & _).
  destruct (read_msg_framed _ _ _ Ha) as (r2 & -> & _). reflexivity.
Qed.

(* a framed message that is not DNS, or a stream that ends before the message is complete: nothing is dialled *)
Lemma dns_stream_rejects peeked accepted csegs bsegs : local_kind accepted = ATcp ->
  dns_model (server_wrap peeked accepted) csegs false bsegs = raw_nothing.
Proof.
  intros H. unfold dns_model. rewrite switch_behind_server. unfold type_switch. rewrite H.
  destruct (read_msg csegs) as [[q r]|]; reflexivity.
Qed.

(* concurrent connections do not interfere: whatever the interleaving, what a connection
   has received is its own segments in its own order (the frame property of a model in which
   no state is shared between connections) *)
Lemma arrive_all_frame l : forall g i, arrive_all g l i = g i ++ own i l.
Proof.
  induction l as [|[j s] r IH]; intros g i; cbn [arrive_all own filter map fst].
  - rewrite app_nil_r. reflexivity.
  - rewrite IH. unfold arrive, own. destruct (i =? j)%nat eqn:E.
    + apply Nat.eqb_eq in E. subst j. rewrite Nat.eqb_refl. cbn [map snd]. rewrite <- app_assoc. reflexivity.
    + rewrite Nat.eqb_sym in E. rewrite E. reflexivity.
Qed.

Lemma concurrent_raw_no_interference l i k parses reply :
  dns_model k (arrive_all (fun _ => []) l i) parses reply = dns_model k (own i l) parses reply /\
  copy_model k (arrive_all (fun _ => []) l i) reply = copy_model k (own i l) reply.
Proof. rewrite arrive_all_frame. cbn [app]. split; reflexivity. Qed.

Lemma other_address_nothing peeked a segs reply : a = AOtherAddr ->
  copy_model (server_wrap peeked (KOther a)) segs reply = raw_nothing.
Proof. intros ->. destruct peeked; reflexivity. Qed.

(* ------------------------------------------------------------------ *)
(* (d) ssh                                                             *)

Lemma auth_run_spec accepts attempts :
  let '(tried, ok) := auth_run accepts attempts in
  exists rest, attempts = tried ++ rest /\
    if ok then exists pre c, tried = pre ++ [c] /\ accepts c = true /\ Forall (fun x => accepts x = false) pre
    else rest = [] /\ Forall (fun x => accepts x = false) tried.
Proof.
  induction attempts as [|c r IH]; cbn [auth_run].
  - exists []. split; [reflexivity|]. split; [reflexivity|constructor].
  - destruct (accepts c) eqn:E.
    + exists r. split; [reflexivity|]. exists [], c. repeat split; auto.
    + destruct (auth_run accepts r) as [l ok]. destruct IH as (rest & -> & H).
      exists rest. split; [reflexivity|]. destruct ok.
      * destruct H as (pre & c' & -> & Hc & Hpre). exists (c :: pre), c'. repeat split; auto.
      * destruct H as [-> Hall]. split; [reflexivity|]. constructor; assumption.
Qed.

(* the whole authentication dialogue of one connection: with no limit on the number of
   failed requests (max <= 0; the proxy configures -1) every request the client makes is
   answered, every password reaches the backend once, in order, and the verdict is the
   backend's - for dialogues of any length, from any count of earlier failures *)
Lemma auth_guard_off max fails : max <= 0 -> ((max <=? fails) && (0 <? max))%bool = false.
Proof. intros H. replace (0 <? max) with false; [apply andb_false_r|]. symmetry. apply Z.ltb_ge. exact H. Qed.

Lemma pubs_of_cons_pub r : pubs_of (APub :: r) = (1 + pubs_of r)%N.
Proof. unfold pubs_of. cbn [filter length]. rewrite Nat2N.inj_succ, N.add_1_l. reflexivity. Qed.

Lemma auth_dialogue_relays_all max oracle user reqs : max <= 0 -> forall fails,
  let o := auth_dialogue max oracle user fails reqs in
  let sent := client_sends oracle user reqs in
  au_saw o = creds_of user sent /\
  au_verdicts o = map (backend_verdict oracle user) sent /\
  au_pk o = pubs_of sent /\
  au_open o = true.
Proof.
  intros Hmax. induction reqs as [|q r IH]; intros fails; cbn zeta.
  - cbn [auth_dialogue client_sends creds_of flat_map map au_saw au_verdicts au_pk au_open].
    rewrite (auth_guard_off _ _ Hmax). repeat split; reflexivity.
  - cbn [auth_dialogue]. rewrite (auth_guard_off _ _ Hmax).
    destruct q as [| |pw].
    + destruct (IH ((if fails =? 0 then fails - 1 else fails) + 1)) as (Hs & Hv & Hp & Ho). cbn zeta in *.
      cbn [client_sends creds_of flat_map map backend_verdict auth_cons au_saw au_verdicts au_pk au_open app].
      fold (creds_of user (client_sends oracle user r)).
      rewrite Hs, Hv, Hp, Ho. repeat split; reflexivity.
    + destruct (IH (fails + 1)) as (Hs & Hv & Hp & Ho). cbn zeta in *.
      cbn [client_sends creds_of flat_map map backend_verdict auth_cons au_saw au_verdicts au_pk au_open app].
      fold (creds_of user (client_sends oracle user r)).
      rewrite pubs_of_cons_pub, Hs, Hv, Hp, Ho. repeat split; reflexivity.
    + cbn [client_sends]. destruct (oracle (user, pw)) eqn:E.
      * cbn [creds_of flat_map map backend_verdict au_saw au_verdicts au_pk au_open app]. rewrite E.
        repeat split; reflexivity.
      * destruct (IH (fails + 1)) as (Hs & Hv & Hp & Ho). cbn zeta in *.
        cbn [creds_of flat_map map backend_verdict auth_cons au_saw au_verdicts au_pk au_open app].
        fold (creds_of user (client_sends oracle user r)).
        rewrite E, Hs, Hv, Hp, Ho. repeat split; reflexivity.
Qed.

(* for a dialogue of passwords only this is the attempt-by-attempt run of auth_run *)
Lemma auth_dialogue_passwords max oracle user pws : max <= 0 -> forall fails,
  au_saw (auth_dialogue max oracle user fails (map APw pws)) = fst (auth_run oracle (map (pair user) pws)) /\
  existsb (fun v => match v with VOk => true | _ => false end)
          (au_verdicts (auth_dialogue max oracle user fails (map APw pws))) = snd (auth_run oracle (map (pair user) pws)).
Proof.
  intros Hmax. induction pws as [|pw r IH]; intros fails; cbn [map auth_dialogue auth_run].
  - rewrite (auth_guard_off _ _ Hmax). split; reflexivity.
  - rewrite (auth_guard_off _ _ Hmax). destruct (oracle (user, pw)) eqn:E.
    + split; reflexivity.
    + destruct (IH (fails + 1)) as [Hs Hv].
      destruct (auth_run oracle (map (pair user) r)) as [l ok] eqn:R.
      cbn [auth_cons au_saw au_verdicts app fst snd existsb orb] in *. rewrite Hs, Hv. split; reflexivity.
Qed.

(* the hypothesis max <= 0 is needed: with a limit of six (what x/crypto/ssh makes of an
   unset MaxAuthTries) the seventh password of a connection reaches nobody *)
Definition PW (n : N) : areq := APw [119; n]%N.
Definition ORACLE_LAST (c : cred) : bool := eqb_bytes (snd c) [119; 8]%N.
Lemma auth_limit_example :
  let reqs := ANone :: map PW [1;2;3;4;5;6;7;8]%N in
  client_sends ORACLE_LAST [114]%N reqs = reqs /\
  au_saw (auth_dialogue PROXY_MAX_AUTH_TRIES ORACLE_LAST [114]%N 0 reqs) = creds_of [114]%N reqs /\
  au_saw (auth_dialogue 6 ORACLE_LAST [114]%N 0 reqs) = creds_of [114]%N (firstn 7 reqs) /\
  au_verdicts (auth_dialogue 6 ORACLE_LAST [114]%N 0 reqs) = [VFail; VFail; VFail; VFail; VFail; VFail; VFail; VClosed; VClosed] /\
  au_open (auth_dialogue 6 ORACLE_LAST [114]%N 0 reqs) = false.
Proof. vm_compute. repeat split. Qed.

Definition ssh_inv (s : ssh_st) : Prop :=
  Forall (fun m => is_req m = true) (q_req s) /\ Forall (fun m => is_req m = false) (q_data s).

Lemma filter_all {A} (f : A -> bool) l : Forall (fun x => f x = true) l -> filter f l = l.
Proof. induction 1 as [|x l Hx _ IH]; cbn [filter]; [reflexivity|]. rewrite Hx, IH; reflexivity. Qed.

Lemma filter_none {A} (f : A -> bool) l : Forall (fun x => f x = false) l -> filter f l = [].
Proof. induction 1 as [|x l Hx _ IH]; cbn [filter]; [reflexivity|]. rewrite Hx, IH; reflexivity. Qed.

Lemma data_of_app a b : data_of (a ++ b) = data_of a ++ data_of b.
Proof. unfold data_of. apply flat_map_app. Qed.

Lemma data_of_reqs l : Forall (fun m => is_req m = true) l -> data_of l = [].
Proof.
  induction 1 as [|x l Hx _ IH]; [reflexivity|]. unfold data_of in *. cbn [flat_map]. rewrite IH.
  destruct x; [reflexivity|discriminate].
Qed.

Lemma ssh_step_inv s b : ssh_inv s -> ssh_inv (ssh_step s b).
Proof.
  intros [Hr Hd]. unfold ssh_step. destruct b.
  - destruct (q_req s) eqn:E; [split; [rewrite E|]; assumption|].
    split; cbn [q_req q_data]; [apply (Forall_inv_tail Hr)|exact Hd].
  - destruct (q_data s) eqn:E; [split; [|rewrite E]; assumption|].
    split; cbn [q_req q_data]; [exact Hr|apply (Forall_inv_tail Hd)].
Qed.

Lemma ssh_step_reqs s b : ssh_inv s ->
  reqs_of (q_out (ssh_step s b)) ++ q_req (ssh_step s b) = reqs_of (q_out s) ++ q_req s.
Proof.
  intros [Hr Hd]. unfold ssh_step, reqs_of. destruct b.
  - destruct (q_req s) as [|m r] eqn:E; [rewrite E; reflexivity|].
    cbn [q_out q_req]. rewrite filter_app. cbn [filter]. rewrite (Forall_inv Hr). rewrite <- app_assoc. reflexivity.
  - destruct (q_data s) as [|m r] eqn:E; [reflexivity|].
    cbn [q_out q_req]. rewrite filter_app. cbn [filter]. rewrite (Forall_inv Hd), app_nil_r. reflexivity.
Qed.

Lemma ssh_step_data s b : ssh_inv s ->
  data_of (q_out (ssh_step s b)) ++ data_of (q_data (ssh_step s b)) = data_of (q_out s) ++ data_of (q_data s).
Proof.
  intros [Hr Hd]. unfold ssh_step. destruct b.
  - destruct (q_req s) as [|m r] eqn:E; [reflexivity|].
    cbn [q_out q_data]. rewrite data_of_app. pose proof (Forall_inv Hr) as Hm.
    destruct m; [|discriminate]. unfold data_of at 2. cbn [flat_map]. rewrite !app_nil_r. reflexivity.
  - destruct (q_data s) as [|m r] eqn:E; [rewrite E; reflexivity|].
    cbn [q_out q_data]. rewrite data_of_app, <- app_assoc.
    change (m :: r) with ([m] ++ r). rewrite data_of_app. reflexivity.
Qed.

Lemma ssh_step_perm s b : Permutation (q_out (ssh_step s b) ++ q_req (ssh_step s b) ++ q_data (ssh_step s b))
                                      (q_out s ++ q_req s ++ q_data s).
Proof.
  destruct s as [qr qd qo]. unfold ssh_step. cbn [q_req q_data q_out]. destruct b.
  - destruct qr as [|m r]; cbn [q_req q_data q_out]; [apply Permutation_refl|].
    rewrite <- app_assoc. apply Permutation_refl.
  - destruct qd as [|m r]; cbn [q_req q_data q_out]; [apply Permutation_refl|].
    rewrite <- app_assoc. apply Permutation_app_head.
    cbn [app]. apply Permutation_middle.
Qed.

Lemma ssh_run_props sched : forall s, ssh_inv s ->
  ssh_inv (ssh_run s sched) /\
  reqs_of (q_out (ssh_run s sched)) ++ q_req (ssh_run s sched) = reqs_of (q_out s) ++ q_req s /\
  data_of (q_out (ssh_run s sched)) ++ data_of (q_data (ssh_run s sched)) = data_of (q_out s) ++ data_of (q_data s) /\
  Permutation (ssh_finish (ssh_run s sched)) (ssh_finish s).
Proof.
  induction sched as [|b r IH]; intros s Hi; cbn [ssh_run].
  - repeat split; auto; apply Hi.
  - destruct (IH _ (ssh_step_inv s b Hi)) as (H1 & H2 & H3 & H4).
    split; [exact H1|]. split; [rewrite H2; apply ssh_step_reqs, Hi|].
    split; [rewrite H3; apply ssh_step_data, Hi|].
    eapply Permutation_trans; [exact H4|]. unfold ssh_finish. apply ssh_step_perm.
Qed.

Lemma demux_inv msgs : ssh_inv (ssh_demux msgs).
Proof.
  split; cbn [ssh_demux q_req q_data]; apply Forall_forall; intros x Hx; apply filter_In in Hx as [_ Hx];
    [exact Hx|apply negb_true_iff, Hx].
Qed.

Lemma data_of_filter msgs : data_of (filter (fun m => negb (is_req m)) msgs) = data_of msgs.
Proof.
  induction msgs as [|m r IH]; [reflexivity|]. cbn [filter]. destruct m; cbn [is_req negb].
  - unfold data_of in *. cbn [flat_map app]. exact IH.
  - unfold data_of in *. cbn [flat_map]. rewrite IH. reflexivity.
Qed.

Lemma partition_perm {A} (f : A -> bool) l : Permutation (filter f l ++ filter (fun x => negb (f x)) l) l.
Proof.
  induction l as [|x l IH]; [apply Permutation_refl|]. cbn [filter]. destruct (f x); cbn [negb app].
  - apply perm_skip, IH.
  - eapply Permutation_trans; [apply Permutation_sym, Permutation_middle|]. apply perm_skip, IH.
Qed.

Lemma ssh_relay_order msgs sched :
  reqs_of (ssh_relay msgs sched) = reqs_of msgs /\
  data_of (ssh_relay msgs sched) = data_of msgs /\
  Permutation (ssh_relay msgs sched) msgs.
Proof.
  unfold ssh_relay. destruct (ssh_run_props sched _ (demux_inv msgs)) as ([Hr Hd] & H2 & H3 & H4).
  set (s := ssh_run (ssh_demux msgs) sched) in *. unfold ssh_finish at 1 2.
  split; [|split].
  - unfold reqs_of at 1. rewrite !filter_app. fold (reqs_of (q_out s)).
    rewrite (filter_all _ _ Hr), (filter_none _ _ Hd), app_nil_r, H2. reflexivity.
  - rewrite !data_of_app, (data_of_reqs _ Hr). cbn [app]. rewrite H3.
    cbn [ssh_demux q_out q_data]. apply data_of_filter.
  - eapply Permutation_trans; [exact H4|]. unfold ssh_finish. cbn [ssh_demux q_out q_req q_data app].
    apply partition_perm.
Qed.


(* closing: whatever was written before the close is delivered, for every interleaving of
   the copier with the (now harmless) end of the request goroutine *)
Lemma relay_until_close_all chunks : forall sched, relay_until_close chunks sched = concat chunks.
Proof.
  induction chunks as [|c cs IH]; intros sched.
  - induction sched as [|[|] r IHr]; cbn [relay_until_close]; auto.
  - induction sched as [|[|] r IHr]; cbn [relay_until_close]; auto.
    cbn [concat]. rewrite IH. reflexivity.
Qed.

(* data written after a channel request can overtake it *)
Lemma ssh_cross_order_refuted :
  exists msgs sched, ssh_relay msgs sched <> msgs.
Proof.
  exists [MReq [101; 120; 101; 99]%N true [108; 115]%N; MData [120]%N], [false].
  vm_compute. discriminate.
Qed.

(* ------------------------------------------------------------------ *)
(* both directions with half-close                                      *)

Lemma dstep_dead p l : forall s, d_alive s = false -> fold_left (dstep p) l s = s.
Proof.
  induction l as [|e r IH]; intros s H; [reflexivity|]. cbn [fold_left].
  assert (E : dstep p s e = s) by (unfold dstep; rewrite H; reflexivity). rewrite E. apply IH, H.
Qed.

Lemma ups_app a b : ups (a ++ b) = ups a ++ ups b.
Proof. apply flat_map_app. Qed.
Lemma downs_app a b : downs (a ++ b) = downs a ++ downs b.
Proof. apply flat_map_app. Qed.

(* exactly what was written before the relay stops is delivered, in both directions *)
Lemma duplex_gen p l : forall s, d_alive s = true ->
  d_up (fold_left (dstep p) l s) = d_up s ++ ups (until_stop p (d_cdone s) (d_bdone s) l) /\
  d_down (fold_left (dstep p) l s) = d_down s ++ downs (until_stop p (d_cdone s) (d_bdone s) l).
Proof.
  induction l as [|e r IH]; intros s H; cbn [fold_left until_stop].
  - cbn. rewrite !app_nil_r. split; reflexivity.
  - unfold dstep at 2 4. rewrite H.
    destruct e as [c| |c|].
    + destruct (IH (mkDst true (d_up s ++ c) (d_down s) (d_cdone s) (d_bdone s)) eq_refl) as [A B].
      rewrite A, B. cbn [d_up d_down d_cdone d_bdone]. unfold ups, downs. cbn [flat_map app]. rewrite <- app_assoc. split; reflexivity.
    + destruct (stops_now p true (d_bdone s)) eqn:E; cbn [negb].
      * rewrite dstep_dead by reflexivity. cbn. rewrite !app_nil_r. split; reflexivity.
      * destruct (IH (mkDst true (d_up s) (d_down s) true (d_bdone s)) eq_refl) as [A B].
        rewrite A, B. cbn [d_up d_down d_cdone d_bdone]. split; reflexivity.
    + destruct (IH (mkDst true (d_up s) (d_down s ++ c) (d_cdone s) (d_bdone s)) eq_refl) as [A B].
      rewrite A, B. cbn [d_up d_down d_cdone d_bdone]. unfold ups, downs. cbn [flat_map app]. rewrite <- app_assoc. split; reflexivity.
    + destruct (stops_now p (d_cdone s) true) eqn:E; cbn [negb].
      * rewrite dstep_dead by reflexivity. cbn. rewrite !app_nil_r. split; reflexivity.
      * destruct (IH (mkDst true (d_up s) (d_down s) (d_cdone s) true) eq_refl) as [A B].
        rewrite A, B. cbn [d_up d_down d_cdone d_bdone]. split; reflexivity.
Qed.

Lemma duplex_spec p l :
  d_up (duplex_run p l) = ups (until_stop p false false l) /\ d_down (duplex_run p l) = downs (until_stop p false false l).
Proof. unfold duplex_run. destruct (duplex_gen p l dst0 eq_refl) as [A B]. rewrite A, B. split; reflexivity. Qed.

(* never anything but a prefix of what was written *)
Lemma until_stop_prefix p l : forall c b, exists rest, l = until_stop p c b l ++ rest.
Proof.
  induction l as [|e r IH]; intros c b; [exists []; reflexivity|]. cbn [until_stop].
  destruct e as [x| |x|].
  - destruct (IH c b) as [rest E]. exists rest. cbn [app]. rewrite <- E. reflexivity.
  - destruct (stops_now p true b); [exists (DCEof :: r); reflexivity|].
    destruct (IH true b) as [rest E]. exists rest. cbn [app]. rewrite <- E. reflexivity.
  - destruct (IH c b) as [rest E]. exists rest. cbn [app]. rewrite <- E. reflexivity.
  - destruct (stops_now p c true); [exists (DBEof :: r); reflexivity|].
    destruct (IH c true) as [rest E]. exists rest. cbn [app]. rewrite <- E. reflexivity.
Qed.

Lemma duplex_prefix p l :
  (exists x, ups l = d_up (duplex_run p l) ++ x) /\ (exists y, downs l = d_down (duplex_run p l) ++ y).
Proof.
  destruct (duplex_spec p l) as [A B]. destruct (until_stop_prefix p l false false) as [rest E].
  split; [exists (ups rest); rewrite A, <- ups_app, <- E|exists (downs rest); rewrite B, <- downs_app, <- E]; reflexivity.
Qed.

(* once both sides have ended their directions nothing can follow; once the backend has, no backend data *)
Lemma sched_ok_done l : sched_ok true true l -> l = [].
Proof. destruct l as [|[x| |x|] r]; cbn [sched_ok]; intros H; [reflexivity| | | |]; destruct H; discriminate. Qed.

Lemma sched_ok_bdone l : forall c, sched_ok c true l -> downs l = [].
Proof.
  induction l as [|e r IH]; intros c H; [reflexivity|].
  destruct e as [x| |x|]; cbn [sched_ok] in H; destruct H as [H1 H2]; try discriminate.
  - unfold downs in *. cbn [flat_map app]. apply (IH c H2).
  - unfold downs in *. cbn [flat_map app]. apply (IH true H2).
Qed.

Lemma sched_ok_cdone l : forall b, sched_ok true b l -> ups l = [].
Proof.
  induction l as [|e r IH]; intros b H; [reflexivity|].
  destruct e as [x| |x|]; cbn [sched_ok] in H; destruct H as [H1 H2]; try discriminate.
  - unfold ups in *. cbn [flat_map app]. apply (IH b H2).
  - unfold ups in *. cbn [flat_map app]. apply (IH true H2).
Qed.

(* copy: the relay goes on until BOTH directions have ended, so everything written in
   either direction is delivered whatever the order in which the directions end *)
Lemma until_stop_both_all l : forall c b, sched_ok c b l ->
  ups (until_stop StopBoth c b l) = ups l /\ downs (until_stop StopBoth c b l) = downs l.
Proof.
  induction l as [|e r IH]; intros c b H; [split; reflexivity|].
  destruct e as [x| |x|]; cbn [sched_ok] in H; destruct H as [H1 H2]; cbn [until_stop stops_now].
  - destruct (IH c b H2) as [A B]. unfold ups, downs in *. cbn [flat_map app]. rewrite A, B. split; reflexivity.
  - cbn [andb]. destruct b.
    + rewrite (sched_ok_done r H2). split; reflexivity.
    + destruct (IH true false H2) as [A B]. unfold ups, downs in *. cbn [flat_map app]. split; assumption.
  - destruct (IH c b H2) as [A B]. unfold ups, downs in *. cbn [flat_map app]. rewrite A, B. split; reflexivity.
  - destruct c; cbn [andb].
    + rewrite (sched_ok_done r H2). split; reflexivity.
    + destruct (IH false true H2) as [A B]. unfold ups, downs in *. cbn [flat_map app]. split; assumption.
Qed.

Lemma copy_duplex_complete l : sched_ok false false l ->
  d_up (copy_duplex l) = ups l /\ d_down (copy_duplex l) = downs l.
Proof.
  intros H. unfold copy_duplex. destruct (duplex_spec StopBoth l) as [-> ->]. apply until_stop_both_all, H.
Qed.

(* copy stops exactly when both directions have ended *)
Definition is_ceof (e : dev) : bool := match e with DCEof => true | _ => false end.
Definition is_beof (e : dev) : bool := match e with DBEof => true | _ => false end.

Lemma copy_alive_gen l : forall s, d_alive s = true -> (d_cdone s && d_bdone s = false) ->
  sched_ok (d_cdone s) (d_bdone s) l ->
  d_alive (fold_left (dstep StopBoth) l s) = negb ((d_cdone s || existsb is_ceof l) && (d_bdone s || existsb is_beof l)).
Proof.
  induction l as [|e r IH]; intros s Ha Hn Hok; cbn [fold_left existsb].
  - rewrite !orb_false_r, Hn, Ha. reflexivity.
  - unfold dstep at 2. rewrite Ha.
    destruct e as [x| |x|]; cbn [sched_ok] in Hok; destruct Hok as [H1 H2]; cbn [is_ceof is_beof orb stops_now].
    + rewrite (IH (mkDst true (d_up s ++ x) (d_down s) (d_cdone s) (d_bdone s)) eq_refl Hn H2). reflexivity.
    + rewrite H1 in *. cbn [orb andb] in *. destruct (d_bdone s) eqn:B; cbn [andb negb orb].
      * rewrite dstep_dead by reflexivity. reflexivity.
      * rewrite (IH (mkDst true (d_up s) (d_down s) true false) eq_refl eq_refl H2). cbn [d_cdone d_bdone orb]. reflexivity.
    + rewrite (IH (mkDst true (d_up s) (d_down s ++ x) (d_cdone s) (d_bdone s)) eq_refl Hn H2). reflexivity.
    + rewrite H1 in *. destruct (d_cdone s) eqn:C; cbn [andb negb orb].
      * rewrite dstep_dead by reflexivity. cbn [d_alive orb andb negb]. reflexivity.
      * rewrite (IH (mkDst true (d_up s) (d_down s) false true) eq_refl eq_refl H2). cbn [d_cdone d_bdone orb andb].
        reflexivity.
Qed.

Lemma copy_stops_when_both_ended l : sched_ok false false l ->
  d_alive (copy_duplex l) = negb (existsb is_ceof l && existsb is_beof l).
Proof. intros H. unfold copy_duplex, duplex_run. rewrite (copy_alive_gen l dst0 eq_refl eq_refl H). reflexivity. Qed.

(* ssh-proxy: the client's end of input is passed on and the session goes on until the
   backend's direction ends: everything the backend writes - also after the client's EOF -
   reaches the client *)
Lemma until_stop_backend_down l : forall c, sched_ok c false l ->
  downs (until_stop StopOnBackend c false l) = downs l.
Proof.
  induction l as [|e r IH]; intros c H; [reflexivity|].
  destruct e as [x| |x|]; cbn [sched_ok] in H; destruct H as [H1 H2]; cbn [until_stop stops_now].
  - unfold downs in *. cbn [flat_map app]. apply (IH c H2).
  - unfold downs in *. cbn [flat_map app]. apply (IH true H2).
  - unfold downs in *. cbn [flat_map]. f_equal. apply (IH c H2).
  - unfold downs. cbn [flat_map app]. symmetry. apply (sched_ok_bdone r c H2).
Qed.

Lemma ssh_duplex_down_complete l : sched_ok false false l -> d_down (ssh_duplex l) = downs l.
Proof.
  intros H. unfold ssh_duplex. destruct (duplex_spec StopOnBackend l) as [_ ->]. apply until_stop_backend_down, H.
Qed.

(* ... and the backend everything the client wrote before the backend's direction ended *)
Fixpoint c_done_before_beof (l : list dev) : Prop :=
  match l with [] => True | DBEof :: r => ups r = [] | _ :: r => c_done_before_beof r end.

Lemma until_stop_backend_up l : forall c, c_done_before_beof l ->
  ups (until_stop StopOnBackend c false l) = ups l.
Proof.
  induction l as [|e r IH]; intros c H; [reflexivity|].
  destruct e as [x| |x|]; cbn [c_done_before_beof] in H; cbn [until_stop stops_now].
  - unfold ups in *. cbn [flat_map]. f_equal. apply (IH c H).
  - unfold ups in *. cbn [flat_map app]. apply (IH true H).
  - unfold ups in *. cbn [flat_map app]. apply (IH c H).
  - unfold ups. cbn [flat_map app]. symmetry. exact H.
Qed.

Lemma ssh_duplex_up_complete l : c_done_before_beof l -> d_up (ssh_duplex l) = ups l.
Proof.
  intros H. unfold ssh_duplex. destruct (duplex_spec StopOnBackend l) as [-> _]. apply until_stop_backend_up, H.
Qed.

(* ------------------------------------------------------------------ *)
(* concrete messages used as witnesses                                  *)

(* GET /first HTTP/1.1\r\nHost: a\r\nUser-Agent: c\r\n\r\n *)
Definition W_REQ_A : bytes := [71;69;84;32;47;102;105;114;115;116;32;72;84;84;80;47;49;46;49;13;10;72;111;115;116;58;32;97;13;10;85;115;101;114;45;65;103;101;110;116;58;32;99;13;10;13;10]%N.
(* GET /second HTTP/1.1\r\nHost: a\r\nUser-Agent: c\r\n\r\n *)
Definition W_REQ_B : bytes := [71;69;84;32;47;115;101;99;111;110;100;32;72;84;84;80;47;49;46;49;13;10;72;111;115;116;58;32;97;13;10;85;115;101;114;45;65;103;101;110;116;58;32;99;13;10;13;10]%N.
(* HTTP/1.1 200 OK\r\nContent-Length: 2\r\n\r\nok *)
Definition W_REPLY : bytes := [72;84;84;80;47;49;46;49;32;50;48;48;32;79;75;13;10;67;111;110;116;101;110;116;45;76;101;110;103;116;104;58;32;50;13;10;13;10;111;107]%N.
(* GET /probe HTTP/1.1\r\nHost: example.com\r\n\r\n *)
Definition W_REQ_NOUA : bytes := [71;69;84;32;47;112;114;111;98;101;32;72;84;84;80;47;49;46;49;13;10;72;111;115;116;58;32;101;120;97;109;112;108;101;46;99;111;109;13;10;13;10]%N.
(* HEAD / HTTP/1.1\r\nHost: a\r\nUser-Agent: c\r\n\r\n *)
Definition W_REQ_HEAD : bytes := [72;69;65;68;32;47;32;72;84;84;80;47;49;46;49;13;10;72;111;115;116;58;32;97;13;10;85;115;101;114;45;65;103;101;110;116;58;32;99;13;10;13;10]%N.
(* HTTP/1.1 200 OK\r\nTransfer-Encoding: chunked\r\n\r\n *)
Definition W_REPLY_HEAD : bytes := [72;84;84;80;47;49;46;49;32;50;48;48;32;79;75;13;10;84;114;97;110;115;102;101;114;45;69;110;99;111;100;105;110;103;58;32;99;104;117;110;107;101;100;13;10;13;10]%N.
(* POST /p?x=1 HTTP/1.1\r\nhost: a\r\nX-m: 1\r\nuser-agent: c\r\nContent-Length: 5\r\nx-M: 2\r\n\r\nhello *)
Definition W_REQ_POST : bytes := [80;79;83;84;32;47;112;63;120;61;49;32;72;84;84;80;47;49;46;49;13;10;104;111;115;116;58;32;97;13;10;88;45;109;58;32;49;13;10;117;115;101;114;45;97;103;101;110;116;58;32;99;13;10;67;111;110;116;101;110;116;45;76;101;110;103;116;104;58;32;53;13;10;120;45;77;58;32;50;13;10;13;10;104;101;108;108;111]%N.
(* PUT /c HTTP/1.1\r\nHost: a\r\nUser-Agent: c\r\nTransfer-Encoding: chunked\r\n\r\n3\r\nabc\r\n2\r\nde\r\n0\r\n\r\n *)
Definition W_REQ_CHUNKED : bytes := [80;85;84;32;47;99;32;72;84;84;80;47;49;46;49;13;10;72;111;115;116;58;32;97;13;10;85;115;101;114;45;65;103;101;110;116;58;32;99;13;10;84;114;97;110;115;102;101;114;45;69;110;99;111;100;105;110;103;58;32;99;104;117;110;107;101;100;13;10;13;10;51;13;10;97;98;99;13;10;50;13;10;100;101;13;10;48;13;10;13;10]%N.
(* HTTP/1.1 404 Not Found\r\nServer: s\r\nTransfer-Encoding: chunked\r\n\r\n4\r\nnope\r\n0\r\n\r\n *)
Definition W_REPLY_CHUNKED : bytes := [72;84;84;80;47;49;46;49;32;52;48;52;32;78;111;116;32;70;111;117;110;100;13;10;83;101;114;118;101;114;58;32;115;13;10;84;114;97;110;115;102;101;114;45;69;110;99;111;100;105;110;103;58;32;99;104;117;110;107;101;100;13;10;13;10;52;13;10;110;111;112;101;13;10;48;13;10;13;10]%N.

(* GET /p HTTP/1.1\r\nHost: a\r\nUser-Agent: c\r\nPragma: no-cache\r\n\r\n *)
Definition W_REQ_PRAGMA : bytes := [71;69;84;32;47;112;32;72;84;84;80;47;49;46;49;13;10;72;111;115;116;58;32;97;13;10;85;115;101;114;45;65;103;101;110;116;58;32;99;13;10;80;114;97;103;109;97;58;32;110;111;45;99;97;99;104;101;13;10;13;10]%N.

(* ------------------------------------------------------------------ *)
(* executable self-delimitation check (covers chunked witnesses)        *)

Definition DUMMY_REQ : sem_req := mkReq [] [] [] [] false [].
Definition DUMMY_RESP : sem_resp := mkResp 0 [] false [].
Definition parsed_req (b : bytes) : sem_req := match frame_req b with QComplete _ m => m | _ => DUMMY_REQ end.
Definition parsed_resp (h : bool) (b : bytes) : sem_resp := match frame_resp h b with PComplete _ p => p | _ => DUMMY_RESP end.

Definition sd_req_b (msg : bytes) : bool :=
  match frame_req msg with
  | QComplete n _ => (n =? length msg)%nat &&
      forallb (fun k => match frame_req (firstn k msg) with QIncomplete => true | _ => false end) (seq 0 (length msg))
  | _ => false
  end.

Definition sd_resp_b (h : bool) (raw : bytes) : bool :=
  match frame_resp h raw with
  | PComplete n _ => (n =? length raw)%nat &&
      forallb (fun k => match frame_resp h (firstn k raw) with PIncomplete => true | _ => false end) (seq 0 (length raw))
  | _ => false
  end.

Lemma sd_req_b_sound msg : sd_req_b msg = true -> sd_req msg (parsed_req msg).
Proof.
  unfold sd_req_b, parsed_req. destruct (frame_req msg) as [| |n m] eqn:F; try discriminate.
  intros H. apply andb_true_iff in H as [Hn Hall]. apply Nat.eqb_eq in Hn; subst n.
  split; [intros x; apply frame_req_extend, F|]. intros k Hk. rewrite forallb_forall in Hall.
  specialize (Hall k ltac:(apply in_seq; lia)). destruct (frame_req (firstn k msg)); congruence.
Qed.

Lemma sd_resp_b_sound h raw : sd_resp_b h raw = true -> sd_resp h raw (parsed_resp h raw).
Proof.
  unfold sd_resp_b, parsed_resp. destruct (frame_resp h raw) as [| |n p] eqn:F; try discriminate.
  intros H. apply andb_true_iff in H as [Hn Hall]. apply Nat.eqb_eq in Hn; subst n.
  split; [exact F|]. intros k Hk. rewrite forallb_forall in Hall.
  specialize (Hall k ltac:(apply in_seq; lia)). destruct (frame_resp h (firstn k raw)); congruence.
Qed.

(* ------------------------------------------------------------------ *)
(* witnesses                                                           *)

(* non-vacuity of the relay theorem: a length-framed POST, a chunked PUT, a HEAD answered
   with Transfer-Encoding: chunked and a GET; the client's stream is cut inside requests
   and across request boundaries (pipelined), with waits where they are allowed *)
Definition EXS : list exch :=
  [ mkEx W_REQ_POST (parsed_req W_REQ_POST) W_REPLY (parsed_resp false W_REPLY) (cut [3; 30]%N W_REPLY);
    mkEx W_REQ_CHUNKED (parsed_req W_REQ_CHUNKED) W_REPLY_CHUNKED (parsed_resp false W_REPLY_CHUNKED) (cut [60]%N W_REPLY_CHUNKED);
    mkEx W_REQ_HEAD (parsed_req W_REQ_HEAD) W_REPLY_HEAD (parsed_resp true W_REPLY_HEAD) [W_REPLY_HEAD];
    mkEx W_REQ_A (parsed_req W_REQ_A) W_REPLY (parsed_resp false W_REPLY) [W_REPLY] ].

Definition EXS_ITEMS : list citem :=
  let sm := stream EXS in
  [ISeg (firstn 10 sm); ISeg (firstn 90 (skipn 10 sm)); IWait 1; ISeg (firstn 100 (skipn 100 sm)); ISeg (skipn 200 sm); IWait 4; IWait 2].

Lemma exs_example_ok : Forall ex_ok EXS /\ stream_of EXS_ITEMS = stream EXS /\ waits_ok (lens_of EXS) 0 EXS_ITEMS.
Proof.
  split; [|split].
  - repeat constructor.
    all: try (apply sd_req_b_sound; vm_compute; reflexivity).
    all: try (apply sd_resp_b_sound; vm_compute; reflexivity).
    all: vm_compute; reflexivity.
  - vm_compute. reflexivity.
  - vm_compute. repeat split; repeat constructor.
Qed.

(* two requests in one write: both are relayed *)
Lemma pipelined_example :
  exists s, run [ISeg (W_REQ_A ++ W_REQ_B); IWait 2%N] (st0 [[W_REPLY]; [W_REPLY]]) = (s, EEof) /\
            rev (s_fwd s) = [reser_req (parsed_req W_REQ_A); reser_req (parsed_req W_REQ_B)] /\ s_recvd s = 2%N.
Proof. eexists. split; [vm_compute; reflexivity|]. split; vm_compute; reflexivity. Qed.

(* what remains: the parser adds Cache-Control: no-cache to a message that only says Pragma: no-cache *)
Lemma pragma_refuted :
  exists msg m, sd_req msg m /\ hget S_CC (r_headers m) = None /\
                hget S_CC (r_headers (reser_req m)) = Some S_NOCACHE.
Proof.
  exists W_REQ_PRAGMA, (parsed_req W_REQ_PRAGMA).
  split; [apply sd_req_b_sound; vm_compute; reflexivity|]. split; vm_compute; reflexivity.
Qed.
(* ------------------------------------------------------------------ *)
(* the header sort is stable: fields with the same name keep their order *)

Lemma leb_bytes_refl a : leb_bytes a a = true.
Proof. induction a as [|x a IH]; [reflexivity|]. cbn [leb_bytes]. rewrite N.ltb_irrefl. exact IH. Qed.

Lemma leb_bytes_total a : forall b, leb_bytes a b = true \/ leb_bytes b a = true.
Proof.
  induction a as [|x a IH]; intros b; [left; reflexivity|].
  destruct b as [|y b]; [right; reflexivity|]. cbn [leb_bytes].
  destruct (N.ltb_spec x y); [left; reflexivity|].
  destruct (N.ltb_spec y x); [right; reflexivity|]. apply IH.
Qed.

Lemma leb_bytes_trans a : forall b c, leb_bytes a b = true -> leb_bytes b c = true -> leb_bytes a c = true.
Proof.
  induction a as [|x a IH]; intros b c H1 H2; [reflexivity|].
  destruct b as [|y b]; [cbn in H1; discriminate|]. destruct c as [|z c]; [cbn in H2; discriminate|].
  cbn [leb_bytes] in *.
  destruct (N.ltb_spec x y), (N.ltb_spec y x), (N.ltb_spec y z), (N.ltb_spec z y),
           (N.ltb_spec x z), (N.ltb_spec z x); try reflexivity; try discriminate; try lia.
  eapply IH; eassumption.
Qed.

Definition hle (x y : header) : Prop := leb_bytes (fst x) (fst y) = true.

Lemma insert_h_in h l y : In y (insert_h h l) -> y = h \/ In y l.
Proof.
  induction l as [|x l IH]; cbn [insert_h]; intros H.
  - destruct H as [<-|[]]; auto.
  - destruct (leb_bytes (fst x) (fst h)).
    + destruct H as [<-|H]; [right; left; reflexivity|]. destruct (IH H); auto. right; right; assumption.
    + destruct H as [<-|H]; auto.
Qed.

Lemma insert_h_sorted h l : StronglySorted hle l -> StronglySorted hle (insert_h h l).
Proof.
  induction 1 as [|x l Hs IH Hall]; cbn [insert_h].
  - constructor; constructor.
  - destruct (leb_bytes (fst x) (fst h)) eqn:E.
    + constructor; [exact IH|]. apply Forall_forall. intros y Hy.
      destruct (insert_h_in _ _ _ Hy) as [->|Hy']; [exact E|]. rewrite Forall_forall in Hall. apply Hall, Hy'.
    + assert (Hhx : hle h x).
      { destruct (leb_bytes_total (fst h) (fst x)) as [T|T]; [exact T|congruence]. }
      constructor; [constructor; assumption|]. constructor; [exact Hhx|].
      apply Forall_forall. intros y Hy. rewrite Forall_forall in Hall.
      unfold hle in *. eapply leb_bytes_trans; [exact Hhx|apply Hall, Hy].
Qed.

Definition named (n : bytes) (h : header) : bool := eqb_bytes (fst h) n.

Lemma insert_h_filter n h l : StronglySorted hle l ->
  filter (named n) (insert_h h l) = filter (named n) l ++ (if named n h then [h] else []).
Proof.
  induction 1 as [|x l Hs IH Hall]; cbn [insert_h].
  - cbn [filter app]. destruct (named n h); reflexivity.
  - destruct (leb_bytes (fst x) (fst h)) eqn:E.
    + cbn [filter]. rewrite IH. destruct (named n x); reflexivity.
    + destruct (named n h) eqn:Nh; [|cbn [filter]; rewrite Nh, app_nil_r; reflexivity].
      (* h is named n and comes before x: nothing named n can follow *)
      unfold named in Nh. apply eqb_bytes_true in Nh.
      assert (Hnone : filter (named n) (x :: l) = []).
      { assert (Hall' : Forall (fun y => named n y = false) (x :: l)).
        { constructor.
          - unfold named. destruct (eqb_bytes (fst x) n) eqn:Ex; [|reflexivity].
            apply eqb_bytes_true in Ex. rewrite Ex, <- Nh, leb_bytes_refl in E. discriminate.
          - apply Forall_forall. intros y Hy. rewrite Forall_forall in Hall. specialize (Hall y Hy).
            unfold named. destruct (eqb_bytes (fst y) n) eqn:Ey; [|reflexivity].
            apply eqb_bytes_true in Ey. unfold hle in Hall. rewrite Ey, <- Nh in Hall. congruence. }
        clear -Hall'. induction Hall' as [|y r Hy _ IHr]; [reflexivity|]. cbn [filter]. rewrite Hy. exact IHr. }
      cbn [filter] in Hnone |- *. unfold named at 1. rewrite <- Nh at 1.
      assert (Hh : eqb_bytes (fst h) (fst h) = true) by (apply eqb_bytes_true; reflexivity).
      rewrite Hh, Hnone. reflexivity.
Qed.

Lemma sort_headers_stable n l : filter (named n) (sort_headers l) = filter (named n) l.
Proof.
  unfold sort_headers.
  assert (G : forall acc, StronglySorted hle acc ->
            filter (named n) (fold_left (fun acc h => insert_h h acc) l acc) = filter (named n) acc ++ filter (named n) l).
  { induction l as [|h l IH]; intros acc Hs; cbn [fold_left filter]; [rewrite app_nil_r; reflexivity|].
    rewrite (IH _ (insert_h_sorted h acc Hs)), (insert_h_filter n h acc Hs), <- app_assoc.
    destruct (named n h); reflexivity. }
  rewrite (G [] ltac:(constructor)). reflexivity.
Qed.
