(* C15 - model of the proxying services and the forward director.  Executable
   definitions only.

   (a) dial_target      director/forward/forward.go Dial: pure address computation
   (b) run              services/http-proxy.go Handle: the relay loop over an HTTP framing
                        model, a NEW reader per request on the client leg and per reply on
                        the backend leg (read-ahead is dropped)
   (c) copy_switch ...  services/copy.go, services/dns-proxy.go: the switch on the concrete
                        connection type, applied to what the server passes (server_wrap)
   (d) ssh_run          services/ssh/ssh-proxy.go: message-level relay, two goroutines per
                        direction (requests / data), explicit scheduler

   A connection is the list of its pending segments; one Read returns one whole segment
   (a partial read of a segment is the same behaviour as a finer segmentation, and the
   theorems quantify over all segmentations). *)
From HT Require Import Common.Bytes.
Open Scope Z_scope.

(* ------------------------------------------------------------------ *)
(* byte-string helpers                                                 *)

Fixpoint has (c : N) (l : bytes) : bool :=
  match l with [] => false | x :: r => (x =? c)%N || has c r end.

(* l = a ++ c :: b with c not in a *)
Fixpoint split_first (c : N) (l : bytes) : option (bytes * bytes) :=
  match l with
  | [] => None
  | x :: r => if (x =? c)%N then Some ([], r)
              else match split_first c r with
                   | Some (a, b) => Some (x :: a, b)
                   | None => None
                   end
  end.

(* l = a ++ c :: b with c not in b *)
Fixpoint split_last (c : N) (l : bytes) : option (bytes * bytes) :=
  match l with
  | [] => None
  | x :: r => match split_last c r with
              | Some (a, b) => Some (x :: a, b)
              | None => if (x =? c)%N then Some ([], r) else None
              end
  end.

Fixpoint is_prefix (p b : bytes) : bool :=
  match p, b with
  | [], _ => true
  | x :: p', y :: b' => (x =? y)%N && is_prefix p' b'
  | _ :: _, [] => false
  end.

Definition is_digit (b : N) : bool := ((48 <=? b) && (b <=? 57))%N.

Fixpoint parse_dec_acc (acc : N) (l : bytes) : option N :=
  match l with
  | [] => Some acc
  | x :: r => if is_digit x then parse_dec_acc (acc * 10 + (x - 48))%N r else None
  end.
Definition parse_dec (l : bytes) : option N :=
  match l with [] => None | _ => parse_dec_acc 0%N l end.

Fixpoint dec_fuel (fuel : nat) (n : N) (acc : bytes) : bytes :=
  match fuel with
  | O => acc
  | S f => let acc' := (48 + n mod 10)%N :: acc in
           if (n <? 10)%N then acc' else dec_fuel f (n / 10)%N acc'
  end.
Definition dec (n : N) : bytes := dec_fuel 40 n [].

(* ------------------------------------------------------------------ *)
(* (a) forward director: Dial                                          *)

Inductive lkind := LTcp | LUdp | LOther.   (* concrete type of conn.LocalAddr() *)

Definition COLON := 58%N.
Definition LBR := 91%N.
Definition RBR := 93%N.

(* net.SplitHostPort *)
Definition split_host_port (hp : bytes) : option (bytes * bytes) :=
  match split_last COLON hp with
  | None => None                                         (* missing port *)
  | Some (a, b) =>
      match a with
      | x :: a' =>
          if (x =? LBR)%N then
            match split_first RBR a' with
            | None => None                               (* missing ']' or ']' after the last colon *)
            | Some (h, rest) =>
                match rest with
                | [] => if has LBR h || has LBR b || has RBR b then None else Some (h, b)
                | _ => None                              (* "]x:" / "]:...:" *)
                end
            end
          else if has COLON a || has LBR a || has LBR b || has RBR a || has RBR b then None
          else Some (a, b)
      | [] => if has LBR b || has RBR b then None else Some ([], b)
      end
  end.

(* net.JoinHostPort *)
Definition join_host_port (h p : bytes) : bytes :=
  if has COLON h || has 37%N h then LBR :: h ++ RBR :: COLON :: p else h ++ COLON :: p.

(* Dial: network, host and port handed to net.Dial; None = "Unsupported protocol" *)
Definition dial_target (cfg : bytes) (k : lkind) (lport : N) : option (lkind * bytes * bytes) :=
  match k with
  | LOther => None
  | _ => match split_host_port cfg with
         | Some (h, p) => Some (k, h, p)                  (* "port is being overruled" *)
         | None => Some (k, cfg, dec lport)
         end
  end.

Definition dial_address (cfg : bytes) (k : lkind) (lport : N) : option bytes :=
  match dial_target cfg k lport with
  | Some (_, h, p) => Some (join_host_port h p)
  | None => None
  end.

(* what net.Dial makes of the address: it splits it again; the port must be numeric *)
Definition parse_port (p : bytes) : option N :=
  match p with
  | [] => Some 0%N
  | _ => match parse_dec p with
         | Some n => if (n <=? 65535)%N then Some n else None
         | None => None
         end
  end.

Inductive dialed := DUnsupported | DError | DAddr (k : lkind) (host : bytes) (port : N).

Definition dial_model (cfg : bytes) (k : lkind) (lport : N) : dialed :=
  match dial_target cfg k lport with
  | None => DUnsupported
  | Some (k', h, p) =>
      match split_host_port (join_host_port h p) with
      | None => DError
      | Some (h', p') => match parse_port p' with
                         | Some n => DAddr k' h' n
                         | None => DError
                         end
      end
  end.

(* one director instance serves every service and listening port that names it: the
   connections it dials for, in the order they come.  Dial keeps no state: each target is
   computed from the configured value and THAT connection's local address *)
Definition dial_seq (cfg : bytes) (conns : list (lkind * N)) : list dialed :=
  map (fun c => dial_model cfg (fst c) (snd c)) conns.

(* the configured backend (host, port if the value carries one) of a well-formed
   configuration value: "host:port", "[v6]:port", "host", bare IPv6 *)
Definition all_digits (l : bytes) : bool := forallb is_digit l.
Definition nonempty (l : bytes) : bool := match l with [] => false | _ => true end.

Definition spec_backend (cfg : bytes) : option (bytes * option N) :=
  if has LBR cfg || has RBR cfg then
    match cfg with
    | x :: r =>
        if (x =? LBR)%N then
          match split_first RBR r with
          | Some (h, y :: p) =>
              if (y =? COLON)%N && negb (has LBR h) && nonempty h && all_digits p && nonempty p
              then match parse_port p with Some n => Some (h, Some n) | None => None end
              else None
          | _ => None
          end
        else None
    | [] => None
    end
  else
    match split_first COLON cfg with
    | None => if nonempty cfg then Some (cfg, None) else None
    | Some (h, p) =>
        if has COLON p then Some (cfg, None)                      (* bare IPv6 *)
        else if nonempty h && nonempty p && all_digits p
             then match parse_port p with Some n => Some (h, Some n) | None => None end
             else None
    end.

(* ------------------------------------------------------------------ *)
(* (b) HTTP framing                                                    *)

Definition CRLF2 : bytes := [13; 10; 13; 10]%N.

Fixpoint find_crlf2 (l : bytes) : option nat :=
  match l with
  | [] => None
  | _ :: r => if is_prefix CRLF2 l then Some O
              else match find_crlf2 r with Some i => Some (S i) | None => None end
  end.

Fixpoint split_crlf_acc (cur : bytes) (l : bytes) : list bytes :=
  match l with
  | [] => [rev cur]
  | x :: r =>
      match r with
      | y :: r' => if ((x =? 13) && (y =? 10))%N then rev cur :: split_crlf_acc [] r'
                   else split_crlf_acc (x :: cur) r
      | [] => [rev (x :: cur)]
      end
  end.
Definition split_crlf (l : bytes) : list bytes := split_crlf_acc [] l.

Definition lower (b : N) : N := if ((65 <=? b) && (b <=? 90))%N then (b + 32)%N else b.
Definition is_ows (b : N) : bool := ((b =? 32) || (b =? 9))%N.
Fixpoint trim_left (l : bytes) : bytes :=
  match l with x :: r => if is_ows x then trim_left r else l | [] => [] end.
Definition trim (l : bytes) : bytes := rev (trim_left (rev (trim_left l))).

Definition is_alnum (b : N) : bool :=
  (((48 <=? b) && (b <=? 57)) || ((65 <=? b) && (b <=? 90)) || ((97 <=? b) && (b <=? 122)))%N.
(* RFC 7230 tchar *)
Definition is_tchar (b : N) : bool :=
  is_alnum b || existsb (fun c => (b =? c)%N) [33; 35; 36; 37; 38; 39; 42; 43; 45; 46; 94; 95; 96; 124; 126]%N.
Definition is_token (l : bytes) : bool :=
  match l with [] => false | _ => forallb is_tchar l end.

Definition header := (bytes * bytes)%type.     (* lower-cased name, trimmed value *)

Definition parse_header_line (l : bytes) : option header :=
  match split_first COLON l with
  | Some (name, v) => if is_token name then Some (map lower name, trim v) else None
  | None => None
  end.

Fixpoint parse_headers (ls : list bytes) : option (list header) :=
  match ls with
  | [] => Some []
  | l :: r => match parse_header_line l, parse_headers r with
              | Some h, Some hs => Some (h :: hs)
              | _, _ => None
              end
  end.

Definition eqb_b := eqb_bytes.

Fixpoint hget (name : bytes) (hs : list header) : option bytes :=
  match hs with
  | [] => None
  | (n, v) :: r => if eqb_b n name then Some v else hget name r
  end.

Definition S_CL : bytes := [99;111;110;116;101;110;116;45;108;101;110;103;116;104]%N.           (* content-length *)
Definition S_TE : bytes := [116;114;97;110;115;102;101;114;45;101;110;99;111;100;105;110;103]%N. (* transfer-encoding *)
Definition S_HOST : bytes := [104;111;115;116]%N.
Definition S_UA : bytes := [117;115;101;114;45;97;103;101;110;116]%N.                             (* user-agent *)
Definition S_CONN : bytes := [99;111;110;110;101;99;116;105;111;110]%N.                            (* connection *)
Definition S_CHUNKED : bytes := [99;104;117;110;107;101;100]%N.
Definition S_HEAD : bytes := [72;69;65;68]%N.
Definition S_HTTP11 : bytes := [72;84;84;80;47;49;46;49]%N.
Definition S_HTTP10 : bytes := [72;84;84;80;47;49;46;48]%N.
Definition S_GOUA : bytes := [71;111;45;104;116;116;112;45;99;108;105;101;110;116;47;49;46;49]%N. (* Go-http-client/1.1 *)

Definition framing_name (n : bytes) : bool := eqb_b n S_CL || eqb_b n S_TE.

Inductive body_kind := BKBad | BKLen (n : N) | BKChunked.

Definition body_kind_of (hs : list header) (dflt : body_kind) : body_kind :=
  match hget S_TE hs with
  | Some v => if eqb_b (map lower v) S_CHUNKED then BKChunked else BKBad
  | None => match hget S_CL hs with
            | Some v => match parse_dec v with Some n => BKLen n | None => BKBad end
            | None => dflt
            end
  end.

(* chunked body *)
Definition hexval (b : N) : option N :=
  if is_digit b then Some (b - 48)%N
  else if ((97 <=? b) && (b <=? 102))%N then Some (b - 87)%N
  else if ((65 <=? b) && (b <=? 70))%N then Some (b - 55)%N
  else None.
Fixpoint parse_hex_acc (acc : N) (l : bytes) : option N :=
  match l with
  | [] => Some acc
  | x :: r => match hexval x with Some d => parse_hex_acc (acc * 16 + d)%N r | None => None end
  end.
Definition parse_hex (l : bytes) : option N :=
  match l with [] => None | _ => parse_hex_acc 0%N l end.

(* first line of l: (line, rest after CRLF) *)
Fixpoint split_line (l : bytes) : option (bytes * bytes) :=
  match l with
  | [] => None
  | x :: r =>
      match r with
      | y :: r' => if ((x =? 13) && (y =? 10))%N then Some ([], r')
                   else match split_line r with Some (a, b) => Some (x :: a, b) | None => None end
      | [] => None
      end
  end.

Inductive ck := CkIncomplete | CkBad | CkDone (used : nat) (body : bytes).

Fixpoint dechunk (fuel : nat) (l : bytes) (used : nat) (body : bytes) : ck :=
  match fuel with
  | O => CkBad
  | S f =>
      match split_line l with
      | None => CkIncomplete
      | Some (line, after) =>
          match parse_hex line with
          | None => CkBad
          | Some n =>
              if (n =? 0)%N then
                match after with
                | [] => CkIncomplete
                | [x] => if (x =? 13)%N then CkIncomplete else CkBad
                | x :: y :: _ => if ((x =? 13) && (y =? 10))%N
                                 then CkDone (used + length line + 4) body else CkBad   (* trailers are not modelled *)
                end
              else
                let k := N.to_nat n in
                if (length after <? k + 2)%nat then CkIncomplete
                else if is_prefix [13; 10]%N (skipn k after)
                     then dechunk f (skipn (k + 2) after) (used + length line + 2 + k + 2) (body ++ firstn k after)
                     else CkBad
          end
      end
  end.

Record sem_req := mkReq {
  r_method : bytes; r_target : bytes; r_host : bytes;
  r_headers : list header;          (* without Host and the framing headers *)
  r_chunked : bool; r_body : bytes }.

Record sem_resp := mkResp {
  p_status : N;
  p_headers : list header;          (* without the framing headers and Connection *)
  p_chunked : bool; p_body : bytes }.

(* request line: method SP target SP HTTP/1.x *)
Definition parse_reqline (l : bytes) : option (bytes * bytes) :=
  match split_first 32%N l with
  | Some (m, rest) =>
      match split_first 32%N rest with
      | Some (t, proto) =>
          if is_token m && negb (match t with [] => true | _ => false end)
             && (eqb_b proto S_HTTP11 || eqb_b proto S_HTTP10)
          then Some (m, t) else None
      | None => None
      end
  | None => None
  end.

Definition non_framing (hs : list header) : list header :=
  filter (fun h => negb (framing_name (fst h))) hs.

Inductive frq := QIncomplete | QBad | QComplete (n : nat) (m : sem_req).

Definition frame_req (buf : bytes) : frq :=
  match find_crlf2 buf with
  | None => QIncomplete
  | Some i =>
      let rest := skipn (i + 4) buf in
      match split_crlf (firstn i buf) with
      | [] => QBad
      | l0 :: ls =>
          match parse_reqline l0, parse_headers ls with
          | Some (m, t), Some hs =>
              let host := match hget S_HOST hs with Some v => v | None => [] end in
              let hs' := filter (fun h => negb (eqb_b (fst h) S_HOST)) (non_framing hs) in
              match body_kind_of hs (BKLen 0) with
              | BKBad => QBad
              | BKLen n => if (N.to_nat n <=? length rest)%nat
                           then QComplete (i + 4 + N.to_nat n) (mkReq m t host hs' false (firstn (N.to_nat n) rest))
                           else QIncomplete
              | BKChunked => match dechunk (S (length rest)) rest 0 [] with
                             | CkIncomplete => QIncomplete
                             | CkBad => QBad
                             | CkDone used body => QComplete (i + 4 + used) (mkReq m t host hs' true body)
                             end
              end
          | _, _ => QBad
          end
      end
  end.

(* status line: HTTP/1.x SP ddd [SP reason] *)
Definition parse_statusline (l : bytes) : option N :=
  match split_first 32%N l with
  | Some (proto, rest) =>
      if eqb_b proto S_HTTP11 || eqb_b proto S_HTTP10 then
        let code := firstn 3 rest in
        match skipn 3 rest with
        | [] => if (length code =? 3)%nat then parse_dec code else None
        | x :: _ => if (x =? 32)%N then parse_dec code else None
        end
      else None
  | None => None
  end.

Definition no_body_status (s : N) : bool := ((s <? 200) || (s =? 204) || (s =? 304))%N.

Inductive frp := PIncomplete | PBad | PComplete (n : nat) (p : sem_resp).

Definition frame_resp (to_head : bool) (buf : bytes) : frp :=
  match find_crlf2 buf with
  | None => PIncomplete
  | Some i =>
      let rest := skipn (i + 4) buf in
      match split_crlf (firstn i buf) with
      | [] => PBad
      | l0 :: ls =>
          match parse_statusline l0, parse_headers ls with
          | Some st, Some hs =>
              let hs' := filter (fun h => negb (eqb_b (fst h) S_CONN)) (non_framing hs) in
              let bk := body_kind_of hs BKBad in       (* neither length nor chunked: "until close", not modelled *)
              if to_head || no_body_status st then
                PComplete (i + 4) (mkResp st hs' (match bk with BKChunked => true | _ => false end) [])
              else
                match bk with
                | BKBad => PBad
                | BKLen n => if (N.to_nat n <=? length rest)%nat
                             then PComplete (i + 4 + N.to_nat n) (mkResp st hs' false (firstn (N.to_nat n) rest))
                             else PIncomplete
                | BKChunked => match dechunk (S (length rest)) rest 0 [] with
                               | CkIncomplete => PIncomplete
                               | CkBad => PBad
                               | CkDone used body => PComplete (i + 4 + used) (mkResp st hs' true body)
                               end
                end
          | _, _ => PBad
          end
      end
  end.

(* ------------------------------------------------------------------ *)
(* re-serialisation by net/http (req.Write / resp.Write), at the level of what the
   peer parses back: headers come out sorted by name (stable).  http-proxy sets an empty
   User-Agent on a request that has none, so that Request.Write adds nothing.  The one
   rewrite left is the parser's: "Pragma: no-cache" without Cache-Control gains
   "Cache-Control: no-cache" (fixPragmaCacheControl in ReadRequest/ReadResponse). *)

Fixpoint leb_bytes (a b : bytes) : bool :=
  match a, b with
  | [], _ => true
  | _ :: _, [] => false
  | x :: a', y :: b' => if (x <? y)%N then true else if (y <? x)%N then false else leb_bytes a' b'
  end.

Fixpoint insert_h (h : header) (l : list header) : list header :=
  match l with
  | [] => [h]
  | x :: r => if leb_bytes (fst x) (fst h) then x :: insert_h h r else h :: l
  end.
(* stable: an element is inserted after the elements with an equal name *)
Definition sort_headers (l : list header) : list header := fold_left (fun acc h => insert_h h acc) l [].

Definition S_PRAGMA : bytes := [112;114;97;103;109;97]%N.
Definition S_CC : bytes := [99;97;99;104;101;45;99;111;110;116;114;111;108]%N.      (* cache-control *)
Definition S_NOCACHE : bytes := [110;111;45;99;97;99;104;101]%N.                    (* no-cache *)

Definition pragma_fix (hs : list header) : list header :=
  match hget S_PRAGMA hs, hget S_CC hs with
  | Some v, None => if eqb_b v S_NOCACHE then (S_CC, S_NOCACHE) :: hs else hs
  | _, _ => hs
  end.

Definition reser_req (m : sem_req) : sem_req :=
  mkReq (r_method m) (r_target m) (r_host m) (sort_headers (pragma_fix (r_headers m))) (r_chunked m) (r_body m).

Definition reser_resp (p : sem_resp) : sem_resp :=
  mkResp (p_status p) (sort_headers (pragma_fix (p_headers p))) (p_chunked p) (p_body p).

(* ------------------------------------------------------------------ *)
(* the relay loop of httpProxy.Handle: ONE buffered reader per leg for the whole
   connection (what a reader has read ahead stays available to the next message) *)

Inductive citem :=
| ISeg (s : bytes)          (* the client writes s *)
| IWait (k : N).            (* the client waits until it has parsed k replies (gives up otherwise) *)

(* reply, what stays in the backend-side reader's buffer, the backend's unread writes *)
Inductive rr := RGot (p : sem_resp) (lft : bytes) (rest : list bytes) | RBad | RStall.

(* http.ReadResponse(reader2, req) on the connection's reader *)
Fixpoint read_reply (to_head : bool) (buf : bytes) (segs : list bytes) : rr :=
  match frame_resp to_head buf with
  | PComplete n p => RGot p (skipn n buf) segs
  | PBad => RBad
  | PIncomplete => match segs with
                   | [] => RStall
                   | s :: r => read_reply to_head (buf ++ s) r
                   end
  end.

Inductive endk :=
| EEof               (* client closed between requests: Handle returns nil *)
| EPartial           (* client closed inside a request *)
| EGaveUp            (* the client waited for a reply that never came, then closed *)
| EBadRequest | EBadReply | EStall
| EBackendClosed     (* the backend had closed its connection after an earlier reply: nothing more can be relayed *)
| EFuel.             (* out of fuel (excluded: drain_fuel_suffices) *)

Record st := mkSt {
  s_buf : bytes;                    (* the client-side reader's buffer *)
  s_bbuf : bytes;                   (* the backend-side reader's buffer *)
  s_bq : list bytes;                (* what the backend has written and the proxy has not read *)
  s_replies : list (list bytes);    (* backend's reply (as writes) to the next request it receives *)
  s_recvd : N;                      (* replies written to (and parsed by) the client *)
  s_fwd : list sem_req;             (* requests the backend received, newest first *)
  s_del : list sem_resp;            (* replies the client received, newest first *)
  s_closes : list bool;             (* per reply still to come: the backend closes its connection after it *)
  s_bclosed : bool }.               (* the backend has closed its connection *)

Definition DEFAULT_REPLY : list bytes :=
  [[72;84;84;80;47;49;46;49;32;50;48;48;32;79;75;13;10;67;111;110;116;101;110;116;45;76;101;110;103;116;104;58;32;48;13;10;13;10]%N].

Definition is_head (m : sem_req) : bool := eqb_b (r_method m) S_HEAD.

Definition set_buf (s : st) (b : bytes) : st :=
  mkSt b (s_bbuf s) (s_bq s) (s_replies s) (s_recvd s) (s_fwd s) (s_del s) (s_closes s) (s_bclosed s).

(* the for-loop of Handle as long as the reader's buffer holds complete requests:
   ReadRequest, req.Write to the backend (+ event), ReadResponse, resp.Write to the client *)
Fixpoint drain (fuel : nat) (s : st) : st * option endk :=
  match fuel with
  | O => (s, Some EFuel)
  | S f =>
      match frame_req (s_buf s) with
      | QIncomplete => (s, None)
      | QBad => (s, Some EBadRequest)
      | QComplete n m =>
          if s_bclosed s then (s, Some EBackendClosed)    (* req.Write / ReadResponse on the dead backend connection: Handle returns;
                                                             whatever the client has been sent before stays sent *)
          else
          let reply := match s_replies s with [] => DEFAULT_REPLY | x :: _ => x end in
          let s1 := mkSt (skipn n (s_buf s)) (s_bbuf s) (s_bq s ++ reply) (tl (s_replies s))
                         (s_recvd s) (reser_req m :: s_fwd s) (s_del s) (s_closes s) false in
          match read_reply (is_head m) (s_bbuf s1) (s_bq s1) with
          | RBad => (s1, Some EBadReply)
          | RStall => (s1, Some EStall)
          | RGot p lft rest =>
              drain f (mkSt (s_buf s1) lft rest (s_replies s1) (s_recvd s1 + 1)%N (s_fwd s1) (reser_resp p :: s_del s1)
                            (tl (s_closes s1)) (match s_closes s1 with c :: _ => c | [] => false end))
          end
      end
  end.

Fixpoint run (its : list citem) (s : st) : st * endk :=
  match its with
  | [] => (s, match s_buf s with [] => EEof | _ => EPartial end)
  | IWait k :: r => if (k <=? s_recvd s)%N then run r s else (s, EGaveUp)
  | ISeg b :: r =>
      let s1 := set_buf s (s_buf s ++ b) in
      match drain (S (length (s_buf s1))) s1 with
      | (s2, None) => run r s2
      | (s2, Some e) => (s2, e)
      end
  end.

Definition st0c (replies : list (list bytes)) (closes : list bool) : st := mkSt [] [] [] replies 0 [] [] closes false.
Definition st0 (replies : list (list bytes)) : st := st0c replies [].

(* req.Write streams: once the header block of a request is complete it is written to the
   backend and the body follows as it arrives.  For a request that completes this is the
   same as forwarding it whole; when the client stops inside the body (closes, or gives
   up) the backend is left with a request whose body is cut short.  [head_of buf] is that
   request (without body) when the buffer holds a complete, acceptable header block. *)
Definition head_of (buf : bytes) : option sem_req :=
  match find_crlf2 buf with
  | None => None
  | Some i =>
      match split_crlf (firstn i buf) with
      | [] => None
      | l0 :: ls =>
          match parse_reqline l0, parse_headers ls with
          | Some (m, t), Some hs =>
              let host := match hget S_HOST hs with Some v => v | None => [] end in
              let hs' := filter (fun h => negb (eqb_b (fst h) S_HOST)) (non_framing hs) in
              match body_kind_of hs (BKLen 0) with
              | BKBad => None
              | BKLen _ => Some (mkReq m t host hs' false [])
              | BKChunked => Some (mkReq m t host hs' true [])
              end
          | _, _ => None
          end
      end
  end.

Definition partial_forward (s : st) (e : endk) : option sem_req :=
  match e with
  | EPartial | EGaveUp => match head_of (s_buf s) with Some m => Some (reser_req m) | None => None end
  | _ => None
  end.

(* cut a stream into segments of the given lengths *)
Fixpoint cut (lens : list N) (l : bytes) : list bytes :=
  match lens with
  | [] => match l with [] => [] | _ => [l] end
  | n :: r => firstn (N.to_nat n) l :: cut r (skipn (N.to_nat n) l)
  end.

(* ------------------------------------------------------------------ *)
(* (c) copy / dns-proxy: datagram or stream is told by the connection's LOCAL ADDRESS
   (switch conn.LocalAddr().(type)), which every wrapper passes through *)

Inductive addr_kind := ATcp | AUdp | AOtherAddr.

Inductive conn_kind :=
| KTcpConn                       (* *net.TCPConn: *net.TCPAddr *)
| KDummyUdp                      (* *listener.DummyUDPConn: *net.UDPAddr *)
| KOther (a : addr_kind)         (* any other net.Conn (pipe, tls, agent connection) with that kind of address *)
| KPeek (inner : conn_kind)      (* *server.peekConnection *)
| KTimeout (inner : conn_kind).  (* *server.timeoutConn *)

Fixpoint local_kind (k : conn_kind) : addr_kind :=
  match k with
  | KTcpConn => ATcp
  | KDummyUdp => AUdp
  | KOther a => a
  | KPeek i => local_kind i
  | KTimeout i => local_kind i
  end.

(* server.handle: newConn = TimeoutConn(newConn, 30s) around what findService returned
   (the accepted connection, or the peek wrapper around a timeout wrapper around it) *)
Definition server_wrap (peeked : bool) (accepted : conn_kind) : conn_kind :=
  KTimeout (if peeked then KPeek (KTimeout accepted) else accepted).

Inductive branch := BUdp | BTcp | BDefault.

Definition type_switch (k : conn_kind) : branch :=
  match local_kind k with
  | AUdp => BUdp
  | ATcp => BTcp
  | AOtherAddr => BDefault
  end.

Record raw_out := mkRaw {
  w_dials : N;                 (* connections opened to the backend *)
  w_backend : list bytes;      (* what the backend received: stream segments / datagrams *)
  w_client : list bytes;       (* what the client received *)
  w_events : N }.

Definition raw_nothing : raw_out := mkRaw 0 [] [] 0.

Definition first_of (l : list bytes) : list bytes := match l with x :: _ => [x] | [] => [] end.

(* a datagram service reads until the datagram connection reports its end.  On a port shared
   with a detector service the server has peeked (one Read of at most 1024 bytes) and the
   peek wrapper serves its buffer first: the first Read returns at most the 1024 peeked
   bytes, the following ones the rest *)
Fixpoint has_peek (k : conn_kind) : bool :=
  match k with
  | KPeek _ => true
  | KTimeout i => has_peek i
  | _ => false
  end.
Definition PEEK : nat := 1024.
Definition dgram_reads (k : conn_kind) (d : bytes) : list bytes :=
  if has_peek k then [firstn PEEK d; skipn PEEK d] else [d].
Definition dgram_read (k : conn_kind) (d : bytes) : bytes := concat (dgram_reads k d).

(* copy.  Stream: io.Copy both ways (the backend sees end of stream when the client is
   done), one event when Handle returns.  Datagram: the datagram, then one reply. *)
Definition copy_model (k : conn_kind) (client_segs backend_segs : list bytes) : raw_out :=
  match type_switch k with
  | BDefault => raw_nothing
  | BTcp => mkRaw 1 client_segs backend_segs 1
  | BUdp => mkRaw 1 [dgram_read k (concat client_segs)] (first_of backend_segs) 1
  end.

(* DNS over a stream (RFC 1035 4.2.2): a message is preceded by its length in two bytes.
   io.ReadFull(c, p): Reads until p is full; a Read takes at most what is left of the
   first pending segment and leaves the rest of that segment pending. *)
Fixpoint take (segs : list bytes) (n : nat) : option (bytes * list bytes) :=
  match n with
  | O => Some ([], segs)
  | _ =>
      match segs with
      | [] => None                                   (* end of stream / deadline before p is full *)
      | s :: r =>
          if (length s <? n)%nat then
            match take r (n - length s) with
            | Some (b, rest) => Some (s ++ b, rest)
            | None => None
            end
          else Some (firstn n s, match skipn n s with [] => r | t => t :: r end)
      end
  end.

Definition pfx (n : nat) : bytes := [N.of_nat (n / 256); N.of_nat (n mod 256)].

(* readMsg: the two length bytes, then that many bytes *)
Definition read_msg (segs : list bytes) : option (bytes * list bytes) :=
  match take segs 2 with
  | Some ([a; b], r1) => take r1 (N.to_nat (a * 256 + b))
  | _ => None
  end.

(* dns-proxy.  Datagram branch: the datagram is forwarded, recorded (decoded, or with its
   payload when it is not a DNS message) and the first answer returned.  Stream branch:
   one length-framed message is read however it is cut; it must unpack ([parses] =
   oracle: miekg/dns Unpack of the framed message), is recorded, forwarded with its
   length in one write, and one length-framed answer is read and returned the same way. *)
Definition dns_model (k : conn_kind) (client_segs : list bytes) (parses : bool)
                     (backend_segs : list bytes) : raw_out :=
  match type_switch k with
  | BDefault => raw_nothing
  | BUdp => mkRaw 1 [dgram_read k (concat client_segs)] (first_of backend_segs) 1
  | BTcp =>
      match read_msg client_segs with
      | None => raw_nothing
      | Some (q, _) =>
          if parses then
            mkRaw 1 [pfx (length q) ++ q]
                  (match read_msg backend_segs with Some (a, _) => [pfx (length a) ++ a] | None => [] end) 1
          else raw_nothing
      end
  end.

(* ------------------------------------------------------------------ *)
(* (d) ssh-proxy: message-level relay                                  *)

(* password authentication: every attempt is tried against the backend on a fresh
   connection with the credentials as presented; the first accepted attempt ends the phase *)
Definition cred := (bytes * bytes)%type.

Fixpoint auth_run (accepts : cred -> bool) (attempts : list cred) : list cred * bool :=
  match attempts with
  | [] => ([], false)
  | c :: r => if accepts c then ([c], true)
              else let '(l, ok) := auth_run accepts r in (c :: l, ok)
  end.

(* the authentication dialogue of ONE client connection, request by request, as
   x/crypto/ssh's serverAuthenticate runs it on the ServerConfig that sshProxyService.Handle
   builds (MaxAuthTries = PROXY_MAX_AUTH_TRIES, no NoClientAuth, a PublicKeyCallback that
   records the offer and refuses, a PasswordCallback that records the attempt and logs in
   to the backend with the presented credentials on a connection of its own):
     userAuthLoop:
       if authFailures >= MaxAuthTries && MaxAuthTries > 0 -> disconnect (reason 2)
       read the next request
         none      : refused; the first one is free (authFailures-- if it is 0)
         publickey : PublicKeyCallback (key not offered before) -> refused
         password  : PasswordCallback -> the backend's verdict
       accepted -> the loop ends;  refused -> authFailures++, failure reply, loop
   [max] is an argument of the loop so that the theorem can say what it depends on. *)
Inductive areq := ANone | APub | APw (pw : bytes).
(* what the client is told for one request: failure, success, or nothing at all because
   the proxy has ended the connection *)
Inductive averdict := VFail | VOk | VClosed.

Definition PROXY_MAX_AUTH_TRIES : Z := -1.      (* ssh-proxy.go: MaxAuthTries: -1 *)

Record auth_obs := mkAuth {
  au_saw : list cred;            (* credentials presented to the backend, oldest first *)
  au_verdicts : list averdict;   (* one per client request, in order *)
  au_pk : N;                     (* public-key offers recorded (PublicKeyCallback calls) *)
  au_open : bool }.              (* afterwards the connection is open (authenticated, or waiting for the next request) *)

Definition auth_cons (saw : list cred) (v : averdict) (pk : N) (o : auth_obs) : auth_obs :=
  mkAuth (saw ++ au_saw o) (v :: au_verdicts o) (pk + au_pk o)%N (au_open o).

Fixpoint auth_dialogue (max : Z) (oracle : cred -> bool) (user : bytes) (fails : Z) (reqs : list areq) : auth_obs :=
  match reqs with
  | [] => mkAuth [] [] 0%N (negb ((max <=? fails) && (0 <? max)))
  | q :: r =>
      if (max <=? fails) && (0 <? max) then
        (* disconnected before the request is read: nothing of it or of what follows is seen *)
        mkAuth [] (map (fun _ => VClosed) reqs) 0%N false
      else
        match q with
        | ANone =>
            let f := if fails =? 0 then fails - 1 else fails in
            auth_cons [] VFail 0%N (auth_dialogue max oracle user (f + 1) r)
        | APub => auth_cons [] VFail 1%N (auth_dialogue max oracle user (fails + 1) r)
        | APw pw =>
            if oracle (user, pw)
            then mkAuth [(user, pw)] [VOk] 0%N true       (* authenticated: the dialogue is over *)
            else auth_cons [(user, pw)] VFail 0%N (auth_dialogue max oracle user (fails + 1) r)
        end
  end.

(* the client's side of the dialogue: it goes on until it is told success (then it stops
   asking) or it has nothing left to try *)
Fixpoint client_sends (oracle : cred -> bool) (user : bytes) (reqs : list areq) : list areq :=
  match reqs with
  | [] => []
  | APw pw :: r => if oracle (user, pw) then [APw pw] else APw pw :: client_sends oracle user r
  | q :: r => q :: client_sends oracle user r
  end.

(* what the backend is to see of a list of requests, and the verdict that is the backend's
   (none and public-key requests are answered by the proxy itself: refused) *)
Definition creds_of (user : bytes) (reqs : list areq) : list cred :=
  flat_map (fun q => match q with APw pw => [(user, pw)] | _ => [] end) reqs.
Definition backend_verdict (oracle : cred -> bool) (user : bytes) (q : areq) : averdict :=
  match q with APw pw => if oracle (user, pw) then VOk else VFail | _ => VFail end.
Definition pubs_of (reqs : list areq) : N :=
  N.of_nat (length (filter (fun q => match q with APub => true | _ => false end) reqs)).

(* one session channel.  Client-to-backend traffic consists of channel requests and data;
   the proxy relays them with two goroutines (requestFn / copyFn), each preserving the
   order of its own queue.  [sched] chooses which goroutine moves next. *)
Inductive smsg := MReq (ty : bytes) (want : bool) (payload : bytes) | MData (d : bytes).

Definition is_req (m : smsg) : bool := match m with MReq _ _ _ => true | MData _ => false end.

Record ssh_st := mkSsh {
  q_req : list smsg;      (* requests received from the client, not yet forwarded *)
  q_data : list smsg;     (* data received from the client, not yet forwarded *)
  q_out : list smsg }.    (* what the backend has received, oldest first *)

(* the client's messages arrive in order and are demultiplexed by kind (x/crypto/ssh mux) *)
Definition ssh_demux (msgs : list smsg) : ssh_st :=
  mkSsh (filter is_req msgs) (filter (fun m => negb (is_req m)) msgs) [].

(* one scheduler step: true = the request goroutine forwards its next message,
   false = the data goroutine; a goroutine with an empty queue does nothing *)
Definition ssh_step (s : ssh_st) (pick_req : bool) : ssh_st :=
  if pick_req then
    match q_req s with
    | m :: r => mkSsh r (q_data s) (q_out s ++ [m])
    | [] => s
    end
  else
    match q_data s with
    | m :: r => mkSsh (q_req s) r (q_out s ++ [m])
    | [] => s
    end.

Fixpoint ssh_run (s : ssh_st) (sched : list bool) : ssh_st :=
  match sched with
  | [] => s
  | b :: r => ssh_run (ssh_step s b) r
  end.

(* after the schedule: both goroutines drain what is left (requests first - any order
   gives the same two projections) *)
Definition ssh_finish (s : ssh_st) : list smsg := q_out s ++ q_req s ++ q_data s.

Definition ssh_relay (msgs : list smsg) (sched : list bool) : list smsg :=
  ssh_finish (ssh_run (ssh_demux msgs) sched).

Definition reqs_of (l : list smsg) : list smsg := filter is_req l.
Definition data_of (l : list smsg) : bytes :=
  flat_map (fun m => match m with MData d => d | _ => [] end) l.

(* closing: each direction is relayed by a data copier (copyFn), which closes the
   destination only after it has copied everything up to the source's end; the goroutine
   that relays the channel REQUESTS of the other side no longer closes anything.
   [sched]: true = the copier forwards the next chunk, false = the request goroutine's
   loop ends (the source channel was closed) - a step without effect. *)
Fixpoint relay_until_close (chunks : list bytes) (sched : list bool) : bytes :=
  match sched with
  | [] => concat chunks
  | true :: r => match chunks with c :: cs => c ++ relay_until_close cs r | [] => [] end
  | false :: r => relay_until_close chunks r
  end.

(* TypeWriterReadCloser.sanitize, applied to what the session recording holds *)
Definition sanitize_byte (b : N) : bytes :=
  if (b =? 13)%N then []
  else if (b =? 10)%N then [60; 98; 114; 47; 62]%N                                   (* <br/> *)
  else if (b =? 39)%N then [92; 39]%N                                                (* \' *)
  else if (b =? 8)%N then [60; 98; 97; 99; 107; 115; 112; 97; 99; 101; 62]%N         (* <backspace> *)
  else [b].
Definition sanitize (l : bytes) : bytes := flat_map sanitize_byte l.

(* ------------------------------------------------------------------ *)
(* concurrent connections.  Every Handle call has its own connection, buffers and backend
   connection; the service object shared by all connections holds only the event channel
   and the director.  A step of the system = one segment arriving on one connection. *)
Definition conns := nat -> list bytes.     (* what has arrived, per connection *)

Definition arrive (g : conns) (i : nat) (s : bytes) : conns :=
  fun j => if (j =? i)%nat then g j ++ [s] else g j.

Fixpoint arrive_all (g : conns) (l : list (nat * bytes)) : conns :=
  match l with
  | [] => g
  | (i, s) :: r => arrive_all (arrive g i s) r
  end.

(* the segments of connection i in an interleaved arrival order *)
Definition own (i : nat) (l : list (nat * bytes)) : list bytes :=
  map snd (filter (fun p => (fst p =? i)%nat) l).

(* ------------------------------------------------------------------ *)
(* both directions of a relayed stream, with half-close.  Either side writes chunks and
   then ends its direction (FIN / SSH_MSG_CHANNEL_EOF); the other direction may still have
   data to deliver.  The end of one direction is passed on to the other side as such; a
   relay is characterised by when it stops altogether (closing both sides):
     copy (stream):  when BOTH directions have ended (the goroutine client->backend does
                     CloseWrite on the backend connection, Handle does CloseWrite on the
                     client connection and waits for that goroutine)
     ssh-proxy:      when the backend's direction ends (the client's EOF is forwarded with
                     CloseWrite; the session ends with the backend's output)
     copy over a connection that cannot half-close: as ssh-proxy *)
Inductive dev :=
| DC (c : bytes)        (* the client writes c *)
| DCEof                 (* the client ends its direction (half-close) *)
| DB (c : bytes)        (* the backend writes c *)
| DBEof.                (* the backend ends its direction *)

Inductive policy := StopBoth | StopOnBackend.

Definition stops_now (p : policy) (cdone bdone : bool) : bool :=
  match p with StopBoth => cdone && bdone | StopOnBackend => bdone end.

Record dstate := mkDst {
  d_alive : bool;       (* the relay is still running *)
  d_up : bytes;         (* what the backend has received *)
  d_down : bytes;       (* what the client has received *)
  d_cdone : bool;       (* the client has ended its direction *)
  d_bdone : bool }.     (* the backend has ended its direction *)

(* what each side can tell: the other's end of direction was passed on, or everything was closed *)
Definition d_beof (s : dstate) : bool := d_cdone s || negb (d_alive s).
Definition d_ceof (s : dstate) : bool := d_bdone s || negb (d_alive s).

Definition dstep (p : policy) (s : dstate) (e : dev) : dstate :=
  if d_alive s then
    match e with
    | DC c => mkDst true (d_up s ++ c) (d_down s) (d_cdone s) (d_bdone s)
    | DB c => mkDst true (d_up s) (d_down s ++ c) (d_cdone s) (d_bdone s)
    | DCEof => mkDst (negb (stops_now p true (d_bdone s))) (d_up s) (d_down s) true (d_bdone s)
    | DBEof => mkDst (negb (stops_now p (d_cdone s) true)) (d_up s) (d_down s) (d_cdone s) true
    end
  else s.

Definition dst0 : dstate := mkDst true [] [] false false.
Definition duplex_run (p : policy) (l : list dev) : dstate := fold_left (dstep p) l dst0.

Definition copy_duplex := duplex_run StopBoth.
Definition ssh_duplex := duplex_run StopOnBackend.

(* what was written in each direction, and the part of a schedule before the relay stops *)
Definition ups (l : list dev) : bytes := flat_map (fun e => match e with DC c => c | _ => [] end) l.
Definition downs (l : list dev) : bytes := flat_map (fun e => match e with DB c => c | _ => [] end) l.

Fixpoint until_stop (p : policy) (cdone bdone : bool) (l : list dev) : list dev :=
  match l with
  | [] => []
  | DCEof :: r => if stops_now p true bdone then [] else DCEof :: until_stop p true bdone r
  | DBEof :: r => if stops_now p cdone true then [] else DBEof :: until_stop p cdone true r
  | e :: r => e :: until_stop p cdone bdone r
  end.

(* a well-formed schedule: a side writes nothing after it has ended its own direction *)
Fixpoint sched_ok (cdone bdone : bool) (l : list dev) : Prop :=
  match l with
  | [] => True
  | DC _ :: r => cdone = false /\ sched_ok cdone bdone r
  | DB _ :: r => bdone = false /\ sched_ok cdone bdone r
  | DCEof :: r => cdone = false /\ sched_ok true bdone r
  | DBEof :: r => bdone = false /\ sched_ok cdone true r
  end.
