(* C05 - lemmas about the event-store model. *)
From HT Require Import Common.Bytes C05.Model C05.Check.
From Coq Require Import ZifyBool ZifyN ZifyNat Permutation.
Open Scope Z_scope.

Lemma eqb_bytes_refl a : eqb_bytes a a = true.
Proof. apply eqb_bytes_true; reflexivity. Qed.

Lemma eqb_bytes_false a b : eqb_bytes a b = false <-> a <> b.
Proof. unfold eqb_bytes; destruct (list_eq_dec N.eq_dec a b); split; congruence. Qed.

Lemma eqb_bytes_sym a b : eqb_bytes a b = eqb_bytes b a.
Proof.
  destruct (eqb_bytes a b) eqn:E.
  - apply eqb_bytes_true in E; subst; symmetry; apply eqb_bytes_refl.
  - apply eqb_bytes_false in E. symmetry; apply eqb_bytes_false; congruence.
Qed.

(* ---- the store is a last-write-wins finite map ---- *)
Lemma get_del_same s k : get (del s k) k = None.
Proof.
  induction s as [|[k' v] r IH]; cbn [del get]; auto.
  destruct (eqb_bytes k' k) eqn:E; auto. cbn [get]. rewrite E; auto.
Qed.

Lemma get_del_other s k k' : k' <> k -> get (del s k) k' = get s k'.
Proof.
  intros Hne; induction s as [|[k0 v] r IH]; cbn [del get]; auto.
  destruct (eqb_bytes k0 k) eqn:E.
  - apply eqb_bytes_true in E; subst k0.
    assert (eqb_bytes k k' = false) by (apply eqb_bytes_false; congruence).
    rewrite H; exact IH.
  - cbn [get]. rewrite IH; reflexivity.
Qed.

Lemma get_set_same s k v : get (set s k v) k = Some v.
Proof. unfold set; cbn [get]; rewrite eqb_bytes_refl; reflexivity. Qed.

Lemma get_set_other s k v k' : k' <> k -> get (set s k v) k' = get s k'.
Proof.
  intros Hne; unfold set; cbn [get].
  assert (eqb_bytes k k' = false) by (apply eqb_bytes_false; congruence).
  rewrite H. apply get_del_other; exact Hne.
Qed.

Lemma get_set s k v k' :
  get (set s k v) k' = if eqb_bytes k k' then Some v else get s k'.
Proof.
  destruct (eqb_bytes k k') eqn:E.
  - apply eqb_bytes_true in E; subst; apply get_set_same.
  - apply eqb_bytes_false in E; apply get_set_other; congruence.
Qed.

Lemma not_in_keys_del s k : ~ In k (keys (del s k)).
Proof.
  induction s as [|[k' v] r IH]; cbn [del keys map]; auto.
  destruct (eqb_bytes k' k) eqn:E; auto.
  cbn [map fst In]. intros [H|H]; [|exact (IH H)].
  apply eqb_bytes_false in E; congruence.
Qed.

Lemma in_keys_del s k k' : In k' (keys (del s k)) -> In k' (keys s).
Proof.
  induction s as [|[k0 v] r IH]; cbn [del keys map]; auto.
  destruct (eqb_bytes k0 k); cbn [map fst In]; intuition.
Qed.

Lemma nodup_del s k : NoDup (keys s) -> NoDup (keys (del s k)).
Proof.
  induction s as [|[k0 v] r IH]; cbn [del keys map]; intros H; auto.
  inversion H as [|? ? Hn Hr]; subst.
  destruct (eqb_bytes k0 k); [exact (IH Hr)|].
  cbn [map fst]. constructor; [|exact (IH Hr)].
  intros Hin; apply Hn. eapply in_keys_del; exact Hin.
Qed.

(* the store never holds two values for one key *)
Lemma nodup_set s k v : NoDup (keys s) -> NoDup (keys (set s k v)).
Proof.
  intros H; unfold set; cbn [keys map fst]. constructor.
  - apply not_in_keys_del.
  - apply nodup_del; exact H.
Qed.

Lemma get_in_keys s k v : get s k = Some v -> In k (keys s).
Proof.
  induction s as [|[k0 v0] r IH]; cbn [get keys map fst In]; [discriminate|].
  destruct (eqb_bytes k0 k) eqn:E; intros H.
  - left; apply eqb_bytes_true; exact E.
  - right; exact (IH H).
Qed.

Lemma in_keys_get s k : In k (keys s) -> exists v, get s k = Some v.
Proof.
  induction s as [|[k0 v0] r IH]; cbn [get keys map fst In]; [tauto|].
  intros [H|H].
  - subst; rewrite eqb_bytes_refl; eauto.
  - destruct (eqb_bytes k0 k); eauto.
Qed.

(* ---- hex ---- *)
Lemma hex_val_digit n : (n < 16)%N -> hex_val (hex_digit n) = Some n.
Proof.
  intros H; unfold hex_digit, hex_val.
  destruct (n <? 10)%N eqn:E.
  - assert ((48 <=? 48 + n)%N && (48 + n <=? 57)%N = true) as -> by lia. f_equal; lia.
  - assert ((48 <=? 87 + n)%N && (87 + n <=? 57)%N = false) as -> by lia.
    assert ((97 <=? 87 + n)%N && (87 + n <=? 102)%N = true) as -> by lia. f_equal; lia.
Qed.

Lemma hex_roundtrip b : wf_bytes b = true -> hex_decode (hex_encode b) = Some b.
Proof.
  induction b as [|x r IH]; cbn [hex_encode hex_decode wf_bytes forallb]; auto.
  intros H; apply andb_true_iff in H as [Hx Hr]. unfold byteb in Hx.
  rewrite !hex_val_digit by lia.
  fold (wf_bytes r) in Hr. rewrite (IH Hr). do 2 f_equal. lia.
Qed.

Lemma hex_encode_length b : zlen (hex_encode b) = 2 * zlen b.
Proof. induction b as [|x r IH]; cbn [hex_encode]; [reflexivity|]. rewrite !zlen_cons, IH. lia. Qed.

(* ---- payload option ---- *)
Lemma K_payload_distinct :
  K_payload <> K_payload_hex /\ K_payload <> K_payload_length /\ K_payload_hex <> K_payload_length.
Proof. repeat split; discriminate. Qed.

Lemma payload_fields s b :
  let s' := apply_opt (OPayload b) s in
  get s' K_payload = Some (VStr b) /\
  get s' K_payload_hex = Some (VStr (hex_encode b)) /\
  get s' K_payload_length = Some (VInt (zlen b)) /\
  (forall k, ~ In k payload_keys -> get s' k = get s k).
Proof.
  cbv zeta; cbn [apply_opt]. split; [|split; [|split]].
  - rewrite !get_set. reflexivity.
  - rewrite !get_set. reflexivity.
  - rewrite get_set_same; reflexivity.
  - intros k Hk. cbn [payload_keys In] in Hk.
    rewrite !get_set_other by (intros E; apply Hk; subst; tauto). reflexivity.
Qed.

Lemma payload_hex_decodes s b :
  wf_bytes b = true ->
  exists h, get (apply_opt (OPayload b) s) K_payload_hex = Some (VStr h) /\ hex_decode h = Some b.
Proof.
  intros Hwf. exists (hex_encode b). split.
  - apply (payload_fields s b).
  - apply hex_roundtrip; exact Hwf.
Qed.

(* ---- address options ---- *)
Lemma addr_fields s kip kport a ip p :
  kip <> kport -> (a = ATcp ip p \/ a = AUdp ip p) ->
  let s' := store_addr s kip kport a in
  get s' kip = Some (VStr ip) /\ get s' kport = Some (VInt p) /\
  (forall k, k <> kip -> k <> kport -> get s' k = get s k).
Proof.
  intros Hne [Ha|Ha]; subst a; cbv zeta; cbn [store_addr]; (split; [|split]).
  all: try (rewrite get_set_other by congruence; apply get_set_same).
  all: try apply get_set_same.
  all: intros k H1 H2; rewrite !get_set_other by congruence; reflexivity.
Qed.

Lemma addr_other_stores_nothing s kip kport : store_addr s kip kport AOther = s.
Proof. reflexivity. Qed.

(* ---- MergeFrom / CopyFrom ---- *)
Lemma merge1_get s kv k :
  get (merge1 s kv) k =
  match get s k with
  | Some v => Some v
  | None => if eqb_bytes (fst kv) k then Some (snd kv) else None
  end.
Proof.
  unfold merge1, has. destruct kv as [k0 v0]; cbn [fst snd].
  destruct (get s k0) eqn:E0.
  - destruct (get s k) eqn:E; auto.
    destruct (eqb_bytes k0 k) eqn:Ek; auto.
    apply eqb_bytes_true in Ek; subst; congruence.
  - rewrite get_set. destruct (eqb_bytes k0 k) eqn:Ek.
    + apply eqb_bytes_true in Ek; subst. rewrite E0; reflexivity.
    + destruct (get s k); reflexivity.
Qed.

Lemma merge_get m : forall s k,
  get (fold_left merge1 m s) k =
  match get s k with Some v => Some v | None => get m k end.
Proof.
  induction m as [|[k0 v0] r IH]; intros s k; cbn [fold_left get].
  - destruct (get s k); reflexivity.
  - rewrite IH, merge1_get; cbn [fst snd].
    destruct (get s k); auto. destruct (eqb_bytes k0 k); reflexivity.
Qed.

(* merging keeps the keys the event already has ... *)
Lemma merge_keeps m s k v : get s k = Some v -> get (apply_opt (OMerge m) s) k = Some v.
Proof. intros H; cbn [apply_opt]; rewrite merge_get, H; reflexivity. Qed.

(* ... and adds the others *)
Lemma merge_adds m s k : get s k = None -> get (apply_opt (OMerge m) s) k = get m k.
Proof. intros H; cbn [apply_opt]; rewrite merge_get, H; reflexivity. Qed.

Lemma copy_get_nodup m : forall s k,
  NoDup (keys m) ->
  get (fold_left copy1 m s) k = match get m k with Some v => Some v | None => get s k end.
Proof.
  induction m as [|[k0 v0] r IH]; intros s k Hnd; cbn [fold_left get]; auto.
  inversion Hnd as [|? ? Hn Hr]; subst.
  rewrite (IH _ _ Hr). unfold copy1; cbn [fst snd]. rewrite get_set.
  destruct (eqb_bytes k0 k) eqn:E; auto.
  apply eqb_bytes_true in E; subst k0.
  destruct (get r k) eqn:Er; auto. exfalso; apply Hn. eapply get_in_keys; eauto.
Qed.

(* copying overwrites *)
Lemma copy_overwrites m s k v :
  NoDup (keys m) -> get m k = Some v -> get (apply_opt (OCopy m) s) k = Some v.
Proof. intros Hnd H; cbn [apply_opt]; rewrite copy_get_nodup, H; auto. Qed.

Lemma copy_keeps_others m s k :
  NoDup (keys m) -> get m k = None -> get (apply_opt (OCopy m) s) k = get s k.
Proof. intros Hnd H; cbn [apply_opt]; rewrite copy_get_nodup, H; auto. Qed.

(* Go iterates the map in arbitrary order: with unique keys the order is irrelevant *)
Lemma get_in_nodup m k v : NoDup (keys m) -> (get m k = Some v <-> In (k, v) m).
Proof.
  induction m as [|[k0 v0] r IH]; cbn [get keys map fst In]; intros Hnd.
  - split; [discriminate|tauto].
  - inversion Hnd as [|? ? Hn Hr]; subst.
    destruct (eqb_bytes k0 k) eqn:E.
    + apply eqb_bytes_true in E; subst k0. split.
      * intros H; inversion H; auto.
      * intros [H|H]; [inversion H; auto|].
        exfalso; apply Hn. change k with (fst (k, v)). apply in_map; exact H.
    + rewrite (IH Hr). split; [auto|]. intros [H|H]; auto.
      inversion H; subst. rewrite eqb_bytes_refl in E; discriminate.
Qed.

Lemma get_perm m m' k :
  NoDup (keys m) -> Permutation m m' -> get m k = get m' k.
Proof.
  intros Hnd Hp.
  assert (Hnd' : NoDup (keys m')).
  { eapply Permutation_NoDup; [|exact Hnd]. apply Permutation_map; exact Hp. }
  destruct (get m k) eqn:E.
  - apply (get_in_nodup m k v Hnd) in E. symmetry. apply (get_in_nodup m' k v Hnd').
    eapply Permutation_in; eauto.
  - destruct (get m' k) eqn:E'; auto.
    apply (get_in_nodup m' k v Hnd') in E'.
    apply Permutation_sym in Hp. pose proof (Permutation_in _ Hp E') as Hin.
    apply (get_in_nodup m k v Hnd) in Hin. congruence.
Qed.

Lemma merge_order_irrelevant m m' s k :
  NoDup (keys m) -> Permutation m m' ->
  get (apply_opt (OMerge m) s) k = get (apply_opt (OMerge m') s) k.
Proof.
  intros Hnd Hp; cbn [apply_opt]. rewrite !merge_get, (get_perm m m' k Hnd Hp). reflexivity.
Qed.

Lemma copy_order_irrelevant m m' s k :
  NoDup (keys m) -> Permutation m m' ->
  get (apply_opt (OCopy m) s) k = get (apply_opt (OCopy m') s) k.
Proof.
  intros Hnd Hp; cbn [apply_opt].
  assert (Hnd' : NoDup (keys m')).
  { eapply Permutation_NoDup; [|exact Hnd]. apply Permutation_map; exact Hp. }
  rewrite !copy_get_nodup, (get_perm m m' k Hnd Hp) by assumption. reflexivity.
Qed.

(* NewWith is just sequencing *)
Lemma new_with_flat os s : apply_opt (ONewWith os) s = apply_opts os s.
Proof.
  cbn [apply_opt]. revert s; induction os as [|o r IH]; intros s; cbn [apply_opts]; auto.
Qed.

(* ---- every reachable event holds one value per key ---- *)
Lemma nodup_fold_merge m : forall s, NoDup (keys s) -> NoDup (keys (fold_left merge1 m s)).
Proof.
  induction m as [|kv r IH]; intros s H; cbn [fold_left]; auto.
  apply IH. unfold merge1. destruct (has s (fst kv)); auto. apply nodup_set; exact H.
Qed.
Lemma nodup_fold_copy m : forall s, NoDup (keys s) -> NoDup (keys (fold_left copy1 m s)).
Proof.
  induction m as [|kv r IH]; intros s H; cbn [fold_left]; auto.
  apply IH. unfold copy1. apply nodup_set; exact H.
Qed.

Section OptInd.
  Variable P : opt -> Prop.
  Hypothesis HStore : forall k v, P (OStore k v).
  Hypothesis HPayload : forall b, P (OPayload b).
  Hypothesis HSrc : forall a, P (OSrcAddr a).
  Hypothesis HDst : forall a, P (ODstAddr a).
  Hypothesis HMerge : forall m, P (OMerge m).
  Hypothesis HCopy : forall m, P (OCopy m).
  Hypothesis HNew : forall os, Forall P os -> P (ONewWith os).
  Hypothesis HNil : P ONil.
  Fixpoint opt_ind' (o : opt) : P o :=
    match o with
    | OStore k v => HStore k v
    | OPayload b => HPayload b
    | OSrcAddr a => HSrc a
    | ODstAddr a => HDst a
    | OMerge m => HMerge m
    | OCopy m => HCopy m
    | ONewWith os =>
        HNew os ((fix f (l : list opt) : Forall P l :=
                    match l with
                    | [] => Forall_nil P
                    | x :: r => Forall_cons x (opt_ind' x) (f r)
                    end) os)
    | ONil => HNil
    end.
End OptInd.

Lemma nodup_apply_opts_of os :
  Forall (fun o => forall s, NoDup (keys s) -> NoDup (keys (apply_opt o s))) os ->
  forall s, NoDup (keys s) -> NoDup (keys (apply_opts os s)).
Proof.
  induction 1 as [|o r Ho Hr IH]; intros s Hs; cbn [apply_opts]; auto.
Qed.

Lemma nodup_apply_opt o : forall s, NoDup (keys s) -> NoDup (keys (apply_opt o s)).
Proof.
  induction o using opt_ind'; intros s Hs.
  - apply nodup_set; exact Hs.
  - cbn [apply_opt]. repeat apply nodup_set. exact Hs.
  - destruct a; cbn [apply_opt store_addr]; repeat apply nodup_set; exact Hs.
  - destruct a; cbn [apply_opt store_addr]; repeat apply nodup_set; exact Hs.
  - apply nodup_fold_merge; exact Hs.
  - apply nodup_fold_copy; exact Hs.
  - rewrite new_with_flat. apply nodup_apply_opts_of; assumption.
  - exact Hs.
Qed.

Lemma nodup_new_event os : NoDup (keys (new_event os)).
Proof.
  unfold new_event. apply nodup_apply_opts_of.
  - apply Forall_forall; intros o _. apply nodup_apply_opt.
  - cbn. constructor; [intros []|constructor].
Qed.

(* ---- payload coherence of every event whose options touch the payload keys only
        through Payload (what the services do) ---- *)
Definition pk_free_kv (m : list (key * value)) : bool :=
  forallb (fun kv => negb (existsb (eqb_bytes (fst kv)) payload_keys)) m.

Fixpoint pk_free (o : opt) : bool :=
  match o with
  | OStore k _ => negb (existsb (eqb_bytes k) payload_keys)
  | OPayload b => wf_bytes b
  | OMerge m | OCopy m => pk_free_kv m
  | ONewWith os => forallb pk_free os
  | _ => true
  end.

Definition coherent (s : store) : Prop := snap_payload_ok s = true.

Lemma coherent_frame s s' :
  (forall k, In k payload_keys -> get s' k = get s k) -> coherent s -> coherent s'.
Proof.
  unfold coherent, snap_payload_ok; intros H.
  rewrite !H by (cbn; tauto). auto.
Qed.

Lemma not_pk k : negb (existsb (eqb_bytes k) payload_keys) = true -> ~ In k payload_keys.
Proof.
  intros H Hin. apply negb_true_iff in H.
  assert (existsb (eqb_bytes k) payload_keys = true); [|congruence].
  apply existsb_exists. exists k; split; auto. apply eqb_bytes_refl.
Qed.

Lemma coherent_set s k v :
  negb (existsb (eqb_bytes k) payload_keys) = true -> coherent s -> coherent (set s k v).
Proof.
  intros Hk. apply coherent_frame. intros k' Hin. apply get_set_other.
  intros ->. exact (not_pk _ Hk Hin).
Qed.

Lemma coherent_payload s b : wf_bytes b = true -> coherent (apply_opt (OPayload b) s).
Proof.
  intros Hwf. unfold coherent, snap_payload_ok.
  destruct (payload_fields s b) as (H1 & H2 & H3 & _).
  rewrite H1, H2, H3, (hex_roundtrip b Hwf), eqb_bytes_refl, Z.eqb_refl. reflexivity.
Qed.

Lemma coherent_fold_merge m : forall s, pk_free_kv m = true -> coherent s -> coherent (fold_left merge1 m s).
Proof.
  induction m as [|kv r IH]; intros s Hm Hs; cbn [fold_left]; auto.
  cbn [pk_free_kv forallb] in Hm. apply andb_true_iff in Hm as [Hk Hr].
  apply IH; [exact Hr|]. unfold merge1. destruct (has s (fst kv)); auto.
  apply coherent_set; assumption.
Qed.

Lemma coherent_fold_copy m : forall s, pk_free_kv m = true -> coherent s -> coherent (fold_left copy1 m s).
Proof.
  induction m as [|kv r IH]; intros s Hm Hs; cbn [fold_left]; auto.
  cbn [pk_free_kv forallb] in Hm. apply andb_true_iff in Hm as [Hk Hr].
  apply IH; [exact Hr|]. unfold copy1. apply coherent_set; assumption.
Qed.

Lemma coherent_apply_opts_of os :
  Forall (fun o => pk_free o = true -> forall s, coherent s -> coherent (apply_opt o s)) os ->
  forallb pk_free os = true -> forall s, coherent s -> coherent (apply_opts os s).
Proof.
  induction 1 as [|o r Ho Hr IH]; intros Hf s Hs; cbn [apply_opts]; auto.
  cbn [forallb] in Hf. apply andb_true_iff in Hf as [H1 H2]. apply IH; auto.
Qed.

Lemma coherent_store_addr s kip kport a :
  negb (existsb (eqb_bytes kip) payload_keys) = true ->
  negb (existsb (eqb_bytes kport) payload_keys) = true ->
  coherent s -> coherent (store_addr s kip kport a).
Proof. intros H1 H2 Hs; destruct a; cbn [store_addr]; auto; repeat apply coherent_set; auto. Qed.

Lemma coherent_apply_opt o : pk_free o = true -> forall s, coherent s -> coherent (apply_opt o s).
Proof.
  induction o using opt_ind'; intros Hf s Hs; cbn [pk_free] in Hf.
  - apply coherent_set; assumption.
  - apply coherent_payload; exact Hf.
  - apply coherent_store_addr; auto.
  - apply coherent_store_addr; auto.
  - apply coherent_fold_merge; assumption.
  - apply coherent_fold_copy; assumption.
  - rewrite new_with_flat. apply coherent_apply_opts_of; assumption.
  - exact Hs.
Qed.

Lemma coherent_new_event os : forallb pk_free os = true -> coherent (new_event os).
Proof.
  intros Hf. unfold new_event. apply coherent_apply_opts_of; auto.
  - apply Forall_forall; intros o _. apply coherent_apply_opt.
  - reflexivity.
Qed.

(* ---- the model meets the executable property ---- *)
Lemma value_eqb_refl v : value_eqb v v = true.
Proof. destruct v; cbn; [apply eqb_bytes_refl|lia|lia]. Qed.

Lemma store_agree_refl s ks : store_agree_on s s ks = true.
Proof.
  unfold store_agree_on. apply forallb_forall; intros k _.
  destruct (get s k); cbn; auto. apply value_eqb_refl.
Qed.

Lemma model_meets_prop id os :
  forallb pk_free os = true ->
  case_sig (mkCase id os (new_event os) (json_ok (new_event os)) true true) = 0%N.
Proof.
  intros Hf. unfold case_sig; cbn [c_opts c_snap c_json_ok c_json_keys c_tomap_keys].
  rewrite (coherent_new_event os Hf). cbn [negb].
  rewrite !store_agree_refl. cbn [negb].
  unfold store_eqb. rewrite !store_agree_refl. cbn [negb andb].
  destruct (json_ok (new_event os)); reflexivity.
Qed.
