(* C05 - executable property over the implementation's observation of one event. *)
From HT Require Import Common.Bytes C05.Model.
Open Scope Z_scope.

Record case := mkCase {
  c_id : N;
  c_opts : list opt;
  c_snap : store;        (* Range() snapshot without "date"; keys unique *)
  c_json_ok : bool;      (* json.Marshal(event) succeeded *)
  c_json_keys : bool;    (* ... and the JSON object has exactly the stored keys (+date) *)
  c_tomap_keys : bool    (* ToMap has exactly the stored keys (+date) *)
}.

Definition ovalue_eqb (a b : option value) : bool :=
  match a, b with
  | Some x, Some y => value_eqb x y
  | None, None => true
  | _, _ => false
  end.

(* stores agree as finite maps (both have unique keys) *)
Definition store_agree_on (a b : store) (ks : list key) : bool :=
  forallb (fun k => ovalue_eqb (get a k) (get b k)) ks.
Definition store_eqb (a b : store) : bool :=
  store_agree_on a b (keys a) && store_agree_on a b (keys b).

Definition payload_keys := [K_payload; K_payload_hex; K_payload_length].
Definition addr_keys := [K_source_ip; K_source_port; K_destination_ip; K_destination_port].

(* the hex field of the observed event decodes to the observed payload, and the length matches *)
Definition snap_payload_ok (s : store) : bool :=
  match get s K_payload_hex with
  | None => true
  | Some (VStr h) =>
      match get s K_payload, get s K_payload_length with
      | Some (VStr p), Some (VInt n) =>
          match hex_decode h with
          | Some d => eqb_bytes d p && (n =? zlen p)
          | None => false
          end
      | _, _ => false
      end
  | Some _ => false
  end.

Definition SIG_STORE := 1%N.      (* stored keys/values differ from last-write-wins semantics *)
Definition SIG_PAYLOAD := 2%N.    (* payload / payload-hex / payload-length wrong *)
Definition SIG_ADDR := 3%N.       (* address or port fields differ from the connection's *)
Definition SIG_JSON := 4%N.       (* serialisable event failed to marshal *)
Definition SIG_JSONKEYS := 5%N.   (* JSON lacks a stored key *)
Definition SIG_TOMAP := 6%N.      (* ToMap lacks a stored key *)

Definition case_sig (c : case) : N :=
  let spec := new_event (c_opts c) in
  let snap := c_snap c in
  if negb (snap_payload_ok snap) then SIG_PAYLOAD
  else if negb (store_agree_on spec snap payload_keys) then SIG_PAYLOAD
  else if negb (store_agree_on spec snap addr_keys) then SIG_ADDR
  else if negb (store_eqb spec snap) then SIG_STORE
  else if json_ok spec && negb (c_json_ok c) then SIG_JSON
  else if c_json_ok c && negb (c_json_keys c) then SIG_JSONKEYS
  else if negb (c_tomap_keys c) then SIG_TOMAP
  else 0%N.

Definition mismatches (cs : list case) : list N :=
  map c_id (filter (fun c => negb (store_eqb (new_event (c_opts c)) (c_snap c))) cs).

Definition violations (cs : list case) : list (N * N) :=
  flat_map (fun c => let s := case_sig c in if (s =? 0)%N then [] else [(c_id c, s)]) cs.

Fixpoint opt_tag (o : opt) : N :=
  match o with
  | OPayload _ => 1
  | OSrcAddr (ATcp _ _) | OSrcAddr (AUdp _ _) | ODstAddr (ATcp _ _) | ODstAddr (AUdp _ _) => 2
  | OMerge _ | OCopy _ => 4
  | ONewWith os => fold_left (fun a o' => N.lor a (opt_tag o')) os 0
  | _ => 0
  end%N.
Definition tags (cs : list case) : list (N * N) :=
  map (fun c => (c_id c, fold_left (fun a o => N.lor a (opt_tag o)) (c_opts c) 0%N)) cs.
