(* C05 - property theorems.  Statements closed by [exact lemma] + Print Assumptions. *)
From HT Require Import Common.Bytes C05.Model C05.Check C05.Proofs.
From Coq Require Import Permutation.
Open Scope Z_scope.

(* the hexadecimal payload field decodes to exactly the bytes received *)
Theorem C05_hex_roundtrip : forall b, wf_bytes b = true -> hex_decode (hex_encode b) = Some b.
Proof. exact hex_roundtrip. Qed.

(* Payload stores the bytes, their hex form and their count; touches nothing else *)
Theorem C05_payload_fields : forall s b,
  let s' := apply_opt (OPayload b) s in
  get s' K_payload = Some (VStr b) /\
  get s' K_payload_hex = Some (VStr (hex_encode b)) /\
  get s' K_payload_length = Some (VInt (zlen b)) /\
  (forall k, ~ In k payload_keys -> get s' k = get s k).
Proof. exact payload_fields. Qed.

Theorem C05_payload_hex_decodes : forall s b, wf_bytes b = true ->
  exists h, get (apply_opt (OPayload b) s) K_payload_hex = Some (VStr h) /\ hex_decode h = Some b.
Proof. exact payload_hex_decodes. Qed.

(* addresses and ports recorded from a TCP/UDP connection equal the connection's *)
Theorem C05_addr_fields : forall s kip kport a ip p,
  kip <> kport -> (a = ATcp ip p \/ a = AUdp ip p) ->
  let s' := store_addr s kip kport a in
  get s' kip = Some (VStr ip) /\ get s' kport = Some (VInt p) /\
  (forall k, k <> kip -> k <> kport -> get s' k = get s k).
Proof. exact addr_fields. Qed.

Theorem C05_addr_other_stores_nothing : forall s kip kport, store_addr s kip kport AOther = s.
Proof. exact addr_other_stores_nothing. Qed.

(* merging keeps the keys the event already has, adds the others; copying overwrites *)
Theorem C05_merge_keeps : forall m s k v,
  get s k = Some v -> get (apply_opt (OMerge m) s) k = Some v.
Proof. exact merge_keeps. Qed.

Theorem C05_merge_adds : forall m s k,
  get s k = None -> get (apply_opt (OMerge m) s) k = get m k.
Proof. exact merge_adds. Qed.

Theorem C05_copy_overwrites : forall m s k v,
  NoDup (keys m) -> get m k = Some v -> get (apply_opt (OCopy m) s) k = Some v.
Proof. exact copy_overwrites. Qed.

Theorem C05_copy_keeps_others : forall m s k,
  NoDup (keys m) -> get m k = None -> get (apply_opt (OCopy m) s) k = get s k.
Proof. exact copy_keeps_others. Qed.

(* Go's map iteration order cannot matter *)
Theorem C05_merge_order_irrelevant : forall m m' s k,
  NoDup (keys m) -> Permutation m m' ->
  get (apply_opt (OMerge m) s) k = get (apply_opt (OMerge m') s) k.
Proof. exact merge_order_irrelevant. Qed.

Theorem C05_copy_order_irrelevant : forall m m' s k,
  NoDup (keys m) -> Permutation m m' ->
  get (apply_opt (OCopy m) s) k = get (apply_opt (OCopy m') s) k.
Proof. exact copy_order_irrelevant. Qed.

(* every event holds one value per key (last write wins), for every option list *)
Theorem C05_one_value_per_key : forall os, NoDup (keys (new_event os)).
Proof. exact nodup_new_event. Qed.

Theorem C05_last_write_wins : forall s k v k',
  get (set s k v) k' = if eqb_bytes k k' then Some v else get s k'.
Proof. exact get_set. Qed.

(* for every option list that touches the payload keys only through Payload, the event's
   hex field decodes to its payload field and the length field is its count *)
Theorem C05_event_payload_coherent : forall os,
  forallb pk_free os = true -> snap_payload_ok (new_event os) = true.
Proof. exact coherent_new_event. Qed.

(* the model satisfies the executable property evaluated on implementation observations *)
Theorem C05_model_meets_prop : forall id os,
  forallb pk_free os = true ->
  case_sig (mkCase id os (new_event os) (json_ok (new_event os)) true true) = 0%N.
Proof. exact model_meets_prop. Qed.

(* event.New stamps "date" first, so an option (Custom / CopyFrom "date") overwrites it and
   MergeFrom keeps it *)
Theorem C05_date_overwritable : forall v,
  get (new_event [OStore K_date v]) K_date = Some v /\ get (new_event []) K_date = Some V_now /\
  get (new_event [OMerge [(K_date, v)]]) K_date = Some V_now.
Proof. intros v. repeat split. Qed.

(* non-vacuity *)
Example C05_nonvacuous :
  let os := [OStore [99]%N (VInt 1); OPayload [0; 255; 10]%N; OMerge [([99]%N, VInt 2); ([100]%N, VInt 3)]] in
  forallb pk_free os = true /\ get (new_event os) [99]%N = Some (VInt 1) /\ get (new_event os) [100]%N = Some (VInt 3)
  /\ get (new_event os) K_payload_hex = Some (VStr [48;48;102;102;48;97]%N).
Proof. vm_compute. repeat split. Qed.

Print Assumptions C05_hex_roundtrip.
Print Assumptions C05_payload_fields.
Print Assumptions C05_payload_hex_decodes.
Print Assumptions C05_addr_fields.
Print Assumptions C05_addr_other_stores_nothing.
Print Assumptions C05_merge_keeps.
Print Assumptions C05_merge_adds.
Print Assumptions C05_copy_overwrites.
Print Assumptions C05_copy_keeps_others.
Print Assumptions C05_merge_order_irrelevant.
Print Assumptions C05_copy_order_irrelevant.
Print Assumptions C05_one_value_per_key.
Print Assumptions C05_last_write_wins.
Print Assumptions C05_event_payload_coherent.
Print Assumptions C05_model_meets_prop.
Print Assumptions C05_date_overwritable.
