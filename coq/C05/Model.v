(* C05 - model of event/event.go + event/map.go: an event is a last-write-wins
   key/value store; options are store transformers.  Executable definitions only. *)
From HT Require Import Common.Bytes.
Open Scope Z_scope.

Definition key := bytes.

(* Values as the harness projects them: Go strings (arbitrary bytes), integers
   (int / uint16 ...), and anything else by a type code (see json_ok). *)
Inductive value := VStr (s : bytes) | VInt (z : Z) | VOther (t : N).

Definition value_eqb (a b : value) : bool :=
  match a, b with
  | VStr x, VStr y => eqb_bytes x y
  | VInt x, VInt y => x =? y
  | VOther x, VOther y => (x =? y)%N
  | _, _ => false
  end.

Definition store := list (key * value).

Fixpoint get (s : store) (k : key) : option value :=
  match s with
  | [] => None
  | (k', v) :: r => if eqb_bytes k' k then Some v else get r k
  end.

Fixpoint del (s : store) (k : key) : store :=
  match s with
  | [] => []
  | (k', v) :: r => if eqb_bytes k' k then del r k else (k', v) :: del r k
  end.

(* sync.Map.Store: replace or insert *)
Definition set (s : store) (k : key) (v : value) : store := (k, v) :: del s k.

Definition has (s : store) (k : key) : bool :=
  match get s k with Some _ => true | None => false end.

Definition keys (s : store) : list key := map fst s.

(* ---- encoding/hex.EncodeToString / DecodeString ---- *)
Definition hex_digit (n : N) : N := (if n <? 10 then 48 + n else 87 + n)%N.
Fixpoint hex_encode (b : bytes) : bytes :=
  match b with
  | [] => []
  | x :: r => hex_digit (x / 16) :: hex_digit (x mod 16) :: hex_encode r
  end.

Definition hex_val (c : N) : option N :=
  (if (48 <=? c) && (c <=? 57) then Some (c - 48)
   else if (97 <=? c) && (c <=? 102) then Some (c - 87)
   else if (65 <=? c) && (c <=? 70) then Some (c - 55)
   else None)%N.

Fixpoint hex_decode (s : bytes) : option bytes :=
  match s with
  | [] => Some []
  | [_] => None
  | a :: b :: r =>
      match hex_val a, hex_val b, hex_decode r with
      | Some x, Some y, Some t => Some ((x * 16 + y)%N :: t)
      | _, _, _ => None
      end
  end.

(* ---- key names ---- *)
Definition s2b (l : list N) : bytes := l.
(* "payload" "payload-hex" "payload-length" "source-ip" "source-port" "destination-ip" "destination-port" *)
Definition K_payload : key := [112;97;121;108;111;97;100]%N.
Definition K_payload_hex : key := [112;97;121;108;111;97;100;45;104;101;120]%N.
Definition K_payload_length : key := [112;97;121;108;111;97;100;45;108;101;110;103;116;104]%N.
Definition K_source_ip : key := [115;111;117;114;99;101;45;105;112]%N.
Definition K_source_port : key := [115;111;117;114;99;101;45;112;111;114;116]%N.
Definition K_destination_ip : key := [100;101;115;116;105;110;97;116;105;111;110;45;105;112]%N.
Definition K_destination_port : key := [100;101;115;116;105;110;97;116;105;111;110;45;112;111;114;116]%N.

(* ---- options ---- *)
(* net.Addr as the option sees it: *net.TCPAddr / *net.UDPAddr with the textual IP
   (net.IP.String() is Go library code, its result is an input) and port; anything else *)
Inductive addr := ATcp (ip : bytes) (port : Z) | AUdp (ip : bytes) (port : Z) | AOther.

Inductive opt :=
| OStore (k : key) (v : value)   (* Token, Category, Type, Sensor, Service, Custom, SourceIP, SourcePort, ... *)
| OPayload (b : bytes)
| OSrcAddr (a : addr)
| ODstAddr (a : addr)
| OMerge (m : list (key * value))   (* MergeFrom: Go map, keys unique, iteration order arbitrary *)
| OCopy (m : list (key * value))    (* CopyFrom *)
| ONewWith (os : list opt)
| ONil.                              (* a nil Option is skipped by New *)

Definition store_addr (s : store) (kip kport : key) (a : addr) : store :=
  match a with
  | ATcp ip p | AUdp ip p => set (set s kip (VStr ip)) kport (VInt p)
  | AOther => s
  end.

Definition merge1 (s : store) (kv : key * value) : store :=
  if has s (fst kv) then s else set s (fst kv) (snd kv).
Definition copy1 (s : store) (kv : key * value) : store := set s (fst kv) (snd kv).

Fixpoint apply_opt (o : opt) (s : store) {struct o} : store :=
  match o with
  | OStore k v => set s k v
  | OPayload b =>
      set (set (set s K_payload (VStr b)) K_payload_hex (VStr (hex_encode b)))
          K_payload_length (VInt (zlen b))
  | OSrcAddr a => store_addr s K_source_ip K_source_port a
  | ODstAddr a => store_addr s K_destination_ip K_destination_port a
  | OMerge m => fold_left merge1 m s
  | OCopy m => fold_left copy1 m s
  | ONewWith os =>
      (fix go (l : list opt) (s : store) : store :=
         match l with [] => s | o' :: r => go r (apply_opt o' s) end) os s
  | ONil => s
  end.

Fixpoint apply_opts (os : list opt) (s : store) : store :=
  match os with [] => s | o :: r => apply_opts r (apply_opt o s) end.

(* event.New(opts...): the "date" key is stored first (a time.Time, projected to type
   code 9), then the options are applied - so an option may overwrite it *)
Definition K_date : key := [100;97;116;101]%N.
Definition V_now : value := VOther 9.
Definition new_event (os : list opt) : store := apply_opts os [(K_date, V_now)].

(* which projected Go types encoding/json accepts: 0..99 serialisable
   (slices, maps with string keys, structs, errors, time.Time, bool, float, nil),
   >= 100 not (chan, func, complex) *)
Definition json_ok_value (v : value) : bool :=
  match v with VOther t => (t <? 100)%N | _ => true end.
Definition json_ok (s : store) : bool := forallb (fun kv => json_ok_value (snd kv)) s.
