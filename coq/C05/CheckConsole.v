(* C05 - the console channel (pushers/console): one line per event, and the line shows every
   key stored in the event with its value.  Judged on the observation alone (the line the
   real channel wrote) for the keys whose rendering the code fixes unambiguously: string
   values of printable ASCII (rendered as they are) and integer values (decimal).  The other
   value kinds are rendered with Go's %#v and are not judged. *)
From HT Require Import Common.Bytes.
Open Scope Z_scope.

Record case := mkCase {
  c_id : N;
  c_line : option bytes;              (* the line written for this event (None: none was) *)
  c_pairs : list (bytes * bytes)      (* key, expected rendering of its value *)
}.

Fixpoint is_prefix (p b : bytes) : bool :=
  match p, b with
  | [], _ => true
  | x :: p', y :: b' => (x =? y)%N && is_prefix p' b'
  | _ :: _, [] => false
  end.

Fixpoint is_infix (p b : bytes) : bool :=
  is_prefix p b || match b with [] => false | _ :: b' => is_infix p b' end.

Definition SIG_NOLINE := 1%N.     (* no line for the event *)
Definition SIG_KEY := 2%N.        (* a stored key = value is not in the line *)
Definition SIG_SHAPE := 3%N.      (* the line does not end in a newline / holds more than one *)

Definition shows (line : bytes) (kv : bytes * bytes) : bool :=
  is_infix (fst kv ++ [61%N] ++ snd kv) line.

Definition one_line (l : bytes) : bool :=
  match rev l with
  | 10%N :: r => negb (existsb (N.eqb 10) r)
  | _ => false
  end.

Definition case_sig (c : case) : N :=
  match c_line c with
  | None => SIG_NOLINE
  | Some l => if negb (one_line l) then SIG_SHAPE
              else if forallb (shows l) (c_pairs c) then 0%N else SIG_KEY
  end.

Definition violations (cs : list case) : list (N * N) :=
  flat_map (fun c => let s := case_sig c in if (s =? 0)%N then [] else [(c_id c, s)]) cs.
(* no model of the rendering: nothing to disagree with *)
Definition mismatches (cs : list case) : list N := [].
Definition tags (cs : list case) : list (N * N) := map (fun c => (c_id c, N.of_nat (length (c_pairs c)))) cs.
