(* C02 - lemmas. *)
From HT Require Import Common.Bytes C02.Model C02.Check.
From Coq Require Import ZifyBool ZifyN ZifyNat.
Open Scope Z_scope.

Ltac bdestr :=
  repeat match goal with
  | |- context [if ?b then _ else _] => let E := fresh "E" in destruct b eqn:E
  end.

(* ------------------------------------------------------------------ parsers *)

Lemma eth_parse_ok d : 14 <= zlen d -> exists e, eth_parse d = Ok e.
Proof.
  intros H; unfold eth_parse. destruct (zlen d <? 14) eqn:E; [lia|]. eauto.
Qed.

Lemma eth_parse_panic_iff d s : eth_parse d = Panic s <-> s = SITE_ETH /\ zlen d < 14.
Proof.
  unfold eth_parse. destruct (zlen d <? 14) eqn:E; split.
  - intros H; inversion H; split; [reflexivity|lia].
  - intros [-> _]; reflexivity.
  - discriminate.
  - intros [_ H]; lia.
Qed.

Lemma udp_parse_no_panic d s : udp_parse d <> Panic s.
Proof. unfold udp_parse; bdestr; discriminate. Qed.

Lemma icmp_parse_no_panic d s : icmp_parse d <> Panic s.
Proof. unfold icmp_parse; bdestr; discriminate. Qed.

Definition ip_hdrlen (b : bytes) : Z := (byte_at b 0 mod 16) * 4.

Lemma ipv4_parse_no_panic b s : ipv4_parse b <> Panic s.
Proof. unfold ipv4_parse; bdestr; discriminate. Qed.

(* accepted exactly when the lengths are consistent; the payload is b[20:TotalLen] *)
Lemma ipv4_parse_ok_iff b :
  (exists h, ipv4_parse b = Ok h) <->
  20 <= zlen b /\ ip_hdrlen b <= zlen b /\ 20 <= u16_at b 2 <= zlen b.
Proof.
  unfold ipv4_parse, ip_hdrlen.
  destruct (zlen b <? 20) eqn:E1.
  { split; [intros [h H]; discriminate|lia]. }
  destruct ((byte_at b 0 mod 16) * 4 >? zlen b) eqn:E2.
  { split; [intros [h H]; discriminate|lia]. }
  destruct (u16_at b 2 >? zlen b) eqn:E3.
  { split; [intros [h H]; discriminate|lia]. }
  destruct (u16_at b 2 <? 20) eqn:E4.
  { split; [intros [h H]; discriminate|lia]. }
  split; [lia|eauto].
Qed.

Lemma ipv4_parse_payload b h :
  ipv4_parse b = Ok h -> zlen (ip_payload h) = u16_at b 2 - 20 /\ 20 <= u16_at b 2 <= zlen b.
Proof.
  unfold ipv4_parse.
  destruct (zlen b <? 20) eqn:E1; [discriminate|].
  destruct ((byte_at b 0 mod 16) * 4 >? zlen b) eqn:E2; [discriminate|].
  destruct (u16_at b 2 >? zlen b) eqn:E3; [discriminate|].
  destruct (u16_at b 2 <? 20) eqn:E4; [discriminate|].
  intros H; inversion H; subst; cbn [ip_payload]. split; [apply slice_length; lia|lia].
Qed.

(* arp.Unmarshal is unchanged and can still panic; handleARP is unreachable (doARP is
   never set), so the receive loop never calls it *)
Lemma arp_parse_panic_iff d s :
  arp_parse d = Panic s <->
  s = SITE_ARP /\ 28 <= zlen d /\ byte_at d 4 <= 20 /\ byte_at d 5 <= 20 /\
  zlen d < 8 + 2 * byte_at d 4 + 2 * byte_at d 5.
Proof.
  unfold arp_parse.
  assert (Hh : 0 <= byte_at d 4) by (unfold byte_at; lia).
  assert (Hp : 0 <= byte_at d 5) by (unfold byte_at; lia).
  bdestr; split; try discriminate;
    try (intros H; inversion H; repeat split; lia);
    try (intros (-> & ?); reflexivity);
    try (intros (_ & ? & ? & ? & ?); lia).
Qed.

(* ---- the TCP option walk ---- *)

Lemma tcp_opts_fuel fuel : forall d,
  (length d <= fuel)%nat -> snd (tcp_opts fuel d) <> OUT_OF_FUEL.
Proof.
  induction fuel as [|f IH]; intros d Hl.
  - destruct d; cbn in *; [discriminate|lia].
  - destruct d as [|k r]; cbn [tcp_opts]; [cbn; discriminate|].
    cbn [length] in Hl.
    destruct (k =? 0)%N; [cbn; discriminate|].
    destruct (k =? 1)%N.
    { specialize (IH r ltac:(lia)). destruct (tcp_opts f r) as [os c]. exact IH. }
    destruct r as [|l r']; [cbn; discriminate|].
    destruct (l <? 2)%N eqn:El; [cbn; discriminate|].
    destruct (Z.of_N l >? zlen (k :: l :: r')) eqn:Eg; [cbn; discriminate|].
    assert (Hs : (length (skipn (N.to_nat l) (k :: l :: r')) <= f)%nat).
    { rewrite skipn_length. cbn [length] in *. lia. }
    specialize (IH _ Hs). destruct (tcp_opts f (skipn (N.to_nat l) (k :: l :: r'))) as [os c]. exact IH.
Qed.

(* the walk ends on a single byte that is neither End-of-list nor Nop: the layout on
   which the unrepaired parser indexed data[1] out of range *)
Inductive lone_kind : bytes -> Prop :=
| lone_last k : (2 <= k)%N -> lone_kind [k]
| lone_nop r : lone_kind r -> lone_kind (1%N :: r)
| lone_skip k l r : (2 <= k)%N -> (2 <= l)%N -> Z.of_N l <= zlen (k :: l :: r) ->
                    lone_kind (skipn (N.to_nat l) (k :: l :: r)) -> lone_kind (k :: l :: r).

(* what the loop leaves in hdr.Options and what it returns, as a relation on the option
   bytes: one entry per iteration - End-of-list (last entry, the rest is padding), Nop,
   kind+length option (skipped as a whole), or the entry of the failing iteration *)
Inductive opt_walk : bytes -> list opt -> Z -> Prop :=
| ow_done : opt_walk [] [] 0
| ow_eol r : opt_walk (0%N :: r) [(0%N, 1%N)] 0
| ow_nop r os c : opt_walk r os c -> opt_walk (1%N :: r) ((1%N, 1%N) :: os) c
| ow_lone k : (2 <= k)%N -> opt_walk [k] [(k, 0%N)] 5
| ow_short k l r : (2 <= k)%N -> (l < 2)%N -> opt_walk (k :: l :: r) [(k, l)] 3
| ow_over k l r : (2 <= k)%N -> (2 <= l)%N -> Z.of_N l > zlen (k :: l :: r) ->
                  opt_walk (k :: l :: r) [(k, l)] 4
| ow_opt k l r os c : (2 <= k)%N -> (2 <= l)%N -> Z.of_N l <= zlen (k :: l :: r) ->
                      opt_walk (skipn (N.to_nat l) (k :: l :: r)) os c ->
                      opt_walk (k :: l :: r) ((k, l) :: os) c.

(* the executable walk computes exactly that relation: for every byte string, with no
   bound on the number of entries *)
Lemma tcp_opts_walk_iff fuel : forall d os c,
  (length d <= fuel)%nat -> (tcp_opts fuel d = (os, c) <-> opt_walk d os c).
Proof.
  induction fuel as [|f IH]; intros d os c Hl.
  - destruct d; cbn in *; [|lia]. split.
    + intros H; inversion H; constructor.
    + intros H; inversion H; reflexivity.
  - destruct d as [|k r]; cbn [tcp_opts].
    { split.
      - intros H; inversion H; constructor.
      - intros H; inversion H; reflexivity. }
    cbn [length] in Hl.
    destruct (k =? 0)%N eqn:E0.
    { assert (k = 0%N) by lia; subst k. split.
      - intros H; inversion H; constructor.
      - intros H; inversion H; subst; try lia; reflexivity. }
    destruct (k =? 1)%N eqn:E1.
    { assert (k = 1%N) by lia; subst k.
      destruct (tcp_opts f r) as [os1 c1] eqn:Er. split.
      - intros H; inversion H; subst. constructor. apply (IH r os1 c); [lia|exact Er].
      - intros H; inversion H; subst; try lia.
        match goal with H : opt_walk r _ _ |- _ => apply (IH r) in H; [|lia]; rewrite Er in H; inversion H end.
        reflexivity. }
    destruct r as [|l r'].
    { split.
      - intros H; inversion H; constructor; lia.
      - intros H; inversion H; subst; try lia; reflexivity. }
    destruct (l <? 2)%N eqn:El.
    { split.
      - intros H; inversion H; apply ow_short; lia.
      - intros H; inversion H; subst; try lia; reflexivity. }
    destruct (Z.of_N l >? zlen (k :: l :: r')) eqn:Eg.
    { split.
      - intros H; inversion H; apply ow_over; lia.
      - intros H; inversion H; subst; try lia; reflexivity. }
    assert (Hs : (length (skipn (N.to_nat l) (k :: l :: r')) <= f)%nat).
    { rewrite skipn_length. cbn [length] in *. lia. }
    destruct (tcp_opts f (skipn (N.to_nat l) (k :: l :: r'))) as [os1 c1] eqn:Er. split.
    + intros H; inversion H; subst. apply ow_opt; try lia. apply (IH _ os1 c Hs). exact Er.
    + intros H; inversion H; subst; try lia.
      match goal with H : opt_walk (skipn _ _) _ _ |- _ => apply (IH _ _ _ Hs) in H; rewrite Er in H; inversion H end.
      reflexivity.
Qed.

Lemma opt_walk_exists d : opt_walk d (fst (tcp_opts (length d) d)) (snd (tcp_opts (length d) d)).
Proof. apply (tcp_opts_walk_iff (length d)); [lia|]. destruct (tcp_opts (length d) d); reflexivity. Qed.

Lemma opt_walk_functional d os1 c1 os2 c2 :
  opt_walk d os1 c1 -> opt_walk d os2 c2 -> os1 = os2 /\ c1 = c2.
Proof.
  intros H1 H2.
  apply (tcp_opts_walk_iff (length d) d _ _ (le_n _)) in H1.
  apply (tcp_opts_walk_iff (length d) d _ _ (le_n _)) in H2.
  rewrite H1 in H2. inversion H2. auto.
Qed.

(* more fuel changes nothing *)
Lemma tcp_opts_fuel_indep f1 f2 d :
  (length d <= f1)%nat -> (length d <= f2)%nat -> tcp_opts f1 d = tcp_opts f2 d.
Proof.
  intros H1 H2. destruct (tcp_opts f2 d) as [os c] eqn:E.
  apply (tcp_opts_walk_iff f1 d os c H1). apply (tcp_opts_walk_iff f2 d os c H2). exact E.
Qed.

(* every entry accounts for at least one option byte: at most as many entries as bytes *)
Lemma opt_walk_count d os c : opt_walk d os c -> (length os <= length d)%nat.
Proof.
  induction 1; cbn [length] in *; try lia.
  rewrite skipn_length in IHopt_walk. cbn [length] in *. lia.
Qed.

Lemma tcp_opts_count fuel d : (length (fst (tcp_opts fuel d)) <= length d)%nat.
Proof.
  revert d. induction fuel as [|f IH]; intros d.
  - destruct d; cbn; lia.
  - destruct d as [|k r]; cbn [tcp_opts]; [cbn; lia|].
    destruct (k =? 0)%N; [cbn; lia|].
    destruct (k =? 1)%N.
    { specialize (IH r). destruct (tcp_opts f r) as [os c]. cbn [fst length] in *. lia. }
    destruct r as [|l r']; [cbn; lia|].
    destruct (l <? 2)%N eqn:El; [cbn; lia|].
    destruct (Z.of_N l >? zlen (k :: l :: r')) eqn:Eg; [cbn; lia|].
    specialize (IH (skipn (N.to_nat l) (k :: l :: r'))).
    destruct (tcp_opts f (skipn (N.to_nat l) (k :: l :: r'))) as [os c].
    rewrite skipn_length in IH. cbn [fst length] in *. lia.
Qed.

(* a run of Nops of ANY length in front of an option area adds one entry per Nop and
   leaves the rest of the walk as it is *)
Lemma opt_walk_nops k : forall tail os c,
  opt_walk tail os c -> opt_walk (repeat 1%N k ++ tail) (repeat (1%N, 1%N) k ++ os) c.
Proof. induction k as [|k IH]; intros tail os c H; cbn [repeat app]; [exact H|constructor; auto]. Qed.

(* End-of-list after a run of Nops of any length: the walk stops there, whatever follows *)
Lemma opt_walk_nops_eol k rest :
  opt_walk (repeat 1%N k ++ 0%N :: rest) (repeat (1%N, 1%N) k ++ [(0%N, 1%N)]) 0.
Proof. apply opt_walk_nops. constructor. Qed.

(* the repaired walk reports exactly the lone-kind layouts with its new error *)
Lemma opt_walk_err5_lone d os c : opt_walk d os c -> c = 5 -> lone_kind d.
Proof.
  induction 1; intros Hc; try discriminate.
  - constructor; auto.
  - constructor; auto.
  - apply lone_skip; auto.
Qed.

Lemma lone_opt_walk d : lone_kind d -> exists os, opt_walk d os 5.
Proof.
  induction 1.
  - eexists; constructor; auto.
  - destruct IHlone_kind as [os Hos]. eexists; constructor; eauto.
  - destruct IHlone_kind as [os Hos]. eexists; apply ow_opt; eauto.
Qed.

Lemma tcp_opts_lone_iff fuel : forall d,
  (length d <= fuel)%nat -> (snd (tcp_opts fuel d) = 5 <-> lone_kind d).
Proof.
  intros d Hl. split.
  - intros H. destruct (tcp_opts fuel d) as [os c] eqn:E. cbn [snd] in H.
    apply (tcp_opts_walk_iff fuel d os c Hl) in E. eapply opt_walk_err5_lone; eauto.
  - intros H. destruct (lone_opt_walk d H) as [os Hos].
    apply (tcp_opts_walk_iff fuel d os 5 Hl) in Hos. rewrite Hos. reflexivity.
Qed.

Definition tcp_off (d : bytes) : Z := byte_at d 12 / 16.
Definition tcp_optbytes (d : bytes) : bytes := slice d 20 (tcp_off d * 4).

Lemma tcp_parse_no_panic d s : tcp_parse d <> TPanic s.
Proof.
  unfold tcp_parse.
  destruct (zlen d <? 20); [discriminate|].
  destruct (byte_at d 12 / 16 <? 5); [discriminate|].
  destruct (byte_at d 12 / 16 * 4 >? zlen d); [discriminate|].
  set (o := slice d 20 (byte_at d 12 / 16 * 4)).
  destruct (tcp_opts (length o) o) as [os c]. discriminate.
Qed.

(* the two formerly fatal layouts are now errors *)
Lemma tcp_parse_short d : zlen d < 20 -> exists h, tcp_parse d = THdr h 5.
Proof. intros H; unfold tcp_parse. destruct (zlen d <? 20) eqn:E; [eauto|lia]. Qed.

Lemma tcp_parse_lone_kind d :
  20 <= zlen d -> 5 <= tcp_off d -> tcp_off d * 4 <= zlen d -> lone_kind (tcp_optbytes d) ->
  exists h, tcp_parse d = THdr h 5.
Proof.
  unfold tcp_parse, tcp_off, tcp_optbytes. intros H1 H2 H3 L.
  destruct (zlen d <? 20) eqn:E1; [lia|].
  destruct (byte_at d 12 / 16 <? 5) eqn:E2; [lia|].
  destruct (byte_at d 12 / 16 * 4 >? zlen d) eqn:E3; [lia|].
  set (o := slice d 20 (byte_at d 12 / 16 * 4)) in *.
  apply (tcp_opts_lone_iff (length o) o (le_n _)) in L.
  destruct (tcp_opts (length o) o) as [os c]. cbn [snd] in L. subst c. eauto.
Qed.

(* hdr.Options after Unmarshal, for EVERY segment: exactly the entries of the walk over
   data[20:DataOffset*4] (whenever the fixed header and the data offset are accepted),
   hence never more entries than option bytes *)
Lemma tcp_parse_opts_walk d h e :
  tcp_parse d = THdr h e -> 20 <= zlen d -> 5 <= tcp_off d -> tcp_off d * 4 <= zlen d ->
  opt_walk (tcp_optbytes d) (t_opts h) e.
Proof.
  unfold tcp_parse, tcp_off, tcp_optbytes. intros H H1 H2 H3.
  destruct (zlen d <? 20) eqn:E1; [lia|].
  destruct (byte_at d 12 / 16 <? 5) eqn:E2; [lia|].
  destruct (byte_at d 12 / 16 * 4 >? zlen d) eqn:E3; [lia|].
  set (o := slice d 20 (byte_at d 12 / 16 * 4)) in *.
  destruct (tcp_opts (length o) o) as [os c] eqn:Eo.
  inversion H; subst; cbn [t_opts].
  apply (tcp_opts_walk_iff (length o) o os e (le_n _)). exact Eo.
Qed.

Lemma tcp_parse_opts_outside d h e :
  tcp_parse d = THdr h e -> (zlen d < 20 \/ tcp_off d < 5 \/ zlen d < tcp_off d * 4) ->
  t_opts h = [] /\ e <> 0.
Proof.
  unfold tcp_parse, tcp_off. intros H Ho.
  destruct (zlen d <? 20) eqn:E1; [inversion H; subst; cbn; split; [reflexivity|discriminate]|].
  destruct (byte_at d 12 / 16 <? 5) eqn:E2; [inversion H; subst; cbn; split; [reflexivity|discriminate]|].
  destruct (byte_at d 12 / 16 * 4 >? zlen d) eqn:E3; [inversion H; subst; cbn; split; [reflexivity|discriminate]|].
  lia.
Qed.

Lemma byte_at_wf d i : wf_bytes d = true -> 0 <= byte_at d i < 256.
Proof.
  intros Hw. unfold byte_at.
  destruct (nth_in_or_default (Z.to_nat i) d 0%N) as [Hin|Hd]; [|rewrite Hd; lia].
  unfold wf_bytes in Hw. rewrite forallb_forall in Hw. specialize (Hw _ Hin).
  unfold byteb in Hw. lia.
Qed.

Lemma tcp_parse_opts_count d h e :
  tcp_parse d = THdr h e ->
  zlen (t_opts h) <= Z.max 0 ((t_off h - 5) * 4) /\
  (wf_bytes d = true -> zlen (t_opts h) <= 40).
Proof.
  intros H.
  assert (Hb : zlen (t_opts h) <= Z.max 0 ((t_off h - 5) * 4)).
  { revert H. unfold tcp_parse.
    destruct (zlen d <? 20) eqn:E1; [intros H; inversion H; subst; cbn; lia|].
    destruct (byte_at d 12 / 16 <? 5) eqn:E2; [intros H; inversion H; subst; cbn; lia|].
    destruct (byte_at d 12 / 16 * 4 >? zlen d) eqn:E3; [intros H; inversion H; subst; cbn; lia|].
    set (o := slice d 20 (byte_at d 12 / 16 * 4)) in *.
    pose proof (tcp_opts_count (length o) o) as Hc.
    destruct (tcp_opts (length o) o) as [os c] eqn:Eo.
    intros H; inversion H; subst; cbn [t_opts t_off fst] in *.
    assert (Hlen : zlen o = byte_at d 12 / 16 * 4 - 20) by (apply slice_length; lia).
    unfold zlen in *. lia. }
  split; [exact Hb|].
  intros Hw.
  assert (Hoff : t_off h <= 15).
  { revert H. unfold tcp_parse. pose proof (byte_at_wf d 12 Hw) as B.
    destruct (zlen d <? 20); [intros H; inversion H; subst; cbn; lia|].
    destruct (byte_at d 12 / 16 <? 5); [intros H; inversion H; subst; cbn [t_off]; lia|].
    destruct (byte_at d 12 / 16 * 4 >? zlen d); [intros H; inversion H; subst; cbn [t_off]; lia|].
    destruct (tcp_opts _ _) as [os c]. intros H; inversion H; subst; cbn [t_off]; lia. }
  lia.
Qed.

(* ------------------------------------------------------------------ one frame *)

(* the IPv4 view of a frame, through the parsers only *)
Definition ip_of (f : bytes) : option (res iphdr) :=
  match eth_parse f with
  | Ok e => if e_type e =? 2048 then Some (ipv4_parse (e_payload e)) else None
  | _ => None
  end.

Lemma set_nth_length {A} (l : list A) : forall i x, length (set_nth l i x) = length l.
Proof. induction l; intros [|i] x; cbn; auto. Qed.

Lemma zlen_set_nth {A} (l : list A) i x : zlen (set_nth l i x) = zlen l.
Proof. unfold zlen; rewrite set_nth_length; reflexivity. Qed.

Lemma table_add_none_iff cap tb now k :
  table_add cap tb now k = None <->
  find_free tb O = None /\ cap <= zlen tb /\ find_idle tb O now = None.
Proof.
  unfold table_add. destruct (find_free tb 0).
  - split; [discriminate|]. intros (H & _); discriminate.
  - destruct (zlen tb <? cap) eqn:E.
    + split; [discriminate|]. intros (_ & H & _); lia.
    + destruct (find_idle tb 0 now).
      * split; [discriminate|]. intros (_ & _ & H); discriminate.
      * split; intros _; repeat split; lia.
Qed.

(* the table never outgrows its capacity *)
Lemma table_add_len cap tb now k i tb' :
  table_add cap tb now k = Some (i, tb') ->
  zlen tb <= zlen tb' /\ (zlen tb <= cap -> zlen tb' <= cap).
Proof.
  unfold table_add. destruct (find_free tb 0).
  - intros H; inversion H; subst. rewrite zlen_set_nth; lia.
  - destruct (zlen tb <? cap) eqn:E.
    + intros H; inversion H; subst. rewrite zlen_app. replace (zlen [Some k]) with 1 by reflexivity. lia.
    + destruct (find_idle tb 0 now); [|discriminate].
      intros H; inversion H; subst. rewrite zlen_set_nth; lia.
Qed.

Lemma rx_icmp_not_fatal c ip : is_fatal (rx_icmp c ip) = false.
Proof.
  unfold rx_icmp. destruct (icmp_parse (ip_payload ip)) eqn:E; try reflexivity.
  - destruct (is_me c (ip_dst ip)); reflexivity.
  - exfalso; eapply icmp_parse_no_panic; eauto.
Qed.

Lemma rx_udp_not_fatal c ip : is_fatal (rx_udp c ip) = false.
Proof.
  unfold rx_udp. destruct (udp_parse (ip_payload ip)) eqn:E; try reflexivity.
  - bdestr; reflexivity.
  - exfalso; eapply udp_parse_no_panic; eauto.
Qed.

Lemma rx_tcp_not_fatal c orc tb now ip : is_fatal (fst (rx_tcp c orc tb now ip)) = false.
Proof.
  unfold rx_tcp. destruct (tcp_parse (ip_payload ip)) as [s0|h e] eqn:Ep.
  - exfalso; eapply tcp_parse_no_panic; eauto.
  - destruct (_ && negb (e =? 0)); [reflexivity|].
    destruct (negb (is_me c (ip_dst ip))); [reflexivity|].
    destruct (_ || _); [reflexivity|].
    destruct (has_flag h SYN && negb (has_flag h ACK)).
    + destruct (table_add _ _ _ _) as [[i tb1]|]; reflexivity.
    + destruct (table_get _ _ _ _ _ _) as [[i k]|]; [|reflexivity].
      destruct (f_beyond _); [reflexivity|]. destruct (f_remove _); reflexivity.
Qed.

(* no frame of at least 14 bytes is fatal: for every configuration (ARP/route tables,
   own addresses, table size), every state table, every time and every behaviour of the
   established-state machine *)
Lemma rx_not_fatal c orc tb now f :
  14 <= zlen f -> is_fatal (fst (rx c orc tb now f)) = false.
Proof.
  intros Hl. unfold rx. destruct (eth_parse_ok f Hl) as [e ->].
  destruct (negb (e_type e =? 2048)); [reflexivity|].
  destruct (ipv4_parse (e_payload e)) as [ip|c0|s0] eqn:Ei.
  - destruct (ip_proto ip =? 1); [apply rx_icmp_not_fatal|].
    destruct (ip_proto ip =? 6); [apply rx_tcp_not_fatal|].
    destruct (ip_proto ip =? 17); [apply rx_udp_not_fatal|reflexivity].
  - reflexivity.
  - exfalso; eapply ipv4_parse_no_panic; eauto.
Qed.

(* and only a frame shorter than the link-layer header could be *)
Lemma rx_fatal_inv c orc tb now f s tb' :
  rx c orc tb now f = (RFatal s, tb') -> s = SITE_ETH /\ zlen f < 14.
Proof.
  intros H. destruct (Z_lt_le_dec (zlen f) 14) as [L|L].
  - split; [|exact L]. unfold rx in H.
    assert (E : eth_parse f = Panic SITE_ETH) by (apply eth_parse_panic_iff; split; [reflexivity|lia]).
    rewrite E in H. inversion H; reflexivity.
  - pose proof (rx_not_fatal c orc tb now f L) as N. rewrite H in N. discriminate.
Qed.

Lemma rx_table_len c orc tb now f o tb' :
  rx c orc tb now f = (o, tb') ->
  zlen tb' <= zlen tb + 1 /\ (zlen tb <= c_cap c -> zlen tb' <= c_cap c).
Proof.
  unfold rx.
  destruct (eth_parse f) as [e| |]; try (intros H; inversion H; subst; lia).
  destruct (negb (e_type e =? 2048)); [intros H; inversion H; subst; lia|].
  destruct (ipv4_parse (e_payload e)) as [ip| |]; try (intros H; inversion H; subst; lia).
  destruct (ip_proto ip =? 1); [intros H; inversion H; subst; lia|].
  destruct (ip_proto ip =? 6); [|destruct (ip_proto ip =? 17); intros H; inversion H; subst; lia].
  unfold rx_tcp. destruct (tcp_parse (ip_payload ip)) as [s0|h e0]; [intros H; inversion H; subst; lia|].
  destruct (_ && negb (e0 =? 0)); [intros H; inversion H; subst; lia|].
  destruct (negb (is_me c (ip_dst ip))); [intros H; inversion H; subst; lia|].
  destruct (_ || _); [intros H; inversion H; subst; lia|].
  destruct (has_flag h SYN && negb (has_flag h ACK)).
  - destruct (table_add _ _ _ _) as [[i tb1]|] eqn:Ea; [|intros H; inversion H; subst; lia].
    pose proof Ea as Ea'. apply table_add_len in Ea.
    assert (zlen tb1 <= zlen tb + 1).
    { revert Ea'. unfold table_add. destruct (find_free tb 0).
      - intros H; inversion H; subst. rewrite zlen_set_nth; lia.
      - destruct (zlen tb <? c_cap c).
        + intros H; inversion H; subst. rewrite zlen_app.
          match goal with |- context [zlen [?x]] => replace (zlen [x]) with 1 by reflexivity end. lia.
        + destruct (find_idle tb 0 now); [|discriminate].
          intros H; inversion H; subst. rewrite zlen_set_nth; lia. }
    intros H0; inversion H0; subst; rewrite ?zlen_set_nth; lia.
  - destruct (table_get _ _ _ _ _ _) as [[i k]|]; [|intros H; inversion H; subst; lia].
    destruct (f_beyond _); [intros H; inversion H; subst; lia|].
    destruct (f_remove _); intros H; inversion H; subst; rewrite ?zlen_set_nth; lia.
Qed.

(* ------------------------------------------------------------------ histories *)

Definition frame_ok (tf : Z * bytes) : Prop := 14 <= zlen (snd tf).
Definition no_fatal (os : list rxo) : Prop := Forall (fun o => is_fatal o = false) os.

Lemma run_safe c orc : forall fs tb,
  Forall frame_ok fs ->
  no_fatal (run c orc tb fs) /\
  exists tb', run_table c orc tb fs = Some tb' /\
              (zlen tb <= c_cap c -> zlen tb' <= c_cap c).
Proof.
  induction fs as [|[now f] r IH]; intros tb Hok.
  - split; [constructor|]. exists tb; split; [reflexivity|auto].
  - inversion Hok as [|? ? Hl Hok']; subst. unfold frame_ok in Hl; cbn [snd] in Hl.
    pose proof (rx_not_fatal c orc tb now f Hl) as Hs.
    cbn [run run_table]. destruct (rx c orc tb now f) as [o tb1] eqn:E. cbn [fst] in Hs.
    rewrite Hs. apply rx_table_len in E.
    destruct (IH tb1 Hok') as [N (tb' & Ht & Hlen)].
    split; [constructor; assumption|]. exists tb'; split; [exact Ht|]. intros; apply Hlen; lia.
Qed.

(* the full statement of the property *)
Definition C02_full : Prop :=
  forall c orc tb frames, Forall (fun tf : Z * bytes => 14 <= zlen (snd tf)) frames ->
                          no_fatal (run c orc tb frames).

Lemma full_holds : C02_full.
Proof. intros c orc tb frames H. exact (proj1 (run_safe c orc frames tb H)). Qed.

Lemma run_app c orc : forall fs tb tb' rest,
  run_table c orc tb fs = Some tb' ->
  run c orc tb (fs ++ rest) = run c orc tb fs ++ run c orc tb' rest.
Proof.
  induction fs as [|[now f] r IH]; intros tb tb' rest H; cbn [run run_table app] in *.
  - inversion H; reflexivity.
  - destruct (rx c orc tb now f) as [o tb1]. destruct (is_fatal o); [discriminate|].
    cbn [app]. f_equal. apply IH; exact H.
Qed.

(* a well-formed UDP datagram to one of the listener's addresses on a port without decoder *)
Definition udp_probe_of (c : cfg) (f : bytes) : option uevent :=
  match ip_of f with
  | Some (Ok ip) =>
      if ip_proto ip =? 17 then
        match udp_parse (ip_payload ip) with
        | Ok u => if is_me c (ip_dst ip) && negb (mem_z (u_dport u) UDP_HANDLER_PORTS)
                  then Some (mkEv (ip_src ip) (ip_dst ip) (u_sport u) (u_dport u) (u_payload u))
                  else None
        | _ => None
        end
      else None
  | _ => None
  end.

Lemma rx_probe c orc tb now f ev :
  udp_probe_of c f = Some ev -> rx c orc tb now f = (RUdpEvent ev, tb).
Proof.
  unfold udp_probe_of, ip_of, rx.
  destruct (eth_parse f) as [e| |]; try discriminate.
  destruct (e_type e =? 2048); [|discriminate]. cbn [negb].
  destruct (ipv4_parse (e_payload e)) as [ip| |]; try discriminate.
  destruct (ip_proto ip =? 17) eqn:E17; [|discriminate].
  assert (ip_proto ip = 17) as P by lia.
  replace (ip_proto ip =? 1) with false by lia. replace (ip_proto ip =? 6) with false by lia.
  unfold rx_udp. destruct (udp_parse (ip_payload ip)) as [u| |]; try discriminate.
  destruct (is_me c (ip_dst ip)); [|discriminate]. cbn [andb negb].
  destruct (mem_z (u_dport u) UDP_HANDLER_PORTS); [discriminate|]. cbn [negb].
  intros H; inversion H; reflexivity.
Qed.

Lemma survive_then_probe c orc tb hostile t probe ev :
  Forall frame_ok hostile -> udp_probe_of c probe = Some ev ->
  no_fatal (run c orc tb (hostile ++ [(t, probe)])) /\
  run c orc tb (hostile ++ [(t, probe)]) = run c orc tb hostile ++ [RUdpEvent ev].
Proof.
  intros Hok Hp.
  destruct (run_safe c orc hostile tb Hok) as [N (tb' & Ht & _)].
  assert (E : run c orc tb (hostile ++ [(t, probe)]) = run c orc tb hostile ++ [RUdpEvent ev]).
  { rewrite (run_app c orc hostile tb tb' _ Ht). cbn [run].
    rewrite (rx_probe c orc tb' t probe ev Hp). reflexivity. }
  split; [|exact E]. rewrite E. apply Forall_app; split; [exact N|]. constructor; [reflexivity|constructor].
Qed.

(* ------------------------------------------------------------------ connection flood *)

(* a pure SYN to one of my addresses (not port 22): the 4-tuple it opens *)
Definition answered_syn (c : cfg) (f : bytes) : option (Z * Z * Z * Z) :=
  match ip_of f with
  | Some (Ok ip) =>
      if ip_proto ip =? 6 then
        match tcp_parse (ip_payload ip) with
        | THdr h e =>
            if (tcp_csum (ip_payload ip) (ip_dst ip) (ip_src ip) =? t_csum h) && negb (e =? 0) then None
            else if negb (is_me c (ip_dst ip)) then None
            else if (t_sport h =? 22) || (t_dport h =? 22) then None
            else if has_flag h SYN && negb (has_flag h ACK)
                 then Some (ip_src ip, t_sport h, ip_dst ip, t_dport h)
                 else None
        | TPanic _ => None
        end
      else None
  | _ => None
  end.

Definition tcb_of (q : Z * Z * Z * Z) (st now : Z) : tcb :=
  let '(sip, sp, dip, dp) := q in mkTcb sip sp dip dp st now.
Definition q_sip (q : Z * Z * Z * Z) : Z := let '(sip, _, _, _) := q in sip.

Lemma rx_answered_syn c orc tb now f q :
  answered_syn c f = Some q ->
  rx c orc tb now f =
    match table_add (c_cap c) tb now (tcb_of q S_LISTEN now) with
    | None => (RIgnored 10, tb)
    | Some (i, tb') => (RTcp 1 (resolve c (q_sip q)), set_nth tb' i (Some (tcb_of q S_SYNRCVD now)))
    end.
Proof.
  unfold answered_syn, ip_of, rx.
  destruct (eth_parse f) as [e| |]; try discriminate.
  destruct (e_type e =? 2048); [|discriminate]. cbn [negb].
  destruct (ipv4_parse (e_payload e)) as [ip| |]; try discriminate.
  destruct (ip_proto ip =? 6) eqn:E6; [|discriminate].
  replace (ip_proto ip =? 1) with false by lia.
  unfold rx_tcp. destruct (tcp_parse (ip_payload ip)) as [|h e0]; [discriminate|].
  destruct (_ && negb (e0 =? 0)); [discriminate|].
  destruct (negb (is_me c (ip_dst ip))); [discriminate|].
  destruct (_ || _); [discriminate|].
  destruct (has_flag h SYN && negb (has_flag h ACK)); [|discriminate].
  intros H; inversion H; subst. cbn [tcb_of q_sip k_sip k_sport k_dip k_dport]. reflexivity.
Qed.

Definition ftab (q : Z * Z * Z * Z) (ts : list Z) : table :=
  map (fun t => Some (tcb_of q S_SYNRCVD t)) ts.

Lemma tcb_of_state q st t : k_state (tcb_of q st t) = st.
Proof. destruct q as [[[? ?] ?] ?]; reflexivity. Qed.
Lemma tcb_of_t q st t : k_t (tcb_of q st t) = t.
Proof. destruct q as [[[? ?] ?] ?]; reflexivity. Qed.

Lemma find_free_ftab q ts : forall i, find_free (ftab q ts) i = None.
Proof.
  induction ts as [|t r IH]; intros i; cbn [ftab map find_free]; [reflexivity|].
  rewrite tcb_of_state. change (S_SYNRCVD =? S_TIMEWAIT) with false. apply IH.
Qed.

Lemma find_idle_ftab q now ts : Forall (fun t => now - t <= 30000) ts ->
  forall i, find_idle (ftab q ts) i now = None.
Proof.
  induction 1 as [|t r Ht _ IH]; intros i; cbn [ftab map find_idle]; [reflexivity|].
  rewrite tcb_of_t. destruct (now - t >? 30000) eqn:E; [lia|]. apply IH.
Qed.

Lemma set_nth_app_last {A} (l : list A) x y : set_nth (l ++ [x]) (length l) y = l ++ [y].
Proof. induction l; cbn; [reflexivity|]. f_equal; assumption. Qed.

Lemma zlen_ftab q ts : zlen (ftab q ts) = zlen ts.
Proof. unfold ftab, zlen; rewrite map_length; reflexivity. Qed.

Lemma ftab_app q ts t : ftab q ts ++ [Some (tcb_of q S_SYNRCVD t)] = ftab q (ts ++ [t]).
Proof. unfold ftab; rewrite map_app; reflexivity. Qed.

Lemma rx_flood_step c orc f q ts now :
  answered_syn c f = Some q -> Forall (fun t => now - t <= 30000) ts ->
  rx c orc (ftab q ts) now f =
    if zlen ts <? c_cap c then (RTcp 1 (resolve c (q_sip q)), ftab q (ts ++ [now]))
    else (RIgnored 10, ftab q ts).
Proof.
  intros Ha Hw. rewrite (rx_answered_syn c orc _ now f q Ha).
  unfold table_add. rewrite find_free_ftab, zlen_ftab.
  destruct (zlen ts <? c_cap c).
  - rewrite set_nth_app_last, ftab_app. reflexivity.
  - rewrite (find_idle_ftab q now ts Hw). reflexivity.
Qed.

Definition in_window (lo : Z) (t : Z) : Prop := lo <= t <= lo + 30000.

Lemma window_diff lo ts now : in_window lo now -> Forall (in_window lo) ts ->
  Forall (fun t => now - t <= 30000) ts.
Proof.
  intros Hn H. induction H as [|t r Ht _ IH]; constructor; [unfold in_window in *; lia|exact IH].
Qed.

Lemma flood_below c orc f q lo : answered_syn c f = Some q -> forall us ts,
  Forall (in_window lo) us -> Forall (in_window lo) ts -> zlen ts + zlen us <= c_cap c ->
  run c orc (ftab q ts) (map (fun t => (t, f)) us) =
    repeat (RTcp 1 (resolve c (q_sip q))) (length us) /\
  run_table c orc (ftab q ts) (map (fun t => (t, f)) us) = Some (ftab q (ts ++ us)).
Proof.
  intros Ha. induction us as [|u r IH]; intros ts Hu Ht Hc.
  - cbn. rewrite app_nil_r. split; reflexivity.
  - inversion Hu as [|? ? Hu1 Hu2]; subst. rewrite zlen_cons in Hc. pose proof (zlen_nonneg r).
    cbn [map run run_table].
    rewrite (rx_flood_step c orc f q ts u Ha (window_diff lo ts u Hu1 Ht)).
    destruct (zlen ts <? c_cap c) eqn:E; [|lia]. cbn [is_fatal].
    assert (Ht' : Forall (in_window lo) (ts ++ [u])) by (apply Forall_app; split; [exact Ht|constructor; [exact Hu1|constructor]]).
    destruct (IH (ts ++ [u]) Hu2 Ht' ltac:(rewrite zlen_app; unfold zlen at 2; cbn; lia)) as [R T].
    rewrite R, T. rewrite <- app_assoc. cbn [app length repeat]. split; reflexivity.
Qed.

(* on a full table of fresh half-open connections every further SYN is dropped and the
   table stays as it is *)
Lemma flood_full c orc f q lo ts : answered_syn c f = Some q ->
  c_cap c <= zlen ts -> Forall (in_window lo) ts -> forall us, Forall (in_window lo) us ->
  run c orc (ftab q ts) (map (fun t => (t, f)) us) = repeat (RIgnored 10) (length us) /\
  run_table c orc (ftab q ts) (map (fun t => (t, f)) us) = Some (ftab q ts).
Proof.
  intros Ha Hc Ht. induction us as [|u r IH]; intros Hu.
  - split; reflexivity.
  - inversion Hu as [|? ? Hu1 Hu2]; subst. cbn [map run run_table].
    rewrite (rx_flood_step c orc f q ts u Ha (window_diff lo ts u Hu1 Ht)).
    destruct (zlen ts <? c_cap c) eqn:E; [lia|]. cbn [is_fatal].
    destruct (IH Hu2) as [R T]. rewrite R, T. split; reflexivity.
Qed.

(* closed form of a connection flood within 30 s, for every table size: the first c_cap
   SYNs open a connection, all further ones are dropped, the table holds exactly the
   first c_cap connections, nothing is fatal *)
Lemma flood_closed_form c orc f q lo us1 us2 :
  answered_syn c f = Some q -> zlen us1 = c_cap c ->
  Forall (in_window lo) (us1 ++ us2) ->
  run c orc [] (map (fun t => (t, f)) (us1 ++ us2)) =
    repeat (RTcp 1 (resolve c (q_sip q))) (length us1) ++ repeat (RIgnored 10) (length us2) /\
  run_table c orc [] (map (fun t => (t, f)) (us1 ++ us2)) = Some (ftab q us1).
Proof.
  intros Ha Hc Hw. apply Forall_app in Hw. destruct Hw as [H1 H2].
  destruct (flood_below c orc f q lo Ha us1 [] H1 (Forall_nil _) ltac:(rewrite zlen_nil; lia)) as [R T].
  cbn [app] in T.
  destruct (flood_full c orc f q lo us1 Ha ltac:(lia) H1 us2 H2) as [R2 T2].
  change (@nil (option tcb)) with (ftab q []) in *. rewrite map_app. split.
  - rewrite (run_app c orc _ (ftab q []) _ _ T), R, R2. reflexivity.
  - clear R R2. revert T T2. generalize (ftab q []) as t0.
    generalize (map (fun t : Z => (t, f)) us1) as l1. generalize (map (fun t : Z => (t, f)) us2) as l2.
    intros l2 l1. induction l1 as [|[now g] r IH]; intros t0 T T2; cbn [run_table app] in *.
    + inversion T; subst. exact T2.
    + destruct (rx c orc t0 now g) as [o t1]. destruct (is_fatal o); [discriminate|]. apply IH; assumption.
Qed.

(* what the checker's closed form relies on: RTcp 1 on the empty table means a pure SYN *)
Lemma rx_tcp1_answered c orc now f b tb' :
  rx c orc [] now f = (RTcp 1 b, tb') -> exists q, answered_syn c f = Some q.
Proof.
  unfold answered_syn, ip_of, rx.
  destruct (eth_parse f) as [e| |]; try discriminate.
  destruct (e_type e =? 2048); [|discriminate]. cbn [negb].
  destruct (ipv4_parse (e_payload e)) as [ip| |]; try discriminate.
  destruct (ip_proto ip =? 1) eqn:E1.
  { unfold rx_icmp. destruct (icmp_parse _); [destruct (is_me _ _)| |]; discriminate. }
  destruct (ip_proto ip =? 6) eqn:E6.
  2:{ destruct (ip_proto ip =? 17); [|discriminate]. unfold rx_udp.
      destruct (udp_parse _); bdestr; discriminate. }
  unfold rx_tcp. destruct (tcp_parse (ip_payload ip)) as [|h e0]; [discriminate|].
  destruct (_ && negb (e0 =? 0)); [discriminate|].
  destruct (negb (is_me c (ip_dst ip))); [discriminate|].
  destruct (_ || _); [discriminate|].
  destruct (has_flag h SYN && negb (has_flag h ACK)).
  - eauto.
  - cbn [table_get]. discriminate.
Qed.

(* frames that are not TCP do not look at the table: the checker evaluates the frames
   after a flood on the empty table *)
Lemma rx_non_tcp_table_indep c orc tb1 tb2 now f :
  frame_is_tcp f = false -> fst (rx c orc tb1 now f) = fst (rx c orc tb2 now f).
Proof.
  unfold frame_is_tcp, rx.
  destruct (eth_parse f) as [e| |]; try reflexivity.
  destruct (e_type e =? 2048); cbn [negb]; [|reflexivity].
  destruct (ipv4_parse (e_payload e)) as [ip| |]; try reflexivity.
  intros H. rewrite H. destruct (ip_proto ip =? 1); [reflexivity|].
  destruct (ip_proto ip =? 17); reflexivity.
Qed.

Lemma zlen_repeat {A} (x : A) n : zlen (repeat x n) = Z.of_nat n.
Proof. unfold zlen; rewrite repeat_length; reflexivity. Qed.

Lemma map_repeat {A B} (g : A -> B) x n : map g (repeat x n) = repeat (g x) n.
Proof. induction n; cbn; [reflexivity|f_equal; assumption]. Qed.

(* the same SYN n times at one instant, n beyond the table size: survived *)
Lemma flood_same_frame c orc f q t extra :
  answered_syn c f = Some q -> 0 <= c_cap c ->
  run c orc [] (repeat (t, f) (Z.to_nat (c_cap c) + extra)) =
    repeat (RTcp 1 (resolve c (q_sip q))) (Z.to_nat (c_cap c)) ++ repeat (RIgnored 10) extra.
Proof.
  intros Ha Hc.
  destruct (flood_closed_form c orc f q t (repeat t (Z.to_nat (c_cap c))) (repeat t extra) Ha) as [H _].
  - rewrite zlen_repeat; lia.
  - apply Forall_forall; intros x Hx. apply in_app_or in Hx.
    destruct Hx as [Hx|Hx]; apply repeat_spec in Hx; subst; unfold in_window; lia.
  - rewrite <- repeat_app, map_repeat, !repeat_length in H. exact H.
Qed.

(* the sent flag: a default route with a known gateway answers every peer *)
Definition all_resolvable (c : cfg) : Prop := forall ip, resolve c ip = true.
Lemma default_route_resolves c gw rest :
  c_routes c = mkRoute 0 0 gw :: rest -> mem_z gw (c_arp c) = true -> all_resolvable c.
Proof.
  intros Hr Hg ip. unfold resolve. destruct (mem_z ip (c_arp c)); [reflexivity|].
  rewrite Hr. cbn [find]. unfold route_contains. cbn [r_dest r_mask].
  rewrite !Z.land_0_r. rewrite Z.eqb_refl. cbn [r_gw]. exact Hg.
Qed.

(* ------------------------------------------------------------------ the state table *)

Definition live_not_tw (s : option tcb) : Prop := exists k, s = Some k /\ k_state k <> S_TIMEWAIT.
Definition live_fresh (now : Z) (s : option tcb) : Prop := exists k, s = Some k /\ now - k_t k <= 30000.
(* a slot Add may overwrite: nil, TIME-WAIT, or idle for more than 30 s *)
Definition dead (now : Z) (s : option tcb) : Prop :=
  match s with None => True | Some k => k_state k = S_TIMEWAIT \/ now - k_t k > 30000 end.

Lemma find_free_some t : forall i j, find_free t i = Some j ->
  (i <= j < i + length t)%nat /\
  match nth (j - i) t None with None => True | Some k => k_state k = S_TIMEWAIT end.
Proof.
  induction t as [|s r IH]; intros i j H; cbn [find_free] in H; [discriminate|].
  destruct s as [k|].
  - destruct (k_state k =? S_TIMEWAIT) eqn:E.
    + inversion H; subst. cbn [length]. split; [lia|]. rewrite Nat.sub_diag. cbn. lia.
    + apply IH in H. destruct H as [H1 H2]. cbn [length]. split; [lia|].
      replace (j - i)%nat with (S (j - S i)) by lia. exact H2.
  - inversion H; subst. cbn [length]. split; [lia|]. rewrite Nat.sub_diag. exact I.
Qed.

Lemma find_free_none t : forall i, find_free t i = None <-> Forall live_not_tw t.
Proof.
  induction t as [|s r IH]; intros i; cbn [find_free].
  - split; [constructor|reflexivity].
  - destruct s as [k|].
    + destruct (k_state k =? S_TIMEWAIT) eqn:E.
      * split; [discriminate|]. intros H; inversion H as [|? ? [k0 [H1 H2]] ?]; subst.
        inversion H1; subst. lia.
      * rewrite IH. split.
        -- intros H; constructor; [exists k; split; [reflexivity|lia]|exact H].
        -- intros H; inversion H; assumption.
    + split; [discriminate|]. intros H; inversion H as [|? ? [k0 [H1 _]] ?]; discriminate.
Qed.

Lemma find_idle_some t now : forall i j, find_idle t i now = Some j ->
  (i <= j < i + length t)%nat /\
  match nth (j - i) t None with None => True | Some k => now - k_t k > 30000 end.
Proof.
  induction t as [|s r IH]; intros i j H; cbn [find_idle] in H; [discriminate|].
  destruct s as [k|].
  - destruct (now - k_t k >? 30000) eqn:E.
    + inversion H; subst. cbn [length]. split; [lia|]. rewrite Nat.sub_diag. cbn. lia.
    + apply IH in H. destruct H as [H1 H2]. cbn [length]. split; [lia|].
      replace (j - i)%nat with (S (j - S i)) by lia. exact H2.
  - inversion H; subst. cbn [length]. split; [lia|]. rewrite Nat.sub_diag. exact I.
Qed.

Lemma find_idle_none t now : forall i, find_idle t i now = None <-> Forall (live_fresh now) t.
Proof.
  induction t as [|s r IH]; intros i; cbn [find_idle].
  - split; [constructor|reflexivity].
  - destruct s as [k|].
    + destruct (now - k_t k >? 30000) eqn:E.
      * split; [discriminate|]. intros H; inversion H as [|? ? [k0 [H1 H2]] ?]; subst.
        inversion H1; subst. lia.
      * rewrite IH. split.
        -- intros H; constructor; [exists k; split; [reflexivity|lia]|exact H].
        -- intros H; inversion H; assumption.
    + split; [discriminate|]. intros H; inversion H as [|? ? [k0 [H1 _]] ?]; discriminate.
Qed.

Lemma nth_error_set_nth_same {A} (l : list A) : forall i x, (i < length l)%nat ->
  nth_error (set_nth l i x) i = Some x.
Proof. induction l; intros [|i] x H; cbn in *; try lia; auto. apply IHl; lia. Qed.

Lemma nth_set_nth_other {A} (l : list A) d : forall i j x, j <> i ->
  nth j (set_nth l i x) d = nth j l d.
Proof.
  induction l; intros [|i] [|j] x H; cbn; try reflexivity; try lia.
  apply IHl; lia.
Qed.

Lemma nth_app_last_other {A} (l : list A) x d j : j <> length l ->
  nth j (l ++ [x]) d = nth j l d.
Proof.
  intros H. destruct (Nat.lt_ge_cases j (length l)).
  - apply app_nth1; assumption.
  - rewrite app_nth2 by lia. rewrite (nth_overflow l) by lia.
    destruct (j - length l)%nat eqn:E; [lia|]. cbn. destruct n; reflexivity.
Qed.

(* Add: the slot handed out lies inside the array, holds the new connection, every other
   slot is untouched, and what it overwrote was nil, TIME-WAIT or idle for over 30 s *)
Lemma table_add_spec cap t now k i t' :
  table_add cap t now k = Some (i, t') -> zlen t <= cap ->
  0 <= Z.of_nat i < cap /\ zlen t' <= cap /\ nth_error t' i = Some (Some k) /\
  (forall j, j <> i -> nth j t' None = nth j t None) /\ dead now (nth i t None).
Proof.
  unfold table_add. intros H Hc.
  destruct (find_free t 0) as [j|] eqn:Ef.
  - inversion H; subst. apply find_free_some in Ef. destruct Ef as [Hr Hd].
    rewrite Nat.sub_0_r in Hd. unfold zlen in *. rewrite set_nth_length.
    repeat split; try lia.
    + apply nth_error_set_nth_same; lia.
    + intros j Hj. apply nth_set_nth_other; exact Hj.
    + unfold dead. destruct (nth i t None); [left; exact Hd|exact I].
  - destruct (zlen t <? cap) eqn:El.
    + inversion H; subst. rewrite zlen_app. replace (zlen [Some k]) with 1 by reflexivity.
      unfold zlen in *. repeat split; try lia.
      * rewrite nth_error_app2 by lia. rewrite Nat.sub_diag. reflexivity.
      * intros j Hj. apply nth_app_last_other; exact Hj.
      * rewrite nth_overflow by lia. exact I.
    + destruct (find_idle t 0 now) as [j|] eqn:Ei; [|discriminate].
      inversion H; subst. apply find_idle_some in Ei. destruct Ei as [Hr Hd].
      rewrite Nat.sub_0_r in Hd. unfold zlen in *. rewrite set_nth_length.
      repeat split; try lia.
      * apply nth_error_set_nth_same; lia.
      * intros j Hj. apply nth_set_nth_other; exact Hj.
      * unfold dead. destruct (nth i t None); [right; exact Hd|exact I].
Qed.

(* Add refuses exactly when every slot of the array holds a live connection *)
Lemma table_add_none_spec cap t now k :
  table_add cap t now k = None <->
  cap <= zlen t /\
  Forall (fun s => exists k0, s = Some k0 /\ k_state k0 <> S_TIMEWAIT /\ now - k_t k0 <= 30000) t.
Proof.
  rewrite table_add_none_iff, (find_free_none t 0), (find_idle_none t now 0). split.
  - intros (H1 & H2 & H3). split; [exact H2|].
    rewrite Forall_forall in *. intros s Hs.
    destruct (H1 s Hs) as [k1 [E1 N1]]. destruct (H3 s Hs) as [k2 [E2 N2]].
    rewrite E1 in E2; inversion E2; subst. eauto.
  - intros (H2 & H). repeat split; try exact H2; rewrite Forall_forall in *; intros s Hs;
      destruct (H s Hs) as [k0 (E & N1 & N2)]; exists k0; auto.
Qed.

(* Get returns the first slot whose connection matches the 4-tuple (in either direction) *)
Lemma table_get_some t sip dip sp dp : forall i0 j k,
  table_get t i0 sip dip sp dp = Some (j, k) ->
  (i0 <= j)%nat /\ nth_error t (j - i0) = Some (Some k) /\ tcb_match k sip dip sp dp = true /\
  forall m, (m < j - i0)%nat ->
    match nth_error t m with Some (Some k') => tcb_match k' sip dip sp dp = false | _ => True end.
Proof.
  induction t as [|s r IH]; intros i0 j k H; cbn [table_get] in H; [discriminate|].
  destruct s as [k0|].
  - destruct (tcb_match k0 sip dip sp dp) eqn:E.
    + inversion H; subst. rewrite Nat.sub_diag. repeat split; auto. intros m Hm; lia.
    + apply IH in H. destruct H as (H1 & H2 & H3 & H4).
      replace (j - i0)%nat with (S (j - S i0)) by lia. repeat split; auto; try lia.
      intros [|m] Hm; cbn; [exact E|]. apply H4; lia.
  - apply IH in H. destruct H as (H1 & H2 & H3 & H4).
    replace (j - i0)%nat with (S (j - S i0)) by lia. repeat split; auto; try lia.
    intros [|m] Hm; cbn; [exact I|]. apply H4; lia.
Qed.

Lemma table_get_none t sip dip sp dp : forall i0,
  table_get t i0 sip dip sp dp = None <->
  Forall (fun s => match s with Some k' => tcb_match k' sip dip sp dp = false | None => True end) t.
Proof.
  induction t as [|s r IH]; intros i0; cbn [table_get].
  - split; [constructor|reflexivity].
  - destruct s as [k0|].
    + destruct (tcb_match k0 sip dip sp dp) eqn:E.
      * split; [discriminate|]. intros H; inversion H; subst. congruence.
      * rewrite IH. split; [intros H; constructor; assumption|intros H; inversion H; assumption].
    + rewrite IH. split; [intros H; constructor; [exact I|assumption]|intros H; inversion H; assumption].
Qed.

(* ---- OFill: the linear form used by the checker equals the n Adds ---- *)

Lemma find_free_app_none t k : forall i,
  find_free t i = None -> k_state k <> S_TIMEWAIT -> find_free (t ++ [Some k]) i = None.
Proof.
  intros i H N. apply find_free_none. apply find_free_none in H.
  apply Forall_app; split; [exact H|]. constructor; [exists k; auto|constructor].
Qed.

Lemma spec_state e i now : k_state (tcb_of_spec (spec_shift e i) now) = es_state e.
Proof. reflexivity. Qed.

Lemma fill_iter_fast cap now e : es_state e <> S_TIMEWAIT -> forall n t i ok first last,
  find_free t O = None -> zlen t + Z.of_nat n <= cap ->
  fill_iter cap t now e i n ok first last =
    (ok + Z.of_nat n,
     (if first <? 0 then (match n with O => first | S _ => zlen t end) else first),
     (match n with O => last | S _ => zlen t + Z.of_nat n - 1 end),
     t ++ fast_entries now e i n).
Proof.
  intros Hs. induction n as [|n IH]; intros t i ok first last Hf Hc.
  - cbn [fill_iter fast_entries]. rewrite app_nil_r, Z.add_0_r. destruct (first <? 0); reflexivity.
  - cbn [fill_iter fast_entries]. unfold table_add. rewrite Hf.
    destruct (zlen t <? cap) eqn:E; [|lia].
    rewrite IH.
    + rewrite <- app_assoc. cbn [app]. rewrite zlen_app.
      match goal with |- context [zlen [?x]] => replace (zlen [x]) with 1 by reflexivity end.
      pose proof (zlen_nonneg t). change (Z.of_nat (length t)) with (zlen t).
      assert (A : ok + 1 + Z.of_nat n = ok + Z.of_nat (S n)) by lia.
      assert (B : (if (if first <? 0 then zlen t else first) <? 0
                   then match n with O => (if first <? 0 then zlen t else first) | S _ => zlen t + 1 end
                   else (if first <? 0 then zlen t else first)) =
                  (if first <? 0 then zlen t else first)).
      { destruct (first <? 0) eqn:E1.
        - destruct (zlen t <? 0) eqn:E2; [lia|reflexivity].
        - rewrite E1. reflexivity. }
      assert (C : match n with O => zlen t | S _ => zlen t + 1 + Z.of_nat n - 1 end = zlen t + Z.of_nat (S n) - 1)
        by (destruct n; lia).
      rewrite A, B, C. reflexivity.
    + apply find_free_app_none; [exact Hf|rewrite spec_state; exact Hs].
    + rewrite zlen_app.
      match goal with |- context [zlen [?x]] => replace (zlen [x]) with 1 by reflexivity end. lia.
Qed.

Lemma fill_model_eq cap t now e n :
  fill_model cap t now e n = fill_iter cap t now e 0 n 0 (-1) (-1).
Proof.
  unfold fill_model. destruct (find_free t 0) eqn:Ef; [reflexivity|].
  destruct n as [|n]; [reflexivity|].
  destruct ((zlen t + Z.of_nat (S n) <=? cap) && negb (es_state e =? S_TIMEWAIT)) eqn:E; [|reflexivity].
  apply andb_true_iff in E. destruct E as [E1 E2].
  rewrite (fill_iter_fast cap now e ltac:(lia) (S n) t 0 0 (-1) (-1) Ef ltac:(lia)).
  reflexivity.
Qed.

Lemma top_step_fast_eq cap t now o : top_step_fast cap t now o = top_step cap t now o.
Proof. destruct o; try reflexivity. cbn [top_step_fast top_step]. rewrite fill_model_eq. reflexivity. Qed.

Lemma top_run_fast_eq cap : forall ops t, top_run_fast cap t ops = top_run cap t ops.
Proof.
  induction ops as [|[now o] r IH]; intros t; cbn [top_run_fast top_run]; [reflexivity|].
  rewrite top_step_fast_eq. destruct (top_step cap t now o) as [ob t1]. rewrite IH. reflexivity.
Qed.

(* ---- every operation history keeps the table inside the array ---- *)

Lemma fill_iter_len cap now e : forall n t i ok first last,
  zlen t <= cap ->
  let '(_, _, _, t') := fill_iter cap t now e i n ok first last in zlen t' <= cap.
Proof.
  induction n as [|n IH]; intros t i ok first last Hc; cbn [fill_iter]; [exact Hc|].
  destruct (table_add cap t now _) as [[s t1]|] eqn:Ea.
  - apply table_add_len in Ea. apply IH. lia.
  - apply IH. exact Hc.
Qed.

Lemma top_step_len cap t now o : zlen t <= cap -> zlen (snd (top_step cap t now o)) <= cap.
Proof.
  intros Hc. destruct o; cbn [top_step].
  - destruct (table_add cap t now _) as [[s t1]|] eqn:Ea; cbn [snd]; [|exact Hc].
    apply table_add_len in Ea. lia.
  - pose proof (fill_iter_len cap now e n t 0 0 (-1) (-1) Hc) as H.
    destruct (fill_iter cap t now e 0 n 0 (-1) (-1)) as [[[a b] c] t']. exact H.
  - destruct (table_get t 0 sip dip sport dport) as [[s ?]|]; exact Hc.
  - destruct (slot_of t slot); cbn [snd]; rewrite ?zlen_set_nth; exact Hc.
  - destruct (slot_of t slot); cbn [snd]; rewrite ?zlen_set_nth; exact Hc.
  - exact Hc.
Qed.

Lemma top_run_len cap : forall ops t, zlen t <= cap -> zlen (snd (top_run cap t ops)) <= cap.
Proof.
  induction ops as [|[now o] r IH]; intros t Hc; cbn [top_run]; [exact Hc|].
  pose proof (top_step_len cap t now o Hc) as H1.
  destruct (top_step cap t now o) as [ob t1]. cbn [snd] in H1.
  specialize (IH t1 H1). destruct (top_run cap t1 r) as [obs t2]. exact IH.
Qed.

(* ------------------------------------------------------------------ floods at any pace *)
(* The closed form above needs all SYNs within one 30 s window.  Whatever the arrival
   times are (slots idle for more than 30 s are taken over), a flood of one answerable SYN
   is never fatal and leaves exactly min(n, capacity) slots occupied: the expectation the
   checker uses does not depend on how long the machine took. *)

Definition all_syn (q : Z * Z * Z * Z) (tb : table) : Prop :=
  Forall (fun s => exists t, s = Some (tcb_of q S_SYNRCVD t)) tb.

Lemma Forall_set_nth {A} (P : A -> Prop) (l : list A) : forall i x,
  Forall P l -> P x -> Forall P (set_nth l i x).
Proof.
  induction l as [|a r IH]; intros [|i] x H Hx; cbn; auto; inversion H; subst; constructor; auto.
Qed.

Lemma set_nth_twice {A} (l : list A) : forall i x y, set_nth (set_nth l i x) i y = set_nth l i y.
Proof. induction l as [|a r IH]; intros [|i] x y; cbn; auto. f_equal; apply IH. Qed.

Lemma all_syn_find_free q tb : all_syn q tb -> find_free tb O = None.
Proof.
  intros H. apply find_free_none. unfold all_syn in H. rewrite Forall_forall in *.
  intros s Hs. destruct (H s Hs) as [t ->]. eexists; split; [reflexivity|].
  rewrite tcb_of_state. discriminate.
Qed.

Lemma all_syn_occupied q tb : all_syn q tb -> occupied tb = zlen tb.
Proof.
  unfold occupied, zlen. induction 1 as [|s r [t ->] _ IH]; [reflexivity|].
  cbn [filter length]. rewrite !Nat2Z.inj_succ. lia.
Qed.

Definition flood_outcome (o : rxo) : Prop := (exists b, o = RTcp 1 b) \/ o = RIgnored 10.

Lemma rx_flood_any c orc f q tb now :
  answered_syn c f = Some q -> all_syn q tb ->
  let '(o, tb') := rx c orc tb now f in
  flood_outcome o /\ all_syn q tb' /\
  zlen tb' = (if zlen tb <? c_cap c then zlen tb + 1 else zlen tb).
Proof.
  intros Ha Hs. rewrite (rx_answered_syn c orc tb now f q Ha).
  unfold table_add. rewrite (all_syn_find_free q tb Hs).
  destruct (zlen tb <? c_cap c) eqn:E.
  - rewrite set_nth_app_last. repeat split.
    + left; eauto.
    + apply Forall_app; split; [exact Hs|]. constructor; [eauto|constructor].
    + rewrite zlen_app. match goal with |- context [zlen [?x]] => replace (zlen [x]) with 1 by reflexivity end. lia.
  - destruct (find_idle tb 0 now) as [j|].
    + repeat split.
      * left; eauto.
      * (* the intermediate LISTEN entry is overwritten at the same index *)
        rewrite set_nth_twice. apply Forall_set_nth; [exact Hs|eauto].
      * rewrite !zlen_set_nth. reflexivity.
    + repeat split; [right; reflexivity|exact Hs].
Qed.

Lemma flood_outcome_not_fatal o : flood_outcome o -> is_fatal o = false.
Proof. intros [[b ->]| ->]; reflexivity. Qed.

Lemma flood_any_timing c orc f q : answered_syn c f = Some q -> forall us tb,
  all_syn q tb -> zlen tb <= c_cap c ->
  Forall flood_outcome (run c orc tb (map (fun t => (t, f)) us)) /\
  exists tb', run_table c orc tb (map (fun t => (t, f)) us) = Some tb' /\ all_syn q tb' /\
              zlen tb' = Z.min (zlen tb + zlen us) (c_cap c).
Proof.
  intros Ha. induction us as [|u r IH]; intros tb Hs Hc.
  - split; [constructor|]. exists tb. repeat split; auto. rewrite zlen_nil. lia.
  - cbn [map run run_table].
    pose proof (rx_flood_any c orc f q tb u Ha Hs) as H.
    destruct (rx c orc tb u f) as [o tb1]. destruct H as (Ho & Hs1 & Hl).
    rewrite (flood_outcome_not_fatal o Ho).
    assert (Hc1 : zlen tb1 <= c_cap c) by (destruct (zlen tb <? c_cap c) eqn:E; lia).
    destruct (IH tb1 Hs1 Hc1) as [R (tb' & T & Hs' & Hl')].
    split; [constructor; assumption|]. exists tb'. repeat split; auto.
    rewrite Hl', Hl, zlen_cons. pose proof (zlen_nonneg r).
    destruct (zlen tb <? c_cap c) eqn:E; lia.
Qed.

(* from the empty table: never fatal, min(n, capacity) slots occupied, at any pace *)
Lemma flood_any_timing_empty c orc f q us :
  answered_syn c f = Some q -> 0 <= c_cap c ->
  no_fatal (run c orc [] (map (fun t => (t, f)) us)) /\
  exists tb', run_table c orc [] (map (fun t => (t, f)) us) = Some tb' /\
              occupied tb' = Z.min (zlen us) (c_cap c).
Proof.
  intros Ha Hc.
  destruct (flood_any_timing c orc f q Ha us [] (Forall_nil _) ltac:(rewrite zlen_nil; lia))
    as [R (tb' & T & Hs & Hl)].
  split.
  - unfold no_fatal. eapply Forall_impl; [|exact R]. intros o; apply flood_outcome_not_fatal.
  - exists tb'. split; [exact T|]. rewrite (all_syn_occupied q tb' Hs), Hl, zlen_nil. lia.
Qed.
