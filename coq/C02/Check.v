(* C02 - executable checks over observations of the implementation.
   part "parse": one call of an exported header parser.
   part "hist" : one frame history against a real Canary (synchronous injection into
                 the real handlers, or the real Start() loop in a child process),
                 ending with a well-formed UDP probe.
   The shard headers bind case/mismatches/violations/tags to the p_ or h_ versions. *)
From HT Require Import Common.Bytes C02.Model.
Open Scope Z_scope.

Fixpoint zs_eqb (a b : list Z) : bool :=
  match a, b with
  | [], [] => true
  | x :: a', y :: b' => (x =? y) && zs_eqb a' b'
  | _, _ => false
  end.

(* ------------------------------------------------------------------ part "parse" *)
Record pcase := mkP {
  p_id : N;
  p_parser : Z;        (* 1 ethernet, 2 ipv4, 3 tcp, 4 udp, 5 icmp, 6 arp *)
  p_data : bytes;
  p_class : Z;         (* observed: 0 ok, 1 error, 2 panic *)
  p_site : Z;          (* observed panic site (function on the stack + kind of runtime error) *)
  p_proj : list Z      (* observed field values *)
}.

Definition CSUM_SRC := 167838211.   (* 10.1.2.3: the addresses the harness passes to UnmarshalWithChecksum *)
Definition CSUM_DST := LOCALHOST.

(* hdr.Options as the parser left it (also after an error): kind, length of every entry *)
Definition opts_proj (os : list opt) : list Z :=
  flat_map (fun o => [Z.of_N (fst o); Z.of_N (snd o)]) os.

Definition model_parse (c : pcase) : Z * Z * list Z :=
  let d := p_data c in
  match p_parser c with
  | 1 => match eth_parse d with
         | Ok e => (0, 0, [e_type e; zlen (e_payload e)])
         | Err _ => (1, 0, []) | Panic s => (2, s, []) end
  | 2 => match ipv4_parse d with
         | Ok h => (0, 0, [ip_hl h; ip_tot h; ip_proto h; ip_src h; ip_dst h; zlen (ip_payload h)])
         | Err _ => (1, 0, []) | Panic s => (2, s, []) end
  | 3 => match tcp_parse d with
         | TPanic s => (2, s, [])
         | THdr h e => ((if e =? 0 then 0 else 1), 0,
                        [t_sport h; t_dport h; t_flags h; t_off h; zlen (t_opts h); zlen (t_payload h);
                         if tcp_csum d CSUM_DST CSUM_SRC =? t_csum h then 0 else 1]
                        ++ opts_proj (t_opts h))
         end
  | 4 => match udp_parse d with
         | Ok u => (0, 0, [u_sport u; u_dport u; zlen (u_payload u)])
         | Err _ => (1, 0, []) | Panic s => (2, s, []) end
  | 5 => match icmp_parse d with
         | Ok tc => (0, 0, [tc])
         | Err _ => (1, 0, []) | Panic s => (2, s, []) end
  | _ => match arp_parse d with
         | Ok (hs, ps) => (0, 0, [hs; ps])
         | Err _ => (1, 0, []) | Panic s => (2, s, []) end
  end.

Definition p_agree (c : pcase) : bool :=
  let '(cl, site, proj) := model_parse c in
  (cl =? p_class c) && (site =? p_site c) && zs_eqb proj (p_proj c).

Definition p_mismatches (cs : list pcase) : list N :=
  map p_id (filter (fun c => negb (p_agree c)) cs).

(* the property on the implementation's own observation: a parser on the path of the
   receive loop must not panic (signature = the observed class, so that a regression of
   one of the repaired defects is reported under its own name).  Sites 6 (arp.Unmarshal: handleARP is unreachable) and 7
   (fewer than 14 bytes: excluded by the quantifier) are outside the property. *)
Definition p_sig (c : pcase) : N :=
  if p_class c =? 2 then
    (if (p_site c =? SITE_ARP) || (p_site c =? SITE_ETH) then 0%N
     else if (1 <=? p_site c) && (p_site c <=? 3) then Z.to_N (p_site c)
     else if (14 <=? p_site c) && (p_site c <=? 16) then Z.to_N (p_site c)   (* icmp.Parse / udp.Unmarshal / tcp option walk *)
     else 90%N)
  else 0%N.

Definition p_violations (cs : list pcase) : list (N * N) :=
  flat_map (fun c => let s := p_sig c in if (s =? 0)%N then [] else [(p_id c, s)]) cs.

(* 1 error return, 2 panic, 4 accepted with options / non-minimal header *)
Definition p_tags (cs : list pcase) : list (N * N) :=
  map (fun c => (p_id c,
    if p_class c =? 1 then 1%N else if p_class c =? 2 then 2%N
    else match p_parser c, p_proj c with
         | 3, _ :: _ :: _ :: _ :: n :: _ => if n >? 0 then 4%N else 0%N
         | 2, hl :: _ => if hl =? 20 then 0%N else 4%N
         | _, _ => 0%N
         end)) cs.

(* ------------------------------------------------------------------ part "hist" *)
Record hcase := mkH {
  h_id : N;
  h_mode : Z;                    (* 0 synchronous injection, 1 real receive loop (child process) *)
  h_cfg : cfg;
  h_rep : Z;                     (* > 0: the first frame is delivered h_rep times, then the others *)
  h_span : Z;                    (* observed duration of the run, ms *)
  h_frames : list (Z * bytes);   (* (arrival offset ms, frame); the last one is the probe *)
  h_probe : uevent;              (* the event the probe must produce *)
  h_fatal : Z;                   (* observed: 0 alive, otherwise the site of the panic *)
  h_fatal_at : Z;                (* mode 0: index of the frame that panicked *)
  h_rets : list Z;               (* mode 0, h_rep = 0: per processed frame 0 nil, 1 error, 2 panic *)
  h_events : list uevent;        (* "udp" events observed *)
  h_count : Z;                   (* occupied state-table slots at the end (alive only) *)
  h_tx : Z                       (* mode 0, h_rep = 0: frames queued for transmission; -1 not observed *)
}.

Definition ev_eqb (a b : uevent) : bool :=
  (v_src a =? v_src b) && (v_dst a =? v_dst b) && (v_sport a =? v_sport b) &&
  (v_dport a =? v_dport b) && eqb_bytes (v_payload a) (v_payload b).

Definition ev_count (e : uevent) (l : list uevent) : Z := zlen (filter (ev_eqb e) l).
Definition ev_mem (e : uevent) (l : list uevent) : bool := existsb (ev_eqb e) l.
Definition evs_same (a b : list uevent) : bool :=
  (zlen a =? zlen b) && forallb (fun e => ev_count e a =? ev_count e b) a.

Fixpoint first_fatal (os : list rxo) (i : Z) : Z * Z :=
  match os with
  | [] => (0, -1)
  | RFatal s :: _ => (s, i)
  | _ :: r => first_fatal r (i + 1)
  end.

Definition ret_of (o : rxo) : Z :=
  match o with
  | RFatal _ => 2
  | RIgnored w => if (w =? 2) || (w =? 4) || (w =? 8) then 1 else 0
  | _ => 0
  end.
Fixpoint rets_of (os : list rxo) : list Z :=
  match os with
  | [] => []
  | RDead :: _ => []
  | o :: r => ret_of o :: rets_of r
  end.
Fixpoint events_of (os : list rxo) : list uevent :=
  match os with
  | [] => []
  | RUdpEvent e :: r => e :: events_of r
  | _ :: r => events_of r
  end.
Definition has_beyond (os : list rxo) : bool :=
  existsb (fun o => match o with RBeyond => true | _ => false end) os.
Definition occupied (t : table) : Z :=
  zlen (filter (fun s => match s with Some _ => true | None => false end) t).

Fixpoint tx_of (os : list rxo) : Z :=
  match os with
  | [] => 0
  | RTcp _ true :: r => 1 + tx_of r
  | _ :: r => tx_of r
  end.

Record hmodel := mkHM {
  m_beyond : bool; m_fatal : Z; m_fatal_at : Z; m_rets : list Z; m_events : list uevent;
  m_count : Z; m_tx : Z }.

Definition frame_is_tcp (f : bytes) : bool :=
  match eth_parse f with
  | Ok e => if e_type e =? 2048
            then match ipv4_parse (e_payload e) with Ok ip => ip_proto ip =? 6 | _ => false end
            else false
  | _ => false
  end.

(* a flood of identical SYNs, at ANY pace (Proofs.flood_any_timing_empty: slots idle for
   more than 30 s may be taken over, the expectation does not depend on how long the
   machine took): never fatal, min(n, c_cap) slots occupied; the frames after the flood are
   not TCP and do not look at the table (Proofs.rx_non_tcp_table_indep).  h_span is
   evidence only. *)
Definition model_hist (c : hcase) : hmodel :=
  let cf := h_cfg c in
  if h_rep c =? 0 then
    let os := run cf orc_c02 [] (h_frames c) in
    let '(s, i) := first_fatal os 0 in
    mkHM (has_beyond os) s i (rets_of os) (events_of os)
         (match run_table cf orc_c02 [] (h_frames c) with Some t => occupied t | None => -1 end)
         (tx_of os)
  else
    match h_frames c with
    | (t0, f) :: rest =>
        match rx cf orc_c02 [] t0 f with
        | (RTcp 1 _, _) =>
            if existsb (fun tf => frame_is_tcp (snd tf)) rest || negb (0 <=? c_cap cf)
            then mkHM true 0 (-1) [] [] (-1) (-1)
            else mkHM false 0 (-1) [] (events_of (run cf orc_c02 [] rest))
                      (Z.min (h_rep c) (c_cap cf)) (-1)
        | _ => mkHM true 0 (-1) [] [] (-1) (-1)
        end
    | [] => mkHM true 0 (-1) [] [] (-1) (-1)
    end.

(* a history that completes a handshake leaves the part of handleTCP ported here (the
   model answers RBeyond; C14 models that part): the theorems still say that nothing is
   fatal and that the UDP path is unaffected, so liveness and the reported datagrams are
   compared, the per-frame returns / occupancy / transmissions are not *)
Definition h_agree (c : hcase) : bool :=
  let m := model_hist c in
  if m_beyond m then
    (h_fatal c =? 0) && (h_rep c =? 0) && evs_same (m_events m) (h_events c)
  else
  (m_fatal m =? h_fatal c) &&
  ((h_mode c =? 1) || (m_fatal_at m =? h_fatal_at c)) &&
  ((h_mode c =? 1) || negb (h_rep c =? 0) || zs_eqb (m_rets m) (h_rets c)) &&
  (negb (h_fatal c =? 0) ||
   (evs_same (m_events m) (h_events c) && ((h_count c <? 0) || (m_count m =? h_count c)) &&
    ((h_tx c <? 0) || (m_tx m <? 0) || (m_tx m =? h_tx c)))).

Definition h_mismatches (cs : list hcase) : list N :=
  map h_id (filter (fun c => negb (h_agree c)) cs).

(* the property on the implementation's own observation: the process survived the
   history and the probe's event was delivered with the probe's addresses and payload *)
Definition SIG_PROBE_LOST := 10%N.
Definition SIG_HANG := 11%N.        (* a frame was not processed within the bounded wait *)
Definition h_sig (c : hcase) : N :=
  if negb (h_fatal c =? 0) then
    (if (1 <=? h_fatal c) && (h_fatal c <=? 6) then Z.to_N (h_fatal c)    (* 6: arp.Unmarshal reached *)
     else if h_fatal c =? 11 then SIG_HANG
     else if (12 <=? h_fatal c) && (h_fatal c <=? 16) then Z.to_N (h_fatal c)  (* decoder goroutine / knock detector / icmp.Parse / udp.Unmarshal / tcp option walk *)
     else 90%N)
  else if ev_mem (h_probe c) (h_events c) then 0%N else SIG_PROBE_LOST.

Definition h_violations (cs : list hcase) : list (N * N) :=
  flat_map (fun c => let s := h_sig c in if (s =? 0)%N then [] else [(h_id c, s)]) cs.

(* 1 process terminated, 2 connections were opened, 4 several datagrams reported, 8 several frames *)
Definition h_tags (cs : list hcase) : list (N * N) :=
  map (fun c => (h_id c,
    if negb (h_fatal c =? 0) then 1%N
    else if h_count c >? 0 then 2%N
    else if zlen (h_events c) >? 1 then 4%N
    else if zlen (h_frames c) >? 1 then 8%N else 0%N)) cs.

(* ------------------------------------------------------------------ part "table" *)
(* operation histories on the real canary.StateTable (Add / Get / Remove, State.State
   mutations; fresh entries from Canary.NewState, expired ones with a zero time). *)
Record tcase := mkTC {
  tc_id : N;
  tc_cap : Z;                       (* 65535: the array length *)
  tc_ops : list (Z * top);          (* (time ms, operation) *)
  tc_obs : list (list Z);           (* observed result of every completed operation *)
  tc_panic_at : Z;                  (* index of the operation that panicked, -1 none *)
  tc_panic_fn : Z                   (* 1 Add, 2 Get, 3 Remove, 9 other *)
}.

(* OFill on a table without reusable slot and with room for all n entries appends them
   (Proofs.fill_fast_eq); used so that filling 65,535 slots is linear in the checker *)
Fixpoint fast_entries (now : Z) (e : espec) (i : Z) (n : nat) : table :=
  match n with
  | O => []
  | S n' => Some (tcb_of_spec (spec_shift e i) now) :: fast_entries now e (i + 1) n'
  end.

Definition fill_model (cap : Z) (t : table) (now : Z) (e : espec) (n : nat) : Z * Z * Z * table :=
  match find_free t O, n with
  | None, S _ =>
      if (zlen t + Z.of_nat n <=? cap) && negb (es_state e =? S_TIMEWAIT)
      then (Z.of_nat n, zlen t, zlen t + Z.of_nat n - 1, t ++ fast_entries now e 0 n)
      else fill_iter cap t now e 0 n 0 (-1) (-1)
  | _, _ => fill_iter cap t now e 0 n 0 (-1) (-1)
  end.

Definition top_step_fast (cap : Z) (t : table) (now : Z) (o : top) : list Z * table :=
  match o with
  | OFill n e => let '(ok, first, last, t') := fill_model cap t now e n in ([ok; first; last], t')
  | _ => top_step cap t now o
  end.

Fixpoint top_run_fast (cap : Z) (t : table) (ops : list (Z * top)) : list (list Z) * table :=
  match ops with
  | [] => ([], t)
  | (now, o) :: r =>
      let '(ob, t1) := top_step_fast cap t now o in
      let '(obs, t2) := top_run_fast cap t1 r in (ob :: obs, t2)
  end.

Fixpoint zss_eqb (a b : list (list Z)) : bool :=
  match a, b with
  | [], [] => true
  | x :: a', y :: b' => zs_eqb x y && zss_eqb a' b'
  | _, _ => false
  end.

Definition t_agree (c : tcase) : bool :=
  (tc_panic_at c <? 0) && zss_eqb (fst (top_run_fast (tc_cap c) [] (tc_ops c))) (tc_obs c).

Definition t_mismatches (cs : list tcase) : list N :=
  map tc_id (filter (fun c => negb (t_agree c)) cs).

(* the property on the implementation's own observation: no table operation panics; a
   slot handed out by Add lies inside the array; the occupancy never exceeds its length *)
Fixpoint obs_in_range (cap : Z) (ops : list (Z * top)) (obs : list (list Z)) : bool :=
  match ops, obs with
  | (_, OAdd _) :: r, [okf; s] :: r' =>
      (if okf =? 1 then (0 <=? s) && (s <? cap) else s =? -1) && obs_in_range cap r r'
  | (_, OFill n _) :: r, [ok; f; l] :: r' =>
      (0 <=? ok) && (ok <=? Z.of_nat n) &&
      (if ok =? 0 then true else (0 <=? f) && (f <? cap) && (0 <=? l) && (l <? cap)) && obs_in_range cap r r'
  | (_, OGet _ _ _ _) :: r, [s] :: r' => (-1 <=? s) && (s <? cap) && obs_in_range cap r r'
  | (_, OCount) :: r, [n] :: r' => (0 <=? n) && (n <=? cap) && obs_in_range cap r r'
  | _ :: r, _ :: r' => obs_in_range cap r r'
  | _, _ => true
  end.

Definition t_sig (c : tcase) : N :=
  if 0 <=? tc_panic_at c then
    (if (1 <=? tc_panic_fn c) && (tc_panic_fn c <=? 3) then Z.to_N (tc_panic_fn c) else 9%N)
  else if obs_in_range (tc_cap c) (tc_ops c) (tc_obs c) then 0%N else 4%N.

Definition t_violations (cs : list tcase) : list (N * N) :=
  flat_map (fun c => let s := t_sig c in if (s =? 0)%N then [] else [(tc_id c, s)]) cs.

(* 1 an Add was refused (table full of live entries), 2 the table reached its capacity,
   4 several operations *)
Definition t_tags (cs : list tcase) : list (N * N) :=
  map (fun c => (tc_id c,
    if existsb (fun ob => match ob with [0; -1] => true | _ => false end) (tc_obs c) then 1%N
    else if existsb (fun ob => match ob with [n] => n =? tc_cap c | [_; _; l] => l =? tc_cap c - 1 | _ => false end) (tc_obs c) then 2%N
    else if zlen (tc_ops c) >? 1 then 4%N else 0%N)) cs.
