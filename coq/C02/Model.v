(* C02 - model of the raw (canary) listener's receive path:
     listener/canary/ethernet/ethernet.go  Unmarshal
     listener/canary/ipv4/ipv4.go          Unmarshal
     listener/canary/tcp/tcp.go            Unmarshal, UnmarshalWithChecksum, csum
     listener/canary/udp/udp.go            Unmarshal
     listener/canary/icmp/icmp.go          Parse
     listener/canary/arp/arp.go            Unmarshal
     listener/canary/canary_linux.go       receive loop of Start, handleTCP/UDP/ICMP entry, send
     listener/canary/state.go              StateTable.Add / Get
   Executable definitions only.

   Conventions.  A byte slice handed to a parser has cap = len (the loop copies the IPv4
   payload into a fresh make([]byte, n); ipv4.Unmarshal only slices below len).  Every
   Go slice/index expression that can fail is represented by the explicit length test
   that decides it; [Panic site] is returned exactly where the Go bounds check (or the
   explicit panic / nil dereference) fires.  IP addresses are 32-bit values (Z), ports
   Z, times are milliseconds (Z). *)
From HT Require Import Common.Bytes.
Open Scope Z_scope.

Inductive res (A : Type) :=
| Ok (a : A)
| Err (code : Z)
| Panic (site : Z).
Arguments Ok {A} a.
Arguments Err {A} code.
Arguments Panic {A} site.

(* panic sites.  1-5 were reachable before the repairs a545d57, eb7aa9c, 3efea5c, 1cf927a;
   the repaired code (modelled here) returns an error / drops the frame instead.  The
   codes stay: the checker names an observed panic by them, so a regression is reported
   with its class. *)
Definition SITE_IP_TOTLEN := 1.    (* was ipv4.go: h.Payload = b[20:h.TotalLen] with TotalLen < 20 *)
Definition SITE_TCP_SHORT := 2.    (* was tcp.go: data[0:2] .. data[18:20] on fewer than 20 bytes *)
Definition SITE_TCP_OPT := 3.      (* was tcp.go: opt.OptionLength = data[1] with one option byte left *)
Definition SITE_NO_ARP := 4.       (* was canary_linux.go send(): ae.HardwareAddress on a nil *ARPEntry *)
Definition SITE_TABLE_FULL := 5.   (* was state.go: panic("Statetable full") *)
Definition SITE_ARP := 6.          (* arp.go: data[:f.HardwareSize] beyond the buffer (handleARP is unreachable) *)
Definition SITE_ETH := 7.          (* ethernet.go: data[12:14] on fewer than 14 bytes (excluded by hypothesis) *)
(* observation-only codes (never produced by the model): 11 hang, 12 decoder goroutine,
   13 knock detector, 14 icmp.Parse, 15 udp.Unmarshal, 16 tcp.Unmarshal on a segment of 20
   or more bytes outside the index expression data[1]: the walk over the option area or
   the store that receives its entries *)
Definition SITE_TCP_OPTWALK := 16.

Definition OUT_OF_FUEL := 99.

Definition byte_at (d : bytes) (i : Z) : Z := Z.of_N (nth (Z.to_nat i) d 0%N).
Definition u16_at (d : bytes) (i : Z) : Z := be_val (slice d i (i + 2)).
Definition u32_at (d : bytes) (i : Z) : Z := be_val (slice d i (i + 4)).

(* ---------- ethernet.Unmarshal ---------- *)
Record eth := mkEth { e_type : Z; e_payload : bytes }.

Definition eth_parse (d : bytes) : res eth :=
  if zlen d <? 14 then Panic SITE_ETH     (* data[0:6], data[6:12], data[12:14] *)
  else Ok (mkEth (u16_at d 12) (skipn 14 d)).

(* ---------- ipv4.Unmarshal (GOOS = linux branch) ---------- *)
Record iphdr := mkIp {
  ip_hl : Z; ip_tot : Z; ip_proto : Z; ip_src : Z; ip_dst : Z; ip_payload : bytes }.

Definition ipv4_parse (b : bytes) : res iphdr :=
  if zlen b <? 20 then Err 1                        (* errHeaderTooShort *)
  else
    let hdrlen := (byte_at b 0 mod 16) * 4 in
    if hdrlen >? zlen b then Err 2                  (* errBufferTooShort *)
    else
      let tot := u16_at b 2 in
      (* options: copy(h.Options, b[20:]) never fails *)
      if tot >? zlen b then Err 3                   (* "buffer too short" *)
      else if tot <? 20 then Err 1                  (* TotalLen < HeaderLen: errHeaderTooShort *)
      else Ok (mkIp hdrlen tot (byte_at b 9) (u32_at b 12) (u32_at b 16) (slice b 20 tot)).

(* ---------- tcp.Unmarshal ---------- *)
(* the option loop; [d] is data[20:dataStart].  Returns hdr.Options as the loop leaves it -
   one (OptionType, OptionLength) per iteration, in order, the entry of a failing
   iteration included (append comes first; OptionLength is still 0 when the length byte
   is missing) - and the error (0: the loop ended or left by break).  hdr.Options grows
   by append: the list has no bound other than the one the input gives it.
   Every iteration consumes at least one byte: fuel = length d suffices. *)
Definition opt := (N * N)%type.     (* OptionType, OptionLength *)

Fixpoint tcp_opts (fuel : nat) (d : bytes) : list opt * Z :=
  match fuel with
  | O => match d with [] => ([], 0) | _ => ([], OUT_OF_FUEL) end
  | S f =>
      match d with
      | [] => ([], 0)
      | k :: r =>
          if (k =? 0)%N then ([(k, 1%N)], 0)                       (* EndList: break Loop *)
          else if (k =? 1)%N then
            let '(os, c) := tcp_opts f r in ((k, 1%N) :: os, c)    (* Nop *)
          else match r with
               | [] => ([(k, 0%N)], 5)                             (* len(data) < 2: kind without length *)
               | l :: _ =>
                   if (l <? 2)%N then ([(k, l)], 3)
                   else if Z.of_N l >? zlen d then ([(k, l)], 4)
                   else let '(os, c) := tcp_opts f (skipn (N.to_nat l) d) in
                        ((k, l) :: os, c)                          (* data[2:l]; data = data[l:] *)
               end
      end
  end.

Record thdr := mkT {
  t_sport : Z; t_dport : Z; t_seq : Z; t_ack : Z; t_off : Z; t_flags : Z; t_csum : Z;
  t_payload : bytes; t_opts : list opt }.

(* THdr h e: Unmarshal returned (e = 0: nil, otherwise the error) leaving [h] in the header.
   TPanic is no longer produced by the repaired parser (tcp_parse_no_panic). *)
Inductive tres := TPanic (site : Z) | THdr (h : thdr) (e : Z).

Definition tcp_parse (d : bytes) : tres :=
  if zlen d <? 20 then THdr (mkT 0 0 0 0 0 0 0 [] []) 5   (* len(data) < 20: error, header untouched *)
  else
    let off := byte_at d 12 / 16 in
    let mk p os := mkT (u16_at d 0) (u16_at d 2) (u32_at d 4) (u32_at d 8) off
                       (byte_at d 13 mod 64) (u16_at d 16) p os in
    if off <? 5 then THdr (mk [] []) 1
    else
      let ds := off * 4 in
      if ds >? zlen d then THdr (mk [] []) 2
      else
        let opts := slice d 20 ds in
        let '(os, c) := tcp_opts (length opts) opts in
        THdr (mk (skipn (Z.to_nat ds) d) os) c.

Definition FIN := 1. Definition SYN := 2. Definition RST := 4.
Definition PSH := 8. Definition ACK := 16.
Definition has_flag (h : thdr) (f : Z) : bool := Z.land (t_flags h) f =? f.

(* csum(data, src, dst): ones' complement sum with pseudo header, checksum field skipped *)
Fixpoint sum_words (i : Z) (d : bytes) (acc : Z) : Z :=
  match d with
  | a :: b :: r => sum_words (i + 2) r (if i =? 16 then acc else acc + Z.of_N a * 256 + Z.of_N b)
  | [a] => acc + Z.of_N a * 256
  | [] => acc
  end.
Definition fold16 (c : Z) : Z := if c / 65536 >? 0 then c mod 65536 + c / 65536 else c.
Definition tcp_csum (d : bytes) (src dst : Z) : Z :=
  let c := src / 65536 + src mod 65536 + dst / 65536 + dst mod 65536 + 6 + zlen d in
  let c := sum_words 0 d c in
  65535 - fold16 (fold16 (fold16 c)).

(* ---------- udp.Unmarshal, icmp.Parse, arp.Unmarshal ---------- *)
Record uhdr := mkU { u_sport : Z; u_dport : Z; u_payload : bytes }.
Definition udp_parse (d : bytes) : res uhdr :=
  if zlen d <? 8 then Err 1
  else if negb (zlen d =? u16_at d 4) then Err 2
  else Ok (mkU (u16_at d 0) (u16_at d 2) (skipn 8 d)).

Definition icmp_parse (d : bytes) : res Z :=
  if zlen d <? 8 then Err 1 else Ok (u16_at d 0).

Definition arp_parse (d : bytes) : res (Z * Z) :=
  if zlen d <? 28 then Err 1
  else
    let hs := byte_at d 4 in
    let ps := byte_at d 5 in
    if hs >? 20 then Err 2
    else if ps >? 20 then Err 3
    else
      let rem := zlen d - 8 in
      if hs >? rem then Panic SITE_ARP                         (* data[:hs] *)
      else if ps >? rem - hs then Panic SITE_ARP               (* data[:ps] *)
      else if hs >? rem - hs - ps then Panic SITE_ARP
      else if ps >? rem - hs - ps - hs then Panic SITE_ARP
      else Ok (hs, ps).

(* ---------- configuration: own addresses, ARP cache, route table, table size ---------- *)
Record route := mkRoute { r_dest : Z; r_mask : Z; r_gw : Z }.
Record cfg := mkCfg { c_me : list Z; c_arp : list Z; c_routes : list route; c_cap : Z }.

Definition mem_z (x : Z) (l : list Z) : bool := existsb (Z.eqb x) l.
Definition is_me (c : cfg) (ip : Z) : bool := mem_z ip (c_me c).

(* IPNet.Contains *)
Definition route_contains (r : route) (ip : Z) : bool :=
  Z.land (r_dest r) (r_mask r) =? Z.land ip (r_mask r).

(* send(): ae := ac.Get(dst); if nil, the first route containing dst decides (break) *)
Definition resolve (c : cfg) (ip : Z) : bool :=
  if mem_z ip (c_arp c) then true
  else match find (fun r => route_contains r ip) (c_routes c) with
       | Some r => mem_z (r_gw r) (c_arp c)
       | None => false
       end.

(* ---------- state table ---------- *)
Definition S_CLOSED := 0. Definition S_LISTEN := 1. Definition S_SYNRCVD := 2.
Definition S_ESTAB := 4. Definition S_TIMEWAIT := 8. Definition S_CLOSEWAIT := 9.

Record tcb := mkTcb { k_sip : Z; k_sport : Z; k_dip : Z; k_dport : Z; k_state : Z; k_t : Z }.

(* [65535]*State, represented without its trailing nil slots (capacity is c_cap) *)
Definition table := list (option tcb).

Definition tcb_match (k : tcb) (sip dip sport dport : Z) : bool :=
  negb (negb (k_sport k =? sport) && negb (k_dport k =? sport)) &&
  negb (negb (k_dport k =? dport) && negb (k_sport k =? dport)) &&
  negb (negb (k_sip k =? sip) && negb (k_dip k =? sip)) &&
  negb (negb (k_dip k =? dip) && negb (k_sip k =? dip)).

Fixpoint table_get (t : table) (i : nat) (sip dip sport dport : Z) : option (nat * tcb) :=
  match t with
  | [] => None
  | None :: r => table_get r (S i) sip dip sport dport
  | Some k :: r => if tcb_match k sip dip sport dport then Some (i, k)
                   else table_get r (S i) sip dip sport dport
  end.

Fixpoint set_nth {A} (l : list A) (i : nat) (x : A) : list A :=
  match l, i with
  | [], _ => []
  | _ :: r, O => x :: r
  | y :: r, S j => y :: set_nth r j x
  end.

(* first loop of Add: a nil slot or one in TIME-WAIT, among the explicit slots *)
Fixpoint find_free (t : table) (i : nat) : option nat :=
  match t with
  | [] => None
  | None :: _ => Some i
  | Some k :: r => if k_state k =? S_TIMEWAIT then Some i else find_free r (S i)
  end.

(* second loop: a slot idle for more than 30 s (all slots are non-nil here) *)
Fixpoint find_idle (t : table) (i : nat) (now : Z) : option nat :=
  match t with
  | [] => None
  | Some k :: r => if now - k_t k >? 30000 then Some i else find_idle r (S i) now
  | None :: r => Some i
  end.

Definition table_add (cap : Z) (t : table) (now : Z) (k : tcb) : option (nat * table) :=
  match find_free t O with
  | Some i => Some (i, set_nth t i (Some k))
  | None =>
      if zlen t <? cap then Some (length t, t ++ [Some k])     (* first trailing nil slot *)
      else match find_idle t O now with
           | Some i => Some (i, set_nth t i (Some k))
           | None => None                                      (* return false *)
           end
  end.

(* ---------- the TCP state machine beyond LISTEN/SYN-RECEIVED is C14's subject: here
   it is an oracle saying what one segment does to the connection it matched ---------- *)
Record teff := mkEff {
  f_sends : bool;       (* send() is called at least once (before the state changes) *)
  f_state : Z;          (* resulting State *)
  f_remove : bool;      (* stateTable.Remove(state) *)
  f_beyond : bool       (* concrete oracle only: outside the part ported here *)
}.
Definition oracle := tcb -> thdr -> teff.

(* literal port of handleTCP for a segment that is not a pure SYN, on a connection in
   LISTEN or SYN-RECEIVED (the only states a history of the C02 harness reaches) *)
Definition orc_c02 : oracle := fun k h =>
  let st := k_state k in
  let stay := mkEff false st false false in
  if (st =? S_LISTEN) && has_flag h SYN then mkEff true S_SYNRCVD false false
  else if has_flag h RST && (st =? S_SYNRCVD) then mkEff false S_LISTEN false false
  else if has_flag h SYN then stay
  else if negb (has_flag h ACK) then stay
  else if st =? S_LISTEN then stay
  else mkEff false st false true.

(* ---------- one frame through the loop ---------- *)
Record uevent := mkEv { v_src : Z; v_dst : Z; v_sport : Z; v_dport : Z; v_payload : bytes }.

Inductive rxo :=
| RIgnored (why : Z)     (* dropped: 10 state table full (SYN dropped), 1 not IPv4, 2 ip error, 3 other protocol, 4 tcp parse error
                            (returned), 5 not for me, 6 port 22, 7 no connection, 8 icmp parse
                            error (returned), 9 udp parse error (swallowed) *)
| RTcp (what : Z) (sent : bool)
                         (* 1 connection opened (SYN), 2 segment on an existing connection;
                            sent: a frame was queued for transmission (send() found an ARP entry) *)
| RIcmp                  (* knock queued *)
| RUdpDecoded            (* handler port: decoder goroutine (recovers its own panics) *)
| RUdpEvent (ev : uevent)
| RBeyond
| RFatal (site : Z)      (* unrecovered panic in the loop goroutine: process terminated
                            (only a frame shorter than 14 bytes can still produce it) *)
| RDead.                 (* frame arrived after the process had terminated *)

Definition UDP_HANDLER_PORTS := [53; 123; 1900; 5060; 161; 162].

Definition rx_tcp (c : cfg) (orc : oracle) (tb : table) (now : Z) (ip : iphdr) : rxo * table :=
  let data := ip_payload ip in
  match tcp_parse data with
  | TPanic s => (RFatal s, tb)
  | THdr h e =>
      let ck := tcp_csum data (ip_dst ip) (ip_src ip) =? t_csum h in
      if ck && negb (e =? 0) then (RIgnored 4, tb)         (* valid checksum: the error is returned *)
      else if negb (is_me c (ip_dst ip)) then (RIgnored 5, tb)
      else if (t_sport h =? 22) || (t_dport h =? 22) then (RIgnored 6, tb)
      else if has_flag h SYN && negb (has_flag h ACK) then
        let k := mkTcb (ip_src ip) (t_sport h) (ip_dst ip) (t_dport h) S_LISTEN now in
        match table_add (c_cap c) tb now k with
        | None => (RIgnored 10, tb)                        (* Add returned false *)
        | Some (i, tb') =>
            (* send() returns an error without queueing anything when the peer cannot be
               resolved; the handshake state advances regardless *)
            (RTcp 1 (resolve c (ip_src ip)),
             set_nth tb' i (Some (mkTcb (k_sip k) (k_sport k) (k_dip k) (k_dport k) S_SYNRCVD now)))
        end
      else
        match table_get tb O (ip_src ip) (ip_dst ip) (t_sport h) (t_dport h) with
        | None => (RIgnored 7, tb)
        | Some (i, k) =>
            let ef := orc k h in
            let sent := f_sends ef && resolve c (k_sip k) in
            if f_beyond ef then (RBeyond, tb)
            else if f_remove ef then (RTcp 2 sent, set_nth tb i None)
            else (RTcp 2 sent, set_nth tb i (Some (mkTcb (k_sip k) (k_sport k) (k_dip k) (k_dport k) (f_state ef) now)))
        end
  end.

Definition rx_udp (c : cfg) (ip : iphdr) : rxo :=
  match udp_parse (ip_payload ip) with
  | Panic s => RFatal s
  | Err _ => RIgnored 9
  | Ok u =>
      if negb (is_me c (ip_dst ip)) then RIgnored 5
      else if mem_z (u_dport u) UDP_HANDLER_PORTS then RUdpDecoded
      else RUdpEvent (mkEv (ip_src ip) (ip_dst ip) (u_sport u) (u_dport u) (u_payload u))
  end.

Definition rx_icmp (c : cfg) (ip : iphdr) : rxo :=
  match icmp_parse (ip_payload ip) with
  | Panic s => RFatal s
  | Err _ => RIgnored 8
  | Ok _ => if is_me c (ip_dst ip) then RIcmp else RIgnored 5
  end.

(* doARP is false in every reachable configuration: an ARP frame takes the "not IPv4" exit *)
Definition rx (c : cfg) (orc : oracle) (tb : table) (now : Z) (frame : bytes) : rxo * table :=
  match eth_parse frame with
  | Panic s => (RFatal s, tb)
  | Err _ => (RIgnored 1, tb)
  | Ok e =>
      if negb (e_type e =? 2048) then (RIgnored 1, tb)
      else match ipv4_parse (e_payload e) with
           | Panic s => (RFatal s, tb)
           | Err _ => (RIgnored 2, tb)
           | Ok ip =>
               if ip_proto ip =? 1 then (rx_icmp c ip, tb)
               else if ip_proto ip =? 6 then rx_tcp c orc tb now ip
               else if ip_proto ip =? 17 then (rx_udp c ip, tb)
               else (RIgnored 3, tb)
           end
  end.

Definition is_fatal (o : rxo) : bool := match o with RFatal _ => true | _ => false end.

(* a history of (arrival time, frame); nothing is processed after a fatal frame *)
Fixpoint run (c : cfg) (orc : oracle) (tb : table) (fs : list (Z * bytes)) : list rxo :=
  match fs with
  | [] => []
  | (now, f) :: r =>
      let '(o, tb') := rx c orc tb now f in
      if is_fatal o then o :: map (fun _ => RDead) r
      else o :: run c orc tb' r
  end.

(* the table after a history (None: the process is gone) *)
Fixpoint run_table (c : cfg) (orc : oracle) (tb : table) (fs : list (Z * bytes)) : option table :=
  match fs with
  | [] => Some tb
  | (now, f) :: r =>
      let '(o, tb') := rx c orc tb now f in
      if is_fatal o then None else run_table c orc tb' r
  end.

(* ---------- frame builders (used by examples, witnesses and the closed forms) ---------- *)
Definition ETH_IPV4 : bytes := [2;0;0;0;0;1; 2;0;0;0;0;2; 8;0]%N.

Definition ip_bytes (ip : Z) : bytes := be_enc 4 ip.

Definition mk_ip_frame (proto : Z) (src dst : Z) (payload : bytes) : bytes :=
  ETH_IPV4 ++ [69; 0]%N ++ be_enc 2 (20 + zlen payload) ++ [0;0;0;0; 64]%N ++ [Z.to_N proto] ++ [0;0]%N
           ++ ip_bytes src ++ ip_bytes dst ++ payload.

Definition mk_udp (sport dport : Z) (payload : bytes) : bytes :=
  be_enc 2 sport ++ be_enc 2 dport ++ be_enc 2 (8 + zlen payload) ++ [0;0]%N ++ payload.

Definition mk_tcp (sport dport seq ack : Z) (off flags : Z) (rest : bytes) : bytes :=
  be_enc 2 sport ++ be_enc 2 dport ++ be_enc 4 seq ++ be_enc 4 ack ++
  [Z.to_N (off * 16); Z.to_N flags; 255; 255; 0; 0; 0; 0]%N ++ rest.

Definition LOCALHOST := 2130706433.   (* 127.0.0.1 *)

(* ---------- direct operation histories on the state table (part "table"):
   StateTable.Add / Get / Remove and the State.State mutations of handleTCP ---------- *)
Record espec := mkES {
  es_sip : Z; es_sport : Z; es_dip : Z; es_dport : Z; es_state : Z;
  es_expired : bool      (* last activity more than 30 s ago (zero time.Time) *)
}.
Definition EXPIRED_T := -1000000000000.
Definition tcb_of_spec (e : espec) (now : Z) : tcb :=
  mkTcb (es_sip e) (es_sport e) (es_dip e) (es_dport e) (es_state e)
        (if es_expired e then EXPIRED_T else now).
Definition spec_shift (e : espec) (i : Z) : espec :=
  mkES (es_sip e) ((es_sport e + i) mod 65536) (es_dip e) (es_dport e) (es_state e) (es_expired e).

Inductive top :=
| OAdd (e : espec)                   (* Add(state): [1; slot] or [0; -1] *)
| OFill (n : nat) (e : espec)        (* n Adds, the i-th with source port es_sport + i: [successes; first slot; last slot] *)
| OGet (sip dip sport dport : Z)     (* Get: [slot] or [-1] *)
| ORemove (slot : nat)               (* Remove(the state in that slot): [1] or [0] when the slot is nil *)
| OSetState (slot : nat) (st : Z)    (* state.State = st on the state in that slot: [1] or [0] *)
| OCount.                            (* [occupied slots] *)

Definition slot_of (t : table) (i : nat) : option tcb :=
  match nth_error t i with Some (Some k) => Some k | _ => None end.

Definition occupied_slots (t : table) : Z :=
  zlen (filter (fun s => match s with Some _ => true | None => false end) t).

(* the n Adds of OFill one after the other: (successes, first slot, last slot, table) *)
Fixpoint fill_iter (cap : Z) (t : table) (now : Z) (e : espec) (i : Z) (n : nat)
                   (ok first last : Z) : Z * Z * Z * table :=
  match n with
  | O => (ok, first, last, t)
  | S n' =>
      match table_add cap t now (tcb_of_spec (spec_shift e i) now) with
      | Some (s, t') =>
          fill_iter cap t' now e (i + 1) n' (ok + 1) (if first <? 0 then Z.of_nat s else first) (Z.of_nat s)
      | None => fill_iter cap t now e (i + 1) n' ok first last
      end
  end.

Definition top_step (cap : Z) (t : table) (now : Z) (o : top) : list Z * table :=
  match o with
  | OAdd e =>
      match table_add cap t now (tcb_of_spec e now) with
      | Some (s, t') => ([1; Z.of_nat s], t')
      | None => ([0; -1], t)
      end
  | OFill n e =>
      let '(ok, first, last, t') := fill_iter cap t now e 0 n 0 (-1) (-1) in ([ok; first; last], t')
  | OGet sip dip sport dport =>
      match table_get t O sip dip sport dport with
      | Some (s, _) => ([Z.of_nat s], t)
      | None => ([-1], t)
      end
  | ORemove s =>
      match slot_of t s with
      | Some _ => ([1], set_nth t s None)
      | None => ([0], t)
      end
  | OSetState s st =>
      match slot_of t s with
      | Some k => ([1], set_nth t s (Some (mkTcb (k_sip k) (k_sport k) (k_dip k) (k_dport k) st (k_t k))))
      | None => ([0], t)
      end
  | OCount => ([occupied_slots t], t)
  end.

Fixpoint top_run (cap : Z) (t : table) (ops : list (Z * top)) : list (list Z) * table :=
  match ops with
  | [] => ([], t)
  | (now, o) :: r =>
      let '(ob, t1) := top_step cap t now o in
      let '(obs, t2) := top_run cap t1 r in (ob :: obs, t2)
  end.
