(* C02 - no frame on the wire can terminate the raw (canary) listener: property theorems.

   The model is the code after the repairs a545d57 (ipv4 total length), eb7aa9c (tcp
   header / option length), 3efea5c (send without ARP entry), 1cf927a (state table
   full).  The full statement [C02_full] and the probe property for ALL histories
   ([C02_probe_after_hostile]) are theorems: no hypothesis on the configuration, the
   frames' contents, the number of connection attempts or the behaviour of the
   established-state machine - only "every frame has at least the 14 bytes of a
   link-layer header" (the kernel delivers no less). *)
From HT Require Import Common.Bytes C02.Model C02.Check C02.Proofs.
Open Scope Z_scope.

(* Proofs.C02_full:
     forall c orc tb frames, Forall (fun tf => 14 <= zlen (snd tf)) frames ->
                             no_fatal (run c orc tb frames). *)

(* ---- parsers ---- *)

Theorem C02_eth_parse_total : forall d, 14 <= zlen d -> exists e, eth_parse d = Ok e.
Proof. exact eth_parse_ok. Qed.

Theorem C02_ipv4_parse_never_panics : forall b s, ipv4_parse b <> Panic s.
Proof. exact ipv4_parse_no_panic. Qed.

Theorem C02_ipv4_accepts_exactly_consistent_lengths : forall b,
  (exists h, ipv4_parse b = Ok h) <->
  20 <= zlen b /\ ip_hdrlen b <= zlen b /\ 20 <= u16_at b 2 <= zlen b.
Proof. exact ipv4_parse_ok_iff. Qed.

Theorem C02_ipv4_payload_is_total_minus_header : forall b h,
  ipv4_parse b = Ok h -> zlen (ip_payload h) = u16_at b 2 - 20 /\ 20 <= u16_at b 2 <= zlen b.
Proof. exact ipv4_parse_payload. Qed.

Theorem C02_tcp_parse_never_panics : forall d s, tcp_parse d <> TPanic s.
Proof. exact tcp_parse_no_panic. Qed.

(* the option loop always terminates within the stated fuel *)
Theorem C02_tcp_option_walk_terminates : forall fuel d,
  (length d <= fuel)%nat -> snd (tcp_opts fuel d) <> OUT_OF_FUEL.
Proof. exact tcp_opts_fuel. Qed.

(* hdr.Options for EVERY option area, with no bound on the number of entries: the
   executable walk returns exactly the entries (kind, length - in order, the entry of a
   failing iteration included) and the error of the inductive characterisation
   [opt_walk], which determines both *)
Theorem C02_tcp_option_list_is_exactly_the_walk : forall fuel d os c,
  (length d <= fuel)%nat -> (tcp_opts fuel d = (os, c) <-> opt_walk d os c).
Proof. exact tcp_opts_walk_iff. Qed.

Theorem C02_tcp_option_walk_determines_list_and_error : forall d os1 c1 os2 c2,
  opt_walk d os1 c1 -> opt_walk d os2 c2 -> os1 = os2 /\ c1 = c2.
Proof. exact opt_walk_functional. Qed.

(* at most one entry per option byte - whatever the fuel *)
Theorem C02_tcp_option_count_at_most_option_bytes : forall fuel d,
  (length (fst (tcp_opts fuel d)) <= length d)%nat.
Proof. exact tcp_opts_count. Qed.

(* a run of Nops of ANY length adds one entry per Nop and leaves the rest of the walk alone;
   End-of-list after such a run stops the walk whatever follows *)
Theorem C02_tcp_nop_run_of_any_length : forall k tail os c,
  opt_walk tail os c -> opt_walk (repeat 1%N k ++ tail) (repeat (1%N, 1%N) k ++ os) c.
Proof. exact opt_walk_nops. Qed.

Theorem C02_tcp_nop_run_then_end_of_list : forall k rest,
  opt_walk (repeat 1%N k ++ 0%N :: rest) (repeat (1%N, 1%N) k ++ [(0%N, 1%N)]) 0.
Proof. exact opt_walk_nops_eol. Qed.

(* the parser, for every segment: Options holds exactly the walk over
   data[20:DataOffset*4] when the fixed header and the data offset are accepted and is
   empty otherwise; never more entries than option bytes - at most 40, every data
   offset, every option layout *)
Theorem C02_tcp_parsed_options_are_the_walk : forall d h e,
  tcp_parse d = THdr h e -> 20 <= zlen d -> 5 <= tcp_off d -> tcp_off d * 4 <= zlen d ->
  opt_walk (tcp_optbytes d) (t_opts h) e.
Proof. exact tcp_parse_opts_walk. Qed.

Theorem C02_tcp_no_options_outside_accepted_header : forall d h e,
  tcp_parse d = THdr h e -> (zlen d < 20 \/ tcp_off d < 5 \/ zlen d < tcp_off d * 4) ->
  t_opts h = [] /\ e <> 0.
Proof. exact tcp_parse_opts_outside. Qed.

Theorem C02_tcp_parsed_options_at_most_40 : forall d h e,
  tcp_parse d = THdr h e ->
  zlen (t_opts h) <= Z.max 0 ((t_off h - 5) * 4) /\
  (wf_bytes d = true -> zlen (t_opts h) <= 40).
Proof. exact tcp_parse_opts_count. Qed.

(* the two formerly fatal layouts are rejected with an error *)
Theorem C02_tcp_short_segment_is_error : forall d,
  zlen d < 20 -> exists h, tcp_parse d = THdr h 5.
Proof. exact tcp_parse_short. Qed.

Theorem C02_tcp_lone_option_kind_is_error : forall d,
  20 <= zlen d -> 5 <= tcp_off d -> tcp_off d * 4 <= zlen d -> lone_kind (tcp_optbytes d) ->
  exists h, tcp_parse d = THdr h 5.
Proof. exact tcp_parse_lone_kind. Qed.

Theorem C02_tcp_option_error_exactly_when : forall fuel d,
  (length d <= fuel)%nat -> (snd (tcp_opts fuel d) = 5 <-> lone_kind d).
Proof. exact tcp_opts_lone_iff. Qed.

Theorem C02_udp_parse_never_panics : forall d s, udp_parse d <> Panic s.
Proof. exact udp_parse_no_panic. Qed.

Theorem C02_icmp_parse_never_panics : forall d s, icmp_parse d <> Panic s.
Proof. exact icmp_parse_no_panic. Qed.

(* arp.Unmarshal (unchanged) still panics on these inputs; it is UNREACHABLE from the
   receive loop: handleARP is only called when doARP is set, and doARP is an unexported
   field that nothing assigns (the harness re-checks that fact and sends such an ARP
   frame through the real loop in every run).  [rx] ignores ARP frames accordingly. *)
Theorem C02_arp_panics_exactly_when : forall d s,
  arp_parse d = Panic s <->
  s = SITE_ARP /\ 28 <= zlen d /\ byte_at d 4 <= 20 /\ byte_at d 5 <= 20 /\
  zlen d < 8 + 2 * byte_at d 4 + 2 * byte_at d 5.
Proof. exact arp_parse_panic_iff. Qed.

(* ---- one frame ---- *)

Theorem C02_no_frame_is_fatal : forall c orc tb now f,
  14 <= zlen f -> is_fatal (fst (rx c orc tb now f)) = false.
Proof. exact rx_not_fatal. Qed.

(* what must not change: the only fatal outcome left in the model is the excluded one *)
Theorem C02_fatal_only_below_link_header : forall c orc tb now f s tb',
  rx c orc tb now f = (RFatal s, tb') -> s = SITE_ETH /\ zlen f < 14.
Proof. exact rx_fatal_inv. Qed.

(* a frame adds at most one slot, and the table never outgrows its capacity *)
Theorem C02_table_stays_within_capacity : forall c orc tb now f o tb',
  rx c orc tb now f = (o, tb') ->
  zlen tb' <= zlen tb + 1 /\ (zlen tb <= c_cap c -> zlen tb' <= c_cap c).
Proof. exact rx_table_len. Qed.

(* ---- histories: the full statement ---- *)

Theorem C02_full_holds : C02_full.
Proof. exact full_holds. Qed.

Theorem C02_history_never_fatal : forall c orc fs tb,
  Forall frame_ok fs ->
  no_fatal (run c orc tb fs) /\
  exists tb', run_table c orc tb fs = Some tb' /\ (zlen tb <= c_cap c -> zlen tb' <= c_cap c).
Proof. exact run_safe. Qed.

(* after ANY hostile history (from any table state) the listener is alive and a
   well-formed UDP probe yields exactly its event *)
Theorem C02_probe_after_hostile : forall c orc tb hostile t probe ev,
  Forall frame_ok hostile -> udp_probe_of c probe = Some ev ->
  no_fatal (run c orc tb (hostile ++ [(t, probe)])) /\
  run c orc tb (hostile ++ [(t, probe)]) = run c orc tb hostile ++ [RUdpEvent ev].
Proof. exact survive_then_probe. Qed.

Theorem C02_probe_event_independent_of_state : forall c orc tb now f ev,
  udp_probe_of c f = Some ev -> rx c orc tb now f = (RUdpEvent ev, tb).
Proof. exact rx_probe. Qed.

(* ---- connection flood: closed form for every table size ---- *)

Theorem C02_flood_below_capacity : forall c orc f q lo, answered_syn c f = Some q -> forall us ts,
  Forall (in_window lo) us -> Forall (in_window lo) ts -> zlen ts + zlen us <= c_cap c ->
  run c orc (ftab q ts) (map (fun t => (t, f)) us) =
    repeat (RTcp 1 (resolve c (q_sip q))) (length us) /\
  run_table c orc (ftab q ts) (map (fun t => (t, f)) us) = Some (ftab q (ts ++ us)).
Proof. exact flood_below. Qed.

Theorem C02_flood_closed_form : forall c orc f q lo us1 us2,
  answered_syn c f = Some q -> zlen us1 = c_cap c ->
  Forall (in_window lo) (us1 ++ us2) ->
  run c orc [] (map (fun t => (t, f)) (us1 ++ us2)) =
    repeat (RTcp 1 (resolve c (q_sip q))) (length us1) ++ repeat (RIgnored 10) (length us2) /\
  run_table c orc [] (map (fun t => (t, f)) (us1 ++ us2)) = Some (ftab q us1).
Proof. exact flood_closed_form. Qed.

Theorem C02_flood_beyond_capacity_survived : forall c orc f q t extra,
  answered_syn c f = Some q -> 0 <= c_cap c ->
  run c orc [] (repeat (t, f) (Z.to_nat (c_cap c) + extra)) =
    repeat (RTcp 1 (resolve c (q_sip q))) (Z.to_nat (c_cap c)) ++ repeat (RIgnored 10) extra.
Proof. exact flood_same_frame. Qed.


(* a flood at ANY pace (slots idle > 30 s are taken over): never fatal, exactly
   min(n, capacity) slots occupied - the checker's expectation is independent of wall time *)
Theorem C02_flood_any_pace : forall c orc f q us,
  answered_syn c f = Some q -> 0 <= c_cap c ->
  no_fatal (run c orc [] (map (fun t => (t, f)) us)) /\
  exists tb', run_table c orc [] (map (fun t => (t, f)) us) = Some tb' /\
              occupied tb' = Z.min (zlen us) (c_cap c).
Proof. exact flood_any_timing_empty. Qed.

(* the two facts the checker's use of the closed form rests on *)
Theorem C02_checker_flood_head : forall c orc now f b tb',
  rx c orc [] now f = (RTcp 1 b, tb') -> exists q, answered_syn c f = Some q.
Proof. exact rx_tcp1_answered. Qed.

Theorem C02_checker_flood_rest : forall c orc tb1 tb2 now f,
  frame_is_tcp f = false -> fst (rx c orc tb1 now f) = fst (rx c orc tb2 now f).
Proof. exact rx_non_tcp_table_indep. Qed.


(* ---- the state table: StateTable.Add / Get / Remove as operations on the slot array,
   for every table size, every content and every time ---- *)

(* Add never indexes outside the array; the slot it hands out holds the new connection,
   all other slots are untouched, and what it overwrote was nil, TIME-WAIT or idle > 30 s *)
Theorem C02_table_add_slot_in_range_only_dead_evicted : forall cap t now k i t',
  table_add cap t now k = Some (i, t') -> zlen t <= cap ->
  0 <= Z.of_nat i < cap /\ zlen t' <= cap /\ nth_error t' i = Some (Some k) /\
  (forall j, j <> i -> nth j t' None = nth j t None) /\ dead now (nth i t None).
Proof. exact table_add_spec. Qed.

Theorem C02_table_add_refuses_exactly_when_full_of_live : forall cap t now k,
  table_add cap t now k = None <->
  cap <= zlen t /\
  Forall (fun s => exists k0, s = Some k0 /\ k_state k0 <> S_TIMEWAIT /\ now - k_t k0 <= 30000) t.
Proof. exact table_add_none_spec. Qed.

Theorem C02_table_get_is_first_match : forall t sip dip sp dp i0 j k,
  table_get t i0 sip dip sp dp = Some (j, k) ->
  (i0 <= j)%nat /\ nth_error t (j - i0) = Some (Some k) /\ tcb_match k sip dip sp dp = true /\
  forall m, (m < j - i0)%nat ->
    match nth_error t m with Some (Some k') => tcb_match k' sip dip sp dp = false | _ => True end.
Proof. exact table_get_some. Qed.

Theorem C02_table_get_none_exactly_when_no_match : forall t sip dip sp dp i0,
  table_get t i0 sip dip sp dp = None <->
  Forall (fun s => match s with Some k' => tcb_match k' sip dip sp dp = false | None => True end) t.
Proof. exact table_get_none. Qed.

(* every history of Add / Fill / Get / Remove / state changes keeps the table inside the array *)
Theorem C02_table_ops_stay_within_array : forall cap ops t,
  zlen t <= cap -> zlen (snd (top_run cap t ops)) <= cap.
Proof. exact top_run_len. Qed.

(* the checker's linear evaluation of "fill n slots" is the n Adds *)
Theorem C02_checker_fill_is_n_adds : forall cap ops t,
  top_run_fast cap t ops = top_run cap t ops.
Proof. exact top_run_fast_eq. Qed.

(* ---- non-vacuity; the former witnesses are dropped now ---- *)

Definition PEER := 167772165.       (* 10.0.0.5 *)
Definition W_IP_TOTLEN : bytes :=
  ETH_IPV4 ++ [69;0;0;0; 0;1;0;0; 64;17;0;0; 10;0;0;5; 127;0;0;1]%N.
Definition W_TCP_SHORT : bytes := mk_ip_frame 6 PEER LOCALHOST [0;0;0;0;0;0;0;0;0;0]%N.
Definition W_TCP_OPT : bytes := mk_ip_frame 6 PEER LOCALHOST (mk_tcp 3000 80 1 0 6 2 [1;1;1;2]%N).
Definition W_SYN : bytes := mk_ip_frame 6 PEER LOCALHOST (mk_tcp 5000 80 77 0 5 2 []).
Definition CFG_NO_ENTRY : cfg := mkCfg [LOCALHOST] [] [] 65535.
Definition CFG_ARP : cfg := mkCfg [LOCALHOST] [PEER] [] 65535.
Definition CFG_TINY : cfg := mkCfg [LOCALHOST] [PEER] [] 2.
Definition CFG_DEFAULT_ROUTE : cfg := mkCfg [LOCALHOST] [167772161] [mkRoute 0 0 167772161] 65535.

(* the five witnesses of the unrepaired code: total length 0; 10-byte TCP segment (its
   checksum field reads as 0 /= computed, so the handler goes on with an empty header and
   finds no connection); option kind 2 as last byte; SYN from an unanswerable peer
   (connection opened, nothing sent); third SYN on a two-slot table (dropped) *)
Example C02_former_witnesses_are_dropped :
  fst (rx CFG_ARP orc_c02 [] 0 W_IP_TOTLEN) = RIgnored 2 /\
  fst (rx CFG_ARP orc_c02 [] 0 W_TCP_SHORT) = RIgnored 7 /\
  fst (rx CFG_ARP orc_c02 [] 0 W_TCP_OPT) = RTcp 1 true /\
  fst (rx CFG_NO_ENTRY orc_c02 [] 0 W_SYN) = RTcp 1 false /\
  run CFG_TINY orc_c02 [] [(0, W_SYN); (1, W_SYN); (2, W_SYN)] = [RTcp 1 true; RTcp 1 true; RIgnored 10].
Proof. repeat split; vm_compute; reflexivity. Qed.

Example C02_flood_witness_applies :
  answered_syn CFG_ARP W_SYN = Some (PEER, 5000, LOCALHOST, 80) /\ 0 <= c_cap CFG_ARP.
Proof. split; [vm_compute; reflexivity|vm_compute; discriminate]. Qed.

Definition W_PROBE : bytes := mk_ip_frame 17 PEER LOCALHOST (mk_udp 40000 30000 [99;48;50]%N).
Definition W_HOSTILE : list (Z * bytes) :=
  [(0, W_SYN); (1, W_IP_TOTLEN); (2, W_TCP_SHORT); (3, W_TCP_OPT);
   (4, mk_ip_frame 6 PEER LOCALHOST (mk_tcp 5000 80 0 0 5 4 []));      (* RST *)
   (5, ETH_IPV4 ++ [69; 0]%N);                                           (* truncated IPv4 *)
   (6, [2;0;0;0;0;1; 2;0;0;0;0;2; 8;6; 0;1;8;0;20;20]%N);                (* ARP *)
   (7, mk_ip_frame 1 PEER LOCALHOST [8;0;0;0;0;1;0;1]%N);                (* ICMP echo *)
   (8, mk_ip_frame 6 PEER LOCALHOST (mk_tcp 6000 80 1 0 4 2 []))].      (* bad data offset, bad checksum *)

Example C02_probe_after_hostile_nonvacuous :
  Forall frame_ok W_HOSTILE /\
  udp_probe_of CFG_NO_ENTRY W_PROBE = Some (mkEv PEER LOCALHOST 40000 30000 [99;48;50]%N) /\
  run CFG_NO_ENTRY orc_c02 [] (W_HOSTILE ++ [(9, W_PROBE)]) =
    [RTcp 1 false; RIgnored 2; RIgnored 7; RTcp 1 false; RTcp 2 false; RIgnored 2; RIgnored 1; RIcmp;
     RTcp 1 false; RUdpEvent (mkEv PEER LOCALHOST 40000 30000 [99;48;50]%N)].
Proof.
  split; [|split].
  - unfold W_HOSTILE.
    repeat (apply Forall_cons; [unfold frame_ok; vm_compute; discriminate|]). apply Forall_nil.
  - vm_compute; reflexivity.
  - vm_compute; reflexivity.
Qed.

Example C02_all_resolvable_satisfiable : all_resolvable CFG_DEFAULT_ROUTE.
Proof. apply (default_route_resolves CFG_DEFAULT_ROUTE 167772161 []); reflexivity. Qed.

Example C02_lone_kind_nonvacuous :
  lone_kind [1;1;1;2]%N /\ ~ lone_kind [2;4;5;180]%N.
Proof.
  split.
  - apply lone_nop, lone_nop, lone_nop, lone_last; lia.
  - intros H. inversion H; subst; try lia.
    match goal with H : lone_kind (skipn _ _) |- _ => cbn in H; inversion H end.
Qed.

(* the bound of 40 entries is attained (data offset 15, 40 Nops); 36 Nops + MSS are 37
   entries; 20 two-byte options are 20; the walk is not vacuous on the error side either *)
Definition W_SEG_NOPS (k : nat) (tail : bytes) : bytes :=
  mk_tcp 3000 80 1 0 (5 + (Z.of_nat k + zlen tail) / 4) 2 (repeat 1%N k ++ tail ++ [120; 121; 122]%N).

Example C02_option_count_bound_is_attained :
  (exists h, tcp_parse (W_SEG_NOPS 40 []) = THdr h 0 /\ t_opts h = repeat (1%N, 1%N) 40 /\
             zlen (t_payload h) = 3) /\
  (exists h, tcp_parse (W_SEG_NOPS 36 [2; 4; 5; 180]%N) = THdr h 0 /\
             t_opts h = repeat (1%N, 1%N) 36 ++ [(2%N, 4%N)]) /\
  (exists h, tcp_parse (W_SEG_NOPS 21 [0; 7; 7]%N) = THdr h 0 /\
             t_opts h = repeat (1%N, 1%N) 21 ++ [(0%N, 1%N)]) /\
  (exists h, tcp_parse (W_SEG_NOPS 38 [9; 3]%N) = THdr h 4 /\
             t_opts h = repeat (1%N, 1%N) 38 ++ [(9%N, 3%N)]) /\
  wf_bytes (W_SEG_NOPS 40 []) = true /\
  opt_walk (repeat 1%N 24) (repeat (1%N, 1%N) 24) 0.
Proof.
  split; [eexists; vm_compute; repeat split; reflexivity|].
  split; [eexists; vm_compute; repeat split; reflexivity|].
  split; [eexists; vm_compute; repeat split; reflexivity|].
  split; [eexists; vm_compute; repeat split; reflexivity|].
  split; [vm_compute; reflexivity|].
  rewrite <- (app_nil_r (repeat 1%N 24)), <- (app_nil_r (repeat (1%N, 1%N) 24)).
  apply opt_walk_nops. constructor.
Qed.

(* a two-slot table: fill, refuse, TIME-WAIT reuse, expiry reuse, removal *)
Example C02_table_ops_nonvacuous :
  let e := mkES PEER 1000 LOCALHOST 80 S_SYNRCVD false in
  let x := mkES PEER 2000 LOCALHOST 80 S_SYNRCVD true in
  fst (top_run 2 [] [(0, OFill 3 e); (1, OAdd e); (2, OSetState 1 S_TIMEWAIT); (3, OAdd x);
                     (4, OAdd e); (5, OGet PEER LOCALHOST 1000 80); (6, ORemove 0); (7, OCount);
                     (8, OGet LOCALHOST PEER 80 1000)]) =
  [[2; 0; 1]; [0; -1]; [1]; [1; 1]; [1; 1]; [0]; [1]; [1]; [1]].
Proof. vm_compute. reflexivity. Qed.

Print Assumptions C02_eth_parse_total.
Print Assumptions C02_ipv4_parse_never_panics.
Print Assumptions C02_ipv4_accepts_exactly_consistent_lengths.
Print Assumptions C02_ipv4_payload_is_total_minus_header.
Print Assumptions C02_tcp_parse_never_panics.
Print Assumptions C02_tcp_option_walk_terminates.
Print Assumptions C02_tcp_option_list_is_exactly_the_walk.
Print Assumptions C02_tcp_option_walk_determines_list_and_error.
Print Assumptions C02_tcp_option_count_at_most_option_bytes.
Print Assumptions C02_tcp_nop_run_of_any_length.
Print Assumptions C02_tcp_nop_run_then_end_of_list.
Print Assumptions C02_tcp_parsed_options_are_the_walk.
Print Assumptions C02_tcp_no_options_outside_accepted_header.
Print Assumptions C02_tcp_parsed_options_at_most_40.
Print Assumptions C02_tcp_short_segment_is_error.
Print Assumptions C02_tcp_lone_option_kind_is_error.
Print Assumptions C02_tcp_option_error_exactly_when.
Print Assumptions C02_udp_parse_never_panics.
Print Assumptions C02_icmp_parse_never_panics.
Print Assumptions C02_arp_panics_exactly_when.
Print Assumptions C02_no_frame_is_fatal.
Print Assumptions C02_fatal_only_below_link_header.
Print Assumptions C02_table_stays_within_capacity.
Print Assumptions C02_full_holds.
Print Assumptions C02_history_never_fatal.
Print Assumptions C02_probe_after_hostile.
Print Assumptions C02_probe_event_independent_of_state.
Print Assumptions C02_flood_below_capacity.
Print Assumptions C02_flood_closed_form.
Print Assumptions C02_flood_beyond_capacity_survived.
Print Assumptions C02_checker_flood_head.
Print Assumptions C02_checker_flood_rest.
Print Assumptions C02_table_add_slot_in_range_only_dead_evicted.
Print Assumptions C02_table_add_refuses_exactly_when_full_of_live.
Print Assumptions C02_table_get_is_first_match.
Print Assumptions C02_table_get_none_exactly_when_no_match.
Print Assumptions C02_table_ops_stay_within_array.
Print Assumptions C02_checker_fill_is_n_adds.
Print Assumptions C02_flood_any_pace.
