(* C02 - no frame on the wire can terminate the raw (canary) listener: property theorems.

   The full statement is [C02_full].  The unchanged code violates it: the model stays
   faithful, [C02_full_refuted] and the five [_refuted] theorems give byte-level
   witnesses (replayed on the implementation by every run), and the property is proved
   outside those five classes ([C02_history_safe_outside_classes],
   [C02_probe_after_hostile]). *)
From HT Require Import Common.Bytes C02.Model C02.Check C02.Proofs.
Open Scope Z_scope.

Definition C02_full : Prop :=
  forall c orc frames, Forall (fun tf : Z * bytes => 14 <= zlen (snd tf)) frames ->
                       no_fatal (run c orc [] frames).

(* ---- parsers: exactly when each one panics ---- *)

Theorem C02_eth_parse_total : forall d, 14 <= zlen d -> exists e, eth_parse d = Ok e.
Proof. exact eth_parse_ok. Qed.

Theorem C02_udp_parse_never_panics : forall d s, udp_parse d <> Panic s.
Proof. exact udp_parse_no_panic. Qed.

Theorem C02_icmp_parse_never_panics : forall d s, icmp_parse d <> Panic s.
Proof. exact icmp_parse_no_panic. Qed.

Theorem C02_ipv4_panics_exactly_when : forall b s,
  ipv4_parse b = Panic s <->
  s = SITE_IP_TOTLEN /\ 20 <= zlen b /\ ip_hdrlen b <= zlen b /\ u16_at b 2 < 20.
Proof. exact ipv4_parse_panic_iff. Qed.

Theorem C02_ipv4_accepts_consistent_lengths : forall b,
  20 <= zlen b -> ip_hdrlen b <= zlen b -> 20 <= u16_at b 2 <= zlen b ->
  exists h, ipv4_parse b = Ok h /\ zlen (ip_payload h) = u16_at b 2 - 20.
Proof. exact ipv4_parse_ok_when. Qed.

(* the option loop always terminates within the stated fuel *)
Theorem C02_tcp_option_walk_terminates : forall fuel d n,
  (length d <= fuel)%nat -> tcp_opts fuel d n <> Err OUT_OF_FUEL.
Proof. exact tcp_opts_fuel. Qed.

Theorem C02_tcp_panics_exactly_when : forall d s,
  tcp_parse d = TPanic s <->
  (s = SITE_TCP_SHORT /\ zlen d < 20) \/
  (s = SITE_TCP_OPT /\ 20 <= zlen d /\ 5 <= tcp_off d /\ tcp_off d * 4 <= zlen d /\
   lone_kind (tcp_optbytes d)).
Proof. exact tcp_parse_panic_iff. Qed.

Theorem C02_tcp_plain_header_safe : forall d s,
  20 <= zlen d -> tcp_off d = 5 -> tcp_parse d <> TPanic s.
Proof. exact tcp_parse_plain_header_safe. Qed.

Theorem C02_arp_panics_exactly_when : forall d s,
  arp_parse d = Panic s <->
  s = SITE_ARP /\ 28 <= zlen d /\ byte_at d 4 <= 20 /\ byte_at d 5 <= 20 /\
  zlen d < 8 + 2 * byte_at d 4 + 2 * byte_at d 5.
Proof. exact arp_parse_panic_iff. Qed.

(* ---- one frame: every fatal outcome lies in one of five named classes, for every
   state table, every time and every behaviour of the established-state machine ---- *)

Theorem C02_fatal_only_in_named_classes : forall c orc tb now f s tb',
  14 <= zlen f -> rx c orc tb now f = (RFatal s, tb') ->
  (s = SITE_IP_TOTLEN /\ ip_of f = Some (Panic s)) \/
  ((s = SITE_TCP_SHORT \/ s = SITE_TCP_OPT) /\ tcp_of f = Some (TPanic s)) \/
  (s = SITE_NO_ARP /\ exists a, resolve c a = false) \/
  (s = SITE_TABLE_FULL /\ table_full c tb now).
Proof. exact rx_fatal_inv. Qed.

Theorem C02_frame_safe_outside_classes : forall c orc tb now f,
  14 <= zlen f -> frame_wf f = true -> all_resolvable c -> ~ table_full c tb now ->
  is_fatal (fst (rx c orc tb now f)) = false.
Proof. exact rx_safe. Qed.

(* a frame changes the table length by at most one slot and nothing else grows it *)
Theorem C02_table_grows_by_at_most_one : forall c orc tb now f o tb',
  rx c orc tb now f = (o, tb') -> zlen tb <= zlen tb' <= zlen tb + 1.
Proof. exact rx_table_len. Qed.

(* ---- histories ---- *)

Theorem C02_history_safe_outside_classes : forall c orc, all_resolvable c -> forall fs tb,
  Forall frame_ok fs -> zlen tb + zlen fs <= c_cap c ->
  no_fatal (run c orc tb fs) /\
  exists tb', run_table c orc tb fs = Some tb' /\ zlen tb' <= zlen tb + zlen fs.
Proof. exact run_safe. Qed.

(* the property itself, outside the defect classes: after any such hostile history the
   listener is alive and a well-formed UDP probe yields exactly its event *)
Theorem C02_probe_after_hostile : forall c orc hostile t probe ev,
  all_resolvable c -> Forall frame_ok hostile -> zlen hostile <= c_cap c ->
  udp_probe_of c probe = Some ev ->
  no_fatal (run c orc [] hostile) /\
  run c orc [] (hostile ++ [(t, probe)]) = run c orc [] hostile ++ [RUdpEvent ev].
Proof. exact survive_then_probe. Qed.

Theorem C02_probe_event_independent_of_state : forall c orc tb now f ev,
  udp_probe_of c f = Some ev -> rx c orc tb now f = (RUdpEvent ev, tb).
Proof. exact rx_probe. Qed.

(* ---- connection flood: closed form for every table size ---- *)

Theorem C02_flood_below_capacity : forall c orc f q lo, answered_syn c f = Some q -> forall us ts,
  Forall (in_window lo) us -> Forall (in_window lo) ts -> zlen ts + zlen us <= c_cap c ->
  run c orc (ftab q ts) (map (fun t => (t, f)) us) = repeat (RTcp 1) (length us) /\
  run_table c orc (ftab q ts) (map (fun t => (t, f)) us) = Some (ftab q (ts ++ us)).
Proof. exact flood_below. Qed.

Theorem C02_flood_closed_form : forall c orc f q lo us1 u us2,
  answered_syn c f = Some q -> zlen us1 = c_cap c ->
  Forall (in_window lo) (us1 ++ u :: us2) ->
  run c orc [] (map (fun t => (t, f)) (us1 ++ u :: us2)) =
    repeat (RTcp 1) (length us1) ++ RFatal SITE_TABLE_FULL :: repeat RDead (length us2).
Proof. exact flood_closed_form. Qed.

(* the two facts the checker's use of the closed form rests on *)
Theorem C02_checker_flood_head : forall c orc now f tb',
  rx c orc [] now f = (RTcp 1, tb') -> exists q, answered_syn c f = Some q.
Proof. exact rx_tcp1_answered. Qed.

Theorem C02_checker_flood_rest : forall c orc tb1 tb2 now f,
  frame_is_tcp f = false -> fst (rx c orc tb1 now f) = fst (rx c orc tb2 now f).
Proof. exact rx_non_tcp_table_indep. Qed.

(* ---- the five defect classes are inhabited: byte-level witnesses ---- *)

Definition PEER := 167772165.       (* 10.0.0.5 *)
Definition W_IP_TOTLEN : bytes :=
  ETH_IPV4 ++ [69;0;0;0; 0;1;0;0; 64;17;0;0; 10;0;0;5; 127;0;0;1]%N.
Definition W_TCP_SHORT : bytes := mk_ip_frame 6 PEER LOCALHOST [0;0;0;0;0;0;0;0;0;0]%N.
Definition W_TCP_OPT : bytes := mk_ip_frame 6 PEER LOCALHOST (mk_tcp 3000 80 1 0 6 2 [1;1;1;2]%N).
Definition W_SYN : bytes := mk_ip_frame 6 PEER LOCALHOST (mk_tcp 5000 80 77 0 5 2 []).
Definition CFG_NO_ENTRY : cfg := mkCfg [LOCALHOST] [] [] 65535.
Definition CFG_ARP : cfg := mkCfg [LOCALHOST] [PEER] [] 65535.
Definition CFG_DEFAULT_ROUTE : cfg := mkCfg [LOCALHOST] [167772161] [mkRoute 0 0 167772161] 65535.

Theorem C02_ipv4_total_length_refuted :
  14 <= zlen W_IP_TOTLEN /\
  forall c orc tb now, rx c orc tb now W_IP_TOTLEN = (RFatal SITE_IP_TOTLEN, tb).
Proof. split; [vm_compute; discriminate|]. intros; reflexivity. Qed.

Theorem C02_tcp_short_segment_refuted :
  14 <= zlen W_TCP_SHORT /\
  forall c orc tb now, rx c orc tb now W_TCP_SHORT = (RFatal SITE_TCP_SHORT, tb).
Proof. split; [vm_compute; discriminate|]. intros; reflexivity. Qed.

Theorem C02_tcp_option_refuted :
  14 <= zlen W_TCP_OPT /\
  forall c orc tb now, rx c orc tb now W_TCP_OPT = (RFatal SITE_TCP_OPT, tb).
Proof. split; [vm_compute; discriminate|]. intros; reflexivity. Qed.

Theorem C02_unanswerable_peer_refuted :
  14 <= zlen W_SYN /\
  forall orc now, fst (rx CFG_NO_ENTRY orc [] now W_SYN) = RFatal SITE_NO_ARP.
Proof. split; [vm_compute; discriminate|]. intros; reflexivity. Qed.

(* for every table size: one more half-open connection than slots, at one instant *)
Theorem C02_table_full_refuted : forall c orc f q t,
  answered_syn c f = Some q -> 0 <= c_cap c ->
  run c orc [] (repeat (t, f) (Z.to_nat (c_cap c)) ++ [(t, f)]) =
    repeat (RTcp 1) (Z.to_nat (c_cap c)) ++ [RFatal SITE_TABLE_FULL].
Proof. exact flood_same_frame. Qed.

Theorem C02_full_refuted : ~ C02_full.
Proof.
  intros H. specialize (H CFG_ARP orc_c02 [(0, W_IP_TOTLEN)]).
  assert (F : Forall (fun tf : Z * bytes => 14 <= zlen (snd tf)) [(0, W_IP_TOTLEN)]).
  { constructor; [vm_compute; discriminate|constructor]. }
  specialize (H F). vm_compute in H. inversion H as [|? ? H1 ?]. discriminate.
Qed.

(* ---- non-vacuity ---- *)

(* the usual configuration (default route with a known gateway) answers every peer *)
Example C02_all_resolvable_satisfiable : all_resolvable CFG_DEFAULT_ROUTE.
Proof. apply (default_route_resolves CFG_DEFAULT_ROUTE 167772161 []); reflexivity. Qed.

(* the flood witness applies to the real table size *)
Example C02_flood_witness_applies :
  answered_syn CFG_ARP W_SYN = Some (PEER, 5000, LOCALHOST, 80) /\ 0 <= c_cap CFG_ARP.
Proof. split; [vm_compute; reflexivity|vm_compute; discriminate]. Qed.

Definition W_PROBE : bytes := mk_ip_frame 17 PEER LOCALHOST (mk_udp 40000 30000 [99;48;50]%N).
Definition W_HOSTILE : list (Z * bytes) :=
  [(0, W_SYN); (1, W_SYN);
   (2, mk_ip_frame 6 PEER LOCALHOST (mk_tcp 5000 80 0 0 5 4 []));      (* RST *)
   (3, ETH_IPV4 ++ [69; 0]%N);                                           (* truncated IPv4 *)
   (4, [2;0;0;0;0;1; 2;0;0;0;0;2; 8;6; 0;1;8;0;20;20]%N);                (* ARP *)
   (5, mk_ip_frame 1 PEER LOCALHOST [8;0;0;0;0;1;0;1]%N);                (* ICMP echo *)
   (6, mk_ip_frame 6 PEER LOCALHOST (mk_tcp 6000 80 1 0 4 2 []))].      (* bad data offset, bad checksum *)

Example C02_probe_after_hostile_nonvacuous :
  Forall frame_ok W_HOSTILE /\ zlen W_HOSTILE <= c_cap CFG_DEFAULT_ROUTE /\
  udp_probe_of CFG_DEFAULT_ROUTE W_PROBE = Some (mkEv PEER LOCALHOST 40000 30000 [99;48;50]%N) /\
  run CFG_DEFAULT_ROUTE orc_c02 [] (W_HOSTILE ++ [(7, W_PROBE)]) =
    [RTcp 1; RTcp 1; RTcp 2; RIgnored 2; RIgnored 1; RIcmp; RTcp 1;
     RUdpEvent (mkEv PEER LOCALHOST 40000 30000 [99;48;50]%N)].
Proof.
  split; [|split; [|split]].
  - unfold W_HOSTILE.
    repeat (apply Forall_cons; [split; [vm_compute; discriminate|vm_compute; reflexivity]|]).
    apply Forall_nil.
  - vm_compute; discriminate.
  - vm_compute; reflexivity.
  - vm_compute; reflexivity.
Qed.

(* the option-walk characterisation is inhabited on both sides *)
Example C02_lone_kind_nonvacuous :
  lone_kind [1;1;1;2]%N /\ ~ lone_kind [2;4;5;180]%N.
Proof.
  split.
  - apply lone_nop, lone_nop, lone_nop, lone_last; lia.
  - intros H. inversion H; subst; try lia.
    match goal with H : lone_kind (skipn _ _) |- _ => cbn in H; inversion H end.
Qed.

Print Assumptions C02_eth_parse_total.
Print Assumptions C02_udp_parse_never_panics.
Print Assumptions C02_icmp_parse_never_panics.
Print Assumptions C02_ipv4_panics_exactly_when.
Print Assumptions C02_ipv4_accepts_consistent_lengths.
Print Assumptions C02_tcp_option_walk_terminates.
Print Assumptions C02_tcp_panics_exactly_when.
Print Assumptions C02_tcp_plain_header_safe.
Print Assumptions C02_arp_panics_exactly_when.
Print Assumptions C02_fatal_only_in_named_classes.
Print Assumptions C02_frame_safe_outside_classes.
Print Assumptions C02_table_grows_by_at_most_one.
Print Assumptions C02_history_safe_outside_classes.
Print Assumptions C02_probe_after_hostile.
Print Assumptions C02_probe_event_independent_of_state.
Print Assumptions C02_flood_below_capacity.
Print Assumptions C02_flood_closed_form.
Print Assumptions C02_checker_flood_head.
Print Assumptions C02_checker_flood_rest.
Print Assumptions C02_ipv4_total_length_refuted.
Print Assumptions C02_tcp_short_segment_refuted.
Print Assumptions C02_tcp_option_refuted.
Print Assumptions C02_unanswerable_peer_refuted.
Print Assumptions C02_table_full_refuted.
Print Assumptions C02_full_refuted.
