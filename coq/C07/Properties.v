(* C07 - property theorems: the rotating log file of the file channel. *)
From HT Require Import Common.Bytes C07.Model C07.Check C07.Proofs.
Open Scope Z_scope.

(* The full statement, kept visible.  It does NOT hold of the unchanged code (refuted below). *)
Definition C07_full : Prop := full_lines /\ full_send.

(* Write never panics, never loops for ever, reports len(p) and keeps pos = size <= max,
   for every state the writer can be in (file present or removed/renamed by somebody else) *)
Theorem C07_write_total : forall clk st p,
  rinv st -> exists st', rf_write clk st p = WOk st' (zlen p) /\ rinv st' /\ rf_max st' = rf_max st.
Proof. exact write_total. Qed.

(* the same for whole histories of writes, outside removals/renames and restarts, all clocks *)
Theorem C07_history_total : forall max s init ops,
  0 <= max -> exists st, run (rf_open max s init) [] ops = Some (st, written_lens ops) /\ rinv st.
Proof. exact history_total. Qed.

(* no file ever exceeds the maximum size (unconditionally - oversize lines are cut instead, see below) *)
Theorem C07_size_bound : forall max s init ops st rets,
  0 <= max -> zlen init <= max ->
  run (rf_open max s init) [] ops = Some (st, rets) ->
  zlen (rf_cur st) <= max /\
  (forall x, In x (rf_rot st) -> zlen (snd x) <= max) /\
  Forall (fun c => zlen c <= max) (rf_moved st) /\
  Forall (fun c => zlen c <= max) (rf_gone st).
Proof. exact size_bound. Qed.

(* one Write: its bytes are, in order, in the files it rotated away and the active file, except
   exactly one skipped byte per rotation; the i-th rotation is stamped with the i-th clock reading *)
Theorem C07_write_accounts : forall clk st p,
  rinv st ->
  exists st' hs, rf_write clk st p = WOk st' (zlen p) /\
    rf_hist st' = rf_hist st ++ hs /\
    hist_stream hs ++ rf_cur st' = rf_cur st ++ p /\
    Forall (fun e => zlen (h_content e) <= rf_max st /\
                     (h_kind e = RSplit /\ h_skipped e = [NL] \/ h_kind e = RDrop /\ exists x, h_skipped e = [x])) hs /\
    map h_sec hs = map clk (seq 0 (length hs)).
Proof. exact write_accounts. Qed.

(* whole histories without outside interference: rotated contents (in rotation order, with the
   skipped bytes) followed by the active file = what was there ++ everything written *)
Theorem C07_bytes_accounted : forall max s init ops st rets,
  0 <= max -> no_ext ops = true ->
  run (rf_open max s init) [] ops = Some (st, rets) ->
  hist_stream (rf_hist st) ++ rf_cur st = init ++ written_of ops.
Proof. exact bytes_accounted. Qed.

(* pairwise distinct rotation seconds: the directory holds every file ever rotated, unreplaced *)
Theorem C07_rotated_never_replaced : forall max s init ops st rets,
  0 <= max -> run (rf_open max s init) [] ops = Some (st, rets) ->
  secs_distinct (rf_hist st) = true -> rf_rot st = hist_files (rf_hist st).
Proof. exact rotated_never_replaced. Qed.

(* outside the two finding classes the full conclusion holds: the rotated files in rotation order
   followed by the active file hold exactly the lines written - each once, in order, none cut *)
Theorem C07_outside_findings : forall max s init ops st rets,
  0 <= max -> no_ext ops = true ->
  aligned_b init = true -> writes_aligned ops = true -> no_blank_b (init ++ written_of ops) = true ->
  run (rf_open max s init) [] ops = Some (st, rets) ->
  has_drop (rf_hist st) = false -> secs_distinct (rf_hist st) = true ->
  rf_rot st = hist_files (rf_hist st) /\
  flat_map lines_of (map snd (rf_rot st)) ++ lines_of (rf_cur st) = lines_of (init ++ written_of ops).
Proof. exact lines_kept. Qed.

(* the structural window split of the model is the index loop of the Go code *)
Theorem C07_scan_is_index_loop : forall p j,
  (j < length p)%nat ->
  match split_last_nl (firstn j (tl p)) with
  | Some (a, _) => scan_down p j = S (length a)
  | None => scan_down p j = O
  end.
Proof. exact scan_down_spec. Qed.

(* Send returns for every sequence of requests and idle seconds when the destination could be opened *)
Theorem C07_send_returns_when_openable : forall max s init es,
  0 <= max -> exists w, wl_run (wl_new max true s init) es = Some w /\ wl_blocked w = false.
Proof. exact wl_openable_never_blocks. Qed.

(* ---- the unchanged code falls short in three ways ---- *)

(* (a) no newline inside the remaining window: the first byte of the line is dropped
   (max 1024, a 1000-byte line then a 100-byte line; the rotation seconds are distinct) *)
Theorem C07_first_byte_dropped_refuted :
  exists st rets, run (rf_open 1024 0 []) [] wit_a = Some (st, rets) /\
    no_ext wit_a = true /\ writes_aligned wit_a = true /\ no_blank_b (written_of wit_a) = true /\
    secs_distinct (rf_hist st) = true /\ has_drop (rf_hist st) = true /\
    rf_cur st = tl (mkline 98 97) /\
    files_lines st <> lines_of (written_of wit_a).
Proof. exact wit_a_result. Qed.

(* (b) two rotations read the same second: the earlier rotated file is replaced
   (max 1024, one batch of 25 lines of 100 bytes; every rotation found its newline) *)
Theorem C07_overwrite_refuted :
  exists st rets, run (rf_open 1024 0 []) [] wit_b = Some (st, rets) /\
    no_ext wit_b = true /\ writes_aligned wit_b = true /\ no_blank_b (written_of wit_b) = true /\
    has_drop (rf_hist st) = false /\ secs_distinct (rf_hist st) = false /\
    (length (rf_hist st) = 2 /\ length (rf_rot st) = 1)%nat /\
    files_lines st <> lines_of (written_of wit_b).
Proof. exact wit_b_result. Qed.

(* (c) the destination cannot be opened: the first Send blocks, whatever follows *)
Theorem C07_send_blocks_refuted : forall max s init es line s',
  exists w, wl_run (wl_new max false s init) (ESend s' line :: es) = Some w /\ wl_blocked w = true.
Proof. exact wl_unopenable_blocks. Qed.

Theorem C07_full_refuted : ~ C07_full.
Proof. exact full_refuted. Qed.

Theorem C07_full_send_refuted : ~ full_send.
Proof. exact full_send_refuted. Qed.

(* non-vacuity of C07_outside_findings: 15 lines then (one second later) 10 lines of 100 bytes into a
   1024-byte file: two rotations, both at a newline, nothing lost *)
Example C07_nonvacuous :
  let b1 := concat (map (fun i => mkline (97 + N.of_nat i) 97) (seq 0 15)) in
  let b2 := concat (map (fun i => mkline (65 + N.of_nat i) 97) (seq 0 10)) in
  let ops := [OWrite (fun _ => 0%N) b1; OWrite (fun _ => 1%N) b2] in
  exists st rets, run (rf_open 1024 0 []) [] ops = Some (st, rets) /\
    no_ext ops = true /\ aligned_b [] = true /\ writes_aligned ops = true /\
    no_blank_b ([] ++ written_of ops) = true /\
    has_drop (rf_hist st) = false /\ secs_distinct (rf_hist st) = true /\
    length (rf_rot st) = 2%nat /\ length (files_lines st) = 25%nat.
Proof. eexists. eexists. split; [vm_compute; reflexivity|]. repeat split; vm_compute; reflexivity. Qed.

Print Assumptions C07_write_total.
Print Assumptions C07_history_total.
Print Assumptions C07_size_bound.
Print Assumptions C07_write_accounts.
Print Assumptions C07_bytes_accounted.
Print Assumptions C07_rotated_never_replaced.
Print Assumptions C07_outside_findings.
Print Assumptions C07_scan_is_index_loop.
Print Assumptions C07_send_returns_when_openable.
Print Assumptions C07_first_byte_dropped_refuted.
Print Assumptions C07_overwrite_refuted.
Print Assumptions C07_send_blocks_refuted.
Print Assumptions C07_full_refuted.
Print Assumptions C07_full_send_refuted.
