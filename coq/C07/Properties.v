(* C07 - property theorems: the rotating log file of the file channel (repaired code:
   /repo commits 4ee059b, f21e33c and 8422d36). *)
From HT Require Import Common.Bytes C07.Model C07.Check C07.Proofs.
Open Scope Z_scope.

(* The full statement, kept visible; it holds of the repaired code (C07_full_holds below). *)
Definition C07_full : Prop := full_lines /\ full_send.

(* Write never panics and never loops for ever, for every state the writer can be in with a file name of at most 200 bytes (file present
   or removed/renamed by somebody else), every maximum size and every clock.  While the directory
   of the log is reachable it reports len(p) and keeps pos = size and the descriptor on the file
   at the path; while it is not, Stat and reopen fail: the error is returned and NOTHING changes -
   descriptor and position are kept for when the destination is back *)
Theorem C07_write_total : forall clk st p,
  rinv st ->
  (rf_dir st = true -> exists st', rf_write clk st p = WOk st' (zlen p) /\ rinv st' /\ rf_max st' = rf_max st) /\
  (rf_dir st = false -> rf_write clk st p = WErr st).
Proof. exact write_total. Qed.

(* the same for whole histories of writes, outside removals/renames of the file, outages of its
   directory and restarts: every Write issued while the destination is reachable returns len(p),
   the others an error; nothing is ever written through a descriptor whose file has left the path *)
Theorem C07_history_total : forall max s init ops,
  exists st, run (rf_open max s init) [] ops = Some (st, written_lens true ops) /\ rinv st /\ rf_lost st = [].
Proof. exact history_total. Qed.

(* Write and whole histories ALWAYS return - no panic, no endless loop - for every state and every
   environment: whatever the descriptor refers to (also a closed one), whether or not the rotated
   names can be created (file names so long that name + timestamp exceeds NAME_MAX).  What cannot
   be written comes back as an error (WErr / None) *)
Theorem C07_write_always_returns : forall clk st p,
  (exists st' n, rf_write clk st p = WOk st' n) \/ (exists st', rf_write clk st p = WErr st').
Proof. exact rf_write_returns. Qed.

Theorem C07_history_always_returns : forall ops st rets,
  exists st' rets', run st rets ops = Some (st', rets').
Proof. exact run_returns. Qed.

(* a file - active, rotated, renamed away or removed - exceeds the maximum size only if it is a
   single line (no newline inside) that is itself larger; for all histories *)
Theorem C07_size_bound : forall max s init ops st rets,
  fits max init ->
  run (rf_open max s init) [] ops = Some (st, rets) ->
  fits max (rf_cur st) /\
  (forall x, In x (rf_rot st) -> fits max (snd x)) /\
  Forall (fits max) (rf_moved st) /\
  Forall (fits max) (rf_gone st).
Proof. exact size_bound. Qed.

(* one Write while the destination is reachable: its bytes are, in order, in the files it rotated
   away and the active file; the only bytes not in a file are newlines ending the last line of a
   rotated file; the i-th rotation is stamped with the i-th clock reading; no name in the directory
   is used twice; nothing goes through a stale descriptor *)
Theorem C07_write_accounts : forall clk st p,
  rinv st -> rf_dir st = true ->
  exists st' hs, rf_write clk st p = WOk st' (zlen p) /\
    rf_hist st' = rf_hist st ++ hs /\
    rf_rot st' = rf_rot st ++ hist_files hs /\
    hist_stream hs ++ rf_cur st' = rf_cur st ++ p /\
    Forall (fun e => h_skipped e = [NL] \/ (h_skipped e = [] /\ h_kind e = RFresh)) hs /\
    map h_sec hs = map clk (seq 0 (length hs)) /\
    (NoDup (map fst (rf_rot st)) -> NoDup (map fst (rf_rot st'))) /\
    rf_lost st' = rf_lost st.
Proof. exact write_accounts. Qed.

(* all histories: every file that ever was at <path> (oldest first, with the newline skipped at
   its rotation) followed by the active file = what was there ++ everything written while the
   destination was reachable ([written_of] skips exactly the writes that returned an error) *)
Theorem C07_bytes_accounted : forall max s init ops st rets,
  run (rf_open max s init) [] ops = Some (st, rets) ->
  hist_stream (rf_hist st) ++ rf_cur st = init ++ written_of ops.
Proof. exact bytes_accounted. Qed.

(* rotate() always finds a name that does not exist yet, and it is the first one in the order
   <ts>, <ts>.1, <ts>.2, ... (what the Lstat loop of the Go code computes) *)
Theorem C07_rotated_name_is_fresh : forall s d,
  ~ In (s, free_k s d) (map fst d) /\ (forall j, (j < free_k s d)%N -> In (s, j) (map fst d)).
Proof. exact free_k_spec. Qed.

(* ALL histories (writes with any batching, any clock, outside removals and renames of the log
   file, its directory unreachable for any stretch and back, restarts): the files that left <path>,
   oldest first, followed by the active file hold exactly the lines written while the destination
   was reachable - each once, in order, none cut.  In particular every line written after the
   destination came back is there.  The directory of rotated files, the files renamed away and the
   files removed are exactly the corresponding entries of that history, no rotated name was used
   twice, and nothing was written through a stale descriptor *)
Theorem C07_lines_kept_all_histories : forall max s init ops st rets,
  aligned_b init = true -> writes_aligned true ops = true -> no_blank_b (init ++ written_of ops) = true ->
  run (rf_open max s init) [] ops = Some (st, rets) ->
  hist_lines (rf_hist st) ++ lines_of (rf_cur st) = lines_of (init ++ written_of ops) /\
  rf_rot st = hist_rot (rf_hist st) /\ rf_moved st = hist_moved (rf_hist st) /\
  rf_gone st = hist_gone (rf_hist st) /\ NoDup (map fst (rf_rot st)) /\ rf_lost st = [].
Proof. exact lines_kept_all. Qed.

(* nobody removed or renamed the log file: the rotated files in rotation order followed by the
   active file hold exactly the lines written; no hypothesis on windows or clocks (= full_lines) *)
Theorem C07_lines_kept : full_lines.
Proof. exact full_lines_holds. Qed.

(* the structural window split of the model is the index loop of the Go code *)
Theorem C07_scan_is_index_loop : forall p j,
  (j < length p)%nat ->
  match split_last_nl (firstn j (tl p)) with
  | Some (a, _) => scan_down p j = S (length a)
  | None => scan_down p j = O
  end.
Proof. exact scan_down_spec. Qed.

(* the channel end to end, for ALL event sequences: encodable events, events the encoder rejects
   (at any position), faults of the destination between flushes (file removed, renamed, directory
   away, directory back).  Once a second has passed without request, the files that ever were at
   the path (oldest first) and the active file hold exactly the encodable events sent while the
   destination was reachable - each once, in order, uncut: an unencodable event costs no other
   event its line, and after an outage every later event gets its line *)
Theorem C07_channel_lines : forall max s init es clk w w',
  wl_new max true s init = Some w ->
  aligned_b init = true -> sends_aligned es = true -> no_blank_b (init ++ wl_accepted true es) = true ->
  wl_run w (es ++ [EIdle clk]) = Some w' ->
  hist_lines (rf_hist (wl_rf w')) ++ lines_of (rf_cur (wl_rf w')) = lines_of (init ++ wl_accepted true es) /\
  wl_buf w' = [] /\ rf_lost (wl_rf w') = [].
Proof. exact channel_lines. Qed.

(* New hands out a channel exactly when max >= 1024 and the destination can be opened (otherwise
   it returns an error and there is nothing to Send on); on every channel handed out the writer
   receives every request, for all sequences of requests (encodable or not), idle seconds and destination faults: Send always returns *)
Theorem C07_send_always_returns : full_send.
Proof. exact full_send_holds. Qed.

(* the same for every length of the file name (rotated names that cannot be created included) *)
Theorem C07_send_always_returns_any_name : forall n max openable s init,
  match wl_new_env n max openable s init with
  | Some w => 1024 <= max /\ openable = true /\ forall es, exists w', wl_run w es = Some w'
  | None => max < 1024 \/ openable = false \/ open_fails n max s init = true
  end.
Proof. exact new_spec_env. Qed.

Theorem C07_full_holds : C07_full.
Proof. exact full_holds. Qed.

(* non-vacuity, on the inputs on which the code used to fail (max 1024):
   a 1000-byte line then a 100-byte line (no newline in the window, file not empty);
   a 300-byte line then a 1030-byte line (larger than a file) then a 100-byte line;
   25 lines of 100 bytes in one Write with one clock reading (two rotations in one second) *)

Example C07_nonvacuous_no_newline_in_window :
  let ops := [OWrite clk0 (mkline 97 997); OWrite clk0 (mkline 98 97)] in
  match run (rf_open 1024 0 []) [] ops with
  | Some (st, _) => hyps_ok ops && has_nowin (rf_hist st) && names_are st [(0, 0)%N]
                    && beq (rf_cur st) (mkline 98 97) && lines_match st ops
                    && (length (files_lines st) =? 2)%nat
  | None => false
  end = true.
Proof. vm_compute. reflexivity. Qed.

Example C07_nonvacuous_line_larger_than_file :
  let ops := [OWrite clk0 (mkline 97 297); OWrite clk0 (mkline 98 1027); OWrite clk0 (mkline 99 97)] in
  match run (rf_open 1024 0 []) [] ops with
  | Some (st, _) => hyps_ok ops && has_nowin (rf_hist st) && names_are st [(0, 0); (0, 1)]%N
                    && list_eqb Z.eqb (map (fun x => zlen (snd x)) (rf_rot st)) [300; 1029]
                    && beq (rf_cur st) (mkline 99 97) && lines_match st ops
                    && (length (files_lines st) =? 3)%nat
  | None => false
  end = true.
Proof. vm_compute. reflexivity. Qed.

Example C07_nonvacuous_same_second :
  let ops := [OWrite clk0 (concat (map (fun i => mkline (97 + N.of_nat i) 97) (seq 0 25)))] in
  match run (rf_open 1024 0 []) [] ops with
  | Some (st, _) => hyps_ok ops && has_samesec (rf_hist st) && names_are st [(0, 0); (0, 1)]%N
                    && lines_match st ops && (length (files_lines st) =? 25)%nat
  | None => false
  end = true.
Proof. vm_compute. reflexivity. Qed.

(* an outage of the directory over the second of three writes: the first and the third are there,
   the second returned an error; a channel with an unencodable event in the middle of a burst and an
   outage over the second burst *)
Example C07_nonvacuous_outage :
  let ops := [OWrite clk0 (mkline 97 97); ODirAway; OWrite clk0 (mkline 98 97); ODirBack; OWrite clk0 (mkline 99 97)] in
  match run (rf_open 1024 0 []) [] ops with
  | Some (st, rets) => hyps_ok ops && lines_match st ops && (length (files_lines st) =? 2)%nat
                       && (length rets =? 3)%nat
                       && match rets with [Some _; None; Some _] => true | _ => false end
                       && beq (rf_cur st) (mkline 97 97 ++ mkline 99 97)
  | None => false
  end = true.
Proof. vm_compute. reflexivity. Qed.

Example C07_nonvacuous_channel :
  let es := [ESend clk0 (mkline 97 97); EBad; ESend clk0 (mkline 98 97); EFault clk0 FDirAway;
             ESend clk0 (mkline 99 97); EFault clk0 FDirBack; ESend clk0 (mkline 100 97)] in
  match wl_new 1024 true 0 [] with
  | Some w => match wl_run w (es ++ [EIdle clk0]) with
              | Some w' => sends_aligned es && no_blank_b (wl_accepted true es)
                           && beq (rf_cur (wl_rf w')) (mkline 97 97 ++ mkline 98 97 ++ mkline 100 97)
              | None => false
              end
  | None => false
  end = true.
Proof. vm_compute. reflexivity. Qed.

(* a file name of 241 bytes: the first rotation fails, the Write returns an error with the
   descriptor closed, later writes fail too (nothing hangs); what was written before stays *)
Example C07_nonvacuous_overlong_name :
  let ops := [OWrite clk0 (mkline 97 497); OWrite clk0 (mkline 98 597); OWrite clk0 (mkline 99 97)] in
  match run (rf_open_env 241 1024 0 []) [] ops with
  | Some (st, rets) => match rets with [Some _; None; None] => true | _ => false end
                       && beq (rf_cur st) (mkline 97 497) && (length (rf_rot st) =? 0)%nat
                       && match rf_fd st with FdClosed => true | _ => false end
  | None => false
  end = true.
Proof. vm_compute. reflexivity. Qed.

Example C07_nonvacuous_new :
  (match wl_new 1024 true 0 [] with Some _ => true | None => false end) = true /\
  (match wl_new 1024 false 0 [] with Some _ => true | None => false end) = false /\
  (match wl_new 1023 true 0 [] with Some _ => true | None => false end) = false.
Proof. vm_compute. auto. Qed.

Print Assumptions C07_write_total.
Print Assumptions C07_history_total.
Print Assumptions C07_write_always_returns.
Print Assumptions C07_history_always_returns.
Print Assumptions C07_size_bound.
Print Assumptions C07_write_accounts.
Print Assumptions C07_bytes_accounted.
Print Assumptions C07_rotated_name_is_fresh.
Print Assumptions C07_lines_kept_all_histories.
Print Assumptions C07_lines_kept.
Print Assumptions C07_scan_is_index_loop.
Print Assumptions C07_channel_lines.
Print Assumptions C07_send_always_returns.
Print Assumptions C07_send_always_returns_any_name.
Print Assumptions C07_full_holds.
