(* C07 - executable property on the implementation's observations.
   Two kinds of case: CW = fschannel.OpenRotateFile + Write driven directly (with outside
   remove / rename / restart between writes), CC = the registered "file" channel end to end.
   File contents travel run-length encoded with a small fixed dictionary (lossless; decoded here by [unrle]). *)
From HT Require Import Common.Bytes C07.Model.
Open Scope Z_scope.

(* one run = byte + 256 * count, written in base 16 with constructors Q0..QF, most significant digit outermost
   (explicit constructors parse much faster than numerals) *)
Inductive hx :=
| Qz
| Q0 (r : hx) | Q1 (r : hx) | Q2 (r : hx) | Q3 (r : hx) | Q4 (r : hx) | Q5 (r : hx) | Q6 (r : hx) | Q7 (r : hx)
| Q8 (r : hx) | Q9 (r : hx) | QA (r : hx) | QB (r : hx) | QC (r : hx) | QD (r : hx) | QE (r : hx) | QF (r : hx).

Fixpoint hx_val (acc : N) (h : hx) : N :=
  match h with
  | Qz => acc
  | Q0 r => hx_val (acc * 16) r | Q1 r => hx_val (acc * 16 + 1) r
  | Q2 r => hx_val (acc * 16 + 2) r | Q3 r => hx_val (acc * 16 + 3) r
  | Q4 r => hx_val (acc * 16 + 4) r | Q5 r => hx_val (acc * 16 + 5) r
  | Q6 r => hx_val (acc * 16 + 6) r | Q7 r => hx_val (acc * 16 + 7) r
  | Q8 r => hx_val (acc * 16 + 8) r | Q9 r => hx_val (acc * 16 + 9) r
  | QA r => hx_val (acc * 16 + 10) r | QB r => hx_val (acc * 16 + 11) r
  | QC r => hx_val (acc * 16 + 12) r | QD r => hx_val (acc * 16 + 13) r
  | QE r => hx_val (acc * 16 + 14) r | QF r => hx_val (acc * 16 + 15) r
  end%N.

(* fixed strings that every line carries, referenced as an item with count 0 *)
Definition DICT : list bytes :=
  [ [123;34;100;97;116;101;34;58;34;100;34;44;34;105;34;58]%N   (* brace, date:d, key i and colon - the start of an encoded event *)
  ; [44;34;112;34;58;34]%N                                       (* comma, key p, colon, opening quote *)
  ; [34;125;10]%N                                                (* closing quote, brace, newline *)
  ; [123;34;105;34;58]%N ].                                      (* brace, key i and colon - the start of a line of the direct cases *)

(* an item v = b + 256 * count: count > 0 = a run of byte b; count = 0 = DICT entry number b *)
Definition rle := list hx.
Definition unrle (r : rle) : bytes :=
  flat_map (fun h => let v := hx_val 0 h in
                     let c := (v / 256)%N in
                     if (c =? 0)%N then nth (N.to_nat v) DICT []
                     else repeat (v mod 256)%N (N.to_nat c)) r.

Inductive cop :=
| CWrite (s : N) (p : rle)      (* s = wall-clock second (relative) observed around the call *)
| CRemove | CMove
| CReopen (s : N)
| CDirAway | CDirBack.           (* the directory of the log renamed away (or replaced by a file) / restored *)

Record wcase := mkW {
  w_id : N;
  w_max : Z;
  w_namelen : Z;                     (* bytes of the base name of the log file *)
  w_sec0 : N;                        (* second observed around OpenRotateFile *)
  w_init : rle;                      (* what was at <path> before *)
  w_ops : list cop;
  (* observed *)
  w_rets : list (Z * bool);          (* per Write: n, err == nil *)
  w_exists : bool;
  w_cur : rle;
  w_rot : list (N * N * rle);        (* <path>.<ts>[.<k>]: (ts relative, k, content), ascending *)
  w_moved : list rle;
  w_gone : list rle                  (* read by the harness just before it removed the file *)
}.

Record ccase := mkC {
  c_id : N;
  c_max : Z;
  c_namelen : Z;                     (* bytes of the base name of the log file *)
  c_openable : bool;                 (* can the destination be created at all *)
  c_sec0 : N;
  c_init : rle;
  c_bursts : list (N * N * N * list (option rle));
                                     (* per burst: fault that hits the quiescent channel before it (0 none,
                                        1 file removed, 2 file renamed away, 3 directory away, 4 directory back),
                                        second while sending, second of the idle flush, the events: Some = its
                                        encoding, None = an event json.Encoder rejects *)
  c_clock : list N;                  (* when not empty: the second of the g-th rotation, read off the
                                        names of the rotated files (a flush with hundreds of rotations
                                        can straddle seconds); replaces the two readings above *)
  (* observed *)
  c_new_ok : bool;                   (* New returned a channel (no error) *)
  c_blocked : bool;                  (* some Send did not return within the bound *)
  c_cur : rle;
  c_rot : list (N * N * rle);
  c_moved : list rle;
  c_gone : list rle;
  c_errs : N                         (* "Failed to copy data to File" lines the writer logged for this path *)
}.

Inductive case := CW (c : wcase) | CC (c : ccase).

Definition case_id (c : case) : N := match c with CW w => w_id w | CC k => c_id k end.

(* ---- helpers ---- *)
(* boolean equality on byte strings (same relation as Common.eqb_bytes, cheaper to evaluate) *)
Fixpoint beq (a b : bytes) : bool :=
  match a, b with
  | [], [] => true
  | x :: a', y :: b' => (x =? y)%N && beq a' b'
  | _, _ => false
  end.

Fixpoint list_eqb {A} (e : A -> A -> bool) (a b : list A) : bool :=
  match a, b with
  | [], [] => true
  | x :: a', y :: b' => e x y && list_eqb e a' b'
  | _, _ => false
  end.

Definition name_leb (a b : rname) : bool :=
  (fst a <? fst b)%N || ((fst a =? fst b)%N && (snd a <=? snd b)%N).

Fixpoint ins (e : rname * bytes) (l : list (rname * bytes)) : list (rname * bytes) :=
  match l with
  | [] => [e]
  | x :: r => if name_leb (fst e) (fst x) then e :: l else x :: ins e r
  end.
Definition sort_rot (l : list (rname * bytes)) : list (rname * bytes) := fold_right ins [] l.

Definition rot_eqb (a b : list (rname * bytes)) : bool :=
  list_eqb (fun x y => (fst (fst x) =? fst (fst y))%N && (snd (fst x) =? snd (fst y))%N && beq (snd x) (snd y)) a b.

Fixpoint remove1 (x : bytes) (l : list bytes) : option (list bytes) :=
  match l with
  | [] => None
  | y :: r => if beq x y then Some r
              else match remove1 x r with Some r' => Some (y :: r') | None => None end
  end.

(* multiset difference: (lines of a missing from b, lines of b not in a) *)
Fixpoint mdiff (a b : list bytes) : list bytes * list bytes :=
  match a with
  | [] => ([], b)
  | x :: a' =>
      match remove1 x b with
      | Some b' => mdiff a' b'
      | None => let '(m, e) := mdiff a' b in (x :: m, e)
      end
  end.

(* e (of length le) is a proper suffix of l *)
Definition proper_suffix (le : Z) (e l : bytes) : bool :=
  let ll := zlen l in
  (le <? ll) && beq e (skipn (Z.to_nat (ll - le)) l).

(* ---- signatures ---- *)
Definition SIG_LOST := 1%N.        (* a line lost / cut / duplicated / invented, outside the classes below *)
Definition SIG_DROP := 2%N.        (* first byte(s) of a line gone; input has a rotation without newline in its window (repaired in /repo: a regression) *)
Definition SIG_OVERWRITE := 3%N.   (* whole lines gone; input has two rotations in one wall-clock second (repaired in /repo: a regression) *)
Definition SIG_DROP_OVERWRITE := 4%N. (* both of the above *)
Definition SIG_SIZE := 5%N.        (* a file larger than max that is not a single line *)
Definition SIG_WRITE_ERR := 6%N.   (* Write returned an error or a wrong count *)
Definition SIG_BLOCK_UNOPENABLE := 7%N. (* a channel was handed out although the destination cannot be opened and its Send blocked (repaired in /repo: a regression) *)
Definition SIG_BLOCK := 8%N.       (* Send blocked although the destination is fine *)
Definition SIG_NEW_REFUSED := 9%N. (* New returned an error although the destination can be opened and max >= 1024 *)

(* the property on one set of files: sent = lines handed over, files = everything on disk *)
Definition size_ok (max : Z) (init : bytes) (files : list bytes) : bool :=
  forallb (fun f => (zlen f <=? max) || (length (lines_of f) <=? 1)%nat || beq f init) files.

Definition lines_sig (sent : list bytes) (files : list bytes) (cls_drop cls_same : bool) : N :=
  let '(missing, extra) := mdiff sent (flat_map lines_of files) in
  match missing, extra with
  | [], [] => 0%N
  | _, _ =>
      (* evidence must fit the class, otherwise it is something new *)
      let extra_are_cut := forallb (fun e => let le := zlen e in existsb (proper_suffix le e) missing) extra in
      if cls_drop && cls_same then (if extra_are_cut then SIG_DROP_OVERWRITE else SIG_LOST)
      else if cls_drop then
        (if extra_are_cut && (length extra =? length missing)%nat then SIG_DROP else SIG_LOST)
      else if cls_same then
        (match extra with [] => SIG_OVERWRITE | _ => SIG_LOST end)
      else SIG_LOST
  end.

(* ---- CW ---- *)
Definition to_op (o : cop) : op :=
  match o with
  | CWrite s p => OWrite (fun _ => s) (unrle p)
  | CRemove => ORemove
  | CMove => OMove
  | CReopen s => OReopen s
  | CDirAway => ODirAway
  | CDirBack => ODirBack
  end.

Definition w_model (c : wcase) : option (rf * list (option Z)) :=
  run (rf_open_env (w_namelen c) (w_max c) (w_sec0 c) (unrle (w_init c))) [] (map to_op (w_ops c)).

Definition unrot (l : list (N * N * rle)) : list (rname * bytes) := map (fun e => (fst e, unrle (snd e))) l.

(* model: Some n / None (error);  observed: (n, err == nil) *)
Definition ret_eqb (m : option Z) (o : Z * bool) : bool :=
  match m with
  | Some n => snd o && (n =? fst o)
  | None => negb (snd o)
  end.

Fixpoint list_eqb2 {A B} (e : A -> B -> bool) (a : list A) (b : list B) : bool :=
  match a, b with
  | [], [] => true
  | x :: a', y :: b' => e x y && list_eqb2 e a' b'
  | _, _ => false
  end.

Definition w_mismatch (c : wcase) : bool :=
  match w_model c with
  | None => true
  | Some (st, rets) =>
      negb (list_eqb2 ret_eqb rets (w_rets c)
            && Bool.eqb (rf_exists st) (w_exists c)
            && beq (rf_cur st) (unrle (w_cur c))
            && rot_eqb (sort_rot (rf_rot st)) (unrot (w_rot c))
            && list_eqb beq (rf_moved st) (map unrle (w_moved c))
            && list_eqb beq (rf_gone st) (map unrle (w_gone c)))
  end.

(* every Write issued while the destination was reachable returned (len p, nil); [d] = reachable *)
Fixpoint rets_ok (d : bool) (ops : list cop) (rs : list (Z * bool)) : bool :=
  match ops with
  | [] => match rs with [] => true | _ => false end
  | CWrite _ p :: ops' =>
      match rs with
      | r :: rs' => (if d then snd r && (fst r =? zlen (unrle p)) else true) && rets_ok d ops' rs'
      | [] => false
      end
  | CDirAway :: ops' => rets_ok false ops' rs
  | CDirBack :: ops' => rets_ok true ops' rs
  | _ :: ops' => rets_ok d ops' rs
  end.

Definition w_class (c : wcase) : bool * bool :=
  match w_model c with
  | Some (st, _) => (has_nowin (rf_hist st), has_samesec (rf_hist st))
  | None => (false, false)
  end.

(* rotated names can always be created (see Model.can_rotate): then no Write may fail while the
   destination is reachable.  With a longer name a rotation can be impossible: Writes may then
   return an error - which is the only way in which lines may be missing *)
Definition strict_name (n : Z) : bool := n <=? 200.

(* lines of the writes issued while reachable, split by what the implementation returned *)
Fixpoint split_writes (d : bool) (ops : list cop) (rs : list (Z * bool)) : bytes * list bytes :=
  match ops with
  | [] => ([], [])
  | CWrite _ p :: ops' =>
      match rs with
      | r :: rs' =>
          let '(ok, failed) := split_writes d ops' rs' in
          if negb d then (ok, failed)
          else if snd r then (unrle p ++ ok, failed) else (ok, lines_of (unrle p) ++ failed)
      | [] => ([], [])
      end
  | CDirAway :: ops' => split_writes false ops' rs
  | CDirBack :: ops' => split_writes true ops' rs
  | _ :: ops' => split_writes d ops' rs
  end.

(* every successful Write reported len p *)
Fixpoint counts_ok (ops : list cop) (rs : list (Z * bool)) : bool :=
  match ops with
  | [] => true
  | CWrite _ p :: ops' =>
      match rs with
      | r :: rs' => (if snd r then fst r =? zlen (unrle p) else true) && counts_ok ops' rs'
      | [] => false
      end
  | _ :: ops' => counts_ok ops' rs
  end.

Definition w_sig (c : wcase) : N :=
  let init := unrle (w_init c) in
  let files := map unrle (w_gone c) ++ map unrle (w_moved c) ++ map snd (unrot (w_rot c)) ++ [unrle (w_cur c)] in
  if strict_name (w_namelen c) then
    (* the property: what was handed over while the destination was reachable *)
    let sent := lines_of (init ++ accepted true (map to_op (w_ops c))) in
    if negb (rets_ok true (w_ops c) (w_rets c)) then SIG_WRITE_ERR
    else if negb (size_ok (w_max c) init files) then SIG_SIZE
    else let '(d, s) := w_class c in lines_sig sent files d s
  else
    (* what returned nil is there; what is there beyond that comes from a Write that returned an error *)
    let '(ok, failed) := split_writes true (w_ops c) (w_rets c) in
    if negb (counts_ok (w_ops c) (w_rets c)) then SIG_WRITE_ERR
    else if negb (size_ok (w_max c) init files) then SIG_SIZE
    else
      let '(missing, extra) := mdiff (lines_of (init ++ ok)) (flat_map lines_of files) in
      match missing with
      | [] => match fst (mdiff extra failed) with [] => 0%N | _ => SIG_LOST end
      | _ => SIG_LOST
      end.

(* ---- CC ---- *)
Definition fault_of (n : N) : option fault :=
  match n with
  | 1 => Some FRemove | 2 => Some FMove | 3 => Some FDirAway | 4 => Some FDirBack | _ => None
  end%N.

Definition c_events (c : ccase) : list wev :=
  flat_map (fun b => let '(f, s1, s2, ls) := b in
              let k1 := match c_clock c with [] => (fun _ => s1) | l => (fun g => nth g l 0%N) end in
              let k2 := match c_clock c with [] => (fun _ => s2) | l => (fun g => nth g l 0%N) end in
              (match fault_of f with Some x => [EFault k1 x] | None => [] end)
              ++ map (fun l => match l with Some l' => ESend k1 (unrle l') | None => EBad end) ls
              ++ [EIdle k2]) (c_bursts c).

(* None = no channel; Some None = the writer failed; Some (Some w) = final state *)
Definition c_model (c : ccase) : option (option wl) :=
  match wl_new_env (c_namelen c) (c_max c) (c_openable c) (c_sec0 c) (unrle (c_init c)) with
  | None => None
  | Some w => Some (wl_run w (c_events c))
  end.

Definition c_mismatch (c : ccase) : bool :=
  match c_model c with
  | None => c_new_ok c                       (* the model says New fails *)
  | Some None => true
  | Some (Some w) =>
      negb (c_new_ok c && negb (c_blocked c)
            && beq (rf_cur (wl_rf w)) (unrle (c_cur c))
            && rot_eqb (sort_rot (rf_rot (wl_rf w))) (unrot (c_rot c))
            && list_eqb beq (rf_moved (wl_rf w)) (map unrle (c_moved c))
            && list_eqb beq (rf_gone (wl_rf w)) (map unrle (c_gone c)))
  end.

Definition c_class (c : ccase) : bool * bool :=
  match c_model c with
  | Some (Some w) => (has_nowin (rf_hist (wl_rf w)), has_samesec (rf_hist (wl_rf w)))
  | _ => (false, false)
  end.

Definition c_should_open (c : ccase) : bool :=
  c_openable c && (1024 <=? c_max c) && negb (open_fails (c_namelen c) (c_max c) (c_sec0 c) (unrle (c_init c))).

Definition c_sig (c : ccase) : N :=
  if negb (c_new_ok c) then (if c_should_open c then SIG_NEW_REFUSED else 0%N)
  else if c_blocked c then (if c_openable c then SIG_BLOCK else SIG_BLOCK_UNOPENABLE)
  else
    let init := unrle (c_init c) in
    let files := map unrle (c_gone c) ++ map unrle (c_moved c) ++ map snd (unrot (c_rot c)) ++ [unrle (c_cur c)] in
    (* the property: every encodable event sent while the destination was reachable *)
    let sent := lines_of (init ++ wl_accepted true (c_events c)) in
    if negb (size_ok (c_max c) init files) then SIG_SIZE
    else if strict_name (c_namelen c) then let '(d, s) := c_class c in lines_sig sent files d s
    else
      (* a rotation may be impossible: lines may be missing only if the writer reported errors,
         nothing may be invented, cut or duplicated *)
      let '(missing, extra) := mdiff sent (flat_map lines_of files) in
      match extra with
      | [] => match missing with [] => 0%N | _ => if (c_errs c =? 0)%N then SIG_LOST else 0%N end
      | _ => SIG_LOST
      end.

(* ---- exported ---- *)
Definition mismatches (cs : list case) : list N :=
  map case_id (filter (fun c => match c with CW w => w_mismatch w | CC k => c_mismatch k end) cs).

Definition violations (cs : list case) : list (N * N) :=
  flat_map (fun c =>
    let s := match c with CW w => w_sig w | CC k => c_sig k end in
    if (s =? 0)%N then [] else [(case_id c, s)]) cs.

(* tag bits: 1 a rotation happened, 2 rotation without newline in the window, 4 two rotations in
   one second, 8 outside remove/rename, 16 rotation at (re)open, 32 channel case, 64 New refused to create the channel,
   128 a fault of the destination (directory away / file removed or renamed under the channel), 256 an unencodable event *)
Definition hist_tag (h : list hent) : N :=
  ((if existsb is_rot h then 1 else 0)
   + (if has_nowin h then 2 else 0)
   + (if has_samesec h then 4 else 0)
   + (if existsb (fun e => match h_kind e with ROpen => true | _ => false end) h then 16 else 0))%N.

Definition tags (cs : list case) : list (N * N) :=
  map (fun c => (case_id c,
    match c with
    | CW w =>
        ((match w_model w with Some (st, _) => hist_tag (rf_hist st) | None => 0 end)
         + (if existsb (fun o => match o with CRemove | CMove => true | _ => false end) (w_ops w) then 8 else 0)
         + (if existsb (fun o => match o with CDirAway => true | _ => false end) (w_ops w) then 128 else 0))%N
    | CC k =>
        (32 + (match c_model k with Some (Some w) => hist_tag (rf_hist (wl_rf w)) | _ => 0 end)
         + (if c_new_ok k then 0 else 64)
         + (if existsb (fun b => negb (fst (fst (fst b)) =? 0)%N) (c_bursts k) then 128 else 0)
         + (if existsb (fun b => existsb (fun l => match l with None => true | _ => false end) (snd b)) (c_bursts k) then 256 else 0))%N
    end)) cs.
