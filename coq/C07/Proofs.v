(* C07 - lemmas about the model of rotateFile / writeLoop (repaired code). *)
From HT Require Import Common.Bytes C07.Model.
From Coq Require Import ZifyBool ZifyN ZifyNat FinFun.
Open Scope Z_scope.

(* ---- the scans ---- *)
Lemma split_last_nl_some l : forall a b,
  split_last_nl l = Some (a, b) ->
  l = a ++ NL :: b /\ forallb (fun x => negb (x =? NL)%N) b = true.
Proof.
  induction l as [|x r IH]; intros a b H; cbn [split_last_nl] in H; [discriminate|].
  destruct (split_last_nl r) as [[a' b']|] eqn:E.
  - inversion H; subst. destruct (IH a' b eq_refl) as [-> Hb]. split; [reflexivity|exact Hb].
  - destruct (x =? NL)%N eqn:Ex; [|discriminate]. inversion H; subst.
    apply N.eqb_eq in Ex; subst. split; [reflexivity|].
    clear IH H. revert E. induction b as [|y b IHb]; intros E; [reflexivity|].
    cbn [split_last_nl] in E. destruct (split_last_nl b) as [[? ?]|]; [discriminate|].
    destruct (y =? NL)%N eqn:Ey; [discriminate|]. cbn [forallb]. rewrite Ey. cbn. apply IHb. reflexivity.
Qed.

Lemma split_last_nl_none l :
  split_last_nl l = None -> forallb (fun x => negb (x =? NL)%N) l = true.
Proof.
  induction l as [|x r IH]; intros H; [reflexivity|]. cbn [split_last_nl] in H.
  destruct (split_last_nl r) as [[? ?]|]; [discriminate|].
  destruct (x =? NL)%N eqn:Ex; [discriminate|]. cbn [forallb]. rewrite Ex. cbn. apply IH. reflexivity.
Qed.

Lemma split_first_nl_some l : forall a b,
  split_first_nl l = Some (a, b) -> l = a ++ NL :: b /\ ~ In NL a.
Proof.
  induction l as [|x r IH]; intros a b H; cbn [split_first_nl] in H; [discriminate|].
  destruct (x =? NL)%N eqn:Ex.
  - inversion H; subst. apply N.eqb_eq in Ex; subst. split; [reflexivity|intros []].
  - destruct (split_first_nl r) as [[a' b']|]; [|discriminate]. inversion H; subst.
    destruct (IH a' b eq_refl) as [-> Hn]. split; [reflexivity|].
    intros [E|Hi]; [subst; rewrite N.eqb_refl in Ex; discriminate|auto].
Qed.

Lemma split_first_nl_none l : split_first_nl l = None -> ~ In NL l.
Proof.
  induction l as [|x r IH]; intros H; [intros []|]. cbn [split_first_nl] in H.
  destruct (x =? NL)%N eqn:Ex; [discriminate|].
  destruct (split_first_nl r) as [[? ?]|]; [discriminate|].
  intros [E|Hi]; [subst; rewrite N.eqb_refl in Ex; discriminate|exact (IH eq_refl Hi)].
Qed.

(* one window scan: p[j] is always in range under the loop condition; a found newline
   splits p after at most j bytes *)
Lemma window_scan_spec p j : j < zlen p ->
  match window_scan p j with
  | SFound a rest => p = a ++ NL :: rest /\ a <> [] /\ zlen a <= j
  | SNone => True
  | SOutOfRange => False
  end.
Proof.
  intros Hj. unfold window_scan. destruct (j <=? 0) eqn:E0; [exact I|].
  assert (E1 : (zlen p <=? j) = false) by lia. rewrite E1.
  destruct p as [|x0 p']; [unfold zlen in Hj; cbn in Hj; lia|]. cbn [firstn skipn].
  set (n := Z.to_nat j).
  destruct (split_last_nl (firstn n p')) as [[a b]|] eqn:Es; [|exact I].
  apply split_last_nl_some in Es as [Ew _].
  pose proof (firstn_skipn n p') as Hfs. pose proof (firstn_le_length n p') as Hfl.
  repeat split.
  - rewrite <- Hfs at 1. rewrite Ew. cbn [app]. rewrite <- app_assoc. reflexivity.
  - discriminate.
  - rewrite Ew, app_length in Hfl. cbn [length] in Hfl. unfold zlen. cbn [length]. lia.
Qed.

(* ---- names: rotate() always finds a name that does not exist ---- *)
Lemma taken_In s k d : taken s k d = true <-> In (s, k) (map fst d).
Proof.
  unfold taken. rewrite existsb_exists, in_map_iff. split.
  - intros (e & He & H). apply andb_true_iff in H as [H1 H2].
    apply N.eqb_eq in H1, H2. exists e. split; [|exact He]. destruct e as [[a b] c]; cbn in *. congruence.
  - intros (e & He & Hi). exists e. split; [exact Hi|]. destruct e as [[a b] c]. cbn in *.
    inversion He; subst. rewrite !N.eqb_refl. reflexivity.
Qed.

Lemma first_free_spec s d : forall fuel k,
  taken s (first_free fuel s k d) d = false \/
  (forall i, (i < fuel)%nat -> taken s (k + N.of_nat i)%N d = true).
Proof.
  induction fuel as [|f IH]; intros k; cbn [first_free]; [right; intros i Hi; lia|].
  destruct (taken s k d) eqn:E; [|left; exact E].
  destruct (IH (k + 1)%N) as [H|H]; [left; exact H|right].
  intros i Hi. destruct i as [|i]; [replace (k + N.of_nat 0)%N with k by lia; exact E|].
  replace (k + N.of_nat (S i))%N with (k + 1 + N.of_nat i)%N by lia. apply H. lia.
Qed.

Lemma free_k_fresh s d : ~ In (s, free_k s d) (map fst d).
Proof.
  unfold free_k. destruct (first_free_spec s d (S (length d)) 0%N) as [H|H].
  - intros Hi. apply taken_In in Hi. congruence.
  - exfalso.
    set (l := map (fun i => (s, N.of_nat i)) (seq 0 (S (length d)))).
    assert (Hnd : NoDup l).
    { apply Injective_map_NoDup; [|apply seq_NoDup]. intros a b E. inversion E. lia. }
    assert (Hincl : incl l (map fst d)).
    { intros x Hx. unfold l in Hx. apply in_map_iff in Hx as (i & <- & Hi). apply in_seq in Hi.
      apply taken_In. specialize (H i ltac:(lia)). replace (0 + N.of_nat i)%N with (N.of_nat i) in H by lia. exact H. }
    pose proof (NoDup_incl_length Hnd Hincl) as Hlen.
    unfold l in Hlen. rewrite !map_length, seq_length in Hlen. lia.
Qed.

(* ---- invariants ---- *)
(* between calls: pos is the length of the file whenever it exists *)
Definition rinv (st : rf) : Prop :=
  (rf_exists st = true -> rf_pos st = zlen (rf_cur st)) /\
  (rf_exists st = false -> rf_cur st = []).

(* inside Write after the Stat/reopen step *)
Definition winv (st : rf) : Prop := rf_exists st = true /\ rf_pos st = zlen (rf_cur st).

(* a file is at most max bytes long unless it is one single (unterminated) line *)
Definition fits (max : Z) (c : bytes) : Prop := zlen c <= max \/ ~ In NL c.

Definition aligned (b : bytes) : Prop := b = [] \/ exists b0, b = b0 ++ [NL].

(* a file left <path> at a line boundary: either the loop skipped the newline that ends its last
   line, or nothing was skipped and the file ends with a newline (or is empty) *)
Definition ent_fine (e : hent) : Prop :=
  h_skipped e = [NL] \/ (h_skipped e = [] /\ aligned (h_content e)).

Definition loop_kind (e : hent) : Prop :=
  h_kind e = RSplit \/ h_kind e = RFresh \/ h_kind e = RLong.

Lemma hist_stream_app a b : hist_stream (a ++ b) = hist_stream a ++ hist_stream b.
Proof. unfold hist_stream. rewrite map_app, concat_app. reflexivity. Qed.

Lemma zlen0_nil {A} (l : list A) : zlen l = 0 -> l = [].
Proof. destruct l; [reflexivity|]. unfold zlen; cbn; lia. Qed.

(* ---- one call of Write ---- *)
Record write_post (clk : nat -> N) (i : nat) (st st' : rf) (p : bytes) (hs : list hent) : Prop := {
  wp_inv : winv st';
  wp_max : rf_max st' = rf_max st;
  wp_moved : rf_moved st' = rf_moved st;
  wp_gone : rf_gone st' = rf_gone st;
  wp_hist : rf_hist st' = rf_hist st ++ hs;
  wp_rot : rf_rot st' = rf_rot st ++ hist_files hs;
  wp_stream : hist_stream hs ++ rf_cur st' = rf_cur st ++ p;
  wp_fits : fits (rf_max st) (rf_cur st) ->
            Forall (fun e => fits (rf_max st) (h_content e)) hs /\ fits (rf_max st) (rf_cur st');
  wp_fine : aligned (rf_cur st) -> Forall ent_fine hs;
  wp_kind : Forall loop_kind hs;
  wp_secs : map h_sec hs = map clk (seq i (length hs));
  wp_nodup : NoDup (map fst (rf_rot st)) -> NoDup (map fst (rf_rot st'))
}.

Lemma NoDup_snoc {A} (l : list A) x : NoDup l -> ~ In x l -> NoDup (l ++ [x]).
Proof.
  induction l as [|y l IH]; intros Hn Hx; cbn; [constructor; [intros []|constructor]|].
  inversion Hn; subst. constructor.
  - rewrite in_app_iff. cbn. intros [H|[H|[]]]; [auto|subst; apply Hx; left; reflexivity].
  - apply IH; [assumption|intros H; apply Hx; right; exact H].
Qed.

Lemma rotate_nodup s sk kd st :
  NoDup (map fst (rf_rot st)) -> NoDup (map fst (rf_rot (rotate s sk kd st))).
Proof.
  intros H. cbn [rotate rf_rot]. rewrite map_app. cbn [map fst].
  apply NoDup_snoc; [exact H|apply free_k_fresh].
Qed.

Definition measure (st : rf) (p : bytes) : nat :=
  (2 * length p + (if (0 <? rf_pos st)%Z then 1 else 0))%nat.

Lemma fits_nil max : fits max [].
Proof. right. intros []. Qed.

Lemma aligned_nil : aligned [].
Proof. left. reflexivity. Qed.

(* the loop exits: final write *)
Lemma final_post clk i st p :
  winv st ->
  (rf_pos st + zlen p <= rf_max st \/ (rf_cur st = [] /\ ~ In NL p)) ->
  write_post clk i st (set_pos (put st p) (rf_pos st + zlen p)) p [].
Proof.
  intros (Hex & Hpos) Hc. constructor; cbn; auto.
  - unfold winv. cbn. rewrite zlen_app. split; [exact Hex|lia].
  - rewrite app_nil_r. reflexivity.
  - rewrite app_nil_r. reflexivity.
  - intros _. split; [constructor|]. destruct Hc as [Hc|[Hc Hn]].
    + left. rewrite zlen_app. lia.
    + right. rewrite Hc. exact Hn.
Qed.

(* one iteration that rotates: [a] is appended to the file, the file is rotated, [sk] is
   skipped, the loop goes on with [p1] *)
Lemma post_cons clk i st st0 st' a sk kd p1 hs p :
  rf_max st0 = rf_max st -> rf_moved st0 = rf_moved st -> rf_gone st0 = rf_gone st ->
  rf_hist st0 = rf_hist st -> rf_rot st0 = rf_rot st -> rf_cur st0 = rf_cur st ++ a ->
  p = a ++ sk ++ p1 ->
  (fits (rf_max st) (rf_cur st) -> fits (rf_max st) (rf_cur st ++ a)) ->
  (aligned (rf_cur st) -> ent_fine (mkH (clk i) (free_k (clk i) (rf_rot st)) (rf_cur st ++ a) sk kd)) ->
  (kd = RSplit \/ kd = RFresh \/ kd = RLong) ->
  write_post clk (S i) (rotate (clk i) sk kd st0) st' p1 hs ->
  write_post clk i st st' p (mkH (clk i) (free_k (clk i) (rf_rot st)) (rf_cur st ++ a) sk kd :: hs).
Proof.
  intros Em Emv Eg Eh Er Ec Ep Hfit Hfine Hkd Hp. destruct Hp.
  cbn [rotate rf_max rf_moved rf_gone rf_hist rf_rot rf_cur] in *.
  rewrite Em, ?Emv, ?Eg, ?Eh, ?Er, ?Ec in *.
  constructor.
  - exact wp_inv0.
  - exact wp_max0.
  - exact wp_moved0.
  - exact wp_gone0.
  - rewrite wp_hist0, <- app_assoc. reflexivity.
  - rewrite wp_rot0, <- app_assoc. reflexivity.
  - unfold hist_stream in *. cbn [map concat h_content h_skipped].
    rewrite <- !app_assoc. rewrite wp_stream0. cbn [app]. rewrite Ep, <- !app_assoc. reflexivity.
  - intros Hf. destruct (wp_fits0 (fits_nil _)) as [F1 F2]. split; [|exact F2].
    constructor; [apply Hfit, Hf|exact F1].
  - intros Ha. constructor; [apply Hfine, Ha|apply wp_fine0, aligned_nil].
  - constructor; [exact Hkd|exact wp_kind0].
  - cbn [map length seq h_sec]. rewrite wp_secs0. reflexivity.
  - intros Hn. apply wp_nodup0. rewrite map_app. cbn [map fst].
    apply NoDup_snoc; [exact Hn|apply free_k_fresh].
Qed.

Lemma write_loop_ok clk : forall fuel i st p w,
  winv st -> (measure st p < fuel)%nat ->
  exists st' hs, write_loop fuel clk i st p w = WOk st' (w + zlen p) /\ write_post clk i st st' p hs.
Proof.
  induction fuel as [|f IH]; intros i st p w Hinv Hf; [lia|].
  pose proof Hinv as (Hex & Hpos).
  cbn [write_loop].
  destruct (rf_pos st + zlen p >? rf_max st) eqn:Hc.
  2:{ eexists. exists []. split; [reflexivity|]. apply final_post; [exact Hinv|left; lia]. }
  pose proof (window_scan_spec p (rf_max st - rf_pos st) ltac:(lia)) as Hs.
  unfold measure in Hf.
  destruct (window_scan p (rf_max st - rf_pos st)) as [a rest| |]; [| |contradiction].
  - (* a newline inside the window *)
    destruct Hs as (Hp & Hne & Hle).
    assert (Hlen : length p = (length a + 1 + length rest)%nat)
      by (rewrite Hp, app_length; cbn [length]; lia).
    set (st1 := rotate (clk i) [NL] RSplit (put st a)).
    destruct (IH (S i) st1 rest (w + zlen a + 1)) as (st' & hs & Hr & Hpost).
    { unfold winv, st1. cbn. auto. }
    { unfold measure, st1. cbn [rotate rf_pos]. cbn. lia. }
    exists st'. eexists. split.
    + rewrite Hr. f_equal. unfold zlen. lia.
    + eapply (post_cons clk i st (put st a) st' a [NL] RSplit rest hs p); try reflexivity; auto.
      * rewrite Hp. reflexivity.
      * intros _. left. rewrite zlen_app. lia.
      * intros _. left. reflexivity.
  - destruct (0 <? rf_pos st) eqn:Ep.
    + (* no newline inside the window, the file is not empty: fresh file, nothing skipped *)
      set (st1 := rotate (clk i) [] RFresh st).
      destruct (IH (S i) st1 p w) as (st' & hs & Hr & Hpost).
      { unfold winv, st1. cbn. auto. }
      { unfold measure, st1. cbn [rotate rf_pos]. cbn. lia. }
      exists st'. eexists. split; [exact Hr|].
      eapply (post_cons clk i st st st' [] [] RFresh p hs p); try reflexivity; auto.
      * rewrite app_nil_r. reflexivity.
      * rewrite app_nil_r. auto.
      * intros Ha. right. cbn [h_skipped h_content]. rewrite app_nil_r. auto.
    + (* empty file *)
      assert (Hcur : rf_cur st = []) by (apply zlen0_nil; pose proof (zlen_nonneg (rf_cur st)); lia).
      destruct (split_first_nl p) as [[a b]|] eqn:Ef.
      * apply split_first_nl_some in Ef as [Hp Hn].
        assert (Hlen : length p = (length a + 1 + length b)%nat)
          by (rewrite Hp, app_length; cbn [length]; lia).
        set (st1 := rotate (clk i) [NL] RLong (put st a)).
        destruct (IH (S i) st1 b (w + zlen a + 1)) as (st' & hs & Hr & Hpost).
        { unfold winv, st1. cbn. auto. }
        { unfold measure, st1. cbn [rotate rf_pos]. cbn. lia. }
        exists st'. eexists. split.
        -- rewrite Hr. f_equal. unfold zlen. lia.
        -- eapply (post_cons clk i st (put st a) st' a [NL] RLong b hs p); try reflexivity; auto.
           ++ rewrite Hp. reflexivity.
           ++ intros _. right. rewrite Hcur. exact Hn.
           ++ intros _. left. reflexivity.
      * apply split_first_nl_none in Ef.
        eexists. exists []. split; [reflexivity|]. apply final_post; [exact Hinv|right; auto].
Qed.
