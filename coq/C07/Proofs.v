(* C07 - lemmas about the model of rotateFile / writeLoop (repaired code). *)
From HT Require Import Common.Bytes C07.Model C07.Check.
From Coq Require Import ZifyBool ZifyN ZifyNat FinFun.
Open Scope Z_scope.

(* ---- the scans ---- *)
Lemma split_last_nl_some l : forall a b,
  split_last_nl l = Some (a, b) ->
  l = a ++ NL :: b /\ forallb (fun x => negb (x =? NL)%N) b = true.
Proof.
  induction l as [|x r IH]; intros a b H; cbn [split_last_nl] in H; [discriminate|].
  destruct (split_last_nl r) as [[a' b']|] eqn:E.
  - inversion H; subst. destruct (IH a' b eq_refl) as [-> Hb]. split; [reflexivity|exact Hb].
  - destruct (x =? NL)%N eqn:Ex; [|discriminate]. inversion H; subst.
    apply N.eqb_eq in Ex; subst. split; [reflexivity|].
    clear IH H. revert E. induction b as [|y b IHb]; intros E; [reflexivity|].
    cbn [split_last_nl] in E. destruct (split_last_nl b) as [[? ?]|]; [discriminate|].
    destruct (y =? NL)%N eqn:Ey; [discriminate|]. cbn [forallb]. rewrite Ey. cbn. apply IHb. reflexivity.
Qed.

Lemma split_last_nl_none l :
  split_last_nl l = None -> forallb (fun x => negb (x =? NL)%N) l = true.
Proof.
  induction l as [|x r IH]; intros H; [reflexivity|]. cbn [split_last_nl] in H.
  destruct (split_last_nl r) as [[? ?]|]; [discriminate|].
  destruct (x =? NL)%N eqn:Ex; [discriminate|]. cbn [forallb]. rewrite Ex. cbn. apply IH. reflexivity.
Qed.

Lemma split_first_nl_some l : forall a b,
  split_first_nl l = Some (a, b) -> l = a ++ NL :: b /\ ~ In NL a.
Proof.
  induction l as [|x r IH]; intros a b H; cbn [split_first_nl] in H; [discriminate|].
  destruct (x =? NL)%N eqn:Ex.
  - inversion H; subst. apply N.eqb_eq in Ex; subst. split; [reflexivity|intros []].
  - destruct (split_first_nl r) as [[a' b']|]; [|discriminate]. inversion H; subst.
    destruct (IH a' b eq_refl) as [-> Hn]. split; [reflexivity|].
    intros [E|Hi]; [subst; rewrite N.eqb_refl in Ex; discriminate|auto].
Qed.

Lemma split_first_nl_none l : split_first_nl l = None -> ~ In NL l.
Proof.
  induction l as [|x r IH]; intros H; [intros []|]. cbn [split_first_nl] in H.
  destruct (x =? NL)%N eqn:Ex; [discriminate|].
  destruct (split_first_nl r) as [[? ?]|]; [discriminate|].
  intros [E|Hi]; [subst; rewrite N.eqb_refl in Ex; discriminate|exact (IH eq_refl Hi)].
Qed.

Lemma longer_spec p : forall k, longer p k = (k <? length p)%nat.
Proof.
  induction p as [|x r IH]; intros k; destruct k; cbn [longer length]; try reflexivity.
  rewrite IH. reflexivity.
Qed.

Lemma exceeds_spec p k : exceeds p k = (k <? zlen p).
Proof.
  unfold exceeds. pose proof (zlen_nonneg p). destruct (k <? 0) eqn:E; [lia|].
  rewrite longer_spec. unfold zlen. lia.
Qed.

(* one window scan: p[j] is always in range under the loop condition; a found newline
   splits p after at most j bytes *)
Lemma window_scan_spec p j : j < zlen p ->
  match window_scan p j with
  | SFound a rest => p = a ++ NL :: rest /\ a <> [] /\ zlen a <= j
  | SNone => True
  | SOutOfRange => False
  end.
Proof.
  intros Hj. unfold window_scan. destruct (j <=? 0) eqn:E0; [exact I|].
  assert (E1 : negb (exceeds p j) = false) by (rewrite exceeds_spec; lia). rewrite E1.
  destruct p as [|x0 p']; [unfold zlen in Hj; cbn in Hj; lia|]. cbn [firstn skipn].
  set (n := Z.to_nat j).
  destruct (split_last_nl (firstn n p')) as [[a b]|] eqn:Es; [|exact I].
  apply split_last_nl_some in Es as [Ew _].
  pose proof (firstn_skipn n p') as Hfs. pose proof (firstn_le_length n p') as Hfl.
  repeat split.
  - rewrite <- Hfs at 1. rewrite Ew. cbn [app]. rewrite <- app_assoc. reflexivity.
  - discriminate.
  - rewrite Ew, app_length in Hfl. cbn [length] in Hfl. unfold zlen. cbn [length]. lia.
Qed.

(* ---- names: rotate() always finds a name that does not exist ---- *)
Lemma ks_of_In s k d : In k (ks_of s d) <-> In (s, k) (map fst d).
Proof.
  unfold ks_of. rewrite in_flat_map, in_map_iff. split.
  - intros (e & He & H). destruct (fst (fst e) =? s)%N eqn:E; [|destruct H].
    destruct H as [H|[]]. apply N.eqb_eq in E. exists e. split; [|exact He].
    destruct e as [[a b] c]; cbn in *. congruence.
  - intros (e & He & Hi). exists e. split; [exact Hi|]. destruct e as [[a b] c]; cbn in *.
    inversion He; subst. rewrite N.eqb_refl. left. reflexivity.
Qed.

Lemma remove_one_none k l : remove_one k l = None -> ~ In k l.
Proof.
  induction l as [|x r IH]; cbn [remove_one]; [intros _ []|].
  destruct (x =? k)%N eqn:E; [discriminate|]. destruct (remove_one k r); [discriminate|].
  intros _ [H|H]; [subst; rewrite N.eqb_refl in E; discriminate|exact (IH eq_refl H)].
Qed.

Lemma remove_one_some k l : forall l', remove_one k l = Some l' ->
  In k l /\ length l = S (length l') /\ (forall x, In x l -> x = k \/ In x l') /\ (forall x, In x l' -> In x l).
Proof.
  induction l as [|x r IH]; cbn [remove_one]; intros l' H; [discriminate|].
  destruct (x =? k)%N eqn:E.
  - inversion H; subst. apply N.eqb_eq in E; subst. cbn. repeat split; auto. intros y [->|Hy]; auto.
  - destruct (remove_one k r) as [r'|] eqn:Er; [|discriminate]. inversion H; subst.
    destruct (IH r' eq_refl) as (I1 & I2 & I3 & I4). cbn [length In]. repeat split; auto.
    + intros y [->|Hy]; [right; left; reflexivity|]. destruct (I3 y Hy); auto.
    + intros y [->|Hy]; auto.
Qed.

(* invariant of the search: [cur] is [orig] with 0 .. k-1 struck off *)
Lemma mex_spec orig : forall fuel k cur,
  length cur = fuel ->
  (forall x, In x orig -> In x cur \/ (x < k)%N) -> (forall x, In x cur -> In x orig) ->
  (forall j, (j < k)%N -> In j orig) ->
  ~ In (mex fuel k cur) orig /\ (forall j, (j < mex fuel k cur)%N -> In j orig).
Proof.
  induction fuel as [|f IH]; intros k cur Hl H1 H2 H3; cbn [mex].
  - destruct cur; [|discriminate]. split; [|exact H3].
    intros Hi. destruct (H1 k Hi) as [[]|Hk]. lia.
  - destruct (remove_one k cur) as [cur'|] eqn:Er.
    + destruct (remove_one_some k cur cur' Er) as (I1 & I2 & I3 & I4).
      apply IH.
      * lia.
      * intros x Hx. destruct (H1 x Hx) as [Hc|Hk]; [|right; lia].
        destruct (I3 x Hc) as [->|Hc']; [right; lia|left; exact Hc'].
      * intros x Hx. apply H2, I4, Hx.
      * intros j Hj. destruct (N.eq_dec j k) as [->|Hne]; [apply H2, I1|apply H3; lia].
    + apply remove_one_none in Er. split; [|exact H3].
      intros Hi. destruct (H1 k Hi) as [Hc|Hk]; [exact (Er Hc)|lia].
Qed.

Lemma free_k_spec s d :
  ~ In (s, free_k s d) (map fst d) /\ (forall j, (j < free_k s d)%N -> In (s, j) (map fst d)).
Proof.
  unfold free_k. destruct (mex_spec (ks_of s d) (length (ks_of s d)) 0%N (ks_of s d) eq_refl) as [A B];
    [auto|auto|intros j Hj; lia|].
  split; [rewrite <- ks_of_In; exact A|intros j Hj; apply ks_of_In, B, Hj].
Qed.

Lemma free_k_fresh s d : ~ In (s, free_k s d) (map fst d).
Proof. apply free_k_spec. Qed.

(* ---- invariants ---- *)
(* between calls: pos is the length of the file whenever it exists *)
(* between calls: whenever there is a file at <path>, pos is its length and the descriptor
   refers to it *)
Definition rinv (st : rf) : Prop :=
  (rf_exists st = true -> rf_pos st = zlen (rf_cur st) /\ rf_fd st = FdAtPath) /\
  (rf_exists st = false -> rf_cur st = []) /\
  rf_namelen st <= 200.            (* every rotated name can be created *)

(* inside Write after the Stat/reopen step *)
Definition winv (st : rf) : Prop :=
  rf_exists st = true /\ rf_pos st = zlen (rf_cur st) /\ rf_fd st = FdAtPath /\ rf_namelen st <= 200.

Lemma dlen_le fuel : forall k, 0 <= dlen fuel k <= Z.of_nat fuel.
Proof.
  induction fuel as [|f IH]; intros k; cbn [dlen]; [lia|]. destruct (k <? 10)%N; [lia|].
  specialize (IH (k / 10)%N). lia.
Qed.

Lemma can_rotate_short s st : rf_namelen st <= 200 -> can_rotate s st = true.
Proof.
  intros H. unfold can_rotate, klen. pose proof (dlen_le 39 (free_k s (rf_rot st))).
  destruct (_ =? 0)%N; lia.
Qed.

(* Write through a descriptor that refers to the file at <path> *)
Definition putp (st : rf) (b : bytes) : rf :=
  mkRF (rf_max st) (rf_pos st) (rf_exists st) (rf_cur st ++ b)
       (rf_rot st) (rf_hist st) (rf_moved st) (rf_gone st) (rf_env st).

Lemma put_eq st b : rf_fd st = FdAtPath -> put st b = putp st b.
Proof. intros H. unfold put. rewrite H. reflexivity. Qed.

(* a file is at most max bytes long unless it is one single (unterminated) line *)
Definition fits (max : Z) (c : bytes) : Prop := zlen c <= max \/ ~ In NL c.

Definition aligned (b : bytes) : Prop := b = [] \/ exists b0, b = b0 ++ [NL].

(* a file left <path> at a line boundary: either the loop skipped the newline that ends its last
   line, or nothing was skipped and the file ends with a newline (or is empty) *)
Definition ent_fine (e : hent) : Prop :=
  h_skipped e = [NL] \/ (h_skipped e = [] /\ aligned (h_content e)).

Definition loop_kind (e : hent) : Prop :=
  h_kind e = RSplit \/ h_kind e = RFresh \/ h_kind e = RLong.

Lemma hist_stream_app a b : hist_stream (a ++ b) = hist_stream a ++ hist_stream b.
Proof. unfold hist_stream. rewrite map_app, concat_app. reflexivity. Qed.

Lemma zlen0_nil {A} (l : list A) : zlen l = 0 -> l = [].
Proof. destruct l; [reflexivity|]. unfold zlen; cbn; lia. Qed.

(* ---- one call of Write ---- *)
Record write_post (clk : nat -> N) (i : nat) (st st' : rf) (p : bytes) (hs : list hent) : Prop := {
  wp_inv : winv st';
  wp_max : rf_max st' = rf_max st;
  wp_moved : rf_moved st' = rf_moved st;
  wp_gone : rf_gone st' = rf_gone st;
  wp_hist : rf_hist st' = rf_hist st ++ hs;
  wp_rot : rf_rot st' = rf_rot st ++ hist_files hs;
  wp_stream : hist_stream hs ++ rf_cur st' = rf_cur st ++ p;
  wp_fits : fits (rf_max st) (rf_cur st) ->
            Forall (fun e => fits (rf_max st) (h_content e)) hs /\ fits (rf_max st) (rf_cur st');
  wp_fine : aligned (rf_cur st) -> Forall ent_fine hs;
  wp_kind : Forall loop_kind hs;
  wp_skip : Forall (fun e => h_skipped e = [NL] \/ (h_skipped e = [] /\ h_kind e = RFresh)) hs;
  wp_secs : map h_sec hs = map clk (seq i (length hs));
  wp_nodup : NoDup (map fst (rf_rot st)) -> NoDup (map fst (rf_rot st'));
  wp_dir : rf_dir st' = rf_dir st;
  wp_lost : rf_lost st' = rf_lost st;
  wp_name : rf_namelen st' = rf_namelen st
}.

Lemma NoDup_snoc {A} (l : list A) x : NoDup l -> ~ In x l -> NoDup (l ++ [x]).
Proof.
  induction l as [|y l IH]; intros Hn Hx; cbn; [constructor; [intros []|constructor]|].
  inversion Hn; subst. constructor.
  - rewrite in_app_iff. cbn. intros [H|[H|[]]]; [auto|subst; apply Hx; left; reflexivity].
  - apply IH; [assumption|intros H; apply Hx; right; exact H].
Qed.

Lemma rotate_nodup s sk kd st :
  NoDup (map fst (rf_rot st)) -> NoDup (map fst (rf_rot (rotate s sk kd st))).
Proof.
  intros H. cbn [rotate rf_rot]. rewrite map_app. cbn [map fst].
  apply NoDup_snoc; [exact H|apply free_k_fresh].
Qed.

Definition measure (st : rf) (p : bytes) : nat :=
  (2 * length p + (if (0 <? rf_pos st)%Z then 1 else 0))%nat.

Lemma fits_nil max : fits max [].
Proof. right. intros []. Qed.

Lemma aligned_nil : aligned [].
Proof. left. reflexivity. Qed.

(* the loop exits: final write *)
Lemma final_post clk i st p :
  winv st ->
  (rf_pos st + zlen p <= rf_max st \/ (rf_cur st = [] /\ ~ In NL p)) ->
  write_post clk i st (set_pos (putp st p) (rf_pos st + zlen p)) p [].
Proof.
  intros (Hex & Hpos & Hfd & Hnm) Hc. constructor; cbn; auto.
  - unfold winv. cbn. rewrite zlen_app. split; [exact Hex|]. split; [lia|]. split; [exact Hfd|exact Hnm].
  - rewrite app_nil_r. reflexivity.
  - rewrite app_nil_r. reflexivity.
  - intros _. split; [constructor|]. destruct Hc as [Hc|[Hc Hn]].
    + left. rewrite zlen_app. lia.
    + right. rewrite Hc. exact Hn.
Qed.

(* one iteration that rotates: [a] is appended to the file, the file is rotated, [sk] is
   skipped, the loop goes on with [p1] *)
Lemma post_cons clk i st st0 st' a sk kd p1 hs p :
  rf_max st0 = rf_max st -> rf_moved st0 = rf_moved st -> rf_gone st0 = rf_gone st ->
  rf_hist st0 = rf_hist st -> rf_rot st0 = rf_rot st -> rf_cur st0 = rf_cur st ++ a ->
  rf_dir st0 = rf_dir st -> rf_lost st0 = rf_lost st -> rf_namelen st0 = rf_namelen st ->
  p = a ++ sk ++ p1 ->
  (fits (rf_max st) (rf_cur st) -> fits (rf_max st) (rf_cur st ++ a)) ->
  (aligned (rf_cur st) -> ent_fine (mkH (clk i) (free_k (clk i) (rf_rot st)) (rf_cur st ++ a) sk kd)) ->
  (kd = RSplit \/ kd = RFresh \/ kd = RLong) ->
  (sk = [NL] \/ (sk = [] /\ kd = RFresh)) ->
  write_post clk (S i) (rotate (clk i) sk kd st0) st' p1 hs ->
  write_post clk i st st' p (mkH (clk i) (free_k (clk i) (rf_rot st)) (rf_cur st ++ a) sk kd :: hs).
Proof.
  intros Em Emv Eg Eh Er Ec Ed El En Ep Hfit Hfine Hkd Hsk Hp. destruct Hp.
  unfold rf_dir, rf_lost, rf_namelen in *.
  cbn [rotate rf_max rf_moved rf_gone rf_hist rf_rot rf_cur rf_env fd_at_path e_dir e_lost e_namelen] in *.
  unfold rf_dir, rf_lost, rf_namelen in *.
  rewrite Em, ?Emv, ?Eg, ?Eh, ?Er, ?Ec in *.
  constructor.
  - exact wp_inv0.
  - exact wp_max0.
  - exact wp_moved0.
  - exact wp_gone0.
  - rewrite wp_hist0, <- app_assoc. reflexivity.
  - rewrite wp_rot0, <- app_assoc. reflexivity.
  - unfold hist_stream in *. cbn [map concat h_content h_skipped].
    rewrite <- !app_assoc. rewrite wp_stream0. cbn [app]. rewrite Ep. reflexivity.
  - intros Hf. destruct (wp_fits0 (fits_nil _)) as [F1 F2]. split; [|exact F2].
    constructor; [apply Hfit, Hf|exact F1].
  - intros Ha. constructor; [apply Hfine, Ha|apply wp_fine0, aligned_nil].
  - constructor; [exact Hkd|exact wp_kind0].
  - constructor; [exact Hsk|exact wp_skip0].
  - cbn [map length seq h_sec]. rewrite wp_secs0. reflexivity.
  - intros Hn. apply wp_nodup0. rewrite map_app. cbn [map fst].
    apply NoDup_snoc; [exact Hn|apply free_k_fresh].
  - unfold rf_dir. rewrite wp_dir0. exact Ed.
  - unfold rf_lost. rewrite wp_lost0. exact El.
  - unfold rf_namelen. rewrite wp_name0. exact En.
Qed.

Lemma write_loop_ok clk : forall fuel i st p w,
  winv st -> (measure st p < fuel)%nat ->
  exists st' hs, write_loop fuel clk i st p w = WOk st' (w + zlen p) /\ write_post clk i st st' p hs.
Proof.
  induction fuel as [|f IH]; intros i st p w Hinv Hf; [lia|].
  pose proof Hinv as (Hex & Hpos & Hfd & Hnm).
  assert (Hop : fd_open st = true) by (unfold fd_open; rewrite Hfd; reflexivity).
  cbn [write_loop]. rewrite ?Hop, ?(can_rotate_short (clk i) st Hnm). cbn [negb].
  destruct (exceeds p (rf_max st - rf_pos st)) eqn:Hc; rewrite exceeds_spec in Hc.
  2:{ eexists. exists []. split; [reflexivity|]. rewrite (put_eq st p Hfd). apply final_post; [exact Hinv|left; lia]. }
  pose proof (window_scan_spec p (rf_max st - rf_pos st) ltac:(lia)) as Hs.
  unfold measure in Hf.
  destruct (window_scan p (rf_max st - rf_pos st)) as [a rest| |]; [| |contradiction].
  - (* a newline inside the window *)
    destruct Hs as (Hp & Hne & Hle).
    assert (Hlen : length p = (length a + 1 + length rest)%nat)
      by (rewrite Hp, app_length; cbn [length]; lia).
    rewrite (put_eq st a Hfd).
    set (st1 := rotate (clk i) [NL] RSplit (putp st a)).
    destruct (IH (S i) st1 rest (w + zlen a + 1)) as (st' & hs & Hr & Hpost).
    { unfold winv, st1. cbn. auto. }
    { unfold measure, st1. cbn [rotate rf_pos]. cbn. lia. }
    exists st'. eexists. split.
    + rewrite Hr. f_equal. unfold zlen. lia.
    + apply (post_cons clk i st (putp st a) st' a [NL] RSplit rest hs p);
        [reflexivity|reflexivity|reflexivity|reflexivity|reflexivity|reflexivity|reflexivity|reflexivity|reflexivity|exact Hp
        |intros _; left; rewrite zlen_app; lia|intros _; left; reflexivity|auto|auto|exact Hpost].
  - destruct (0 <? rf_pos st) eqn:Ep.
    + (* no newline inside the window, the file is not empty: fresh file, nothing skipped *)
      set (st1 := rotate (clk i) [] RFresh st).
      destruct (IH (S i) st1 p w) as (st' & hs & Hr & Hpost).
      { unfold winv, st1. cbn. auto. }
      { unfold measure, st1. cbn [rotate rf_pos]. cbn. lia. }
      exists st'. eexists. split; [exact Hr|].
      pose proof (post_cons clk i st st st' [] [] RFresh p hs p) as PC. rewrite app_nil_r in PC.
      apply PC; [reflexivity|reflexivity|reflexivity|reflexivity|reflexivity|reflexivity|reflexivity|reflexivity|reflexivity|reflexivity
                |auto|intros Ha; right; split; [reflexivity|exact Ha]|auto|auto|exact Hpost].
    + (* empty file *)
      assert (Hcur : rf_cur st = []) by (apply zlen0_nil; pose proof (zlen_nonneg (rf_cur st)); lia).
      destruct (split_first_nl p) as [[a b]|] eqn:Ef.
      * apply split_first_nl_some in Ef as [Hp Hn].
        assert (Hlen : length p = (length a + 1 + length b)%nat)
          by (rewrite Hp, app_length; cbn [length]; lia).
        rewrite (put_eq st a Hfd).
        set (st1 := rotate (clk i) [NL] RLong (putp st a)).
        destruct (IH (S i) st1 b (w + zlen a + 1)) as (st' & hs & Hr & Hpost).
        { unfold winv, st1. cbn. auto. }
        { unfold measure, st1. cbn [rotate rf_pos]. cbn. lia. }
        exists st'. eexists. split.
        -- rewrite Hr. f_equal. unfold zlen. lia.
        -- apply (post_cons clk i st (putp st a) st' a [NL] RLong b hs p);
             [reflexivity|reflexivity|reflexivity|reflexivity|reflexivity|reflexivity|reflexivity|reflexivity|reflexivity|exact Hp
             |intros _; right; rewrite Hcur; exact Hn|intros _; left; reflexivity|auto|auto|exact Hpost].
      * apply split_first_nl_none in Ef.
        eexists. exists []. split; [reflexivity|]. rewrite (put_eq st p Hfd). apply final_post; [exact Hinv|right; auto].
Qed.

Definition after_stat (st : rf) : rf := if rf_exists st then st else reopen st.

Lemma after_stat_winv st : rinv st -> winv (after_stat st) /\ rf_cur (after_stat st) = rf_cur st.
Proof.
  intros (H1 & H2 & H3). unfold after_stat, winv. destruct (rf_exists st) eqn:E.
  - split; [|reflexivity]. rewrite E. destruct (H1 eq_refl). auto.
  - cbn. rewrite (H2 eq_refl). auto.
Qed.

Lemma winv_rinv st : winv st -> rinv st.
Proof. intros (H1 & H2 & H3 & H4). unfold rinv. rewrite H1. repeat split; auto; discriminate. Qed.

Lemma after_stat_fields st :
  rf_max (after_stat st) = rf_max st /\ rf_moved (after_stat st) = rf_moved st /\
  rf_gone (after_stat st) = rf_gone st /\ rf_hist (after_stat st) = rf_hist st /\
  rf_rot (after_stat st) = rf_rot st /\ rf_dir (after_stat st) = rf_dir st /\
  rf_lost (after_stat st) = rf_lost st.
Proof. unfold after_stat. destruct (rf_exists st); cbn; repeat split; auto. Qed.

(* destination reachable: Write succeeds *)
Lemma rf_write_ok clk st p :
  rinv st -> rf_dir st = true ->
  exists st' hs, rf_write clk st p = WOk st' (zlen p) /\ write_post clk 0 (after_stat st) st' p hs.
Proof.
  intros Hinv Hd. destruct (after_stat_winv st Hinv) as [Hw _].
  destruct (write_loop_ok clk (S (S (2 * length p))) 0%nat (after_stat st) p 0 Hw) as (st' & hs & Hr & Hp).
  { unfold measure. destruct (0 <? _); lia. }
  exists st', hs. split; [|exact Hp]. unfold rf_write. rewrite Hd. fold (after_stat st). rewrite Hr. reflexivity.
Qed.

(* destination unreachable: Stat and reopen fail, the error is returned, nothing changes - in
   particular the descriptor and the position are kept for when the destination is back *)
Lemma rf_write_err clk st p : rf_dir st = false -> rf_write clk st p = WErr st.
Proof. intros H. unfold rf_write. rewrite H. reflexivity. Qed.

(* ---- whole histories ---- *)
Definition hist_moved (h : list hent) : list bytes := map h_content (filter is_moved h).
Definition hist_gone (h : list hent) : list bytes := map h_content (filter is_gone h).
Definition hist_rot (h : list hent) : list (rname * bytes) := hist_files (filter is_rot h).

Record ginv (st : rf) : Prop := {
  g_rinv : rinv st;
  g_rot : rf_rot st = hist_rot (rf_hist st);
  g_moved : rf_moved st = hist_moved (rf_hist st);
  g_gone : rf_gone st = hist_gone (rf_hist st);
  g_nodup : NoDup (map fst (rf_rot st));
  g_lost : rf_lost st = []          (* nothing was ever written through a stale descriptor *)
}.

Lemma loop_kind_filters hs : Forall loop_kind hs ->
  filter is_rot hs = hs /\ filter is_moved hs = [] /\ filter is_gone hs = [].
Proof.
  induction 1 as [|e hs He _ (I1 & I2 & I3)]; [auto|]. cbn [filter].
  unfold is_rot, is_moved, is_gone in *.
  destruct He as [E|[E|E]]; rewrite E; rewrite I1, I2, I3; auto.
Qed.

Lemma ginv_write clk st p :
  ginv st -> rf_dir st = true ->
  exists st' hs, rf_write clk st p = WOk st' (zlen p) /\ ginv st' /\ rf_dir st' = true /\
                 write_post clk 0 (after_stat st) st' p hs.
Proof.
  intros G Hd. destruct (rf_write_ok clk st p (g_rinv _ G) Hd) as (st' & hs & Hr & Hp).
  exists st', hs. split; [exact Hr|].
  destruct (after_stat_fields st) as (F1 & F2 & F3 & F4 & F5 & F6 & F7).
  assert (Hd' : rf_dir st' = true) by (rewrite (wp_dir _ _ _ _ _ _ Hp), F6; exact Hd).
  split; [|split; [exact Hd'|exact Hp]].
  destruct Hp.
  destruct (loop_kind_filters hs wp_kind0) as (K1 & K2 & K3).
  constructor.
  - apply winv_rinv. exact wp_inv0.
  - rewrite wp_rot0, wp_hist0, F5, F4. unfold hist_rot, hist_files. rewrite filter_app, map_app, K1.
    rewrite (g_rot _ G). reflexivity.
  - rewrite wp_moved0, wp_hist0, F2, F4. unfold hist_moved. rewrite filter_app, map_app, K2, app_nil_r. apply G.
  - rewrite wp_gone0, wp_hist0, F3, F4. unfold hist_gone. rewrite filter_app, map_app, K3, app_nil_r. apply G.
  - apply wp_nodup0. rewrite F5. apply G.
  - rewrite wp_lost0, F7. apply G.
Qed.

Lemma reopen_ginv s st :
  rf_rot st = hist_rot (rf_hist st) -> rf_moved st = hist_moved (rf_hist st) ->
  rf_gone st = hist_gone (rf_hist st) -> NoDup (map fst (rf_rot st)) -> rf_lost st = [] ->
  rf_namelen st <= 200 ->
  ginv (rf_reopen s st).
Proof.
  intros Gr Gm Gg Gn Gl Gk. unfold rf_reopen. cbn [rf_pos rf_max].
  destruct (zlen (rf_cur st) <? rf_max st) eqn:E.
  - constructor; cbn; auto. unfold rinv; cbn. repeat split; auto; discriminate.
  - rewrite can_rotate_short by exact Gk. constructor.
    + unfold rinv; cbn. repeat split; auto; discriminate.
    + cbn [rotate rf_rot rf_hist rf_cur]. unfold hist_rot, hist_files. rewrite filter_app, map_app. cbn. rewrite Gr. reflexivity.
    + cbn [rotate rf_moved rf_hist rf_cur]. unfold hist_moved. rewrite filter_app, map_app. cbn. rewrite app_nil_r. exact Gm.
    + cbn [rotate rf_gone rf_hist rf_cur]. unfold hist_gone. rewrite filter_app, map_app. cbn. rewrite app_nil_r. exact Gg.
    + apply rotate_nodup. exact Gn.
    + cbn. exact Gl.
Qed.

Lemma ginv_name st : ginv st -> rf_namelen st <= 200.
Proof. intros G. apply (g_rinv _ G). Qed.

Lemma ginv_reopen s st : ginv st -> ginv (rf_reopen s st).
Proof. intros G. apply reopen_ginv; apply G. Qed.

Lemma ginv_restart s st : ginv st -> ginv (ext_restart s st).
Proof. intros G. unfold ext_restart. destruct (rf_dir st); [apply ginv_reopen, G|exact G]. Qed.

Lemma ginv_remove st : ginv st -> ginv (ext_remove st).
Proof.
  intros G. unfold ext_remove. destruct (rf_dir st && rf_exists st) eqn:E; [|exact G].
  constructor; cbn [rf_rot rf_moved rf_gone rf_hist]; try apply G.
  - pose proof (ginv_name st G). unfold rinv; cbn. repeat split; auto; discriminate.
  - unfold hist_rot. rewrite filter_app. cbn. rewrite app_nil_r. apply G.
  - unfold hist_moved. rewrite filter_app. cbn. rewrite app_nil_r. apply G.
  - unfold hist_gone. rewrite filter_app, map_app. cbn. f_equal. apply G.
Qed.

Lemma ginv_move st : ginv st -> ginv (ext_move st).
Proof.
  intros G. unfold ext_move. destruct (rf_dir st && rf_exists st) eqn:E; [|exact G].
  constructor; cbn [rf_rot rf_moved rf_gone rf_hist]; try apply G.
  - pose proof (ginv_name st G). unfold rinv; cbn. repeat split; auto; discriminate.
  - unfold hist_rot. rewrite filter_app. cbn. rewrite app_nil_r. apply G.
  - unfold hist_moved. rewrite filter_app, map_app. cbn. f_equal. apply G.
  - unfold hist_gone. rewrite filter_app. cbn. rewrite app_nil_r. apply G.
Qed.

Lemma ginv_dir b st : ginv st -> ginv (ext_dir b st).
Proof.
  intros G. constructor; apply G.
Qed.

Lemma ginv_open_env n max s init : n <= 200 -> ginv (rf_open_env n max s init).
Proof. intros Hn. unfold rf_open_env. apply reopen_ginv; cbn; auto. constructor. Qed.

Lemma ginv_open max s init : ginv (rf_open max s init).
Proof. apply ginv_open_env. lia. Qed.

(* what each Write returns: len p while the destination is reachable, an error otherwise *)
Fixpoint written_lens (d : bool) (ops : list op) : list (option Z) :=
  match ops with
  | [] => []
  | OWrite _ p :: r => (if d then Some (zlen p) else None) :: written_lens d r
  | ODirAway :: r => written_lens false r
  | ODirBack :: r => written_lens true r
  | _ :: r => written_lens d r
  end.

Lemma dir_remove st : rf_dir (ext_remove st) = rf_dir st.
Proof. unfold ext_remove. destruct (rf_dir st && rf_exists st); reflexivity. Qed.
Lemma dir_move st : rf_dir (ext_move st) = rf_dir st.
Proof. unfold ext_move. destruct (rf_dir st && rf_exists st); reflexivity. Qed.
Lemma dir_reopen s st : rf_dir (rf_reopen s st) = rf_dir st.
Proof. unfold rf_reopen. cbn [rf_pos rf_max]. destruct (_ <? _); [|destruct (can_rotate _ _)]; reflexivity. Qed.
Lemma dir_restart s st : rf_dir (ext_restart s st) = rf_dir st.
Proof. unfold ext_restart. destruct (rf_dir st) eqn:E; [rewrite dir_reopen|]; exact E. Qed.

(* Write never panics and never runs out of fuel; it reports len(p) exactly while the
   destination is reachable; the invariant is kept *)
Lemma run_total : forall ops st rets,
  ginv st -> exists st', run st rets ops = Some (st', rets ++ written_lens (rf_dir st) ops) /\ ginv st'.
Proof.
  induction ops as [|o r IH]; intros st rets G; cbn [run written_lens].
  - exists st. rewrite app_nil_r. auto.
  - destruct o as [clk p| | |s| |].
    + destruct (rf_dir st) eqn:Hd.
      * destruct (ginv_write clk st p G Hd) as (st' & hs & Hr & G' & Hd' & _). rewrite Hr.
        destruct (IH st' (rets ++ [Some (zlen p)]) G') as (st'' & Hrun & G'').
        exists st''. rewrite Hrun, Hd', <- app_assoc. auto.
      * rewrite (rf_write_err clk st p Hd).
        destruct (IH st (rets ++ [None]) G) as (st'' & Hrun & G'').
        exists st''. rewrite Hrun, Hd, <- app_assoc. auto.
    + rewrite <- (dir_remove st). apply IH, ginv_remove, G.
    + rewrite <- (dir_move st). apply IH, ginv_move, G.
    + rewrite <- (dir_restart s st). apply IH, ginv_restart, G.
    + apply (IH (ext_dir false st)), ginv_dir, G.
    + apply (IH (ext_dir true st)), ginv_dir, G.
Qed.

(* a generic way to carry a state predicate through a history; W constrains the batches written
   while the destination is reachable *)
Fixpoint writes_all (W : bytes -> Prop) (d : bool) (ops : list op) : Prop :=
  match ops with
  | [] => True
  | OWrite _ p :: r => (d = true -> W p) /\ writes_all W d r
  | ODirAway :: r => writes_all W false r
  | ODirBack :: r => writes_all W true r
  | _ :: r => writes_all W d r
  end.

Lemma run_preserves (P : rf -> Prop) (W : bytes -> Prop) :
  (forall clk p st st' hs, W p -> ginv st -> rf_dir st = true -> P st ->
      write_post clk 0 (after_stat st) st' p hs -> P st') ->
  (forall st, ginv st -> P st -> P (ext_remove st)) ->
  (forall st, ginv st -> P st -> P (ext_move st)) ->
  (forall s st, ginv st -> P st -> P (rf_reopen s st)) ->
  (forall b st, ginv st -> P st -> P (ext_dir b st)) ->
  forall ops st rets st' rets',
    writes_all W (rf_dir st) ops -> ginv st -> P st -> run st rets ops = Some (st', rets') -> P st'.
Proof.
  intros Hw Hr Hm Ho Hdir. induction ops as [|o r IH]; intros st rets st' rets' HQ G HP H; cbn [run writes_all] in *.
  - inversion H; subst. exact HP.
  - destruct o as [clk p| | |s| |].
    + destruct HQ as [Wp HQ]. destruct (rf_dir st) eqn:Hd.
      * destruct (ginv_write clk st p G Hd) as (st1 & hs & Hrw & G1 & Hd1 & Hpost). rewrite Hrw in H.
        rewrite <- Hd1 in HQ.
        exact (IH st1 _ _ _ HQ G1 (Hw clk p st st1 hs (Wp eq_refl) G Hd HP Hpost) H).
      * rewrite (rf_write_err clk st p Hd) in H. rewrite <- Hd in HQ. exact (IH st _ _ _ HQ G HP H).
    + rewrite <- (dir_remove st) in HQ. exact (IH _ _ _ _ HQ (ginv_remove st G) (Hr st G HP) H).
    + rewrite <- (dir_move st) in HQ. exact (IH _ _ _ _ HQ (ginv_move st G) (Hm st G HP) H).
    + rewrite <- (dir_restart s st) in HQ. refine (IH _ _ _ _ HQ (ginv_restart s st G) _ H).
      unfold ext_restart. destruct (rf_dir st); [apply Ho; assumption|exact HP].
    + exact (IH (ext_dir false st) _ _ _ HQ (ginv_dir false st G) (Hdir false st G HP) H).
    + exact (IH (ext_dir true st) _ _ _ HQ (ginv_dir true st G) (Hdir true st G HP) H).
Qed.

(* ---- lines ---- *)
Lemma lines_of_nil_inv b : lines_of b = [] -> b = [].
Proof.
  destruct b as [|x r]; [reflexivity|]. cbn [lines_of].
  destruct (x =? NL)%N; [discriminate|]. destruct (lines_of r); discriminate.
Qed.

(* a newline ends a line whatever follows *)
Lemma lines_of_cut c : forall r, lines_of (c ++ NL :: r) = lines_of (c ++ [NL]) ++ lines_of r.
Proof.
  induction c as [|x c IH]; intros r; [reflexivity|]. cbn [app lines_of].
  destruct (x =? NL)%N; [rewrite IH; reflexivity|]. rewrite IH.
  destruct (lines_of (c ++ [NL])) as [|l ls] eqn:E; [|reflexivity].
  apply lines_of_nil_inv in E. destruct c; discriminate.
Qed.

(* a file whose last line lacks the terminator has the same lines *)
Lemma lines_of_unterminated c : c <> [] -> last c 0%N <> NL -> lines_of (c ++ [NL]) = lines_of c.
Proof.
  induction c as [|x c IH]; intros Hne Hl; [congruence|]. destruct c as [|y c].
  - cbn in Hl. cbn [app lines_of]. destruct (x =? NL)%N eqn:E; [apply N.eqb_eq in E; congruence|]. reflexivity.
  - assert (IH' : lines_of ((y :: c) ++ [NL]) = lines_of (y :: c)) by (apply IH; [discriminate|exact Hl]).
    change ((x :: y :: c) ++ [NL]) with (x :: ((y :: c) ++ [NL])).
    cbn [lines_of]. cbn [lines_of] in IH'. rewrite IH'. reflexivity.
Qed.

(* every newline is preceded by a byte that is not a newline: no empty lines *)
Definition no_blank (t : bytes) : Prop :=
  forall a b, t = a ++ NL :: b -> a <> [] /\ last a 0%N <> NL.

Lemma last_app_cons (a : bytes) x b d : last (a ++ x :: b) d = last (x :: b) d.
Proof.
  induction a as [|y a IH]; [reflexivity|]. cbn [app]. 
  change (last (y :: a ++ x :: b) d) with (match a ++ x :: b with [] => y | _ => last (a ++ x :: b) d end).
  destruct (a ++ x :: b) eqn:E; [destruct a; discriminate|]. exact IH.
Qed.

Lemma no_blank_tail c t : no_blank (c ++ NL :: t) -> no_blank t.
Proof.
  intros H a b E. specialize (H (c ++ NL :: a) b). rewrite E, <- app_assoc in H. specialize (H eq_refl).
  destruct H as [_ H]. destruct a as [|y a].
  - exfalso. apply H. rewrite last_app_cons. reflexivity.
  - split; [discriminate|]. rewrite last_app_cons in H.
    change (last (NL :: y :: a) 0%N) with (last (y :: a) 0%N) in H. exact H.
Qed.

Lemma lines_of_history hs : forall cur t,
  hist_stream hs ++ cur = t -> no_blank t -> Forall ent_fine hs ->
  flat_map (fun e => lines_of (h_content e)) hs ++ lines_of cur = lines_of t.
Proof.
  induction hs as [|e hs IH]; intros cur t E Hb Hf; [cbn in *; subst; reflexivity|].
  inversion Hf as [|? ? He Hf']; subst. unfold hist_stream in *. cbn [map concat flat_map] in *.
  rewrite <- !app_assoc in *. destruct He as [Hs|[Hs [Hc|[c0 Hc]]]]; rewrite Hs in *; cbn [app] in *.
  - destruct (Hb _ _ eq_refl) as [Hne Hl].
    rewrite lines_of_cut, lines_of_unterminated by assumption. f_equal.
    apply IH; [reflexivity| |exact Hf']. eapply no_blank_tail, Hb.
  - rewrite Hc in *. cbn [app lines_of] in *. apply IH; auto.
  - rewrite Hc in *. rewrite <- !app_assoc in *. cbn [app] in *.
    match goal with |- _ = lines_of (c0 ++ NL :: ?r) => rewrite (lines_of_cut c0 r) end.
    f_equal. apply IH; [reflexivity| |exact Hf']. eapply no_blank_tail, Hb.
Qed.

(* executable forms of the hypotheses *)
Fixpoint nb (prev_nl : bool) (t : bytes) : bool :=
  match t with
  | [] => true
  | x :: r => if (x =? NL)%N then negb prev_nl && nb true r else nb false r
  end.
Definition no_blank_b (t : bytes) : bool := nb true t.

Definition aligned_b (b : bytes) : bool :=
  match b with [] => true | _ => (last b 0 =? NL)%N end.

Lemma nb_sound t : forall q a b, nb q t = true -> t = a ++ NL :: b ->
  (a = [] -> q = false) /\ (a <> [] -> last a 0%N <> NL).
Proof.
  induction t as [|x r IH]; intros q a b H E; [destruct a; discriminate|].
  cbn [nb] in H. destruct a as [|y a]; cbn [app] in E; inversion E; subst.
  - rewrite N.eqb_refl in H. apply andb_true_iff in H as [H _]. split; [intros _; destruct q; [discriminate|reflexivity]|congruence].
  - split; [discriminate|]. intros _.
    destruct (y =? NL)%N eqn:Ey.
    + apply andb_true_iff in H as [_ H]. destruct (IH true a b H eq_refl) as [H1 H2].
      destruct a as [|z a]; [specialize (H1 eq_refl); discriminate|].
      change (last (y :: z :: a) 0%N) with (last (z :: a) 0%N). apply H2. discriminate.
    + destruct (IH false a b H eq_refl) as [H1 H2].
      destruct a as [|z a]; [cbn; apply N.eqb_neq, Ey|].
      change (last (y :: z :: a) 0%N) with (last (z :: a) 0%N). apply H2. discriminate.
Qed.

Lemma no_blank_b_sound t : no_blank_b t = true -> no_blank t.
Proof.
  intros H a b E. destruct (nb_sound t true a b H E) as [H1 H2].
  assert (a <> []) by (intros ->; specialize (H1 eq_refl); discriminate). auto.
Qed.

Lemma aligned_b_sound b : aligned_b b = true -> aligned b.
Proof.
  unfold aligned_b, aligned. destruct b as [|x r]; [auto|]. intros H. right.
  destruct (@exists_last _ (x :: r)) as (b0 & z & E); [discriminate|]. rewrite E in *.
  rewrite last_last in H. apply N.eqb_eq in H. subst. eauto.
Qed.

Lemma aligned_suffix a b : aligned (a ++ b) -> aligned b.
Proof.
  intros [H|[c H]]; [apply app_eq_nil in H as [_ ->]; left; reflexivity|].
  destruct b as [|x r]; [left; reflexivity|]. right.
  destruct (@exists_last _ (x :: r)) as (b0 & z & E); [discriminate|]. rewrite E in *.
  rewrite app_assoc in H. apply app_inj_tail in H as [_ ->]. eauto.
Qed.

Lemma aligned_app a b : aligned a -> aligned b -> aligned (a ++ b).
Proof.
  intros Ha [->|[b0 ->]]; [rewrite app_nil_r; exact Ha|]. right. exists (a ++ b0). rewrite app_assoc. reflexivity.
Qed.


(* ---- byte accounting: every byte handed to Write while the destination is reachable is in a
   file, except the newlines skipped ---- *)
Definition stream_of (st : rf) : bytes := hist_stream (rf_hist st) ++ rf_cur st.

Lemma write_stream clk st st' p hs :
  ginv st -> write_post clk 0 (after_stat st) st' p hs -> stream_of st' = stream_of st ++ p.
Proof.
  intros G Hp. unfold stream_of.
  destruct (after_stat_winv st (g_rinv _ G)) as [_ Ec].
  destruct (after_stat_fields st) as (_ & _ & _ & Eh & _). destruct Hp.
  rewrite wp_hist0, Eh, hist_stream_app, <- !app_assoc. f_equal. rewrite wp_stream0, Ec. reflexivity.
Qed.

Lemma stream_remove st : stream_of (ext_remove st) = stream_of st.
Proof.
  unfold ext_remove, stream_of. destruct (rf_dir st && rf_exists st); [|reflexivity].
  cbn [rf_hist rf_cur]. rewrite hist_stream_app. unfold hist_stream at 2. cbn. rewrite !app_nil_r. reflexivity.
Qed.

Lemma stream_move st : stream_of (ext_move st) = stream_of st.
Proof.
  unfold ext_move, stream_of. destruct (rf_dir st && rf_exists st); [|reflexivity].
  cbn [rf_hist rf_cur]. rewrite hist_stream_app. unfold hist_stream at 2. cbn. rewrite !app_nil_r. reflexivity.
Qed.

Lemma stream_reopen s st : stream_of (rf_reopen s st) = stream_of st.
Proof.
  unfold rf_reopen, stream_of. cbn [rf_pos rf_max]. destruct (_ <? _); [reflexivity|].
  destruct (can_rotate _ _); [|reflexivity]. cbn [rf_hist rf_cur rotate].
  rewrite hist_stream_app. unfold hist_stream at 2. cbn. rewrite !app_nil_r. reflexivity.
Qed.

Lemma stream_restart s st : stream_of (ext_restart s st) = stream_of st.
Proof. unfold ext_restart. destruct (rf_dir st); [apply stream_reopen|reflexivity]. Qed.

Lemma run_stream : forall ops st rets st' rets',
  ginv st -> run st rets ops = Some (st', rets') ->
  stream_of st' = stream_of st ++ accepted (rf_dir st) ops.
Proof.
  induction ops as [|o r IH]; intros st rets st' rets' G H; cbn [run accepted] in *.
  - inversion H; subst. rewrite app_nil_r. reflexivity.
  - destruct o as [clk p| | |s| |].
    + destruct (rf_dir st) eqn:Hd.
      * destruct (ginv_write clk st p G Hd) as (st1 & hs & Hr & G1 & Hd1 & Hp). rewrite Hr in H.
        rewrite (IH st1 _ _ _ G1 H), (write_stream clk st st1 p hs G Hp), Hd1, <- app_assoc. reflexivity.
      * rewrite (rf_write_err clk st p Hd) in H. rewrite (IH st _ _ _ G H), Hd. reflexivity.
    + rewrite (IH _ _ _ _ (ginv_remove st G) H), stream_remove, dir_remove. reflexivity.
    + rewrite (IH _ _ _ _ (ginv_move st G) H), stream_move, dir_move. reflexivity.
    + rewrite (IH _ _ _ _ (ginv_restart s st G) H), stream_restart, dir_restart. reflexivity.
    + rewrite (IH _ _ _ _ (ginv_dir false st G) H). reflexivity.
    + rewrite (IH _ _ _ _ (ginv_dir true st G) H). reflexivity.
Qed.

Lemma open_stream max s init : stream_of (rf_open max s init) = init.
Proof.
  unfold rf_open, rf_open_env. rewrite stream_reopen. unfold stream_of, hist_stream. reflexivity.
Qed.

Lemma open_dir max s init : rf_dir (rf_open max s init) = true.
Proof. unfold rf_open, rf_open_env. rewrite dir_reopen. reflexivity. Qed.

Lemma bytes_accounted max s init ops st rets :
  run (rf_open max s init) [] ops = Some (st, rets) ->
  hist_stream (rf_hist st) ++ rf_cur st = init ++ written_of ops.
Proof.
  intros H. pose proof (run_stream ops _ _ _ _ (ginv_open max s init) H) as E.
  rewrite open_stream, open_dir in E. exact E.
Qed.

(* ---- every file left <path> at a line boundary ---- *)
Definition fine_state (st : rf) : Prop := aligned (rf_cur st) /\ Forall ent_fine (rf_hist st).

Lemma fine_reopen s st : fine_state st -> fine_state (rf_reopen s st).
Proof.
  intros [Ha Hf]. unfold rf_reopen, fine_state. cbn [rf_pos rf_max]. destruct (_ <? _); cbn; [auto|].
  destruct (can_rotate _ _); cbn; [|auto].
  split; [apply aligned_nil|]. apply Forall_app. split; [exact Hf|]. constructor; [right; auto|constructor].
Qed.

Lemma fine_write clk st st' p hs :
  aligned p -> ginv st -> fine_state st -> write_post clk 0 (after_stat st) st' p hs -> fine_state st'.
Proof.
  intros Wp G [Ha Hf] Hp.
  destruct (after_stat_winv st (g_rinv _ G)) as [_ Ec].
  destruct (after_stat_fields st) as (_ & _ & _ & Eh & _). destruct Hp.
  rewrite Ec in *. rewrite Eh in *. split.
  - apply (aligned_suffix (hist_stream hs)). rewrite wp_stream0. apply aligned_app; assumption.
  - rewrite wp_hist0. apply Forall_app. split; [exact Hf|apply wp_fine0, Ha].
Qed.

Lemma fine_remove st : fine_state st -> fine_state (ext_remove st).
Proof.
  intros [Ha Hf]. unfold ext_remove, fine_state. destruct (rf_dir st && rf_exists st); cbn; [|auto].
  split; [apply aligned_nil|]. apply Forall_app. split; [exact Hf|]. constructor; [right; auto|constructor].
Qed.

Lemma fine_move st : fine_state st -> fine_state (ext_move st).
Proof.
  intros [Ha Hf]. unfold ext_move, fine_state. destruct (rf_dir st && rf_exists st); cbn; [|auto].
  split; [apply aligned_nil|]. apply Forall_app. split; [exact Hf|]. constructor; [right; auto|constructor].
Qed.

Lemma run_fine : forall ops st rets st' rets',
  writes_all aligned (rf_dir st) ops -> ginv st -> fine_state st ->
  run st rets ops = Some (st', rets') -> fine_state st'.
Proof.
  apply (run_preserves fine_state aligned).
  - intros clk p st st' hs Wp G _ F Hp. eapply fine_write; eauto.
  - intros st _. apply fine_remove.
  - intros st _. apply fine_move.
  - intros s st _. apply fine_reopen.
  - intros b st _ F. exact F.
Qed.

(* the batches written while the destination is reachable end with a newline *)
Fixpoint writes_aligned (d : bool) (ops : list op) : bool :=
  match ops with
  | [] => true
  | OWrite _ p :: r => (if d then aligned_b p else true) && writes_aligned d r
  | ODirAway :: r => writes_aligned false r
  | ODirBack :: r => writes_aligned true r
  | _ :: r => writes_aligned d r
  end.

Lemma writes_aligned_all ops : forall d, writes_aligned d ops = true -> writes_all aligned d ops.
Proof.
  induction ops as [|o r IH]; intros d; cbn; [auto|]. destruct o; auto.
  intros H. apply andb_true_iff in H as [H1 H2]. split; [|auto].
  intros ->. apply aligned_b_sound, H1.
Qed.

(* ---- the size bound ---- *)
Definition fits_state (max : Z) (st : rf) : Prop :=
  rf_max st = max /\ fits max (rf_cur st) /\ Forall (fun e => fits max (h_content e)) (rf_hist st).

Lemma run_fits max : forall ops st rets st' rets',
  writes_all (fun _ => True) (rf_dir st) ops -> ginv st -> fits_state max st ->
  run st rets ops = Some (st', rets') -> fits_state max st'.
Proof.
  apply (run_preserves (fits_state max) (fun _ => True)).
  - intros clk p st st' hs _ G _ (Hm & Hc & Hh) Hp.
    destruct (after_stat_winv st (g_rinv _ G)) as [_ Ec].
    destruct (after_stat_fields st) as (Em & _ & _ & Eh & _). destruct Hp.
    rewrite Ec, Em, Hm in *. rewrite Eh in *. destruct (wp_fits0 Hc) as [F1 F2].
    split; [congruence|]. split; [exact F2|]. rewrite wp_hist0. apply Forall_app. auto.
  - intros st G (Hm & Hc & Hh). unfold ext_remove, fits_state. destruct (rf_dir st && rf_exists st); cbn; [|auto].
    split; [exact Hm|]. split; [apply fits_nil|]. apply Forall_app. split; [exact Hh|]. constructor; [exact Hc|constructor].
  - intros st G (Hm & Hc & Hh). unfold ext_move, fits_state. destruct (rf_dir st && rf_exists st); cbn; [|auto].
    split; [exact Hm|]. split; [apply fits_nil|]. apply Forall_app. split; [exact Hh|]. constructor; [exact Hc|constructor].
  - intros s st G (Hm & Hc & Hh). unfold rf_reopen, fits_state. cbn [rf_pos rf_max]. destruct (_ <? _); cbn; [auto|].
    destruct (can_rotate _ _); cbn; [|auto].
    split; [exact Hm|]. split; [apply fits_nil|]. apply Forall_app. split; [exact Hh|]. constructor; [exact Hc|constructor].
  - intros b st _ F. exact F.
Qed.

Lemma writes_all_true ops : forall d, writes_all (fun _ => True) d ops.
Proof. induction ops as [|o r IH]; intros d; cbn; [auto|]. destruct o; auto. Qed.

Lemma in_hist_files x hs : In x (hist_files hs) -> exists e, In e hs /\ snd x = h_content e.
Proof. unfold hist_files. intros H. apply in_map_iff in H as (e & <- & He). eauto. Qed.

Lemma size_bound max s init ops st rets :
  fits max init ->
  run (rf_open max s init) [] ops = Some (st, rets) ->
  fits max (rf_cur st) /\
  (forall x, In x (rf_rot st) -> fits max (snd x)) /\
  Forall (fits max) (rf_moved st) /\
  Forall (fits max) (rf_gone st).
Proof.
  intros Hi H.
  destruct (run_total ops _ [] (ginv_open max s init)) as (st' & Hrun & G).
  rewrite H in Hrun. inversion Hrun; subst st'. clear Hrun.
  assert (F0 : fits_state max (rf_open max s init)).
  { unfold rf_open, rf_open_env, rf_reopen, fits_state. cbn [rf_pos rf_max rf_cur]. destruct (_ <? _); cbn; [auto|].
    split; [reflexivity|]. split; [apply fits_nil|]. constructor; [exact Hi|constructor]. }
  destruct (run_fits max ops _ _ _ _ (writes_all_true ops _) (ginv_open max s init) F0 H) as (_ & Fc & Fh).
  rewrite Forall_forall in Fh.
  split; [exact Fc|]. split; [|split].
  - intros x Hx. rewrite (g_rot _ G) in Hx. apply in_hist_files in Hx as (e & He & ->).
    apply Fh. apply filter_In in He. tauto.
  - rewrite (g_moved _ G). apply Forall_forall. intros c Hc. apply in_map_iff in Hc as (e & <- & He).
    apply Fh. apply filter_In in He. tauto.
  - rewrite (g_gone _ G). apply Forall_forall. intros c Hc. apply in_map_iff in Hc as (e & <- & He).
    apply Fh. apply filter_In in He. tauto.
Qed.

(* ---- the lines: all histories ---- *)
Definition hist_lines (h : list hent) : list bytes := flat_map (fun e => lines_of (h_content e)) h.

Lemma lines_kept_all max s init ops st rets :
  aligned_b init = true -> writes_aligned true ops = true -> no_blank_b (init ++ written_of ops) = true ->
  run (rf_open max s init) [] ops = Some (st, rets) ->
  hist_lines (rf_hist st) ++ lines_of (rf_cur st) = lines_of (init ++ written_of ops) /\
  rf_rot st = hist_rot (rf_hist st) /\ rf_moved st = hist_moved (rf_hist st) /\
  rf_gone st = hist_gone (rf_hist st) /\ NoDup (map fst (rf_rot st)) /\ rf_lost st = [].
Proof.
  intros Hi Hw Hb H.
  destruct (run_total ops _ [] (ginv_open max s init)) as (st' & Hrun & G).
  rewrite H in Hrun. inversion Hrun; subst st'. clear Hrun.
  split; [|split; [apply G|split; [apply G|split; [apply G|split; apply G]]]].
  assert (F0 : fine_state (rf_open max s init)).
  { unfold rf_open. apply fine_reopen. split; [apply aligned_b_sound, Hi|constructor]. }
  assert (Hw' : writes_all aligned (rf_dir (rf_open max s init)) ops)
    by (rewrite open_dir; apply writes_aligned_all, Hw).
  destruct (run_fine ops _ _ _ _ Hw' (ginv_open max s init) F0 H) as [_ Hf].
  apply lines_of_history; [eapply bytes_accounted; eauto|apply no_blank_b_sound, Hb|exact Hf].
Qed.

Lemma filter_rot_all h : filter is_moved h = [] -> filter is_gone h = [] -> filter is_rot h = h.
Proof.
  induction h as [|e h IH]; [auto|]. cbn [filter]. unfold is_moved, is_gone, is_rot in *.
  destruct (h_kind e); try discriminate; intros H1 H2; f_equal; auto.
Qed.

Lemma flat_map_contents (hs : list hent) :
  flat_map lines_of (map snd (hist_files hs)) = hist_lines hs.
Proof.
  unfold hist_files, hist_lines. induction hs as [|e hs IH]; [reflexivity|].
  cbn [map flat_map snd]. f_equal. exact IH.
Qed.

(* nobody removed or renamed the log file: the rotated files in order of rotation followed by
   the active file hold exactly the lines written while the destination was reachable *)
Lemma lines_kept max s init ops st rets :
  aligned_b init = true -> writes_aligned true ops = true -> no_blank_b (init ++ written_of ops) = true ->
  run (rf_open max s init) [] ops = Some (st, rets) ->
  rf_moved st = [] -> rf_gone st = [] ->
  flat_map lines_of (map snd (rf_rot st)) ++ lines_of (rf_cur st) = lines_of (init ++ written_of ops).
Proof.
  intros Hi Hw Hb H Hm Hg.
  destruct (lines_kept_all max s init ops st rets Hi Hw Hb H) as (L & Er & Em & Eg & _).
  rewrite Er. unfold hist_rot. rewrite filter_rot_all, flat_map_contents; [exact L| |].
  - rewrite Em in Hm. unfold hist_moved in Hm. apply map_eq_nil in Hm. exact Hm.
  - rewrite Eg in Hg. unfold hist_gone in Hg. apply map_eq_nil in Hg. exact Hg.
Qed.

(* ---- Write always returns: no panic, no endless loop - for EVERY state and environment
   (whatever the descriptor refers to, whether or not rotated names can be created) ---- *)
Lemma write_loop_returns clk : forall fuel i st p w,
  (measure st p < fuel)%nat ->
  (exists st' n, write_loop fuel clk i st p w = WOk st' n) \/ (exists st', write_loop fuel clk i st p w = WErr st').
Proof.
  induction fuel as [|f IH]; intros i st p w Hf; [lia|]. cbn [write_loop].
  assert (Hfin : (exists st' n, (if fd_open st then WOk (set_pos (put st p) (rf_pos st + zlen p)) (w + zlen p) else WErr st) = WOk st' n) \/
                 (exists st', (if fd_open st then WOk (set_pos (put st p) (rf_pos st + zlen p)) (w + zlen p) else WErr st) = WErr st'))
    by (destruct (fd_open st); eauto).
  destruct (exceeds p (rf_max st - rf_pos st)) eqn:Hc; [|exact Hfin]. rewrite exceeds_spec in Hc.
  pose proof (window_scan_spec p (rf_max st - rf_pos st) ltac:(lia)) as Hs.
  unfold measure in Hf.
  destruct (window_scan p (rf_max st - rf_pos st)) as [a rest| |]; [| |contradiction].
  - destruct Hs as (Hp & _ & _).
    assert (Hlen : length p = (length a + 1 + length rest)%nat) by (rewrite Hp, app_length; cbn [length]; lia).
    destruct (negb (fd_open st)); [right; eauto|]. destruct (can_rotate (clk i) st); [|right; eauto].
    apply IH. unfold measure. cbn [rotate rf_pos]. cbn. lia.
  - destruct (0 <? rf_pos st) eqn:Ep.
    + destruct (can_rotate (clk i) st); [|right; eauto]. apply IH. unfold measure. cbn [rotate rf_pos]. cbn. lia.
    + destruct (split_first_nl p) as [[a b]|] eqn:Ef; [|exact Hfin].
      apply split_first_nl_some in Ef as [Hp _].
      assert (Hlen : length p = (length a + 1 + length b)%nat) by (rewrite Hp, app_length; cbn [length]; lia).
      destruct (negb (fd_open st)); [right; eauto|]. destruct (can_rotate (clk i) st); [|right; eauto].
      apply IH. unfold measure. cbn [rotate rf_pos]. cbn. lia.
Qed.

Lemma rf_write_returns clk st p :
  (exists st' n, rf_write clk st p = WOk st' n) \/ (exists st', rf_write clk st p = WErr st').
Proof.
  unfold rf_write. destruct (rf_dir st); [|right; eauto].
  apply write_loop_returns. unfold measure. destruct (0 <? _); lia.
Qed.

Lemma run_returns : forall ops st rets, exists st' rets', run st rets ops = Some (st', rets').
Proof.
  induction ops as [|o r IH]; intros st rets; cbn [run]; [eauto|].
  destruct o; try apply IH.
  destruct (rf_write_returns clk st p) as [(st' & n & ->)|(st' & ->)]; apply IH.
Qed.

Lemma wl_run_returns : forall es w, exists w', wl_run w es = Some w'.
Proof.
  assert (Hfl : forall s w0, exists w1, wl_flush s w0 = Some w1).
  { intros s w0. unfold wl_flush. destruct (wl_buf w0) as [|l ls]; [eauto|].
    destruct (rf_write_returns (fun i => s (length (rf_rot (wl_rf w0)) + i)%nat) (wl_rf w0) (concat (l :: ls)))
      as [(st' & n & ->)|(st' & ->)]; eauto. }
  induction es as [|e es IH]; intros w; cbn [wl_run]; [eauto|].
  unfold wl_step. destruct e as [s line| |s|s f].
  - cbn zeta. destruct (_ <? FLUSH_BYTES); [apply IH|].
    destruct (Hfl s (mkWL (wl_rf w) (wl_buf w ++ [line]) (wl_len w + zlen line))) as (w1 & ->). apply IH.
  - apply IH.
  - destruct (Hfl s w) as (w1 & ->). apply IH.
  - destruct (Hfl s w) as (w1 & ->). apply IH.
Qed.

(* ---- the channel ---- *)
Definition send_ok (e : wev) : Prop := match e with ESend _ l => aligned l | _ => True end.

Lemma aligned_concat ls : Forall aligned ls -> aligned (concat ls).
Proof. induction 1; cbn; [apply aligned_nil|apply aligned_app; assumption]. Qed.

(* invariant of the writer goroutine: what is in the files, plus what sits in the buffer if the
   destination is reachable, is what was there at the start plus the lines accepted so far *)
Record winvc (init : bytes) (w : wl) (acc : bytes) : Prop := {
  wi_g : ginv (wl_rf w);
  wi_fine : fine_state (wl_rf w);
  wi_buf : Forall aligned (wl_buf w);
  wi_stream : stream_of (wl_rf w) ++ (if rf_dir (wl_rf w) then concat (wl_buf w) else []) = init ++ acc
}.

Lemma flush_inv init clk w acc :
  winvc init w acc ->
  exists w', wl_flush clk w = Some w' /\ winvc init w' acc /\ wl_buf w' = [] /\
             rf_dir (wl_rf w') = rf_dir (wl_rf w).
Proof.
  intros [G F B S]. unfold wl_flush. destruct (wl_buf w) as [|l ls] eqn:Eb.
  - exists w. split; [reflexivity|]. split; [|split; [exact Eb|reflexivity]].
    constructor; auto; rewrite Eb; assumption.
  - destruct (rf_dir (wl_rf w)) eqn:Hd.
    + destruct (ginv_write (fun i => clk (length (rf_rot (wl_rf w)) + i)%nat) (wl_rf w) (concat (l :: ls)) G Hd)
        as (st' & hs & Hr & G' & Hd' & Hp).
      rewrite Hr. eexists. split; [reflexivity|]. cbn [wl_rf wl_buf]. split; [|auto].
      constructor; cbn [wl_rf wl_buf]; auto.
      * eapply (fine_write _ (wl_rf w) st' (concat (l :: ls)) hs); [apply aligned_concat, B|exact G|exact F|exact Hp].
      * rewrite (write_stream _ _ _ _ _ G Hp), Hd'. cbn [concat]. rewrite app_nil_r. exact S.
    + rewrite (rf_write_err _ _ _ Hd). eexists. split; [reflexivity|]. cbn [wl_rf wl_buf]. split; [|auto].
      constructor; cbn [wl_rf wl_buf]; auto. rewrite Hd. exact S.
Qed.

(* what one event adds to the accepted lines, and whether the destination is reachable afterwards *)
Definition ev_adds (d : bool) (e : wev) : bytes :=
  match e with ESend _ l => if d then l else [] | _ => [] end.
Definition ev_dir (d : bool) (e : wev) : bool :=
  match e with EFault _ FDirAway => false | EFault _ FDirBack => true | _ => d end.

Lemma wl_accepted_cons d e r : wl_accepted d (e :: r) = ev_adds d e ++ wl_accepted (ev_dir d e) r.
Proof. destruct e as [c l| |c|c f]; cbn; [destruct d; reflexivity|reflexivity|reflexivity|destruct f; reflexivity]. Qed.

Lemma step_inv init w acc e :
  winvc init w acc -> send_ok e ->
  exists w', wl_step w e = Some w' /\ winvc init w' (acc ++ ev_adds (rf_dir (wl_rf w)) e) /\
             rf_dir (wl_rf w') = ev_dir (rf_dir (wl_rf w)) e.
Proof.
  intros I He. destruct e as [clk line| |clk|clk f]; cbn [wl_step ev_adds ev_dir].
  - set (w1 := mkWL (wl_rf w) (wl_buf w ++ [line]) (wl_len w + zlen line)).
    assert (I1 : winvc init w1 (acc ++ (if rf_dir (wl_rf w) then line else []))).
    { destruct I as [G F B S]. constructor; cbn [wl_rf wl_buf w1]; auto.
      - apply Forall_app. split; [exact B|]. constructor; [exact He|constructor].
      - rewrite app_assoc, <- S. destruct (rf_dir (wl_rf w)).
        + rewrite concat_app. cbn. rewrite app_nil_r, <- !app_assoc. reflexivity.
        + rewrite !app_nil_r. reflexivity. }
    cbn zeta. fold w1. destruct (wl_len w1 <? FLUSH_BYTES).
    + exists w1. auto.
    + destruct (flush_inv init clk w1 _ I1) as (w' & Hf & I' & _ & Hd). exists w'. auto.
  - exists w. rewrite app_nil_r. auto.
  - destruct (flush_inv init clk w acc I) as (w' & Hf & I' & _ & Hd). exists w'. rewrite app_nil_r. auto.
  - destruct (flush_inv init clk w acc I) as (w1 & Hf & [G F B S] & Hb & Hd). rewrite Hf.
    eexists. split; [reflexivity|]. cbn [wl_rf wl_buf]. rewrite app_nil_r, Hb in *. cbn [concat] in S.
    assert (S0 : stream_of (wl_rf w1) = init ++ acc) by (destruct (rf_dir (wl_rf w1)); rewrite app_nil_r in S; exact S).
    destruct f; cbn [apply_fault].
    + split; [|rewrite dir_remove; exact Hd]. constructor; cbn [wl_rf wl_buf]; [apply ginv_remove, G|apply fine_remove, F|constructor|].
      rewrite stream_remove, S0. cbn [concat]. destruct (rf_dir (ext_remove (wl_rf w1))); apply app_nil_r.
    + split; [|rewrite dir_move; exact Hd]. constructor; cbn [wl_rf wl_buf]; [apply ginv_move, G|apply fine_move, F|constructor|].
      rewrite stream_move, S0. cbn [concat]. destruct (rf_dir (ext_move (wl_rf w1))); apply app_nil_r.
    + split; [|reflexivity]. constructor; cbn [wl_rf wl_buf]; [apply ginv_dir, G|exact F|constructor|].
      change (stream_of (ext_dir false (wl_rf w1))) with (stream_of (wl_rf w1)). rewrite S0. apply app_nil_r.
    + split; [|reflexivity]. constructor; cbn [wl_rf wl_buf]; [apply ginv_dir, G|exact F|constructor|].
      change (stream_of (ext_dir true (wl_rf w1))) with (stream_of (wl_rf w1)). rewrite S0. apply app_nil_r.
Qed.

(* every request is received (the run is total), whatever the events, and the invariant holds *)
Lemma run_inv init : forall es w acc,
  winvc init w acc -> Forall send_ok es ->
  exists w', wl_run w es = Some w' /\ winvc init w' (acc ++ wl_accepted (rf_dir (wl_rf w)) es).
Proof.
  induction es as [|e es IH]; intros w acc I Hs; cbn [wl_run].
  - exists w. cbn. rewrite app_nil_r. auto.
  - inversion Hs as [|? ? He Hs']; subst.
    destruct (step_inv init w acc e I He) as (w1 & Hst & I1 & Hd). rewrite Hst.
    destruct (IH w1 _ I1 Hs') as (w' & Hr & I'). exists w'. split; [exact Hr|].
    rewrite wl_accepted_cons, app_assoc, <- Hd. exact I'.
Qed.

Lemma open_fails_short n max s init : n <= 240 -> open_fails n max s init = false.
Proof. intros H. unfold open_fails. replace (n + 15 <=? 255) with true by lia. apply andb_false_r. Qed.

(* New hands out a channel exactly when max >= 1024 and the destination can be opened (for an
   over-long file name: and the file found there need not be rotated at once); on a channel handed
   out every Send returns - whatever is sent (encodable or not), whatever happens to the destination,
   whether or not rotated names can be created *)
Lemma new_spec_env n max openable s init :
  match wl_new_env n max openable s init with
  | Some w => 1024 <= max /\ openable = true /\ forall es, exists w', wl_run w es = Some w'
  | None => max < 1024 \/ openable = false \/ open_fails n max s init = true
  end.
Proof.
  unfold wl_new_env. destruct (max <? 1024) eqn:E; [left; lia|]. destruct openable; cbn [andb]; [|auto].
  destruct (open_fails n max s init); cbn [negb]; [auto|].
  split; [lia|]. split; [reflexivity|]. intros es. apply wl_run_returns.
Qed.

Lemma new_spec max openable s init :
  match wl_new max openable s init with
  | Some w => 1024 <= max /\ openable = true /\ forall es, exists w', wl_run w es = Some w'
  | None => max < 1024 \/ openable = false
  end.
Proof.
  pose proof (new_spec_env 3 max openable s init) as H. unfold wl_new.
  destruct (wl_new_env 3 max openable s init); [exact H|].
  rewrite open_fails_short in H by lia. destruct H as [H|[H|H]]; auto. discriminate.
Qed.

Lemma wl_run_app es1 : forall es2 w, wl_run w (es1 ++ es2) =
  match wl_run w es1 with Some w1 => wl_run w1 es2 | None => None end.
Proof.
  induction es1 as [|e es1 IH]; intros es2 w; cbn [app wl_run]; [reflexivity|].
  destruct (wl_step w e); [apply IH|reflexivity].
Qed.

Fixpoint sends_aligned (es : list wev) : bool :=
  match es with
  | [] => true
  | ESend _ l :: r => aligned_b l && sends_aligned r
  | _ :: r => sends_aligned r
  end.

Lemma sends_aligned_ok es : sends_aligned es = true -> Forall send_ok es.
Proof.
  induction es as [|e r IH]; cbn; [constructor|]. destruct e; try (intros H; constructor; [exact I|auto]).
  intros H. apply andb_true_iff in H as [H1 H2]. constructor; [apply aligned_b_sound, H1|auto].
Qed.

(* the channel end to end: whatever is sent - encodable events, events the encoder rejects - and
   whatever happens to the destination between flushes - file removed, renamed, directory away
   and back - once a second has passed without request, every file that was ever at the path
   (oldest first) followed by the active file holds exactly the encodable events that were sent
   while the destination was reachable: each once, in order, uncut; nothing was written through
   a stale descriptor *)
Lemma channel_lines max s init es clk w w' :
  wl_new max true s init = Some w ->
  aligned_b init = true -> sends_aligned es = true -> no_blank_b (init ++ wl_accepted true es) = true ->
  wl_run w (es ++ [EIdle clk]) = Some w' ->
  hist_lines (rf_hist (wl_rf w')) ++ lines_of (rf_cur (wl_rf w')) = lines_of (init ++ wl_accepted true es) /\
  wl_buf w' = [] /\ rf_lost (wl_rf w') = [].
Proof.
  intros Hn Hi Hs Hb Hr. unfold wl_new, wl_new_env in Hn. destruct (max <? 1024); [discriminate|].
  rewrite open_fails_short in Hn by lia. cbn in Hn. inversion Hn; subst w. clear Hn.
  fold (rf_open max s init) in *.
  set (w0 := mkWL (rf_open max s init) [] 0) in *.
  assert (I0 : winvc init w0 []).
  { constructor; cbn [w0 wl_rf wl_buf].
    - apply ginv_open.
    - unfold rf_open. apply fine_reopen. split; [apply aligned_b_sound, Hi|constructor].
    - constructor.
    - rewrite open_stream. cbn [concat]. destruct (rf_dir _); rewrite !app_nil_r; reflexivity. }
  destruct (run_inv init es w0 [] I0 (sends_aligned_ok es Hs)) as (w1 & Hr1 & I1).
  rewrite wl_run_app, Hr1 in Hr. cbn [wl_run wl_step] in Hr.
  destruct (flush_inv init clk w1 _ I1) as (w2 & Hf & [G F B S] & Hbuf & _). rewrite Hf in Hr. inversion Hr; subst w2.
  cbn [app] in S. replace (rf_dir (wl_rf w0)) with true in S by (symmetry; apply open_dir).
  rewrite Hbuf in S. cbn [concat] in S.
  assert (S0 : stream_of (wl_rf w') = init ++ wl_accepted true es) by (destruct (rf_dir (wl_rf w')); rewrite app_nil_r in S; exact S).
  split; [|split; [exact Hbuf|apply G]].
  destruct F as [_ Fh]. apply lines_of_history; [exact S0|apply no_blank_b_sound, Hb|exact Fh].
Qed.

(* ---- statements used by Properties.v ---- *)
Lemma write_total clk st p :
  rinv st ->
  (rf_dir st = true -> exists st', rf_write clk st p = WOk st' (zlen p) /\ rinv st' /\ rf_max st' = rf_max st) /\
  (rf_dir st = false -> rf_write clk st p = WErr st).
Proof.
  intros H. split; [|apply rf_write_err]. intros Hd.
  destruct (rf_write_ok clk st p H Hd) as (st' & hs & Hr & Hp). exists st'. split; [exact Hr|].
  destruct Hp. split; [apply winv_rinv; assumption|]. rewrite wp_max0. apply after_stat_fields.
Qed.

Lemma history_total max s init ops :
  exists st, run (rf_open max s init) [] ops = Some (st, written_lens true ops) /\ rinv st /\ rf_lost st = [].
Proof.
  destruct (run_total ops _ [] (ginv_open max s init)) as (st & H & G).
  exists st. rewrite open_dir in H. split; [exact H|]. split; apply G.
Qed.

(* one Write while the destination is reachable, whatever happened to the file before: the bytes
   of p are in the active file or in the files this call rotated away, in order; the only bytes
   not in a file are newlines that end the last line of a rotated file; no name is used twice;
   nothing goes through a stale descriptor *)
Lemma write_accounts clk st p :
  rinv st -> rf_dir st = true ->
  exists st' hs, rf_write clk st p = WOk st' (zlen p) /\
    rf_hist st' = rf_hist st ++ hs /\
    rf_rot st' = rf_rot st ++ hist_files hs /\
    hist_stream hs ++ rf_cur st' = rf_cur st ++ p /\
    Forall (fun e => h_skipped e = [NL] \/ (h_skipped e = [] /\ h_kind e = RFresh)) hs /\
    map h_sec hs = map clk (seq 0 (length hs)) /\
    (NoDup (map fst (rf_rot st)) -> NoDup (map fst (rf_rot st'))) /\
    rf_lost st' = rf_lost st.
Proof.
  intros H Hd. destruct (rf_write_ok clk st p H Hd) as (st' & hs & Hr & Hp). exists st', hs. split; [exact Hr|].
  destruct (after_stat_winv st H) as [_ Ec]. destruct (after_stat_fields st) as (Em & _ & _ & Eh & Er & _ & El).
  destruct Hp. rewrite Eh in wp_hist0. rewrite Ec in wp_stream0. rewrite Er in wp_rot0, wp_nodup0. rewrite El in wp_lost0.
  repeat split; auto.
Qed.

(* ---- the full statement of the property on the model ---- *)
Definition files_lines (st : rf) : list bytes :=
  flat_map lines_of (map snd (rf_rot st)) ++ lines_of (rf_cur st).

Definition full_lines : Prop := forall max s init ops st rets,
  aligned_b init = true -> writes_aligned true ops = true -> no_blank_b (init ++ written_of ops) = true ->
  run (rf_open max s init) [] ops = Some (st, rets) ->
  rf_moved st = [] -> rf_gone st = [] ->
  files_lines st = lines_of (init ++ written_of ops).

Definition full_send : Prop := forall max openable s init,
  match wl_new max openable s init with
  | Some w => 1024 <= max /\ openable = true /\ forall es, exists w', wl_run w es = Some w'
  | None => max < 1024 \/ openable = false
  end.

Lemma full_lines_holds : full_lines.
Proof. unfold full_lines, files_lines. intros. eapply lines_kept; eauto. Qed.

Lemma full_send_holds : full_send.
Proof. unfold full_send. intros. apply new_spec. Qed.

Lemma full_holds : full_lines /\ full_send.
Proof. split; [exact full_lines_holds|exact full_send_holds]. Qed.

(* building blocks of the examples *)
Definition mkline (c n : N) : bytes := 123%N :: repeat c (N.to_nat n) ++ [125%N; NL].  (* n + 3 bytes *)
Definition clk0 : nat -> N := fun _ => 0%N.

(* executable checks used by the examples *)
Definition names_are (st : rf) (l : list (N * N)) : bool :=
  list_eqb (fun a b => (fst a =? fst b)%N && (snd a =? snd b)%N) (map fst (rf_rot st)) l.
Definition lines_match (st : rf) (ops : list op) : bool :=
  list_eqb beq (files_lines st) (lines_of (written_of ops)).
Definition hyps_ok (ops : list op) : bool :=
  aligned_b [] && writes_aligned true ops && no_blank_b ([] ++ written_of ops).

(* ---- the scan: the index loop of the Go code and the structural split agree ---- *)
Lemma scan_down_spec p : forall j,
  (j < length p)%nat ->
  match split_last_nl (firstn j (tl p)) with
  | Some (a, _) => scan_down p j = S (length a)
  | None => scan_down p j = O
  end.
Proof.
  destruct p as [|x0 p]; [cbn; lia|]. cbn [tl length].
  induction j as [|j IH]; intros Hj; [reflexivity|].
  cbn [scan_down]. change (nth (S j) (x0 :: p) 0%N) with (nth j p 0%N).
  assert (Hlt : (j < length p)%nat) by lia.
  assert (E : firstn (S j) p = firstn j p ++ [nth j p 0%N]).
  { clear -Hlt. revert j Hlt. induction p as [|y p IHp]; intros j Hlt; [cbn in Hlt; lia|].
    destruct j; [reflexivity|]. cbn [firstn nth app]. f_equal. apply IHp. cbn in Hlt. lia. }
  rewrite E. specialize (IH ltac:(lia)).
  assert (Happ : forall l y, split_last_nl (l ++ [y]) =
            if (y =? NL)%N then Some (l, [])
            else match split_last_nl l with Some (a, b) => Some (a, b ++ [y]) | None => None end).
  { clear. induction l as [|z l IHl]; intros y; cbn [app split_last_nl].
    - destruct (y =? NL)%N; reflexivity.
    - rewrite IHl. destruct (y =? NL)%N; [reflexivity|]. destruct (split_last_nl l) as [[a b]|]; [reflexivity|].
      destruct (z =? NL)%N; reflexivity. }
  rewrite Happ. destruct (nth j p 0%N =? NL)%N eqn:En.
  - rewrite firstn_length. f_equal. lia.
  - destruct (split_last_nl (firstn j p)) as [[a b]|]; exact IH.
Qed.
