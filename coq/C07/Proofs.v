(* C07 - lemmas about the model of rotateFile / writeLoop. *)
From HT Require Import Common.Bytes C07.Model.
From Coq Require Import ZifyBool ZifyN ZifyNat.
Open Scope Z_scope.

(* ---- the window scan ---- *)
Lemma split_last_nl_some l : forall a b,
  split_last_nl l = Some (a, b) ->
  l = a ++ NL :: b /\ forallb (fun x => negb (x =? NL)%N) b = true.
Proof.
  induction l as [|x r IH]; intros a b H; cbn [split_last_nl] in H; [discriminate|].
  destruct (split_last_nl r) as [[a' b']|] eqn:E.
  - inversion H; subst. destruct (IH a' b eq_refl) as [-> Hb]. split; [reflexivity|exact Hb].
  - destruct (x =? NL)%N eqn:Ex; [|discriminate]. inversion H; subst.
    apply N.eqb_eq in Ex; subst. split; [reflexivity|].
    clear IH H. revert E. induction b as [|y b IHb]; intros E; [reflexivity|].
    cbn [split_last_nl] in E. destruct (split_last_nl b) as [[? ?]|]; [discriminate|].
    destruct (y =? NL)%N eqn:Ey; [discriminate|]. cbn [forallb]. rewrite Ey. cbn. apply IHb. reflexivity.
Qed.

Lemma split_last_nl_none l :
  split_last_nl l = None -> forallb (fun x => negb (x =? NL)%N) l = true.
Proof.
  induction l as [|x r IH]; intros H; [reflexivity|]. cbn [split_last_nl] in H.
  destruct (split_last_nl r) as [[? ?]|]; [discriminate|].
  destruct (x =? NL)%N eqn:Ex; [discriminate|]. cbn [forallb]. rewrite Ex. cbn. apply IH. reflexivity.
Qed.

(* ---- invariants ---- *)
(* between calls: pos is the length of the file whenever it exists *)
Definition rinv (st : rf) : Prop :=
  (rf_exists st = true -> rf_pos st = zlen (rf_cur st)) /\
  (rf_exists st = false -> rf_cur st = []) /\
  0 <= rf_pos st <= rf_max st.

(* inside Write after the Stat/reopen step *)
Definition winv (st : rf) : Prop :=
  rf_exists st = true /\ rf_pos st = zlen (rf_cur st) /\ 0 <= rf_pos st <= rf_max st.

(* the directory of rotated files is the replay of the rename history *)
Definition replay (hs : list hent) (d : list (N * bytes)) : list (N * bytes) :=
  fold_left (fun d e => rot_set (h_sec e) (h_content e) d) hs d.

Definition hent_ok (max : Z) (e : hent) : Prop :=
  zlen (h_content e) <= max /\
  match h_kind e with
  | RSplit => h_skipped e = [NL]
  | RDrop => exists x, h_skipped e = [x]
  | ROpen => h_skipped e = []
  end.

Lemma hist_stream_app a b : hist_stream (a ++ b) = hist_stream a ++ hist_stream b.
Proof. unfold hist_stream. rewrite map_app, concat_app. reflexivity. Qed.

Lemma replay_app a b d : replay (a ++ b) d = replay b (replay a d).
Proof. unfold replay. apply fold_left_app. Qed.

(* ---- one call of Write ---- *)
Record write_post (clk : nat -> N) (i : nat) (st st' : rf) (p : bytes) (hs : list hent) : Prop := {
  wp_inv : winv st';
  wp_max : rf_max st' = rf_max st;
  wp_moved : rf_moved st' = rf_moved st;
  wp_gone : rf_gone st' = rf_gone st;
  wp_hist : rf_hist st' = rf_hist st ++ hs;
  wp_rot : rf_rot st' = replay hs (rf_rot st);
  wp_stream : hist_stream hs ++ rf_cur st' = rf_cur st ++ p;
  wp_ok : Forall (hent_ok (rf_max st)) hs;
  wp_kind : Forall (fun e => h_kind e <> ROpen) hs;
  wp_secs : map h_sec hs = map clk (seq i (length hs));
  wp_norot : hs = [] -> rf_cur st' = rf_cur st ++ p
}.

Lemma write_loop_ok clk : forall fuel i st p w,
  winv st -> (length p < fuel)%nat ->
  exists st' hs, write_loop fuel clk i st p w = WOk st' (w + zlen p) /\ write_post clk i st st' p hs.
Proof.
  induction fuel as [|f IH]; intros i st p w Hinv Hf; [lia|].
  destruct Hinv as (Hex & Hpos & Hlo & Hhi).
  cbn [write_loop].
  destruct (rf_pos st + zlen p >? rf_max st) eqn:Hc.
  - (* one iteration *)
    assert (Hj : (rf_max st - rf_pos st <? 0) = false) by lia. rewrite Hj.
    destruct p as [|x0 p']; [unfold zlen in Hc; cbn [length] in Hc; lia|].
    cbn [firstn skipn].
    set (n := Z.to_nat (rf_max st - rf_pos st)).
    pose proof (firstn_skipn n p') as Hfs.
    pose proof (firstn_le_length n p') as Hfl.
    destruct (split_last_nl (firstn n p')) as [[a b]|] eqn:Es.
    + apply split_last_nl_some in Es as [Ew _].
      assert (Hlen : length p' = (length a + 1 + length b + length (skipn n p'))%nat).
      { rewrite <- Hfs at 1. rewrite Ew, !app_length. cbn [length]. lia. }
      assert (Ha : (length a + 1 <= n)%nat).
      { rewrite Ew, app_length in Hfl. cbn [length] in Hfl. lia. }
      set (st1 := rotate (clk i) [NL] RSplit (put st (x0 :: a))).
      assert (Hinv1 : winv st1) by (unfold winv, st1; cbn; unfold zlen; cbn; lia).
      destruct (IH (S i) st1 (b ++ skipn n p') (w + zlen (x0 :: a) + 1) Hinv1) as (st' & hs & Hr & Hp).
      { rewrite app_length. cbn [length] in Hf. lia. }
      exists st', (mkH (clk i) (rf_cur st ++ x0 :: a) [NL] RSplit :: hs). split.
      * rewrite Hr. f_equal. unfold zlen. cbn [length]. rewrite app_length. lia.
      * destruct Hp. constructor.
        -- exact wp_inv0.
        -- rewrite wp_max0. reflexivity.
        -- rewrite wp_moved0. reflexivity.
        -- rewrite wp_gone0. reflexivity.
        -- rewrite wp_hist0. unfold st1. cbn. rewrite <- app_assoc. reflexivity.
        -- rewrite wp_rot0. reflexivity.
        -- unfold hist_stream in *. cbn [map concat h_content h_skipped].
           rewrite <- !app_assoc. rewrite wp_stream0. unfold st1. cbn [rf_cur rotate app].
           rewrite <- Hfs at 2. rewrite Ew. rewrite <- !app_assoc. reflexivity.
        -- constructor; [|exact wp_ok0]. split; [|reflexivity]. cbn [h_content].
           unfold zlen in *. rewrite app_length. cbn [length]. lia.
        -- constructor; [cbn; discriminate|exact wp_kind0].
        -- cbn [map length seq h_sec]. rewrite wp_secs0. reflexivity.
        -- discriminate.
    + set (st1 := rotate (clk i) [x0] RDrop st).
      assert (Hinv1 : winv st1) by (unfold winv, st1; cbn; unfold zlen; cbn; lia).
      rewrite Hfs.
      destruct (IH (S i) st1 p' (w + 1) Hinv1) as (st' & hs & Hr & Hp).
      { cbn [length] in Hf. lia. }
      exists st', (mkH (clk i) (rf_cur st) [x0] RDrop :: hs). split.
      * rewrite Hr. f_equal. unfold zlen. cbn [length]. lia.
      * destruct Hp. constructor.
        -- exact wp_inv0.
        -- rewrite wp_max0. reflexivity.
        -- rewrite wp_moved0. reflexivity.
        -- rewrite wp_gone0. reflexivity.
        -- rewrite wp_hist0. unfold st1. cbn. rewrite <- app_assoc. reflexivity.
        -- rewrite wp_rot0. reflexivity.
        -- unfold hist_stream in *. cbn [map concat h_content h_skipped].
           rewrite <- !app_assoc. rewrite wp_stream0. reflexivity.
        -- constructor; [|exact wp_ok0]. split; [cbn [h_content]; lia|]. cbn. eauto.
        -- constructor; [cbn; discriminate|exact wp_kind0].
        -- cbn [map length seq h_sec]. rewrite wp_secs0. reflexivity.
        -- discriminate.
  - (* fits *)
    exists (set_pos (put st p) (rf_pos st + zlen p)), []. split; [reflexivity|].
    constructor; cbn; auto.
    + unfold winv. cbn. rewrite zlen_app. pose proof (zlen_nonneg p). lia.
    + rewrite app_nil_r. reflexivity.
Qed.

Definition after_stat (st : rf) : rf := if rf_exists st then st else reopen st.

Lemma after_stat_winv st : rinv st -> winv (after_stat st) /\ rf_cur (after_stat st) = rf_cur st.
Proof.
  intros (H1 & H2 & H3). unfold after_stat, winv. destruct (rf_exists st) eqn:E.
  - split; [|reflexivity]. rewrite E. auto.
  - cbn. rewrite (H2 eq_refl). split; [|reflexivity]. unfold zlen; cbn. lia.
Qed.

Lemma winv_rinv st : winv st -> rinv st.
Proof. intros (H1 & H2 & H3). unfold rinv. rewrite H1. repeat split; auto; try discriminate; lia. Qed.

Lemma rf_write_ok clk st p :
  rinv st ->
  exists st' hs, rf_write clk st p = WOk st' (zlen p) /\ write_post clk 0 (after_stat st) st' p hs.
Proof.
  intros Hinv. destruct (after_stat_winv st Hinv) as [Hw _].
  destruct (write_loop_ok clk (S (length p)) 0%nat (after_stat st) p 0 Hw) as (st' & hs & Hr & Hp); [lia|].
  exists st', hs. split; [|exact Hp]. unfold rf_write. fold (after_stat st). rewrite Hr. reflexivity.
Qed.

Lemma after_stat_fields st :
  rf_max (after_stat st) = rf_max st /\ rf_moved (after_stat st) = rf_moved st /\
  rf_gone (after_stat st) = rf_gone st /\ rf_hist (after_stat st) = rf_hist st /\
  rf_rot (after_stat st) = rf_rot st.
Proof. unfold after_stat. destruct (rf_exists st); cbn; auto. Qed.

(* ---- whole histories ---- *)
Definition files_le (max : Z) (st : rf) : Prop :=
  zlen (rf_cur st) <= max /\
  Forall (fun e => zlen (h_content e) <= max) (rf_hist st) /\
  Forall (fun c => zlen c <= max) (rf_moved st) /\
  Forall (fun c => zlen c <= max) (rf_gone st).

(* global invariant *)
Record ginv (max : Z) (st : rf) : Prop := {
  g_rinv : rinv st;
  g_max : rf_max st = max;
  g_rot : rf_rot st = replay (rf_hist st) [];
  g_ok : Forall (fun e => match h_kind e with
                          | RSplit => h_skipped e = [NL]
                          | RDrop => exists x, h_skipped e = [x]
                          | ROpen => h_skipped e = []
                          end) (rf_hist st)
}.

Lemma cur_le st : rinv st -> zlen (rf_cur st) <= rf_max st.
Proof.
  intros (H1 & H2 & H3). destruct (rf_exists st) eqn:E.
  - rewrite <- (H1 eq_refl). lia.
  - rewrite (H2 eq_refl). unfold zlen; cbn. lia.
Qed.

Lemma hent_ok_kind max e : hent_ok max e ->
  match h_kind e with RSplit => h_skipped e = [NL] | RDrop => exists x, h_skipped e = [x] | ROpen => h_skipped e = [] end.
Proof. intros [_ H]. exact H. Qed.

Lemma hent_ok_le max e : hent_ok max e -> zlen (h_content e) <= max.
Proof. intros [H _]. exact H. Qed.

Lemma ginv_write max clk st p :
  ginv max st ->
  exists st' hs, rf_write clk st p = WOk st' (zlen p) /\ ginv max st' /\
                 write_post clk 0 (after_stat st) st' p hs.
Proof.
  intros G. destruct (rf_write_ok clk st p (g_rinv _ _ G)) as (st' & hs & Hr & Hp).
  exists st', hs. split; [exact Hr|]. split; [|exact Hp].
  destruct (after_stat_fields st) as (F1 & F2 & F3 & F4 & F5). destruct Hp.
  constructor.
  - apply winv_rinv. exact wp_inv0.
  - rewrite wp_max0, F1. apply (g_max _ _ G).
  - rewrite wp_rot0, wp_hist0, F5, F4, replay_app, <- (g_rot _ _ G). reflexivity.
  - rewrite wp_hist0, F4. apply Forall_app. split; [apply (g_ok _ _ G)|].
    eapply Forall_impl; [|exact wp_ok0]. intros e. apply hent_ok_kind.
Qed.

Definition kinds_ok (h : list hent) : Prop :=
  Forall (fun e => match h_kind e with
                   | RSplit => h_skipped e = [NL]
                   | RDrop => exists x, h_skipped e = [x]
                   | ROpen => h_skipped e = []
                   end) h.

Lemma reopen_ginv max s st : 0 <= max ->
  rf_max st = max -> rf_rot st = replay (rf_hist st) [] -> kinds_ok (rf_hist st) ->
  ginv max (rf_reopen s st).
Proof.
  intros Hm Gm Gr Gk. unfold rf_reopen. cbn [rf_pos rf_max].
  pose proof (zlen_nonneg (rf_cur st)).
  destruct (zlen (rf_cur st) <? rf_max st) eqn:E.
  - constructor; cbn; auto. unfold rinv; cbn. repeat split; auto; try discriminate; lia.
  - constructor; cbn; auto.
    + unfold rinv; cbn. unfold zlen; cbn. repeat split; auto; try discriminate; lia.
    + rewrite replay_app, <- Gr. reflexivity.
    + apply Forall_app. split; [exact Gk|]. constructor; [reflexivity|constructor].
Qed.

Lemma ginv_reopen max s st : 0 <= max -> ginv max st -> ginv max (rf_reopen s st).
Proof. intros Hm G. apply reopen_ginv; auto; apply G. Qed.

Lemma ginv_remove max st : ginv max st -> ginv max (ext_remove st).
Proof.
  intros G. unfold ext_remove. destruct (rf_exists st) eqn:E; [|exact G].
  constructor; cbn; try apply G. destruct (g_rinv _ _ G) as (H1 & H2 & H3).
  unfold rinv; cbn. repeat split; auto; try discriminate; lia.
Qed.

Lemma ginv_move max st : ginv max st -> ginv max (ext_move st).
Proof.
  intros G. unfold ext_move. destruct (rf_exists st) eqn:E; [|exact G].
  constructor; cbn; try apply G. destruct (g_rinv _ _ G) as (H1 & H2 & H3).
  unfold rinv; cbn. repeat split; auto; try discriminate; lia.
Qed.

Lemma ginv_open max s init : 0 <= max -> ginv max (rf_open max s init).
Proof. intros Hm. unfold rf_open. apply reopen_ginv; cbn; auto. constructor. Qed.

Fixpoint written_lens (ops : list op) : list Z :=
  match ops with
  | [] => []
  | OWrite _ p :: r => zlen p :: written_lens r
  | _ :: r => written_lens r
  end.

(* Write never panics, never runs out of fuel, reports len(p); the invariant is kept *)
Lemma run_total max : 0 <= max -> forall ops st rets,
  ginv max st ->
  exists st', run st rets ops = Some (st', rets ++ written_lens ops) /\ ginv max st'.
Proof.
  intros Hm. induction ops as [|o r IH]; intros st rets G; cbn [run written_lens].
  - exists st. rewrite app_nil_r. auto.
  - destruct o as [clk p| | |s].
    + destruct (ginv_write max clk st p G) as (st' & hs & Hr & G' & _). rewrite Hr.
      destruct (IH st' (rets ++ [zlen p]) G') as (st'' & Hrun & G'').
      exists st''. rewrite Hrun, <- app_assoc. auto.
    + apply IH, ginv_remove, G.
    + apply IH, ginv_move, G.
    + apply IH, ginv_reopen; auto.
Qed.

(* ---- size bound ---- *)
Lemma files_le_write max clk st st' p hs :
  rf_max st = max -> files_le max st -> write_post clk 0 (after_stat st) st' p hs -> files_le max st'.
Proof.
  intros Hm (F1 & F2 & F3 & F4) Hp. destruct (after_stat_fields st) as (A1 & A2 & A3 & A4 & A5).
  destruct Hp. unfold files_le. repeat split.
  - pose proof (cur_le st' (winv_rinv _ wp_inv0)). lia.
  - rewrite wp_hist0, A4. apply Forall_app. split; [exact F2|].
    eapply Forall_impl; [|exact wp_ok0]. intros e He. apply hent_ok_le in He. lia.
  - rewrite wp_moved0, A2. exact F3.
  - rewrite wp_gone0, A3. exact F4.
Qed.

Lemma files_le_reopen max s st : 0 <= max -> files_le max st -> files_le max (rf_reopen s st).
Proof.
  intros Hm (F1 & F2 & F3 & F4). unfold rf_reopen. cbn [rf_pos rf_max].
  destruct (zlen (rf_cur st) <? rf_max st); unfold files_le; cbn; repeat split; auto.
  apply Forall_app. split; [exact F2|]. constructor; [exact F1|constructor].
Qed.

Lemma files_le_remove max st : 0 <= max -> files_le max st -> files_le max (ext_remove st).
Proof.
  intros Hm (F1 & F2 & F3 & F4). unfold ext_remove. destruct (rf_exists st); [|repeat split; auto].
  unfold files_le; cbn. repeat split; auto. apply Forall_app. split; [exact F4|]. constructor; [exact F1|constructor].
Qed.

Lemma files_le_move max st : 0 <= max -> files_le max st -> files_le max (ext_move st).
Proof.
  intros Hm (F1 & F2 & F3 & F4). unfold ext_move. destruct (rf_exists st); [|repeat split; auto].
  unfold files_le; cbn. repeat split; auto. apply Forall_app. split; [exact F3|]. constructor; [exact F1|constructor].
Qed.

Lemma run_files_le max : 0 <= max -> forall ops st rets st' rets',
  ginv max st -> files_le max st -> run st rets ops = Some (st', rets') -> files_le max st'.
Proof.
  intros Hm. induction ops as [|o r IH]; intros st rets st' rets' G F H; cbn [run] in H.
  - inversion H; subst. exact F.
  - destruct o as [clk p| | |s].
    + destruct (ginv_write max clk st p G) as (st1 & hs & Hr & G1 & Hp). rewrite Hr in H.
      eapply IH; [exact G1| |exact H]. eapply files_le_write; [apply G|exact F|exact Hp].
    + eapply IH; [apply ginv_remove, G|apply files_le_remove; auto|exact H].
    + eapply IH; [apply ginv_move, G|apply files_le_move; auto|exact H].
    + eapply IH; [apply ginv_reopen; [exact Hm|exact G]|apply files_le_reopen; [exact Hm|exact F]|exact H].
Qed.

(* what is in the directory came from the history *)
Lemma in_rot_set s c d x : In x (rot_set s c d) -> x = (s, c) \/ In x d.
Proof.
  unfold rot_set. intros H. apply in_app_or in H as [H|[H|[]]]; [|auto].
  apply filter_In in H as [H _]. auto.
Qed.

Lemma in_replay hs : forall d x, In x (replay hs d) ->
  In x d \/ exists e, In e hs /\ x = (h_sec e, h_content e).
Proof.
  induction hs as [|e hs IH]; intros d x H; cbn in H; [auto|].
  apply IH in H as [H|(e' & He & ->)].
  - apply in_rot_set in H as [->|H]; [right; exists e; cbn; auto|auto].
  - right. exists e'. cbn. auto.
Qed.

Lemma open_files_le max s init : 0 <= max -> zlen init <= max -> files_le max (rf_open max s init).
Proof.
  intros Hm Hi. unfold rf_open. apply files_le_reopen; [exact Hm|]. unfold files_le; cbn. repeat split; auto.
Qed.

Lemma size_bound max s init ops st rets :
  0 <= max -> zlen init <= max ->
  run (rf_open max s init) [] ops = Some (st, rets) ->
  zlen (rf_cur st) <= max /\
  (forall x, In x (rf_rot st) -> zlen (snd x) <= max) /\
  Forall (fun c => zlen c <= max) (rf_moved st) /\
  Forall (fun c => zlen c <= max) (rf_gone st).
Proof.
  intros Hm Hi H.
  destruct (run_total max Hm ops _ [] (ginv_open max s init Hm)) as (st' & Hrun & G).
  rewrite H in Hrun. inversion Hrun; subst st'.
  pose proof (run_files_le max Hm ops _ _ _ _ (ginv_open max s init Hm) (open_files_le max s init Hm Hi) H) as (F1 & F2 & F3 & F4).
  repeat split; auto. intros x Hx. rewrite (g_rot _ _ G) in Hx.
  apply in_replay in Hx as [[]|(e & He & ->)]. cbn. rewrite Forall_forall in F2. apply F2, He.
Qed.

(* ---- byte accounting: nothing handed to Write disappears except the skipped bytes ---- *)
Lemma run_stream max : 0 <= max -> forall ops st rets st' rets',
  ginv max st -> rf_exists st = true -> no_ext ops = true ->
  run st rets ops = Some (st', rets') ->
  rf_exists st' = true /\
  hist_stream (rf_hist st') ++ rf_cur st' = hist_stream (rf_hist st) ++ rf_cur st ++ written_of ops.
Proof.
  intros Hm. induction ops as [|o r IH]; intros st rets st' rets' G Ex Hn H; cbn [run written_of] in *.
  - inversion H; subst. rewrite app_nil_r. auto.
  - destruct o as [clk p| | |s]; cbn [no_ext forallb] in Hn; try discriminate.
    + destruct (ginv_write max clk st p G) as (st1 & hs & Hr & G1 & Hp). rewrite Hr in H.
      assert (Ea : after_stat st = st) by (unfold after_stat; rewrite Ex; reflexivity).
      rewrite Ea in Hp. destruct Hp. destruct wp_inv0 as (Ex1 & _).
      destruct (IH st1 _ _ _ G1 Ex1 Hn H) as (E' & S'). split; [exact E'|].
      rewrite S', wp_hist0, hist_stream_app, <- !app_assoc. f_equal.
      rewrite (app_assoc (hist_stream hs)), wp_stream0, <- app_assoc. reflexivity.
    + assert (Ex1 : rf_exists (rf_reopen s st) = true)
        by (unfold rf_reopen; cbn [rf_pos rf_max]; destruct (_ <? _); reflexivity).
      destruct (IH _ _ _ _ (ginv_reopen max s st Hm G) Ex1 Hn H) as (E' & S'). split; [exact E'|].
      rewrite S'. unfold rf_reopen. cbn [rf_pos rf_max]. destruct (_ <? _); cbn [rf_hist rf_cur rotate]; [reflexivity|].
      rewrite hist_stream_app. unfold hist_stream at 2. cbn. rewrite !app_nil_r, <- app_assoc. reflexivity.
Qed.

Lemma open_stream max s init :
  rf_exists (rf_open max s init) = true /\
  hist_stream (rf_hist (rf_open max s init)) ++ rf_cur (rf_open max s init) = init.
Proof.
  unfold rf_open, rf_reopen. cbn [rf_pos rf_max rf_cur]. destruct (_ <? _); cbn; [auto|].
  unfold hist_stream; cbn. rewrite !app_nil_r. auto.
Qed.

Lemma bytes_accounted max s init ops st rets :
  0 <= max -> no_ext ops = true ->
  run (rf_open max s init) [] ops = Some (st, rets) ->
  hist_stream (rf_hist st) ++ rf_cur st = init ++ written_of ops.
Proof.
  intros Hm Hn H. destruct (open_stream max s init) as [Ex S0].
  destruct (run_stream max Hm ops _ _ _ _ (ginv_open max s init Hm) Ex Hn H) as [_ S].
  rewrite S, app_assoc, S0. reflexivity.
Qed.

(* ---- distinct seconds: nothing in the directory is ever replaced ---- *)
Lemma existsb_eqb_false x l : existsb (N.eqb x) l = false -> ~ In x l.
Proof.
  induction l as [|y l IH]; cbn; [tauto|]. intros H [->|Hi].
  - rewrite N.eqb_refl in H. discriminate.
  - apply orb_false_iff in H as [_ H]. exact (IH H Hi).
Qed.

Lemma nodup_b_NoDup l : nodup_b l = true -> NoDup l.
Proof.
  induction l as [|x l IH]; cbn; [constructor|]. intros H. apply andb_true_iff in H as [H1 H2].
  constructor; [apply existsb_eqb_false; destruct (existsb _ l); [discriminate|reflexivity]|auto].
Qed.

Lemma filter_keep_all s (d : list (N * bytes)) :
  ~ In s (map fst d) -> filter (fun e => negb (fst e =? s)%N) d = d.
Proof.
  induction d as [|x d IH]; cbn; [reflexivity|]. intros H.
  destruct (fst x =? s)%N eqn:E; [apply N.eqb_eq in E; tauto|]. cbn. f_equal. apply IH. tauto.
Qed.

Lemma replay_distinct hs : forall d,
  (forall e, In e hs -> ~ In (h_sec e) (map fst d)) -> NoDup (map h_sec hs) ->
  replay hs d = d ++ hist_files hs.
Proof.
  induction hs as [|e hs IH]; intros d Hd Hn; cbn; [rewrite app_nil_r; reflexivity|].
  inversion Hn as [|? ? Hnot Hn']; subst.
  unfold rot_set. rewrite filter_keep_all by (apply Hd; cbn; auto).
  change (fold_left _ hs ?x) with (replay hs x). rewrite IH; auto.
  - rewrite <- app_assoc. reflexivity.
  - intros e' He'. rewrite map_app, in_app_iff. cbn. intros [Hi|[Hi|[]]].
    + exact (Hd e' (or_intror He') Hi).
    + apply Hnot. rewrite Hi. apply in_map, He'.
Qed.

Lemma rot_is_history max st :
  ginv max st -> secs_distinct (rf_hist st) = true -> rf_rot st = hist_files (rf_hist st).
Proof.
  intros G Hd. rewrite (g_rot _ _ G). rewrite replay_distinct; [reflexivity|intros ? ? []|].
  apply nodup_b_NoDup, Hd.
Qed.

(* no rotation dropped a byte: every skipped byte string is the newline (or nothing, at open) *)
Lemma no_drop_skipped max st :
  ginv max st -> has_drop (rf_hist st) = false ->
  Forall (fun e => (h_kind e = RSplit /\ h_skipped e = [NL]) \/ (h_kind e = ROpen /\ h_skipped e = [])) (rf_hist st).
Proof.
  intros G Hd. pose proof (g_ok _ _ G) as Hk. unfold has_drop in Hd.
  induction (rf_hist st) as [|e h IH]; [constructor|].
  inversion Hk; subst. cbn [existsb] in Hd. apply orb_false_iff in Hd as [He Hh].
  constructor; [|auto]. unfold is_drop in He. destruct (h_kind e); [left|discriminate|right]; auto.
Qed.

(* ---- lines ---- *)
Lemma lines_of_nil_inv b : lines_of b = [] -> b = [].
Proof.
  destruct b as [|x r]; [reflexivity|]. cbn [lines_of].
  destruct (x =? NL)%N; [discriminate|]. destruct (lines_of r); discriminate.
Qed.

(* a newline ends a line whatever follows *)
Lemma lines_of_cut c : forall r, lines_of (c ++ NL :: r) = lines_of (c ++ [NL]) ++ lines_of r.
Proof.
  induction c as [|x c IH]; intros r; [reflexivity|]. cbn [app lines_of].
  destruct (x =? NL)%N; [rewrite IH; reflexivity|]. rewrite IH.
  destruct (lines_of (c ++ [NL])) as [|l ls] eqn:E; [|reflexivity].
  apply lines_of_nil_inv in E. destruct c; discriminate.
Qed.

(* a file whose last line lacks the terminator has the same lines *)
Lemma lines_of_unterminated c : c <> [] -> last c 0%N <> NL -> lines_of (c ++ [NL]) = lines_of c.
Proof.
  induction c as [|x c IH]; intros Hne Hl; [congruence|]. destruct c as [|y c].
  - cbn in Hl. cbn [app lines_of]. destruct (x =? NL)%N eqn:E; [apply N.eqb_eq in E; congruence|]. reflexivity.
  - assert (IH' : lines_of ((y :: c) ++ [NL]) = lines_of (y :: c)) by (apply IH; [discriminate|exact Hl]).
    change ((x :: y :: c) ++ [NL]) with (x :: ((y :: c) ++ [NL])).
    cbn [lines_of]. cbn [lines_of] in IH'. rewrite IH'. reflexivity.
Qed.

(* every newline is preceded by a byte that is not a newline: no empty lines *)
Definition no_blank (t : bytes) : Prop :=
  forall a b, t = a ++ NL :: b -> a <> [] /\ last a 0%N <> NL.

Definition aligned (b : bytes) : Prop := b = [] \/ exists b0, b = b0 ++ [NL].

Lemma last_app_cons (a : bytes) x b d : last (a ++ x :: b) d = last (x :: b) d.
Proof.
  induction a as [|y a IH]; [reflexivity|]. cbn [app]. 
  change (last (y :: a ++ x :: b) d) with (match a ++ x :: b with [] => y | _ => last (a ++ x :: b) d end).
  destruct (a ++ x :: b) eqn:E; [destruct a; discriminate|]. exact IH.
Qed.

Lemma no_blank_tail c t : no_blank (c ++ NL :: t) -> no_blank t.
Proof.
  intros H a b E. specialize (H (c ++ NL :: a) b). rewrite E, <- app_assoc in H. specialize (H eq_refl).
  destruct H as [_ H]. destruct a as [|y a].
  - exfalso. apply H. rewrite last_app_cons. reflexivity.
  - split; [discriminate|]. rewrite last_app_cons in H.
    change (last (NL :: y :: a) 0%N) with (last (y :: a) 0%N) in H. exact H.
Qed.

Definition ent_fine (e : hent) : Prop :=
  h_skipped e = [NL] \/ (h_skipped e = [] /\ aligned (h_content e)).

Lemma lines_of_history hs : forall cur t,
  hist_stream hs ++ cur = t -> no_blank t -> Forall ent_fine hs ->
  flat_map (fun e => lines_of (h_content e)) hs ++ lines_of cur = lines_of t.
Proof.
  induction hs as [|e hs IH]; intros cur t E Hb Hf; [cbn in *; subst; reflexivity|].
  inversion Hf as [|? ? He Hf']; subst. unfold hist_stream in *. cbn [map concat flat_map] in *.
  rewrite <- !app_assoc in *. destruct He as [Hs|[Hs [Hc|[c0 Hc]]]]; rewrite Hs in *; cbn [app] in *.
  - destruct (Hb _ _ eq_refl) as [Hne Hl].
    rewrite lines_of_cut, lines_of_unterminated by assumption. f_equal.
    apply IH; [reflexivity| |exact Hf']. eapply no_blank_tail, Hb.
  - rewrite Hc in *. cbn [app lines_of] in *. apply IH; auto.
  - rewrite Hc in *. rewrite <- !app_assoc in *. cbn [app] in *.
    match goal with |- _ = lines_of (c0 ++ NL :: ?r) => rewrite (lines_of_cut c0 r) end.
    f_equal. apply IH; [reflexivity| |exact Hf']. eapply no_blank_tail, Hb.
Qed.

(* executable forms of the hypotheses *)
Fixpoint nb (prev_nl : bool) (t : bytes) : bool :=
  match t with
  | [] => true
  | x :: r => if (x =? NL)%N then negb prev_nl && nb true r else nb false r
  end.
Definition no_blank_b (t : bytes) : bool := nb true t.

Definition aligned_b (b : bytes) : bool :=
  match b with [] => true | _ => (last b 0 =? NL)%N end.

Lemma nb_sound t : forall q a b, nb q t = true -> t = a ++ NL :: b ->
  (a = [] -> q = false) /\ (a <> [] -> last a 0%N <> NL).
Proof.
  induction t as [|x r IH]; intros q a b H E; [destruct a; discriminate|].
  cbn [nb] in H. destruct a as [|y a]; cbn [app] in E; inversion E; subst.
  - rewrite N.eqb_refl in H. apply andb_true_iff in H as [H _]. split; [intros _; destruct q; [discriminate|reflexivity]|congruence].
  - split; [discriminate|]. intros _.
    destruct (y =? NL)%N eqn:Ey.
    + apply andb_true_iff in H as [_ H]. destruct (IH true a b H eq_refl) as [H1 H2].
      destruct a as [|z a]; [specialize (H1 eq_refl); discriminate|].
      change (last (y :: z :: a) 0%N) with (last (z :: a) 0%N). apply H2. discriminate.
    + destruct (IH false a b H eq_refl) as [H1 H2].
      destruct a as [|z a]; [cbn; apply N.eqb_neq, Ey|].
      change (last (y :: z :: a) 0%N) with (last (z :: a) 0%N). apply H2. discriminate.
Qed.

Lemma no_blank_b_sound t : no_blank_b t = true -> no_blank t.
Proof.
  intros H a b E. destruct (nb_sound t true a b H E) as [H1 H2].
  assert (a <> []) by (intros ->; specialize (H1 eq_refl); discriminate). auto.
Qed.

Lemma aligned_b_sound b : aligned_b b = true -> aligned b.
Proof.
  unfold aligned_b, aligned. destruct b as [|x r]; [auto|]. intros H. right.
  destruct (@exists_last _ (x :: r)) as (b0 & z & E); [discriminate|]. rewrite E in *.
  rewrite last_last in H. apply N.eqb_eq in H. subst. eauto.
Qed.

Lemma aligned_suffix a b : aligned (a ++ b) -> aligned b.
Proof.
  intros [H|[c H]]; [apply app_eq_nil in H as [_ ->]; left; reflexivity|].
  destruct b as [|x r]; [left; reflexivity|]. right.
  destruct (@exists_last _ (x :: r)) as (b0 & z & E); [discriminate|]. rewrite E in *.
  rewrite app_assoc in H. apply app_inj_tail in H as [_ ->]. eauto.
Qed.

Lemma aligned_app a b : aligned a -> aligned b -> aligned (a ++ b).
Proof.
  intros Ha [->|[b0 ->]]; [rewrite app_nil_r; exact Ha|]. right. exists (a ++ b0). rewrite app_assoc. reflexivity.
Qed.

Definition open_aligned (h : list hent) : Prop :=
  Forall (fun e => h_kind e = ROpen -> aligned (h_content e)) h.

Fixpoint writes_aligned (ops : list op) : bool :=
  match ops with
  | [] => true
  | OWrite _ p :: r => aligned_b p && writes_aligned r
  | _ :: r => writes_aligned r
  end.

Lemma reopen_aligned s st :
  aligned (rf_cur st) -> open_aligned (rf_hist st) ->
  aligned (rf_cur (rf_reopen s st)) /\ open_aligned (rf_hist (rf_reopen s st)).
Proof.
  intros Ha Ho. unfold rf_reopen. cbn [rf_pos rf_max]. destruct (_ <? _); cbn; [auto|].
  split; [left; reflexivity|]. apply Forall_app. split; [exact Ho|]. constructor; [auto|constructor].
Qed.

Lemma run_aligned max : 0 <= max -> forall ops st rets st' rets',
  ginv max st -> aligned (rf_cur st) -> open_aligned (rf_hist st) -> writes_aligned ops = true ->
  run st rets ops = Some (st', rets') ->
  aligned (rf_cur st') /\ open_aligned (rf_hist st').
Proof.
  intros Hm. induction ops as [|o r IH]; intros st rets st' rets' G Ha Ho Hw H; cbn [run writes_aligned] in *.
  - inversion H; subst. auto.
  - destruct o as [clk p| | |s].
    + apply andb_true_iff in Hw as [Hp Hw]. apply aligned_b_sound in Hp.
      destruct (ginv_write max clk st p G) as (st1 & hs & Hr & G1 & Hpost). rewrite Hr in H.
      destruct (after_stat_winv st (g_rinv _ _ G)) as [_ Ec].
      destruct (after_stat_fields st) as (_ & _ & _ & Eh & _). destruct Hpost.
      eapply IH; [exact G1| | |exact Hw|exact H].
      * apply (aligned_suffix (hist_stream hs)). rewrite wp_stream0, Ec. apply aligned_app; assumption.
      * unfold open_aligned. rewrite wp_hist0, Eh. apply Forall_app. split; [exact Ho|].
        eapply Forall_impl; [|exact wp_kind0]. intros e He Hk. congruence.
    + eapply IH; [apply ginv_remove, G| | |exact Hw|exact H]; unfold ext_remove; destruct (rf_exists st); cbn; auto. left; reflexivity.
    + eapply IH; [apply ginv_move, G| | |exact Hw|exact H]; unfold ext_move; destruct (rf_exists st); cbn; auto. left; reflexivity.
    + destruct (reopen_aligned s st Ha Ho) as [Ha' Ho'].
      eapply IH; [apply ginv_reopen; [exact Hm|exact G]|exact Ha'|exact Ho'|exact Hw|exact H].
Qed.

Lemma flat_map_contents (hs : list hent) :
  flat_map lines_of (map snd (hist_files hs)) = flat_map (fun e => lines_of (h_content e)) hs.
Proof.
  unfold hist_files. induction hs as [|e hs IH]; [reflexivity|].
  cbn [map flat_map snd]. f_equal. exact IH.
Qed.

(* outside the finding classes the files hold exactly the lines written, in order, each once *)
Lemma lines_kept max s init ops st rets :
  0 <= max -> no_ext ops = true ->
  aligned_b init = true -> writes_aligned ops = true -> no_blank_b (init ++ written_of ops) = true ->
  run (rf_open max s init) [] ops = Some (st, rets) ->
  has_drop (rf_hist st) = false -> secs_distinct (rf_hist st) = true ->
  rf_rot st = hist_files (rf_hist st) /\
  flat_map lines_of (map snd (rf_rot st)) ++ lines_of (rf_cur st) = lines_of (init ++ written_of ops).
Proof.
  intros Hm Hn Hi Hw Hb H Hd Hs.
  destruct (run_total max Hm ops _ [] (ginv_open max s init Hm)) as (st' & Hrun & G).
  rewrite H in Hrun. inversion Hrun; subst st'. clear Hrun.
  pose proof (rot_is_history max st G Hs) as Hrot. split; [exact Hrot|].
  rewrite Hrot, flat_map_contents.
  apply lines_of_history.
  - eapply bytes_accounted; eauto.
  - apply no_blank_b_sound, Hb.
  - assert (Hopen : aligned (rf_cur (rf_open max s init)) /\ open_aligned (rf_hist (rf_open max s init))).
    { unfold rf_open. apply reopen_aligned; cbn; [apply aligned_b_sound, Hi|constructor]. }
    destruct Hopen as [Ha0 Ho0].
    destruct (run_aligned max Hm ops _ _ _ _ (ginv_open max s init Hm) Ha0 Ho0 Hw H) as [_ Ho].
    pose proof (no_drop_skipped max st G Hd) as Hk.
    unfold open_aligned in Ho. rewrite Forall_forall in *. intros e He.
    destruct (Hk e He) as [[_ Hsk]|[Hkd Hsk]]; [left; exact Hsk|right; split; [exact Hsk|apply Ho; assumption]].
Qed.

(* ---- the channel: Send returns whenever the destination could be opened ---- *)
Lemma wl_never_blocks max : 0 <= max -> forall es w,
  wl_alive w = true -> wl_blocked w = false -> ginv max (wl_rf w) ->
  exists w', wl_run w es = Some w' /\ wl_alive w' = true /\ wl_blocked w' = false.
Proof.
  intros Hm. induction es as [|e es IH]; intros w Ha Hb G; cbn [wl_run]; [eauto|].
  assert (Hfl : forall s w0, wl_alive w0 = true -> wl_blocked w0 = false -> ginv max (wl_rf w0) ->
           exists w1, wl_flush s w0 = Some w1 /\ wl_alive w1 = true /\ wl_blocked w1 = false /\ ginv max (wl_rf w1)).
  { intros s w0 Ha0 Hb0 G0. unfold wl_flush. destruct (wl_buf w0) as [|l ls] eqn:Eb; [eauto|].
    destruct (ginv_write max (fun _ => s) (wl_rf w0) (concat (l :: ls)) G0) as (st' & hs & Hr & G' & _).
    rewrite Hr. eexists. split; [reflexivity|]. cbn. auto. }
  unfold wl_step. rewrite Ha, Hb. cbn [negb].
  destruct e as [s line|s].
  - cbn zeta. destruct (_ <? FLUSH_BYTES).
    + apply IH; cbn; auto.
    + destruct (Hfl s (mkWL true (wl_rf w) (wl_buf w ++ [line]) (wl_len w + zlen line) false)) as (w1 & -> & A1 & B1 & G1); cbn; auto.
  - destruct (Hfl s w Ha Hb G) as (w1 & -> & A1 & B1 & G1). auto.
Qed.

Lemma wl_openable_never_blocks max s init es :
  0 <= max -> exists w, wl_run (wl_new max true s init) es = Some w /\ wl_blocked w = false.
Proof.
  intros Hm. destruct (wl_never_blocks max Hm es (wl_new max true s init)) as (w & H & _ & B); cbn; auto.
  - apply ginv_open, Hm.
  - eauto.
Qed.

(* ... and blocks for ever when it could not *)
Lemma wl_unopenable_blocks max s init es line s' :
  exists w, wl_run (wl_new max false s init) (ESend s' line :: es) = Some w /\ wl_blocked w = true.
Proof.
  cbn [wl_new wl_run wl_step wl_alive negb].
  generalize (mkRF max 0 false [] [] [] [] []). intros st0. generalize (@nil bytes), 0.
  induction es as [|e es IH]; intros buf len; cbn [wl_run]; [eauto|].
  cbn [wl_step wl_alive negb]. destruct e; apply IH.
Qed.

(* ---- statements used by Properties.v ---- *)
Lemma write_total clk st p :
  rinv st -> exists st', rf_write clk st p = WOk st' (zlen p) /\ rinv st' /\ rf_max st' = rf_max st.
Proof.
  intros H. destruct (rf_write_ok clk st p H) as (st' & hs & Hr & Hp). exists st'. split; [exact Hr|].
  destruct Hp. split; [apply winv_rinv; assumption|]. rewrite wp_max0. apply after_stat_fields.
Qed.

Lemma history_total max s init ops :
  0 <= max -> exists st, run (rf_open max s init) [] ops = Some (st, written_lens ops) /\ rinv st.
Proof.
  intros Hm. destruct (run_total max Hm ops _ [] (ginv_open max s init Hm)) as (st & H & G).
  exists st. split; [exact H|apply G].
Qed.

(* one Write, whatever happened to the file before: the bytes of p are in the active file or in
   the files this call rotated away, in order, except one skipped byte per rotation *)
Lemma write_accounts clk st p :
  rinv st ->
  exists st' hs, rf_write clk st p = WOk st' (zlen p) /\
    rf_hist st' = rf_hist st ++ hs /\
    hist_stream hs ++ rf_cur st' = rf_cur st ++ p /\
    Forall (fun e => zlen (h_content e) <= rf_max st /\
                     (h_kind e = RSplit /\ h_skipped e = [NL] \/ h_kind e = RDrop /\ exists x, h_skipped e = [x])) hs /\
    map h_sec hs = map clk (seq 0 (length hs)).
Proof.
  intros H. destruct (rf_write_ok clk st p H) as (st' & hs & Hr & Hp). exists st', hs. split; [exact Hr|].
  destruct (after_stat_winv st H) as [_ Ec]. destruct (after_stat_fields st) as (Em & _ & _ & Eh & _).
  destruct Hp. rewrite Eh in wp_hist0. rewrite Ec in wp_stream0. rewrite Em in wp_ok0.
  repeat split; auto.
  rewrite Forall_forall in *. intros e He. destruct (wp_ok0 e He) as [Hl Hk]. specialize (wp_kind0 e He).
  split; [exact Hl|]. destruct (h_kind e); [left|right|congruence]; auto.
Qed.

Lemma rotated_never_replaced max s init ops st rets :
  0 <= max -> run (rf_open max s init) [] ops = Some (st, rets) ->
  secs_distinct (rf_hist st) = true -> rf_rot st = hist_files (rf_hist st).
Proof.
  intros Hm H Hs. destruct (run_total max Hm ops _ [] (ginv_open max s init Hm)) as (st' & Hrun & G).
  rewrite H in Hrun. inversion Hrun; subst st'. eapply rot_is_history; eauto.
Qed.

(* ---- witnesses of the three shortcomings ---- *)
Definition mkline (c n : N) : bytes := 123%N :: repeat c (N.to_nat n) ++ [125%N; NL].  (* n + 3 bytes *)
Definition clk0 : nat -> N := fun _ => 0%N.

(* (a) max 1024: a 1000-byte line, then a 100-byte line *)
Definition wit_a : list op := [OWrite clk0 (mkline 97 997); OWrite clk0 (mkline 98 97)].
(* (b) max 1024: one batch of 25 lines of 100 bytes, one clock reading *)
Definition wit_b : list op :=
  [OWrite clk0 (concat (map (fun i => mkline (97 + N.of_nat i) 97) (seq 0 25)))].

Definition files_lines (st : rf) : list bytes :=
  flat_map lines_of (map snd (rf_rot st)) ++ lines_of (rf_cur st).

Lemma neq_by_dec (a b : list bytes) :
  (if list_eq_dec (list_eq_dec N.eq_dec) a b then true else false) = false -> a <> b.
Proof. destruct (list_eq_dec (list_eq_dec N.eq_dec) a b); [discriminate|auto]. Qed.

Lemma wit_a_result :
  exists st rets, run (rf_open 1024 0 []) [] wit_a = Some (st, rets) /\
    no_ext wit_a = true /\ writes_aligned wit_a = true /\ no_blank_b (written_of wit_a) = true /\
    secs_distinct (rf_hist st) = true /\ has_drop (rf_hist st) = true /\
    rf_cur st = tl (mkline 98 97) /\
    files_lines st <> lines_of (written_of wit_a).
Proof.
  eexists. eexists. split; [vm_compute; reflexivity|].
  repeat split; try (vm_compute; reflexivity).
  apply neq_by_dec. vm_compute. reflexivity.
Qed.

Lemma wit_b_result :
  exists st rets, run (rf_open 1024 0 []) [] wit_b = Some (st, rets) /\
    no_ext wit_b = true /\ writes_aligned wit_b = true /\ no_blank_b (written_of wit_b) = true /\
    has_drop (rf_hist st) = false /\ secs_distinct (rf_hist st) = false /\
    (length (rf_hist st) = 2 /\ length (rf_rot st) = 1)%nat /\
    files_lines st <> lines_of (written_of wit_b).
Proof.
  eexists. eexists. split; [vm_compute; reflexivity|].
  repeat split; try (vm_compute; reflexivity).
  apply neq_by_dec. vm_compute. reflexivity.
Qed.

(* the full statement of the property on the model *)
Definition full_lines : Prop := forall max s init ops st rets,
  1024 <= max -> no_ext ops = true ->
  aligned_b init = true -> writes_aligned ops = true -> no_blank_b (init ++ written_of ops) = true ->
  run (rf_open max s init) [] ops = Some (st, rets) ->
  files_lines st = lines_of (init ++ written_of ops).

Definition full_send : Prop := forall max openable s init es w,
  1024 <= max -> wl_run (wl_new max openable s init) es = Some w -> wl_blocked w = false.

Lemma full_lines_refuted_by ops :
  (exists st rets, run (rf_open 1024 0 []) [] ops = Some (st, rets) /\
     no_ext ops = true /\ writes_aligned ops = true /\ no_blank_b (written_of ops) = true /\
     files_lines st <> lines_of (written_of ops)) -> ~ full_lines.
Proof.
  intros (st & rets & Hr & H1 & H2 & H3 & Hne) F. apply Hne.
  apply (F 1024 0%N [] ops st rets); auto. lia.
Qed.

Lemma full_lines_refuted_a : ~ full_lines.
Proof.
  apply (full_lines_refuted_by wit_a). destruct wit_a_result as (st & rets & H). exists st, rets. tauto.
Qed.

Lemma full_lines_refuted_b : ~ full_lines.
Proof.
  apply (full_lines_refuted_by wit_b). destruct wit_b_result as (st & rets & H). exists st, rets. tauto.
Qed.

Lemma full_send_refuted : ~ full_send.
Proof.
  intros F. destruct (wl_unopenable_blocks 1024 0%N [] [] [123; 125; NL]%N 0%N) as (w & Hr & Hb).
  rewrite (F 1024 false 0%N [] _ w ltac:(lia) Hr) in Hb. discriminate.
Qed.

Lemma full_refuted : ~ (full_lines /\ full_send).
Proof. intros [H _]. exact (full_lines_refuted_a H). Qed.

(* ---- the scan: the index loop of the Go code and the structural split agree ---- *)
Lemma scan_down_spec p : forall j,
  (j < length p)%nat ->
  match split_last_nl (firstn j (tl p)) with
  | Some (a, _) => scan_down p j = S (length a)
  | None => scan_down p j = O
  end.
Proof.
  destruct p as [|x0 p]; [cbn; lia|]. cbn [tl length].
  induction j as [|j IH]; intros Hj; [reflexivity|].
  cbn [scan_down]. change (nth (S j) (x0 :: p) 0%N) with (nth j p 0%N).
  assert (Hlt : (j < length p)%nat) by lia.
  assert (E : firstn (S j) p = firstn j p ++ [nth j p 0%N]).
  { clear -Hlt. revert j Hlt. induction p as [|y p IHp]; intros j Hlt; [cbn in Hlt; lia|].
    destruct j; [reflexivity|]. cbn [firstn nth app]. f_equal. apply IHp. cbn in Hlt. lia. }
  rewrite E. specialize (IH ltac:(lia)).
  assert (Happ : forall l y, split_last_nl (l ++ [y]) =
            if (y =? NL)%N then Some (l, [])
            else match split_last_nl l with Some (a, b) => Some (a, b ++ [y]) | None => None end).
  { clear. induction l as [|z l IHl]; intros y; cbn [app split_last_nl].
    - destruct (y =? NL)%N; reflexivity.
    - rewrite IHl. destruct (y =? NL)%N; [reflexivity|]. destruct (split_last_nl l) as [[a b]|]; [reflexivity|].
      destruct (z =? NL)%N; reflexivity. }
  rewrite Happ. destruct (nth j p 0%N =? NL)%N eqn:En.
  - rewrite firstn_length. f_equal. lia.
  - destruct (split_last_nl (firstn j p)) as [[a b]|]; exact IH.
Qed.
