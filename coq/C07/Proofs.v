(* C07 - lemmas about the model of rotateFile / writeLoop (repaired code). *)
From HT Require Import Common.Bytes C07.Model C07.Check.
From Coq Require Import ZifyBool ZifyN ZifyNat FinFun.
Open Scope Z_scope.

(* ---- the scans ---- *)
Lemma split_last_nl_some l : forall a b,
  split_last_nl l = Some (a, b) ->
  l = a ++ NL :: b /\ forallb (fun x => negb (x =? NL)%N) b = true.
Proof.
  induction l as [|x r IH]; intros a b H; cbn [split_last_nl] in H; [discriminate|].
  destruct (split_last_nl r) as [[a' b']|] eqn:E.
  - inversion H; subst. destruct (IH a' b eq_refl) as [-> Hb]. split; [reflexivity|exact Hb].
  - destruct (x =? NL)%N eqn:Ex; [|discriminate]. inversion H; subst.
    apply N.eqb_eq in Ex; subst. split; [reflexivity|].
    clear IH H. revert E. induction b as [|y b IHb]; intros E; [reflexivity|].
    cbn [split_last_nl] in E. destruct (split_last_nl b) as [[? ?]|]; [discriminate|].
    destruct (y =? NL)%N eqn:Ey; [discriminate|]. cbn [forallb]. rewrite Ey. cbn. apply IHb. reflexivity.
Qed.

Lemma split_last_nl_none l :
  split_last_nl l = None -> forallb (fun x => negb (x =? NL)%N) l = true.
Proof.
  induction l as [|x r IH]; intros H; [reflexivity|]. cbn [split_last_nl] in H.
  destruct (split_last_nl r) as [[? ?]|]; [discriminate|].
  destruct (x =? NL)%N eqn:Ex; [discriminate|]. cbn [forallb]. rewrite Ex. cbn. apply IH. reflexivity.
Qed.

Lemma split_first_nl_some l : forall a b,
  split_first_nl l = Some (a, b) -> l = a ++ NL :: b /\ ~ In NL a.
Proof.
  induction l as [|x r IH]; intros a b H; cbn [split_first_nl] in H; [discriminate|].
  destruct (x =? NL)%N eqn:Ex.
  - inversion H; subst. apply N.eqb_eq in Ex; subst. split; [reflexivity|intros []].
  - destruct (split_first_nl r) as [[a' b']|]; [|discriminate]. inversion H; subst.
    destruct (IH a' b eq_refl) as [-> Hn]. split; [reflexivity|].
    intros [E|Hi]; [subst; rewrite N.eqb_refl in Ex; discriminate|auto].
Qed.

Lemma split_first_nl_none l : split_first_nl l = None -> ~ In NL l.
Proof.
  induction l as [|x r IH]; intros H; [intros []|]. cbn [split_first_nl] in H.
  destruct (x =? NL)%N eqn:Ex; [discriminate|].
  destruct (split_first_nl r) as [[? ?]|]; [discriminate|].
  intros [E|Hi]; [subst; rewrite N.eqb_refl in Ex; discriminate|exact (IH eq_refl Hi)].
Qed.

Lemma longer_spec p : forall k, longer p k = (k <? length p)%nat.
Proof.
  induction p as [|x r IH]; intros k; destruct k; cbn [longer length]; try reflexivity.
  rewrite IH. reflexivity.
Qed.

Lemma exceeds_spec p k : exceeds p k = (k <? zlen p).
Proof.
  unfold exceeds. pose proof (zlen_nonneg p). destruct (k <? 0) eqn:E; [lia|].
  rewrite longer_spec. unfold zlen. lia.
Qed.

(* one window scan: p[j] is always in range under the loop condition; a found newline
   splits p after at most j bytes *)
Lemma window_scan_spec p j : j < zlen p ->
  match window_scan p j with
  | SFound a rest => p = a ++ NL :: rest /\ a <> [] /\ zlen a <= j
  | SNone => True
  | SOutOfRange => False
  end.
Proof.
  intros Hj. unfold window_scan. destruct (j <=? 0) eqn:E0; [exact I|].
  assert (E1 : negb (exceeds p j) = false) by (rewrite exceeds_spec; lia). rewrite E1.
  destruct p as [|x0 p']; [unfold zlen in Hj; cbn in Hj; lia|]. cbn [firstn skipn].
  set (n := Z.to_nat j).
  destruct (split_last_nl (firstn n p')) as [[a b]|] eqn:Es; [|exact I].
  apply split_last_nl_some in Es as [Ew _].
  pose proof (firstn_skipn n p') as Hfs. pose proof (firstn_le_length n p') as Hfl.
  repeat split.
  - rewrite <- Hfs at 1. rewrite Ew. cbn [app]. rewrite <- app_assoc. reflexivity.
  - discriminate.
  - rewrite Ew, app_length in Hfl. cbn [length] in Hfl. unfold zlen. cbn [length]. lia.
Qed.

(* ---- names: rotate() always finds a name that does not exist ---- *)
Lemma ks_of_In s k d : In k (ks_of s d) <-> In (s, k) (map fst d).
Proof.
  unfold ks_of. rewrite in_flat_map, in_map_iff. split.
  - intros (e & He & H). destruct (fst (fst e) =? s)%N eqn:E; [|destruct H].
    destruct H as [H|[]]. apply N.eqb_eq in E. exists e. split; [|exact He].
    destruct e as [[a b] c]; cbn in *. congruence.
  - intros (e & He & Hi). exists e. split; [exact Hi|]. destruct e as [[a b] c]; cbn in *.
    inversion He; subst. rewrite N.eqb_refl. left. reflexivity.
Qed.

Lemma remove_one_none k l : remove_one k l = None -> ~ In k l.
Proof.
  induction l as [|x r IH]; cbn [remove_one]; [intros _ []|].
  destruct (x =? k)%N eqn:E; [discriminate|]. destruct (remove_one k r); [discriminate|].
  intros _ [H|H]; [subst; rewrite N.eqb_refl in E; discriminate|exact (IH eq_refl H)].
Qed.

Lemma remove_one_some k l : forall l', remove_one k l = Some l' ->
  In k l /\ length l = S (length l') /\ (forall x, In x l -> x = k \/ In x l') /\ (forall x, In x l' -> In x l).
Proof.
  induction l as [|x r IH]; cbn [remove_one]; intros l' H; [discriminate|].
  destruct (x =? k)%N eqn:E.
  - inversion H; subst. apply N.eqb_eq in E; subst. cbn. repeat split; auto. intros y [->|Hy]; auto.
  - destruct (remove_one k r) as [r'|] eqn:Er; [|discriminate]. inversion H; subst.
    destruct (IH r' eq_refl) as (I1 & I2 & I3 & I4). cbn [length In]. repeat split; auto.
    + intros y [->|Hy]; [right; left; reflexivity|]. destruct (I3 y Hy); auto.
    + intros y [->|Hy]; auto.
Qed.

(* invariant of the search: [cur] is [orig] with 0 .. k-1 struck off *)
Lemma mex_spec orig : forall fuel k cur,
  length cur = fuel ->
  (forall x, In x orig -> In x cur \/ (x < k)%N) -> (forall x, In x cur -> In x orig) ->
  (forall j, (j < k)%N -> In j orig) ->
  ~ In (mex fuel k cur) orig /\ (forall j, (j < mex fuel k cur)%N -> In j orig).
Proof.
  induction fuel as [|f IH]; intros k cur Hl H1 H2 H3; cbn [mex].
  - destruct cur; [|discriminate]. split; [|exact H3].
    intros Hi. destruct (H1 k Hi) as [[]|Hk]. lia.
  - destruct (remove_one k cur) as [cur'|] eqn:Er.
    + destruct (remove_one_some k cur cur' Er) as (I1 & I2 & I3 & I4).
      apply IH.
      * lia.
      * intros x Hx. destruct (H1 x Hx) as [Hc|Hk]; [|right; lia].
        destruct (I3 x Hc) as [->|Hc']; [right; lia|left; exact Hc'].
      * intros x Hx. apply H2, I4, Hx.
      * intros j Hj. destruct (N.eq_dec j k) as [->|Hne]; [apply H2, I1|apply H3; lia].
    + apply remove_one_none in Er. split; [|exact H3].
      intros Hi. destruct (H1 k Hi) as [Hc|Hk]; [exact (Er Hc)|lia].
Qed.

Lemma free_k_spec s d :
  ~ In (s, free_k s d) (map fst d) /\ (forall j, (j < free_k s d)%N -> In (s, j) (map fst d)).
Proof.
  unfold free_k. destruct (mex_spec (ks_of s d) (length (ks_of s d)) 0%N (ks_of s d) eq_refl) as [A B];
    [auto|auto|intros j Hj; lia|].
  split; [rewrite <- ks_of_In; exact A|intros j Hj; apply ks_of_In, B, Hj].
Qed.

Lemma free_k_fresh s d : ~ In (s, free_k s d) (map fst d).
Proof. apply free_k_spec. Qed.

(* ---- invariants ---- *)
(* between calls: pos is the length of the file whenever it exists *)
Definition rinv (st : rf) : Prop :=
  (rf_exists st = true -> rf_pos st = zlen (rf_cur st)) /\
  (rf_exists st = false -> rf_cur st = []).

(* inside Write after the Stat/reopen step *)
Definition winv (st : rf) : Prop := rf_exists st = true /\ rf_pos st = zlen (rf_cur st).

(* a file is at most max bytes long unless it is one single (unterminated) line *)
Definition fits (max : Z) (c : bytes) : Prop := zlen c <= max \/ ~ In NL c.

Definition aligned (b : bytes) : Prop := b = [] \/ exists b0, b = b0 ++ [NL].

(* a file left <path> at a line boundary: either the loop skipped the newline that ends its last
   line, or nothing was skipped and the file ends with a newline (or is empty) *)
Definition ent_fine (e : hent) : Prop :=
  h_skipped e = [NL] \/ (h_skipped e = [] /\ aligned (h_content e)).

Definition loop_kind (e : hent) : Prop :=
  h_kind e = RSplit \/ h_kind e = RFresh \/ h_kind e = RLong.

Lemma hist_stream_app a b : hist_stream (a ++ b) = hist_stream a ++ hist_stream b.
Proof. unfold hist_stream. rewrite map_app, concat_app. reflexivity. Qed.

Lemma zlen0_nil {A} (l : list A) : zlen l = 0 -> l = [].
Proof. destruct l; [reflexivity|]. unfold zlen; cbn; lia. Qed.

(* ---- one call of Write ---- *)
Record write_post (clk : nat -> N) (i : nat) (st st' : rf) (p : bytes) (hs : list hent) : Prop := {
  wp_inv : winv st';
  wp_max : rf_max st' = rf_max st;
  wp_moved : rf_moved st' = rf_moved st;
  wp_gone : rf_gone st' = rf_gone st;
  wp_hist : rf_hist st' = rf_hist st ++ hs;
  wp_rot : rf_rot st' = rf_rot st ++ hist_files hs;
  wp_stream : hist_stream hs ++ rf_cur st' = rf_cur st ++ p;
  wp_fits : fits (rf_max st) (rf_cur st) ->
            Forall (fun e => fits (rf_max st) (h_content e)) hs /\ fits (rf_max st) (rf_cur st');
  wp_fine : aligned (rf_cur st) -> Forall ent_fine hs;
  wp_kind : Forall loop_kind hs;
  wp_skip : Forall (fun e => h_skipped e = [NL] \/ (h_skipped e = [] /\ h_kind e = RFresh)) hs;
  wp_secs : map h_sec hs = map clk (seq i (length hs));
  wp_nodup : NoDup (map fst (rf_rot st)) -> NoDup (map fst (rf_rot st'))
}.

Lemma NoDup_snoc {A} (l : list A) x : NoDup l -> ~ In x l -> NoDup (l ++ [x]).
Proof.
  induction l as [|y l IH]; intros Hn Hx; cbn; [constructor; [intros []|constructor]|].
  inversion Hn; subst. constructor.
  - rewrite in_app_iff. cbn. intros [H|[H|[]]]; [auto|subst; apply Hx; left; reflexivity].
  - apply IH; [assumption|intros H; apply Hx; right; exact H].
Qed.

Lemma rotate_nodup s sk kd st :
  NoDup (map fst (rf_rot st)) -> NoDup (map fst (rf_rot (rotate s sk kd st))).
Proof.
  intros H. cbn [rotate rf_rot]. rewrite map_app. cbn [map fst].
  apply NoDup_snoc; [exact H|apply free_k_fresh].
Qed.

Definition measure (st : rf) (p : bytes) : nat :=
  (2 * length p + (if (0 <? rf_pos st)%Z then 1 else 0))%nat.

Lemma fits_nil max : fits max [].
Proof. right. intros []. Qed.

Lemma aligned_nil : aligned [].
Proof. left. reflexivity. Qed.

(* the loop exits: final write *)
Lemma final_post clk i st p :
  winv st ->
  (rf_pos st + zlen p <= rf_max st \/ (rf_cur st = [] /\ ~ In NL p)) ->
  write_post clk i st (set_pos (put st p) (rf_pos st + zlen p)) p [].
Proof.
  intros (Hex & Hpos) Hc. constructor; cbn; auto.
  - unfold winv. cbn. rewrite zlen_app. split; [exact Hex|lia].
  - rewrite app_nil_r. reflexivity.
  - rewrite app_nil_r. reflexivity.
  - intros _. split; [constructor|]. destruct Hc as [Hc|[Hc Hn]].
    + left. rewrite zlen_app. lia.
    + right. rewrite Hc. exact Hn.
Qed.

(* one iteration that rotates: [a] is appended to the file, the file is rotated, [sk] is
   skipped, the loop goes on with [p1] *)
Lemma post_cons clk i st st0 st' a sk kd p1 hs p :
  rf_max st0 = rf_max st -> rf_moved st0 = rf_moved st -> rf_gone st0 = rf_gone st ->
  rf_hist st0 = rf_hist st -> rf_rot st0 = rf_rot st -> rf_cur st0 = rf_cur st ++ a ->
  p = a ++ sk ++ p1 ->
  (fits (rf_max st) (rf_cur st) -> fits (rf_max st) (rf_cur st ++ a)) ->
  (aligned (rf_cur st) -> ent_fine (mkH (clk i) (free_k (clk i) (rf_rot st)) (rf_cur st ++ a) sk kd)) ->
  (kd = RSplit \/ kd = RFresh \/ kd = RLong) ->
  (sk = [NL] \/ (sk = [] /\ kd = RFresh)) ->
  write_post clk (S i) (rotate (clk i) sk kd st0) st' p1 hs ->
  write_post clk i st st' p (mkH (clk i) (free_k (clk i) (rf_rot st)) (rf_cur st ++ a) sk kd :: hs).
Proof.
  intros Em Emv Eg Eh Er Ec Ep Hfit Hfine Hkd Hsk Hp. destruct Hp.
  cbn [rotate rf_max rf_moved rf_gone rf_hist rf_rot rf_cur] in *.
  rewrite Em, ?Emv, ?Eg, ?Eh, ?Er, ?Ec in *.
  constructor.
  - exact wp_inv0.
  - exact wp_max0.
  - exact wp_moved0.
  - exact wp_gone0.
  - rewrite wp_hist0, <- app_assoc. reflexivity.
  - rewrite wp_rot0, <- app_assoc. reflexivity.
  - unfold hist_stream in *. cbn [map concat h_content h_skipped].
    rewrite <- !app_assoc. rewrite wp_stream0. cbn [app]. rewrite Ep. reflexivity.
  - intros Hf. destruct (wp_fits0 (fits_nil _)) as [F1 F2]. split; [|exact F2].
    constructor; [apply Hfit, Hf|exact F1].
  - intros Ha. constructor; [apply Hfine, Ha|apply wp_fine0, aligned_nil].
  - constructor; [exact Hkd|exact wp_kind0].
  - constructor; [exact Hsk|exact wp_skip0].
  - cbn [map length seq h_sec]. rewrite wp_secs0. reflexivity.
  - intros Hn. apply wp_nodup0. rewrite map_app. cbn [map fst].
    apply NoDup_snoc; [exact Hn|apply free_k_fresh].
Qed.

Lemma write_loop_ok clk : forall fuel i st p w,
  winv st -> (measure st p < fuel)%nat ->
  exists st' hs, write_loop fuel clk i st p w = WOk st' (w + zlen p) /\ write_post clk i st st' p hs.
Proof.
  induction fuel as [|f IH]; intros i st p w Hinv Hf; [lia|].
  pose proof Hinv as (Hex & Hpos).
  cbn [write_loop].
  destruct (exceeds p (rf_max st - rf_pos st)) eqn:Hc; rewrite exceeds_spec in Hc.
  2:{ eexists. exists []. split; [reflexivity|]. apply final_post; [exact Hinv|left; lia]. }
  pose proof (window_scan_spec p (rf_max st - rf_pos st) ltac:(lia)) as Hs.
  unfold measure in Hf.
  destruct (window_scan p (rf_max st - rf_pos st)) as [a rest| |]; [| |contradiction].
  - (* a newline inside the window *)
    destruct Hs as (Hp & Hne & Hle).
    assert (Hlen : length p = (length a + 1 + length rest)%nat)
      by (rewrite Hp, app_length; cbn [length]; lia).
    set (st1 := rotate (clk i) [NL] RSplit (put st a)).
    destruct (IH (S i) st1 rest (w + zlen a + 1)) as (st' & hs & Hr & Hpost).
    { unfold winv, st1. cbn. auto. }
    { unfold measure, st1. cbn [rotate rf_pos]. cbn. lia. }
    exists st'. eexists. split.
    + rewrite Hr. f_equal. unfold zlen. lia.
    + apply (post_cons clk i st (put st a) st' a [NL] RSplit rest hs p);
        [reflexivity|reflexivity|reflexivity|reflexivity|reflexivity|reflexivity|exact Hp
        |intros _; left; rewrite zlen_app; lia|intros _; left; reflexivity|auto|auto|exact Hpost].
  - destruct (0 <? rf_pos st) eqn:Ep.
    + (* no newline inside the window, the file is not empty: fresh file, nothing skipped *)
      set (st1 := rotate (clk i) [] RFresh st).
      destruct (IH (S i) st1 p w) as (st' & hs & Hr & Hpost).
      { unfold winv, st1. cbn. auto. }
      { unfold measure, st1. cbn [rotate rf_pos]. cbn. lia. }
      exists st'. eexists. split; [exact Hr|].
      pose proof (post_cons clk i st st st' [] [] RFresh p hs p) as PC. rewrite app_nil_r in PC.
      apply PC; [reflexivity|reflexivity|reflexivity|reflexivity|reflexivity|reflexivity|reflexivity
                |auto|intros Ha; right; split; [reflexivity|exact Ha]|auto|auto|exact Hpost].
    + (* empty file *)
      assert (Hcur : rf_cur st = []) by (apply zlen0_nil; pose proof (zlen_nonneg (rf_cur st)); lia).
      destruct (split_first_nl p) as [[a b]|] eqn:Ef.
      * apply split_first_nl_some in Ef as [Hp Hn].
        assert (Hlen : length p = (length a + 1 + length b)%nat)
          by (rewrite Hp, app_length; cbn [length]; lia).
        set (st1 := rotate (clk i) [NL] RLong (put st a)).
        destruct (IH (S i) st1 b (w + zlen a + 1)) as (st' & hs & Hr & Hpost).
        { unfold winv, st1. cbn. auto. }
        { unfold measure, st1. cbn [rotate rf_pos]. cbn. lia. }
        exists st'. eexists. split.
        -- rewrite Hr. f_equal. unfold zlen. lia.
        -- apply (post_cons clk i st (put st a) st' a [NL] RLong b hs p);
             [reflexivity|reflexivity|reflexivity|reflexivity|reflexivity|reflexivity|exact Hp
             |intros _; right; rewrite Hcur; exact Hn|intros _; left; reflexivity|auto|auto|exact Hpost].
      * apply split_first_nl_none in Ef.
        eexists. exists []. split; [reflexivity|]. apply final_post; [exact Hinv|right; auto].
Qed.

Definition after_stat (st : rf) : rf := if rf_exists st then st else reopen st.

Lemma after_stat_winv st : rinv st -> winv (after_stat st) /\ rf_cur (after_stat st) = rf_cur st.
Proof.
  intros (H1 & H2). unfold after_stat, winv. destruct (rf_exists st) eqn:E.
  - split; [|reflexivity]. rewrite E. auto.
  - cbn. rewrite (H2 eq_refl). auto.
Qed.

Lemma winv_rinv st : winv st -> rinv st.
Proof. intros (H1 & H2). unfold rinv. rewrite H1. split; auto; discriminate. Qed.

Lemma after_stat_fields st :
  rf_max (after_stat st) = rf_max st /\ rf_moved (after_stat st) = rf_moved st /\
  rf_gone (after_stat st) = rf_gone st /\ rf_hist (after_stat st) = rf_hist st /\
  rf_rot (after_stat st) = rf_rot st.
Proof. unfold after_stat. destruct (rf_exists st); cbn; auto. Qed.

Lemma rf_write_ok clk st p :
  rinv st ->
  exists st' hs, rf_write clk st p = WOk st' (zlen p) /\ write_post clk 0 (after_stat st) st' p hs.
Proof.
  intros Hinv. destruct (after_stat_winv st Hinv) as [Hw _].
  destruct (write_loop_ok clk (S (S (2 * length p))) 0%nat (after_stat st) p 0 Hw) as (st' & hs & Hr & Hp).
  { unfold measure. destruct (0 <? _); lia. }
  exists st', hs. split; [|exact Hp]. unfold rf_write. fold (after_stat st). rewrite Hr. reflexivity.
Qed.

(* ---- whole histories ---- *)
Definition hist_moved (h : list hent) : list bytes := map h_content (filter is_moved h).
Definition hist_gone (h : list hent) : list bytes := map h_content (filter is_gone h).
Definition hist_rot (h : list hent) : list (rname * bytes) := hist_files (filter is_rot h).

Record ginv (st : rf) : Prop := {
  g_rinv : rinv st;
  g_rot : rf_rot st = hist_rot (rf_hist st);
  g_moved : rf_moved st = hist_moved (rf_hist st);
  g_gone : rf_gone st = hist_gone (rf_hist st);
  g_nodup : NoDup (map fst (rf_rot st))
}.

Lemma loop_kind_filters hs : Forall loop_kind hs ->
  filter is_rot hs = hs /\ filter is_moved hs = [] /\ filter is_gone hs = [].
Proof.
  induction 1 as [|e hs He _ (I1 & I2 & I3)]; [auto|]. cbn [filter].
  unfold is_rot, is_moved, is_gone in *.
  destruct He as [E|[E|E]]; rewrite E; rewrite I1, I2, I3; auto.
Qed.

Lemma ginv_write clk st p :
  ginv st ->
  exists st' hs, rf_write clk st p = WOk st' (zlen p) /\ ginv st' /\
                 write_post clk 0 (after_stat st) st' p hs.
Proof.
  intros G. destruct (rf_write_ok clk st p (g_rinv _ G)) as (st' & hs & Hr & Hp).
  exists st', hs. split; [exact Hr|]. split; [|exact Hp].
  destruct (after_stat_fields st) as (F1 & F2 & F3 & F4 & F5). destruct Hp.
  destruct (loop_kind_filters hs wp_kind0) as (K1 & K2 & K3).
  constructor.
  - apply winv_rinv. exact wp_inv0.
  - rewrite wp_rot0, wp_hist0, F5, F4. unfold hist_rot, hist_files. rewrite filter_app, map_app, K1.
    rewrite (g_rot _ G). reflexivity.
  - rewrite wp_moved0, wp_hist0, F2, F4. unfold hist_moved. rewrite filter_app, map_app, K2, app_nil_r. apply G.
  - rewrite wp_gone0, wp_hist0, F3, F4. unfold hist_gone. rewrite filter_app, map_app, K3, app_nil_r. apply G.
  - apply wp_nodup0. rewrite F5. apply G.
Qed.

Lemma reopen_ginv s st :
  rf_rot st = hist_rot (rf_hist st) -> rf_moved st = hist_moved (rf_hist st) ->
  rf_gone st = hist_gone (rf_hist st) -> NoDup (map fst (rf_rot st)) ->
  ginv (rf_reopen s st).
Proof.
  intros Gr Gm Gg Gn. unfold rf_reopen. cbn [rf_pos rf_max].
  destruct (zlen (rf_cur st) <? rf_max st) eqn:E.
  - constructor; cbn; auto. unfold rinv; cbn. split; auto; discriminate.
  - constructor.
    + unfold rinv; cbn. split; auto; discriminate.
    + cbn [rotate rf_rot rf_hist rf_cur]. unfold hist_rot, hist_files. rewrite filter_app, map_app. cbn. rewrite Gr. reflexivity.
    + cbn [rotate rf_moved rf_hist rf_cur]. unfold hist_moved. rewrite filter_app, map_app. cbn. rewrite app_nil_r. exact Gm.
    + cbn [rotate rf_gone rf_hist rf_cur]. unfold hist_gone. rewrite filter_app, map_app. cbn. rewrite app_nil_r. exact Gg.
    + apply rotate_nodup. exact Gn.
Qed.

Lemma ginv_reopen s st : ginv st -> ginv (rf_reopen s st).
Proof. intros G. apply reopen_ginv; apply G. Qed.

Lemma ginv_remove st : ginv st -> ginv (ext_remove st).
Proof.
  intros G. unfold ext_remove. destruct (rf_exists st) eqn:E; [|exact G].
  constructor; cbn [rf_rot rf_moved rf_gone rf_hist]; try apply G.
  - unfold rinv; cbn. split; auto; discriminate.
  - unfold hist_rot. rewrite filter_app. cbn. rewrite app_nil_r. apply G.
  - unfold hist_moved. rewrite filter_app. cbn. rewrite app_nil_r. apply G.
  - unfold hist_gone. rewrite filter_app, map_app. cbn. f_equal. apply G.
Qed.

Lemma ginv_move st : ginv st -> ginv (ext_move st).
Proof.
  intros G. unfold ext_move. destruct (rf_exists st) eqn:E; [|exact G].
  constructor; cbn [rf_rot rf_moved rf_gone rf_hist]; try apply G.
  - unfold rinv; cbn. split; auto; discriminate.
  - unfold hist_rot. rewrite filter_app. cbn. rewrite app_nil_r. apply G.
  - unfold hist_moved. rewrite filter_app, map_app. cbn. f_equal. apply G.
  - unfold hist_gone. rewrite filter_app. cbn. rewrite app_nil_r. apply G.
Qed.

Lemma ginv_open max s init : ginv (rf_open max s init).
Proof. unfold rf_open. apply reopen_ginv; cbn; auto. constructor. Qed.

Fixpoint written_lens (ops : list op) : list Z :=
  match ops with
  | [] => []
  | OWrite _ p :: r => zlen p :: written_lens r
  | _ :: r => written_lens r
  end.

(* Write never panics, never runs out of fuel, reports len(p); the invariant is kept *)
Lemma run_total : forall ops st rets,
  ginv st -> exists st', run st rets ops = Some (st', rets ++ written_lens ops) /\ ginv st'.
Proof.
  induction ops as [|o r IH]; intros st rets G; cbn [run written_lens].
  - exists st. rewrite app_nil_r. auto.
  - destruct o as [clk p| | |s].
    + destruct (ginv_write clk st p G) as (st' & hs & Hr & G' & _). rewrite Hr.
      destruct (IH st' (rets ++ [zlen p]) G') as (st'' & Hrun & G'').
      exists st''. rewrite Hrun, <- app_assoc. auto.
    + apply IH, ginv_remove, G.
    + apply IH, ginv_move, G.
    + apply IH, ginv_reopen, G.
Qed.

(* a generic way to carry a state predicate through a history *)
Fixpoint writes_all (W : bytes -> Prop) (ops : list op) : Prop :=
  match ops with
  | [] => True
  | OWrite _ p :: r => W p /\ writes_all W r
  | _ :: r => writes_all W r
  end.

Lemma run_preserves (P : rf -> Prop) (W : bytes -> Prop) :
  (forall clk p st st' hs, W p -> ginv st -> P st ->
      write_post clk 0 (after_stat st) st' p hs -> P st') ->
  (forall st, ginv st -> P st -> P (ext_remove st)) ->
  (forall st, ginv st -> P st -> P (ext_move st)) ->
  (forall s st, ginv st -> P st -> P (rf_reopen s st)) ->
  forall ops st rets st' rets',
    writes_all W ops -> ginv st -> P st -> run st rets ops = Some (st', rets') -> P st'.
Proof.
  intros Hw Hr Hm Ho. induction ops as [|o r IH]; intros st rets st' rets' HQ G HP H; cbn [run writes_all] in *.
  - inversion H; subst. exact HP.
  - destruct o as [clk p| | |s].
    + destruct HQ as [Wp HQ].
      destruct (ginv_write clk st p G) as (st1 & hs & Hrw & G1 & Hpost). rewrite Hrw in H.
      exact (IH st1 _ _ _ HQ G1 (Hw clk p st st1 hs Wp G HP Hpost) H).
    + exact (IH _ _ _ _ HQ (ginv_remove st G) (Hr st G HP) H).
    + exact (IH _ _ _ _ HQ (ginv_move st G) (Hm st G HP) H).
    + exact (IH _ _ _ _ HQ (ginv_reopen s st G) (Ho s st G HP) H).
Qed.
(* ---- lines ---- *)
Lemma lines_of_nil_inv b : lines_of b = [] -> b = [].
Proof.
  destruct b as [|x r]; [reflexivity|]. cbn [lines_of].
  destruct (x =? NL)%N; [discriminate|]. destruct (lines_of r); discriminate.
Qed.

(* a newline ends a line whatever follows *)
Lemma lines_of_cut c : forall r, lines_of (c ++ NL :: r) = lines_of (c ++ [NL]) ++ lines_of r.
Proof.
  induction c as [|x c IH]; intros r; [reflexivity|]. cbn [app lines_of].
  destruct (x =? NL)%N; [rewrite IH; reflexivity|]. rewrite IH.
  destruct (lines_of (c ++ [NL])) as [|l ls] eqn:E; [|reflexivity].
  apply lines_of_nil_inv in E. destruct c; discriminate.
Qed.

(* a file whose last line lacks the terminator has the same lines *)
Lemma lines_of_unterminated c : c <> [] -> last c 0%N <> NL -> lines_of (c ++ [NL]) = lines_of c.
Proof.
  induction c as [|x c IH]; intros Hne Hl; [congruence|]. destruct c as [|y c].
  - cbn in Hl. cbn [app lines_of]. destruct (x =? NL)%N eqn:E; [apply N.eqb_eq in E; congruence|]. reflexivity.
  - assert (IH' : lines_of ((y :: c) ++ [NL]) = lines_of (y :: c)) by (apply IH; [discriminate|exact Hl]).
    change ((x :: y :: c) ++ [NL]) with (x :: ((y :: c) ++ [NL])).
    cbn [lines_of]. cbn [lines_of] in IH'. rewrite IH'. reflexivity.
Qed.

(* every newline is preceded by a byte that is not a newline: no empty lines *)
Definition no_blank (t : bytes) : Prop :=
  forall a b, t = a ++ NL :: b -> a <> [] /\ last a 0%N <> NL.

Lemma last_app_cons (a : bytes) x b d : last (a ++ x :: b) d = last (x :: b) d.
Proof.
  induction a as [|y a IH]; [reflexivity|]. cbn [app]. 
  change (last (y :: a ++ x :: b) d) with (match a ++ x :: b with [] => y | _ => last (a ++ x :: b) d end).
  destruct (a ++ x :: b) eqn:E; [destruct a; discriminate|]. exact IH.
Qed.

Lemma no_blank_tail c t : no_blank (c ++ NL :: t) -> no_blank t.
Proof.
  intros H a b E. specialize (H (c ++ NL :: a) b). rewrite E, <- app_assoc in H. specialize (H eq_refl).
  destruct H as [_ H]. destruct a as [|y a].
  - exfalso. apply H. rewrite last_app_cons. reflexivity.
  - split; [discriminate|]. rewrite last_app_cons in H.
    change (last (NL :: y :: a) 0%N) with (last (y :: a) 0%N) in H. exact H.
Qed.

Lemma lines_of_history hs : forall cur t,
  hist_stream hs ++ cur = t -> no_blank t -> Forall ent_fine hs ->
  flat_map (fun e => lines_of (h_content e)) hs ++ lines_of cur = lines_of t.
Proof.
  induction hs as [|e hs IH]; intros cur t E Hb Hf; [cbn in *; subst; reflexivity|].
  inversion Hf as [|? ? He Hf']; subst. unfold hist_stream in *. cbn [map concat flat_map] in *.
  rewrite <- !app_assoc in *. destruct He as [Hs|[Hs [Hc|[c0 Hc]]]]; rewrite Hs in *; cbn [app] in *.
  - destruct (Hb _ _ eq_refl) as [Hne Hl].
    rewrite lines_of_cut, lines_of_unterminated by assumption. f_equal.
    apply IH; [reflexivity| |exact Hf']. eapply no_blank_tail, Hb.
  - rewrite Hc in *. cbn [app lines_of] in *. apply IH; auto.
  - rewrite Hc in *. rewrite <- !app_assoc in *. cbn [app] in *.
    match goal with |- _ = lines_of (c0 ++ NL :: ?r) => rewrite (lines_of_cut c0 r) end.
    f_equal. apply IH; [reflexivity| |exact Hf']. eapply no_blank_tail, Hb.
Qed.

(* executable forms of the hypotheses *)
Fixpoint nb (prev_nl : bool) (t : bytes) : bool :=
  match t with
  | [] => true
  | x :: r => if (x =? NL)%N then negb prev_nl && nb true r else nb false r
  end.
Definition no_blank_b (t : bytes) : bool := nb true t.

Definition aligned_b (b : bytes) : bool :=
  match b with [] => true | _ => (last b 0 =? NL)%N end.

Lemma nb_sound t : forall q a b, nb q t = true -> t = a ++ NL :: b ->
  (a = [] -> q = false) /\ (a <> [] -> last a 0%N <> NL).
Proof.
  induction t as [|x r IH]; intros q a b H E; [destruct a; discriminate|].
  cbn [nb] in H. destruct a as [|y a]; cbn [app] in E; inversion E; subst.
  - rewrite N.eqb_refl in H. apply andb_true_iff in H as [H _]. split; [intros _; destruct q; [discriminate|reflexivity]|congruence].
  - split; [discriminate|]. intros _.
    destruct (y =? NL)%N eqn:Ey.
    + apply andb_true_iff in H as [_ H]. destruct (IH true a b H eq_refl) as [H1 H2].
      destruct a as [|z a]; [specialize (H1 eq_refl); discriminate|].
      change (last (y :: z :: a) 0%N) with (last (z :: a) 0%N). apply H2. discriminate.
    + destruct (IH false a b H eq_refl) as [H1 H2].
      destruct a as [|z a]; [cbn; apply N.eqb_neq, Ey|].
      change (last (y :: z :: a) 0%N) with (last (z :: a) 0%N). apply H2. discriminate.
Qed.

Lemma no_blank_b_sound t : no_blank_b t = true -> no_blank t.
Proof.
  intros H a b E. destruct (nb_sound t true a b H E) as [H1 H2].
  assert (a <> []) by (intros ->; specialize (H1 eq_refl); discriminate). auto.
Qed.

Lemma aligned_b_sound b : aligned_b b = true -> aligned b.
Proof.
  unfold aligned_b, aligned. destruct b as [|x r]; [auto|]. intros H. right.
  destruct (@exists_last _ (x :: r)) as (b0 & z & E); [discriminate|]. rewrite E in *.
  rewrite last_last in H. apply N.eqb_eq in H. subst. eauto.
Qed.

Lemma aligned_suffix a b : aligned (a ++ b) -> aligned b.
Proof.
  intros [H|[c H]]; [apply app_eq_nil in H as [_ ->]; left; reflexivity|].
  destruct b as [|x r]; [left; reflexivity|]. right.
  destruct (@exists_last _ (x :: r)) as (b0 & z & E); [discriminate|]. rewrite E in *.
  rewrite app_assoc in H. apply app_inj_tail in H as [_ ->]. eauto.
Qed.

Lemma aligned_app a b : aligned a -> aligned b -> aligned (a ++ b).
Proof.
  intros Ha [->|[b0 ->]]; [rewrite app_nil_r; exact Ha|]. right. exists (a ++ b0). rewrite app_assoc. reflexivity.
Qed.


(* ---- byte accounting: every byte handed to Write is in a file, except the newlines skipped ---- *)
Lemma run_stream : forall ops st rets st' rets',
  ginv st -> run st rets ops = Some (st', rets') ->
  hist_stream (rf_hist st') ++ rf_cur st' = hist_stream (rf_hist st) ++ rf_cur st ++ written_of ops.
Proof.
  induction ops as [|o r IH]; intros st rets st' rets' G H; cbn [run written_of] in *.
  - inversion H; subst. rewrite app_nil_r. reflexivity.
  - destruct o as [clk p| | |s].
    + destruct (ginv_write clk st p G) as (st1 & hs & Hr & G1 & Hp). rewrite Hr in H.
      destruct (after_stat_winv st (g_rinv _ G)) as [_ Ec].
      destruct (after_stat_fields st) as (_ & _ & _ & Eh & _). destruct Hp.
      rewrite (IH st1 _ _ _ G1 H), wp_hist0, Eh, hist_stream_app, <- !app_assoc. f_equal.
      rewrite (app_assoc (hist_stream hs)), wp_stream0, Ec, <- app_assoc. reflexivity.
    + rewrite (IH _ _ _ _ (ginv_remove st G) H). unfold ext_remove. destruct (rf_exists st); [|reflexivity].
      cbn [rf_hist rf_cur]. rewrite hist_stream_app. unfold hist_stream at 2. cbn. rewrite !app_nil_r, <- app_assoc. reflexivity.
    + rewrite (IH _ _ _ _ (ginv_move st G) H). unfold ext_move. destruct (rf_exists st); [|reflexivity].
      cbn [rf_hist rf_cur]. rewrite hist_stream_app. unfold hist_stream at 2. cbn. rewrite !app_nil_r, <- app_assoc. reflexivity.
    + rewrite (IH _ _ _ _ (ginv_reopen s st G) H). unfold rf_reopen. cbn [rf_pos rf_max].
      destruct (_ <? _); cbn [rf_hist rf_cur rotate]; [reflexivity|].
      rewrite hist_stream_app. unfold hist_stream at 2. cbn. rewrite !app_nil_r, <- app_assoc. reflexivity.
Qed.

Lemma open_stream max s init :
  hist_stream (rf_hist (rf_open max s init)) ++ rf_cur (rf_open max s init) = init.
Proof.
  unfold rf_open, rf_reopen. cbn [rf_pos rf_max rf_cur]. destruct (_ <? _); cbn; [auto|].
  unfold hist_stream; cbn. rewrite !app_nil_r. auto.
Qed.

Lemma bytes_accounted max s init ops st rets :
  run (rf_open max s init) [] ops = Some (st, rets) ->
  hist_stream (rf_hist st) ++ rf_cur st = init ++ written_of ops.
Proof.
  intros H. rewrite (run_stream ops _ _ _ _ (ginv_open max s init) H), app_assoc, open_stream. reflexivity.
Qed.

(* ---- every file left <path> at a line boundary ---- *)
Definition fine_state (st : rf) : Prop := aligned (rf_cur st) /\ Forall ent_fine (rf_hist st).

Lemma fine_reopen s st : fine_state st -> fine_state (rf_reopen s st).
Proof.
  intros [Ha Hf]. unfold rf_reopen, fine_state. cbn [rf_pos rf_max]. destruct (_ <? _); cbn; [auto|].
  split; [apply aligned_nil|]. apply Forall_app. split; [exact Hf|]. constructor; [right; auto|constructor].
Qed.

Lemma run_fine : forall ops st rets st' rets',
  writes_all aligned ops -> ginv st -> fine_state st ->
  run st rets ops = Some (st', rets') -> fine_state st'.
Proof.
  apply (run_preserves fine_state aligned).
  - intros clk p st st' hs Wp G [Ha Hf] Hp.
    destruct (after_stat_winv st (g_rinv _ G)) as [_ Ec].
    destruct (after_stat_fields st) as (_ & _ & _ & Eh & _). destruct Hp.
    rewrite Ec in *. rewrite Eh in *. split.
    + apply (aligned_suffix (hist_stream hs)). rewrite wp_stream0. apply aligned_app; assumption.
    + rewrite wp_hist0. apply Forall_app. split; [exact Hf|apply wp_fine0, Ha].
  - intros st G [Ha Hf]. unfold ext_remove, fine_state. destruct (rf_exists st); cbn; [|auto].
    split; [apply aligned_nil|]. apply Forall_app. split; [exact Hf|]. constructor; [right; auto|constructor].
  - intros st G [Ha Hf]. unfold ext_move, fine_state. destruct (rf_exists st); cbn; [|auto].
    split; [apply aligned_nil|]. apply Forall_app. split; [exact Hf|]. constructor; [right; auto|constructor].
  - intros s st _. apply fine_reopen.
Qed.

Fixpoint writes_aligned (ops : list op) : bool :=
  match ops with
  | [] => true
  | OWrite _ p :: r => aligned_b p && writes_aligned r
  | _ :: r => writes_aligned r
  end.

Lemma writes_aligned_all ops : writes_aligned ops = true -> writes_all aligned ops.
Proof.
  induction ops as [|o r IH]; cbn; [auto|]. destruct o; auto.
  intros H. apply andb_true_iff in H as [H1 H2]. split; [apply aligned_b_sound, H1|auto].
Qed.

(* ---- the size bound ---- *)
Definition fits_state (max : Z) (st : rf) : Prop :=
  rf_max st = max /\ fits max (rf_cur st) /\ Forall (fun e => fits max (h_content e)) (rf_hist st).

Lemma run_fits max : forall ops st rets st' rets',
  writes_all (fun _ => True) ops -> ginv st -> fits_state max st ->
  run st rets ops = Some (st', rets') -> fits_state max st'.
Proof.
  apply (run_preserves (fits_state max) (fun _ => True)).
  - intros clk p st st' hs _ G (Hm & Hc & Hh) Hp.
    destruct (after_stat_winv st (g_rinv _ G)) as [_ Ec].
    destruct (after_stat_fields st) as (Em & _ & _ & Eh & _). destruct Hp.
    rewrite Ec, Em, Hm in *. rewrite Eh in *. destruct (wp_fits0 Hc) as [F1 F2].
    split; [congruence|]. split; [exact F2|]. rewrite wp_hist0. apply Forall_app. auto.
  - intros st G (Hm & Hc & Hh). unfold ext_remove, fits_state. destruct (rf_exists st); cbn; [|auto].
    split; [exact Hm|]. split; [apply fits_nil|]. apply Forall_app. split; [exact Hh|]. constructor; [exact Hc|constructor].
  - intros st G (Hm & Hc & Hh). unfold ext_move, fits_state. destruct (rf_exists st); cbn; [|auto].
    split; [exact Hm|]. split; [apply fits_nil|]. apply Forall_app. split; [exact Hh|]. constructor; [exact Hc|constructor].
  - intros s st G (Hm & Hc & Hh). unfold rf_reopen, fits_state. cbn [rf_pos rf_max]. destruct (_ <? _); cbn; [auto|].
    split; [exact Hm|]. split; [apply fits_nil|]. apply Forall_app. split; [exact Hh|]. constructor; [exact Hc|constructor].
Qed.

Lemma writes_all_true ops : writes_all (fun _ => True) ops.
Proof. induction ops as [|o r IH]; cbn; [auto|]. destruct o; auto. Qed.

Lemma in_hist_files x hs : In x (hist_files hs) -> exists e, In e hs /\ snd x = h_content e.
Proof. unfold hist_files. intros H. apply in_map_iff in H as (e & <- & He). eauto. Qed.

Lemma size_bound max s init ops st rets :
  fits max init ->
  run (rf_open max s init) [] ops = Some (st, rets) ->
  fits max (rf_cur st) /\
  (forall x, In x (rf_rot st) -> fits max (snd x)) /\
  Forall (fits max) (rf_moved st) /\
  Forall (fits max) (rf_gone st).
Proof.
  intros Hi H.
  destruct (run_total ops _ [] (ginv_open max s init)) as (st' & Hrun & G).
  rewrite H in Hrun. inversion Hrun; subst st'. clear Hrun.
  assert (F0 : fits_state max (rf_open max s init)).
  { unfold rf_open, rf_reopen, fits_state. cbn [rf_pos rf_max rf_cur]. destruct (_ <? _); cbn; [auto|].
    split; [reflexivity|]. split; [apply fits_nil|]. constructor; [exact Hi|constructor]. }
  destruct (run_fits max ops _ _ _ _ (writes_all_true ops) (ginv_open max s init) F0 H) as (_ & Fc & Fh).
  rewrite Forall_forall in Fh.
  split; [exact Fc|]. split; [|split].
  - intros x Hx. rewrite (g_rot _ G) in Hx. apply in_hist_files in Hx as (e & He & ->).
    apply Fh. apply filter_In in He. tauto.
  - rewrite (g_moved _ G). apply Forall_forall. intros c Hc. apply in_map_iff in Hc as (e & <- & He).
    apply Fh. apply filter_In in He. tauto.
  - rewrite (g_gone _ G). apply Forall_forall. intros c Hc. apply in_map_iff in Hc as (e & <- & He).
    apply Fh. apply filter_In in He. tauto.
Qed.

(* ---- the lines: all histories ---- *)
Definition hist_lines (h : list hent) : list bytes := flat_map (fun e => lines_of (h_content e)) h.

Lemma lines_kept_all max s init ops st rets :
  aligned_b init = true -> writes_aligned ops = true -> no_blank_b (init ++ written_of ops) = true ->
  run (rf_open max s init) [] ops = Some (st, rets) ->
  hist_lines (rf_hist st) ++ lines_of (rf_cur st) = lines_of (init ++ written_of ops) /\
  rf_rot st = hist_rot (rf_hist st) /\ rf_moved st = hist_moved (rf_hist st) /\
  rf_gone st = hist_gone (rf_hist st) /\ NoDup (map fst (rf_rot st)).
Proof.
  intros Hi Hw Hb H.
  destruct (run_total ops _ [] (ginv_open max s init)) as (st' & Hrun & G).
  rewrite H in Hrun. inversion Hrun; subst st'. clear Hrun.
  split; [|split; [apply G|split; [apply G|split; apply G]]].
  assert (F0 : fine_state (rf_open max s init)).
  { unfold rf_open. apply fine_reopen. split; [apply aligned_b_sound, Hi|constructor]. }
  destruct (run_fine ops _ _ _ _ (writes_aligned_all ops Hw) (ginv_open max s init) F0 H) as [_ Hf].
  apply lines_of_history; [eapply bytes_accounted; eauto|apply no_blank_b_sound, Hb|exact Hf].
Qed.

Lemma filter_rot_all h : filter is_moved h = [] -> filter is_gone h = [] -> filter is_rot h = h.
Proof.
  induction h as [|e h IH]; [auto|]. cbn [filter]. unfold is_moved, is_gone, is_rot in *.
  destruct (h_kind e); try discriminate; intros H1 H2; f_equal; auto.
Qed.

Lemma flat_map_contents (hs : list hent) :
  flat_map lines_of (map snd (hist_files hs)) = hist_lines hs.
Proof.
  unfold hist_files, hist_lines. induction hs as [|e hs IH]; [reflexivity|].
  cbn [map flat_map snd]. f_equal. exact IH.
Qed.

(* nobody removed or renamed the log file: the rotated files in order of rotation followed by
   the active file hold exactly the lines written *)
Lemma lines_kept max s init ops st rets :
  aligned_b init = true -> writes_aligned ops = true -> no_blank_b (init ++ written_of ops) = true ->
  run (rf_open max s init) [] ops = Some (st, rets) ->
  rf_moved st = [] -> rf_gone st = [] ->
  flat_map lines_of (map snd (rf_rot st)) ++ lines_of (rf_cur st) = lines_of (init ++ written_of ops).
Proof.
  intros Hi Hw Hb H Hm Hg.
  destruct (lines_kept_all max s init ops st rets Hi Hw Hb H) as (L & Er & Em & Eg & _).
  rewrite Er. unfold hist_rot. rewrite filter_rot_all, flat_map_contents; [exact L| |].
  - rewrite Em in Hm. unfold hist_moved in Hm. apply map_eq_nil in Hm. exact Hm.
  - rewrite Eg in Hg. unfold hist_gone in Hg. apply map_eq_nil in Hg. exact Hg.
Qed.

(* ---- the channel: every request is received, whatever the events ---- *)
Lemma wl_run_total : forall es w,
  ginv (wl_rf w) -> exists w', wl_run w es = Some w' /\ ginv (wl_rf w').
Proof.
  induction es as [|e es IH]; intros w G; cbn [wl_run]; [eauto|].
  assert (Hfl : forall s w0, ginv (wl_rf w0) -> exists w1, wl_flush s w0 = Some w1 /\ ginv (wl_rf w1)).
  { intros s w0 G0. unfold wl_flush. destruct (wl_buf w0) as [|l ls] eqn:Eb; [eauto|].
    destruct (ginv_write (fun i => s (length (rf_hist (wl_rf w0)) + i)%nat) (wl_rf w0) (concat (l :: ls)) G0) as (st' & hs & Hr & G' & _).
    rewrite Hr. eexists. split; [reflexivity|]. exact G'. }
  unfold wl_step. destruct e as [s line|s].
  - cbn zeta. destruct (_ <? FLUSH_BYTES).
    + apply IH. exact G.
    + destruct (Hfl s (mkWL (wl_rf w) (wl_buf w ++ [line]) (wl_len w + zlen line)) G) as (w1 & -> & G1). apply IH, G1.
  - destruct (Hfl s w G) as (w1 & -> & G1). apply IH, G1.
Qed.

(* New hands out a channel exactly when max >= 1024 and the destination can be opened; on a
   channel handed out every Send returns *)
Lemma new_spec max openable s init :
  match wl_new max openable s init with
  | Some w => 1024 <= max /\ openable = true /\ forall es, exists w', wl_run w es = Some w'
  | None => max < 1024 \/ openable = false
  end.
Proof.
  unfold wl_new. destruct (max <? 1024) eqn:E; [left; lia|]. destruct openable; [|right; reflexivity].
  split; [lia|]. split; [reflexivity|]. intros es.
  destruct (wl_run_total es (mkWL (rf_open max s init) [] 0)) as (w' & H & _); [apply ginv_open|eauto].
Qed.

(* ---- statements used by Properties.v ---- *)
Lemma write_total clk st p :
  rinv st -> exists st', rf_write clk st p = WOk st' (zlen p) /\ rinv st' /\ rf_max st' = rf_max st.
Proof.
  intros H. destruct (rf_write_ok clk st p H) as (st' & hs & Hr & Hp). exists st'. split; [exact Hr|].
  destruct Hp. split; [apply winv_rinv; assumption|]. rewrite wp_max0. apply after_stat_fields.
Qed.

Lemma history_total max s init ops :
  exists st, run (rf_open max s init) [] ops = Some (st, written_lens ops) /\ rinv st.
Proof.
  destruct (run_total ops _ [] (ginv_open max s init)) as (st & H & G).
  exists st. split; [exact H|apply G].
Qed.

(* one Write, whatever happened to the file before: the bytes of p are in the active file or in
   the files this call rotated away, in order; the only bytes not in a file are newlines that end
   the last line of a rotated file; no name is used twice *)
Lemma write_accounts clk st p :
  rinv st ->
  exists st' hs, rf_write clk st p = WOk st' (zlen p) /\
    rf_hist st' = rf_hist st ++ hs /\
    rf_rot st' = rf_rot st ++ hist_files hs /\
    hist_stream hs ++ rf_cur st' = rf_cur st ++ p /\
    Forall (fun e => h_skipped e = [NL] \/ (h_skipped e = [] /\ h_kind e = RFresh)) hs /\
    map h_sec hs = map clk (seq 0 (length hs)) /\
    (NoDup (map fst (rf_rot st)) -> NoDup (map fst (rf_rot st'))).
Proof.
  intros H. destruct (rf_write_ok clk st p H) as (st' & hs & Hr & Hp). exists st', hs. split; [exact Hr|].
  destruct (after_stat_winv st H) as [_ Ec]. destruct (after_stat_fields st) as (Em & _ & _ & Eh & Er).
  destruct Hp. rewrite Eh in wp_hist0. rewrite Ec in wp_stream0. rewrite Er in wp_rot0, wp_nodup0.
  repeat split; auto.
Qed.

(* ---- the full statement of the property on the model ---- *)
Definition files_lines (st : rf) : list bytes :=
  flat_map lines_of (map snd (rf_rot st)) ++ lines_of (rf_cur st).

Definition full_lines : Prop := forall max s init ops st rets,
  aligned_b init = true -> writes_aligned ops = true -> no_blank_b (init ++ written_of ops) = true ->
  run (rf_open max s init) [] ops = Some (st, rets) ->
  rf_moved st = [] -> rf_gone st = [] ->
  files_lines st = lines_of (init ++ written_of ops).

Definition full_send : Prop := forall max openable s init,
  match wl_new max openable s init with
  | Some w => 1024 <= max /\ openable = true /\ forall es, exists w', wl_run w es = Some w'
  | None => max < 1024 \/ openable = false
  end.

Lemma full_lines_holds : full_lines.
Proof. unfold full_lines, files_lines. intros. eapply lines_kept; eauto. Qed.

Lemma full_send_holds : full_send.
Proof. unfold full_send. intros. apply new_spec. Qed.

Lemma full_holds : full_lines /\ full_send.
Proof. split; [exact full_lines_holds|exact full_send_holds]. Qed.

(* building blocks of the examples *)
Definition mkline (c n : N) : bytes := 123%N :: repeat c (N.to_nat n) ++ [125%N; NL].  (* n + 3 bytes *)
Definition clk0 : nat -> N := fun _ => 0%N.

(* executable checks used by the examples *)
Definition names_are (st : rf) (l : list (N * N)) : bool :=
  list_eqb (fun a b => (fst a =? fst b)%N && (snd a =? snd b)%N) (map fst (rf_rot st)) l.
Definition lines_match (st : rf) (ops : list op) : bool :=
  list_eqb beq (files_lines st) (lines_of (written_of ops)).
Definition hyps_ok (ops : list op) : bool :=
  aligned_b [] && writes_aligned ops && no_blank_b ([] ++ written_of ops).

(* ---- the scan: the index loop of the Go code and the structural split agree ---- *)
Lemma scan_down_spec p : forall j,
  (j < length p)%nat ->
  match split_last_nl (firstn j (tl p)) with
  | Some (a, _) => scan_down p j = S (length a)
  | None => scan_down p j = O
  end.
Proof.
  destruct p as [|x0 p]; [cbn; lia|]. cbn [tl length].
  induction j as [|j IH]; intros Hj; [reflexivity|].
  cbn [scan_down]. change (nth (S j) (x0 :: p) 0%N) with (nth j p 0%N).
  assert (Hlt : (j < length p)%nat) by lia.
  assert (E : firstn (S j) p = firstn j p ++ [nth j p 0%N]).
  { clear -Hlt. revert j Hlt. induction p as [|y p IHp]; intros j Hlt; [cbn in Hlt; lia|].
    destruct j; [reflexivity|]. cbn [firstn nth app]. f_equal. apply IHp. cbn in Hlt. lia. }
  rewrite E. specialize (IH ltac:(lia)).
  assert (Happ : forall l y, split_last_nl (l ++ [y]) =
            if (y =? NL)%N then Some (l, [])
            else match split_last_nl l with Some (a, b) => Some (a, b ++ [y]) | None => None end).
  { clear. induction l as [|z l IHl]; intros y; cbn [app split_last_nl].
    - destruct (y =? NL)%N; reflexivity.
    - rewrite IHl. destruct (y =? NL)%N; [reflexivity|]. destruct (split_last_nl l) as [[a b]|]; [reflexivity|].
      destruct (z =? NL)%N; reflexivity. }
  rewrite Happ. destruct (nth j p 0%N =? NL)%N eqn:En.
  - rewrite firstn_length. f_equal. lia.
  - destruct (split_last_nl (firstn j p)) as [[a b]|]; exact IH.
Qed.
