(* C07 - model of pushers/file/rotatefile.go (OpenRotateFile, rotate, reopen, Write) and of
   the batching loop / Send of pushers/file/file.go.  Executable definitions only.

   The file system as far as the writer touches it: the content of <path> ([rf_cur],
   [rf_exists]), the directory of rotated files <path>.<second> ([rf_rot]: rename onto an
   existing name would replace it, as rename(2) does - rotate() picks the first free name),
   the files an outside party renamed away ([rf_moved]) or removed ([rf_gone]).  [rf_hist] is
   a ghost record of every file that left <path>, oldest first, with the byte the write loop
   skipped at that point.
   The wall clock is an input: one reading (second) per rotation.
   Go [int64] positions are [Z] (sizes stay far below 2^63 on the quantified inputs). *)
From HT Require Import Common.Bytes.
Open Scope Z_scope.

Definition NL : N := 10%N.

(* how a file left <path> *)
Inductive rkind :=
| RSplit      (* write loop: a newline inside the remaining window; wrote up to it, skipped it *)
| RFresh      (* write loop: no newline inside the window and the file is not empty: rotate, keep p *)
| RLong       (* write loop: empty file and no newline inside the window: the line alone is larger
                 than a file; wrote it whole (up to its newline), skipped the newline *)
| ROpen       (* OpenRotateFile found the file already full *)
| RMoved      (* somebody else renamed it away *)
| RGone.      (* somebody else removed it *)

(* ghost record: one entry per file that left <path>, oldest first *)
Record hent := mkH { h_sec : N; h_k : N; h_content : bytes; h_skipped : bytes; h_kind : rkind }.

(* a rotated file is <path>.<second> (k = 0) or <path>.<second>.<k> *)
Definition rname := (N * N)%type.

(* the part of the world the writer does not control, and its descriptor:
   [e_dir]  is the directory of <path> reachable (false: renamed away, unmounted, replaced by a file:
            Stat(path) and OpenFile(path, O_CREATE) both fail);
   [e_fd]   what the open descriptor f.f refers to: the file that is at <path>, or a file that is not
            there any more (somebody removed or renamed it while it was open), or it is closed
            (rotate() closes it before the rename and returns early when the rename fails);
   [e_lost] ghost: bytes written through a descriptor of the second kind (they reach no log file);
   [e_namelen] length in bytes of the base name of <path>: a rotated name is that plus
            ".YYYYMMDDhhmmss" plus, from the second rotation within a second on, ".<k>"; a name of more
            than 255 bytes cannot be created (Lstat and Rename fail with ENAMETOOLONG) *)
Inductive fdst := FdAtPath | FdDetached | FdClosed.
Record env := mkEnv { e_dir : bool; e_fd : fdst; e_lost : bytes; e_namelen : Z }.

Record rf := mkRF {
  rf_max : Z;
  rf_pos : Z;
  rf_exists : bool;                 (* is there a file at <path> (in its directory, reachable or not) *)
  rf_cur : bytes;                   (* content of <path> ([] when it does not exist) *)
  rf_rot : list (rname * bytes);    (* rotated files, in order of creation *)
  rf_hist : list hent;              (* ghost *)
  rf_moved : list bytes;
  rf_gone : list bytes;
  rf_env : env
}.
Definition rf_dir (st : rf) : bool := e_dir (rf_env st).
Definition rf_fd (st : rf) : fdst := e_fd (rf_env st).
Definition rf_lost (st : rf) : bytes := e_lost (rf_env st).
Definition rf_namelen (st : rf) : Z := e_namelen (rf_env st).
Definition fd_at_path (st : rf) : env := mkEnv (rf_dir st) FdAtPath (rf_lost st) (rf_namelen st).
Definition fd_open (st : rf) : bool := match rf_fd st with FdClosed => false | _ => true end.
Definition close_fd (st : rf) : rf :=
  mkRF (rf_max st) (rf_pos st) (rf_exists st) (rf_cur st) (rf_rot st) (rf_hist st) (rf_moved st) (rf_gone st)
       (mkEnv (rf_dir st) FdClosed (rf_lost st) (rf_namelen st)).

(* "name := path.ts; for i := 1; ; i++ { if Lstat(name) fails break; name = path.ts.i }":
   the first k = 0, 1, 2, ... whose name does not exist.  Evaluated by striking each name found
   off the list of the k's in use for that second (Proofs: the result is not in use and every
   smaller k is). *)
Definition ks_of (s : N) (d : list (rname * bytes)) : list N :=
  flat_map (fun e => if (fst (fst e) =? s)%N then [snd (fst e)] else []) d.

Fixpoint remove_one (k : N) (l : list N) : option (list N) :=
  match l with
  | [] => None
  | x :: r => if (x =? k)%N then Some r
              else match remove_one k r with Some r' => Some (x :: r') | None => None end
  end.

Fixpoint mex (fuel : nat) (k : N) (ks : list N) : N :=
  match fuel with
  | O => k
  | S f => match remove_one k ks with
           | Some ks' => mex f (k + 1)%N ks'
           | None => k
           end
  end.

Definition free_k (s : N) (d : list (rname * bytes)) : N :=
  let ks := ks_of s d in mex (length ks) 0%N ks.

(* can the name the search ends on be created?  base name + ".YYYYMMDDhhmmss" (15 bytes) + ".<k>"
   for k > 0 must not exceed NAME_MAX = 255.  (The search stops at the first candidate that is free
   or cannot be Lstat'ed; candidates only get longer, so it is enough to look at the free one.)
   Decimal length of k is computed for k < 10^39. *)
Fixpoint dlen (fuel : nat) (k : N) : Z :=
  match fuel with
  | O => 0
  | S f => if (k <? 10)%N then 1 else 1 + dlen f (k / 10)%N
  end.
Definition klen (k : N) : Z := if (k =? 0)%N then 0 else 1 + dlen 39 k.
Definition can_rotate (s : N) (st : rf) : bool :=
  rf_namelen st + 15 + klen (free_k s (rf_rot st)) <=? 255.

(* rotate(): Sync, Close, Rename to the first free name for now, reopen (O_CREATE, pos = 0).
   When the rename fails (can_rotate = false) rotate() returns the error with the descriptor
   closed and nothing else changed: see the callers.
   [skipped]/[k] only feed the ghost history. *)
Definition rotate (s : N) (skipped : bytes) (kd : rkind) (st : rf) : rf :=
  let k := free_k s (rf_rot st) in
  mkRF (rf_max st) 0 true []
       (rf_rot st ++ [((s, k), rf_cur st)])
       (rf_hist st ++ [mkH s k (rf_cur st) skipped kd])
       (rf_moved st) (rf_gone st) (fd_at_path st).

(* reopen(): OpenFile(path, O_CREATE|O_WRONLY), pos = 0.  Called by Write only when Stat
   failed; with the directory reachable that means the path does not exist: a fresh empty file,
   and the descriptor now refers to it.  (With the directory unreachable OpenFile fails and f.f,
   f.pos stay as they are: see rf_write.) *)
Definition reopen (st : rf) : rf :=
  mkRF (rf_max st) 0 true [] (rf_rot st) (rf_hist st) (rf_moved st) (rf_gone st) (fd_at_path st).

(* f.f.Write(b) through the descriptor (does not touch pos): the bytes go to the file the
   descriptor refers to *)
Definition put (st : rf) (b : bytes) : rf :=
  match rf_fd st with
  | FdAtPath =>
      mkRF (rf_max st) (rf_pos st) (rf_exists st) (rf_cur st ++ b)
           (rf_rot st) (rf_hist st) (rf_moved st) (rf_gone st) (rf_env st)
  | FdDetached =>
      mkRF (rf_max st) (rf_pos st) (rf_exists st) (rf_cur st)
           (rf_rot st) (rf_hist st) (rf_moved st) (rf_gone st)
           (mkEnv (rf_dir st) FdDetached (rf_lost st ++ b) (rf_namelen st))
  | FdClosed => st                 (* Write on a closed file fails; callers test fd_open first *)
  end.

Definition set_pos (st : rf) (z : Z) : rf :=
  mkRF (rf_max st) z (rf_exists st) (rf_cur st) (rf_rot st) (rf_hist st) (rf_moved st) (rf_gone st) (rf_env st).

(* the window scan "for ; j > 0; j-- { if p[j] == '\n' break }" over l = p[1..j]:
   split l at its LAST newline; None = the scan reached 0 *)
Fixpoint split_last_nl (l : bytes) : option (bytes * bytes) :=
  match l with
  | [] => None
  | x :: r =>
      match split_last_nl r with
      | Some (a, b) => Some (x :: a, b)
      | None => if (x =? NL)%N then Some ([], r) else None
      end
  end.

(* the same scan written with indices, as the Go loop does (used to validate the above) *)
Fixpoint scan_down (p : bytes) (j : nat) : nat :=
  match j with
  | O => O
  | S j' => if (nth j p 0%N =? NL)%N then j else scan_down p j'
  end.

(* bytes.IndexByte(p, '\n'): split at the FIRST newline *)
Fixpoint split_first_nl (l : bytes) : option (bytes * bytes) :=
  match l with
  | [] => None
  | x :: r =>
      if (x =? NL)%N then Some ([], r)
      else match split_first_nl r with
           | Some (a, b) => Some (x :: a, b)
           | None => None
           end
  end.

(* len(p) > k, decided by looking at no more than k+1 bytes (same value as k <? zlen p;
   keeps the evaluation of a long batch linear) *)
Fixpoint longer (p : bytes) (k : nat) : bool :=
  match p, k with
  | [], _ => false
  | _ :: _, O => true
  | _ :: r, S k' => longer r k'
  end.
Definition exceeds (p : bytes) (k : Z) : bool := if k <? 0 then true else longer p (Z.to_nat k).

Inductive wres :=
| WOk (st : rf) (n : Z)      (* returned (n, nil) *)
| WErr (st : rf)             (* returned (0, err): Stat and reopen failed, nothing was written *)
| WPanic                      (* index / slice bounds out of range *)
| WFuel.

(* the window scan of one iteration: Some (p[:k], p[k+1:]) when a newline p[k] was found with
   0 < k <= j; None when j <= 0 or the scan reached 0.  p[j] itself is in range because
   len p > j whenever the loop condition holds; were it not, Go would panic. *)
Inductive scan_res := SFound (a rest : bytes) | SNone | SOutOfRange.

Definition window_scan (p : bytes) (j : Z) : scan_res :=
  if j <=? 0 then SNone
  else if negb (exceeds p j) then SOutOfRange   (* p[j] with j >= len p *)
  else match firstn (S (Z.to_nat j)) p with      (* p[0..j] *)
       | [] => SOutOfRange
       | x0 :: w =>
           match split_last_nl w with
           | Some (a, b) => SFound (x0 :: a) (b ++ skipn (S (Z.to_nat j)) p)
           | None => SNone
           end
       end.

(* the loop "for f.pos+len(p) > f.maxSize { ... }" and the final write.
   [clk i] = wall-clock second read by the i-th rotate() of this call. *)
Fixpoint write_loop (fuel : nat) (clk : nat -> N) (i : nat) (st : rf) (p : bytes) (written : Z) : wres :=
  let final := if fd_open st then WOk (set_pos (put st p) (rf_pos st + zlen p)) (written + zlen p)
               else WErr st in                   (* Write on a closed file: error, pos += 0 *)
  if exceeds p (rf_max st - rf_pos st) then      (* f.pos + len(p) > f.maxSize *)
    match fuel with
    | O => WFuel
    | S fuel' =>
        match window_scan p (rf_max st - rf_pos st) with
        | SOutOfRange => WPanic
        | SFound a rest =>
            (* Write(p[:j]); rotate; skip the newline; p = p[j+1:] *)
            if negb (fd_open st) then WErr st
            else if can_rotate (clk i) st then
              write_loop fuel' clk (S i) (rotate (clk i) [NL] RSplit (put st a)) rest (written + zlen a + 1)
            else WErr (close_fd (put st a))
        | SNone =>
            if 0 <? rf_pos st then
              (* continue in a fresh file, nothing is skipped *)
              if can_rotate (clk i) st then
                write_loop fuel' clk (S i) (rotate (clk i) [] RFresh st) p written
              else WErr (close_fd st)
            else
              match split_first_nl p with
              | Some (a, b) =>
                  if negb (fd_open st) then WErr st
                  else if can_rotate (clk i) st then
                    write_loop fuel' clk (S i) (rotate (clk i) [NL] RLong (put st a)) b (written + zlen a + 1)
                  else WErr (close_fd (put st a))
              | None => final                     (* break: no newline at all *)
              end
        end
    end
  else final.

(* Write(p): Stat(path) failed => reopen; then the loop.  With the directory unreachable both
   fail: the error is returned, descriptor and position are kept.
   WErr also stands for the error returns inside the loop (a rename that fails, a write on the
   descriptor such a rename left closed); what was written before the error stays written. *)
Definition rf_write (clk : nat -> N) (st : rf) (p : bytes) : wres :=
  if rf_dir st then
    let st0 := if rf_exists st then st else reopen st in
    write_loop (S (S (2 * length p))) clk 0 st0 p 0
  else WErr st.

(* OpenRotateFile(path, mode, max) on whatever is at path: create if missing, seek to the
   end, rotate at once when offset >= max *)
Definition rf_reopen (s : N) (st : rf) : rf :=
  let st1 := mkRF (rf_max st) (zlen (rf_cur st)) true (rf_cur st)
                  (rf_rot st) (rf_hist st) (rf_moved st) (rf_gone st) (fd_at_path st) in
  if rf_pos st1 <? rf_max st1 then st1
  else if can_rotate s st1 then rotate s [] ROpen st1
  else close_fd st1.                (* OpenRotateFile returns (rf, err) *)

(* did OpenRotateFile return an error (the file found is full and cannot be rotated away) *)
Definition open_fails (namelen max : Z) (s : N) (init : bytes) : bool :=
  negb (zlen init <? max) && negb (namelen + 15 <=? 255).

Definition rf_open_env (namelen max : Z) (s : N) (init : bytes) : rf :=
  rf_reopen s (mkRF max 0 true init [] [] [] [] (mkEnv true FdAtPath [] namelen)).

(* the usual name: log *)
Definition rf_open (max : Z) (s : N) (init : bytes) : rf := rf_open_env 3 max s init.

(* ---- histories ---- *)
Inductive op :=
| OWrite (clk : nat -> N) (p : bytes)
| ORemove                    (* someone removes <path> *)
| OMove                      (* someone renames <path> away (logrotate style) *)
| OReopen (s : N)            (* Close + OpenRotateFile: the process restarts *)
| ODirAway                   (* the directory of <path> becomes unreachable (renamed away, unmounted,
                                a regular file put in its place); what it holds is kept *)
| ODirBack.                  (* ... and comes back as it was *)

(* the file is removed / renamed while the writer holds it open: its descriptor keeps referring
   to that file, which is not at <path> any more.  Nothing happens when the path is not reachable
   or does not exist. *)
Definition ext_remove (st : rf) : rf :=
  if rf_dir st && rf_exists st then
    mkRF (rf_max st) (rf_pos st) false [] (rf_rot st)
         (rf_hist st ++ [mkH 0 0 (rf_cur st) [] RGone]) (rf_moved st) (rf_gone st ++ [rf_cur st])
         (mkEnv (rf_dir st) FdDetached (rf_lost st) (rf_namelen st))
  else st.

Definition ext_move (st : rf) : rf :=
  if rf_dir st && rf_exists st then
    mkRF (rf_max st) (rf_pos st) false [] (rf_rot st)
         (rf_hist st ++ [mkH 0 0 (rf_cur st) [] RMoved]) (rf_moved st ++ [rf_cur st]) (rf_gone st)
         (mkEnv (rf_dir st) FdDetached (rf_lost st) (rf_namelen st))
  else st.

Definition ext_dir (b : bool) (st : rf) : rf :=
  mkRF (rf_max st) (rf_pos st) (rf_exists st) (rf_cur st) (rf_rot st) (rf_hist st) (rf_moved st) (rf_gone st)
       (mkEnv b (rf_fd st) (rf_lost st) (rf_namelen st)).

(* a restart while the directory is unreachable: OpenRotateFile fails, there is no writer; the
   histories considered restart only while it is reachable (nothing happens otherwise) *)
Definition ext_restart (s : N) (st : rf) : rf := if rf_dir st then rf_reopen s st else st.

(* result of a history: final state and what each Write returned (None = an error) *)
Fixpoint run (st : rf) (rets : list (option Z)) (ops : list op) : option (rf * list (option Z)) :=
  match ops with
  | [] => Some (st, rets)
  | OWrite clk p :: r =>
      match rf_write clk st p with
      | WOk st' n => run st' (rets ++ [Some n]) r
      | WErr st' => run st' (rets ++ [None]) r
      | _ => None
      end
  | ORemove :: r => run (ext_remove st) rets r
  | OMove :: r => run (ext_move st) rets r
  | OReopen s :: r => run (ext_restart s st) rets r
  | ODirAway :: r => run (ext_dir false st) rets r
  | ODirBack :: r => run (ext_dir true st) rets r
  end.

(* ---- what the property talks about ---- *)

(* the lines of a file: split at '\n'; a last piece without terminator counts when non-empty *)
Fixpoint lines_of (b : bytes) : list bytes :=
  match b with
  | [] => []
  | x :: r =>
      if (x =? NL)%N then [] :: lines_of r
      else match lines_of r with
           | [] => [[x]]
           | l :: ls => (x :: l) :: ls
           end
  end.

(* everything the writer was given while its destination was reachable, in order
   ([d] = is the directory reachable at the start of [ops]) *)
Fixpoint accepted (d : bool) (ops : list op) : bytes :=
  match ops with
  | [] => []
  | OWrite _ p :: r => if d then p ++ accepted d r else accepted d r
  | ODirAway :: r => accepted false r
  | ODirBack :: r => accepted true r
  | _ :: r => accepted d r
  end.
Definition written_of (ops : list op) : bytes := accepted true ops.

Definition no_ext (ops : list op) : bool :=
  forallb (fun o => match o with ORemove | OMove => false | _ => true end) ops.

(* the bytes that ever were at <path>, oldest file first, with what each rotation skipped *)
Definition hist_stream (h : list hent) : bytes :=
  concat (map (fun e => h_content e ++ h_skipped e) h).

Definition is_rot (e : hent) : bool :=
  match h_kind e with RMoved | RGone => false | _ => true end.
Definition is_moved (e : hent) : bool := match h_kind e with RMoved => true | _ => false end.
Definition is_gone (e : hent) : bool := match h_kind e with RGone => true | _ => false end.

Definition hist_files (h : list hent) : list (rname * bytes) :=
  map (fun e => ((h_sec e, h_k e), h_content e)) h.

(* input classes in which the code used to fail (kept to name a regression) *)
Definition is_nowin (e : hent) : bool := match h_kind e with RFresh | RLong => true | _ => false end.
Definition has_nowin (h : list hent) : bool := existsb is_nowin h.      (* a rotation without newline in its window *)
Definition has_samesec (h : list hent) : bool := existsb (fun e => negb (h_k e =? 0)%N) h.  (* two rotations in one second *)

(* a batch as file.go produces it: newline-terminated, non-empty lines without inner newline *)
Definition line_ok (l : bytes) : bool :=
  match l with [] => false | _ => forallb (fun x => negb (x =? NL)%N) l end.
Definition term (l : bytes) : bytes := l ++ [NL].
Definition batch_of (ls : list bytes) : bytes := concat (map term ls).

(* ---- file.go: writeLoop + Send ---- *)
Definition FLUSH_BYTES : Z := 500 * 1024.

(* what happens to the destination from outside *)
Inductive fault := FRemove | FMove | FDirAway | FDirBack.
Definition apply_fault (f : fault) (st : rf) : rf :=
  match f with
  | FRemove => ext_remove st
  | FMove => ext_move st
  | FDirAway => ext_dir false st
  | FDirBack => ext_dir true st
  end.

(* what the writer goroutine sees.  [clk g] = the wall-clock second read by the rotation that
   creates the g-th rotated file of the directory (used only if this event makes the loop flush) *)
Inductive wev :=
| ESend (clk : nat -> N) (line : bytes)   (* a request arrives (already encoded: line ++ "\n") *)
| EBad                                    (* a request arrives that json.Encoder rejects (NaN, chan, func ...) *)
| EIdle (clk : nat -> N)                  (* one second without a request *)
| EFault (clk : nat -> N) (f : fault).    (* a second without a request passes, then the fault happens
                                             (faults hit a quiescent channel) *)

(* the buffer is kept as the list of encoded requests (oldest first) with its length.
   The writer goroutine is started by New with the destination already open and leaves its loop
   only when the request channel is closed: every request sent is received (Send returns). *)
Record wl := mkWL { wl_rf : rf; wl_buf : list bytes; wl_len : Z }.

(* io.Copy(dest, &buf); buf.Reset(): an error of Write is logged, the batch is dropped.
   None = Write did not return *)
Definition wl_flush (clk : nat -> N) (w : wl) : option wl :=
  match wl_buf w with
  | [] => Some w                       (* io.Copy of an empty buffer performs no Write *)
  | _ => match rf_write (fun i => clk (length (rf_rot (wl_rf w)) + i)%nat) (wl_rf w) (concat (wl_buf w)) with
         | WOk st _ => Some (mkWL st [] 0)
         | WErr st => Some (mkWL st [] 0)
         | _ => None
         end
  end.

(* one turn of the select: the request is received (the sender goes on) and encoded into the
   buffer, flushed at 500 KiB; an encode error leaves the buffer as it is (Encoder.Encode writes
   only after marshalling succeeded) and goes back to the select; or a second passes without
   request and the buffer is flushed *)
Definition wl_step (w : wl) (e : wev) : option wl :=
  match e with
  | ESend s line =>
      let w1 := mkWL (wl_rf w) (wl_buf w ++ [line]) (wl_len w + zlen line) in
      if wl_len w1 <? FLUSH_BYTES then Some w1 else wl_flush s w1
  | EBad => Some w
  | EIdle s => wl_flush s w
  | EFault s f =>
      match wl_flush s w with
      | Some w1 => Some (mkWL (apply_fault f (wl_rf w1)) (wl_buf w1) (wl_len w1))
      | None => None
      end
  end.

Fixpoint wl_run (w : wl) (es : list wev) : option wl :=
  match es with
  | [] => Some w
  | e :: r => match wl_step w e with Some w' => wl_run w' r | None => None end
  end.

(* the lines the channel accepted while its destination was reachable *)
Fixpoint wl_accepted (d : bool) (es : list wev) : bytes :=
  match es with
  | [] => []
  | ESend _ line :: r => if d then line ++ wl_accepted d r else wl_accepted d r
  | EFault _ FDirAway :: r => wl_accepted false r
  | EFault _ FDirBack :: r => wl_accepted true r
  | _ :: r => wl_accepted d r
  end.

(* New(): MaxSize >= 1024 required; the destination is opened here; None = New returned an
   error and no channel (nothing to Send on) *)
Definition wl_new_env (namelen max : Z) (openable : bool) (s : N) (init : bytes) : option wl :=
  if max <? 1024 then None
  else if openable && negb (open_fails namelen max s init) then Some (mkWL (rf_open_env namelen max s init) [] 0)
  else None.

Definition wl_new (max : Z) (openable : bool) (s : N) (init : bytes) : option wl :=
  wl_new_env 3 max openable s init.
