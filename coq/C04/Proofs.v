(* C04 - lemmas: the buffered reader's line/take requests are functions of the pending
   byte stream; reader programs without buffer-sensitive reads see only the stream. *)
From HT Require Import Common.Bytes C04.Model.
From Coq Require Import ZifyBool ZifyN ZifyNat.
Open Scope nat_scope.

(* ---- the connection ---- *)
Lemma read_raw_inv c n : let '(b, c') := read_raw c n in b ++ concat c' = concat c.
Proof.
  destruct c as [|s r]; cbn [read_raw]; [reflexivity|].
  destruct (skipn n s) as [|x rest] eqn:E; cbn [concat].
  - rewrite <- (firstn_skipn n s) at 2. rewrite E, app_nil_r. reflexivity.
  - rewrite app_assoc. rewrite <- E, firstn_skipn. reflexivity.
Qed.

Lemma BUFSZ_pos : 0 < BUFSZ.
Proof. unfold BUFSZ. lia. Qed.

Lemma fill_pending r : pending (fill r) = pending r.
Proof.
  unfold fill, pending. pose proof (read_raw_inv (rsrc r) (BUFSZ - length (rbuf r))) as H.
  destruct (read_raw (rsrc r) (BUFSZ - length (rbuf r))) as [b s]. cbn [rbuf rsrc].
  rewrite <- app_assoc, H. reflexivity.
Qed.

(* one underlying read moves n0 >= 1 bytes (or removes an empty segment) *)
Lemma read_raw_measure c n :
  0 < n -> c <> [] ->
  let '(b, c') := read_raw c n in
  length (concat c) = length b + length (concat c') /\
  (length b + length c' < 2 * length b + length c).
Proof.
  intros Hn Hc. destruct c as [|s r]; [congruence|]. cbn [read_raw].
  destruct (skipn n s) as [|x rest] eqn:E; cbn [concat length]; rewrite ?app_length.
  - assert (Hs : firstn n s = s).
    { rewrite <- (firstn_skipn n s) at 2. rewrite E, app_nil_r. reflexivity. }
    rewrite Hs. split; lia.
  - assert (Hl : length (firstn n s) = n).
    { rewrite firstn_length. assert (length (skipn n s) <> 0) by (rewrite E; cbn; lia).
      rewrite skipn_length in H. lia. }
    rewrite <- E. split.
    + rewrite <- (firstn_skipn n s) at 1. rewrite app_length. lia.
    + rewrite Hl. cbn [length]. lia.
Qed.

(* ---- split at the delimiter ---- *)
Lemma split_delim_app d l : split_delim d l = None \/ exists a b, split_delim d l = Some (a, b) /\ l = a ++ b.
Proof.
  induction l as [|x l IH]; cbn [split_delim]; [left; reflexivity|].
  destruct (beq x d); [right; exists [x], l; split; reflexivity|].
  destruct IH as [->|(a & b & -> & ->)]; [left; reflexivity|].
  right. exists (x :: a), b. split; reflexivity.
Qed.

Lemma split_delim_some_app d x y a b :
  split_delim d x = Some (a, b) -> split_delim d (x ++ y) = Some (a, b ++ y).
Proof.
  revert a b. induction x as [|c x IH]; intros a b; cbn [split_delim app]; [discriminate|].
  destruct (beq c d); [intros H; inversion H; reflexivity|].
  destruct (split_delim d x) as [[a0 b0]|]; [|discriminate].
  intros H; injection H as <- <-. rewrite (IH a0 b0 eq_refl). reflexivity.
Qed.

Lemma split_delim_none_app d x y :
  split_delim d x = None ->
  split_delim d (x ++ y) = match split_delim d y with Some (a, b) => Some (x ++ a, b) | None => None end.
Proof.
  induction x as [|c x IH]; cbn [split_delim app]; intros H.
  - destruct (split_delim d y) as [[a b]|]; reflexivity.
  - destruct (beq c d); [discriminate|].
    destruct (split_delim d x) as [[a0 b0]|]; [discriminate|].
    rewrite (IH eq_refl). destruct (split_delim d y) as [[a b]|]; reflexivity.
Qed.

(* ---- ReadBytes / ReadString ---- *)
Lemma r_until_f_spec fuel d : forall acc r res r',
  r_until_f fuel d acc r = Some (res, r') ->
  match split_delim d (pending r) with
  | Some (a, b) => res = RLine (acc ++ a) /\ pending r' = b
  | None => res = REof (acc ++ pending r) /\ pending r' = []
  end.
Proof.
  induction fuel as [|f IH]; intros acc r res r' H; cbn [r_until_f] in H; [discriminate|].
  unfold pending at 1.
  destruct (split_delim d (rbuf r)) as [[a b]|] eqn:Eb.
  - inversion H; subst. rewrite (split_delim_some_app _ _ _ _ _ Eb). split; reflexivity.
  - rewrite (split_delim_none_app _ _ _ Eb).
    destruct (rsrc r) as [|s0 rest] eqn:Es.
    + inversion H; subst. cbn [concat split_delim]. unfold pending. rewrite Es. cbn [concat rbuf rsrc].
      rewrite app_nil_r. split; reflexivity.
    + rewrite <- Es in *. destruct (BUFSZ <=? length (rbuf r)).
      * apply IH in H. unfold pending in H at 1. cbn [rbuf rsrc app] in H.
        destruct (split_delim d (concat (rsrc r))) as [[a b]|].
        -- destruct H as [-> ->]. rewrite app_assoc. split; reflexivity.
        -- destruct H as [-> ->]. unfold pending. cbn [rbuf rsrc app]. rewrite app_assoc. split; reflexivity.
      * apply IH in H. rewrite fill_pending in H. unfold pending in H at 1.
        rewrite (split_delim_none_app _ _ _ Eb) in H.
        destruct (split_delim d (concat (rsrc r))) as [[a b]|]; exact H.
Qed.

Lemma fill_until_measure r :
  rsrc r <> [] -> length (rbuf r) < BUFSZ -> until_measure (fill r) < until_measure r.
Proof.
  intros Hs Hb. unfold fill, until_measure.
  pose proof (read_raw_measure (rsrc r) (BUFSZ - length (rbuf r)) ltac:(lia) Hs) as H.
  destruct (read_raw (rsrc r) (BUFSZ - length (rbuf r))) as [b s]. cbn [rbuf rsrc].
  rewrite app_length. lia.
Qed.

Lemma r_until_f_enough fuel d : forall acc r, until_measure r < fuel -> r_until_f fuel d acc r <> None.
Proof.
  induction fuel as [|f IH]; intros acc r Hm; [lia|]. cbn [r_until_f].
  destruct (split_delim d (rbuf r)) as [[a b]|]; [discriminate|].
  destruct (rsrc r) as [|s0 rest] eqn:Es; [discriminate|]. rewrite <- Es.
  destruct (BUFSZ <=? length (rbuf r)) eqn:Ef.
  - apply IH. unfold until_measure in *. cbn [rbuf rsrc length]. pose proof BUFSZ_pos. lia.
  - apply IH. assert (rsrc r <> []) by (rewrite Es; discriminate).
    pose proof (fill_until_measure r H). lia.
Qed.

Lemma r_until_spec d r :
  let '(res, r') := r_until d r in s_until d (pending r) = (res, pending r').
Proof.
  unfold r_until. destruct (r_until_f (S (until_measure r)) d [] r) as [[res r']|] eqn:E.
  - apply r_until_f_spec in E. unfold s_until.
    destruct (split_delim d (pending r)) as [[a b]|]; destruct E as [-> ->]; reflexivity.
  - exfalso. eapply r_until_f_enough; [|exact E]. lia.
Qed.

(* ---- consuming exactly n bytes ---- *)
Lemma firstn_app_le {A} n (a b : list A) : n <= length a -> firstn n (a ++ b) = firstn n a.
Proof.
  intros H. rewrite firstn_app. replace (n - length a) with 0 by lia. cbn [firstn]. apply app_nil_r.
Qed.
Lemma skipn_app_le {A} n (a b : list A) : n <= length a -> skipn n (a ++ b) = skipn n a ++ b.
Proof.
  intros H. rewrite skipn_app. replace (n - length a) with 0 by lia. reflexivity.
Qed.
Lemma firstn_app_gt {A} n (a b : list A) : length a <= n -> firstn n (a ++ b) = a ++ firstn (n - length a) b.
Proof. intros H. rewrite firstn_app, firstn_all2 by lia. reflexivity. Qed.
Lemma skipn_app_gt {A} n (a b : list A) : length a <= n -> skipn n (a ++ b) = skipn (n - length a) b.
Proof. intros H. rewrite skipn_app, skipn_all2 by lia. reflexivity. Qed.

Lemma r_take_f_spec fuel : forall n acc r x r',
  r_take_f fuel n acc r = Some (x, r') ->
  x = acc ++ firstn n (pending r) /\ pending r' = skipn n (pending r).
Proof.
  induction fuel as [|f IH]; intros n acc r x r' H; cbn [r_take_f] in H; [discriminate|].
  destruct (n <=? length (rbuf r)) eqn:En.
  - inversion H; subst. unfold pending. cbn [rbuf rsrc].
    rewrite firstn_app_le, skipn_app_le by lia. split; reflexivity.
  - destruct (rsrc r) as [|s0 rest] eqn:Es.
    + inversion H; subst. unfold pending. rewrite Es. cbn [concat rbuf rsrc]. rewrite !app_nil_r.
      rewrite firstn_all2, skipn_all2 by lia. split; reflexivity.
    + rewrite <- Es in *. apply IH in H. rewrite fill_pending in H.
      unfold pending in *. cbn [rbuf rsrc app] in *.
      rewrite firstn_app_gt, skipn_app_gt by lia. destruct H as [-> ->].
      rewrite app_assoc. split; reflexivity.
Qed.

Lemma fill_take_measure s : s <> [] -> take_measure (fill (mkRd [] s)) < take_measure (mkRd [] s).
Proof.
  intros Hs. unfold fill, take_measure. cbn [rbuf rsrc length].
  pose proof (read_raw_measure s (BUFSZ - 0) ltac:(pose proof BUFSZ_pos; lia) Hs) as H.
  destruct (read_raw s (BUFSZ - 0)) as [b s']. cbn [rbuf rsrc]. lia.
Qed.

Lemma r_take_f_enough fuel : forall n acc r, take_measure r < fuel -> r_take_f fuel n acc r <> None.
Proof.
  induction fuel as [|f IH]; intros n acc r Hm; [lia|]. cbn [r_take_f].
  destruct (n <=? length (rbuf r)); [discriminate|].
  destruct (rsrc r) as [|s0 rest] eqn:Es; [discriminate|]. rewrite <- Es.
  apply IH. assert (rsrc r <> []) by (rewrite Es; discriminate).
  pose proof (fill_take_measure (rsrc r) H). unfold take_measure in *. cbn [rbuf rsrc] in *. lia.
Qed.

Lemma r_take_spec n r :
  let '(x, r') := r_take n r in x = firstn n (pending r) /\ pending r' = skipn n (pending r).
Proof.
  unfold r_take. destruct (r_take_f (S (take_measure r)) n [] r) as [[x r']|] eqn:E.
  - apply r_take_f_spec in E. exact E.
  - exfalso. eapply r_take_f_enough; [|exact E]. lia.
Qed.

(* ---- one Read: a prefix of the stream, never more than asked ---- *)
Lemma r_read_inv n r :
  let '(b, r') := r_read n r in b ++ pending r' = pending r /\ length b <= n.
Proof.
  unfold r_read. destruct (rbuf r) as [|x buf] eqn:Eb.
  - destruct (BUFSZ <=? n).
    + pose proof (read_raw_inv (rsrc r) n) as H. destruct (read_raw (rsrc r) n) as [b s] eqn:Er.
      unfold pending. rewrite Eb. cbn [rbuf rsrc app]. split; [exact H|].
      destruct (rsrc r) as [|s0 rest]; cbn [read_raw] in Er.
      * inversion Er; cbn; lia.
      * destruct (skipn n s0); inversion Er; rewrite firstn_length; lia.
    + pose proof (fill_pending r) as H. unfold pending in *. rewrite <- H.
      rewrite app_assoc, firstn_skipn. split; [reflexivity|]. rewrite firstn_length. lia.
  - unfold pending. cbn [rbuf rsrc]. rewrite Eb, app_assoc, firstn_skipn.
    split; [reflexivity|]. rewrite firstn_length. lia.
Qed.

(* ------------------------------------------------------------------ *)
(* reader programs                                                     *)
(* ------------------------------------------------------------------ *)
(* whenever the run over the stream executed no buffer-sensitive Read and the run over the
   segments dropped no buffered byte, both runs report the same events and return code *)
Lemma run_sound p : forall r es c d es' c' ok,
  run_seg p r = (es, c, d) -> run_str p (pending r) = (es', c', ok) ->
  d = [] -> ok = true -> es = es' /\ c = c'.
Proof.
  induction p as [code|e k IH|dl k IH|n k IH|n k IH|k IH]; intros r es c d es' c' ok Hs Ht Hd Hok;
    cbn [run_seg run_str] in Hs, Ht.
  - inversion Hs; inversion Ht; subst; split; reflexivity.
  - destruct (run_seg k r) as [[es0 c0] d0] eqn:E1. destruct (run_str k (pending r)) as [[es1 c1] ok1] eqn:E2.
    inversion Hs; inversion Ht; subst.
    destruct (IH _ _ _ _ _ _ _ E1 E2 eq_refl eq_refl) as [-> ->]. split; reflexivity.
  - pose proof (r_until_spec dl r) as Hu. destruct (r_until dl r) as [res r'].
    rewrite Hu in Ht. eapply IH; eauto.
  - pose proof (r_take_spec n r) as Hu. destruct (r_take n r) as [x r']. destruct Hu as [-> Hp].
    rewrite <- Hp in Ht. eapply IH; eauto.
  - destruct (run_str (k (firstn n (pending r))) (skipn n (pending r))) as [[es1 c1] ok1].
    injection Ht as <- <- <-. discriminate.
  - destruct (run_seg k (mkRd [] (rsrc r))) as [[es0 c0] d0] eqn:E1.
    injection Hs as <- <- <-. apply app_eq_nil in Hd as [Hb Hd0].
    assert (Hp : pending (mkRd [] (rsrc r)) = pending r) by (unfold pending; rewrite Hb; reflexivity).
    rewrite <- Hp in Ht. eapply IH; eauto.
Qed.

(* programs that only ever ask for delimited lines and exact byte counts on ONE reader *)
Inductive persistent : prog -> Prop :=
| per_done c : persistent (PDone c)
| per_emit e k : persistent k -> persistent (PEmit e k)
| per_until d k : (forall res, persistent (k res)) -> persistent (PUntil d k)
| per_take n k : (forall b, persistent (k b)) -> persistent (PTake n k).

Lemma persistent_run p : persistent p ->
  forall r, run_seg p r = (fst (str_obs p (pending r)), snd (str_obs p (pending r)), []).
Proof.
  unfold str_obs. induction 1 as [c|e k Hk IH|d k Hk IH|n k Hk IH]; intros r; cbn [run_seg run_str].
  - reflexivity.
  - rewrite IH. destruct (run_str k (pending r)) as [[es c] ok]. reflexivity.
  - pose proof (r_until_spec d r) as Hu. destruct (r_until d r) as [res r']. rewrite Hu. apply IH.
  - pose proof (r_take_spec n r) as Hu. destruct (r_take n r) as [x r']. destruct Hu as [-> Hp].
    rewrite <- Hp. apply IH.
Qed.

Lemma persistent_obs p c : persistent p -> seg_obs p c = str_obs p (concat c).
Proof.
  intros H. unfold seg_obs. rewrite (persistent_run p H). unfold pending, new_reader. cbn [rbuf rsrc app].
  destruct (str_obs p (concat c)); reflexivity.
Qed.

Lemma persistent_nothing_dropped p c : persistent p -> seg_dropped p c = [].
Proof. intros H. unfold seg_dropped. rewrite (persistent_run p H). reflexivity. Qed.

Lemma persistent_clean p : persistent p -> forall s, str_clean p s = true.
Proof.
  unfold str_clean. induction 1 as [c|e k Hk IH|d k Hk IH|n k Hk IH]; intros s; cbn [run_str].
  - reflexivity.
  - specialize (IH s). destruct (run_str k s) as [[es c] ok]. exact IH.
  - destruct (s_until d s) as [res s']. apply IH.
  - apply IH.
Qed.

(* the generic theorem: for a persistent reader the events depend only on the concatenation *)
Lemma persistent_segmentation_invariant p c1 c2 :
  persistent p -> concat c1 = concat c2 -> seg_obs p c1 = seg_obs p c2.
Proof. intros H E. rewrite !persistent_obs by exact H. rewrite E. reflexivity. Qed.

(* the general form, for programs with Reads and fresh readers: outside the two loss mechanisms *)
Lemma clean_lossless_obs p c :
  str_clean p (concat c) = true -> seg_dropped p c = [] -> seg_obs p c = str_obs p (concat c).
Proof.
  unfold str_clean, seg_dropped, seg_obs, str_obs. intros Hc Hd.
  destruct (run_seg p (new_reader c)) as [[es cd] d] eqn:E1.
  assert (Hp : pending (new_reader c) = concat c) by reflexivity.
  destruct (run_str p (concat c)) as [[es' cd'] ok] eqn:E2. rewrite <- Hp in E2.
  destruct (run_sound p _ _ _ _ _ _ _ E1 E2 Hd Hc) as [-> ->]. reflexivity.
Qed.

(* ---- the services with one persistent reader ---- *)
Ltac per_step :=
  match goal with
  | |- persistent (PDone _) => constructor
  | |- persistent (PEmit _ _) => constructor
  | |- persistent (PUntil _ _) => constructor; intros ?
  | |- persistent (PTake _ _) => constructor; intros ?
  | |- persistent (PScan _) => unfold PScan; constructor; intros ?
  | |- persistent (match ?x with _ => _ end) => destruct x
  | |- persistent (if ?x then _ else _) => destruct x
  | |- persistent (let '(_, _) := ?x in _) => destruct x
  end.

Lemma ftp_persistent fuel : persistent (ftp_prog fuel).
Proof. induction fuel as [|f IH]; cbn [ftp_prog]; repeat per_step; exact IH. Qed.

Lemma dot_persistent fuel : forall st acc k,
  (forall r, persistent (k r)) -> persistent (dot_prog fuel st acc k).
Proof.
  induction fuel as [|f IH]; intros st acc k Hk; cbn [dot_prog]; [constructor|].
  constructor. intros b. destruct b as [|c b']; [apply Hk|].
  destruct (dot_step st c) as [[st' out] fin]. destruct fin; [apply Hk|apply IH; exact Hk].
Qed.

Lemma smtp_step_persistent clean self dotfuel st i buf line :
  (forall st i buf, persistent (self st i buf)) -> persistent (smtp_step clean self dotfuel st i buf line).
Proof.
  intros Hs. unfold smtp_step. destruct st.
  - repeat (first [apply Hs | per_step]).
  - repeat (first [apply Hs | per_step]).
  - repeat (first [apply Hs | apply dot_persistent; intros ? | per_step]).
Qed.

Lemma smtp_persistent clean fuel : forall st i buf, persistent (smtp_prog clean fuel st i buf).
Proof.
  induction fuel as [|f IH]; intros st i buf; cbn [smtp_prog]; [constructor|].
  constructor. intros res. destruct (tp_line res) as [line|]; [|constructor].
  constructor. apply smtp_step_persistent. exact IH.
Qed.

(* ---- smtp mail accumulation, command by command (for every continuation [self]) ---- *)
(* RSET inside a transaction: the dialogue goes on with an EMPTY chunk buffer *)
Lemma smtp_rset_in_transaction clean self df i buf line :
  line <> [] -> is_command line s_RSET = true ->
  smtp_step clean self df SMail i buf line = self SLoop i [].
Proof. intros Hl Hr. unfold smtp_step. destruct line; [congruence|]. rewrite Hr. reflexivity. Qed.

(* a BDAT chunk that is not LAST: exactly [count] bytes are appended to the buffer *)
Lemma smtp_bdat_chunk clean self df i buf line w cnt count :
  line <> [] -> is_command line s_RSET = false -> is_command line s_RCPTTO = false ->
  is_command line s_BDAT = true -> split_on SP line = [w; cnt] -> parse_int 32 cnt = Some count ->
  smtp_step clean self df SMail i buf line =
  PTake (Z.to_nat count) (fun chunk =>
    if length chunk <? Z.to_nat count then PDone 0 else self SMail i (buf ++ chunk)).
Proof.
  intros Hl H1 H2 H3 H4 H5. unfold smtp_step. destruct line; [congruence|].
  rewrite H1, H2, H3, H4, H5. reflexivity.
Qed.

(* BDAT n LAST: the mail reported is parsed from the buffer ++ this chunk - the bytes received
   since the buffer was last emptied - and the next mail starts with an empty buffer *)
Lemma smtp_bdat_last clean self df i buf line w cnt count :
  line <> [] -> is_command line s_RSET = false -> is_command line s_RCPTTO = false ->
  is_command line s_BDAT = true -> split_on SP line = [w; cnt; s_LAST] -> parse_int 32 cnt = Some count ->
  smtp_step clean self df SMail i buf line =
  PTake (Z.to_nat count) (fun chunk =>
    if length chunk <? Z.to_nat count then PDone 0
    else match mail_parse (buf ++ chunk) with
         | None => PDone 0
         | Some m => PEmit (mail_event m) (self SLoop i [])
         end).
Proof.
  intros Hl H1 H2 H3 H4 H5. unfold smtp_step. destruct line; [congruence|].
  rewrite H1, H2, H3, H4, H5. reflexivity.
Qed.

(* reference reading: MAIL FROM opens a transaction with an empty buffer; the code keeps it *)
Lemma smtp_mail_from clean self df i buf line :
  line <> [] -> (LOOP_TRESHOLD <? S i) = false -> is_command line s_MAILFROM = true ->
  smtp_step clean self df SLoop i buf line = self SMail (S i) (if clean then [] else buf).
Proof. intros Hl Ht Hm. unfold smtp_step. destruct line; [congruence|]. rewrite Ht, Hm. reflexivity. Qed.

(* the former code and the reference reading differ in nothing else *)
Lemma smtp_code_is_reference_step self df st i buf line :
  (st = SLoop -> is_command line s_MAILFROM = true -> buf = []) ->
  smtp_step false self df st i buf line = smtp_step true self df st i buf line.
Proof.
  intros H. unfold smtp_step. destruct st; try reflexivity.
  destruct line; [reflexivity|]. destruct (LOOP_TRESHOLD <? S i); [reflexivity|].
  destruct (is_command (n :: line) s_MAILFROM) eqn:E; [|reflexivity].
  rewrite (H eq_refl eq_refl). reflexivity.
Qed.

Lemma redis_persistent fuel : forall stack, persistent (redis_prog fuel stack).
Proof.
  induction fuel as [|f IH]; intros stack; cbn [redis_prog]; [constructor|].
  assert (Hfin : forall d, persistent
    match deliver d stack with
    | inr stack' => redis_prog f stack'
    | inl top =>
        match top with
        | DScalar 0%N _ => redis_prog f []
        | DScalar _ _ => PDone 0
        | DArr [] => PDone 2
        | DArr (DScalar ty s :: _) =>
            if beq ty 43%N || beq ty 36%N then PEmit (mkEv EV_REDIS [s]) (redis_prog f []) else PDone 0
        | DArr (DArr _ :: _) => PDone 0
        end
    end).
  { intros d. repeat (first [apply IH | per_step]). }
  repeat (first [apply Hfin | apply IH | per_step]).
Qed.

Lemma memcached_persistent fuel : forall lim, persistent (memcached_prog lim fuel).
Proof. induction fuel as [|f IH]; intros lim; cbn [memcached_prog]; repeat (first [apply IH | per_step]). Qed.

Lemma chunk_trailer_persistent fuel : forall ok bad,
  persistent ok -> persistent bad -> persistent (chunk_trailer fuel ok bad).
Proof.
  induction fuel as [|f IH]; intros ok bad Ho Hb; cbn [chunk_trailer]; [constructor|].
  repeat (first [exact Ho | exact Hb | apply IH; assumption | per_step]).
Qed.

Lemma chunk_body_persistent fuel : forall acc k,
  (forall r, persistent (k r)) -> persistent (chunk_body fuel acc k).
Proof.
  induction fuel as [|f IH]; intros acc k Hk; cbn [chunk_body]; [constructor|].
  repeat (first [apply Hk | apply IH; exact Hk | apply chunk_trailer_persistent | per_step]).
Qed.

Lemma http_headers_persistent fuel : forall host cl te k,
  (forall h, persistent (k h)) -> persistent (http_headers fuel host cl te k).
Proof.
  induction fuel as [|f IH]; intros host cl te k Hk; cbn [http_headers]; [constructor|].
  repeat (first [apply Hk | apply IH; exact Hk | per_step]).
Qed.

Lemma http_discard_persistent fuel : forall rem k,
  persistent k -> persistent (http_discard fuel rem k).
Proof.
  induction fuel as [|f IH]; intros rem k Hk; cbn [http_discard]; [constructor|].
  destruct rem; [exact Hk|]. constructor. intros b. destruct b; [exact Hk|apply IH; exact Hk].
Qed.

Lemma http_persistent cfg fuel : persistent (http_prog cfg false fuel).
Proof.
  induction fuel as [|f IH]; cbn [http_prog]; [constructor|].
  constructor. intros res. destruct (tp_line res) as [line|]; [|constructor].
  destruct (cut SP line) as [m [rest|]]; [|constructor].
  destruct (cut SP rest) as [u [p|]]; [|constructor].
  destruct (negb (request_line_ok m u p)); [constructor|].
  apply http_headers_persistent. intros h.
  assert (Hagain : persistent (if h_loop cfg then http_prog cfg false f else PDone 0))
    by (destruct (h_loop cfg); [exact IH|constructor]).
  repeat (first [exact Hagain | apply http_discard_persistent | apply chunk_body_persistent; intros ? | per_step]).
Qed.

(* ---- per service: the code's events are the reference reading of concat segs ---- *)
Lemma ftp_run c : run_impl SVC_FTP c = expected SVC_FTP (concat c).
Proof. unfold run_impl, expected. apply persistent_obs. apply ftp_persistent. Qed.

Lemma smtp_run c : run_impl SVC_SMTP c = expected SVC_SMTP (concat c).
Proof. unfold run_impl, expected. apply persistent_obs. apply smtp_persistent. Qed.

Lemma redis_run c : run_impl SVC_REDIS c = expected SVC_REDIS (concat c).
Proof. unfold run_impl, expected. apply persistent_obs. apply redis_persistent. Qed.

Lemma memcached_run c : run_impl SVC_MEMCACHED c = expected SVC_MEMCACHED (concat c).
Proof. unfold run_impl, expected. apply persistent_obs. apply memcached_persistent. Qed.

(* http: one reader per connection, exact payload *)
Lemma http_run c : run_impl SVC_HTTP c = expected SVC_HTTP (concat c).
Proof. unfold run_impl, expected. apply persistent_obs. apply http_persistent. Qed.

(* one request per connection (docker, elasticsearch, eos, ethereum): the only reader is
   created before anything was buffered *)
Lemma http_single_is_persistent_tail b e fuel :
  http_prog (mkHttp false b e) true (S fuel) = PNewReader (http_prog (mkHttp false b e) false (S fuel)).
Proof. reflexivity. Qed.

Lemma http_single_run b e fuel c :
  seg_obs (http_prog (mkHttp false b e) true fuel) c =
  str_obs (http_prog (mkHttp false b e) false fuel) (concat c).
Proof.
  destruct fuel as [|f]; [reflexivity|]. rewrite http_single_is_persistent_tail.
  pose proof (persistent_obs _ c (http_persistent (mkHttp false b e) (S f))) as H.
  unfold seg_obs in *. cbn [run_seg]. unfold new_reader in *. cbn [rbuf rsrc] in *.
  destruct (run_seg (http_prog (mkHttp false b e) false (S f)) (mkRd [] c)) as [[es cd] d].
  exact H.
Qed.

Lemma docker_run c : run_impl SVC_DOCKER c = expected SVC_DOCKER (concat c).
Proof. unfold run_impl, expected. apply http_single_run. Qed.

Lemma elastic_run c : run_impl SVC_ELASTIC c = expected SVC_ELASTIC (concat c).
Proof. unfold run_impl, expected. apply http_single_run. Qed.

Lemma eos_run c : run_impl SVC_EOS c = expected SVC_EOS (concat c).
Proof. unfold run_impl, expected. apply http_single_run. Qed.

Lemma ethereum_run c : run_impl SVC_ETHEREUM c = expected SVC_ETHEREUM (concat c).
Proof. unfold run_impl, expected. apply http_single_run. Qed.

(* ---- datagram services: the first Read sees the whole datagram (up to the buffer) ---- *)
Lemma first_read_of_datagram n d k :
  (forall b, persistent (k b)) ->
  seg_obs (PRead n k) [d] = str_obs (PTake n k) d.
Proof.
  intros Hk. unfold seg_obs, str_obs. cbn [run_seg run_str].
  pose proof (r_read_inv n (new_reader [d])) as Hinv.
  assert (Hb : fst (r_read n (new_reader [d])) = firstn n d).
  { unfold r_read, new_reader. cbn [rbuf rsrc]. destruct (BUFSZ <=? n) eqn:E.
    - cbn [read_raw]. destruct (skipn n d); reflexivity.
    - unfold fill. cbn [rbuf rsrc length read_raw]. rewrite Nat.sub_0_r.
      destruct (skipn BUFSZ d); cbn [fst rbuf app]; rewrite firstn_firstn; f_equal; lia. }
  destruct (r_read n (new_reader [d])) as [b r'] eqn:E. cbn [fst] in Hb. subst b.
  destruct Hinv as [Hinv _]. unfold pending at 2 in Hinv. unfold new_reader in Hinv. cbn [rbuf rsrc concat app] in Hinv.
  rewrite app_nil_r in Hinv.
  assert (Hinv' : firstn n d ++ pending r' = firstn n d ++ skipn n d) by (rewrite firstn_skipn; exact Hinv).
  apply app_inv_head in Hinv'. clear Hinv. rename Hinv' into Hinv.
  rewrite (persistent_run _ (Hk (firstn n d))). rewrite Hinv. unfold str_obs.
  destruct (run_str (k (firstn n d)) (skipn n d)) as [[es c] ok]. reflexivity.
Qed.

Lemma tftp_tail_persistent op : persistent
  (match op with
   | [_; o] =>
       if beq o 1%N || beq o 2%N then
         PUntil 0%N (fun r1 =>
           match r1 with
           | REof _ => PDone 1
           | RLine fname =>
               PUntil 0%N (fun r2 =>
                 match r2 with
                 | REof _ => PDone 1
                 | RLine mode => PEmit (mkEv (if beq o 1%N then EV_TFTP_READ else EV_TFTP_WRITE) [fname; mode]) (PDone 0)
                 end)
           end)
       else PDone 0
   | [_] => PDone 0
   | _ => PDone 0
   end).
Proof. repeat per_step. Qed.

Lemma tftp_datagram d : run_impl SVC_TFTP [d] = expected SVC_TFTP d.
Proof.
  unfold run_impl, expected. change (impl_prog SVC_TFTP (fuel_for (concat [d]))) with (tftp_prog false).
  change (spec_prog SVC_TFTP (fuel_for d)) with (tftp_prog true). unfold tftp_prog.
  apply first_read_of_datagram. intros b. apply tftp_tail_persistent.
Qed.

Lemma cs_datagram d : run_impl SVC_CS [d] = expected SVC_CS d.
Proof.
  unfold run_impl, expected. change (impl_prog SVC_CS (fuel_for (concat [d]))) with (cs_prog false).
  change (spec_prog SVC_CS (fuel_for d)) with (cs_prog true). unfold cs_prog.
  apply first_read_of_datagram. intros b. repeat per_step.
Qed.

Lemma memcached_udp_datagram d : run_impl SVC_MEMCACHED_UDP [d] = expected SVC_MEMCACHED_UDP d.
Proof.
  unfold run_impl, expected.
  change (impl_prog SVC_MEMCACHED_UDP (fuel_for (concat [d]))) with (memcached_udp_prog false None (fuel_for (concat [d]))).
  change (spec_prog SVC_MEMCACHED_UDP (fuel_for d)) with (memcached_udp_prog true None (fuel_for d)).
  cbn [concat]. rewrite app_nil_r. unfold memcached_udp_prog.
  apply first_read_of_datagram. intros b. apply memcached_persistent.
Qed.

Lemma dns_tail_persistent b : persistent (dns_event b).
Proof. unfold dns_event. repeat per_step. Qed.

Lemma dns_datagram d : run_impl SVC_DNS [d] = expected SVC_DNS d.
Proof.
  unfold run_impl, expected. change (impl_prog SVC_DNS (fuel_for (concat [d]))) with (dns_prog false).
  change (spec_prog SVC_DNS (fuel_for d)) with (dns_prog true). unfold dns_prog.
  apply first_read_of_datagram. exact dns_tail_persistent.
Qed.

(* ---- ftp, declaratively: one event per complete line, in order, up to QUIT ---- *)
Fixpoint lines_f (fuel : nat) (s : bytes) : list bytes :=
  match fuel with
  | O => []
  | S f => match split_delim LF s with
           | Some (a, b) => a :: lines_f f b
           | None => []
           end
  end.

Fixpoint ftp_events (ls : list bytes) : list event :=
  match ls with
  | [] => []
  | l :: r => mkEv EV_FTP [trim_both is_crlf l] ::
              (if eqb_bytes (ftp_command l) QUIT then [] else ftp_events r)
  end.

Lemma ftp_events_spec fuel : forall s,
  fst (str_obs (ftp_prog fuel) s) = ftp_events (lines_f fuel s).
Proof.
  unfold str_obs. induction fuel as [|f IH]; intros s; cbn [ftp_prog lines_f run_str]; [reflexivity|].
  unfold s_until. destruct (split_delim LF s) as [[a b]|]; cbn [run_str ftp_events fst]; [|reflexivity].
  destruct (eqb_bytes (ftp_command a) QUIT).
  - reflexivity.
  - specialize (IH b). destruct (run_str (ftp_prog f) b) as [[es c] ok]. cbn [fst] in *. rewrite IH. reflexivity.
Qed.

Lemma split_delim_shorter d s a b : split_delim d s = Some (a, b) -> length b < length s.
Proof.
  revert a b. induction s as [|x s IH]; intros a b; cbn [split_delim]; [discriminate|].
  destruct (beq x d); [intros H; injection H as <- <-; cbn; lia|].
  destruct (split_delim d s) as [[a0 b0]|]; [|discriminate].
  intros H; injection H as <- <-. specialize (IH a0 b0 eq_refl). cbn [length]. lia.
Qed.

(* the fuel used by run_impl/expected is enough: ftp never ends "out of fuel" *)
Lemma ftp_fuel_enough fuel : forall s, length s < fuel -> snd (str_obs (ftp_prog fuel) s) = 0%N.
Proof.
  unfold str_obs. induction fuel as [|f IH]; intros s Hl; [lia|]. cbn [ftp_prog run_str].
  unfold s_until. destruct (split_delim LF s) as [[a b]|] eqn:E; cbn [run_str snd]; [|reflexivity].
  destruct (eqb_bytes (ftp_command a) QUIT); [reflexivity|].
  apply split_delim_shorter in E. specialize (IH b ltac:(lia)).
  destruct (run_str (ftp_prog f) b) as [[es c] ok]. exact IH.
Qed.

(* the lines are exactly the newline-terminated pieces of the stream, nothing else is left *)
Lemma lines_f_partition fuel : forall s, length s < fuel ->
  exists tail, s = concat (lines_f fuel s) ++ tail /\ split_delim LF tail = None.
Proof.
  induction fuel as [|f IH]; intros s Hl; [lia|]. cbn [lines_f].
  destruct (split_delim LF s) as [[a b]|] eqn:E.
  - pose proof (split_delim_shorter _ _ _ _ E) as Hb.
    destruct (IH b ltac:(lia)) as (tail & Hs & Ht). exists tail. split; [|exact Ht].
    cbn [concat]. rewrite <- app_assoc, <- Hs.
    destruct (split_delim_app LF s) as [Hn|(a' & b' & Hs' & Heq)]; [congruence|].
    rewrite E in Hs'. injection Hs' as <- <-. exact Heq.
  - exists s. split; [reflexivity|exact E].
Qed.

(* ------------------------------------------------------------------ *)
(* redis: the RESP reader parses a concatenation of well-formed commands into exactly those
   commands - for ALL argument byte strings without LF, the empty one included            *)
(* ------------------------------------------------------------------ *)
Definition CRLF : bytes := [CR; LF].
Definition no_lf (t : bytes) : bool := forallb (fun b => negb (beq b LF)) t.
(* a line the Scanner accepts: no LF inside, not longer than its token limit *)
Definition line_ok (t : bytes) : Prop := no_lf t = true /\ (blen t + 2 <= MAXTOK)%N.

Lemma split_delim_no_lf t : no_lf t = true -> split_delim LF t = None.
Proof.
  induction t as [|x t IH]; cbn [no_lf forallb split_delim]; [reflexivity|].
  intros H. apply andb_true_iff in H as [Hx Ht]. apply negb_true_iff in Hx. rewrite Hx.
  unfold no_lf in IH. rewrite (IH Ht). reflexivity.
Qed.

Lemma s_until_line t rest : no_lf t = true -> s_until LF (t ++ CRLF ++ rest) = (RLine (t ++ CRLF), rest).
Proof.
  intros H. unfold s_until. rewrite (split_delim_none_app _ _ _ (split_delim_no_lf t H)).
  reflexivity.
Qed.

Lemma frev_rev {A} (l : list A) : frev l = rev l.
Proof. unfold frev. rewrite rev_append_rev. apply app_nil_r. Qed.

Lemma scan_token_line t : line_ok t -> scan_token (RLine (t ++ CRLF)) = Some t.
Proof.
  intros [Hn Hl]. unfold scan_token.
  assert (Hb : (MAXTOK <? blen (t ++ CRLF))%N = false).
  { unfold blen in *. rewrite app_length. cbn [CRLF length]. apply N.ltb_ge. lia. }
  rewrite Hb. unfold CRLF.
  replace (removelast (t ++ [CR; LF])) with (t ++ [CR])
    by (rewrite removelast_app by discriminate; reflexivity).
  unfold drop_cr. rewrite frev_rev, rev_unit. unfold CR at 1.
  rewrite removelast_app by discriminate. cbn [removelast]. rewrite app_nil_r. reflexivity.
Qed.

Lemma run_scan k t rest : line_ok t -> run_str (PScan k) (t ++ CRLF ++ rest) = run_str (k (Some t)) rest.
Proof.
  intros H. unfold PScan. cbn [run_str]. rewrite (s_until_line t rest (proj1 H)).
  rewrite (scan_token_line t H). reflexivity.
Qed.

Definition redis_top (f : nat) (top : datum) : prog :=
  match top with
  | DScalar 0%N _ => redis_prog f []
  | DScalar _ _ => PDone 0
  | DArr [] => PDone 2
  | DArr (DScalar ty s :: _) =>
      if beq ty 43%N || beq ty 36%N then PEmit (mkEv EV_REDIS [s]) (redis_prog f []) else PDone 0
  | DArr (DArr _ :: _) => PDone 0
  end.
Definition redis_finish (f : nat) (stack : list (N * list datum)) (d : datum) : prog :=
  match deliver d stack with
  | inr stack' => redis_prog f stack'
  | inl top => redis_top f top
  end.

(* a bulk string "$<len>\r\n<arg>\r\n": the datum delivered is exactly arg *)
Lemma redis_bulk f stack lt v arg rest :
  length stack <= MAX_ARRAY_DEPTH -> parse_uint64 lt = Some v -> line_ok (36%N :: lt) -> line_ok arg ->
  run_str (redis_prog (S f) stack) ((36%N :: lt) ++ CRLF ++ arg ++ CRLF ++ rest) =
  run_str (redis_finish f stack (DScalar 36%N arg)) rest.
Proof.
  intros Hd Hp Hl Ha. cbn [redis_prog].
  assert (Hdepth : (MAX_ARRAY_DEPTH <? length stack) = false) by (apply Nat.ltb_ge; exact Hd).
  rewrite Hdepth. rewrite (run_scan _ _ _ Hl). cbv beta iota.
  change (beq 36%N 42%N) with false. change (beq 36%N 43%N) with false. change (beq 36%N 36%N) with true.
  cbv beta iota. rewrite Hp. rewrite (run_scan _ _ _ Ha). reflexivity.
Qed.

(* "*<n>\r\n" with n > 0 at top level opens an array of n items *)
Lemma redis_array_header f cnt n rest :
  parse_uint64 cnt = Some n -> n <> 0%N -> line_ok (42%N :: cnt) ->
  run_str (redis_prog (S f) []) ((42%N :: cnt) ++ CRLF ++ rest) = run_str (redis_prog f [(n, [])]) rest.
Proof.
  intros Hp Hn Hl. cbn [redis_prog]. change (MAX_ARRAY_DEPTH <? length (@nil (N * list datum))) with false.
  cbv beta iota. rewrite (run_scan _ _ _ Hl). cbv beta iota.
  change (beq 42%N 42%N) with true. cbv beta iota. rewrite Hp. destruct n; [congruence|reflexivity].
Qed.

Definition wf_arg (a : bytes * bytes) : Prop :=
  (exists v, parse_uint64 (fst a) = Some v) /\ line_ok (36%N :: fst a) /\ line_ok (snd a).
Definition enc_arg (a : bytes * bytes) : bytes := (36%N :: fst a) ++ CRLF ++ snd a ++ CRLF.
Definition arg_datum (a : bytes * bytes) : datum := DScalar 36%N (snd a).

Lemma redis_items args : forall f acc rest,
  Forall wf_arg args -> args <> [] ->
  run_str (redis_prog (length args + f) [(N.of_nat (length args), acc)]) (concat (map enc_arg args) ++ rest) =
  run_str (redis_top f (DArr (frev (rev (map arg_datum args) ++ acc)))) rest.
Proof.
  induction args as [|a tl IH]; intros f acc rest Hwf Hne; [congruence|].
  inversion Hwf as [|? ? [[v Hv] [Hl Ha]] Hwf']; subst.
  change (length (a :: tl)) with (S (length tl)). change (S (length tl) + f) with (S (length tl + f)).
  cbn [map concat]. unfold enc_arg at 1. repeat rewrite <- app_assoc.
  rewrite (redis_bulk _ _ _ v) by first [assumption | unfold MAX_ARRAY_DEPTH; cbn [length]; lia].
  unfold redis_finish. cbn [deliver].
  assert (Hcase : tl = [] \/ tl <> []) by (destruct tl; [left; reflexivity | right; discriminate]).
  destruct Hcase as [->|Hnil].
  - change (N.of_nat (S (length (@nil (bytes * bytes)))) <=? 1)%N with true. cbv beta iota. cbn [deliver].
    cbn [map rev app length Nat.add]. reflexivity.
  - assert (Hlen : length tl <> 0) by (destruct tl; [congruence|discriminate]).
    assert (Hn : (N.of_nat (S (length tl)) <=? 1)%N = false) by (apply N.leb_gt; lia).
    rewrite Hn. replace (N.of_nat (S (length tl)) - 1)%N with (N.of_nat (length tl)) by lia.
    pose proof (IH f (arg_datum a :: acc) rest Hwf' Hnil) as IH'. unfold arg_datum in *.
    etransitivity; [exact IH'|]. cbn [map rev]. rewrite <- app_assoc. reflexivity.
Qed.

(* a well-formed command: "*<n>\r\n" followed by n >= 1 bulk strings *)
Definition wf_cmd (c : bytes * list (bytes * bytes)) : Prop :=
  parse_uint64 (fst c) = Some (N.of_nat (length (snd c))) /\ snd c <> [] /\
  line_ok (42%N :: fst c) /\ Forall wf_arg (snd c).
Definition enc_cmd (c : bytes * list (bytes * bytes)) : bytes :=
  (42%N :: fst c) ++ CRLF ++ concat (map enc_arg (snd c)).
Definition cmd_event (c : bytes * list (bytes * bytes)) : event :=
  mkEv EV_REDIS [match snd c with a :: _ => snd a | [] => [] end].
Definition cmd_cost (c : bytes * list (bytes * bytes)) : nat := S (length (snd c)).

Lemma redis_command c f rest :
  wf_cmd c ->
  run_str (redis_prog (cmd_cost c + f) []) (enc_cmd c ++ rest) =
  let '(es, code, ok) := run_str (redis_prog f []) rest in (cmd_event c :: es, code, ok).
Proof.
  destruct c as [cnt args]. intros (Hp & Hne & Hl & Hwf). cbn [fst snd] in *.
  unfold enc_cmd, cmd_cost, cmd_event. cbn [fst snd]. repeat rewrite <- app_assoc.
  change (S (length args) + f) with (S (length args + f)).
  rewrite (redis_array_header _ _ _ _ Hp) by first [assumption | (destruct args; [congruence|cbn [length]; lia])].
  rewrite (redis_items args f [] rest Hwf Hne). rewrite app_nil_r, frev_rev, rev_involutive.
  destruct args as [|a args]; [congruence|]. cbn [map redis_top arg_datum].
  change (beq 36%N 43%N || beq 36%N 36%N) with true. cbv beta iota. cbn [run_str]. reflexivity.
Qed.

Fixpoint cmds_cost (cs : list (bytes * list (bytes * bytes))) : nat :=
  match cs with [] => 0 | c :: r => cmd_cost c + cmds_cost r end.

(* the theorem: any sequence of well-formed commands, arguments arbitrary (LF-free) byte
   strings, is read as exactly one event per command, in order, and nothing else *)
Lemma redis_commands cs : forall f,
  Forall wf_cmd cs ->
  str_obs (redis_prog (cmds_cost cs + S f) []) (concat (map enc_cmd cs)) = (map cmd_event cs, 0%N).
Proof.
  unfold str_obs. induction cs as [|c cs IH]; intros f Hwf.
  - reflexivity.
  - inversion Hwf as [|? ? Hc Hcs]; subst. cbn [map concat cmds_cost].
    rewrite <- Nat.add_assoc. rewrite (redis_command c _ _ Hc).
    specialize (IH f Hcs). destruct (run_str (redis_prog (cmds_cost cs + S f) []) (concat (map enc_cmd cs))) as [[es code] ok].
    injection IH as -> ->. reflexivity.
Qed.

(* ---- ldap: one persistent reader, exact counts only ---- *)
Lemma ldap_message_persistent t content k : persistent k -> persistent (ldap_message t content k).
Proof. intros Hk. unfold ldap_message. repeat (first [exact Hk | per_step]). Qed.

Lemma ldap_persistent fuel : persistent (ldap_prog fuel).
Proof.
  induction fuel as [|f IH]; cbn [ldap_prog]; [constructor|].
  constructor. intros hdr. destruct hdr as [|t [|l0 [|x r]]]; try constructor.
  repeat (first [apply ldap_message_persistent; exact IH | per_step]).
Qed.

Lemma ldap_run c : run_impl SVC_LDAP c = expected SVC_LDAP (concat c).
Proof. unfold run_impl, expected. apply persistent_obs. apply ldap_persistent. Qed.

(* ---- telnet: the terminal's key decoder with its remainder buffer ---- *)
(* bytesToKey is monotone: a key (or an undecodable byte) decided on the bytes held stays
   decided, with the same bytes consumed, when more bytes follow; what is not decided is
   kept whole.  Hence decoding a ++ x = decoding a, then (remainder ++ x) - for all byte
   strings - and by induction over the reads of a segment and over the segments the
   connection's events are those of the whole stream.  The stall after an undecodable byte
   of the code before 1a2f0db was the one thing that depended on the reads; it is never
   reached on a stream that decodes without one. *)
(* ---- has_prefix / find_final ---- *)
Lemma has_prefix_app q : forall a x, has_prefix q a = true -> has_prefix q (a ++ x) = true.
Proof.
  induction q as [|y q IH]; intros a x H; [reflexivity|].
  destruct a as [|z a]; cbn [has_prefix app] in *; [discriminate|].
  apply andb_true_iff in H as [H1 H2]. rewrite H1, (IH _ _ H2). reflexivity.
Qed.

Lemma has_prefix_length q : forall a, has_prefix q a = true -> length q <= length a.
Proof.
  induction q as [|y q IH]; intros a H; cbn [length]; [lia|].
  destruct a as [|z a]; cbn [has_prefix length] in *; [discriminate|].
  apply andb_true_iff in H as [_ H2]. apply IH in H2. lia.
Qed.

(* a known sequence recognised only after more bytes arrived: the bytes held so far are a
   proper prefix of it, and hold none of its bytes in [a-zA-Z~] (that one is its last) *)
Definition final_last (q : bytes) : Prop := forallb (fun c => negb (is_final c)) (removelast q) = true.

Lemma has_prefix_late q : forall a x,
  final_last q -> has_prefix q (a ++ x) = true -> has_prefix q a = false ->
  find_final a = None /\ length a < length q.
Proof.
  induction q as [|y q IH]; intros a x Hq H1 H2; [discriminate|].
  destruct a as [|z a]; [cbn; split; [reflexivity|lia]|].
  cbn [has_prefix app] in *. apply andb_true_iff in H1 as [Hyz H1]. rewrite Hyz in H2. cbn [andb] in H2.
  destruct q as [|y2 q]; [discriminate|].
  unfold final_last in Hq. cbn [removelast forallb] in Hq. apply andb_true_iff in Hq as [Hy Hq].
  destruct (IH a x Hq H1 H2) as [F L].
  unfold beq in Hyz. apply N.eqb_eq in Hyz. subst z.
  cbn [find_final length] in *. apply negb_true_iff in Hy. rewrite Hy, F. split; [reflexivity|lia].
Qed.

Lemma find_final_app a : forall x i, find_final a = Some i -> find_final (a ++ x) = Some i.
Proof.
  induction a as [|c a IH]; intros x i H; [discriminate|].
  cbn [find_final app] in *. destruct (is_final c); [assumption|].
  destruct (find_final a) as [j|] eqn:E; [|discriminate]. rewrite (IH x j eq_refl). assumption.
Qed.

Lemma find_final_lt a : forall i, find_final a = Some i -> i < length a.
Proof.
  induction a as [|c a IH]; intros i H; [discriminate|].
  cbn [find_final length] in *. destruct (is_final c); [inversion H; lia|].
  destruct (find_final a) as [j|]; [|discriminate]. inversion H. specialize (IH j eq_refl). lia.
Qed.

Lemma find_final_none_app a : forall x, find_final a = None -> find_final (a ++ x) = option_map (fun i => length a + i) (find_final x).
Proof.
  induction a as [|c a IH]; intros x H; cbn [app length].
  - destruct (find_final x); reflexivity.
  - cbn [find_final] in *. destruct (is_final c); [discriminate|].
    destruct (find_final a) eqn:E; [discriminate|]. rewrite (IH x eq_refl).
    destruct (find_final x); reflexivity.
Qed.

Lemma firstn_app_l {A} n (a x : list A) : n <= length a -> firstn n (a ++ x) = firstn n a.
Proof. intros H. rewrite firstn_app. replace (n - length a) with 0 by lia. cbn [firstn]. apply app_nil_r. Qed.
Lemma skipn_app_l {A} n (a x : list A) : n <= length a -> skipn n (a ++ x) = skipn n a ++ x.
Proof. intros H. rewrite skipn_app. replace (n - length a) with 0 by lia. reflexivity. Qed.

(* ---- esc_lookup ---- *)
Definition table_ok (tbl : list (bytes * tkey)) : Prop := Forall (fun e : bytes * tkey => final_last (fst e) /\ 1 <= length (fst e)) tbl.

Lemma esc_lookup_some tbl : forall b k n, esc_lookup tbl b = Some (k, n) -> table_ok tbl -> 1 <= n <= length b.
Proof.
  induction tbl as [|[q k0] t IH]; intros b k n H T; [discriminate|].
  cbn [esc_lookup] in H. inversion T as [|? ? [_ T1] T2]; subst. cbn [fst] in T1.
  destruct (has_prefix q b) eqn:E.
  - inversion H; subst. apply has_prefix_length in E. lia.
  - eapply IH; eassumption.
Qed.

Lemma esc_lookup_app tbl : forall b x r, esc_lookup tbl b = Some r -> table_ok tbl ->
  find_final b <> None -> esc_lookup tbl (b ++ x) = Some r.
Proof.
  induction tbl as [|[q k0] t IH]; intros b x r H T F; [discriminate|].
  cbn [esc_lookup] in *. inversion T as [|? ? [T0 T1] T2]; subst. cbn [fst] in *.
  destruct (has_prefix q b) eqn:E.
  - rewrite (has_prefix_app _ _ x E). assumption.
  - destruct (has_prefix q (b ++ x)) eqn:E2.
    + destruct (has_prefix_late q b x T0 E2 E) as [F2 _]. congruence.
    + apply IH; assumption.
Qed.

Lemma esc_lookup_none_app tbl : forall b x, esc_lookup tbl b = None -> table_ok tbl ->
  (find_final b <> None \/ 6 <= length b) -> Forall (fun e : bytes * tkey => length (fst e) <= 6) tbl ->
  esc_lookup tbl (b ++ x) = None.
Proof.
  induction tbl as [|[q k0] t IH]; intros b x H T F L; [reflexivity|].
  cbn [esc_lookup] in *. inversion T as [|? ? [T0 T1] T2]; subst. inversion L as [|? ? L1 L2]; subst. cbn [fst] in *.
  destruct (has_prefix q b) eqn:E; [discriminate|].
  destruct (has_prefix q (b ++ x)) eqn:E2.
  - destruct (has_prefix_late q b x T0 E2 E) as [F2 F3]. destruct F as [F|F]; [congruence|lia].
  - apply IH; assumption.
Qed.

Lemma ESC_TABLE_ok : table_ok ESC_TABLE.
Proof. unfold table_ok, ESC_TABLE. repeat constructor. Qed.
Lemma ESC_TABLE_PASTE_ok : table_ok ESC_TABLE_PASTE.
Proof. unfold table_ok, ESC_TABLE_PASTE. repeat constructor. Qed.
Lemma ESC_TABLE_len : Forall (fun e : bytes * tkey => length (fst e) <= 6) ESC_TABLE.
Proof. unfold ESC_TABLE. repeat constructor. Qed.
Lemma ESC_TABLE_PASTE_len : Forall (fun e : bytes * tkey => length (fst e) <= 6) ESC_TABLE_PASTE.
Proof. unfold ESC_TABLE_PASTE. repeat constructor. Qed.
Lemma tbl_ok (paste : bool) : table_ok (if paste then ESC_TABLE_PASTE else ESC_TABLE).
Proof. destruct paste; [apply ESC_TABLE_PASTE_ok|apply ESC_TABLE_ok]. Qed.
Lemma tbl_len (paste : bool) : Forall (fun e : bytes * tkey => length (fst e) <= 6) (if paste then ESC_TABLE_PASTE else ESC_TABLE).
Proof. destruct paste; [apply ESC_TABLE_PASTE_len|apply ESC_TABLE_len]. Qed.

(* ---- utf8 ---- *)
Ltac u8_cases :=
  repeat match goal with
  | |- context [if ?c then _ else _] => destruct c eqn:?
  | H : context [if ?c then _ else _] |- _ => destruct c eqn:?
  | H : context [match u8_lead ?b with _ => _ end] |- _ => destruct (u8_lead b) as [[[? ?] ?]|] eqn:?
  | |- context [match u8_lead ?b with _ => _ end] => destruct (u8_lead b) as [[[? ?] ?]|] eqn:?
  end.

Lemma u8_head_rune b n : u8_head b = U8Rune n -> 1 <= n <= length b.
Proof.
  destruct b as [|b0 [|b1 [|b2 [|b3 t]]]]; cbn [u8_head length]; intros H; u8_cases;
    try discriminate; inversion H; subst; lia.
Qed.

Lemma u8_head_app_rune b x n : u8_head b = U8Rune n -> u8_head (b ++ x) = U8Rune n.
Proof.
  destruct b as [|b0 [|b1 [|b2 [|b3 t]]]]; cbn [u8_head app]; intros H; u8_cases;
    try discriminate; try assumption; try congruence.
Qed.

Lemma u8_head_app_bad b x : u8_head b = U8Bad -> u8_head (b ++ x) = U8Bad.
Proof.
  destruct b as [|b0 [|b1 [|b2 [|b3 t]]]]; cbn [u8_head app]; intros H; u8_cases;
    try discriminate; try assumption; try congruence.
Qed.

Lemma u8_head_more b : u8_head b = U8More -> length b < 4.
Proof.
  destruct b as [|b0 [|b1 [|b2 [|b3 t]]]]; cbn [u8_head length]; intros H; u8_cases;
    try discriminate; lia.
Qed.

(* ---- next_key: what is decided stays decided when more bytes arrive ---- *)
Definition consumed (b r : bytes) : Prop := exists n, 1 <= n <= length b /\ r = skipn n b.

Lemma consumed_tail b0 r : consumed (b0 :: r) r.
Proof. exists 1. cbn [length skipn]. split; [lia|reflexivity]. Qed.

Lemma consumed_app b r x : consumed b r -> skipn (length b - length r) (b ++ x) = r ++ x /\ length r < length b.
Proof.
  intros [n [Hn ->]]. rewrite skipn_length. replace (length b - (length b - n)) with n by lia.
  rewrite skipn_app_l by lia. split; [reflexivity|lia].
Qed.

Lemma esc_key_spec paste b :
  match esc_key paste b with
  | NMore => length b < TN_INBUF
  | NBad r | NSkip r | NKey _ r => consumed b r
  end.
Proof.
  unfold esc_key. destruct (esc_lookup _ b) as [[k n]|] eqn:E.
  - exists n. split; [|reflexivity]. eapply esc_lookup_some; [eassumption|apply tbl_ok].
  - destruct (find_final (firstn TN_INBUF b)) as [i|] eqn:F.
    + exists (S i). split; [|reflexivity]. apply find_final_lt in F. rewrite firstn_length in F. lia.
    + destruct (TN_INBUF <=? length b) eqn:L.
      * apply Nat.leb_le in L. exists TN_INBUF. unfold TN_INBUF in *. split; [lia|reflexivity].
      * apply Nat.leb_gt in L. assumption.
Qed.

Lemma next_key_spec paste b :
  match next_key paste b with
  | NMore => length b < TN_INBUF
  | NBad r | NSkip r | NKey _ r => consumed b r
  end.
Proof.
  destruct b as [|b0 r]; [cbn; unfold TN_INBUF; lia|].
  unfold next_key.
  repeat match goal with |- context [if ?c then _ else _] =>
    match c with
    | beq b0 ESC => fail 1
    | _ => destruct c; [apply consumed_tail|]
    end end.
  destruct (beq b0 ESC); [apply esc_key_spec|].
  destruct (u8_head (b0 :: r)) as [| |n] eqn:U.
  - apply u8_head_more in U. unfold TN_INBUF. lia.
  - apply consumed_tail.
  - apply u8_head_rune in U. cbv zeta. destruct (beqs _ U_FFFD); exists n; (split; [assumption|reflexivity]).
Qed.

Lemma esc_key_app paste b x :
  match esc_key paste b with
  | NMore => True
  | NBad r => esc_key paste (b ++ x) = NBad (r ++ x)
  | NSkip r => esc_key paste (b ++ x) = NSkip (r ++ x)
  | NKey k r => esc_key paste (b ++ x) = NKey k (r ++ x)
  end.
Proof.
  unfold esc_key. destruct (esc_lookup _ b) as [[k n]|] eqn:E.
  - pose proof (esc_lookup_some _ _ _ _ E (tbl_ok paste)) as Hn.
    assert (F : find_final b <> None).
    { (* a recognised sequence ends in a byte of [a-zA-Z~] *)
      clear Hn. destruct paste; unfold ESC_TABLE, ESC_TABLE_PASTE, PASTE_START, PASTE_END in E; cbn [esc_lookup] in E;
      repeat match type of E with
      | (if has_prefix ?q b then _ else _) = _ =>
          let P := fresh "P" in destruct (has_prefix q b) eqn:P;
          [ clear E; repeat (destruct b as [|? b]; [discriminate P|]; cbn [has_prefix] in P;
              apply andb_true_iff in P as [?Q P]; unfold beq in Q; apply N.eqb_eq in Q; subst);
            cbn; discriminate | ]
      end; discriminate. }
    rewrite (esc_lookup_app _ _ x _ E (tbl_ok paste) F). rewrite skipn_app_l by lia. reflexivity.
  - destruct (find_final (firstn TN_INBUF b)) as [i|] eqn:F.
    + assert (Fb : find_final b <> None).
      { rewrite <- (firstn_skipn TN_INBUF b). rewrite (find_final_app _ _ _ F). discriminate. }
      rewrite (esc_lookup_none_app _ _ x E (tbl_ok paste) (or_introl Fb) (tbl_len paste)).
      rewrite firstn_app. rewrite (find_final_app _ _ _ F).
      pose proof (find_final_lt _ _ F) as L. rewrite firstn_length in L.
      rewrite skipn_app_l by lia. reflexivity.
    + destruct (TN_INBUF <=? length b) eqn:L; [|exact I].
      apply Nat.leb_le in L.
      rewrite (esc_lookup_none_app _ _ x E (tbl_ok paste)); [| right; unfold TN_INBUF in L; lia | apply tbl_len].
      rewrite firstn_app_l by lia. rewrite F.
      rewrite app_length. replace (TN_INBUF <=? length b + length x) with true by (symmetry; apply Nat.leb_le; lia).
      rewrite skipn_app_l by lia. reflexivity.
Qed.

Lemma next_key_app paste b x :
  match next_key paste b with
  | NMore => True
  | NBad r => next_key paste (b ++ x) = NBad (r ++ x)
  | NSkip r => next_key paste (b ++ x) = NSkip (r ++ x)
  | NKey k r => next_key paste (b ++ x) = NKey k (r ++ x)
  end.
Proof.
  destruct b as [|b0 r]; [exact I|].
  pose proof (esc_key_app paste (b0 :: r) x) as HE.
  unfold next_key in *. cbn [app] in *.
  repeat match goal with |- context [if ?c then _ else _] =>
    match c with
    | beq b0 ESC => fail 1
    | _ => destruct c; [reflexivity|]
    end end.
  destruct (beq b0 ESC); [exact HE|]. clear HE.
  destruct (u8_head (b0 :: r)) as [| |n] eqn:U.
  - exact I.
  - change (b0 :: r ++ x) with ((b0 :: r) ++ x). rewrite (u8_head_app_bad _ x U). reflexivity.
  - change (b0 :: r ++ x) with ((b0 :: r) ++ x). rewrite (u8_head_app_rune _ x _ U).
    apply u8_head_rune in U. cbv zeta. rewrite firstn_app_l by lia. rewrite skipn_app_l by lia.
    destruct (beqs _ U_FFFD); reflexivity.
Qed.

(* ---- the key loop ---- *)
Lemma consumed_lt b r : consumed b r -> length r < length b.
Proof. intros [n [Hn ->]]. rewrite skipn_length. lia. Qed.

Lemma tn_keys_fuel s : forall f1 f2 st b, length b < f1 -> length b < f2 -> tn_keys s f1 st b = tn_keys s f2 st b.
Proof.
  induction f1 as [|f1 IH]; intros f2 st b H1 H2; [lia|]. destruct f2 as [|f2]; [lia|].
  cbn [tn_keys]. destruct (is_end st); [reflexivity|].
  pose proof (next_key_spec (t_paste st) b) as HS. destruct (next_key (t_paste st) b) as [|r|r|k r]; [reflexivity| | |].
  - apply consumed_lt in HS. destruct s; [reflexivity|]. apply IH; lia.
  - apply consumed_lt in HS. apply IH; lia.
  - apply consumed_lt in HS. destruct (tn_key st k) as [st1 e1]. rewrite (IH f2 st1 r) by lia. reflexivity.
Qed.

Lemma tn_dec_step s st b :
  tn_dec s st b =
  if is_end st then (st, [], b)
  else match next_key (t_paste st) b with
       | NMore => (st, [], b)
       | NBad r => if s then (tn_mark_bad st, [], r) else tn_dec s (tn_mark_bad st) r
       | NSkip r => tn_dec s st r
       | NKey k r => let '(st1, e1) := tn_key st k in
                     let '(st2, e2, r2) := tn_dec s st1 r in (st2, e1 ++ e2, r2)
       end.
Proof.
  unfold tn_dec at 1. cbn [tn_keys]. destruct (is_end st); [reflexivity|].
  pose proof (next_key_spec (t_paste st) b) as HS. destruct (next_key (t_paste st) b) as [|r|r|k r]; [reflexivity| | |].
  - apply consumed_lt in HS. destruct s; [reflexivity|]. unfold tn_dec. apply tn_keys_fuel; lia.
  - apply consumed_lt in HS. unfold tn_dec. apply tn_keys_fuel; lia.
  - apply consumed_lt in HS. destruct (tn_key st k) as [st1 e1]. unfold tn_dec.
    rewrite (tn_keys_fuel s (length b) (S (length r)) st1 r) by lia. reflexivity.
Qed.

(* the decoder with the remainder: decoding a ++ x = decoding a, keeping what is not decodable
   yet (r1), then decoding r1 ++ x.  For ALL byte strings a, x. *)
Lemma tn_dec_app : forall n a, length a < n -> forall st x,
  tn_dec false st (a ++ x) =
  let '(st1, e1, r1) := tn_dec false st a in
  let '(st2, e2, r2) := tn_dec false st1 (r1 ++ x) in (st2, e1 ++ e2, r2).
Proof.
  induction n as [|n IH]; intros a Hn st x; [lia|].
  rewrite (tn_dec_step false st a).
  destruct (is_end st) eqn:En.
  - cbv zeta. destruct (tn_dec false st (a ++ x)) as [[st2 e2] r2]. reflexivity.
  - pose proof (next_key_spec (t_paste st) a) as HS. pose proof (next_key_app (t_paste st) a x) as A.
    destruct (next_key (t_paste st) a) as [|r|r|k r] eqn:K.
    + cbv zeta. destruct (tn_dec false st (a ++ x)) as [[st2 e2] r2]. reflexivity.
    + apply consumed_lt in HS. rewrite (tn_dec_step false st (a ++ x)), En, A. apply IH. lia.
    + apply consumed_lt in HS. rewrite (tn_dec_step false st (a ++ x)), En, A. apply IH. lia.
    + apply consumed_lt in HS. rewrite (tn_dec_step false st (a ++ x)), En, A.
      destruct (tn_key st k) as [st1 e1]. rewrite (IH r) by lia.
      destruct (tn_dec false st1 r) as [[st2 e2] r2].
      destruct (tn_dec false st2 (r2 ++ x)) as [[st3 e3] r3]. rewrite app_assoc. reflexivity.
Qed.

(* what the loop leaves in the remainder is not decodable yet (or the session has ended) *)
Definition tn_waiting (st : tn_st) (r : bytes) : Prop := is_end st = true \/ next_key (t_paste st) r = NMore.

Lemma tn_dec_waiting : forall n b, length b < n -> forall st,
  let '(st1, _, r1) := tn_dec false st b in tn_waiting st1 r1.
Proof.
  induction n as [|n IH]; intros b Hn st; [lia|].
  rewrite tn_dec_step. destruct (is_end st) eqn:En; [left; assumption|].
  pose proof (next_key_spec (t_paste st) b) as HS.
  destruct (next_key (t_paste st) b) as [|r|r|k r] eqn:K.
  - right. assumption.
  - apply consumed_lt in HS. apply (IH r); lia.
  - apply consumed_lt in HS. apply (IH r); lia.
  - apply consumed_lt in HS. destruct (tn_key st k) as [st1 e1].
    specialize (IH r ltac:(lia) st1). destruct (tn_dec false st1 r) as [[st2 e2] r2]. assumption.
Qed.

Lemma tn_waiting_dec st r : tn_waiting st r -> tn_dec false st r = (st, [], r).
Proof. intros [H|H]; rewrite tn_dec_step; [rewrite H; reflexivity|]. destruct (is_end st); [reflexivity|]. rewrite H. reflexivity. Qed.

Lemma tn_waiting_short st r : tn_waiting st r -> is_end st = false -> length r < TN_INBUF.
Proof. intros [H|H] E; [congruence|]. pose proof (next_key_spec (t_paste st) r) as HS. rewrite H in HS. assumption. Qed.

(* ---- the bookkeeping flag is sticky ---- *)
Lemma tn_handle_bad st k : t_bad (fst (tn_handle st k)) = t_bad st.
Proof.
  unfold tn_handle, tn_complete, tn_erase.
  repeat match goal with
  | |- context [if ?c then _ else _] => destruct c
  | |- context [match ?k with KRune _ => _ | _ => _ end] => destruct k
  | |- context [match t_stage ?s with _ => _ end] => destruct (t_stage s)
  end; reflexivity.
Qed.

Lemma tn_key_bad st k : t_bad (fst (tn_key st k)) = t_bad st.
Proof.
  unfold tn_key. destruct (is_end st); [reflexivity|].
  destruct (negb (t_paste st)).
  - destruct (rune_is k 4 && _); [reflexivity|]. destruct k; try (rewrite tn_handle_bad; reflexivity). reflexivity.
  - destruct k; try (rewrite tn_handle_bad; reflexivity). reflexivity.
Qed.

Lemma tn_dec_bad_mono s : forall n b, length b < n -> forall st,
  t_bad st = true -> t_bad (fst (fst (tn_dec s st b))) = true.
Proof.
  induction n as [|n IH]; intros b Hn st B; [lia|].
  rewrite tn_dec_step. destruct (is_end st); [assumption|].
  pose proof (next_key_spec (t_paste st) b) as HS.
  destruct (next_key (t_paste st) b) as [|r|r|k r] eqn:K.
  - assumption.
  - apply consumed_lt in HS. destruct s; [reflexivity|]. apply IH; [lia|reflexivity].
  - apply consumed_lt in HS. apply IH; [lia|assumption].
  - apply consumed_lt in HS. pose proof (tn_key_bad st k) as KB. destruct (tn_key st k) as [st1 e1]. cbn [fst] in KB.
    specialize (IH r ltac:(lia) st1 ltac:(congruence)).
    destruct (tn_dec s st1 r) as [[st2 e2] r2]. assumption.
Qed.

(* when no undecodable byte is met, the loop never stalls: the code's loop is the reference's *)
Lemma tn_dec_stall : forall n b, length b < n -> forall st,
  t_bad (fst (fst (tn_dec false st b))) = false -> tn_dec true st b = tn_dec false st b.
Proof.
  induction n as [|n IH]; intros b Hn st B; [lia|].
  rewrite (tn_dec_step false) in B. rewrite !tn_dec_step.
  destruct (is_end st); [reflexivity|].
  pose proof (next_key_spec (t_paste st) b) as HS.
  destruct (next_key (t_paste st) b) as [|r|r|k r] eqn:K.
  - reflexivity.
  - rewrite (tn_dec_bad_mono false (S (length r)) r) in B by (lia || reflexivity). discriminate.
  - apply consumed_lt in HS. apply IH; [lia|assumption].
  - apply consumed_lt in HS. destruct (tn_key st k) as [st1 e1].
    rewrite (IH r) by (lia || (destruct (tn_dec false st1 r) as [[? ?] ?]; exact B)). reflexivity.
Qed.

(* ---- segments: Read after Read, with the remainder carried over ---- *)
Definition tn_ok (s : bool) (st : tn_st) (b : bytes) : Prop :=
  s = false \/ t_bad (fst (fst (tn_dec false st b))) = false.

Lemma tn_dec_any s st b : tn_ok s st b -> tn_dec s st b = tn_dec false st b.
Proof. intros [->|H]; [reflexivity|]. destruct s; [|reflexivity]. apply (tn_dec_stall (S (length b))); [lia|assumption]. Qed.

Lemma tn_ok_split s st a x : tn_ok s st (a ++ x) ->
  tn_ok s st a /\ (let '(st1, _, r1) := tn_dec false st a in tn_ok s st1 (r1 ++ x)).
Proof.
  intros [->|H]; [split; [left; reflexivity|]; destruct (tn_dec false st a) as [[? ?] ?]; left; reflexivity|].
  rewrite (tn_dec_app (S (length a))) in H by lia. unfold tn_ok.
  destruct (tn_dec false st a) as [[st1 e1] r1] eqn:E1.
  destruct (tn_dec false st1 (r1 ++ x)) as [[st2 e2] r2] eqn:E2. cbn [fst] in H.
  split; right; [|exact H]. cbn [fst].
  destruct (t_bad st1) eqn:B; [|reflexivity].
  pose proof (tn_dec_bad_mono false (S (length (r1 ++ x))) (r1 ++ x) ltac:(lia) st1 B) as M.
  rewrite E2 in M. cbn [fst] in M. congruence.
Qed.

Lemma tn_segment_dec s : forall f sg st rem,
  length sg < f -> tn_waiting st rem -> tn_ok s st (rem ++ sg) ->
  tn_segment s f st rem sg = tn_dec false st (rem ++ sg).
Proof.
  induction f as [|f IH]; intros sg st rem Hf W OK; [lia|].
  cbn [tn_segment]. destruct sg as [|c sg'].
  - rewrite app_nil_r. symmetry. apply tn_waiting_dec. assumption.
  - set (sg := c :: sg') in *. destruct (is_end st) eqn:En.
    + rewrite tn_dec_step, En. reflexivity.
    + pose proof (tn_waiting_short st rem W En) as L.
      set (n := TN_INBUF - length rem).
      assert (Hsplit : rem ++ sg = (rem ++ firstn n sg) ++ skipn n sg) by (rewrite <- app_assoc, firstn_skipn; reflexivity).
      rewrite Hsplit in OK. apply tn_ok_split in OK as [OK1 OK2].
      rewrite (tn_dec_any s st _ OK1). rewrite Hsplit. rewrite (tn_dec_app (S (length (rem ++ firstn n sg))) (rem ++ firstn n sg) (Nat.lt_succ_diag_r _)).
      pose proof (tn_dec_waiting (S (length (rem ++ firstn n sg))) (rem ++ firstn n sg) ltac:(lia) st) as W1.
      destruct (tn_dec false st (rem ++ firstn n sg)) as [[st1 e1] rem1].
      rewrite (IH (skipn n sg) st1 rem1); [reflexivity| |assumption|assumption].
      rewrite skipn_length. subst sg n. cbn [length] in *. lia.
Qed.

Lemma tn_conn_dec s : forall c st rem,
  tn_waiting st rem -> tn_ok s st (rem ++ concat c) ->
  tn_conn s st rem c = tn_dec false st (rem ++ concat c).
Proof.
  induction c as [|sg c IH]; intros st rem W OK; cbn [tn_conn concat] in *.
  - rewrite app_nil_r. symmetry. apply tn_waiting_dec. assumption.
  - rewrite app_assoc in OK |- *. apply tn_ok_split in OK as [OK1 OK2].
    rewrite (tn_segment_dec s (S (length sg)) sg st rem) by (lia || assumption).
    rewrite (tn_dec_app (S (length (rem ++ sg))) (rem ++ sg) (Nat.lt_succ_diag_r _) st (concat c)).
    pose proof (tn_dec_waiting (S (length (rem ++ sg))) (rem ++ sg) ltac:(lia) st) as W1.
    destruct (tn_dec false st (rem ++ sg)) as [[st1 e1] rem1].
    rewrite (IH st1 rem1 W1 OK2). reflexivity.
Qed.

Lemma tn_start_waiting : tn_waiting TN_START [].
Proof. right. reflexivity. Qed.

(* ---- the statements ---- *)
Lemma telnet_decoder_segments c st rem :
  tn_waiting st rem -> tn_conn false st rem c = tn_dec false st (rem ++ concat c).
Proof. intros W. apply tn_conn_dec; [assumption|left; reflexivity]. Qed.

Lemma telnet_run c : run_model SVC_TELNET c = reference SVC_TELNET (concat c).
Proof.
  change (run_model SVC_TELNET c) with (tn_run c).
  change (reference SVC_TELNET (concat c)) with (tn_expected (concat c)).
  unfold tn_run, tn_expected. rewrite (telnet_decoder_segments c TN_START [] tn_start_waiting). reflexivity.
Qed.

Lemma telnet_segmentation_invariant c1 c2 : concat c1 = concat c2 -> tn_run c1 = tn_run c2.
Proof.
  intros E. pose proof (telnet_run c1) as H1. pose proof (telnet_run c2) as H2.
  change (run_model SVC_TELNET c1) with (tn_run c1) in H1. change (run_model SVC_TELNET c2) with (tn_run c2) in H2.
  rewrite H1, H2, E. reflexivity.
Qed.

(* the code before 1a2f0db: the reference reading on streams without an undecodable byte only *)
Lemma telnet_run_before_1a2f0db c :
  tn_decodable (concat c) = true -> tn_run_before_1a2f0db c = reference SVC_TELNET (concat c).
Proof.
  intros D. change (reference SVC_TELNET (concat c)) with (tn_expected (concat c)).
  unfold tn_run_before_1a2f0db, tn_expected. rewrite (tn_conn_dec true c TN_START [] tn_start_waiting); [reflexivity|].
  right. unfold tn_decodable in D. apply negb_true_iff in D. exact D.
Qed.

(* a valid multi-byte character cut anywhere inside: the bytes held are kept, all of them *)
Lemma u8_prefix_kept c n :
  u8_head c = U8Rune (length c) -> 0 < n < length c -> u8_head (firstn n c) = U8More.
Proof.
  destruct c as [|b0 [|b1 [|b2 [|b3 [|b4 t]]]]]; cbn [length]; intros H Hn; try lia.
  - destruct n as [|[|n]]; try lia. cbn [firstn u8_head] in *. u8_cases; try discriminate; try reflexivity; inversion H.
  - destruct n as [|[|[|n]]]; try lia; cbn [firstn u8_head] in *; u8_cases; try discriminate; try reflexivity; inversion H.
  - destruct n as [|[|[|[|n]]]]; try lia; cbn [firstn u8_head] in *; u8_cases; try discriminate; try reflexivity; inversion H.
  - exfalso.
    assert (X : forall m, u8_head (b0 :: b1 :: b2 :: b3 :: b4 :: t) = U8Rune m -> m <= 4).
    { intros m Hm. cbn [u8_head] in Hm. u8_cases; try discriminate; inversion Hm; lia. }
    apply X in H. lia.
Qed.

Lemma multibyte_lead c : u8_head c = U8Rune (length c) -> 1 < length c ->
  exists b0 t, c = b0 :: t /\ (128 <=? b0)%N = true.
Proof.
  destruct c as [|b0 t]; cbn [length]; intros H L; [lia|]. exists b0, t. split; [reflexivity|].
  cbn [u8_head] in H. destruct (b0 <? 128)%N eqn:E; [inversion H; lia|]. lia.
Qed.

Lemma next_key_high paste b0 t : (128 <=? b0)%N = true ->
  next_key paste (b0 :: t) =
  match u8_head (b0 :: t) with
  | U8More => NMore
  | U8Bad => NBad t
  | U8Rune n => let c := firstn n (b0 :: t) in if beqs c U_FFFD then NBad (skipn n (b0 :: t)) else NKey (KRune c) (skipn n (b0 :: t))
  end.
Proof.
  intros H. unfold next_key, beq, ESC.
  repeat match goal with |- context [(b0 =? ?k)%N] => destruct (N.eqb_spec b0 k); [lia|] end.
  rewrite !andb_false_r. reflexivity.
Qed.

Lemma next_key_prefix_kept paste c n :
  u8_head c = U8Rune (length c) -> 0 < n < length c -> next_key paste (firstn n c) = NMore.
Proof.
  intros H Hn. destruct (multibyte_lead c H ltac:(lia)) as [b0 [t [-> Hb]]].
  pose proof (u8_prefix_kept _ n H Hn) as K. destruct n as [|n]; [lia|]. cbn [firstn] in *.
  rewrite (next_key_high paste b0 _ Hb), K. reflexivity.
Qed.

(* text: a valid character other than U+FFFD, not a control character, not DEL *)
Definition tn_char (c : bytes) : bool :=
  match u8_head c with U8Rune n => n =? length c | _ => false end
  && negb (beqs c U_FFFD)
  && match c with [x] => (32 <=? x)%N && negb (beq x 127) | _ => true end.

Lemma next_key_char c x : tn_char c = true -> next_key false (c ++ x) = NKey (KRune c) x.
Proof.
  unfold tn_char. intros H. apply andb_true_iff in H as [H H3]. apply andb_true_iff in H as [H1 H2].
  destruct (u8_head c) as [| |n] eqn:U; try discriminate. apply Nat.eqb_eq in H1. subst n.
  apply negb_true_iff in H2.
  pose proof (u8_head_app_rune c x _ U) as UA.
  destruct c as [|b0 t]; [discriminate|].
  destruct (128 <=? b0)%N eqn:Hb.
  - cbn [app]. rewrite (next_key_high false b0 _ Hb). change (b0 :: t ++ x) with ((b0 :: t) ++ x). rewrite UA.
    cbv zeta. rewrite firstn_app_l, firstn_all, skipn_app_l, skipn_all by lia. rewrite H2. reflexivity.
  - assert (t = []) as ->.
    { cbn [u8_head] in U. replace (b0 <? 128)%N with true in U by lia. inversion U as [L]. destruct t; [reflexivity|discriminate]. }
    apply andb_true_iff in H3 as [H3 H4]. apply negb_true_iff in H4.
    cbn [app]. unfold next_key, beq, ESC in *.
    repeat match goal with |- context [(b0 =? ?k)%N] => destruct (N.eqb_spec b0 k); [lia|] end.
    rewrite !andb_false_r. cbn [u8_head]. replace (b0 <? 128)%N with true by lia.
    cbv zeta. cbn [firstn skipn]. unfold U_FFFD. cbn [beqs]. unfold beq.
    destruct (b0 =? 239)%N eqn:E; [lia|]. reflexivity.
Qed.

Lemma rune_is_char c k : tn_char c = true -> (k < 32)%N \/ k = 127%N -> rune_is (KRune c) k = false.
Proof.
  unfold tn_char, rune_is. intros H Hk. apply andb_true_iff in H as [_ H3].
  destruct c as [|x [|y t]]; try reflexivity.
  apply andb_true_iff in H3 as [H3 H4]. apply negb_true_iff in H4. unfold beq in *. lia.
Qed.

Lemma tn_key_char stage line pasted bad c :
  stage <> TEnd -> tn_char c = true -> length line < TN_MAXLINE ->
  tn_key (mkTn stage line (length line) false pasted bad) (KRune c) =
  (mkTn stage (line ++ [c]) (length (line ++ [c])) false false bad, []).
Proof.
  intros Hs Hc Hl. unfold tn_key.
  replace (is_end _) with false by (destruct stage; try reflexivity; congruence).
  cbn [t_paste negb t_line t_stage t_pos t_bad t_pasted].
  rewrite (rune_is_char c 4 Hc) by (left; lia). cbn [andb].
  unfold tn_handle. cbn [t_paste negb t_line t_stage t_pos t_bad t_pasted andb].
  rewrite (rune_is_char c 10 Hc), (rune_is_char c 13 Hc), (rune_is_char c 127 Hc), (rune_is_char c 4 Hc), (rune_is_char c 21 Hc) by (try (left; lia); right; reflexivity).
  assert (P : printable c = true).
  { unfold tn_char in Hc. apply andb_true_iff in Hc as [_ H3]. unfold printable. destruct c as [|x [|y t]]; try reflexivity.
    apply andb_true_iff in H3 as [H3 _]. exact H3. }
  rewrite P. replace (length line =? TN_MAXLINE) with false by (symmetry; apply Nat.eqb_neq; lia).
  rewrite firstn_all, skipn_all. rewrite app_length. cbn [length]. rewrite Nat.add_1_r. reflexivity.
Qed.

Lemma tn_key_cr stage line pasted bad :
  stage <> TEnd ->
  tn_key (mkTn stage line (length line) false pasted bad) (KRune [CR]) = (mkTn stage line (length line) false false bad, []).
Proof. intros Hs. destruct stage; try congruence; reflexivity. Qed.

Lemma tn_key_lf line pasted bad :
  tn_key (mkTn TSess line (length line) false pasted bad) (KRune [LF]) =
  (mkTn TSess [] 0 false false bad, [mkEv EV_TN_CMD [concat line]]).
Proof. destruct line; reflexivity. Qed.

Definition tn_char_or_cr (c : bytes) : bool := tn_char c || beqs c [CR].

Lemma beqs_eq a : forall b, beqs a b = true -> a = b.
Proof.
  induction a as [|x a IH]; intros [|y b] H; try discriminate; [reflexivity|].
  cbn [beqs] in H. apply andb_true_iff in H as [H1 H2]. unfold beq in H1. apply N.eqb_eq in H1. rewrite (IH _ H2), H1. reflexivity.
Qed.

(* a command line of characters with CRs anywhere, ended by LF, typed in the session stage:
   exactly one event carrying exactly the characters' bytes *)
Lemma tn_session_line cs : forall line pasted bad,
  forallb tn_char_or_cr cs = true -> length line + length (filter tn_char cs) <= TN_MAXLINE ->
  tn_dec false (mkTn TSess line (length line) false pasted bad) (concat cs ++ [LF]) =
  (mkTn TSess [] 0 false false bad, [mkEv EV_TN_CMD [concat (line ++ filter tn_char cs)]], []).
Proof.
  induction cs as [|c cs IH]; intros line pasted bad Hc Hl; cbn [concat filter forallb] in *.
  - rewrite app_nil_r. cbn [app]. rewrite tn_dec_step.
    change (is_end _) with false. cbv iota.
    change (next_key _ [LF]) with (NKey (KRune [LF]) []). cbv iota. rewrite tn_key_lf.
    rewrite tn_dec_step. reflexivity.
  - apply andb_true_iff in Hc as [Hc Hcs]. unfold tn_char_or_cr in Hc. rewrite <- app_assoc.
    rewrite tn_dec_step. change (is_end _) with false. cbv iota. cbn [t_paste].
    destruct (tn_char c) eqn:Tc.
    + cbn [length] in Hl. rewrite (next_key_char c _ Tc). rewrite tn_key_char by (congruence || assumption || lia).
      rewrite IH by (assumption || (rewrite app_length; cbn [length]; lia)).
      rewrite <- app_assoc. reflexivity.
    + cbn [orb] in Hc. apply beqs_eq in Hc. subst c.
      change (next_key false ([CR] ++ concat cs ++ [LF])) with (NKey (KRune [CR]) (concat cs ++ [LF])). cbv iota.
      rewrite tn_key_cr by congruence. rewrite IH by assumption. reflexivity.
Qed.

(* ---- snmp ---- *)
Lemma snmp_event_persistent b : persistent (snmp_event b).
Proof. unfold snmp_event. repeat per_step. Qed.

Lemma snmp_datagram d : run_impl SVC_SNMP [d] = expected SVC_SNMP d.
Proof.
  unfold run_impl, expected. change (impl_prog SVC_SNMP (fuel_for (concat [d]))) with (snmp_prog false).
  change (spec_prog SVC_SNMP (fuel_for d)) with (snmp_prog true). unfold snmp_prog.
  apply first_read_of_datagram. exact snmp_event_persistent.
Qed.

(* ---- datagram sequences and the reply limiter ---- *)
(* services that ask the limiter only after they have reported (counterstrike, snmp) or not at
   all (dns): the events of ANY sequence of datagrams from one source are those of the
   datagrams, whatever the token count *)
Lemma udp_seq_independent_st svc :
  svc <> SVC_TFTP -> svc <> SVC_MEMCACHED_UDP ->
  (forall d, run_impl svc [d] = expected svc d) ->
  forall ds t st, udp_seq_st svc t st ds = udp_seq_expected_st svc st ds.
Proof.
  intros H1 H2 Hd.
  assert (B1 : beq svc SVC_TFTP = false) by (unfold beq; apply N.eqb_neq; exact H1).
  assert (B2 : beq svc SVC_MEMCACHED_UDP = false) by (unfold beq; apply N.eqb_neq; exact H2).
  induction ds as [|d r IH]; intros t st; cbn [udp_seq_st udp_seq_expected_st]; [reflexivity|].
  unfold udp_one. rewrite !B1, B2.
  rewrite Hd. destruct (expected svc d) as [es c]. rewrite IH.
  destruct (udp_seq_expected_st svc st r) as [es2 c2]. reflexivity.
Qed.

Lemma udp_seq_independent svc :
  svc <> SVC_TFTP -> svc <> SVC_MEMCACHED_UDP ->
  (forall d, run_impl svc [d] = expected svc d) ->
  forall ds t, udp_seq svc t ds = udp_seq_expected svc ds.
Proof. intros H1 H2 Hd ds t. apply udp_seq_independent_st; assumption. Qed.

(* tftp asks the limiter before it decodes: within the budget every datagram is reported, and
   every finished upload with the filename, mode and content of ITS transfer *)
Lemma tftp_within_budget_st ds : forall t st,
  length ds <= t -> udp_seq_st SVC_TFTP t st ds = udp_seq_expected_st SVC_TFTP st ds.
Proof.
  induction ds as [|d r IH]; intros t st Hl; cbn [udp_seq_st udp_seq_expected_st]; [reflexivity|].
  cbn [length] in Hl. destruct t as [|t']; [lia|].
  change (udp_one SVC_TFTP (S t') st d) with
    (let '(es, c) := seg_obs (tftp_prog false) [d] in
     let '(st', fe) := tftp_transfer st d in (es ++ fe, c, t', st')).
  change (beq SVC_TFTP SVC_TFTP) with true. cbv beta iota.
  pose proof (tftp_datagram d) as Hd. unfold run_impl in Hd.
  change (impl_prog SVC_TFTP (fuel_for (concat [d]))) with (tftp_prog false) in Hd. rewrite Hd.
  destruct (expected SVC_TFTP d) as [es c]. destruct (tftp_transfer st d) as [st' fe].
  rewrite IH by lia. destruct (udp_seq_expected_st SVC_TFTP st' r) as [es2 c2].
  rewrite <- app_assoc. reflexivity.
Qed.

Lemma tftp_within_budget ds : forall t, length ds <= t -> udp_seq SVC_TFTP t ds = udp_seq_expected SVC_TFTP ds.
Proof. intros t H. apply tftp_within_budget_st. exact H. Qed.

(* an upload is reported with the name and mode of ITS write request: a second WRQ replaces
   the open upload, whatever was received before *)
Lemma tftp_wrq_replaces st fname mode rest r2 tail :
  split_delim 0%N rest = Some (fname, r2) -> split_delim 0%N r2 = Some (mode, tail) ->
  forall a, tftp_transfer st (a :: 2%N :: rest) = (Some (fname, mode, []), []).
Proof. intros H1 H2 a. unfold tftp_transfer. change (beq 2%N 2%N) with true. cbv beta iota. rewrite H1, H2. reflexivity. Qed.

(* the last (short) DATA block reports exactly what the open upload holds plus this block *)
Lemma tftp_last_block fname mode content a blk data :
  length data < 512 -> length blk = 2 ->
  tftp_transfer (Some (fname, mode, content)) (a :: 3%N :: blk ++ data) =
  (None, [mkEv EV_TFTP_FILE [fname; mode; content ++ data]]).
Proof.
  intros Hd Hb. unfold tftp_transfer. change (beq 3%N 2%N) with false. change (beq 3%N 3%N) with true.
  cbv beta iota. destruct blk as [|b1 [|b2 [|x r]]]; cbn [length] in Hb; try lia.
  cbn [app skipn]. rewrite firstn_all2 by lia.
  assert (E : (length data =? 512) = false) by (apply Nat.eqb_neq; lia). rewrite E. reflexivity.
Qed.

(* ... and beyond it nothing is: five read requests from one source, four events *)
Definition W_RRQ (k : N) : bytes := [0; 1; 102; 48 + k; 0; 111; 99; 116; 101; 116; 0]%N.
Lemma tftp_limiter_refuted :
  let ds := [W_RRQ 1; W_RRQ 2; W_RRQ 3; W_RRQ 4; W_RRQ 5] in
  length (fst (udp_seq SVC_TFTP LIMITER_BURST ds)) = 4 /\ length (fst (udp_seq_expected SVC_TFTP ds)) = 5.
Proof. vm_compute. split; reflexivity. Qed.

(* memcached asks after every command event and stops at a refusal: the further commands of a
   datagram over the budget are not reported *)
Definition W_MC_UDP : bytes := [0;1;0;0;0;1;0;0]%N ++ [103;101;116;32;97;13;10;103;101;116;32;98;13;10]%N.
Lemma memcached_limiter_refuted :
  length (fst (udp_seq SVC_MEMCACHED_UDP LIMITER_BURST [W_MC_UDP; W_MC_UDP; W_MC_UDP])) = 5 /\
  length (fst (udp_seq_expected SVC_MEMCACHED_UDP [W_MC_UDP; W_MC_UDP; W_MC_UDP])) = 6.
Proof. vm_compute. split; reflexivity. Qed.

(* ------------------------------------------------------------------ *)
(* the property at full strength                                       *)
(* ------------------------------------------------------------------ *)
(* stream services: every segmentation of every stream *)
Definition C04_full (svc : N) : Prop := forall segs, run_impl svc segs = expected svc (concat segs).
(* datagram services: the connection IS one datagram (listener.DummyUDPConn) *)
Definition C04_full_datagram (svc : N) : Prop := forall d, run_impl svc [d] = expected svc d.

Lemma persistent_reads_the_stream p segs :
  persistent p -> seg_obs p segs = str_obs p (concat segs) /\ seg_dropped p segs = [].
Proof. intros H. split; [exact (persistent_obs p segs H)|exact (persistent_nothing_dropped p segs H)]. Qed.

(* regression witness of the defect repaired by a828b58: a transaction abandoned WITHOUT RSET
   (here by an empty line and an unknown command) no longer leaks its chunk into the next mail;
   the former reading (clean = false) reported subject "old,new" *)
Definition W_SMTP_STALE : bytes := [72;69;76;79;32;99;13;10;77;65;73;76;32;70;82;79;77;58;60;97;64;98;62;13;10;66;68;65;84;32;49;52;13;10;83;117;98;106;101;99;116;58;32;111;108;100;13;10;13;10;78;79;79;80;13;10;77;65;73;76;32;70;82;79;77;58;60;97;64;98;62;13;10;66;68;65;84;32;49;56;32;76;65;83;84;13;10;83;117;98;106;101;99;116;58;32;110;101;119;13;10;13;10;104;105;13;10]%N.
Definition mail_events (es : list event) : list event := filter (fun e => beq (ev_ty e) EV_SMTP_MAIL) es.
