(* C04 - lemmas (in progress). *)
From HT Require Import Common.Bytes C04.Model.
Open Scope nat_scope.
