(* C04 - lemmas: the buffered reader's line/take requests are functions of the pending
   byte stream; reader programs without buffer-sensitive reads see only the stream. *)
From HT Require Import Common.Bytes C04.Model.
From Coq Require Import ZifyBool ZifyN ZifyNat.
Open Scope nat_scope.

(* ---- the connection ---- *)
Lemma read_raw_inv c n : let '(b, c') := read_raw c n in b ++ concat c' = concat c.
Proof.
  destruct c as [|s r]; cbn [read_raw]; [reflexivity|].
  destruct (skipn n s) as [|x rest] eqn:E; cbn [concat].
  - rewrite <- (firstn_skipn n s) at 2. rewrite E, app_nil_r. reflexivity.
  - rewrite app_assoc. rewrite <- E, firstn_skipn. reflexivity.
Qed.

Lemma BUFSZ_pos : 0 < BUFSZ.
Proof. unfold BUFSZ. lia. Qed.

Lemma fill_pending r : pending (fill r) = pending r.
Proof.
  unfold fill, pending. pose proof (read_raw_inv (rsrc r) (BUFSZ - length (rbuf r))) as H.
  destruct (read_raw (rsrc r) (BUFSZ - length (rbuf r))) as [b s]. cbn [rbuf rsrc].
  rewrite <- app_assoc, H. reflexivity.
Qed.

(* one underlying read moves n0 >= 1 bytes (or removes an empty segment) *)
Lemma read_raw_measure c n :
  0 < n -> c <> [] ->
  let '(b, c') := read_raw c n in
  length (concat c) = length b + length (concat c') /\
  (length b + length c' < 2 * length b + length c).
Proof.
  intros Hn Hc. destruct c as [|s r]; [congruence|]. cbn [read_raw].
  destruct (skipn n s) as [|x rest] eqn:E; cbn [concat length]; rewrite ?app_length.
  - assert (Hs : firstn n s = s).
    { rewrite <- (firstn_skipn n s) at 2. rewrite E, app_nil_r. reflexivity. }
    rewrite Hs. split; lia.
  - assert (Hl : length (firstn n s) = n).
    { rewrite firstn_length. assert (length (skipn n s) <> 0) by (rewrite E; cbn; lia).
      rewrite skipn_length in H. lia. }
    rewrite <- E. split.
    + rewrite <- (firstn_skipn n s) at 1. rewrite app_length. lia.
    + rewrite Hl. cbn [length]. lia.
Qed.

(* ---- split at the delimiter ---- *)
Lemma split_delim_app d l : split_delim d l = None \/ exists a b, split_delim d l = Some (a, b) /\ l = a ++ b.
Proof.
  induction l as [|x l IH]; cbn [split_delim]; [left; reflexivity|].
  destruct (beq x d); [right; exists [x], l; split; reflexivity|].
  destruct IH as [->|(a & b & -> & ->)]; [left; reflexivity|].
  right. exists (x :: a), b. split; reflexivity.
Qed.

Lemma split_delim_some_app d x y a b :
  split_delim d x = Some (a, b) -> split_delim d (x ++ y) = Some (a, b ++ y).
Proof.
  revert a b. induction x as [|c x IH]; intros a b; cbn [split_delim app]; [discriminate|].
  destruct (beq c d); [intros H; inversion H; reflexivity|].
  destruct (split_delim d x) as [[a0 b0]|]; [|discriminate].
  intros H; injection H as <- <-. rewrite (IH a0 b0 eq_refl). reflexivity.
Qed.

Lemma split_delim_none_app d x y :
  split_delim d x = None ->
  split_delim d (x ++ y) = match split_delim d y with Some (a, b) => Some (x ++ a, b) | None => None end.
Proof.
  induction x as [|c x IH]; cbn [split_delim app]; intros H.
  - destruct (split_delim d y) as [[a b]|]; reflexivity.
  - destruct (beq c d); [discriminate|].
    destruct (split_delim d x) as [[a0 b0]|]; [discriminate|].
    rewrite (IH eq_refl). destruct (split_delim d y) as [[a b]|]; reflexivity.
Qed.

(* ---- ReadBytes / ReadString ---- *)
Lemma r_until_f_spec fuel d : forall acc r res r',
  r_until_f fuel d acc r = Some (res, r') ->
  match split_delim d (pending r) with
  | Some (a, b) => res = RLine (acc ++ a) /\ pending r' = b
  | None => res = REof (acc ++ pending r) /\ pending r' = []
  end.
Proof.
  induction fuel as [|f IH]; intros acc r res r' H; cbn [r_until_f] in H; [discriminate|].
  unfold pending at 1.
  destruct (split_delim d (rbuf r)) as [[a b]|] eqn:Eb.
  - inversion H; subst. rewrite (split_delim_some_app _ _ _ _ _ Eb). split; reflexivity.
  - rewrite (split_delim_none_app _ _ _ Eb).
    destruct (rsrc r) as [|s0 rest] eqn:Es.
    + inversion H; subst. cbn [concat split_delim]. unfold pending. rewrite Es. cbn [concat rbuf rsrc].
      rewrite app_nil_r. split; reflexivity.
    + rewrite <- Es in *. destruct (BUFSZ <=? length (rbuf r)).
      * apply IH in H. unfold pending in H at 1. cbn [rbuf rsrc app] in H.
        destruct (split_delim d (concat (rsrc r))) as [[a b]|].
        -- destruct H as [-> ->]. rewrite app_assoc. split; reflexivity.
        -- destruct H as [-> ->]. unfold pending. cbn [rbuf rsrc app]. rewrite app_assoc. split; reflexivity.
      * apply IH in H. rewrite fill_pending in H. unfold pending in H at 1.
        rewrite (split_delim_none_app _ _ _ Eb) in H.
        destruct (split_delim d (concat (rsrc r))) as [[a b]|]; exact H.
Qed.

Lemma fill_until_measure r :
  rsrc r <> [] -> length (rbuf r) < BUFSZ -> until_measure (fill r) < until_measure r.
Proof.
  intros Hs Hb. unfold fill, until_measure.
  pose proof (read_raw_measure (rsrc r) (BUFSZ - length (rbuf r)) ltac:(lia) Hs) as H.
  destruct (read_raw (rsrc r) (BUFSZ - length (rbuf r))) as [b s]. cbn [rbuf rsrc].
  rewrite app_length. lia.
Qed.

Lemma r_until_f_enough fuel d : forall acc r, until_measure r < fuel -> r_until_f fuel d acc r <> None.
Proof.
  induction fuel as [|f IH]; intros acc r Hm; [lia|]. cbn [r_until_f].
  destruct (split_delim d (rbuf r)) as [[a b]|]; [discriminate|].
  destruct (rsrc r) as [|s0 rest] eqn:Es; [discriminate|]. rewrite <- Es.
  destruct (BUFSZ <=? length (rbuf r)) eqn:Ef.
  - apply IH. unfold until_measure in *. cbn [rbuf rsrc length]. pose proof BUFSZ_pos. lia.
  - apply IH. assert (rsrc r <> []) by (rewrite Es; discriminate).
    pose proof (fill_until_measure r H). lia.
Qed.

Lemma r_until_spec d r :
  let '(res, r') := r_until d r in s_until d (pending r) = (res, pending r').
Proof.
  unfold r_until. destruct (r_until_f (S (until_measure r)) d [] r) as [[res r']|] eqn:E.
  - apply r_until_f_spec in E. unfold s_until.
    destruct (split_delim d (pending r)) as [[a b]|]; destruct E as [-> ->]; reflexivity.
  - exfalso. eapply r_until_f_enough; [|exact E]. lia.
Qed.

(* ---- consuming exactly n bytes ---- *)
Lemma firstn_app_le {A} n (a b : list A) : n <= length a -> firstn n (a ++ b) = firstn n a.
Proof.
  intros H. rewrite firstn_app. replace (n - length a) with 0 by lia. cbn [firstn]. apply app_nil_r.
Qed.
Lemma skipn_app_le {A} n (a b : list A) : n <= length a -> skipn n (a ++ b) = skipn n a ++ b.
Proof.
  intros H. rewrite skipn_app. replace (n - length a) with 0 by lia. reflexivity.
Qed.
Lemma firstn_app_gt {A} n (a b : list A) : length a <= n -> firstn n (a ++ b) = a ++ firstn (n - length a) b.
Proof. intros H. rewrite firstn_app, firstn_all2 by lia. reflexivity. Qed.
Lemma skipn_app_gt {A} n (a b : list A) : length a <= n -> skipn n (a ++ b) = skipn (n - length a) b.
Proof. intros H. rewrite skipn_app, skipn_all2 by lia. reflexivity. Qed.

Lemma r_take_f_spec fuel : forall n acc r x r',
  r_take_f fuel n acc r = Some (x, r') ->
  x = acc ++ firstn n (pending r) /\ pending r' = skipn n (pending r).
Proof.
  induction fuel as [|f IH]; intros n acc r x r' H; cbn [r_take_f] in H; [discriminate|].
  destruct (n <=? length (rbuf r)) eqn:En.
  - inversion H; subst. unfold pending. cbn [rbuf rsrc].
    rewrite firstn_app_le, skipn_app_le by lia. split; reflexivity.
  - destruct (rsrc r) as [|s0 rest] eqn:Es.
    + inversion H; subst. unfold pending. rewrite Es. cbn [concat rbuf rsrc]. rewrite !app_nil_r.
      rewrite firstn_all2, skipn_all2 by lia. split; reflexivity.
    + rewrite <- Es in *. apply IH in H. rewrite fill_pending in H.
      unfold pending in *. cbn [rbuf rsrc app] in *.
      rewrite firstn_app_gt, skipn_app_gt by lia. destruct H as [-> ->].
      rewrite app_assoc. split; reflexivity.
Qed.

Lemma fill_take_measure s : s <> [] -> take_measure (fill (mkRd [] s)) < take_measure (mkRd [] s).
Proof.
  intros Hs. unfold fill, take_measure. cbn [rbuf rsrc length].
  pose proof (read_raw_measure s (BUFSZ - 0) ltac:(pose proof BUFSZ_pos; lia) Hs) as H.
  destruct (read_raw s (BUFSZ - 0)) as [b s']. cbn [rbuf rsrc]. lia.
Qed.

Lemma r_take_f_enough fuel : forall n acc r, take_measure r < fuel -> r_take_f fuel n acc r <> None.
Proof.
  induction fuel as [|f IH]; intros n acc r Hm; [lia|]. cbn [r_take_f].
  destruct (n <=? length (rbuf r)); [discriminate|].
  destruct (rsrc r) as [|s0 rest] eqn:Es; [discriminate|]. rewrite <- Es.
  apply IH. assert (rsrc r <> []) by (rewrite Es; discriminate).
  pose proof (fill_take_measure (rsrc r) H). unfold take_measure in *. cbn [rbuf rsrc] in *. lia.
Qed.

Lemma r_take_spec n r :
  let '(x, r') := r_take n r in x = firstn n (pending r) /\ pending r' = skipn n (pending r).
Proof.
  unfold r_take. destruct (r_take_f (S (take_measure r)) n [] r) as [[x r']|] eqn:E.
  - apply r_take_f_spec in E. exact E.
  - exfalso. eapply r_take_f_enough; [|exact E]. lia.
Qed.

(* ---- one Read: a prefix of the stream, never more than asked ---- *)
Lemma r_read_inv n r :
  let '(b, r') := r_read n r in b ++ pending r' = pending r /\ length b <= n.
Proof.
  unfold r_read. destruct (rbuf r) as [|x buf] eqn:Eb.
  - destruct (BUFSZ <=? n).
    + pose proof (read_raw_inv (rsrc r) n) as H. destruct (read_raw (rsrc r) n) as [b s] eqn:Er.
      unfold pending. rewrite Eb. cbn [rbuf rsrc app]. split; [exact H|].
      destruct (rsrc r) as [|s0 rest]; cbn [read_raw] in Er.
      * inversion Er; cbn; lia.
      * destruct (skipn n s0); inversion Er; rewrite firstn_length; lia.
    + pose proof (fill_pending r) as H. unfold pending in *. rewrite <- H.
      rewrite app_assoc, firstn_skipn. split; [reflexivity|]. rewrite firstn_length. lia.
  - unfold pending. cbn [rbuf rsrc]. rewrite Eb, app_assoc, firstn_skipn.
    split; [reflexivity|]. rewrite firstn_length. lia.
Qed.

(* ------------------------------------------------------------------ *)
(* reader programs                                                     *)
(* ------------------------------------------------------------------ *)
(* whenever the run over the stream executed no buffer-sensitive Read and the run over the
   segments dropped no buffered byte, both runs report the same events and return code *)
Lemma run_sound p : forall r es c d es' c' ok,
  run_seg p r = (es, c, d) -> run_str p (pending r) = (es', c', ok) ->
  d = [] -> ok = true -> es = es' /\ c = c'.
Proof.
  induction p as [code|e k IH|dl k IH|n k IH|n k IH|k IH]; intros r es c d es' c' ok Hs Ht Hd Hok;
    cbn [run_seg run_str] in Hs, Ht.
  - inversion Hs; inversion Ht; subst; split; reflexivity.
  - destruct (run_seg k r) as [[es0 c0] d0] eqn:E1. destruct (run_str k (pending r)) as [[es1 c1] ok1] eqn:E2.
    inversion Hs; inversion Ht; subst.
    destruct (IH _ _ _ _ _ _ _ E1 E2 eq_refl eq_refl) as [-> ->]. split; reflexivity.
  - pose proof (r_until_spec dl r) as Hu. destruct (r_until dl r) as [res r'].
    rewrite Hu in Ht. eapply IH; eauto.
  - pose proof (r_take_spec n r) as Hu. destruct (r_take n r) as [x r']. destruct Hu as [-> Hp].
    rewrite <- Hp in Ht. eapply IH; eauto.
  - destruct (run_str (k (firstn n (pending r))) (skipn n (pending r))) as [[es1 c1] ok1].
    injection Ht as <- <- <-. discriminate.
  - destruct (run_seg k (mkRd [] (rsrc r))) as [[es0 c0] d0] eqn:E1.
    injection Hs as <- <- <-. apply app_eq_nil in Hd as [Hb Hd0].
    assert (Hp : pending (mkRd [] (rsrc r)) = pending r) by (unfold pending; rewrite Hb; reflexivity).
    rewrite <- Hp in Ht. eapply IH; eauto.
Qed.

(* programs that only ever ask for delimited lines and exact byte counts on ONE reader *)
Inductive persistent : prog -> Prop :=
| per_done c : persistent (PDone c)
| per_emit e k : persistent k -> persistent (PEmit e k)
| per_until d k : (forall res, persistent (k res)) -> persistent (PUntil d k)
| per_take n k : (forall b, persistent (k b)) -> persistent (PTake n k).

Lemma persistent_run p : persistent p ->
  forall r, run_seg p r = (fst (str_obs p (pending r)), snd (str_obs p (pending r)), []).
Proof.
  unfold str_obs. induction 1 as [c|e k Hk IH|d k Hk IH|n k Hk IH]; intros r; cbn [run_seg run_str].
  - reflexivity.
  - rewrite IH. destruct (run_str k (pending r)) as [[es c] ok]. reflexivity.
  - pose proof (r_until_spec d r) as Hu. destruct (r_until d r) as [res r']. rewrite Hu. apply IH.
  - pose proof (r_take_spec n r) as Hu. destruct (r_take n r) as [x r']. destruct Hu as [-> Hp].
    rewrite <- Hp. apply IH.
Qed.

Lemma persistent_obs p c : persistent p -> seg_obs p c = str_obs p (concat c).
Proof.
  intros H. unfold seg_obs. rewrite (persistent_run p H). unfold pending, new_reader. cbn [rbuf rsrc app].
  destruct (str_obs p (concat c)); reflexivity.
Qed.

Lemma persistent_nothing_dropped p c : persistent p -> seg_dropped p c = [].
Proof. intros H. unfold seg_dropped. rewrite (persistent_run p H). reflexivity. Qed.

Lemma persistent_clean p : persistent p -> forall s, str_clean p s = true.
Proof.
  unfold str_clean. induction 1 as [c|e k Hk IH|d k Hk IH|n k Hk IH]; intros s; cbn [run_str].
  - reflexivity.
  - specialize (IH s). destruct (run_str k s) as [[es c] ok]. exact IH.
  - destruct (s_until d s) as [res s']. apply IH.
  - apply IH.
Qed.

(* the generic theorem: for a persistent reader the events depend only on the concatenation *)
Lemma persistent_segmentation_invariant p c1 c2 :
  persistent p -> concat c1 = concat c2 -> seg_obs p c1 = seg_obs p c2.
Proof. intros H E. rewrite !persistent_obs by exact H. rewrite E. reflexivity. Qed.

(* the general form, for programs with Reads and fresh readers: outside the two loss mechanisms *)
Lemma clean_lossless_obs p c :
  str_clean p (concat c) = true -> seg_dropped p c = [] -> seg_obs p c = str_obs p (concat c).
Proof.
  unfold str_clean, seg_dropped, seg_obs, str_obs. intros Hc Hd.
  destruct (run_seg p (new_reader c)) as [[es cd] d] eqn:E1.
  assert (Hp : pending (new_reader c) = concat c) by reflexivity.
  destruct (run_str p (concat c)) as [[es' cd'] ok] eqn:E2. rewrite <- Hp in E2.
  destruct (run_sound p _ _ _ _ _ _ _ E1 E2 Hd Hc) as [-> ->]. reflexivity.
Qed.

(* ---- the services with one persistent reader ---- *)
Ltac per_step :=
  match goal with
  | |- persistent (PDone _) => constructor
  | |- persistent (PEmit _ _) => constructor
  | |- persistent (PUntil _ _) => constructor; intros ?
  | |- persistent (PTake _ _) => constructor; intros ?
  | |- persistent (PScan _) => unfold PScan; constructor; intros ?
  | |- persistent (match ?x with _ => _ end) => destruct x
  | |- persistent (if ?x then _ else _) => destruct x
  | |- persistent (let '(_, _) := ?x in _) => destruct x
  end.

Lemma ftp_persistent fuel : persistent (ftp_prog fuel).
Proof. induction fuel as [|f IH]; cbn [ftp_prog]; repeat per_step; exact IH. Qed.

Lemma dot_persistent fuel : forall st acc k,
  (forall r, persistent (k r)) -> persistent (dot_prog fuel st acc k).
Proof.
  induction fuel as [|f IH]; intros st acc k Hk; cbn [dot_prog]; [constructor|].
  constructor. intros b. destruct b as [|c b']; [apply Hk|].
  destruct (dot_step st c) as [[st' out] fin]. destruct fin; [apply Hk|apply IH; exact Hk].
Qed.

Lemma smtp_step_persistent clean self dotfuel st i buf line :
  (forall st i buf, persistent (self st i buf)) -> persistent (smtp_step clean self dotfuel st i buf line).
Proof.
  intros Hs. unfold smtp_step. destruct st.
  - repeat (first [apply Hs | per_step]).
  - repeat (first [apply Hs | per_step]).
  - repeat (first [apply Hs | apply dot_persistent; intros ? | per_step]).
Qed.

Lemma smtp_persistent clean fuel : forall st i buf, persistent (smtp_prog clean fuel st i buf).
Proof.
  induction fuel as [|f IH]; intros st i buf; cbn [smtp_prog]; [constructor|].
  constructor. intros res. destruct (tp_line res) as [line|]; [|constructor].
  constructor. apply smtp_step_persistent. exact IH.
Qed.

(* ---- smtp mail accumulation, command by command (for every continuation [self]) ---- *)
(* RSET inside a transaction: the dialogue goes on with an EMPTY chunk buffer *)
Lemma smtp_rset_in_transaction clean self df i buf line :
  line <> [] -> is_command line s_RSET = true ->
  smtp_step clean self df SMail i buf line = self SLoop i [].
Proof. intros Hl Hr. unfold smtp_step. destruct line; [congruence|]. rewrite Hr. reflexivity. Qed.

(* a BDAT chunk that is not LAST: exactly [count] bytes are appended to the buffer *)
Lemma smtp_bdat_chunk clean self df i buf line w cnt count :
  line <> [] -> is_command line s_RSET = false -> is_command line s_RCPTTO = false ->
  is_command line s_BDAT = true -> split_on SP line = [w; cnt] -> parse_int 32 cnt = Some count ->
  smtp_step clean self df SMail i buf line =
  PTake (Z.to_nat count) (fun chunk =>
    if length chunk <? Z.to_nat count then PDone 0 else self SMail i (buf ++ chunk)).
Proof.
  intros Hl H1 H2 H3 H4 H5. unfold smtp_step. destruct line; [congruence|].
  rewrite H1, H2, H3, H4, H5. reflexivity.
Qed.

(* BDAT n LAST: the mail reported is parsed from the buffer ++ this chunk - the bytes received
   since the buffer was last emptied - and the next mail starts with an empty buffer *)
Lemma smtp_bdat_last clean self df i buf line w cnt count :
  line <> [] -> is_command line s_RSET = false -> is_command line s_RCPTTO = false ->
  is_command line s_BDAT = true -> split_on SP line = [w; cnt; s_LAST] -> parse_int 32 cnt = Some count ->
  smtp_step clean self df SMail i buf line =
  PTake (Z.to_nat count) (fun chunk =>
    if length chunk <? Z.to_nat count then PDone 0
    else match mail_parse (buf ++ chunk) with
         | None => PDone 0
         | Some m => PEmit (mail_event m) (self SLoop i [])
         end).
Proof.
  intros Hl H1 H2 H3 H4 H5. unfold smtp_step. destruct line; [congruence|].
  rewrite H1, H2, H3, H4, H5. reflexivity.
Qed.

(* reference reading: MAIL FROM opens a transaction with an empty buffer; the code keeps it *)
Lemma smtp_mail_from clean self df i buf line :
  line <> [] -> (LOOP_TRESHOLD <? S i) = false -> is_command line s_MAILFROM = true ->
  smtp_step clean self df SLoop i buf line = self SMail (S i) (if clean then [] else buf).
Proof. intros Hl Ht Hm. unfold smtp_step. destruct line; [congruence|]. rewrite Ht, Hm. reflexivity. Qed.

(* the former code and the reference reading differ in nothing else *)
Lemma smtp_code_is_reference_step self df st i buf line :
  (st = SLoop -> is_command line s_MAILFROM = true -> buf = []) ->
  smtp_step false self df st i buf line = smtp_step true self df st i buf line.
Proof.
  intros H. unfold smtp_step. destruct st; try reflexivity.
  destruct line; [reflexivity|]. destruct (LOOP_TRESHOLD <? S i); [reflexivity|].
  destruct (is_command (n :: line) s_MAILFROM) eqn:E; [|reflexivity].
  rewrite (H eq_refl eq_refl). reflexivity.
Qed.

Lemma redis_persistent fuel : forall stack, persistent (redis_prog fuel stack).
Proof.
  induction fuel as [|f IH]; intros stack; cbn [redis_prog]; [constructor|].
  assert (Hfin : forall d, persistent
    match deliver d stack with
    | inr stack' => redis_prog f stack'
    | inl top =>
        match top with
        | DScalar 0%N _ => redis_prog f []
        | DScalar _ _ => PDone 0
        | DArr [] => PDone 2
        | DArr (DScalar ty s :: _) =>
            if beq ty 43%N || beq ty 36%N then PEmit (mkEv EV_REDIS [s]) (redis_prog f []) else PDone 0
        | DArr (DArr _ :: _) => PDone 0
        end
    end).
  { intros d. repeat (first [apply IH | per_step]). }
  repeat (first [apply Hfin | apply IH | per_step]).
Qed.

Lemma memcached_persistent fuel : forall lim, persistent (memcached_prog lim fuel).
Proof. induction fuel as [|f IH]; intros lim; cbn [memcached_prog]; repeat (first [apply IH | per_step]). Qed.

Lemma chunk_trailer_persistent fuel : forall ok bad,
  persistent ok -> persistent bad -> persistent (chunk_trailer fuel ok bad).
Proof.
  induction fuel as [|f IH]; intros ok bad Ho Hb; cbn [chunk_trailer]; [constructor|].
  repeat (first [exact Ho | exact Hb | apply IH; assumption | per_step]).
Qed.

Lemma chunk_body_persistent fuel : forall acc k,
  (forall r, persistent (k r)) -> persistent (chunk_body fuel acc k).
Proof.
  induction fuel as [|f IH]; intros acc k Hk; cbn [chunk_body]; [constructor|].
  repeat (first [apply Hk | apply IH; exact Hk | apply chunk_trailer_persistent | per_step]).
Qed.

Lemma http_headers_persistent fuel : forall host cl te k,
  (forall h, persistent (k h)) -> persistent (http_headers fuel host cl te k).
Proof.
  induction fuel as [|f IH]; intros host cl te k Hk; cbn [http_headers]; [constructor|].
  repeat (first [apply Hk | apply IH; exact Hk | per_step]).
Qed.

Lemma http_discard_persistent fuel : forall rem k,
  persistent k -> persistent (http_discard fuel rem k).
Proof.
  induction fuel as [|f IH]; intros rem k Hk; cbn [http_discard]; [constructor|].
  destruct rem; [exact Hk|]. constructor. intros b. destruct b; [exact Hk|apply IH; exact Hk].
Qed.

Lemma http_persistent cfg fuel : persistent (http_prog cfg false fuel).
Proof.
  induction fuel as [|f IH]; cbn [http_prog]; [constructor|].
  constructor. intros res. destruct (tp_line res) as [line|]; [|constructor].
  destruct (cut SP line) as [m [rest|]]; [|constructor].
  destruct (cut SP rest) as [u [p|]]; [|constructor].
  destruct (negb (request_line_ok m u p)); [constructor|].
  apply http_headers_persistent. intros h.
  assert (Hagain : persistent (if h_loop cfg then http_prog cfg false f else PDone 0))
    by (destruct (h_loop cfg); [exact IH|constructor]).
  repeat (first [exact Hagain | apply http_discard_persistent | apply chunk_body_persistent; intros ? | per_step]).
Qed.

(* ---- per service: the code's events are the reference reading of concat segs ---- *)
Lemma ftp_run c : run_impl SVC_FTP c = expected SVC_FTP (concat c).
Proof. unfold run_impl, expected. apply persistent_obs. apply ftp_persistent. Qed.

Lemma smtp_run c : run_impl SVC_SMTP c = expected SVC_SMTP (concat c).
Proof. unfold run_impl, expected. apply persistent_obs. apply smtp_persistent. Qed.

Lemma redis_run c : run_impl SVC_REDIS c = expected SVC_REDIS (concat c).
Proof. unfold run_impl, expected. apply persistent_obs. apply redis_persistent. Qed.

Lemma memcached_run c : run_impl SVC_MEMCACHED c = expected SVC_MEMCACHED (concat c).
Proof. unfold run_impl, expected. apply persistent_obs. apply memcached_persistent. Qed.

(* http: one reader per connection, exact payload *)
Lemma http_run c : run_impl SVC_HTTP c = expected SVC_HTTP (concat c).
Proof. unfold run_impl, expected. apply persistent_obs. apply http_persistent. Qed.

(* one request per connection (docker, elasticsearch, eos, ethereum): the only reader is
   created before anything was buffered *)
Lemma http_single_is_persistent_tail b e fuel :
  http_prog (mkHttp false b e) true (S fuel) = PNewReader (http_prog (mkHttp false b e) false (S fuel)).
Proof. reflexivity. Qed.

Lemma http_single_run b e fuel c :
  seg_obs (http_prog (mkHttp false b e) true fuel) c =
  str_obs (http_prog (mkHttp false b e) false fuel) (concat c).
Proof.
  destruct fuel as [|f]; [reflexivity|]. rewrite http_single_is_persistent_tail.
  pose proof (persistent_obs _ c (http_persistent (mkHttp false b e) (S f))) as H.
  unfold seg_obs in *. cbn [run_seg]. unfold new_reader in *. cbn [rbuf rsrc] in *.
  destruct (run_seg (http_prog (mkHttp false b e) false (S f)) (mkRd [] c)) as [[es cd] d].
  exact H.
Qed.

Lemma docker_run c : run_impl SVC_DOCKER c = expected SVC_DOCKER (concat c).
Proof. unfold run_impl, expected. apply http_single_run. Qed.

Lemma elastic_run c : run_impl SVC_ELASTIC c = expected SVC_ELASTIC (concat c).
Proof. unfold run_impl, expected. apply http_single_run. Qed.

Lemma eos_run c : run_impl SVC_EOS c = expected SVC_EOS (concat c).
Proof. unfold run_impl, expected. apply http_single_run. Qed.

Lemma ethereum_run c : run_impl SVC_ETHEREUM c = expected SVC_ETHEREUM (concat c).
Proof. unfold run_impl, expected. apply http_single_run. Qed.

(* ---- datagram services: the first Read sees the whole datagram (up to the buffer) ---- *)
Lemma first_read_of_datagram n d k :
  (forall b, persistent (k b)) ->
  seg_obs (PRead n k) [d] = str_obs (PTake n k) d.
Proof.
  intros Hk. unfold seg_obs, str_obs. cbn [run_seg run_str].
  pose proof (r_read_inv n (new_reader [d])) as Hinv.
  assert (Hb : fst (r_read n (new_reader [d])) = firstn n d).
  { unfold r_read, new_reader. cbn [rbuf rsrc]. destruct (BUFSZ <=? n) eqn:E.
    - cbn [read_raw]. destruct (skipn n d); reflexivity.
    - unfold fill. cbn [rbuf rsrc length read_raw]. rewrite Nat.sub_0_r.
      destruct (skipn BUFSZ d); cbn [fst rbuf app]; rewrite firstn_firstn; f_equal; lia. }
  destruct (r_read n (new_reader [d])) as [b r'] eqn:E. cbn [fst] in Hb. subst b.
  destruct Hinv as [Hinv _]. unfold pending at 2 in Hinv. unfold new_reader in Hinv. cbn [rbuf rsrc concat app] in Hinv.
  rewrite app_nil_r in Hinv.
  assert (Hinv' : firstn n d ++ pending r' = firstn n d ++ skipn n d) by (rewrite firstn_skipn; exact Hinv).
  apply app_inv_head in Hinv'. clear Hinv. rename Hinv' into Hinv.
  rewrite (persistent_run _ (Hk (firstn n d))). rewrite Hinv. unfold str_obs.
  destruct (run_str (k (firstn n d)) (skipn n d)) as [[es c] ok]. reflexivity.
Qed.

Lemma tftp_tail_persistent op : persistent
  (match op with
   | [_; o] =>
       if beq o 1%N || beq o 2%N then
         PUntil 0%N (fun r1 =>
           match r1 with
           | REof _ => PDone 1
           | RLine fname =>
               PUntil 0%N (fun r2 =>
                 match r2 with
                 | REof _ => PDone 1
                 | RLine mode => PEmit (mkEv (if beq o 1%N then EV_TFTP_READ else EV_TFTP_WRITE) [fname; mode]) (PDone 0)
                 end)
           end)
       else PDone 0
   | [_] => PDone 0
   | _ => PDone 0
   end).
Proof. repeat per_step. Qed.

Lemma tftp_datagram d : run_impl SVC_TFTP [d] = expected SVC_TFTP d.
Proof.
  unfold run_impl, expected. change (impl_prog SVC_TFTP (fuel_for (concat [d]))) with (tftp_prog false).
  change (spec_prog SVC_TFTP (fuel_for d)) with (tftp_prog true). unfold tftp_prog.
  apply first_read_of_datagram. intros b. apply tftp_tail_persistent.
Qed.

Lemma cs_datagram d : run_impl SVC_CS [d] = expected SVC_CS d.
Proof.
  unfold run_impl, expected. change (impl_prog SVC_CS (fuel_for (concat [d]))) with (cs_prog false).
  change (spec_prog SVC_CS (fuel_for d)) with (cs_prog true). unfold cs_prog.
  apply first_read_of_datagram. intros b. repeat per_step.
Qed.

Lemma memcached_udp_datagram d : run_impl SVC_MEMCACHED_UDP [d] = expected SVC_MEMCACHED_UDP d.
Proof.
  unfold run_impl, expected.
  change (impl_prog SVC_MEMCACHED_UDP (fuel_for (concat [d]))) with (memcached_udp_prog false None (fuel_for (concat [d]))).
  change (spec_prog SVC_MEMCACHED_UDP (fuel_for d)) with (memcached_udp_prog true None (fuel_for d)).
  cbn [concat]. rewrite app_nil_r. unfold memcached_udp_prog.
  apply first_read_of_datagram. intros b. apply memcached_persistent.
Qed.

Lemma dns_tail_persistent b : persistent (dns_event b).
Proof. unfold dns_event. repeat per_step. Qed.

Lemma dns_datagram d : run_impl SVC_DNS [d] = expected SVC_DNS d.
Proof.
  unfold run_impl, expected. change (impl_prog SVC_DNS (fuel_for (concat [d]))) with (dns_prog false).
  change (spec_prog SVC_DNS (fuel_for d)) with (dns_prog true). unfold dns_prog.
  apply first_read_of_datagram. exact dns_tail_persistent.
Qed.

(* ---- ftp, declaratively: one event per complete line, in order, up to QUIT ---- *)
Fixpoint lines_f (fuel : nat) (s : bytes) : list bytes :=
  match fuel with
  | O => []
  | S f => match split_delim LF s with
           | Some (a, b) => a :: lines_f f b
           | None => []
           end
  end.

Fixpoint ftp_events (ls : list bytes) : list event :=
  match ls with
  | [] => []
  | l :: r => mkEv EV_FTP [trim_both is_crlf l] ::
              (if eqb_bytes (ftp_command l) QUIT then [] else ftp_events r)
  end.

Lemma ftp_events_spec fuel : forall s,
  fst (str_obs (ftp_prog fuel) s) = ftp_events (lines_f fuel s).
Proof.
  unfold str_obs. induction fuel as [|f IH]; intros s; cbn [ftp_prog lines_f run_str]; [reflexivity|].
  unfold s_until. destruct (split_delim LF s) as [[a b]|]; cbn [run_str ftp_events fst]; [|reflexivity].
  destruct (eqb_bytes (ftp_command a) QUIT).
  - reflexivity.
  - specialize (IH b). destruct (run_str (ftp_prog f) b) as [[es c] ok]. cbn [fst] in *. rewrite IH. reflexivity.
Qed.

Lemma split_delim_shorter d s a b : split_delim d s = Some (a, b) -> length b < length s.
Proof.
  revert a b. induction s as [|x s IH]; intros a b; cbn [split_delim]; [discriminate|].
  destruct (beq x d); [intros H; injection H as <- <-; cbn; lia|].
  destruct (split_delim d s) as [[a0 b0]|]; [|discriminate].
  intros H; injection H as <- <-. specialize (IH a0 b0 eq_refl). cbn [length]. lia.
Qed.

(* the fuel used by run_impl/expected is enough: ftp never ends "out of fuel" *)
Lemma ftp_fuel_enough fuel : forall s, length s < fuel -> snd (str_obs (ftp_prog fuel) s) = 0%N.
Proof.
  unfold str_obs. induction fuel as [|f IH]; intros s Hl; [lia|]. cbn [ftp_prog run_str].
  unfold s_until. destruct (split_delim LF s) as [[a b]|] eqn:E; cbn [run_str snd]; [|reflexivity].
  destruct (eqb_bytes (ftp_command a) QUIT); [reflexivity|].
  apply split_delim_shorter in E. specialize (IH b ltac:(lia)).
  destruct (run_str (ftp_prog f) b) as [[es c] ok]. exact IH.
Qed.

(* the lines are exactly the newline-terminated pieces of the stream, nothing else is left *)
Lemma lines_f_partition fuel : forall s, length s < fuel ->
  exists tail, s = concat (lines_f fuel s) ++ tail /\ split_delim LF tail = None.
Proof.
  induction fuel as [|f IH]; intros s Hl; [lia|]. cbn [lines_f].
  destruct (split_delim LF s) as [[a b]|] eqn:E.
  - pose proof (split_delim_shorter _ _ _ _ E) as Hb.
    destruct (IH b ltac:(lia)) as (tail & Hs & Ht). exists tail. split; [|exact Ht].
    cbn [concat]. rewrite <- app_assoc, <- Hs.
    destruct (split_delim_app LF s) as [Hn|(a' & b' & Hs' & Heq)]; [congruence|].
    rewrite E in Hs'. injection Hs' as <- <-. exact Heq.
  - exists s. split; [reflexivity|exact E].
Qed.

(* ------------------------------------------------------------------ *)
(* redis: the RESP reader parses a concatenation of well-formed commands into exactly those
   commands - for ALL argument byte strings without LF, the empty one included            *)
(* ------------------------------------------------------------------ *)
Definition CRLF : bytes := [CR; LF].
Definition no_lf (t : bytes) : bool := forallb (fun b => negb (beq b LF)) t.
(* a line the Scanner accepts: no LF inside, not longer than its token limit *)
Definition line_ok (t : bytes) : Prop := no_lf t = true /\ (blen t + 2 <= MAXTOK)%N.

Lemma split_delim_no_lf t : no_lf t = true -> split_delim LF t = None.
Proof.
  induction t as [|x t IH]; cbn [no_lf forallb split_delim]; [reflexivity|].
  intros H. apply andb_true_iff in H as [Hx Ht]. apply negb_true_iff in Hx. rewrite Hx.
  unfold no_lf in IH. rewrite (IH Ht). reflexivity.
Qed.

Lemma s_until_line t rest : no_lf t = true -> s_until LF (t ++ CRLF ++ rest) = (RLine (t ++ CRLF), rest).
Proof.
  intros H. unfold s_until. rewrite (split_delim_none_app _ _ _ (split_delim_no_lf t H)).
  reflexivity.
Qed.

Lemma frev_rev {A} (l : list A) : frev l = rev l.
Proof. unfold frev. rewrite rev_append_rev. apply app_nil_r. Qed.

Lemma scan_token_line t : line_ok t -> scan_token (RLine (t ++ CRLF)) = Some t.
Proof.
  intros [Hn Hl]. unfold scan_token.
  assert (Hb : (MAXTOK <? blen (t ++ CRLF))%N = false).
  { unfold blen in *. rewrite app_length. cbn [CRLF length]. apply N.ltb_ge. lia. }
  rewrite Hb. unfold CRLF.
  replace (removelast (t ++ [CR; LF])) with (t ++ [CR])
    by (rewrite removelast_app by discriminate; reflexivity).
  unfold drop_cr. rewrite frev_rev, rev_unit. unfold CR at 1.
  rewrite removelast_app by discriminate. cbn [removelast]. rewrite app_nil_r. reflexivity.
Qed.

Lemma run_scan k t rest : line_ok t -> run_str (PScan k) (t ++ CRLF ++ rest) = run_str (k (Some t)) rest.
Proof.
  intros H. unfold PScan. cbn [run_str]. rewrite (s_until_line t rest (proj1 H)).
  rewrite (scan_token_line t H). reflexivity.
Qed.

Definition redis_top (f : nat) (top : datum) : prog :=
  match top with
  | DScalar 0%N _ => redis_prog f []
  | DScalar _ _ => PDone 0
  | DArr [] => PDone 2
  | DArr (DScalar ty s :: _) =>
      if beq ty 43%N || beq ty 36%N then PEmit (mkEv EV_REDIS [s]) (redis_prog f []) else PDone 0
  | DArr (DArr _ :: _) => PDone 0
  end.
Definition redis_finish (f : nat) (stack : list (N * list datum)) (d : datum) : prog :=
  match deliver d stack with
  | inr stack' => redis_prog f stack'
  | inl top => redis_top f top
  end.

(* a bulk string "$<len>\r\n<arg>\r\n": the datum delivered is exactly arg *)
Lemma redis_bulk f stack lt v arg rest :
  length stack <= MAX_ARRAY_DEPTH -> parse_uint64 lt = Some v -> line_ok (36%N :: lt) -> line_ok arg ->
  run_str (redis_prog (S f) stack) ((36%N :: lt) ++ CRLF ++ arg ++ CRLF ++ rest) =
  run_str (redis_finish f stack (DScalar 36%N arg)) rest.
Proof.
  intros Hd Hp Hl Ha. cbn [redis_prog].
  assert (Hdepth : (MAX_ARRAY_DEPTH <? length stack) = false) by (apply Nat.ltb_ge; exact Hd).
  rewrite Hdepth. rewrite (run_scan _ _ _ Hl). cbv beta iota.
  change (beq 36%N 42%N) with false. change (beq 36%N 43%N) with false. change (beq 36%N 36%N) with true.
  cbv beta iota. rewrite Hp. rewrite (run_scan _ _ _ Ha). reflexivity.
Qed.

(* "*<n>\r\n" with n > 0 at top level opens an array of n items *)
Lemma redis_array_header f cnt n rest :
  parse_uint64 cnt = Some n -> n <> 0%N -> line_ok (42%N :: cnt) ->
  run_str (redis_prog (S f) []) ((42%N :: cnt) ++ CRLF ++ rest) = run_str (redis_prog f [(n, [])]) rest.
Proof.
  intros Hp Hn Hl. cbn [redis_prog]. change (MAX_ARRAY_DEPTH <? length (@nil (N * list datum))) with false.
  cbv beta iota. rewrite (run_scan _ _ _ Hl). cbv beta iota.
  change (beq 42%N 42%N) with true. cbv beta iota. rewrite Hp. destruct n; [congruence|reflexivity].
Qed.

Definition wf_arg (a : bytes * bytes) : Prop :=
  (exists v, parse_uint64 (fst a) = Some v) /\ line_ok (36%N :: fst a) /\ line_ok (snd a).
Definition enc_arg (a : bytes * bytes) : bytes := (36%N :: fst a) ++ CRLF ++ snd a ++ CRLF.
Definition arg_datum (a : bytes * bytes) : datum := DScalar 36%N (snd a).

Lemma redis_items args : forall f acc rest,
  Forall wf_arg args -> args <> [] ->
  run_str (redis_prog (length args + f) [(N.of_nat (length args), acc)]) (concat (map enc_arg args) ++ rest) =
  run_str (redis_top f (DArr (frev (rev (map arg_datum args) ++ acc)))) rest.
Proof.
  induction args as [|a tl IH]; intros f acc rest Hwf Hne; [congruence|].
  inversion Hwf as [|? ? [[v Hv] [Hl Ha]] Hwf']; subst.
  change (length (a :: tl)) with (S (length tl)). change (S (length tl) + f) with (S (length tl + f)).
  cbn [map concat]. unfold enc_arg at 1. repeat rewrite <- app_assoc.
  rewrite (redis_bulk _ _ _ v) by first [assumption | unfold MAX_ARRAY_DEPTH; cbn [length]; lia].
  unfold redis_finish. cbn [deliver].
  assert (Hcase : tl = [] \/ tl <> []) by (destruct tl; [left; reflexivity | right; discriminate]).
  destruct Hcase as [->|Hnil].
  - change (N.of_nat (S (length (@nil (bytes * bytes)))) <=? 1)%N with true. cbv beta iota. cbn [deliver].
    cbn [map rev app length Nat.add]. reflexivity.
  - assert (Hlen : length tl <> 0) by (destruct tl; [congruence|discriminate]).
    assert (Hn : (N.of_nat (S (length tl)) <=? 1)%N = false) by (apply N.leb_gt; lia).
    rewrite Hn. replace (N.of_nat (S (length tl)) - 1)%N with (N.of_nat (length tl)) by lia.
    pose proof (IH f (arg_datum a :: acc) rest Hwf' Hnil) as IH'. unfold arg_datum in *.
    etransitivity; [exact IH'|]. cbn [map rev]. rewrite <- app_assoc. reflexivity.
Qed.

(* a well-formed command: "*<n>\r\n" followed by n >= 1 bulk strings *)
Definition wf_cmd (c : bytes * list (bytes * bytes)) : Prop :=
  parse_uint64 (fst c) = Some (N.of_nat (length (snd c))) /\ snd c <> [] /\
  line_ok (42%N :: fst c) /\ Forall wf_arg (snd c).
Definition enc_cmd (c : bytes * list (bytes * bytes)) : bytes :=
  (42%N :: fst c) ++ CRLF ++ concat (map enc_arg (snd c)).
Definition cmd_event (c : bytes * list (bytes * bytes)) : event :=
  mkEv EV_REDIS [match snd c with a :: _ => snd a | [] => [] end].
Definition cmd_cost (c : bytes * list (bytes * bytes)) : nat := S (length (snd c)).

Lemma redis_command c f rest :
  wf_cmd c ->
  run_str (redis_prog (cmd_cost c + f) []) (enc_cmd c ++ rest) =
  let '(es, code, ok) := run_str (redis_prog f []) rest in (cmd_event c :: es, code, ok).
Proof.
  destruct c as [cnt args]. intros (Hp & Hne & Hl & Hwf). cbn [fst snd] in *.
  unfold enc_cmd, cmd_cost, cmd_event. cbn [fst snd]. repeat rewrite <- app_assoc.
  change (S (length args) + f) with (S (length args + f)).
  rewrite (redis_array_header _ _ _ _ Hp) by first [assumption | (destruct args; [congruence|cbn [length]; lia])].
  rewrite (redis_items args f [] rest Hwf Hne). rewrite app_nil_r, frev_rev, rev_involutive.
  destruct args as [|a args]; [congruence|]. cbn [map redis_top arg_datum].
  change (beq 36%N 43%N || beq 36%N 36%N) with true. cbv beta iota. cbn [run_str]. reflexivity.
Qed.

Fixpoint cmds_cost (cs : list (bytes * list (bytes * bytes))) : nat :=
  match cs with [] => 0 | c :: r => cmd_cost c + cmds_cost r end.

(* the theorem: any sequence of well-formed commands, arguments arbitrary (LF-free) byte
   strings, is read as exactly one event per command, in order, and nothing else *)
Lemma redis_commands cs : forall f,
  Forall wf_cmd cs ->
  str_obs (redis_prog (cmds_cost cs + S f) []) (concat (map enc_cmd cs)) = (map cmd_event cs, 0%N).
Proof.
  unfold str_obs. induction cs as [|c cs IH]; intros f Hwf.
  - reflexivity.
  - inversion Hwf as [|? ? Hc Hcs]; subst. cbn [map concat cmds_cost].
    rewrite <- Nat.add_assoc. rewrite (redis_command c _ _ Hc).
    specialize (IH f Hcs). destruct (run_str (redis_prog (cmds_cost cs + S f) []) (concat (map enc_cmd cs))) as [[es code] ok].
    injection IH as -> ->. reflexivity.
Qed.

(* ---- ldap: one persistent reader, exact counts only ---- *)
Lemma ldap_message_persistent t content k : persistent k -> persistent (ldap_message t content k).
Proof. intros Hk. unfold ldap_message. repeat (first [exact Hk | per_step]). Qed.

Lemma ldap_persistent fuel : persistent (ldap_prog fuel).
Proof.
  induction fuel as [|f IH]; cbn [ldap_prog]; [constructor|].
  constructor. intros hdr. destruct hdr as [|t [|l0 [|x r]]]; try constructor.
  repeat (first [apply ldap_message_persistent; exact IH | per_step]).
Qed.

Lemma ldap_run c : run_impl SVC_LDAP c = expected SVC_LDAP (concat c).
Proof. unfold run_impl, expected. apply persistent_obs. apply ldap_persistent. Qed.

(* ---- telnet: the terminal's line discipline is a function of the byte stream ---- *)
Lemma tn_feed_app a : forall st b,
  tn_feed st (a ++ b) =
  let '(st1, e1) := tn_feed st a in let '(st2, e2) := tn_feed st1 b in (st2, e1 ++ e2).
Proof.
  induction a as [|x a IH]; intros st b; cbn [app tn_feed].
  - destruct (tn_feed st b) as [st2 e2]. reflexivity.
  - destruct (tn_key st x) as [st1 e1]. rewrite IH.
    destruct (tn_feed st1 a) as [st2 e2]. destruct (tn_feed st2 b) as [st3 e3].
    rewrite app_assoc. reflexivity.
Qed.

(* induction over the list of segments: feeding them one Read after the other is feeding
   their concatenation *)
Lemma tn_feed_segs_concat c : forall st, tn_feed_segs st c = tn_feed st (concat c).
Proof.
  induction c as [|s r IH]; intros st; cbn [tn_feed_segs concat]; [reflexivity|].
  rewrite tn_feed_app. destruct (tn_feed st s) as [st1 e1]. rewrite IH. reflexivity.
Qed.

Lemma telnet_run c : run_model SVC_TELNET c = reference SVC_TELNET (concat c).
Proof.
  change (run_model SVC_TELNET c) with (tn_run c).
  change (reference SVC_TELNET (concat c)) with (tn_expected (concat c)).
  unfold tn_run, tn_expected. rewrite tn_feed_segs_concat. reflexivity.
Qed.

Lemma telnet_segmentation_invariant c1 c2 : concat c1 = concat c2 -> tn_run c1 = tn_run c2.
Proof. intros E. unfold tn_run. rewrite !tn_feed_segs_concat, E. reflexivity. Qed.

(* plain text lines: bytes >= 32 other than DEL are appended, CR is dropped, LF completes *)
Definition tn_text (b : N) : bool := (32 <=? b)%N && negb (beq b 127%N).
Definition tn_text_or_cr (b : N) : bool := tn_text b || beq b CR.

Lemma tn_key_cr stage line pos : tn_key (mkTn stage line pos) CR = (mkTn stage line pos, []).
Proof. destruct stage; reflexivity. Qed.

Lemma tn_key_text stage line b :
  stage <> TEnd -> tn_text b = true -> length line < TN_MAXLINE ->
  tn_key (mkTn stage line (length line)) b = (mkTn stage (line ++ [b]) (length (line ++ [b])), []).
Proof.
  intros Hs Hb Hl. unfold tn_text in Hb. apply andb_true_iff in Hb as [H32 H127].
  apply negb_true_iff in H127.
  assert (E1 : beq b LF = false) by (unfold beq, LF in *; lia).
  assert (E2 : beq b 4%N = false) by (unfold beq in *; lia).
  assert (E3 : beq b 8%N = false) by (unfold beq in *; lia).
  assert (E4 : beq b 21%N = false) by (unfold beq in *; lia).
  assert (E5 : beq b 1%N = false) by (unfold beq in *; lia).
  assert (E6 : beq b 5%N = false) by (unfold beq in *; lia).
  assert (E7 : beq b 11%N = false) by (unfold beq in *; lia).
  assert (E8 : (length line =? TN_MAXLINE) = false) by (apply Nat.eqb_neq; lia).
  assert (E9 : firstn (length line) line ++ b :: skipn (length line) line = line ++ [b])
    by (rewrite firstn_all, skipn_all; reflexivity).
  assert (E10 : S (length line) = length (line ++ [b])) by (rewrite app_length; cbn [length]; lia).
  destruct stage; try congruence; unfold tn_key; cbn [t_stage t_line t_pos];
    rewrite E1, E2, H127, E3, E4, E5, E6, E7, H32, E8, E9, E10; reflexivity.
Qed.

Lemma tn_feed_text l : forall stage line,
  stage <> TEnd -> forallb tn_text_or_cr l = true ->
  length line + length (filter tn_text l) <= TN_MAXLINE ->
  tn_feed (mkTn stage line (length line)) l =
  (mkTn stage (line ++ filter tn_text l) (length (line ++ filter tn_text l)), []).
Proof.
  induction l as [|b l IH]; intros stage line Hs Hl Hlen; cbn [tn_feed filter forallb] in *.
  - rewrite app_nil_r. reflexivity.
  - apply andb_true_iff in Hl as [Hb Hl]. unfold tn_text_or_cr in Hb.
    destruct (tn_text b) eqn:Et.
    + cbn [length] in Hlen. rewrite (tn_key_text stage line b Hs Et) by lia.
      rewrite (IH stage (line ++ [b]) Hs Hl) by (rewrite app_length; cbn [length]; lia).
      rewrite <- app_assoc. reflexivity.
    + cbn [orb] in Hb. unfold beq in Hb. apply N.eqb_eq in Hb. subst b.
      rewrite tn_key_cr. rewrite (IH stage line Hs Hl Hlen). reflexivity.
Qed.

(* a command line of text ended by LF, in the session stage: exactly one event carrying the
   text with the CRs removed - wherever it is cut *)
Lemma tn_session_line l line :
  forallb tn_text_or_cr l = true -> length line + length (filter tn_text l) <= TN_MAXLINE ->
  tn_feed (mkTn TSess line (length line)) (l ++ [LF]) =
  (mkTn TSess [] 0, [mkEv EV_TN_CMD [line ++ filter tn_text l]]).
Proof.
  intros Hl Hlen. rewrite tn_feed_app. rewrite (tn_feed_text l TSess line) by (congruence || assumption).
  reflexivity.
Qed.

(* ---- snmp ---- *)
Lemma snmp_event_persistent b : persistent (snmp_event b).
Proof. unfold snmp_event. repeat per_step. Qed.

Lemma snmp_datagram d : run_impl SVC_SNMP [d] = expected SVC_SNMP d.
Proof.
  unfold run_impl, expected. change (impl_prog SVC_SNMP (fuel_for (concat [d]))) with (snmp_prog false).
  change (spec_prog SVC_SNMP (fuel_for d)) with (snmp_prog true). unfold snmp_prog.
  apply first_read_of_datagram. exact snmp_event_persistent.
Qed.

(* ---- datagram sequences and the reply limiter ---- *)
(* services that ask the limiter only after they have reported (counterstrike, snmp) or not at
   all (dns): the events of ANY sequence of datagrams from one source are those of the
   datagrams, whatever the token count *)
Lemma udp_seq_independent_st svc :
  svc <> SVC_TFTP -> svc <> SVC_MEMCACHED_UDP ->
  (forall d, run_impl svc [d] = expected svc d) ->
  forall ds t st, udp_seq_st svc t st ds = udp_seq_expected_st svc st ds.
Proof.
  intros H1 H2 Hd.
  assert (B1 : beq svc SVC_TFTP = false) by (unfold beq; apply N.eqb_neq; exact H1).
  assert (B2 : beq svc SVC_MEMCACHED_UDP = false) by (unfold beq; apply N.eqb_neq; exact H2).
  induction ds as [|d r IH]; intros t st; cbn [udp_seq_st udp_seq_expected_st]; [reflexivity|].
  unfold udp_one. rewrite !B1, B2.
  rewrite Hd. destruct (expected svc d) as [es c]. rewrite IH.
  destruct (udp_seq_expected_st svc st r) as [es2 c2]. reflexivity.
Qed.

Lemma udp_seq_independent svc :
  svc <> SVC_TFTP -> svc <> SVC_MEMCACHED_UDP ->
  (forall d, run_impl svc [d] = expected svc d) ->
  forall ds t, udp_seq svc t ds = udp_seq_expected svc ds.
Proof. intros H1 H2 Hd ds t. apply udp_seq_independent_st; assumption. Qed.

(* tftp asks the limiter before it decodes: within the budget every datagram is reported, and
   every finished upload with the filename, mode and content of ITS transfer *)
Lemma tftp_within_budget_st ds : forall t st,
  length ds <= t -> udp_seq_st SVC_TFTP t st ds = udp_seq_expected_st SVC_TFTP st ds.
Proof.
  induction ds as [|d r IH]; intros t st Hl; cbn [udp_seq_st udp_seq_expected_st]; [reflexivity|].
  cbn [length] in Hl. destruct t as [|t']; [lia|].
  change (udp_one SVC_TFTP (S t') st d) with
    (let '(es, c) := seg_obs (tftp_prog false) [d] in
     let '(st', fe) := tftp_transfer st d in (es ++ fe, c, t', st')).
  change (beq SVC_TFTP SVC_TFTP) with true. cbv beta iota.
  pose proof (tftp_datagram d) as Hd. unfold run_impl in Hd.
  change (impl_prog SVC_TFTP (fuel_for (concat [d]))) with (tftp_prog false) in Hd. rewrite Hd.
  destruct (expected SVC_TFTP d) as [es c]. destruct (tftp_transfer st d) as [st' fe].
  rewrite IH by lia. destruct (udp_seq_expected_st SVC_TFTP st' r) as [es2 c2].
  rewrite <- app_assoc. reflexivity.
Qed.

Lemma tftp_within_budget ds : forall t, length ds <= t -> udp_seq SVC_TFTP t ds = udp_seq_expected SVC_TFTP ds.
Proof. intros t H. apply tftp_within_budget_st. exact H. Qed.

(* an upload is reported with the name and mode of ITS write request: a second WRQ replaces
   the open upload, whatever was received before *)
Lemma tftp_wrq_replaces st fname mode rest r2 tail :
  split_delim 0%N rest = Some (fname, r2) -> split_delim 0%N r2 = Some (mode, tail) ->
  forall a, tftp_transfer st (a :: 2%N :: rest) = (Some (fname, mode, []), []).
Proof. intros H1 H2 a. unfold tftp_transfer. change (beq 2%N 2%N) with true. cbv beta iota. rewrite H1, H2. reflexivity. Qed.

(* the last (short) DATA block reports exactly what the open upload holds plus this block *)
Lemma tftp_last_block fname mode content a blk data :
  length data < 512 -> length blk = 2 ->
  tftp_transfer (Some (fname, mode, content)) (a :: 3%N :: blk ++ data) =
  (None, [mkEv EV_TFTP_FILE [fname; mode; content ++ data]]).
Proof.
  intros Hd Hb. unfold tftp_transfer. change (beq 3%N 2%N) with false. change (beq 3%N 3%N) with true.
  cbv beta iota. destruct blk as [|b1 [|b2 [|x r]]]; cbn [length] in Hb; try lia.
  cbn [app skipn]. rewrite firstn_all2 by lia.
  assert (E : (length data =? 512) = false) by (apply Nat.eqb_neq; lia). rewrite E. reflexivity.
Qed.

(* ... and beyond it nothing is: five read requests from one source, four events *)
Definition W_RRQ (k : N) : bytes := [0; 1; 102; 48 + k; 0; 111; 99; 116; 101; 116; 0]%N.
Lemma tftp_limiter_refuted :
  let ds := [W_RRQ 1; W_RRQ 2; W_RRQ 3; W_RRQ 4; W_RRQ 5] in
  length (fst (udp_seq SVC_TFTP LIMITER_BURST ds)) = 4 /\ length (fst (udp_seq_expected SVC_TFTP ds)) = 5.
Proof. vm_compute. split; reflexivity. Qed.

(* memcached asks after every command event and stops at a refusal: the further commands of a
   datagram over the budget are not reported *)
Definition W_MC_UDP : bytes := [0;1;0;0;0;1;0;0]%N ++ [103;101;116;32;97;13;10;103;101;116;32;98;13;10]%N.
Lemma memcached_limiter_refuted :
  length (fst (udp_seq SVC_MEMCACHED_UDP LIMITER_BURST [W_MC_UDP; W_MC_UDP; W_MC_UDP])) = 5 /\
  length (fst (udp_seq_expected SVC_MEMCACHED_UDP [W_MC_UDP; W_MC_UDP; W_MC_UDP])) = 6.
Proof. vm_compute. split; reflexivity. Qed.

(* ------------------------------------------------------------------ *)
(* the property at full strength                                       *)
(* ------------------------------------------------------------------ *)
(* stream services: every segmentation of every stream *)
Definition C04_full (svc : N) : Prop := forall segs, run_impl svc segs = expected svc (concat segs).
(* datagram services: the connection IS one datagram (listener.DummyUDPConn) *)
Definition C04_full_datagram (svc : N) : Prop := forall d, run_impl svc [d] = expected svc d.

Lemma persistent_reads_the_stream p segs :
  persistent p -> seg_obs p segs = str_obs p (concat segs) /\ seg_dropped p segs = [].
Proof. intros H. split; [exact (persistent_obs p segs H)|exact (persistent_nothing_dropped p segs H)]. Qed.

(* regression witness of the defect repaired by a828b58: a transaction abandoned WITHOUT RSET
   (here by an empty line and an unknown command) no longer leaks its chunk into the next mail;
   the former reading (clean = false) reported subject "old,new" *)
Definition W_SMTP_STALE : bytes := [72;69;76;79;32;99;13;10;77;65;73;76;32;70;82;79;77;58;60;97;64;98;62;13;10;66;68;65;84;32;49;52;13;10;83;117;98;106;101;99;116;58;32;111;108;100;13;10;13;10;78;79;79;80;13;10;77;65;73;76;32;70;82;79;77;58;60;97;64;98;62;13;10;66;68;65;84;32;49;56;32;76;65;83;84;13;10;83;117;98;106;101;99;116;58;32;110;101;119;13;10;13;10;104;105;13;10]%N.
Definition mail_events (es : list event) : list event := filter (fun e => beq (ev_ty e) EV_SMTP_MAIL) es.
