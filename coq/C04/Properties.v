(* C04 - property theorems. *)
From HT Require Import Common.Bytes C04.Model C04.Check C04.Proofs.
Open Scope nat_scope.
