(* C04 - property theorems.  A connection is the list of the client's writes (segments);
   [run_impl svc segs] are the events the modelled code sends and how Handle ends,
   [expected svc stream] the reference reading of the byte stream.
     C04_full svc          := forall segs, run_impl svc segs = expected svc (concat segs)
     C04_full_datagram svc := forall d, run_impl svc [d] = expected svc d      (Proofs.v)
   After the repairs 557c6c5, 3944024, 9bf6a1f, 4b4eb8c the full property holds for every
   modelled service; cwmp (outside the pipelining quantifier) still creates one reader per
   request and is covered by C04_outside_read_and_reader_loss only. *)
From HT Require Import Common.Bytes C04.Model C04.Check C04.Proofs.
Open Scope nat_scope.

(* ---- the reader library: requests on a persistent reader are functions of the pending stream ---- *)
Theorem C04_read_until_depends_on_stream_only : forall d r,
  let '(res, r') := r_until d r in s_until d (pending r) = (res, pending r').
Proof. exact r_until_spec. Qed.

Theorem C04_take_depends_on_stream_only : forall n r,
  let '(x, r') := r_take n r in x = firstn n (pending r) /\ pending r' = skipn n (pending r).
Proof. exact r_take_spec. Qed.

(* a Read never loses or reorders bytes - but how many it returns follows the segments *)
Theorem C04_read_returns_a_prefix : forall n r,
  let '(b, r') := r_read n r in b ++ pending r' = pending r /\ length b <= n.
Proof. exact r_read_inv. Qed.

(* generic: a service that keeps ONE reader and only asks it for delimited lines and exact
   byte counts reports the same events for every segmentation of the same stream *)
Theorem C04_persistent_reader_segmentation_invariant : forall p s1 s2,
  persistent p -> concat s1 = concat s2 -> seg_obs p s1 = seg_obs p s2.
Proof. exact persistent_segmentation_invariant. Qed.

Theorem C04_persistent_reader_reads_the_stream : forall p segs,
  persistent p -> seg_obs p segs = str_obs p (concat segs) /\ seg_dropped p segs = [].
Proof. exact persistent_reads_the_stream. Qed.

(* general form for programs with Reads and per-request readers (cwmp): if the reference run
   never needed a buffer-sensitive Read and no reader was dropped while it held bytes, the
   events are the reference reading - whatever the segmentation *)
Theorem C04_outside_read_and_reader_loss : forall p segs,
  str_clean p (concat segs) = true -> seg_dropped p segs = [] ->
  seg_obs p segs = str_obs p (concat segs).
Proof. exact clean_lossless_obs. Qed.

(* ---- stream services: full property, all segmentations, pipelined or lock-step ---- *)
Theorem C04_ftp_full : C04_full SVC_FTP.
Proof. exact ftp_run. Qed.

(* smtp: the code's events are a function of the byte stream (one persistent reader) for both
   readings of MAIL FROM; the reference reading starts every mail with an empty chunk buffer *)
Theorem C04_smtp_persistent : forall clean fuel st i buf, persistent (smtp_prog clean fuel st i buf).
Proof. exact smtp_persistent. Qed.

Theorem C04_smtp_full : C04_full SVC_SMTP.
Proof. exact smtp_run. Qed.

(* mail accumulation, for every continuation of the dialogue: RSET empties the buffer, a BDAT
   chunk appends exactly its bytes, BDAT LAST reports buffer ++ chunk and empties the buffer,
   MAIL FROM opens with an empty buffer in the reference reading *)
Theorem C04_smtp_rset_empties_the_buffer : forall clean self df i buf line,
  line <> [] -> is_command line s_RSET = true ->
  smtp_step clean self df SMail i buf line = self SLoop i [].
Proof. exact smtp_rset_in_transaction. Qed.

Theorem C04_smtp_bdat_chunk_appends : forall clean self df i buf line w cnt count,
  line <> [] -> is_command line s_RSET = false -> is_command line s_RCPTTO = false ->
  is_command line s_BDAT = true -> split_on SP line = [w; cnt] -> parse_int 32 cnt = Some count ->
  smtp_step clean self df SMail i buf line =
  PTake (Z.to_nat count) (fun chunk =>
    if length chunk <? Z.to_nat count then PDone 0 else self SMail i (buf ++ chunk)).
Proof. exact smtp_bdat_chunk. Qed.

Theorem C04_smtp_bdat_last_reports_the_buffer : forall clean self df i buf line w cnt count,
  line <> [] -> is_command line s_RSET = false -> is_command line s_RCPTTO = false ->
  is_command line s_BDAT = true -> split_on SP line = [w; cnt; s_LAST] -> parse_int 32 cnt = Some count ->
  smtp_step clean self df SMail i buf line =
  PTake (Z.to_nat count) (fun chunk =>
    if length chunk <? Z.to_nat count then PDone 0
    else match mail_parse (buf ++ chunk) with
         | None => PDone 0
         | Some m => PEmit (mail_event m) (self SLoop i [])
         end).
Proof. exact smtp_bdat_last. Qed.

Theorem C04_smtp_mail_from : forall clean self df i buf line,
  line <> [] -> (LOOP_TRESHOLD <? S i) = false -> is_command line s_MAILFROM = true ->
  smtp_step clean self df SLoop i buf line = self SMail (S i) (if clean then [] else buf).
Proof. exact smtp_mail_from. Qed.

(* the reading before a828b58 (clean = false) differed from the code only at MAIL FROM with a
   non-empty buffer *)
Theorem C04_smtp_code_is_reference_elsewhere : forall self df st i buf line,
  (st = SLoop -> is_command line s_MAILFROM = true -> buf = []) ->
  smtp_step false self df st i buf line = smtp_step true self df st i buf line.
Proof. exact smtp_code_is_reference_step. Qed.

Theorem C04_redis_full : C04_full SVC_REDIS.
Proof. exact redis_run. Qed.


(* redis: the RESP reader as a function of the stream - any sequence of well-formed commands
   ("*n" + n bulk strings, n >= 1; every argument an arbitrary LF-free byte string, the EMPTY
   string included; the declared bulk lengths are not even consulted by the code) is read as
   exactly one event per command, in order, and nothing else, given fuel for it *)
Theorem C04_redis_commands_parsed_exactly : forall cs f,
  Forall wf_cmd cs ->
  str_obs (redis_prog (cmds_cost cs + S f) []) (concat (map enc_cmd cs)) = (map cmd_event cs, 0%N).
Proof. exact redis_commands. Qed.

(* incl. storage commands and their data blocks *)
Theorem C04_memcached_full : C04_full SVC_MEMCACHED.
Proof. exact memcached_run. Qed.

(* incl. pipelined requests and bodies split anywhere *)
Theorem C04_http_full : C04_full SVC_HTTP.
Proof. exact http_run. Qed.

Theorem C04_docker_full : C04_full SVC_DOCKER.
Proof. exact docker_run. Qed.

Theorem C04_elasticsearch_full : C04_full SVC_ELASTIC.
Proof. exact elastic_run. Qed.

Theorem C04_eos_full : C04_full SVC_EOS.
Proof. exact eos_run. Qed.

Theorem C04_ethereum_full : C04_full SVC_ETHEREUM.
Proof. exact ethereum_run. Qed.

(* the programs behind these statements are persistent-reader programs *)
Theorem C04_memcached_persistent : forall fuel lim, persistent (memcached_prog lim fuel).
Proof. exact memcached_persistent. Qed.

Theorem C04_http_persistent : forall cfg fuel, persistent (http_prog cfg false fuel).
Proof. exact http_persistent. Qed.

(* ftp spelled out: exactly one event per complete line, in the order sent, up to QUIT;
   the lines partition the stream; the fuel of run_impl/expected is never exhausted *)
Theorem C04_ftp_one_event_per_line_in_order : forall fuel s,
  fst (str_obs (ftp_prog fuel) s) = ftp_events (lines_f fuel s).
Proof. exact ftp_events_spec. Qed.

Theorem C04_ftp_lines_partition_the_stream : forall fuel s, length s < fuel ->
  exists tail, s = concat (lines_f fuel s) ++ tail /\ split_delim LF tail = None.
Proof. exact lines_f_partition. Qed.

Theorem C04_ftp_fuel_suffices : forall fuel s, length s < fuel -> snd (str_obs (ftp_prog fuel) s) = 0%N.
Proof. exact ftp_fuel_enough. Qed.


(* ---- ldap: BER envelope framing through one reader; one event per complete message ---- *)
Theorem C04_ldap_full : C04_full SVC_LDAP.
Proof. exact ldap_run. Qed.

Theorem C04_ldap_persistent : forall fuel, persistent (ldap_prog fuel).
Proof. exact ldap_persistent. Qed.

(* ---- telnet: the terminal's own reader - key decoder, remainder buffer, line discipline ---- *)
(* The decoder with the remainder, for ALL byte strings: decoding a ++ x is decoding a, keeping
   what is not decodable yet (an incomplete UTF-8 character, an unfinished escape sequence),
   and decoding remainder ++ x. *)
Theorem C04_telnet_decoder_resumes_from_remainder : forall a x st,
  tn_dec false st (a ++ x) =
  let '(st1, e1, r1) := tn_dec false st a in
  let '(st2, e2, r2) := tn_dec false st1 (r1 ++ x) in (st2, e1 ++ e2, r2).
Proof. intros a x st. exact (tn_dec_app (S (length a)) a (Nat.lt_succ_diag_r _) st x). Qed.

(* ... and so, for ALL byte streams and ALL cut lists (induction over the reads of a segment and
   over the segments): reading the segments Read after Read (at most 256 - |remainder| bytes
   each) with the remainder carried over gives the state, events and remainder of the whole
   stream *)
Theorem C04_telnet_decoder_segmentation_independent : forall segs st rem,
  tn_waiting st rem -> tn_conn false st rem segs = tn_dec false st (rem ++ concat segs).
Proof. exact telnet_decoder_segments. Qed.

(* incomplete UTF-8 prefixes, explicitly: a valid multi-byte character cut at ANY position
   inside is kept whole in the remainder (no byte of it is consumed) ... *)
Theorem C04_telnet_incomplete_character_is_kept : forall paste c n,
  u8_head c = U8Rune (length c) -> 0 < n < length c -> next_key paste (firstn n c) = NMore.
Proof. exact next_key_prefix_kept. Qed.

(* ... and a complete character is one key carrying exactly its bytes, whatever follows *)
Theorem C04_telnet_complete_character_is_one_key : forall c x,
  tn_char c = true -> next_key false (c ++ x) = NKey (KRune c) x.
Proof. exact next_key_char. Qed.

(* the code (1a2f0db): its events are the reference reading for EVERY segmentation of EVERY byte
   stream - undecodable bytes included (they are skipped where they stand) *)
Theorem C04_telnet_full : forall segs, run_model SVC_TELNET segs = reference SVC_TELNET (concat segs).
Proof. exact telnet_run. Qed.

Theorem C04_telnet_segmentation_invariant : forall s1 s2, concat s1 = concat s2 -> tn_run s1 = tn_run s2.
Proof. exact telnet_segmentation_invariant. Qed.

(* About the code BEFORE 1a2f0db only (tn_run_before_1a2f0db, the definition behind signature
   telnet-undecodable-byte-postpones-input): behind an undecodable byte the input waited for the
   next Read to return - 'abc\xffdef' + CR LF + 'id' + CR LF in one write was never reported,
   in two writes it was; on streams without an undecodable byte it was the reference reading *)
Definition tn_witness : bytes :=
  [114;111;111;116;13;10;115;101;99;114;101;116;13;10;97;98;99;255;100;101;102;13;10;105;100;13;10]%N.
Theorem C04_telnet_before_1a2f0db_undecodable_byte_refuted :
  exists segs1 segs2, concat segs1 = concat segs2 /\
    tn_run_before_1a2f0db segs1 <> tn_run_before_1a2f0db segs2 /\
    tn_run_before_1a2f0db segs1 <> reference SVC_TELNET (concat segs1) /\
    tn_run segs1 = tn_run segs2.
Proof.
  exists [tn_witness], [firstn 18 tn_witness; skipn 18 tn_witness].
  split; [reflexivity|]. split; [vm_compute; discriminate|]. split; [vm_compute; discriminate|].
  vm_compute. reflexivity.
Qed.

Theorem C04_telnet_before_1a2f0db_full_on_decodable : forall segs,
  tn_decodable (concat segs) = true -> tn_run_before_1a2f0db segs = reference SVC_TELNET (concat segs).
Proof. exact telnet_run_before_1a2f0db. Qed.

(* a command of characters (valid UTF-8 of any length, not U+FFFD, no control characters, no
   DEL) with CRs anywhere, ended by LF: exactly one session event carrying exactly the
   characters' bytes - by C04_telnet_full wherever the stream is cut *)
Theorem C04_telnet_text_line_one_event : forall cs line pasted bad,
  forallb tn_char_or_cr cs = true -> length line + length (filter tn_char cs) <= TN_MAXLINE ->
  tn_dec false (mkTn TSess line (length line) false pasted bad) (concat cs ++ [LF]) =
  (mkTn TSess [] 0 false false bad, [mkEv EV_TN_CMD [concat (line ++ filter tn_char cs)]], []).
Proof. exact tn_session_line. Qed.

(* ---- datagram services: each datagram is decoded and reported on its own, whatever its length ---- *)
Theorem C04_tftp_each_datagram : C04_full_datagram SVC_TFTP.
Proof. exact tftp_datagram. Qed.

Theorem C04_counterstrike_each_datagram : C04_full_datagram SVC_CS.
Proof. exact cs_datagram. Qed.

Theorem C04_memcached_udp_each_datagram : C04_full_datagram SVC_MEMCACHED_UDP.
Proof. exact memcached_udp_datagram. Qed.

Theorem C04_dns_each_datagram : C04_full_datagram SVC_DNS.
Proof. exact dns_datagram. Qed.


Theorem C04_snmp_each_datagram : C04_full_datagram SVC_SNMP.
Proof. exact snmp_datagram. Qed.

(* ---- the reply limiter must not decide what is reported: sequences from ONE source ---- *)
(* counterstrike, snmp (limiter asked after the report) and dns (no limiter): for ALL datagram
   sequences and ALL token counts the events are those of the datagrams *)
Theorem C04_reports_independent_of_limiter : forall svc,
  svc <> SVC_TFTP -> svc <> SVC_MEMCACHED_UDP ->
  (forall d, run_impl svc [d] = expected svc d) ->
  forall ds t, udp_seq svc t ds = udp_seq_expected svc ds.
Proof. exact udp_seq_independent. Qed.

(* tftp asks the limiter BEFORE decoding: every datagram within the budget is reported ... *)
Theorem C04_tftp_within_budget : forall ds t,
  length ds <= t -> udp_seq SVC_TFTP t ds = udp_seq_expected SVC_TFTP ds.
Proof. exact tftp_within_budget. Qed.


(* tftp uploads (multi-datagram): a write request replaces whatever upload was open for the
   source, and the last block reports the upload's OWN filename, mode and content *)
Theorem C04_tftp_wrq_opens_a_new_upload : forall st fname mode rest r2 tail,
  split_delim 0%N rest = Some (fname, r2) -> split_delim 0%N r2 = Some (mode, tail) ->
  forall a, tftp_transfer st (a :: 2%N :: rest) = (Some (fname, mode, []), []).
Proof. exact tftp_wrq_replaces. Qed.

Theorem C04_tftp_last_block_reports_its_upload : forall fname mode content a blk data,
  length data < 512 -> length blk = 2 ->
  tftp_transfer (Some (fname, mode, content)) (a :: 3%N :: blk ++ data) =
  (None, [mkEv EV_TFTP_FILE [fname; mode; content ++ data]]).
Proof. exact tftp_last_block. Qed.

(* ... and beyond it none is (defect); memcached stops reporting inside a datagram (defect) *)
Theorem C04_tftp_limiter_refuted :
  let ds := [W_RRQ 1; W_RRQ 2; W_RRQ 3; W_RRQ 4; W_RRQ 5] in
  length (fst (udp_seq SVC_TFTP LIMITER_BURST ds)) = 4 /\ length (fst (udp_seq_expected SVC_TFTP ds)) = 5.
Proof. exact tftp_limiter_refuted. Qed.

Theorem C04_memcached_limiter_refuted :
  length (fst (udp_seq SVC_MEMCACHED_UDP LIMITER_BURST [W_MC_UDP; W_MC_UDP; W_MC_UDP])) = 5 /\
  length (fst (udp_seq_expected SVC_MEMCACHED_UDP [W_MC_UDP; W_MC_UDP; W_MC_UDP])) = 6.
Proof. exact memcached_limiter_refuted. Qed.

(* chunked request bodies are read through the same persistent reader (C04_http_persistent
   covers them): the decoder itself only asks for lines and exact counts *)
Theorem C04_chunked_body_persistent : forall fuel acc k,
  (forall r, persistent (k r)) -> persistent (chunk_body fuel acc k).
Proof. exact chunk_body_persistent. Qed.

(* ---- non-vacuity: the former defect witnesses now read correctly in every segmentation shown ---- *)
Example C04_ftp_nonvacuous :
  run_impl SVC_FTP [[85;83;69;82;32;97;13;10;83;89]%N; [83;84;13;10;81;85;73;84;13;10;78;79;79;80;13;10]%N] =
  ([mkEv EV_FTP [[85;83;69;82;32;97]%N]; mkEv EV_FTP [[83;89;83;84]%N]; mkEv EV_FTP [[81;85;73;84]%N]], 0%N).
Proof. vm_compute. reflexivity. Qed.

Example C04_smtp_nonvacuous :
  fst (run_impl SVC_SMTP [firstn 30 [69;72;76;79;32;99;13;10;77;65;73;76;32;70;82;79;77;58;60;97;64;98;62;13;10;68;65;84;65;13;10;83;117;98;106;101;99;116;58;32;115;13;10;13;10;46;46;120;13;10;46;13;10;81;85;73;84;13;10]%N; skipn 30 [69;72;76;79;32;99;13;10;77;65;73;76;32;70;82;79;77;58;60;97;64;98;62;13;10;68;65;84;65;13;10;83;117;98;106;101;99;116;58;32;115;13;10;13;10;46;46;120;13;10;46;13;10;81;85;73;84;13;10]%N]) =
  [mkEv EV_SMTP_LINE [[69;72;76;79;32;99]%N]; mkEv EV_SMTP_LINE [[77;65;73;76;32;70;82;79;77;58;60;97;64;98;62]%N]; mkEv EV_SMTP_LINE [[68;65;84;65]%N];
   mkEv EV_SMTP_MAIL [[46;120]%N ++ [10]%N; [115]%N]; mkEv EV_SMTP_LINE [[81;85;73;84]%N]].
Proof. vm_compute. reflexivity. Qed.

Example C04_memcached_nonvacuous :
  let s := [115;101;116;32;107;32;48;32;48;32;51;13;10;97;98;99;13;10;103;101;116;32;107;13;10]%N in
  fst (run_impl SVC_MEMCACHED [s]) = fst (run_impl SVC_MEMCACHED [firstn 16 s; skipn 16 s]) /\
  fst (run_impl SVC_MEMCACHED [s]) =
  [mkEv EV_MC_CMD [[115;101;116;32;107;32;48;32;48;32;51]%N];
   mkEv EV_MC_STORE [[115;101;116]%N; [107]%N; [48]%N; [48]%N; [51]%N; [97;98;99]%N];
   mkEv EV_MC_CMD [[103;101;116;32;107]%N]].
Proof. vm_compute. split; reflexivity. Qed.

Example C04_http_nonvacuous :
  let a := [71;69;84;32;47;97;32;72;84;84;80;47;49;46;49;13;10;72;111;115;116;58;32;104;13;10;13;10]%N in let b := [71;69;84;32;47;98;32;72;84;84;80;47;49;46;49;13;10;72;111;115;116;58;32;104;13;10;13;10]%N in let p := [80;79;83;84;32;47;112;32;72;84;84;80;47;49;46;49;13;10;72;111;115;116;58;32;104;13;10;67;111;110;116;101;110;116;45;76;101;110;103;116;104;58;32;54;13;10;13;10;97;98;99;100;101;102]%N in
  length (fst (run_impl SVC_HTTP [a ++ b])) = 2 /\ length (fst (run_impl SVC_HTTP [a; b])) = 2 /\
  fst (run_impl SVC_HTTP [firstn 51 p; skipn 51 p]) =
  [mkEv EV_HTTP [[80;79;83;84]%N; [47;112]%N; [104]%N; [97;98;99;100;101;102]%N]].
Proof. vm_compute. repeat split; reflexivity. Qed.

Example C04_dns_nonvacuous :
  run_impl SVC_DNS [[18;52;1;0;0;1;0;0;0;0;0;0;1;120;0;0;1;0;1]%N] = ([mkEv EV_DNS [[52;54;54;48]%N]], 0%N).
Proof. vm_compute. reflexivity. Qed.


(* "root", "s", "café €😀" - cut inside é (after its lead byte), inside € and inside 😀 *)
Example C04_telnet_nonvacuous :
  let s := [114;111;111;116;13;10;115;13;10;99;97;102;195;169;32;226;130;172;240;159;152;128;13;10]%N in
  tn_decodable s = true /\
  tn_run [firstn 13 s; skipn 13 s] = tn_run [s] /\
  tn_run [firstn 17 s; firstn 3 (skipn 17 s); skipn 20 s] = tn_run [s] /\
  fst (tn_run [firstn 13 s; skipn 13 s]) =
  [mkEv EV_TN_CONNECT []; mkEv EV_TN_AUTH [[114;111;111;116]%N; [115]%N];
   mkEv EV_TN_CMD [[99;97;102;195;169;32;226;130;172;240;159;152;128]%N]] /\
  next_key false [195]%N = NMore /\ next_key false [240;159;152]%N = NMore /\
  tn_waiting (mkTn TSess [] 0 false false false) [226;130]%N /\
  forallb tn_char_or_cr [[99]; [195;169]; [13]; [226;130;172]; [240;159;152;128]]%N = true /\
  tn_decodable tn_witness = false /\
  fst (tn_run [tn_witness]) =
  [mkEv EV_TN_CONNECT []; mkEv EV_TN_AUTH [[114;111;111;116]%N; [115;101;99;114;101;116]%N];
   mkEv EV_TN_CMD [[97;98;99;100;101;102]%N]; mkEv EV_TN_CMD [[105;100]%N]].
Proof. vm_compute. repeat split; try reflexivity. right. reflexivity. Qed.

Example C04_ldap_nonvacuous :
  let s := [48;6;2;1;3;80;1;2]%N ++ [48;5;2;1;4;66;0]%N in
  fst (run_impl SVC_LDAP [firstn 3 s; skipn 3 s]) =
  [mkEv EV_LDAP [[51]%N; [97;98;97;110;100;111;110]%N]; mkEv EV_LDAP [[52]%N; [117;110;98;105;110;100]%N]].
Proof. vm_compute. reflexivity. Qed.


Example C04_redis_wf_nonvacuous :
  wf_cmd ([51]%N, [([51]%N, [83;69;84]%N); ([48]%N, (@nil N)); ([49]%N, [118]%N)]) /\
  enc_cmd ([51]%N, [([51]%N, [83;69;84]%N); ([48]%N, (@nil N)); ([49]%N, [118]%N)]) = [42;51;13;10;36;51;13;10;83;69;84;13;10;36;48;13;10;13;10;36;49;13;10;118;13;10]%N.
Proof.
  split; [|reflexivity]. unfold wf_cmd, wf_arg, line_ok. cbn [fst snd].
  repeat (first [split | constructor | (eexists; reflexivity) | discriminate | reflexivity | (vm_compute; discriminate)]).
Qed.


Example C04_smtp_abandoned_transaction_regression :
  mail_events (fst (run_impl SVC_SMTP [W_SMTP_STALE])) = [mkEv EV_SMTP_MAIL [[104;105]%N; [110;101;119]%N]] /\
  mail_events (fst (seg_obs (smtp_prog false (fuel_for W_SMTP_STALE) SHello 0 []) [W_SMTP_STALE])) =
  [mkEv EV_SMTP_MAIL [[104;105]%N; [111;108;100;44;110;101;119]%N]].
Proof. vm_compute. split; reflexivity. Qed.

Print Assumptions C04_read_until_depends_on_stream_only.
Print Assumptions C04_take_depends_on_stream_only.
Print Assumptions C04_read_returns_a_prefix.
Print Assumptions C04_persistent_reader_segmentation_invariant.
Print Assumptions C04_persistent_reader_reads_the_stream.
Print Assumptions C04_outside_read_and_reader_loss.
Print Assumptions C04_ftp_full.
Print Assumptions C04_smtp_persistent.
Print Assumptions C04_smtp_full.
Print Assumptions C04_smtp_rset_empties_the_buffer.
Print Assumptions C04_smtp_bdat_chunk_appends.
Print Assumptions C04_smtp_bdat_last_reports_the_buffer.
Print Assumptions C04_smtp_mail_from.
Print Assumptions C04_smtp_code_is_reference_elsewhere.
Print Assumptions C04_redis_full.
Print Assumptions C04_memcached_full.
Print Assumptions C04_http_full.
Print Assumptions C04_docker_full.
Print Assumptions C04_elasticsearch_full.
Print Assumptions C04_eos_full.
Print Assumptions C04_ethereum_full.
Print Assumptions C04_memcached_persistent.
Print Assumptions C04_http_persistent.
Print Assumptions C04_ftp_one_event_per_line_in_order.
Print Assumptions C04_ftp_lines_partition_the_stream.
Print Assumptions C04_ftp_fuel_suffices.
Print Assumptions C04_tftp_each_datagram.
Print Assumptions C04_counterstrike_each_datagram.
Print Assumptions C04_memcached_udp_each_datagram.
Print Assumptions C04_dns_each_datagram.
Print Assumptions C04_ldap_full.
Print Assumptions C04_ldap_persistent.
Print Assumptions C04_telnet_decoder_resumes_from_remainder.
Print Assumptions C04_telnet_decoder_segmentation_independent.
Print Assumptions C04_telnet_incomplete_character_is_kept.
Print Assumptions C04_telnet_complete_character_is_one_key.
Print Assumptions C04_telnet_full.
Print Assumptions C04_telnet_segmentation_invariant.
Print Assumptions C04_telnet_before_1a2f0db_undecodable_byte_refuted.
Print Assumptions C04_telnet_before_1a2f0db_full_on_decodable.
Print Assumptions C04_telnet_text_line_one_event.
Print Assumptions C04_redis_commands_parsed_exactly.
Print Assumptions C04_snmp_each_datagram.
Print Assumptions C04_reports_independent_of_limiter.
Print Assumptions C04_tftp_within_budget.
Print Assumptions C04_tftp_limiter_refuted.
Print Assumptions C04_memcached_limiter_refuted.
Print Assumptions C04_chunked_body_persistent.
Print Assumptions C04_tftp_wrq_opens_a_new_upload.
Print Assumptions C04_tftp_last_block_reports_its_upload.
