(* C04 - property theorems.  A connection is the list of the client's writes (segments);
   [run_impl svc segs] are the events the modelled code sends and how Handle ends,
   [expected svc stream] the reference reading of the byte stream.
   C04_full is the property at full strength; it holds for the services with one persistent
   reader and is refuted, with witnesses, for memcached storage commands, http pipelining,
   http bodies and dns over UDP - outside those classes it is proved again. *)
From HT Require Import Common.Bytes C04.Model C04.Check C04.Proofs.
Open Scope nat_scope.

(* C04_full svc := forall segs, run_impl svc segs = expected svc (concat segs)   (Proofs.v) *)

(* ---- the reader library: requests on a persistent reader are functions of the pending stream ---- *)
Theorem C04_read_until_depends_on_stream_only : forall d r,
  let '(res, r') := r_until d r in s_until d (pending r) = (res, pending r').
Proof. exact r_until_spec. Qed.

Theorem C04_take_depends_on_stream_only : forall n r,
  let '(x, r') := r_take n r in x = firstn n (pending r) /\ pending r' = skipn n (pending r).
Proof. exact r_take_spec. Qed.

(* a Read never loses or reorders bytes - but how many it returns follows the segments *)
Theorem C04_read_returns_a_prefix : forall n r,
  let '(b, r') := r_read n r in b ++ pending r' = pending r /\ length b <= n.
Proof. exact r_read_inv. Qed.

(* generic: a service that keeps ONE reader and only asks it for delimited lines and exact
   byte counts reports the same events for every segmentation of the same stream *)
Theorem C04_persistent_reader_segmentation_invariant : forall p s1 s2,
  persistent p -> concat s1 = concat s2 -> seg_obs p s1 = seg_obs p s2.
Proof. exact persistent_segmentation_invariant. Qed.

Theorem C04_persistent_reader_reads_the_stream : forall p segs,
  persistent p -> seg_obs p segs = str_obs p (concat segs) /\ seg_dropped p segs = [].
Proof. exact persistent_reads_the_stream. Qed.

(* general form for services with Reads and per-request readers: if the reference run never
   needed a buffer-sensitive Read and no reader was dropped while it held bytes, the events
   are the reference reading - whatever the segmentation *)
Theorem C04_outside_read_and_reader_loss : forall p segs,
  str_clean p (concat segs) = true -> seg_dropped p segs = [] ->
  seg_obs p segs = str_obs p (concat segs).
Proof. exact clean_lossless_obs. Qed.

(* ---- services with one persistent reader: full property, all segmentations, pipelined or not ---- *)
Theorem C04_ftp_full : C04_full SVC_FTP.
Proof. exact ftp_run. Qed.

Theorem C04_smtp_full : C04_full SVC_SMTP.
Proof. exact smtp_run. Qed.

Theorem C04_redis_full : C04_full SVC_REDIS.
Proof. exact redis_run. Qed.

Theorem C04_eos_full : C04_full SVC_EOS.
Proof. exact eos_run. Qed.

Theorem C04_ethereum_full : C04_full SVC_ETHEREUM.
Proof. exact ethereum_run. Qed.

(* ftp spelled out: exactly one event per complete line, in the order sent, up to QUIT;
   the lines partition the stream; the fuel of run_impl/expected is never exhausted *)
Theorem C04_ftp_one_event_per_line_in_order : forall fuel s,
  fst (str_obs (ftp_prog fuel) s) = ftp_events (lines_f fuel s).
Proof. exact ftp_events_spec. Qed.

Theorem C04_ftp_lines_partition_the_stream : forall fuel s, length s < fuel ->
  exists tail, s = concat (lines_f fuel s) ++ tail /\ split_delim LF tail = None.
Proof. exact lines_f_partition. Qed.

Theorem C04_ftp_fuel_suffices : forall fuel s, length s < fuel -> snd (str_obs (ftp_prog fuel) s) = 0%N.
Proof. exact ftp_fuel_enough. Qed.

(* the reference readings used for memcached and the http family are themselves
   segmentation independent (they are persistent-reader programs) *)
Theorem C04_reference_memcached_persistent : forall udp fuel, persistent (memcached_prog true udp fuel).
Proof. exact memcached_ideal_persistent. Qed.

Theorem C04_reference_http_persistent : forall cfg fuel, persistent (http_prog cfg MODE_REF fuel).
Proof. exact http_ideal_persistent. Qed.

(* ---- datagram services: each datagram is decoded on its own, whatever its length ---- *)
Theorem C04_tftp_each_datagram : forall d, run_impl SVC_TFTP [d] = expected SVC_TFTP d.
Proof. exact tftp_datagram. Qed.

Theorem C04_counterstrike_each_datagram : forall d, run_impl SVC_CS [d] = expected SVC_CS d.
Proof. exact cs_datagram. Qed.

(* ---- defects of the code, with witnesses ---- *)

(* memcached storage command: two segmentations of one stream, different events *)
Theorem C04_memcached_storage_refuted :
  exists s1 s2, concat s1 = concat s2 /\ run_impl SVC_MEMCACHED s1 <> run_impl SVC_MEMCACHED s2 /\
                run_impl SVC_MEMCACHED s1 <> expected SVC_MEMCACHED (concat s1) /\
                run_impl SVC_MEMCACHED s2 <> expected SVC_MEMCACHED (concat s2).
Proof. exact memcached_storage_refuted. Qed.

(* http: two requests in one write give one event, in two writes two events *)
Theorem C04_http_pipelined_refuted :
  exists s1 s2, concat s1 = concat s2 /\
    length (fst (run_impl SVC_HTTP s1)) = 1 /\ length (fst (run_impl SVC_HTTP s2)) = 2 /\
    length (fst (expected SVC_HTTP (concat s1))) = 2 /\ seg_dropped (impl_prog SVC_HTTP (fuel_for (concat s1))) s1 = W_GET_B.
Proof. exact http_pipelined_refuted. Qed.

(* http: the recorded payload is the first Read of the body *)
Theorem C04_http_body_refuted :
  exists s1 s2, concat s1 = concat s2 /\ run_impl SVC_HTTP s1 <> run_impl SVC_HTTP s2 /\
                run_impl SVC_HTTP s1 = expected SVC_HTTP (concat s1).
Proof. exact http_body_refuted. Qed.

(* dns: behind the server's timeout wrapper nothing is reported, for any datagram;
   on the bare datagram connection the query would be *)
Theorem C04_dns_behind_wrapper_silent : forall segs, run_impl SVC_DNS segs = ([], 0%N).
Proof. exact dns_wrapped_silent. Qed.

Theorem C04_dns_refuted :
  run_impl SVC_DNS [W_DNS] <> expected SVC_DNS W_DNS /\ run_impl SVC_DNS_BARE [W_DNS] = expected SVC_DNS W_DNS.
Proof. exact dns_refuted. Qed.

(* ---- non-vacuity ---- *)
Example C04_ftp_nonvacuous :
  run_impl SVC_FTP [[85;83;69;82;32;97;13;10;83;89]%N; [83;84;13;10;81;85;73;84;13;10;78;79;79;80;13;10]%N] =
  ([mkEv EV_FTP [[85;83;69;82;32;97]%N]; mkEv EV_FTP [[83;89;83;84]%N]; mkEv EV_FTP [[81;85;73;84]%N]], 0%N).
Proof. vm_compute. reflexivity. Qed.

Example C04_smtp_nonvacuous :
  fst (run_impl SVC_SMTP [firstn 30 [69;72;76;79;32;99;13;10;77;65;73;76;32;70;82;79;77;58;60;97;64;98;62;13;10;68;65;84;65;13;10;83;117;98;106;101;99;116;58;32;115;13;10;13;10;46;46;120;13;10;46;13;10;81;85;73;84;13;10]%N; skipn 30 [69;72;76;79;32;99;13;10;77;65;73;76;32;70;82;79;77;58;60;97;64;98;62;13;10;68;65;84;65;13;10;83;117;98;106;101;99;116;58;32;115;13;10;13;10;46;46;120;13;10;46;13;10;81;85;73;84;13;10]%N]) =
  [mkEv EV_SMTP_LINE [[69;72;76;79;32;99]%N]; mkEv EV_SMTP_LINE [[77;65;73;76;32;70;82;79;77;58;60;97;64;98;62]%N]; mkEv EV_SMTP_LINE [[68;65;84;65]%N];
   mkEv EV_SMTP_MAIL [[46;120]%N ++ [10]%N]; mkEv EV_SMTP_LINE [[81;85;73;84]%N]].
Proof. vm_compute. reflexivity. Qed.

Example C04_outside_loss_nonvacuous :
  let p := impl_prog SVC_HTTP (fuel_for (W_GET_A ++ W_GET_B)) in
  str_clean p (W_GET_A ++ W_GET_B) = true /\ seg_dropped p [W_GET_A; W_GET_B] = [] /\
  length (fst (seg_obs p [W_GET_A; W_GET_B])) = 2.
Proof. vm_compute. repeat split; reflexivity. Qed.

Print Assumptions C04_read_until_depends_on_stream_only.
Print Assumptions C04_take_depends_on_stream_only.
Print Assumptions C04_read_returns_a_prefix.
Print Assumptions C04_persistent_reader_segmentation_invariant.
Print Assumptions C04_persistent_reader_reads_the_stream.
Print Assumptions C04_outside_read_and_reader_loss.
Print Assumptions C04_ftp_full.
Print Assumptions C04_smtp_full.
Print Assumptions C04_redis_full.
Print Assumptions C04_eos_full.
Print Assumptions C04_ethereum_full.
Print Assumptions C04_ftp_one_event_per_line_in_order.
Print Assumptions C04_ftp_lines_partition_the_stream.
Print Assumptions C04_ftp_fuel_suffices.
Print Assumptions C04_reference_memcached_persistent.
Print Assumptions C04_reference_http_persistent.
Print Assumptions C04_tftp_each_datagram.
Print Assumptions C04_counterstrike_each_datagram.
Print Assumptions C04_memcached_storage_refuted.
Print Assumptions C04_http_pipelined_refuted.
Print Assumptions C04_http_body_refuted.
Print Assumptions C04_dns_behind_wrapper_silent.
Print Assumptions C04_dns_refuted.
