(* C04 - executable check of one connection's (or one datagram's) observation:
   the events the REAL service sent, compared (violations) with the reference reading of
   the same byte stream and (mismatches) with the model of the code on the same segments. *)
From HT Require Import Common.Bytes C04.Model.
Open Scope nat_scope.

Record case := mkCase {
  c_id : N;
  c_svc : N;                 (* Model.SVC_* *)
  c_stream : bytes;          (* everything the client sent, in order *)
  c_cuts : list N;           (* lengths of the client's writes; the rest is the last write *)
  c_events : list event;     (* events received by the service's channel, in order *)
  c_code : N                 (* 0 Handle returned, 2 Handle panicked *)
}.

Fixpoint segs_of (s : bytes) (lens : list N) : segs :=
  match lens with
  | [] => match s with [] => [] | _ => [s] end
  | n :: r => firstn (N.to_nat n) s :: segs_of (skipn (N.to_nat n) s) r
  end.

Definition c_segs (c : case) : segs := segs_of (c_stream c) (c_cuts c).

Fixpoint list_eqb {A} (e : A -> A -> bool) (a b : list A) : bool :=
  match a, b with
  | [], [] => true
  | x :: a', y :: b' => e x y && list_eqb e a' b'
  | _, _ => false
  end.

Definition ev_eqb (a b : event) : bool :=
  beq (ev_ty a) (ev_ty b) && list_eqb eqb_bytes (ev_fields a) (ev_fields b).

(* error returns are not part of the observation: returned (0/1), panicked (2), out of fuel (9) *)
Definition norm_code (c : N) : N := if beq c 1%N then 0%N else c.

Definition obs_eqb (a b : list event * N) : bool :=
  list_eqb ev_eqb (fst a) (fst b) && beq (norm_code (snd a)) (norm_code (snd b)).

(* 2-5 are the signatures of the four defects repaired in /repo (9bf6a1f, 557c6c5, 3944024,
   4b4eb8c); they stay so that a regression is reported under its own name, with the stream
   and segmentation as replay *)
Definition SIG_EVENTS_DIFFER := 1%N.        (* captured events are not the reference reading *)
Definition SIG_MEMCACHED_STORAGE := 2%N.    (* memcached storage command: payload framing follows the read boundary *)
Definition SIG_HTTP_REQUEST_LOST := 3%N.    (* http family: pipelined request lost with the per-request reader *)
Definition SIG_HTTP_SHORT_BODY := 4%N.      (* http family: payload = first Read of the body *)
Definition SIG_UDP_WRAPPED := 5%N.          (* datagram service tests the concrete connection type *)
Definition SIG_DATAGRAM_NOT_OWN := 6%N.     (* a datagram is not decoded and reported on its own (other datagram's bytes, none, twice) *)

Definition is_http_family (svc : N) : bool := ((5 <=? svc) && (svc <=? 10))%N.
Definition SIG_TELNET_LINES := 7%N.          (* telnet: the lines/commands reported are not those of the byte stream *)
Definition SIG_LDAP_MESSAGES := 8%N.
Definition SIG_LIMITER_SUPPRESSES_REPORT := 10%N.  (* a datagram over the source's reply budget is not (fully) reported *)
Definition SIG_LIMITER_ENDS_DATAGRAM := 11%N.   (* memcached-udp: a refusal by the limiter ends the datagram's command loop *)
Definition SIG_TFTP_UPLOAD := 12%N.             (* tftp: an upload is not reported with the filename/mode/content of ITS transfer *)
Definition SIG_SMTP_STALE_CHUNK := 9%N.      (* smtp: the reading before a828b58 - chunks of a transaction abandoned without RSET are reported with the next mail *)         (* ldap: not exactly one event per complete message *)
(* telnet: exactly the behaviour before 1a2f0db (tn_run_before_1a2f0db) - bytes behind an
   undecodable byte (or U+FFFD) wait for the next Read to return, so lines are reported late
   or never; repaired in /repo, the signature stays so that a regression is reported under
   its own name *)
Definition SIG_TELNET_UNDECODABLE := 13%N.
(* telnet: the stream decodes without any undecodable byte, holds non-ASCII characters or key
   sequences, and the events are not those of the byte stream: a character or key sequence
   was not put together again across a read boundary *)
Definition SIG_TELNET_SPLIT_KEY := 14%N.
Definition has_multibyte_key (s : bytes) : bool := existsb (fun b => (128 <=? b)%N || beq b ESC) s.
Definition is_memcached (svc : N) : bool := beq svc SVC_MEMCACHED || beq svc SVC_MEMCACHED_UDP.
Definition has_store (es : list event) : bool := existsb (fun e => beq (ev_ty e) EV_MC_STORE) es.

Definition case_sig (c : case) : N :=
  let exp := reference_segs (c_svc c) (c_segs c) in
  let got := (c_events c, c_code c) in
  if obs_eqb exp got then 0%N
  else if is_memcached (c_svc c) && (has_store (fst exp) || has_store (fst got)) then SIG_MEMCACHED_STORAGE
  else if is_http_family (c_svc c) && (length (fst got) <? length (fst exp)) then SIG_HTTP_REQUEST_LOST
  else if is_http_family (c_svc c) && (length (fst got) =? length (fst exp)) then SIG_HTTP_SHORT_BODY
  else if beq (c_svc c) SVC_SMTP && obs_eqb (seg_obs (smtp_prog false (fuel_for (c_stream c)) SHello 0 []) (c_segs c)) got then SIG_SMTP_STALE_CHUNK
  (* sequence cases: the two limiter signatures are reserved for exactly the modelled limiter
     behaviour; anything else a sequence gets wrong has its own signature *)
  else if beq (c_svc c) (SEQ_BASE + SVC_MEMCACHED_UDP)%N && obs_eqb (run_model (c_svc c) (c_segs c)) got then SIG_LIMITER_ENDS_DATAGRAM
  else if beq (c_svc c) (SEQ_BASE + SVC_TFTP)%N && obs_eqb (run_model (c_svc c) (c_segs c)) got then SIG_LIMITER_SUPPRESSES_REPORT
  else if beq (c_svc c) (SEQ_BASE + SVC_TFTP)%N then SIG_TFTP_UPLOAD
  else if (SEQ_BASE <=? c_svc c)%N then SIG_LIMITER_SUPPRESSES_REPORT
  else if beq (c_svc c) SVC_TELNET && negb (tn_decodable (c_stream c)) && obs_eqb (tn_run_before_1a2f0db (c_segs c)) got then SIG_TELNET_UNDECODABLE
  else if beq (c_svc c) SVC_TELNET && tn_decodable (c_stream c) && has_multibyte_key (c_stream c) then SIG_TELNET_SPLIT_KEY
  else if beq (c_svc c) SVC_TELNET then SIG_TELNET_LINES
  else if beq (c_svc c) SVC_LDAP then SIG_LDAP_MESSAGES
  else if beq (c_svc c) SVC_DNS && (match fst got with [] => true | _ => false end) then SIG_UDP_WRAPPED
  else if (20 <=? c_svc c)%N then SIG_DATAGRAM_NOT_OWN
  else SIG_EVENTS_DIFFER.

Definition mismatches (cs : list case) : list N :=
  map c_id (filter (fun c => negb (obs_eqb (run_model (c_svc c) (c_segs c)) (c_events c, c_code c))) cs).

Definition violations (cs : list case) : list (N * N) :=
  flat_map (fun c => let s := case_sig c in if beq s 0%N then [] else [(c_id c, s)]) cs.

(* 0 = nothing sent that should be reported and nothing reported; else
   1 + [2: more than one segment] + [4: a reader with buffered bytes was dropped]
     + [8: a buffer-sensitive Read was executed] + [16: events expected] *)
Definition tags (cs : list case) : list (N * N) :=
  map (fun c =>
    let svc := c_svc c in
    let s := c_stream c in
    let p := impl_prog svc (fuel_for s) in
    let exp := reference_segs svc (c_segs c) in
    (c_id c,
     match fst exp, c_events c with
     | [], [] => 0
     | _, _ =>
         1 + (if (1 <? length (c_segs c))%nat then 2 else 0)
           + (match seg_dropped p (c_segs c) with [] => 0 | _ => 4 end)
           + (if str_clean p s then 0 else 8)
           + (match fst exp with [] => 0 | _ => 16 end)
     end)%N) cs.
