(* C04 - executable model: a connection is a list of segments; bufio.Reader over it
   (4096-byte buffer, fill = ONE underlying read, ReadSlice/ReadBytes/ReadString,
   Read = what is buffered, Discard/ReadByte/CopyN = consume through the buffer);
   services are "reader programs" (trees of read requests and emitted events) that are
   interpreted twice: over the segmented connection (run_seg, faithful to the buffer) and
   over the plain byte stream (run_str, the reference reading).  Definitions only. *)
From HT Require Import Common.Bytes.
Open Scope nat_scope.

(* ------------------------------------------------------------------ *)
(* byte-string helpers (strings.* / bytes.* / strconv.* as used)       *)
(* ------------------------------------------------------------------ *)
Definition beq (a b : N) : bool := (a =? b)%N.

(* linear-time reversal (List.rev is quadratic) *)
Definition frev {A} (l : list A) : list A := rev_append l [].

Definition CR : N := 13%N.
Definition LF : N := 10%N.
Definition SP : N := 32%N.

Fixpoint drop_while (f : N -> bool) (l : bytes) : bytes :=
  match l with
  | [] => []
  | x :: r => if f x then drop_while f r else l
  end.
Definition trim_right (f : N -> bool) (l : bytes) : bytes := frev (drop_while f (frev l)).
Definition trim_both (f : N -> bool) (l : bytes) : bytes := trim_right f (drop_while f l).

Definition is_crlf (b : N) : bool := beq b CR || beq b LF.
Definition is_sp_crlf (b : N) : bool := beq b SP || beq b CR || beq b LF.
(* unicode.IsSpace restricted to ASCII: \t \n \v \f \r space *)
Definition is_space (b : N) : bool := ((9 <=? b) && (b <=? 13))%N || beq b SP.

Definition upper (b : N) : N := if ((97 <=? b) && (b <=? 122))%N then (b - 32)%N else b.
Definition lower (b : N) : N := if ((65 <=? b) && (b <=? 90))%N then (b + 32)%N else b.

Fixpoint has_prefix (p l : bytes) : bool :=
  match p, l with
  | [], _ => true
  | x :: p', y :: l' => beq x y && has_prefix p' l'
  | _ :: _, [] => false
  end.

(* strings.HasPrefix(strings.ToUpper(line), cmd) with cmd already upper-case ASCII *)
Definition is_command (line cmd : bytes) : bool := has_prefix cmd (map upper line).

(* first occurrence of d: (before, Some after) or (l, None) *)
Fixpoint cut (d : N) (l : bytes) : bytes * option bytes :=
  match l with
  | [] => ([], None)
  | x :: r => if beq x d then ([], Some r)
              else let '(a, b) := cut d r in (x :: a, b)
  end.

(* bytes.Split(l, {d}) *)
Fixpoint split_on_aux (d : N) (cur : bytes) (l : bytes) : list bytes :=
  match l with
  | [] => [frev cur]
  | x :: r => if beq x d then frev cur :: split_on_aux d [] r else split_on_aux d (x :: cur) r
  end.
Definition split_on (d : N) (l : bytes) : list bytes := split_on_aux d [] l.

Definition is_digit (b : N) : bool := ((48 <=? b) && (b <=? 57))%N.

Fixpoint digits_val (acc : N) (l : bytes) : option N :=
  match l with
  | [] => Some acc
  | x :: r => if is_digit x then digits_val (acc * 10 + (x - 48))%N r else None
  end.

(* strconv.ParseUint(s, 10, 64) *)
Definition parse_uint64 (s : bytes) : option N :=
  match s with
  | [] => None
  | _ => match digits_val 0%N s with
         | Some v => if (v <? 18446744073709551616)%N then Some v else None
         | None => None
         end
  end.

(* strconv.ParseInt(s, 10, bits) / Atoi (bits = 64): optional sign, decimal digits *)
Definition parse_int (bits : N) (s : bytes) : option Z :=
  let '(neg, ds) := match s with
                    | 43%N :: r => (false, r)
                    | 45%N :: r => (true, r)
                    | _ => (false, s)
                    end in
  match ds with
  | [] => None
  | _ => match digits_val 0%N ds with
         | None => None
         | Some v => let lim := (2 ^ (bits - 1))%N in
                     if neg then (if (v <=? lim)%N then Some (- Z.of_N v)%Z else None)
                     else (if (v <? lim)%N then Some (Z.of_N v) else None)
         end
  end.

Fixpoint N_digits_aux (fuel : nat) (n : N) (acc : bytes) : bytes :=
  match fuel with
  | O => acc
  | S f => let acc' := (48 + n mod 10)%N :: acc in
           if (n <? 10)%N then acc' else N_digits_aux f (n / 10)%N acc'
  end.
Definition N_to_dec (n : N) : bytes := N_digits_aux 40 n [].

Definition blen (l : bytes) : N := N.of_nat (length l).

(* ------------------------------------------------------------------ *)
(* the connection and the buffered reader                              *)
(* ------------------------------------------------------------------ *)
Definition segs := list bytes.

(* one Read(p), len p = n, on the connection: at most one (partial) segment *)
Definition read_raw (c : segs) (n : nat) : bytes * segs :=
  match c with
  | [] => ([], [])
  | s :: r => let a := firstn n s in
              match skipn n s with
              | [] => (a, r)
              | rest => (a, rest :: r)
              end
  end.

Definition BUFSZ : nat := N.to_nat 4096.

Record rd := mkRd { rbuf : bytes; rsrc : segs }.

(* every byte not yet handed to the service *)
Definition pending (r : rd) : bytes := rbuf r ++ concat (rsrc r).

Definition new_reader (c : segs) : rd := mkRd [] c.

(* bufio.Reader.fill: slide, then ONE Read into the free space *)
Definition fill (r : rd) : rd :=
  let '(b, s) := read_raw (rsrc r) (BUFSZ - length (rbuf r)) in mkRd (rbuf r ++ b) s.

(* line up to and including the first d *)
Fixpoint split_delim (d : N) (l : bytes) : option (bytes * bytes) :=
  match l with
  | [] => None
  | x :: r => if beq x d then Some ([x], r)
              else match split_delim d r with
                   | Some (a, b) => Some (x :: a, b)
                   | None => None
                   end
  end.

(* result of ReadBytes/ReadString: a delimited line, or what was left + an error (EOF) *)
Inductive rres := RLine (l : bytes) | REof (l : bytes).

(* ReadBytes(d) = collectFragments over ReadSlice: search the buffer; no more data => error
   with the rest; buffer full => move it to the accumulator; else fill and retry *)
Fixpoint r_until_f (fuel : nat) (d : N) (acc : bytes) (r : rd) : option (rres * rd) :=
  match fuel with
  | O => None
  | S f =>
      match split_delim d (rbuf r) with
      | Some (a, b) => Some (RLine (acc ++ a), mkRd b (rsrc r))
      | None =>
          match rsrc r with
          | [] => Some (REof (acc ++ rbuf r), mkRd [] [])
          | _ => if BUFSZ <=? length (rbuf r)
                 then r_until_f f d (acc ++ rbuf r) (mkRd [] (rsrc r))
                 else r_until_f f d acc (fill r)
          end
      end
  end.

Definition until_measure (r : rd) : nat :=
  length (rbuf r) + 2 * length (concat (rsrc r)) + length (rsrc r).

Definition r_until (d : N) (r : rd) : rres * rd :=
  match r_until_f (S (until_measure r)) d [] r with
  | Some x => x
  | None => (REof [], r)     (* unreachable: Proofs.r_until_f_enough *)
  end.

(* consume exactly n bytes through the buffer (Discard, ReadByte, io.CopyN, ReadAll of a
   length-limited body): short result = the stream ended *)
Fixpoint r_take_f (fuel : nat) (n : nat) (acc : bytes) (r : rd) : option (bytes * rd) :=
  match fuel with
  | O => None
  | S f =>
      if n <=? length (rbuf r)
      then Some (acc ++ firstn n (rbuf r), mkRd (skipn n (rbuf r)) (rsrc r))
      else match rsrc r with
           | [] => Some (acc ++ rbuf r, mkRd [] [])
           | _ => r_take_f f (n - length (rbuf r)) (acc ++ rbuf r) (fill (mkRd [] (rsrc r)))
           end
  end.

Definition take_measure (r : rd) : nat := length (concat (rsrc r)) + length (rsrc r).

Definition r_take (n : nat) (r : rd) : bytes * rd :=
  match r_take_f (S (take_measure r)) n [] r with
  | Some x => x
  | None => ([], r)          (* unreachable: Proofs.r_take_f_enough *)
  end.

(* bufio.Reader.Read(p), len p = n: whatever is buffered; with an empty buffer one
   underlying read (directly into p when p is at least as large as the buffer) *)
Definition r_read (n : nat) (r : rd) : bytes * rd :=
  match rbuf r with
  | [] => if BUFSZ <=? n
          then let '(b, s) := read_raw (rsrc r) n in (b, mkRd [] s)
          else let r1 := fill r in (firstn n (rbuf r1), mkRd (skipn n (rbuf r1)) (rsrc r1))
  | _ => (firstn n (rbuf r), mkRd (skipn n (rbuf r)) (rsrc r))
  end.

(* the same requests on the plain byte stream *)
Definition s_until (d : N) (s : bytes) : rres * bytes :=
  match split_delim d s with
  | Some (a, b) => (RLine a, b)
  | None => (REof s, [])
  end.

(* ------------------------------------------------------------------ *)
(* reader programs                                                     *)
(* ------------------------------------------------------------------ *)
Record event := mkEv { ev_ty : N; ev_fields : list bytes }.

Inductive prog :=
| PDone (code : N)                          (* Handle returns: 0 nil, 1 error, 2 panic, 9 out of fuel *)
| PEmit (e : event) (k : prog)
| PUntil (d : N) (k : rres -> prog)         (* ReadBytes / ReadString / ReadLine / Scanner token *)
| PTake (n : nat) (k : bytes -> prog)       (* exactly n bytes through the buffer *)
| PRead (n : nat) (k : bytes -> prog)       (* one bufio Read: what happens to be buffered *)
| PNewReader (k : prog).                    (* bufio.NewReader(conn): the old buffer is dropped *)

(* over the segmented connection: events, return code, bytes lost with dropped readers *)
Fixpoint run_seg (p : prog) (r : rd) : list event * N * bytes :=
  match p with
  | PDone c => ([], c, [])
  | PEmit e k => let '(es, c, d) := run_seg k r in (e :: es, c, d)
  | PUntil d k => let '(res, r') := r_until d r in run_seg (k res) r'
  | PTake n k => let '(b, r') := r_take n r in run_seg (k b) r'
  | PRead n k => let '(b, r') := r_read n r in run_seg (k b) r'
  | PNewReader k => let '(es, c, d) := run_seg k (mkRd [] (rsrc r)) in (es, c, rbuf r ++ d)
  end.

(* over the byte stream: a Read returns all it was asked for, a new reader loses nothing;
   the flag records that no buffer-sensitive Read was executed *)
Fixpoint run_str (p : prog) (s : bytes) : list event * N * bool :=
  match p with
  | PDone c => ([], c, true)
  | PEmit e k => let '(es, c, ok) := run_str k s in (e :: es, c, ok)
  | PUntil d k => let '(res, s') := s_until d s in run_str (k res) s'
  | PTake n k => run_str (k (firstn n s)) (skipn n s)
  | PRead n k => let '(es, c, _) := run_str (k (firstn n s)) (skipn n s) in (es, c, false)
  | PNewReader k => run_str k s
  end.

Definition seg_obs (p : prog) (c : segs) : list event * N :=
  let '(es, code, _) := run_seg p (new_reader c) in (es, code).
Definition seg_dropped (p : prog) (c : segs) : bytes :=
  let '(_, _, d) := run_seg p (new_reader c) in d.
Definition str_obs (p : prog) (s : bytes) : list event * N :=
  let '(es, code, _) := run_str p s in (es, code).
Definition str_clean (p : prog) (s : bytes) : bool :=
  let '(_, _, ok) := run_str p s in ok.

(* ------------------------------------------------------------------ *)
(* shared line readers                                                 *)
(* ------------------------------------------------------------------ *)
(* bufio.ReadLine / textproto.ReadLine on top of ReadSlice('\n'): drops "\n" or "\r\n";
   an unterminated last line is returned as it is; nothing at all = error *)
Definition tp_line (res : rres) : option bytes :=
  match res with
  | RLine l => let body := removelast l in
               Some (match frev body with
                     | 13%N :: _ => removelast body
                     | _ => body
                     end)
  | REof [] => None
  | REof l => Some l
  end.

(* bufio.Scanner with ScanLines, MaxScanTokenSize 65536: token without "\n" and one "\r";
   a last unterminated line is a token; 65536 bytes without newline = ErrTooLong *)
Definition MAXTOK : N := 65536%N.
Definition drop_cr (l : bytes) : bytes :=
  match frev l with
  | 13%N :: _ => removelast l
  | _ => l
  end.
Definition scan_token (res : rres) : option bytes :=
  match res with
  | RLine l => if (MAXTOK <? blen l)%N then None else Some (drop_cr (removelast l))
  | REof [] => None
  | REof l => if (MAXTOK <=? blen l)%N then None else Some (drop_cr l)
  end.

(* ------------------------------------------------------------------ *)
(* event type codes                                                    *)
(* ------------------------------------------------------------------ *)
Definition EV_FTP : N := 1%N.          (* [command line] *)
Definition EV_SMTP_LINE : N := 2%N.    (* [line] *)
Definition EV_SMTP_MAIL : N := 3%N.    (* [body; subject] *)
Definition EV_REDIS : N := 4%N.        (* [command] *)
Definition EV_MC_CMD : N := 5%N.       (* [command line] *)
Definition EV_MC_STORE : N := 6%N.     (* [cmd; key; flags; exptime; bytes; payload] *)
Definition EV_HTTP : N := 7%N.         (* [method; url; host; payload] *)
Definition EV_TFTP_READ : N := 10%N.   (* [filename; mode] *)
Definition EV_TFTP_WRITE : N := 11%N.
Definition EV_CS : N := 12%N.          (* [query] *)
Definition EV_DNS : N := 13%N.         (* [id] *)

Definition OUT_OF_FUEL : N := 9%N.

(* ------------------------------------------------------------------ *)
(* ftp: services/ftp/conn.go Serve + receiveLine, ftp.go event pump    *)
(* ------------------------------------------------------------------ *)
Definition ftp_command (line : bytes) : bytes :=
  map upper (fst (cut SP (trim_both is_crlf line))).
Definition QUIT : bytes := [81; 85; 73; 84]%N.

Fixpoint ftp_prog (fuel : nat) : prog :=
  match fuel with
  | O => PDone OUT_OF_FUEL
  | S f =>
      PUntil LF (fun res =>
        match res with
        | REof _ => PDone 0                     (* ReadString error: partial line discarded *)
        | RLine l =>
            PEmit (mkEv EV_FTP [trim_both is_crlf l])
                  (if eqb_bytes (ftp_command l) QUIT then PDone 0 else ftp_prog f)
        end)
  end.

(* ------------------------------------------------------------------ *)
(* smtp: services/smtp/conn.go state machine                           *)
(* ------------------------------------------------------------------ *)
(* net/mail.ReadMessage on the generator's subset: header lines "Key: value" up to the
   first empty line; the rest is the body.  None = error (connection ends, no event) *)
Definition is_token_char (b : N) : bool :=
  is_digit b || ((65 <=? b) && (b <=? 90))%N || ((97 <=? b) && (b <=? 122))%N || beq b 45%N || beq b 95%N.

Definition header_line_ok (l : bytes) : bool :=
  match cut 58%N l with
  | (k, Some _) => negb (match k with [] => true | _ => false end) && forallb is_token_char k
  | (_, None) => false
  end.

(* msg: remaining text; n: header lines seen; subj: values of the Subject headers so far *)
Definition s_subject := [115;117;98;106;101;99;116]%N.
Definition header_subject (l : bytes) (subj : list bytes) : list bytes :=
  match cut 58%N l with
  | (k, Some v) => if eqb_bytes (map lower k) s_subject
                   then subj ++ [trim_both (fun b => beq b SP || beq b 9%N) v] else subj
  | (_, None) => subj
  end.
Fixpoint join_comma (l : list bytes) : bytes :=
  match l with
  | [] => []
  | [x] => x
  | x :: r => x ++ 44%N :: join_comma r
  end.

(* (subject, body) *)
Fixpoint mail_parse_f (fuel : nat) (msg : bytes) (n : nat) (subj : list bytes) : option (bytes * bytes) :=
  match fuel with
  | O => None
  | S f =>
      match msg with
      | [] => if 0 <? n then Some (join_comma subj, []) else None          (* EOF inside the header *)
      | _ =>
          match tp_line (fst (s_until LF msg)) with
          | None => None
          | Some [] => Some (join_comma subj, snd (s_until LF msg))      (* blank line: body follows *)
          | Some l => if header_line_ok l
                      then mail_parse_f f (snd (s_until LF msg)) (S n) (header_subject l subj) else None
          end
      end
  end.
Definition mail_parse (msg : bytes) : option (bytes * bytes) :=
  match msg with
  | 32%N :: _ => None
  | 9%N :: _ => None
  | _ => mail_parse_f (S (length msg)) msg 0 []
  end.
Definition mail_event (m : bytes * bytes) : event := mkEv EV_SMTP_MAIL [snd m; fst m].

(* textproto dotReader.Read, byte by byte (ReadByte through the buffer) *)
Inductive dot_st := DBegin | DDot | DDotCR | DCR | DData.

(* one byte: (new state, bytes emitted, finished) *)
Definition dot_step (st : dot_st) (c : N) : dot_st * bytes * bool :=
  match st with
  | DBegin => if beq c 46%N then (DDot, [], false)
              else if beq c CR then (DCR, [], false)
              else (DData, [c], false)
  | DDot => if beq c CR then (DDotCR, [], false)
            else if beq c LF then (DBegin, [], true)
            else (DData, [c], false)
  | DDotCR => if beq c LF then (DBegin, [], true)
              else (* UnreadByte; emit the saved \r; c is read again in state Data *)
                if beq c CR then (DCR, [CR], false)
                else if beq c LF then (DBegin, [CR; c], false)
                else (DData, [CR; c], false)
  | DCR => if beq c LF then (DBegin, [c], false)
           else if beq c CR then (DCR, [CR], false)
           else (DData, [CR; c], false)
  | DData => if beq c CR then (DCR, [], false)
             else if beq c LF then (DBegin, [c], false)
             else (DData, [c], false)
  end.

Fixpoint dot_prog (fuel : nat) (st : dot_st) (acc : bytes) (k : option bytes -> prog) : prog :=
  match fuel with
  | O => PDone OUT_OF_FUEL
  | S f =>
      PTake 1 (fun b =>
        match b with
        | [] => k None                                   (* io.ErrUnexpectedEOF *)
        | c :: _ => let '(st', out, fin) := dot_step st c in
                    if fin then k (Some acc) else dot_prog f st' (acc ++ out) k
        end)
  end.

Inductive smtp_st := SHello | SLoop | SMail.

Definition hello_domain (line : bytes) : bytes :=
  match cut SP line with
  | (_, Some d) => d
  | (_, None) => line
  end.

Definition s_HELO := [72;69;76;79]%N.
Definition s_EHLO := [69;72;76;79]%N.
Definition s_HELP := [72;69;76;80]%N.
Definition s_MAILFROM := [77;65;73;76;32;70;82;79;77]%N.
Definition s_STARTTLS := [83;84;65;82;84;84;76;83]%N.
Definition s_RSET := [82;83;69;84]%N.
Definition s_QUIT := QUIT.
Definition s_NOOP := [78;79;79;80]%N.
Definition s_RCPTTO := [82;67;80;84;32;84;79]%N.
Definition s_BDAT := [66;68;65;84]%N.
Definition s_DATA := [68;65;84;65]%N.
Definition s_LAST := [76;65;83;84]%N.
Definition LOOP_TRESHOLD : nat := 100.

(* One command line.  st: state; i: loop counter; buf: c.msg.Buffer, the BDAT chunks received
   so far; [self] is the rest of the dialogue (smtp_prog with less fuel); [dotfuel] bounds the
   DATA text.  clean = true is the code since a828b58 and the reference reading: MAIL FROM starts a
   mail with an empty buffer; clean = false is the code before it: only RSET and a finished
   mail replaced c.msg, so chunks of a transaction abandoned otherwise (unknown command, empty
   line) stayed in the buffer (kept for the regression statement). *)
Definition smtp_step (clean : bool) (self : smtp_st -> nat -> bytes -> prog) (dotfuel : nat)
           (st : smtp_st) (i : nat) (buf : bytes) (line : bytes) : prog :=
  match st with
  | SHello =>
      if is_command line s_HELO || is_command line s_EHLO
      then (match hello_domain line with [] => PDone 0 | _ => self SLoop i buf end)
      else if is_command line s_HELP then self SHello i buf
      else PDone 0
  | SLoop =>
      match line with
      | [] => self SLoop i buf
      | _ =>
          if LOOP_TRESHOLD <? S i then PDone 0
          else if is_command line s_MAILFROM then self SMail (S i) (if clean then [] else buf)
          else if is_command line s_STARTTLS then PDone 0   (* TLS handshake on the raw conn *)
          else if is_command line s_RSET then self SLoop (S i) []
          else if is_command line s_QUIT then PDone 0
          else self SLoop (S i) buf
      end
  | SMail =>
      match line with
      | [] => self SLoop i buf
      | _ =>
          if is_command line s_RSET then self SLoop i []
          else if is_command line s_RCPTTO then self SMail i buf
          else if is_command line s_BDAT then
            match split_on SP line with
            | _ :: cnt :: rest =>
                match parse_int 32 cnt with
                | None => PDone 0
                | Some count =>
                    let n := Z.to_nat count in
                    PTake n (fun chunk =>
                      if length chunk <? n then PDone 0     (* CopyN: EOF *)
                      else
                        let buf' := buf ++ chunk in
                        match rest with
                        | [w] => if eqb_bytes w s_LAST
                                 then match mail_parse buf' with
                                      | None => PDone 0
                                      | Some m => PEmit (mail_event m) (self SLoop i [])
                                      end
                                 else self SMail i buf'
                        | _ => self SMail i buf'
                        end)
                end
            | _ => PDone 2                                   (* parts[1]: index out of range *)
            end
          else if is_command line s_DATA then
            dot_prog dotfuel DBegin [] (fun r =>
              match r with
              | None => PDone 0
              | Some text =>
                  match mail_parse text with
                  | None => PDone 0
                  | Some m => PEmit (mail_event m) (self SLoop i [])
                  end
              end)
          else if is_command line s_HELP then self SMail i buf
          else self SLoop i buf
      end
  end.

Fixpoint smtp_prog (clean : bool) (fuel : nat) (st : smtp_st) (i : nat) (buf : bytes) : prog :=
  match fuel with
  | O => PDone OUT_OF_FUEL
  | S f =>
      PUntil LF (fun res =>
        match tp_line res with
        | None => PDone 0                                 (* errorState: ReadLine error *)
        | Some line => PEmit (mkEv EV_SMTP_LINE [line]) (smtp_step clean (smtp_prog clean f) f st i buf line)
        end)
  end.

(* ------------------------------------------------------------------ *)
(* redis: bufio.Scanner + parseRedisData (recursion as an explicit stack) *)
(* ------------------------------------------------------------------ *)
Inductive datum := DScalar (ty : N) (s : bytes) | DArr (items : list datum).

(* a completed datum is delivered to the innermost open array *)
Fixpoint deliver (d : datum) (stack : list (N * list datum)) : datum + list (N * list datum) :=
  match stack with
  | [] => inl d
  | (n, acc) :: rest =>
      if (n <=? 1)%N then deliver (DArr (frev (d :: acc))) rest
      else inr (((n - 1)%N, d :: acc) :: rest)
  end.

(* parseRedisDataDepth: one open array per level; depth > 32 is an error before the next token *)
Definition MAX_ARRAY_DEPTH : nat := 32.

Definition PScan (k : option bytes -> prog) : prog := PUntil LF (fun res => k (scan_token res)).

Fixpoint redis_prog (fuel : nat) (stack : list (N * list datum)) : prog :=
  match fuel with
  | O => PDone OUT_OF_FUEL
  | S f =>
      let finish (d : datum) : prog :=
        match deliver d stack with
        | inr stack' => redis_prog f stack'
        | inl top =>
            match top with
            | DScalar 0%N _ => redis_prog f []                      (* "empty packet" *)
            | DScalar _ _ => PDone 0                                (* expected array *)
            | DArr [] => PDone 2                                    (* items[0]: index out of range *)
            | DArr (DScalar ty s :: _) =>
                if beq ty 43%N || beq ty 36%N
                then PEmit (mkEv EV_REDIS [s]) (redis_prog f [])
                else PDone 0
            | DArr (DArr _ :: _) => PDone 0
            end
        end in
      if MAX_ARRAY_DEPTH <? length stack then PDone 0          (* "Arrays nested deeper than 32" *)
      else
      PScan (fun tok =>
        match tok with
        | None => PDone 0
        | Some [] => finish (DScalar 0%N [])
        | Some (t :: rest) =>
            if beq t 42%N then
              match parse_uint64 rest with
              | None => PDone 0
              | Some 0%N => finish (DArr [])
              | Some n => redis_prog f ((n, []) :: stack)
              end
            else if beq t 43%N then finish (DScalar t rest)
            else if beq t 36%N then
              match parse_uint64 rest with
              | None => PDone 0
              | Some _ => PScan (fun tok2 => finish (DScalar t (match tok2 with Some s => s | None => [] end)))
              end
            else if beq t 58%N then
              match parse_uint64 rest with
              | None => PDone 0
              | Some _ => finish (DScalar t rest)
              end
            else PDone 0
        end)
  end.

(* ------------------------------------------------------------------ *)
(* memcached: services/memcached.go                                    *)
(* ------------------------------------------------------------------ *)
Definition mc_storage (w : bytes) : bool :=
  existsb (eqb_bytes w)
    [[97;100;100]; [114;101;112;108;97;99;101]; [112;114;101;112;101;110;100];
     [97;112;112;101;110;100]; [99;97;115]; [115;101;116]]%N.

Definition mc_strip (l : bytes) : bytes :=
  if 2 <=? length l then firstn (length l - 2) l else l.

(* storage commands: the data block is exactly <bytes> bytes followed by \r\n; the payload is
   its first 80 bytes (io.ReadFull), the rest and the \r\n are discarded *)
(* lim: None = not over UDP (no limiter); Some t = over UDP with t tokens left in the source's
   bucket: after each command event limiter.Allow is asked, and a refusal ends Handle *)
Fixpoint memcached_prog (lim : option nat) (fuel : nat) : prog :=
  match fuel with
  | O => PDone OUT_OF_FUEL
  | S f =>
      PUntil LF (fun res =>
        match res with
        | REof _ => PDone 0
        | RLine l =>
            let command := mc_strip l in
            PEmit (mkEv EV_MC_CMD [command])
              (match lim with Some O => PDone 0 | _ =>
               let lim := match lim with Some (S t) => Some t | _ => lim end in
               match split_on SP command with
               | w :: args =>
                   if mc_storage w then
                     match args with
                     | key :: flags :: exptime :: cnt :: _ =>
                         match parse_int 64 cnt with
                         | None => PDone 1
                         | Some v =>
                             let ev p := mkEv EV_MC_STORE [w; key; flags; exptime; cnt; p] in
                             if (v <? 0)%Z then PDone 1 else
                             PTake (Z.to_nat v) (fun data =>
                               match data, Z.to_nat v with
                               | [], S _ => PDone 1                      (* ReadFull: nothing there *)
                               | _, _ => PTake 2 (fun _ => PEmit (ev (firstn 80 data)) (memcached_prog lim f))
                               end)
                         end
                     | _ => PDone 1
                     end
                   else memcached_prog lim f
               | [] => memcached_prog lim f
               end end)
        end)
  end.

(* over UDP the first 8 bytes are the frame header: ONE Read of 8 bytes (exact = false) or,
   in the reference reading, exactly 8 bytes *)
Definition memcached_udp_prog (exact : bool) (lim : option nat) (fuel : nat) : prog :=
  (if exact then PTake 8 else PRead 8) (fun _ => memcached_prog lim fuel).

(* ------------------------------------------------------------------ *)
(* http family: http.ReadRequest on the request grammar + the handlers' body handling *)
(* ------------------------------------------------------------------ *)
Inductive body_mode := BFirstRead (* payload = first 1024 bytes, rest discarded *) | BReadAll.
Inductive emit_rule := EAlways | EPostBody | EJson.
Record http_cfg := mkHttp { h_loop : bool; h_body : body_mode; h_emit : emit_rule }.

Definition s_HTTP11 := [72;84;84;80;47;49;46;49]%N.
Definition s_HTTP10 := [72;84;84;80;47;49;46;48]%N.
Definition s_host := [104;111;115;116]%N.
Definition s_content_length := [99;111;110;116;101;110;116;45;108;101;110;103;116;104]%N.
Definition s_POST := [80;79;83;84]%N.

Definition uri_char (b : N) : bool :=
  is_token_char b || existsb (beq b) [47; 46; 63; 61; 38; 37; 126]%N.
Definition request_line_ok (m u p : bytes) : bool :=
  negb (match m with [] => true | _ => false end) && forallb is_token_char m
  && has_prefix [47%N] u && forallb uri_char u
  && (eqb_bytes p s_HTTP11 || eqb_bytes p s_HTTP10).

Definition is_tab_sp (b : N) : bool := beq b SP || beq b 9%N.

Definition s_transfer_encoding := [116;114;97;110;115;102;101;114;45;101;110;99;111;100;105;110;103]%N.
Definition s_chunked := [99;104;117;110;107;101;100]%N.

(* header lines until the blank line: (host, content-length, Transfer-Encoding: chunked) *)
Fixpoint http_headers (fuel : nat) (host : bytes) (cl : option N) (te : bool)
         (k : option (bytes * option N * bool) -> prog) : prog :=
  match fuel with
  | O => PDone OUT_OF_FUEL
  | S f =>
      PUntil LF (fun res =>
        match res with
        | REof _ => k None                                (* unexpected EOF inside the header *)
        | RLine _ =>
            match tp_line res with
            | None => k None
            | Some [] => k (Some (host, cl, te))
            | Some l =>
                match cut 58%N l with
                | (_, None) => k None                      (* malformed MIME header line *)
                | (name, Some v) =>
                    let v := trim_both is_tab_sp v in
                    let name := map lower name in
                    if eqb_bytes name s_host then http_headers f (match host with [] => v | _ => host end) cl te k
                    else if eqb_bytes name s_content_length then
                      match parse_uint64 v with
                      | None => k None                     (* bad Content-Length *)
                      | Some n => http_headers f host (Some n) te k
                      end
                    else if eqb_bytes name s_transfer_encoding then
                      (if eqb_bytes (map lower v) s_chunked then http_headers f host cl true k
                       else k None)                         (* unsupported transfer encoding *)
                    else http_headers f host cl te k
                end
            end
        end)
  end.


(* net/http/internal chunkedReader + the trailer: chunk-size line (hex, optional ";extension",
   trailing blanks), the data, CRLF, ..., a zero-size chunk, trailer lines up to a blank line.
   The whole body is decoded: complete / the stream ended inside it / malformed - with the
   bytes decoded so far *)
Inductive chunk_res := CBody (b : bytes) | CTrunc (b : bytes) | CErr (b : bytes).

Definition hex_digit (b : N) : option N :=
  if is_digit b then Some (b - 48)%N
  else if ((97 <=? b) && (b <=? 102))%N then Some (b - 87)%N
  else if ((65 <=? b) && (b <=? 70))%N then Some (b - 55)%N
  else None.
Fixpoint hex_acc (acc : N) (l : bytes) : option N :=
  match l with
  | [] => Some acc
  | x :: r => match hex_digit x with Some d => hex_acc (acc * 16 + d)%N r | None => None end
  end.
Definition parse_hex (s : bytes) : option N :=
  match s with
  | [] => None
  | _ => if 16 <? length s then None else hex_acc 0%N s
  end.
Definition is_ws_tail (b : N) : bool := beq b SP || beq b 9%N || beq b CR || beq b LF.
Definition chunk_size_of_line (l : bytes) : option N := parse_hex (fst (cut 59%N (trim_right is_ws_tail l))).
Definition CHUNK_CAP : N := 16777216%N.     (* larger declared sizes cannot be filled by a test stream *)

Fixpoint chunk_trailer (fuel : nat) (ok bad : prog) : prog :=
  match fuel with
  | O => PDone OUT_OF_FUEL
  | S f =>
      PUntil LF (fun res =>
        match res with
        | REof _ => bad                                      (* unexpected EOF reading trailer *)
        | RLine _ =>
            match tp_line res with
            | None => bad
            | Some [] => ok
            | Some l => match cut 58%N l with
                        | (_, Some _) => chunk_trailer f ok bad
                        | (_, None) => bad
                        end
            end
        end)
  end.

Fixpoint chunk_body (fuel : nat) (acc : bytes) (k : chunk_res -> prog) : prog :=
  match fuel with
  | O => PDone OUT_OF_FUEL
  | S f =>
      PUntil LF (fun res =>
        match res with
        | REof _ => k (CTrunc acc)
        | RLine l =>
            if BUFSZ <=? length l then k (CErr acc)           (* chunk header line too long *)
            else match chunk_size_of_line l with
                 | None => k (CErr acc)
                 | Some 0%N => chunk_trailer f (k (CBody acc)) (k (CErr acc))
                 | Some n =>
                     if (CHUNK_CAP <? n)%N then k (CTrunc acc)
                     else PTake (N.to_nat n) (fun d =>
                            if length d <? N.to_nat n then k (CTrunc (acc ++ d))
                            else PTake 2 (fun e =>
                                   if eqb_bytes e [CR; LF] then chunk_body f (acc ++ d) k
                                   else if length e <? 2 then k (CTrunc (acc ++ d))
                                   else k (CErr (acc ++ d))))
                 end
        end)
  end.

(* fresh = true: the handler creates its bufio.Reader where the request is read (inside the
   loop for cwmp: one per request); fresh = false: one reader per connection (http after
   557c6c5, and the reference reading).  The payload is the first 1024 bytes of the body
   (io.ReadFull), the rest of the body is consumed. *)
(* io.Copy(ioutil.Discard, req.Body): 8192-byte Reads of the length-limited body *)
Fixpoint http_discard (fuel : nat) (rem : nat) (k : prog) : prog :=
  match fuel with
  | O => PDone OUT_OF_FUEL
  | S f =>
      match rem with
      | O => k
      | _ => PTake (Nat.min (N.to_nat 8192) rem) (fun b =>
               match b with
               | [] => k
               | _ => http_discard f (rem - length b) k
               end)
      end
  end.

Definition json_like (b : bytes) : bool :=
  match b, frev b with
  | 123%N :: _, 125%N :: _ => true
  | _, _ => false
  end.

Fixpoint http_prog (cfg : http_cfg) (fresh : bool) (fuel : nat) : prog :=
  match fuel with
  | O => PDone OUT_OF_FUEL
  | S f =>
      let again : prog := if h_loop cfg then http_prog cfg fresh f else PDone 0 in
      let start (k : prog) : prog := if fresh then PNewReader k else k in
      start (PUntil LF (fun res =>
        match tp_line res with
        | None => PDone 0                                   (* io.EOF before a request *)
        | Some line =>
            match cut SP line with
            | (_, None) => PDone 1
            | (m, Some rest) =>
                match cut SP rest with
                | (_, None) => PDone 1
                | (u, Some p) =>
                    if negb (request_line_ok m u p) then PDone 1 else
                    http_headers f [] None false (fun h =>
                      match h with
                      | None => PDone 1
                      | Some (host, cl, te) =>
                          let n := match cl with Some n => N.to_nat n | None => 0 end in
                          (* Transfer-Encoding is honoured for HTTP/1.1 only; chunked wins over Content-Length *)
                          let chunked := te && eqb_bytes p s_HTTP11 in
                          let emit (payload : bytes) (k : prog) : prog :=
                            match h_emit cfg with
                            | EAlways => PEmit (mkEv EV_HTTP [m; u; host; payload]) k
                            | EPostBody =>
                                match payload with
                                | [] => k
                                | _ => PEmit (mkEv EV_HTTP [m; u; host; payload]) k
                                end
                            | EJson => if json_like payload
                                       then PEmit (mkEv EV_HTTP [m; u; host; payload]) k
                                       else PDone 1
                            end in
                          match h_body cfg with
                          | BFirstRead =>
                              if chunked then
                                chunk_body f [] (fun r =>
                                  match r with
                                  | CBody b => emit (firstn 1024 b) again
                                  | CTrunc [] => PDone 1
                                  | CTrunc b => emit (firstn 1024 b) again
                                  | CErr b => if 1024 <=? length b then emit (firstn 1024 b) (PDone 1) else PDone 1
                                  end)
                              else
                              match n with
                              | O => emit [] again
                              | _ => PTake (Nat.min 1024 n) (fun b =>
                                       match b with
                                       | [] => PDone 1                    (* unexpected EOF *)
                                       | _ => http_discard f (n - length b) (emit b again)
                                       end)
                              end
                          | BReadAll =>
                              if (match h_emit cfg with EPostBody => negb (eqb_bytes m s_POST) | _ => false end)
                              then again                                   (* cwmp: body of a non-POST is not read *)
                              else if chunked then
                                chunk_body f [] (fun r =>
                                  match r with
                                  | CBody b => emit b again
                                  | _ => PDone 1
                                  end)
                              else PTake n (fun b =>
                                     if length b <? n then PDone 1 else emit b again)
                          end
                      end)
                end
            end
        end))
  end.

Definition cfg_http := mkHttp true BFirstRead EAlways.
Definition cfg_docker := mkHttp false BFirstRead EAlways.   (* the loop body ends in return nil *)
Definition cfg_elastic := mkHttp false BFirstRead EAlways.
Definition cfg_eos := mkHttp false BReadAll EAlways.
Definition cfg_ethereum := mkHttp false BReadAll EJson.
Definition cfg_cwmp := mkHttp true BReadAll EPostBody.

(* ------------------------------------------------------------------ *)
(* UDP services: one Handle per datagram, connection = [datagram]      *)
(* ------------------------------------------------------------------ *)
(* tftp: 2-byte opcode (one Read), RRQ/WRQ = two zero-terminated strings *)
Definition tftp_prog (exact : bool) : prog :=
  (if exact then PTake 2 else PRead 2) (fun op =>
    match op with
    | [_; o] =>
        if beq o 1%N || beq o 2%N then
          PUntil 0%N (fun r1 =>
            match r1 with
            | REof _ => PDone 1
            | RLine fname =>
                PUntil 0%N (fun r2 =>
                  match r2 with
                  | REof _ => PDone 1
                  | RLine mode => PEmit (mkEv (if beq o 1%N then EV_TFTP_READ else EV_TFTP_WRITE) [fname; mode]) (PDone 0)
                  end)
            end)
        else PDone 0
    | [_] => PDone 0          (* packetType[1] stays 0 *)
    | _ => PDone 0
    end).

(* counterstrike: one Read of 1024; header ff ff ff ff|fe; query byte *)
Definition cs_query (q : N) : option bytes :=
  if beq q 84%N then Some [97;50;115;95;105;110;102;111]%N
  else if beq q 85%N then Some [97;50;115;95;112;108;97;121;101;114]%N
  else if beq q 86%N then Some [97;50;115;95;114;117;108;101;115]%N
  else if beq q 87%N then Some [97;50;115;95;115;101;114;118;101;114;113;117;101;114;121;95;99;104;97;108;108;101;110;103;101]%N
  else if beq q 105%N then Some [97;50;115;95;112;105;110;103]%N
  else None.

Definition pad4 (b : bytes) : bytes := firstn 4 (b ++ [0;0;0;0]%N).

Definition cs_prog (exact : bool) : prog :=
  (if exact then PTake 1024 else PRead 1024) (fun b =>
    let h := pad4 b in
    if eqb_bytes h [255;255;255;255]%N || eqb_bytes h [255;255;255;254]%N then
      match skipn 4 b with
      | [] => PDone 2                                       (* buf[4]: index out of range *)
      | q :: _ => match cs_query q with
                  | Some name => PEmit (mkEv EV_CS [name; b]) (PDone 0)
                  | None => PDone 0
                  end
      end
    else PDone 0).

(* dns: one Read of 65535 bytes on the connection itself (udp and tcp alike, 4b4eb8c), then
   dns.Msg.Unpack - here: at least the 12-byte header, the id is reported *)
Definition dns_event (dgram : bytes) : prog :=
  match dgram with
  | a :: b :: _ :: _ :: _ :: _ :: _ :: _ :: _ :: _ :: _ :: _ :: _ =>
      PEmit (mkEv EV_DNS [N_to_dec (a * 256 + b)%N]) (PDone 0)
  | _ => PDone 1
  end.
Definition dns_prog (exact : bool) : prog :=
  (if exact then PTake else PRead) (N.to_nat 65535) (fun b => dns_event b).


(* ------------------------------------------------------------------ *)
(* telnet: services/telnet/terminal.go line discipline + telnet.go dialogue *)
(* ------------------------------------------------------------------ *)
(* The terminal reads the connection itself: readLine decodes ONE KEY at a time from the bytes
   it holds (bytesToKey: control bytes, UTF-8 characters through utf8.FullRune/DecodeRune,
   escape sequences ESC [ ...), keeps what is not decodable YET in t.remainder (copied to the
   start of the 256-byte inBuf) and reads more behind it (at most 256 - |remainder| bytes per
   Read).  A character is represented by its UTF-8 bytes (DecodeRune accepts shortest forms
   only, so string([]rune) gives the bytes back); the special keys live in the surrogate
   area and print as U+FFFD when they end up in the line (bracketed paste).
   bytesToKey answers utf8.RuneError both for "nothing decodable yet" (all bytes kept) and for
   an undecodable byte it has CONSUMED (and for the character U+FFFD itself); since 1a2f0db
   readLine tells the two apart by the bytes consumed: it waits for more input in the first
   case and goes on with the bytes behind the undecodable one in the second ([stall] = false
   below).  Before that commit it left the key loop in both cases ([stall] = true). *)
Definition EV_TN_CONNECT : N := 15%N.  (* [] *)
Definition EV_TN_AUTH : N := 16%N.     (* [username; password] *)
Definition EV_TN_CMD : N := 17%N.      (* [command] *)

Fixpoint beqs (a b : bytes) : bool :=
  match a, b with
  | [], [] => true
  | x :: a', y :: b' => beq x y && beqs a' b'
  | _, _ => false
  end.

(* ---- unicode/utf8: FullRune and DecodeRune on the head of the buffer ---- *)
Inductive u8 :=
  | U8More               (* a proper prefix of a possibly valid encoding: FullRune = false *)
  | U8Bad                (* DecodeRune = (RuneError, 1) *)
  | U8Rune (n : nat).    (* a valid encoding of n bytes *)

Definition in_rng (lo hi b : N) : bool := ((lo <=? b) && (b <=? hi))%N.
Definition is_cont (b : N) : bool := in_rng 128 191 b.

(* the first[] table for a non-ASCII lead byte: size and accepted range of the second byte *)
Definition u8_lead (b0 : N) : option (nat * N * N) :=
  if in_rng 194 223 b0 then Some (2, 128%N, 191%N)
  else if beq b0 224 then Some (3, 160%N, 191%N)
  else if in_rng 225 236 b0 then Some (3, 128%N, 191%N)
  else if beq b0 237 then Some (3, 128%N, 159%N)
  else if in_rng 238 239 b0 then Some (3, 128%N, 191%N)
  else if beq b0 240 then Some (4, 144%N, 191%N)
  else if in_rng 241 243 b0 then Some (4, 128%N, 191%N)
  else if beq b0 244 then Some (4, 128%N, 143%N)
  else None.

Definition u8_head (b : bytes) : u8 :=
  match b with
  | [] => U8More
  | b0 :: t =>
      if (b0 <? 128)%N then U8Rune 1 else
      match u8_lead b0 with
      | None => U8Bad
      | Some (sz, lo, hi) =>
          match t with
          | [] => U8More
          | b1 :: t1 =>
              if negb (in_rng lo hi b1) then U8Bad
              else if sz =? 2 then U8Rune 2
              else match t1 with
                   | [] => U8More
                   | b2 :: t2 =>
                       if negb (is_cont b2) then U8Bad
                       else if sz =? 3 then U8Rune 3
                       else match t2 with
                            | [] => U8More
                            | b3 :: _ => if is_cont b3 then U8Rune 4 else U8Bad
                            end
                   end
          end
      end
  end.

(* ---- bytesToKey ---- *)
Inductive tkey :=
  | KRune (c : bytes)    (* a decoded character (incl. control characters), by its UTF-8 bytes *)
  | KHome | KEnd | KDelLine | KClear | KDelWord
  | KUp | KDown | KLeft | KRight | KAltLeft | KAltRight
  | KPasteStart | KPasteEnd | KUnknown.

Inductive nkey :=
  | NMore                          (* RuneError, all bytes kept: nothing decodable yet *)
  | NBad (rest : bytes)            (* RuneError, but bytes were consumed: undecodable *)
  | NSkip (rest : bytes)           (* a key sequence that fills the whole input buffer is dropped *)
  | NKey (k : tkey) (rest : bytes).

Definition ESC : N := 27%N.
Definition TN_INBUF : nat := 256.
Definition U_FFFD : bytes := [239; 191; 189]%N.
Definition is_final (c : N) : bool := in_rng 97 122 c || in_rng 65 90 c || beq c 126%N.

Fixpoint find_final (b : bytes) : option nat :=
  match b with
  | [] => None
  | c :: r => if is_final c then Some 0 else option_map S (find_final r)
  end.

Definition PASTE_START : bytes := [27; 91; 50; 48; 48; 126]%N.
Definition PASTE_END : bytes := [27; 91; 50; 48; 49; 126]%N.

(* the sequences bytesToKey knows, outside and inside a bracketed paste *)
Definition ESC_TABLE : list (bytes * tkey) :=
  [([27; 91; 65]%N, KUp); ([27; 91; 66]%N, KDown); ([27; 91; 67]%N, KRight); ([27; 91; 68]%N, KLeft);
   ([27; 91; 72]%N, KHome); ([27; 91; 70]%N, KEnd);
   ([27; 91; 49; 59; 51; 67]%N, KAltRight); ([27; 91; 49; 59; 51; 68]%N, KAltLeft);
   (PASTE_START, KPasteStart)].
Definition ESC_TABLE_PASTE : list (bytes * tkey) := [(PASTE_END, KPasteEnd)].

Fixpoint esc_lookup (tbl : list (bytes * tkey)) (b : bytes) : option (tkey * nat) :=
  match tbl with
  | [] => None
  | (q, k) :: t => if has_prefix q b then Some (k, length q) else esc_lookup t b
  end.

(* An unknown or partial sequence: it ends with the first byte in [a-zA-Z~].  The remainder
   always starts at inBuf[0], so a sequence without such a byte is waited for until the
   buffer holds 256 bytes of it; then readLine drops the buffer (readBuf would be empty). *)
Definition esc_key (paste : bool) (b : bytes) : nkey :=
  match esc_lookup (if paste then ESC_TABLE_PASTE else ESC_TABLE) b with
  | Some (k, n) => NKey k (skipn n b)
  | None =>
      match find_final (firstn TN_INBUF b) with
      | Some i => NKey KUnknown (skipn (S i) b)
      | None => if TN_INBUF <=? length b then NSkip (skipn TN_INBUF b) else NMore
      end
  end.

Definition next_key (paste : bool) (b : bytes) : nkey :=
  match b with
  | [] => NMore
  | b0 :: r =>
      if negb paste && beq b0 1 then NKey KHome r
      else if negb paste && beq b0 5 then NKey KEnd r
      else if negb paste && beq b0 8 then NKey (KRune [127%N]) r
      else if negb paste && beq b0 11 then NKey KDelLine r
      else if negb paste && beq b0 12 then NKey KClear r
      else if negb paste && beq b0 23 then NKey KDelWord r
      else if beq b0 ESC then esc_key paste b
      else match u8_head b with
           | U8More => NMore
           | U8Bad => NBad r
           | U8Rune n =>
               let c := firstn n b in
               if beqs c U_FFFD then NBad (skipn n b) else NKey (KRune c) (skipn n b)
           end
  end.

(* ---- the line editor ---- *)
Inductive tn_stage := TUser | TPass (u : bytes) | TSess | TEnd.
Record tn_st := mkTn {
  t_stage : tn_stage;
  t_line : list bytes;     (* t.line, one element per character *)
  t_pos : nat;
  t_paste : bool;          (* t.pasteActive *)
  t_pasted : bool;         (* readLine's lineIsPasted *)
  t_bad : bool             (* bookkeeping only: an undecodable byte was met on the way *)
}.
Definition TN_MAXLINE : nat := N.to_nat 4096.
Definition is_end (st : tn_st) : bool := match t_stage st with TEnd => true | _ => false end.

(* eraseNPreviousChars *)
Definition tn_erase {A} (n : nat) (line : list A) (pos : nat) : list A * nat :=
  let n := Nat.min n pos in (firstn (pos - n) line ++ skipn pos line, pos - n).

Definition is_sp (c : bytes) : bool := beqs c [SP].

(* countToLeftWord *)
Fixpoint left_skip_sp (line : list bytes) (p : nat) : nat :=
  match p with
  | O => O
  | S q => if is_sp (nth p line []) then left_skip_sp line q else p
  end.
Fixpoint left_word (line : list bytes) (p : nat) : nat :=
  match p with
  | O => O
  | S q => if is_sp (nth p line []) then S p else left_word line q
  end.
Definition count_left (line : list bytes) (pos : nat) : nat :=
  match pos with
  | O => O
  | S q => pos - left_word line (left_skip_sp line q)
  end.

(* countToRightWord *)
Fixpoint span (f : bytes -> bool) (l : list bytes) : nat :=
  match l with
  | [] => 0
  | c :: r => if f c then S (span f r) else 0
  end.
Definition count_right (line : list bytes) (pos : nat) : nat :=
  let s := skipn pos line in
  let a := span (fun c => negb (is_sp c)) s in
  a + span is_sp (skipn a s).

Definition rune_is (k : tkey) (b : N) : bool :=
  match k with KRune [x] => beq x b | _ => false end.
(* string(rune) of a key that is not a decoded character (surrogate area) *)
Definition key_char (k : tkey) : bytes := match k with KRune c => c | _ => U_FFFD end.
Definition printable (c : bytes) : bool := match c with [x] => (32 <=? x)%N | _ => true end.

(* the line is complete: Username, then Password (-> authentication event), then commands;
   a line that was pasted as a whole comes back with ErrPasteIndicator and Handle returns *)
Definition tn_complete (st : tn_st) : tn_st * list event :=
  let l := concat (t_line st) in
  let next (stage : tn_stage) := mkTn stage [] 0 (t_paste st) (t_paste st) (t_bad st) in
  if t_pasted st then (next TEnd, [])
  else match t_stage st with
       | TUser => (next (TPass l), [])
       | TPass u => (next TSess, [mkEv EV_TN_AUTH [u; l]])
       | TSess => (next TSess, [mkEv EV_TN_CMD [l]])
       | TEnd => (st, [])
       end.

(* handleKey *)
Definition tn_handle (st : tn_st) (k : tkey) : tn_st * list event :=
  let line := t_line st in
  let pos := t_pos st in
  let upd (l : list bytes) (p : nat) : tn_st * list event :=
    (mkTn (t_stage st) l p (t_paste st) (t_pasted st) (t_bad st), []) in
  let insert (c : bytes) := upd (firstn pos line ++ c :: skipn pos line) (S pos) in
  let erase (n : nat) := let '(l, p) := tn_erase n line pos in upd l p in
  if t_paste st && negb (rune_is k 13) && negb (rune_is k 10) then insert (key_char k)
  else match k with
       | KRune c =>
           if rune_is k 10 then tn_complete st
           else if rune_is k 13 then upd line pos
           else if rune_is k 127 then erase 1
           else if rune_is k 4 then
             (if pos <? length line then upd (firstn pos line ++ skipn (S pos) line) pos else upd line pos)
           else if rune_is k 21 then erase pos
           else if printable c then
             (if length line =? TN_MAXLINE then upd line pos else insert c)
           else upd line pos
       | KHome => upd line 0
       | KEnd => upd line (length line)
       | KLeft => upd line (pos - 1)
       | KRight => if pos =? length line then upd line pos else upd line (S pos)
       | KAltLeft => upd line (pos - count_left line pos)
       | KAltRight => upd line (pos + count_right line pos)
       | KDelWord => erase (count_left line pos)
       | KDelLine => upd (firstn pos line) pos
       | KUp | KDown | KClear | KUnknown | KPasteStart | KPasteEnd => upd line pos
       end.

(* one turn of readLine's key loop for a decoded key *)
Definition tn_key (st : tn_st) (k : tkey) : tn_st * list event :=
  if is_end st then (st, [])
  else if negb (t_paste st) then
    if rune_is k 4 && (match t_line st with [] => true | _ => false end)
    then (mkTn TEnd [] 0 false false (t_bad st), [])                       (* io.EOF *)
    else match k with
         | KPasteStart =>
             (mkTn (t_stage st) (t_line st) (t_pos st) true
                   (match t_line st with [] => true | _ => t_pasted st end) (t_bad st), [])
         | _ => tn_handle (mkTn (t_stage st) (t_line st) (t_pos st) false false (t_bad st)) k
         end
  else match k with
       | KPasteEnd => (mkTn (t_stage st) (t_line st) (t_pos st) false (t_pasted st) (t_bad st), [])
       | _ => tn_handle st k
       end.

Definition tn_mark_bad (st : tn_st) : tn_st :=
  mkTn (t_stage st) (t_line st) (t_pos st) (t_paste st) (t_pasted st) true.

(* the key loop over the bytes held: (state, events, the bytes not consumed = t.remainder).
   stall = false is the code (and the reference reading): behind a consumed undecodable byte
   the loop goes on at once; stall = true is the code before 1a2f0db: the loop is left and the
   bytes behind the undecodable one wait until the next Read has returned *)
Fixpoint tn_keys (stall : bool) (fuel : nat) (st : tn_st) (b : bytes) : tn_st * list event * bytes :=
  match fuel with
  | O => (st, [], b)
  | S f =>
      if is_end st then (st, [], b)
      else match next_key (t_paste st) b with
           | NMore => (st, [], b)
           | NBad r => if stall then (tn_mark_bad st, [], r) else tn_keys stall f (tn_mark_bad st) r
           | NSkip r => tn_keys stall f st r
           | NKey k r =>
               let '(st1, e1) := tn_key st k in
               let '(st2, e2, r2) := tn_keys stall f st1 r in (st2, e1 ++ e2, r2)
           end
  end.
(* every turn consumes at least one byte *)
Definition tn_dec (stall : bool) (st : tn_st) (b : bytes) : tn_st * list event * bytes :=
  tn_keys stall (S (length b)) st b.

(* one Write of the client (segment s, handed over by the pipe in pieces): while bytes of it
   are pending, Read(inBuf[len(remainder):]) appends at most 256 - |remainder| of them and
   the key loop runs over remainder ++ those *)
Fixpoint tn_segment (stall : bool) (fuel : nat) (st : tn_st) (rem s : bytes) : tn_st * list event * bytes :=
  match fuel with
  | O => (st, [], rem ++ s)
  | S f =>
      match s with
      | [] => (st, [], rem)
      | _ =>
          if is_end st then (st, [], rem ++ s)     (* Handle has returned, the connection is closed: nothing is read any more *)
          else
            let n := TN_INBUF - length rem in
            let '(st1, e1, rem1) := tn_dec stall st (rem ++ firstn n s) in
            let '(st2, e2, rem2) := tn_segment stall f st1 rem1 (skipn n s) in
            (st2, e1 ++ e2, rem2)
      end
  end.

(* the connection: the client's writes one after the other; state and remainder carry over *)
Fixpoint tn_conn (stall : bool) (st : tn_st) (rem : bytes) (c : segs) : tn_st * list event * bytes :=
  match c with
  | [] => (st, [], rem)
  | s :: r =>
      let '(st1, e1, rem1) := tn_segment stall (S (length s)) st rem s in
      let '(st2, e2, rem2) := tn_conn stall st1 rem1 r in (st2, e1 ++ e2, rem2)
  end.

Definition TN_START : tn_st := mkTn TUser [] 0 false false false.
(* the code (since 1a2f0db the key loop goes on behind a consumed undecodable byte) *)
Definition tn_run (c : segs) : list event * N :=
  (mkEv EV_TN_CONNECT [] :: snd (fst (tn_conn false TN_START [] c)), 0%N).
(* the code BEFORE 1a2f0db: same reads, same remainder, but the loop is left after an undecodable
   byte.  Kept only as the definition behind signature telnet-undecodable-byte-postpones-input,
   so that a regression is reported under its own name *)
Definition tn_run_before_1a2f0db (c : segs) : list event * N :=
  (mkEv EV_TN_CONNECT [] :: snd (fst (tn_conn true TN_START [] c)), 0%N).
(* the reference reading: the whole byte stream decoded key by key *)
Definition tn_expected (s : bytes) : list event * N :=
  (mkEv EV_TN_CONNECT [] :: snd (fst (tn_dec false TN_START s)), 0%N).
(* no undecodable byte (and no U+FFFD) is met when the stream is read as a whole *)
Definition tn_decodable (s : bytes) : bool := negb (t_bad (fst (fst (tn_dec false TN_START s)))).

(* ------------------------------------------------------------------ *)
(* ldap: services/ldap/conn.go readPacket + ldap.go serve + the handler chain *)
(* ------------------------------------------------------------------ *)
Definition EV_LDAP : N := 18%N.        (* [message id (decimal); request type] *)

Fixpoint be_N_acc (acc : N) (l : bytes) : N :=
  match l with [] => acc | b :: r => be_N_acc (acc * 256 + b)%N r end.
Definition be_N (l : bytes) : N := be_N_acc 0%N l.

Fixpoint drop_high (l : bytes) : bytes :=
  match l with
  | x :: r => if (128 <=? x)%N then drop_high r else l
  | [] => []
  end.

(* one BER value in definite form at the head of b: (identifier octet, contents, rest) *)
Definition tlv_split (b : bytes) : option (N * bytes * bytes) :=
  match b with
  | [] => None
  | id :: r0 =>
      let r1 := if beq (N.land id 31) 31%N
                then match drop_high r0 with _ :: t => t | [] => [] end
                else r0 in
      match r1 with
      | [] => None
      | lb :: r2 =>
          if beq lb 128%N then None
          else
            let done (len : N) (r3 : bytes) :=
              if (blen r3 <? len)%N then None
              else Some (id, firstn (N.to_nat len) r3, skipn (N.to_nat len) r3) in
            if (lb <? 128)%N then done lb r2
            else let n := N.land lb 127 in
                 if (4 <? n)%N || (blen r2 <? n)%N then None
                 else done (be_N (firstn (N.to_nat n) r2)) (skipn (N.to_nat n) r2)
      end
  end.

(* tlvLengthsFit: every declared length - recursively for constructed values, at most 32
   levels - stays inside its container *)
Fixpoint tlv_fit (fuel : nat) (depth : nat) (b : bytes) : bool :=
  match fuel with
  | O => false
  | S f =>
      if 32 <? depth then false
      else match b with
           | [] => true
           | _ => match tlv_split b with
                  | None => false
                  | Some (id, v, rest) =>
                      (if N.testbit id 5 then tlv_fit f (S depth) v else true) && tlv_fit f depth rest
                  end
           end
  end.

(* the children of a constructed value: (identifier octet, contents) *)
Fixpoint tlv_list (fuel : nat) (b : bytes) : option (list (N * bytes)) :=
  match fuel with
  | O => None
  | S f => match b with
           | [] => Some []
           | _ => match tlv_split b with
                  | None => None
                  | Some (id, v, rest) =>
                      match tlv_list f rest with
                      | Some l => Some ((id, v) :: l)
                      | None => None
                      end
                  end
           end
  end.

(* INTEGER contents, two's complement, as the decimal text of the event *)
Definition int_dec (v : bytes) : bytes :=
  match v with
  | [] => [48%N]
  | b :: _ => if (b <? 128)%N then N_to_dec (be_N v)
              else 45%N :: N_to_dec (2 ^ (8 * blen v) - be_N v)%N
  end.

(* CatchAll: the tag NUMBER of the protocol op alone selects the type *)
Definition ldap_catchall (tag : N) : bytes :=
  if beq tag 6%N then [109;111;100;105;102;121]%N
  else if beq tag 8%N then [97;100;100]%N
  else if beq tag 10%N then [100;101;108;101;116;101]%N
  else if beq tag 12%N then [109;111;100;105;102;121;45;100;110]%N
  else if beq tag 14%N then [99;111;109;112;97;114;101]%N
  else if beq tag 16%N then [97;98;97;110;100;111;110]%N
  else [].

(* one complete LDAPMessage (t = identifier octet of the envelope): exactly one event; an
   UnbindRequest ends the session; an ExtendedRequest without children panics (type
   assertion on a missing OID) *)
Definition ldap_message (t : N) (content : bytes) (k : prog) : prog :=
  if negb (beq t 48%N) then PDone 1
  else match tlv_list (S (length content)) content with
       | None => PDone 1
       | Some [] => PDone 1                                  (* no message id *)
       | Some ((i0, v0) :: rest) =>
           if negb (beq i0 2%N) then PDone 1
           else
             let id := int_dec v0 in
             match rest with
             | [] => PEmit (mkEv EV_LDAP [id; []]) k          (* no handler looks at it *)
             | (i1, v1) :: _ =>
                 if beq i1 66%N then PEmit (mkEv EV_LDAP [id; [117;110;98;105;110;100]%N]) (PDone 0)
                 else if beq i1 96%N then PEmit (mkEv EV_LDAP [id; [98;105;110;100]%N]) k
                 else if beq i1 99%N then PEmit (mkEv EV_LDAP [id; [115;101;97;114;99;104]%N]) k
                 else if beq i1 119%N then
                   match tlv_list (S (length v1)) v1 with
                   | Some [] => PDone 2
                   | _ => PEmit (mkEv EV_LDAP [id; [101;120;116;101;110;100;101;100]%N]) k
                   end
                 else PEmit (mkEv EV_LDAP [id; ldap_catchall (if beq (N.land i1 31) 31%N then 99%N else N.land i1 31)]) k
             end
       end.

Definition LDAP_MAX : N := 1048576%N.

Fixpoint ldap_prog (fuel : nat) : prog :=
  match fuel with
  | O => PDone OUT_OF_FUEL
  | S f =>
      PTake 2 (fun hdr =>
        match hdr with
        | [t; l0] =>
            if beq (N.land t 31) 31%N then PDone 1                       (* high tag number *)
            else if beq l0 128%N then PDone 1                             (* indefinite length *)
            else
              let body (lenbytes : bytes) (l : N) : prog :=
                if (LDAP_MAX <? l)%N then PDone 1
                else PTake (N.to_nat l) (fun content =>
                       if length content <? N.to_nat l then PDone 1     (* stream ended *)
                       else
                         let buf := hdr ++ lenbytes ++ content in
                         if negb (tlv_fit (S (length buf)) 0 buf) then PDone 1
                         else ldap_message t content (ldap_prog f)) in
              if (l0 <? 128)%N then body [] l0
              else let k := N.land l0 127 in
                   if (4 <? k)%N then PDone 1
                   else PTake (N.to_nat k) (fun lb =>
                          if length lb <? N.to_nat k then PDone 1 else body lb (be_N lb))
        | _ => PDone 1
        end)
  end.


(* ------------------------------------------------------------------ *)
(* snmp: services/snmp/snmp.go on SNMPv1-shaped messages               *)
(* ------------------------------------------------------------------ *)
Definition EV_SNMP : N := 19%N.        (* [type; community; oids] *)

(* asn1.Oid.String of the contents of an OBJECT IDENTIFIER: ".a.b.c..." *)
Fixpoint oid_subids (cur : N) (l : bytes) : list N :=
  match l with
  | [] => []
  | b :: r => if (128 <=? b)%N then oid_subids (cur * 128 + (b - 128))%N r
              else (cur * 128 + b)%N :: oid_subids 0%N r
  end.
Definition oid_text (v : bytes) : bytes :=
  match v with
  | [] => []
  | b0 :: r => flat_map (fun n => 46%N :: N_to_dec n) ((b0 / 40)%N :: (b0 - 40 * (b0 / 40))%N :: oid_subids 0%N r)
  end.

(* the variable bindings' names, joined with "," *)
Definition snmp_oids (varbinds : bytes) : option bytes :=
  match tlv_list (S (length varbinds)) varbinds with
  | None => None
  | Some vbs =>
      let names := map (fun vb : N * bytes =>
                     match tlv_list (S (length (snd vb))) (snd vb) with
                     | Some ((6%N, o) :: _) => oid_text o
                     | _ => []
                     end) vbs in
      Some (join_comma names)
  end.

Definition s_get_request := [103;101;116;45;114;101;113;117;101;115;116]%N.
Definition s_get_next_request := [103;101;116;45;110;101;120;116;45;114;101;113;117;101;115;116]%N.
Definition s_set_request := [115;101;116;45;114;101;113;117;101;115;116]%N.
Definition s_unknown_packet := [117;110;107;110;111;119;110;45;112;97;99;107;101;116]%N.

(* b: what the buffered reader holds after Peek(2) (the datagram, at most 4096 bytes); the
   message buffer has 2 + b[1] bytes (zero-filled if the datagram is shorter) *)
Definition snmp_event (b : bytes) : prog :=
  match b with
  | _ :: l0 :: _ =>
      let size := 2 + N.to_nat l0 in
      let buf := firstn size b in
      (* a datagram shorter than its declared length is decoded zero-filled by the code; the
         ASN.1 library rejects what the generator produces that way: modelled as "no event" *)
      if length b <? size then PDone 1
      else if negb (tlv_fit (S (length buf)) 0 buf) then PDone 0
      else match tlv_split buf with
           | Some (48%N, content, []) =>
               match tlv_list (S (length content)) content with
               | Some [(2%N, ver); (4%N, community); (pid, pdu)] =>
                   match tlv_list (S (length pdu)) pdu with
                   | Some [(2%N, _); (2%N, _); (2%N, _); (48%N, varbinds)] =>
                       if negb (beq (be_N ver) 0%N) then
                         (if ((160 <=? pid) && (pid <=? 163))%N
                          then PEmit (mkEv EV_SNMP [s_unknown_packet; community; []]) (PDone 0) else PDone 1)
                       else
                         match snmp_oids varbinds with
                         | None => PDone 1
                         | Some oids =>
                             if beq pid 160%N then PEmit (mkEv EV_SNMP [s_get_request; community; oids]) (PDone 0)
                             else if beq pid 161%N then PEmit (mkEv EV_SNMP [s_get_next_request; community; oids]) (PDone 0)
                             else if beq pid 163%N then PEmit (mkEv EV_SNMP [s_set_request; community; oids]) (PDone 0)
                             else PDone 0                      (* "Unsupported PDU" *)
                         end
                   | _ => PDone 1
                   end
               | _ => PDone 1
               end
           | Some (_, _, _ :: _) => PDone 0                     (* remaining > 0 *)
           | _ => PDone 1
           end
  | _ => PDone 1                                                (* Peek(2) fails *)
  end.
Definition snmp_prog (exact : bool) : prog :=
  (if exact then PTake else PRead) BUFSZ (fun b => snmp_event b).

(* ------------------------------------------------------------------ *)
(* service table                                                       *)
(* ------------------------------------------------------------------ *)
Definition SVC_FTP : N := 1%N.
Definition SVC_SMTP : N := 2%N.
Definition SVC_REDIS : N := 3%N.
Definition SVC_MEMCACHED : N := 4%N.
Definition SVC_HTTP : N := 5%N.
Definition SVC_DOCKER : N := 6%N.
Definition SVC_ELASTIC : N := 7%N.
Definition SVC_EOS : N := 8%N.
Definition SVC_ETHEREUM : N := 9%N.
Definition SVC_CWMP : N := 10%N.
Definition SVC_TELNET : N := 11%N.   (* not a reader program: tn_run / tn_expected *)
Definition SVC_LDAP : N := 12%N.
Definition SVC_MEMCACHED_UDP : N := 20%N.
Definition SVC_TFTP : N := 21%N.
Definition SVC_CS : N := 22%N.
Definition SVC_DNS : N := 23%N.
Definition SVC_SNMP : N := 25%N.

(* the code *)
Definition impl_prog (svc : N) (fuel : nat) : prog :=
  if beq svc SVC_FTP then ftp_prog fuel
  else if beq svc SVC_SMTP then smtp_prog true fuel SHello 0 []
  else if beq svc SVC_REDIS then redis_prog fuel []
  else if beq svc SVC_MEMCACHED then memcached_prog None fuel
  else if beq svc SVC_HTTP then http_prog cfg_http false fuel
  else if beq svc SVC_DOCKER then http_prog cfg_docker true fuel
  else if beq svc SVC_ELASTIC then http_prog cfg_elastic true fuel
  else if beq svc SVC_EOS then http_prog cfg_eos true fuel
  else if beq svc SVC_ETHEREUM then http_prog cfg_ethereum true fuel
  else if beq svc SVC_CWMP then http_prog cfg_cwmp true fuel
  else if beq svc SVC_LDAP then ldap_prog fuel
  else if beq svc SVC_MEMCACHED_UDP then memcached_udp_prog false None fuel
  else if beq svc SVC_TFTP then tftp_prog false
  else if beq svc SVC_CS then cs_prog false
  else if beq svc SVC_DNS then dns_prog false
  else if beq svc SVC_SNMP then snmp_prog false
  else PDone 0.

(* the reference reading of the same byte stream: one reader per connection, exact counts *)
Definition spec_prog (svc : N) (fuel : nat) : prog :=
  if beq svc SVC_FTP then ftp_prog fuel
  else if beq svc SVC_SMTP then smtp_prog true fuel SHello 0 []
  else if beq svc SVC_REDIS then redis_prog fuel []
  else if beq svc SVC_MEMCACHED then memcached_prog None fuel
  else if beq svc SVC_HTTP then http_prog cfg_http false fuel
  else if beq svc SVC_DOCKER then http_prog cfg_docker false fuel
  else if beq svc SVC_ELASTIC then http_prog cfg_elastic false fuel
  else if beq svc SVC_EOS then http_prog cfg_eos false fuel
  else if beq svc SVC_ETHEREUM then http_prog cfg_ethereum false fuel
  else if beq svc SVC_CWMP then http_prog cfg_cwmp false fuel
  else if beq svc SVC_LDAP then ldap_prog fuel
  else if beq svc SVC_MEMCACHED_UDP then memcached_udp_prog true None fuel
  else if beq svc SVC_TFTP then tftp_prog true
  else if beq svc SVC_CS then cs_prog true
  else if beq svc SVC_DNS then dns_prog true
  else if beq svc SVC_SNMP then snmp_prog true
  else PDone 0.

Definition fuel_for (s : bytes) : nat := 3 * length s + 10.

Definition run_impl (svc : N) (c : segs) : list event * N :=
  seg_obs (impl_prog svc (fuel_for (concat c))) c.
Definition expected (svc : N) (s : bytes) : list event * N :=
  str_obs (spec_prog svc (fuel_for s)) s.

(* ------------------------------------------------------------------ *)
(* datagram sequences from ONE source: services.Limiter (burst 4, one token per ten minutes -
   no refill within a run).  t = tokens left for the source.  Events must not depend on t:
   the limiter is there to withhold REPLIES. *)
(* ------------------------------------------------------------------ *)
Definition LIMITER_BURST : nat := 4.
Definition count_ty (ty : N) (es : list event) : nat := length (filter (fun e => beq (ev_ty e) ty) es).

Definition EV_TFTP_FILE : N := 20%N.   (* [filename; mode; content] of a finished upload *)

(* tftp is a multi-datagram protocol: a WRQ opens an upload for its source address (ip:port),
   DATA blocks append to it, a block shorter than 512 bytes ends it and is reported with the
   filename and mode of ITS write request.  st = the open upload of the source. *)
Definition tftp_upload := option (bytes * bytes * bytes).

(* the state change and the write-file event of one datagram (d at most one buffer long) *)
Definition tftp_transfer (st : tftp_upload) (d : bytes) : tftp_upload * list event :=
  match d with
  | _ :: o :: r =>
      if beq o 2%N then
        (* WRQ: both strings complete -> a NEW upload replaces whatever was open *)
        match split_delim 0%N r with
        | Some (fname, r2) =>
            match split_delim 0%N r2 with
            | Some (mode, _) => (Some (fname, mode, []), [])
            | None => (st, [])
            end
        | None => (st, [])
        end
      else if beq o 3%N then
        (* DATA: 2 bytes block number (an empty rest is an error), then one Read of 512 *)
        match r with
        | [] => (st, [])
        | _ =>
            let data := firstn 512 (skipn 2 r) in
            match st with
            | None => (None, [])                                   (* no matching buffer *)
            | Some (fname, mode, content) =>
                if length data =? 512 then (Some (fname, mode, content ++ data), [])
                else (None, [mkEv EV_TFTP_FILE [fname; mode; content ++ data]])
            end
        end
      else (st, [])
  | _ => (st, [])
  end.

(* one datagram: (events, return code, tokens left, upload state) *)
Definition udp_one (svc : N) (t : nat) (st : tftp_upload) (d : bytes) : list event * N * nat * tftp_upload :=
  if beq svc SVC_TFTP then
    (* Allow is asked first: a refused datagram is neither decoded nor reported *)
    match t with
    | O => ([], 0%N, 0, st)
    | S t' => let '(es, c) := seg_obs (tftp_prog false) [d] in
              let '(st', fe) := tftp_transfer st d in (es ++ fe, c, t', st')
    end
  else if beq svc SVC_MEMCACHED_UDP then
    let '(es, c) := seg_obs (memcached_udp_prog false (Some t) (fuel_for d)) [d] in
    (es, c, t - Nat.min t (count_ty EV_MC_CMD es), st)
  else
    (* counterstrike, snmp: Allow is asked after the events were sent; dns has no limiter *)
    let '(es, c) := run_impl svc [d] in (es, c, Nat.pred t, st).

Fixpoint udp_seq_st (svc : N) (t : nat) (st : tftp_upload) (ds : list bytes) : list event * N :=
  match ds with
  | [] => ([], 0%N)
  | d :: r => let '(es, c, t', st') := udp_one svc t st d in
              let '(es2, c2) := udp_seq_st svc t' st' r in
              (es ++ es2, if beq c 2%N then 2%N else c2)
  end.
Definition udp_seq (svc : N) (t : nat) (ds : list bytes) : list event * N := udp_seq_st svc t None ds.

(* reference: every datagram is reported on its own; uploads as above, no limiter *)
Fixpoint udp_seq_expected_st (svc : N) (st : tftp_upload) (ds : list bytes) : list event * N :=
  match ds with
  | [] => ([], 0%N)
  | d :: r => let '(es, c) := expected svc d in
              let '(st', fe) := if beq svc SVC_TFTP then tftp_transfer st d else (st, []) in
              let '(es2, c2) := udp_seq_expected_st svc st' r in
              (es ++ fe ++ es2, if beq c 2%N then 2%N else c2)
  end.
Definition udp_seq_expected (svc : N) (ds : list bytes) : list event * N := udp_seq_expected_st svc None ds.

Definition SEQ_BASE : N := 100%N.     (* service code of a sequence case = 100 + service code *)

(* all services: telnet has its own reader (the terminal), the others are reader programs *)
Definition run_model (svc : N) (c : segs) : list event * N :=
  if beq svc SVC_TELNET then tn_run c
  else if (SEQ_BASE <=? svc)%N then udp_seq (svc - SEQ_BASE) LIMITER_BURST c
  else run_impl svc c.
(* for a sequence case the segments ARE the datagrams *)
Definition reference_segs (svc : N) (c : segs) : list event * N :=
  if (SEQ_BASE <=? svc)%N then udp_seq_expected (svc - SEQ_BASE) c
  else if beq svc SVC_TELNET then tn_expected (concat c) else expected svc (concat c).
Definition reference (svc : N) (s : bytes) : list event * N :=
  if beq svc SVC_TELNET then tn_expected s else expected svc s.
