(* C18 - property theorems: sensor identity survives restarts and interrupted first starts.
   The model is the code as it is in /repo (WithToken reads the file, adopts it only if it
   holds a well-formed id, otherwise writes token.tmp and renames).
   Remark: before /repo commit "fix: WithToken writes the token atomically and ignores an
   empty or cut-short token file" the token was written in place and any existing file was
   adopted, so a kill during the first write left an empty or cut-short token for ever;
   such files are now initial states covered by C18_token_crash_safe /
   C18_legacy_token_healed, and the harness replays every one of them. *)
From HT Require Import Common.Bytes C18.Model C18.Check C18.Proofs.
Open Scope nat_scope.

(* ---- the token: kills at any point of any start ---- *)

(* MAIN: whatever state the disk was in before a start (no token file, an established
   token, a legacy empty / cut-short / otherwise malformed file), whatever services it
   enabled and wherever it was killed (every on-disk state it passes through, the states
   of the token.tmp write and of the key-value Sets included): the next completed start
   uses a well-formed token, leaves exactly it in the token file, every later start of
   every history keeps it, and a well-formed token established before is the one used *)
Theorem C18_token_crash_safe :
  forall f d cfg d' f' cfg' h,
    token_wf (f_token f) = true -> token_wf (f_token f') = true ->
    Forall (fun fc => token_wf (f_token (fst fc)) = true) h ->
    In d' (crash_states f d cfg) ->
    let tok := id_token (ident f' d' cfg') in
    token_wf tok = true /\
    d_token (after f' d' cfg') = Some tok /\
    Forall (fun id => id_token id = tok) (runs (after f' d' cfg') h) /\
    (forall t, d_token d = Some t -> token_wf t = true -> tok = t).
Proof. exact token_crash_safe_proved. Qed.

(* at every crash point the token file is what it was before the start, or the complete
   fresh id (only when there was no well-formed token before) - never a part of it *)
Theorem C18_token_file_never_partial : forall f d cfg d',
  In d' (crash_states f d cfg) ->
  d_token d' = d_token d \/
  (d_token d' = Some (f_token f) /\ (forall b, d_token d = Some b -> token_wf b = false)).
Proof. exact crash_state_token. Qed.

(* a legacy token file that is not a well-formed id is replaced by the start's fresh id ... *)
Theorem C18_legacy_token_healed : forall f d cfg,
  (forall b, d_token d = Some b -> token_wf b = false) ->
  id_token (ident f d cfg) = f_token f /\ d_token (after f d cfg) = Some (f_token f).
Proof. exact legacy_token_healed. Qed.

(* ... which covers the empty file and every proper prefix of an id *)
Theorem C18_prefix_is_not_a_token : forall t k,
  token_wf t = true -> k < 20 -> token_wf (firstn k t) = false.
Proof. exact prefix_not_wf. Qed.

(* ---- any number of restarts: the identity stays as first used ---- *)

(* over every history of completed starts on one data directory, from ANY initial disk
   and with any sets of enabled services, every later start stamps the same token as the
   first one *)
Theorem C18_token_stable : forall d h id1 rest,
  Forall (fun fc => token_wf (f_token (fst fc)) = true) h ->
  runs d h = id1 :: rest -> Forall (fun id => id_token id = id_token id1) rest.
Proof. exact token_stable. Qed.

(* ... and whenever two starts of the history both use an item (SSH host key, a TLS key or
   certificate of ftp/smtp/ldap, the agent key), it is the same value *)
Theorem C18_items_stable : forall h d i j idi idj it v w,
  i <= j -> nth_error (runs d h) i = Some idi -> nth_error (runs d h) j = Some idj ->
  In (it, v) (id_items idi) -> In (it, w) (id_items idj) -> v = w.
Proof. exact items_stable. Qed.

(* what a completed start uses is what it leaves on disk ... *)
Theorem C18_token_persisted : forall f d cfg,
  d_token (after f d cfg) = Some (id_token (ident f d cfg)).
Proof. exact start_token_persisted. Qed.

Theorem C18_items_persisted : forall f d cfg it v,
  In (it, v) (id_items (ident f d cfg)) -> kv_get (d_kv (after f d cfg)) it = Some v.
Proof. exact start_items_persisted. Qed.

(* ... and nothing stored is ever overwritten or removed, at any crash point of any start *)
Theorem C18_stored_items_kept : forall f d cfg d' it w,
  In d' (crash_states f d cfg) -> kv_get (d_kv d) it = Some w -> kv_get (d_kv d') it = Some w.
Proof. exact stored_items_kept. Qed.

(* ---- kills: key-value items ---- *)

(* every on-disk state a kill can leave keeps the store well-formed: each stored value is
   accepted by its library and each stored certificate has its key next to it and matches
   it ([wfk], [pairs]: any predicates the generators' outputs satisfy) *)
Theorem C18_kv_items_crash_safe : forall wfk pairs f d cfg d',
  fresh_ok wfk pairs f -> kv_ok wfk pairs d -> In d' (crash_states f d cfg) ->
  kv_ok wfk pairs d' /\ kvext d d'.
Proof. exact crash_states_ok. Qed.

(* the next completed start after a kill anywhere uses well-formed items, each
   certificate matching the key in use (a key left without certificate gets one made
   from that key), adopts everything the killed start had stored, and leaves a
   well-formed store - from where C18_items_stable keeps them *)
Theorem C18_items_after_crash : forall wfk pairs f d cfg d' f' cfg',
  fresh_ok wfk pairs f -> fresh_ok wfk pairs f' -> kv_ok wfk pairs d ->
  In d' (crash_states f d cfg) ->
  let id := ident f' d' cfg' in
  (forall it v, In (it, v) (id_items id) -> wfk it v = true) /\
  (forall c kk v, key_of c = Some kk -> In (c, v) (id_items id) ->
     exists kb, kv_get (d_kv (after f' d' cfg')) kk = Some kb /\ pairs v kb = true) /\
  (forall it v w, kv_get (d_kv d') it = Some w -> In (it, v) (id_items id) -> v = w) /\
  kv_ok wfk pairs (after f' d' cfg').
Proof. exact items_crash_safe. Qed.

(* ---- starts that fail (store locked by a process still running, transient Open errors) ---- *)

(* a start whose badger.Open fails passes through no on-disk state and uses no identity;
   hence over EVERY history with failed starts interleaved anywhere, the identities of
   the completed starts and the final disk are those of the history without them *)
Theorem C18_failed_starts_change_nothing : forall h d,
  runs_h d h = runs d (completed_steps h) /\ after_h d h = after_all d (completed_steps h).
Proof. exact failed_starts_change_nothing. Qed.

Theorem C18_token_stable_with_failed_starts : forall d h id1 rest,
  Forall (fun s => hs_open_fails s = false -> token_wf (f_token (hs_fresh s)) = true) h ->
  runs_h d h = id1 :: rest -> Forall (fun id => id_token id = id_token id1) rest.
Proof. exact token_stable_h. Qed.

Theorem C18_items_stable_with_failed_starts : forall h d i j idi idj it v w,
  i <= j -> nth_error (runs_h d h) i = Some idi -> nth_error (runs_h d h) j = Some idj ->
  In (it, v) (id_items idi) -> In (it, w) (id_items idj) -> v = w.
Proof. exact items_stable_h. Qed.

(* ---- the token as delivered ---- *)

(* for every set of configured channels, every list of [[filter]] sections (a channel named
   by any number of them, unknown channel names, with or without categories) and every
   event: whatever arrives on a channel carries the sensor's token ... *)
Theorem C18_delivered_token : forall tok ev_tok defined fs cat d,
  In d (deliver tok ev_tok (wire defined fs) cat) -> snd d = tok.
Proof. exact delivered_token. Qed.

(* ... and it arrives through every filter that lists the channel and admits the event *)
Theorem C18_delivery_complete : forall tok ev_tok defined fs f c cat,
  In f fs -> In c (fl_chans f) -> In c defined ->
  (fl_cats f = [] \/ In cat (fl_cats f)) ->
  In (c, tok) (deliver tok ev_tok (wire defined fs) cat).
Proof. exact delivery_complete. Qed.

(* ---- how the data directory is spelled ---- *)

(* for every spelling (absolute, relative, through ~, with .. components) the token file,
   token.tmp and the store are in ONE directory, the one the spelling denotes ... *)
Theorem C18_state_in_data_dir : forall home cwd s,
  token_path home cwd s = data_dir home cwd s ++ [TOKEN] /\
  token_tmp_path home cwd s = data_dir home cwd s ++ [TOKEN_TMP] /\
  store_path home cwd s = data_dir home cwd s ++ [BADGER_DB].
Proof. exact state_in_data_dir. Qed.

(* ... so starts whose spellings denote one directory (whatever home and working
   directory each had) act on the same token file, token.tmp and store: the disk of the
   history theorems *)
Theorem C18_same_dir_same_state : forall home cwd home' cwd' s s',
  resolve home cwd s = resolve home' cwd' s' ->
  token_path home cwd s = token_path home' cwd' s' /\
  token_tmp_path home cwd s = token_tmp_path home' cwd' s' /\
  store_path home cwd s = store_path home' cwd' s'.
Proof. exact same_dir_same_state. Qed.

Theorem C18_spelling_abs : forall home cwd ns, resolve home cwd (mkSpell false true (map Name ns)) = ns.
Proof. exact resolve_abs. Qed.
Theorem C18_spelling_tilde : forall home cwd ns, resolve home cwd (mkSpell true false (map Name ns)) = home ++ ns.
Proof. exact resolve_tilde. Qed.
Theorem C18_spelling_relative : forall home cwd ns, resolve home cwd (mkSpell false false (map Name ns)) = cwd ++ ns.
Proof. exact resolve_rel. Qed.
Theorem C18_spelling_dotdot : forall home cwd t a cs n,
  resolve home cwd (mkSpell t a (cs ++ [Name n; Up])) = resolve home cwd (mkSpell t a cs).
Proof. exact resolve_dotdot. Qed.

(* ---- what each service instance presents ---- *)

(* every instance offers exactly one host key algorithm / certificate type, with the value
   of C18_presented_identity *)
Theorem C18_presented_algorithms : forall stored is,
  presented_algs stored is = map (fun i => [(1%N, presented_spec stored i)]) is.
Proof. exact presented_algs_spec. Qed.


(* for every list of configured instances (any kinds, any number of instances sharing one
   stored identity, any construction order) every instance presents the stored identity,
   except an ssh-auth instance given the private-key option, which presents that key:
   constructing or configuring one instance never changes what another presents *)
Theorem C18_presented_identity : forall stored is,
  presented stored is = map (presented_spec stored) is.
Proof. exact presented_is_spec. Qed.

Theorem C18_presented_stored : forall stored is n i,
  nth_error is n = Some i -> has_opkey i = false ->
  nth_error (presented stored is) n = Some (stored (i_kind i)).
Proof. exact presented_stored. Qed.

(* ---- the checker ---- *)

(* observations that agree with the model (no mismatch) cannot trip the checks
   token-changed (value part), token-not-persisted and stored-item-changed (store part):
   those checks follow from the theorems above and are never stricter than the property *)
Theorem C18_check_consistent : forall c,
  agrees (c_disk0 c) (ok_runs c) = true -> tokens_wf (ok_runs c) = true ->
  tokens_equal (ok_runs c) = true /\ tokens_persisted (ok_runs c) = true /\
  kv_monotone (d_kv (c_disk0 c)) (map (fun r => d_kv (r_disk r)) (ok_runs c)) = true.
Proof. exact check_consistent. Qed.

(* ---- non-vacuity ---- *)
Example C18_spelling_nonvacuous :
  let home := [1; 2]%N in let cwd := [3; 4; 5]%N in
  resolve home cwd (mkSpell true false [Name 7; Name 8]) = [1; 2; 7; 8]%N /\
  resolve home cwd (mkSpell false true [Name 1; Name 9; Up; Name 2; Name 7; Name 8]) = [1; 2; 7; 8]%N /\
  resolve [3;4]%N cwd (mkSpell false false [Up; Name 6]) = [3; 4; 6]%N /\
  token_path home cwd (mkSpell true false [Name 7]) = [1; 2; 7; 1000]%N.
Proof. vm_compute. repeat split; reflexivity. Qed.

Example C18_delivery_nonvacuous :
  let fs := [mkFilt [1] [10]; mkFilt [1; 2; 9] [11]; mkFilt [2; 1] []]%N in
  deliver [7]%N [] (wire [1; 2]%N fs) 11 = [(1, [7]); (2, [7]); (2, [7]); (1, [7])]%N /\
  deliver [7]%N [] (wire [1; 2]%N fs) 12 = [(2, [7]); (1, [7])]%N.
Proof. vm_compute. split; reflexivity. Qed.

Example C18_presented_nonvacuous :
  presented (fun k => [item_code (shown_item k)])
            [mkInst KSim None; mkInst KAuth (Some [99]%N); mkInst KJail None; mkInst KAuth None; mkInst KFtp None; mkInst KFtp None]
  = [[1]; [99]; [1]; [1]; [3]; [3]]%N.
Proof. vm_compute. reflexivity. Qed.

Definition tok0 : bytes := [100;97;117;113;118;50;106;56;100;105;49;50;50;56;100;51;114;109;116;48]%N.
Definition ex_fresh (n : N) : fresh :=
  mkFresh (firstn 19 tok0 ++ [48 + n]%N) (fun it => [item_code it; n]%N) (fun it kb => (item_code it :: n :: kb)%N).
Definition ex_wfk (it : item) (v : bytes) : bool := match v with c :: _ => (c =? item_code it)%N | [] => false end.
Definition ex_pairs (c k : bytes) : bool := match c with _ :: _ :: kb => eqb_bytes kb k | _ => false end.

(* the generator hypotheses are satisfiable *)
Example C18_fresh_ok_nonvacuous : forall n, fresh_ok ex_wfk ex_pairs (ex_fresh n).
Proof.
  intro n. split.
  - intros k _. destruct k; reflexivity.
  - intros c kk kb _. split; [destruct c; reflexivity|].
    unfold ex_pairs, ex_fresh, f_cert. apply eqb_bytes_true. reflexivity.
Qed.

Example C18_fresh_tokens_wf : forallb (fun n => token_wf (f_token (ex_fresh n))) [1; 2; 3; 4]%N = true.
Proof. vm_compute. reflexivity. Qed.

(* a first start killed between Set(pemkey) and Set(pemcert) of ftp and after the ssh key;
   three further starts with different service sets and different generator outputs:
   the crash state is a member of the model's crash states, the certificate is made from
   the surviving key, and every identity value is that of the first completed start *)
Example C18_history_nonvacuous :
  let d1 := nth 24 (crash_states (ex_fresh 1) empty_disk [Ssh; Ftp; Ldap]) empty_disk in
  d_kv d1 = [(FtpKey, [2; 1]); (SshKey, [1; 1])]%N /\ d_token d1 = Some (f_token (ex_fresh 1)) /\
  map id_items (runs d1 [(ex_fresh 2, [Ftp]); (ex_fresh 3, [Ssh; Smtp]); (ex_fresh 4, [Ftp; Ssh; Agent])])
  = [[(FtpKey, [2; 1]); (FtpCert, [3; 2; 2; 1])];
     [(SshKey, [1; 1]); (SmtpKey, [4; 3]); (SmtpCert, [5; 3; 4; 3])];
     [(FtpKey, [2; 1]); (FtpCert, [3; 2; 2; 1]); (SshKey, [1; 1]); (AgentKey, [8; 4])]]%N /\
  map id_token (runs d1 [(ex_fresh 2, [Ftp]); (ex_fresh 3, [Ssh; Smtp]); (ex_fresh 4, [Ftp; Ssh; Agent])])
  = [f_token (ex_fresh 1); f_token (ex_fresh 1); f_token (ex_fresh 1)].
Proof. vm_compute. repeat split; reflexivity. Qed.

(* a start killed while token.tmp holds 7 of the 20 bytes: no token file yet, the next
   start writes its own id and keeps it; a legacy empty and a legacy 5-byte token file are
   healed the same way *)
Example C18_tmp_crash_and_legacy_nonvacuous :
  let d1 := nth 8 (crash_states (ex_fresh 1) empty_disk [Ssh]) empty_disk in
  d_token d1 = None /\ d_tmp d1 = Some (firstn 7 (f_token (ex_fresh 1))) /\
  map id_token (runs d1 [(ex_fresh 2, []); (ex_fresh 3, [Ssh])]) = [f_token (ex_fresh 2); f_token (ex_fresh 2)] /\
  map id_token (runs (mkDisk (Some []) None []) [(ex_fresh 2, []); (ex_fresh 3, [Ssh])])
    = [f_token (ex_fresh 2); f_token (ex_fresh 2)] /\
  map id_token (runs (mkDisk (Some (firstn 5 tok0)) None []) [(ex_fresh 3, []); (ex_fresh 4, [])])
    = [f_token (ex_fresh 3); f_token (ex_fresh 3)].
Proof. vm_compute. repeat split; reflexivity. Qed.

Print Assumptions C18_token_crash_safe.
Print Assumptions C18_token_file_never_partial.
Print Assumptions C18_legacy_token_healed.
Print Assumptions C18_prefix_is_not_a_token.
Print Assumptions C18_token_stable.
Print Assumptions C18_items_stable.
Print Assumptions C18_token_persisted.
Print Assumptions C18_items_persisted.
Print Assumptions C18_stored_items_kept.
Print Assumptions C18_kv_items_crash_safe.
Print Assumptions C18_items_after_crash.
Print Assumptions C18_failed_starts_change_nothing.
Print Assumptions C18_token_stable_with_failed_starts.
Print Assumptions C18_items_stable_with_failed_starts.
Print Assumptions C18_delivered_token.
Print Assumptions C18_delivery_complete.
Print Assumptions C18_state_in_data_dir.
Print Assumptions C18_same_dir_same_state.
Print Assumptions C18_spelling_abs.
Print Assumptions C18_spelling_tilde.
Print Assumptions C18_spelling_relative.
Print Assumptions C18_spelling_dotdot.
Print Assumptions C18_presented_algorithms.
Print Assumptions C18_presented_identity.
Print Assumptions C18_presented_stored.
Print Assumptions C18_check_consistent.
