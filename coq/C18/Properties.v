(* C18 - property theorems: sensor identity survives restarts and interrupted first starts.
   [fixed = false] is server.WithToken as it is in /repo, [fixed = true] the repaired
   function of fixes/C18-token-atomic-write.patch; the key-value part is the same in both. *)
From HT Require Import Common.Bytes C18.Model C18.Check C18.Proofs.
Open Scope nat_scope.

(* ---- any number of restarts: the identity stays as first used ---- *)

(* over every history of completed starts on one data directory, from ANY initial disk
   and with any sets of enabled services, every later start stamps the same token as the
   first one (for the repaired code the generator's outputs must be well-formed ids) *)
Theorem C18_token_stable : forall fixed d h id1 rest,
  (fixed = true -> Forall (fun fc => token_wf (f_token (fst fc)) = true) h) ->
  runs fixed d h = id1 :: rest -> Forall (fun id => id_token id = id_token id1) rest.
Proof. exact token_stable. Qed.

(* ... and whenever two starts of the history both use an item (SSH host key, a TLS key or
   certificate of ftp/smtp/ldap, the agent key), it is the same value *)
Theorem C18_items_stable : forall fixed h d i j idi idj it v w,
  i <= j -> nth_error (runs fixed d h) i = Some idi -> nth_error (runs fixed d h) j = Some idj ->
  In (it, v) (id_items idi) -> In (it, w) (id_items idj) -> v = w.
Proof. exact items_stable. Qed.

(* what a completed start uses is what it leaves on disk ... *)
Theorem C18_token_persisted : forall fixed f d cfg,
  d_token (after fixed f d cfg) = Some (id_token (ident fixed f d cfg)).
Proof. exact start_token_persisted. Qed.

Theorem C18_items_persisted : forall fixed f d cfg it v,
  In (it, v) (id_items (ident fixed f d cfg)) -> kv_get (d_kv (after fixed f d cfg)) it = Some v.
Proof. exact start_items_persisted. Qed.

(* ... and nothing stored is ever overwritten or removed, at any crash point of any start *)
Theorem C18_stored_items_kept : forall fixed f d cfg d' it w,
  In d' (crash_states fixed f d cfg) -> kv_get (d_kv d) it = Some w -> kv_get (d_kv d') it = Some w.
Proof. exact stored_items_kept. Qed.

(* ---- kills: key-value items ---- *)

(* every on-disk state a kill can leave keeps the store well-formed: each stored value is
   accepted by its library and each stored certificate has its key next to it and matches
   it ([wfk], [pairs]: any predicates the generators' outputs satisfy) *)
Theorem C18_kv_items_crash_safe : forall wfk pairs fixed f d cfg d',
  fresh_ok wfk pairs f -> kv_ok wfk pairs d -> In d' (crash_states fixed f d cfg) ->
  kv_ok wfk pairs d' /\ kvext d d'.
Proof. exact crash_states_ok. Qed.

(* the next completed start after a kill anywhere uses well-formed items, each
   certificate matching the key in use (a key left without certificate gets one made
   from that key), adopts everything the killed start had stored, and leaves a
   well-formed store - from where C18_items_stable keeps them *)
Theorem C18_items_after_crash : forall wfk pairs fixed f d cfg d' f' cfg',
  fresh_ok wfk pairs f -> fresh_ok wfk pairs f' -> kv_ok wfk pairs d ->
  In d' (crash_states fixed f d cfg) ->
  let id := ident fixed f' d' cfg' in
  (forall it v, In (it, v) (id_items id) -> wfk it v = true) /\
  (forall c kk v, key_of c = Some kk -> In (c, v) (id_items id) ->
     exists kb, kv_get (d_kv (after fixed f' d' cfg')) kk = Some kb /\ pairs v kb = true) /\
  (forall it v w, kv_get (d_kv d') it = Some w -> In (it, v) (id_items id) -> v = w) /\
  kv_ok wfk pairs (after fixed f' d' cfg').
Proof. exact items_crash_safe. Qed.

(* ---- kills: the token ---- *)

(* full statement [token_crash_safe]: after a kill at any point of a start (on a
   directory without token or with an established one) the next completed start uses a
   well-formed token, persists it, and an established token is the one used.
   It holds of the repaired WithToken ... *)
Theorem C18_token_crash_safe_repaired : token_crash_safe true.
Proof. exact token_crash_safe_repaired. Qed.

(* ... for which the first two parts hold on any disk state whatsoever *)
Theorem C18_token_repaired_any_disk : forall d' f' cfg',
  token_wf (f_token f') = true ->
  token_wf (id_token (ident true f' d' cfg')) = true /\
  d_token (after true f' d' cfg') = Some (id_token (ident true f' d' cfg')).
Proof. exact token_crash_safe_fixed_any. Qed.

(* FINDING: it does not hold of WithToken as it is in /repo *)
Theorem C18_token_crash_safe_current_refuted : ~ token_crash_safe false.
Proof. exact token_crash_safe_current_refuted. Qed.

(* the defect class exactly: a kill during the first write leaves the token file empty or
   holding a proper prefix (k = 0..19); EVERY such state is reachable, is adopted by the
   next start as its token, and is not a well-formed id (and by C18_token_stable it is
   then kept forever) *)
Theorem C18_token_current_every_prefix_adopted : forall f cfg k f' cfg',
  token_wf (f_token f) = true -> k < 20 ->
  exists d', In d' (crash_states false f empty_disk cfg) /\
             d_token d' = Some (firstn k (f_token f)) /\
             id_token (ident false f' d' cfg') = firstn k (f_token f) /\
             token_wf (firstn k (f_token f)) = false.
Proof. exact token_current_every_prefix_adopted. Qed.

(* the only token-file states the code as it is can pass through *)
Theorem C18_token_current_crash_states : forall f d cfg d',
  In d' (crash_states false f d cfg) ->
  d_token d' = d_token d \/
  (d_token d = None /\ exists k, k <= length (f_token f) /\ d_token d' = Some (firstn k (f_token f))).
Proof. exact crash_state_token_cur. Qed.

(* outside the defect class (the kill left no token file or a complete one) the code as
   it is satisfies the full statement *)
Theorem C18_token_crash_safe_current_outside : forall f d cfg d' f' cfg',
  token_wf (f_token f') = true -> token_settled d -> In d' (crash_states false f d cfg) ->
  token_settled d' ->
  token_wf (id_token (ident false f' d' cfg')) = true /\
  d_token (after false f' d' cfg') = Some (id_token (ident false f' d' cfg')) /\
  (forall t, d_token d = Some t -> token_wf t = true -> id_token (ident false f' d' cfg') = t).
Proof. exact token_crash_safe_current_outside. Qed.

(* ---- the checker ---- *)

(* observations that agree with the model (no mismatch) cannot trip the checks
   token-changed (value part), token-not-persisted and stored-item-changed (store part):
   those checks follow from the theorems above and are never stricter than the property *)
Theorem C18_check_consistent : forall fixed c,
  agrees fixed (c_disk0 c) (c_runs c) = true -> (fixed = true -> tokens_wf (c_runs c) = true) ->
  tokens_equal (c_runs c) = true /\ tokens_persisted (c_runs c) = true /\
  kv_monotone (d_kv (c_disk0 c)) (map (fun r => d_kv (r_disk r)) (c_runs c)) = true.
Proof. exact check_consistent. Qed.

(* ---- non-vacuity ---- *)
Definition ex_fresh (n : N) : fresh :=
  mkFresh (firstn 19 tok0 ++ [48 + n]%N) (fun it => [item_code it; n]%N) (fun it kb => (item_code it :: n :: kb)%N).
Definition ex_wfk (it : item) (v : bytes) : bool := match v with c :: _ => (c =? item_code it)%N | [] => false end.
Definition ex_pairs (c k : bytes) : bool := match c with _ :: _ :: kb => eqb_bytes kb k | _ => false end.

(* the generator hypotheses are satisfiable *)
Example C18_fresh_ok_nonvacuous : forall n, fresh_ok ex_wfk ex_pairs (ex_fresh n).
Proof.
  intro n. split.
  - intros k _. destruct k; reflexivity.
  - intros c kk kb _. split; [destruct c; reflexivity|].
    unfold ex_pairs, ex_fresh, f_cert. apply eqb_bytes_true. reflexivity.
Qed.

(* a first start killed between Set(pemkey) and Set(pemcert) of ftp and after the ssh key;
   three further starts with different service sets and different generator outputs:
   the crash state is a member of the model's crash states, the certificate is made from
   the surviving key, and every identity value is that of the first completed start *)
Example C18_history_nonvacuous :
  let d1 := nth 24 (crash_states true (ex_fresh 1) empty_disk [Ssh; Ftp; Ldap]) empty_disk in
  d_kv d1 = [(FtpKey, [2; 1]); (SshKey, [1; 1])]%N /\ d_token d1 = Some (f_token (ex_fresh 1)) /\
  map id_items (runs true d1 [(ex_fresh 2, [Ftp]); (ex_fresh 3, [Ssh; Smtp]); (ex_fresh 4, [Ftp; Ssh; Agent])])
  = [[(FtpKey, [2; 1]); (FtpCert, [3; 2; 2; 1])];
     [(SshKey, [1; 1]); (SmtpKey, [4; 3]); (SmtpCert, [5; 3; 4; 3])];
     [(FtpKey, [2; 1]); (FtpCert, [3; 2; 2; 1]); (SshKey, [1; 1]); (AgentKey, [8; 4])]]%N /\
  map id_token (runs true d1 [(ex_fresh 2, [Ftp]); (ex_fresh 3, [Ssh; Smtp]); (ex_fresh 4, [Ftp; Ssh; Agent])])
  = [f_token (ex_fresh 1); f_token (ex_fresh 1); f_token (ex_fresh 1)].
Proof. vm_compute. repeat split; reflexivity. Qed.

(* the finding, concretely: killed after the token file was created, before its bytes arrived *)
Example C18_empty_token_adopted :
  let d1 := nth 1 (crash_states false (ex_fresh 1) empty_disk []) empty_disk in
  d_token d1 = Some [] /\
  map id_token (runs false d1 [(ex_fresh 2, []); (ex_fresh 3, [Ssh])]) = [[]; []] /\
  map id_token (runs true d1 [(ex_fresh 2, []); (ex_fresh 3, [Ssh])]) = [f_token (ex_fresh 2); f_token (ex_fresh 2)].
Proof. vm_compute. repeat split; reflexivity. Qed.

Print Assumptions C18_token_stable.
Print Assumptions C18_items_stable.
Print Assumptions C18_token_persisted.
Print Assumptions C18_items_persisted.
Print Assumptions C18_stored_items_kept.
Print Assumptions C18_kv_items_crash_safe.
Print Assumptions C18_items_after_crash.
Print Assumptions C18_token_crash_safe_repaired.
Print Assumptions C18_token_repaired_any_disk.
Print Assumptions C18_token_crash_safe_current_refuted.
Print Assumptions C18_token_current_every_prefix_adopted.
Print Assumptions C18_token_current_crash_states.
Print Assumptions C18_token_crash_safe_current_outside.
Print Assumptions C18_check_consistent.
