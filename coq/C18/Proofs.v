(* C18 - lemmas. *)
From HT Require Import Common.Bytes C18.Model C18.Check.
Open Scope nat_scope.

(* ---------- items and the store ---------- *)
Lemma item_eqb_eq a b : item_eqb a b = true <-> a = b.
Proof. destruct a, b; cbv; split; intro H; try reflexivity; discriminate H. Qed.

Lemma item_eqb_refl a : item_eqb a a = true.
Proof. apply item_eqb_eq; reflexivity. Qed.

Lemma item_eqb_neq a b : a <> b -> item_eqb a b = false.
Proof. intro H. destruct (item_eqb a b) eqn:E; [apply item_eqb_eq in E; contradiction | reflexivity]. Qed.

Lemma kv_get_set_same m k v : kv_get (kv_set m k v) k = Some v.
Proof. cbn [kv_set kv_get]. rewrite item_eqb_refl. reflexivity. Qed.

Lemma kv_get_set_other m k v j : k <> j -> kv_get (kv_set m k v) j = kv_get m j.
Proof. intro H. cbn [kv_set kv_get]. rewrite (item_eqb_neq _ _ H). reflexivity. Qed.

(* ---------- traces ---------- *)
Fixpoint chain {A} (R : A -> A -> Prop) (d : A) (t : list A) : Prop :=
  match t with
  | [] => True
  | x :: r => R d x /\ chain R x r
  end.

Lemma last_or_app {A} (t1 t2 : list A) d : last_or (t1 ++ t2) d = last_or t2 (last_or t1 d).
Proof. revert d; induction t1 as [|x r IH]; intro d; cbn [app last_or]; [reflexivity | apply IH]. Qed.

Lemma chain_app {A} (R : A -> A -> Prop) t1 t2 d :
  chain R d t1 -> chain R (last_or t1 d) t2 -> chain R d (t1 ++ t2).
Proof.
  revert d; induction t1 as [|x r IH]; intros d H1 H2; cbn [app chain last_or] in *; [exact H2|].
  destruct H1 as [Hx Hr]. split; [exact Hx | apply IH; assumption].
Qed.

Lemma chain_weaken {A} (R S : A -> A -> Prop) d t :
  (forall a b, R a b -> S a b) -> chain R d t -> chain S d t.
Proof.
  intro HRS. revert d; induction t as [|x r IH]; intros d H; cbn [chain] in *; [exact I|].
  destruct H as [Hx Hr]. split; [apply HRS, Hx | apply IH, Hr].
Qed.

(* an invariant of single steps holds in every state of the trace *)
Lemma chain_inv {A} (R : A -> A -> Prop) (P : A -> Prop) d t :
  (forall a b, P a -> R a b -> P b) -> P d -> chain R d t -> Forall P t /\ P (last_or t d).
Proof.
  intro Hstep. revert d; induction t as [|x r IH]; intros d Hd Hc; cbn [chain last_or] in *.
  - split; [constructor | exact Hd].
  - destruct Hc as [Hx Hr]. pose proof (Hstep _ _ Hd Hx) as Px.
    destruct (IH x Px Hr) as [Hall Hlast]. split; [constructor; assumption | exact Hlast].
Qed.

(* a reflexive-transitive relation reaches every state of the trace from its start *)
Lemma chain_rel {A} (R Q : A -> A -> Prop) d t :
  (forall a, Q a a) -> (forall a b c, Q a b -> R b c -> Q a c) ->
  chain R d t -> Forall (Q d) t /\ Q d (last_or t d).
Proof.
  intros Hrefl Htrans Hc.
  apply (chain_inv R (Q d) d t); [intros a b Ha Hab; exact (Htrans _ _ _ Ha Hab) | apply Hrefl | exact Hc].
Qed.

Lemma last_or_In {A} (t : list A) d : In (last_or t d) (d :: t).
Proof.
  revert d; induction t as [|x r IH]; intro d; cbn [last_or]; [left; reflexivity|].
  right. apply IH.
Qed.

(* ---------- single mutations ---------- *)
(* a key-value step: one Set of an item that was absent, with the generator's output *)
Definition kvstep (f : fresh) (d d' : disk) : Prop :=
  exists k, kv_get (d_kv d) k = None /\
    ((key_of k = None /\ d' = set_item d k (f_key f k)) \/
     (exists kk kb, key_of k = Some kk /\ kv_get (d_kv d) kk = Some kb /\ d' = set_item d k (f_cert f k kb))).

(* a token-file step touches neither the store *)
Definition tokstep (d d' : disk) : Prop := d_kv d' = d_kv d.

Definition step (f : fresh) (d d' : disk) : Prop := kvstep f d d' \/ tokstep d d'.

(* what never shrinks: stored items keep their value *)
Definition kvext (d d' : disk) : Prop :=
  forall it w, kv_get (d_kv d) it = Some w -> kv_get (d_kv d') it = Some w.

(* key-value steps leave the token file and the temporary file alone *)
Definition files_same (d d' : disk) : Prop := d_token d' = d_token d /\ d_tmp d' = d_tmp d.

Lemma kvext_refl d : kvext d d.
Proof. intros it w H; exact H. Qed.

Lemma set_item_ext d k v : kv_get (d_kv d) k = None -> kvext d (set_item d k v).
Proof.
  intros Hn it w H. cbn [set_item d_kv].
  destruct (item_eqb k it) eqn:E.
  - apply item_eqb_eq in E; subst it. rewrite Hn in H; discriminate H.
  - cbn [kv_set kv_get]. rewrite E. exact H.
Qed.

Lemma kvstep_ext f d d' : kvstep f d d' -> kvext d d'.
Proof.
  intros [k [Hn [[_ ->] | [kk [kb [_ [_ ->]]]]]]]; apply set_item_ext; exact Hn.
Qed.

Lemma kvstep_files f d d' : kvstep f d d' -> files_same d d'.
Proof.
  intros [k [Hn [[_ ->] | [kk [kb [_ [_ ->]]]]]]]; split; reflexivity.
Qed.

Lemma step_ext f d d' : step f d d' -> kvext d d'.
Proof.
  intros [H | H]; [exact (kvstep_ext _ _ _ H)|].
  intros it w Hg. unfold tokstep in H. rewrite H. exact Hg.
Qed.

Lemma kvext_trans_step f a b c : kvext a b -> step f b c -> kvext a c.
Proof. intros H1 H2 it w Hg. apply (step_ext _ _ _ H2), H1, Hg. Qed.

Lemma files_same_trans_kvstep f a b c : files_same a b -> kvstep f b c -> files_same a c.
Proof.
  intros [H1 H2] H. destruct (kvstep_files _ _ _ H) as [H3 H4]. split; congruence.
Qed.

(* ---------- load-or-generate ---------- *)
Lemma load_or_gen_key f d k t v :
  key_of k = None -> load_or_gen d k (f_key f k) = (t, v) ->
  chain (kvstep f) d t /\ kv_get (d_kv (last_or t d)) k = Some v /\
  (forall w, kv_get (d_kv d) k = Some w -> v = w).
Proof.
  intros Hk H. unfold load_or_gen in H. destruct (kv_get (d_kv d) k) as [b|] eqn:E.
  - inversion H; subst t v. cbn [chain last_or]. repeat split; [exact E | intros w Hw; congruence].
  - inversion H; subst t v. cbn [chain last_or]. repeat split.
    + exists k. split; [exact E | left; split; [exact Hk | reflexivity]].
    + cbn [set_item d_kv]. apply kv_get_set_same.
    + intros w Hw; discriminate Hw.
Qed.

Lemma load_or_gen_cert f d c kk kb t v :
  key_of c = Some kk -> kv_get (d_kv d) kk = Some kb ->
  load_or_gen d c (f_cert f c kb) = (t, v) ->
  chain (kvstep f) d t /\ kv_get (d_kv (last_or t d)) c = Some v /\
  (forall w, kv_get (d_kv d) c = Some w -> v = w).
Proof.
  intros Hk Hkb H. unfold load_or_gen in H. destruct (kv_get (d_kv d) c) as [b|] eqn:E.
  - inversion H; subst t v. cbn [chain last_or]. repeat split; [exact E | intros w Hw; congruence].
  - inversion H; subst t v. cbn [chain last_or]. repeat split.
    + exists c. split; [exact E | right; exists kk, kb; repeat split; assumption].
    + cbn [set_item d_kv]. apply kv_get_set_same.
    + intros w Hw; discriminate Hw.
Qed.

Lemma chain_kvstep_ext f d t : chain (kvstep f) d t -> kvext d (last_or t d) /\ Forall (kvext d) t.
Proof.
  intro H. destruct (chain_rel (kvstep f) kvext d t kvext_refl) as [A B].
  - intros a b c Hab Hbc. apply (kvext_trans_step f a b c Hab). left; exact Hbc.
  - exact H.
  - split; assumption.
Qed.

(* the facts every service's storage function satisfies *)
Definition svc_facts (f : fresh) (d : disk) (t : list disk) (its : list (item * bytes)) : Prop :=
  chain (kvstep f) d t /\
  (forall it v, In (it, v) its -> kv_get (d_kv (last_or t d)) it = Some v) /\
  (forall it v w, In (it, v) its -> kv_get (d_kv d) it = Some w -> v = w).

Lemma single_facts f d k t its :
  key_of k = None -> single f d k = (t, its) -> svc_facts f d t its.
Proof.
  intros Hk H. unfold single in H. destruct (load_or_gen d k (f_key f k)) as [t0 v] eqn:E.
  inversion H; subst t its. destruct (load_or_gen_key f d k t0 v Hk E) as [A [B C]].
  split; [exact A|]. split.
  - intros it w [Hin | []]. inversion Hin; subst. exact B.
  - intros it v' w [Hin | []] Hg. inversion Hin; subst. apply C; exact Hg.
Qed.

Lemma tls_pair_facts f d k c t its :
  key_of k = None -> key_of c = Some k -> tls_pair f d k c = (t, its) -> svc_facts f d t its.
Proof.
  intros Hk Hc H. unfold tls_pair in H.
  destruct (load_or_gen d k (f_key f k)) as [t1 kb] eqn:E1.
  destruct (load_or_gen (last_or t1 d) c (f_cert f c kb)) as [t2 cb] eqn:E2.
  inversion H; subst t its.
  destruct (load_or_gen_key f d k t1 kb Hk E1) as [A1 [B1 C1]].
  destruct (load_or_gen_cert f (last_or t1 d) c k kb t2 cb Hc B1 E2) as [A2 [B2 C2]].
  destruct (chain_kvstep_ext f d t1 A1) as [X1 _].
  destruct (chain_kvstep_ext f (last_or t1 d) t2 A2) as [X2 _].
  split; [apply chain_app; assumption|]. split.
  - intros it v [Hin | [Hin | []]]; inversion Hin; subst; rewrite last_or_app.
    + apply X2. exact B1.
    + exact B2.
  - intros it v w [Hin | [Hin | []]] Hg; inversion Hin; subst.
    + apply C1; exact Hg.
    + apply C2. apply X1. exact Hg.
Qed.

Lemma run_svc_facts f d s t its : run_svc f d s = (t, its) -> svc_facts f d t its.
Proof.
  destruct s; cbn [run_svc]; intro H.
  - apply (single_facts f d SshKey); [reflexivity | exact H].
  - apply (tls_pair_facts f d FtpKey FtpCert); [reflexivity | reflexivity | exact H].
  - apply (tls_pair_facts f d SmtpKey SmtpCert); [reflexivity | reflexivity | exact H].
  - apply (tls_pair_facts f d LdapKey LdapCert); [reflexivity | reflexivity | exact H].
  - apply (single_facts f d AgentKey); [reflexivity | exact H].
Qed.

Lemma run_svcs_facts f cfg : forall d t its, run_svcs f d cfg = (t, its) -> svc_facts f d t its.
Proof.
  induction cfg as [|s r IH]; intros d t its H; cbn [run_svcs] in H.
  - inversion H; subst. split; [exact I|]. split; intros it v; intros []; contradiction.
  - destruct (run_svc f d s) as [t1 i1] eqn:E1.
    destruct (run_svcs f (last_or t1 d) r) as [t2 i2] eqn:E2.
    inversion H; subst t its.
    destruct (run_svc_facts f d s t1 i1 E1) as [A1 [B1 C1]].
    destruct (IH _ _ _ E2) as [A2 [B2 C2]].
    destruct (chain_kvstep_ext f d t1 A1) as [X1 _].
    destruct (chain_kvstep_ext f (last_or t1 d) t2 A2) as [X2 _].
    split; [apply chain_app; assumption|]. split.
    + intros it v Hin. rewrite last_or_app. apply in_app_or in Hin. destruct Hin as [Hin | Hin].
      * apply X2. apply B1. exact Hin.
      * apply B2. exact Hin.
    + intros it v w Hin Hg. apply in_app_or in Hin. destruct Hin as [Hin | Hin].
      * apply (C1 it v w Hin Hg).
      * apply (C2 it v w Hin). apply X1. exact Hg.
Qed.

(* ---------- the token step ---------- *)
Lemma last_or_map_prefixes {A} (g : bytes -> A) uid d : last_or (map g (prefixes uid)) d = g uid.
Proof. unfold prefixes. rewrite map_app, last_or_app. reflexivity. Qed.

Lemma chain_tokstep_map (g : bytes -> disk) d l :
  (forall p, d_kv (g p) = d_kv d) -> forall d0, d_kv d0 = d_kv d -> chain tokstep d0 (map g l).
Proof.
  intro Hg. induction l as [|p r IH]; intros d0 H0; cbn [map chain]; [exact I|].
  split; [unfold tokstep; rewrite Hg, H0; reflexivity | apply IH, Hg].
Qed.

Lemma token_step_facts d uid t tok :
  token_step d uid = (t, tok) ->
  chain tokstep d t /\ d_kv (last_or t d) = d_kv d /\ d_token (last_or t d) = Some tok.
Proof.
  unfold token_step; intro H.
  assert (W : forall t tok,
    (map (fun p => set_tmp d (Some p)) (prefixes uid) ++ [mkDisk (Some uid) None (d_kv d)], uid) = (t, tok) ->
    chain tokstep d t /\ d_kv (last_or t d) = d_kv d /\ d_token (last_or t d) = Some tok).
  { intros t' tok' E. inversion E; subst t' tok'. split; [|split].
    - apply chain_app.
      + apply (chain_tokstep_map (fun p => set_tmp d (Some p)) d); reflexivity.
      + cbn [chain]. split; [|exact I]. unfold tokstep. rewrite last_or_map_prefixes. reflexivity.
    - rewrite last_or_app. reflexivity.
    - rewrite last_or_app. reflexivity. }
  destruct (d_token d) as [b|] eqn:E.
  - destruct (token_wf b) eqn:Ew.
    + inversion H; subst t tok. cbn [chain last_or]. repeat split. exact E.
    + apply W, H.
  - apply W, H.
Qed.

Lemma token_adopt d uid b :
  d_token d = Some b -> token_wf b = true -> token_step d uid = ([], b).
Proof. intros E Hw. unfold token_step. rewrite E, Hw. reflexivity. Qed.

Lemma token_step_wf d uid : token_wf uid = true -> token_wf (snd (token_step d uid)) = true.
Proof.
  intro H. unfold token_step. destruct (d_token d) as [b|]; [|exact H].
  destruct (token_wf b) eqn:E; [exact E | exact H].
Qed.

(* a file that does not hold a well-formed id is replaced by the fresh id *)
Lemma token_step_heals d uid :
  (forall b, d_token d = Some b -> token_wf b = false) -> snd (token_step d uid) = uid.
Proof.
  intro H. unfold token_step. destruct (d_token d) as [b|]; [|reflexivity].
  rewrite (H b eq_refl). reflexivity.
Qed.

(* ---------- one start ---------- *)
Lemma start_unfold f d cfg :
  exists t0 tok t1 its,
    token_step d (f_token f) = (t0, tok) /\
    run_svcs f (last_or t0 d) cfg = (t1, its) /\
    start f d cfg = (t0 ++ t1, mkId tok its).
Proof.
  unfold start. destruct (token_step d (f_token f)) as [t0 tok] eqn:E0.
  destruct (run_svcs f (last_or t0 d) cfg) as [t1 its] eqn:E1.
  exists t0, tok, t1, its. split; [reflexivity | split; [exact E1 | reflexivity]].
Qed.

Lemma chain_kvstep_files f d t : chain (kvstep f) d t -> files_same d (last_or t d) /\ Forall (files_same d) t.
Proof.
  intro H. destruct (chain_rel (kvstep f) files_same d t) as [A B].
  - intro a; split; reflexivity.
  - intros a b c; apply files_same_trans_kvstep.
  - exact H.
  - split; assumption.
Qed.

Lemma start_chain f d cfg : chain (step f) d (fst (start f d cfg)).
Proof.
  destruct (start_unfold f d cfg) as [t0 [tok [t1 [its [E0 [E1 ->]]]]]]. cbn [fst].
  destruct (token_step_facts _ _ _ _ E0) as [A0 _].
  destruct (run_svcs_facts _ _ _ _ _ E1) as [A1 _].
  apply chain_app.
  - apply (chain_weaken tokstep); [intros a b H; right; exact H | exact A0].
  - apply (chain_weaken (kvstep f)); [intros a b H; left; exact H | exact A1].
Qed.

(* the token in use is what the token file holds once the start has completed *)
Lemma start_token_persisted f d cfg :
  d_token (after f d cfg) = Some (id_token (ident f d cfg)).
Proof.
  unfold after, ident. destruct (start_unfold f d cfg) as [t0 [tok [t1 [its [E0 [E1 ->]]]]]].
  cbn [fst snd id_token]. rewrite last_or_app.
  destruct (token_step_facts _ _ _ _ E0) as [_ [_ T]].
  destruct (run_svcs_facts _ _ _ _ _ E1) as [A1 _].
  destruct (chain_kvstep_files _ _ _ A1) as [[F _] _]. rewrite F. exact T.
Qed.

(* the items in use are what the store holds once the start has completed *)
Lemma start_items_persisted f d cfg it v :
  In (it, v) (id_items (ident f d cfg)) -> kv_get (d_kv (after f d cfg)) it = Some v.
Proof.
  unfold after, ident. destruct (start_unfold f d cfg) as [t0 [tok [t1 [its [E0 [E1 ->]]]]]].
  cbn [fst snd id_items]. rewrite last_or_app.
  destruct (run_svcs_facts _ _ _ _ _ E1) as [_ [B1 _]]. apply B1.
Qed.

(* an item already stored is the one used *)
Lemma start_items_adopted f d cfg it v w :
  In (it, v) (id_items (ident f d cfg)) -> kv_get (d_kv d) it = Some w -> v = w.
Proof.
  unfold ident. destruct (start_unfold f d cfg) as [t0 [tok [t1 [its [E0 [E1 ->]]]]]].
  cbn [snd id_items]. intros Hin Hg.
  destruct (token_step_facts _ _ _ _ E0) as [_ [K _]].
  destruct (run_svcs_facts _ _ _ _ _ E1) as [_ [_ C1]].
  apply (C1 it v w Hin). rewrite K. exact Hg.
Qed.

Lemma start_ext f d cfg d' : In d' (crash_states f d cfg) -> kvext d d'.
Proof.
  unfold crash_states. intros [<- | Hin]; [apply kvext_refl|].
  destruct (chain_rel (step f) kvext d (fst (start f d cfg)) kvext_refl) as [A _].
  - intros a b c; apply kvext_trans_step.
  - apply start_chain.
  - rewrite Forall_forall in A. apply A, Hin.
Qed.

Lemma stored_items_kept f d cfg d' it w :
  In d' (crash_states f d cfg) -> kv_get (d_kv d) it = Some w -> kv_get (d_kv d') it = Some w.
Proof. intro H. exact (start_ext f d cfg d' H it w). Qed.

Lemma after_in_crash_states f d cfg : In (after f d cfg) (crash_states f d cfg).
Proof. unfold after, crash_states. apply last_or_In. Qed.

Lemma start_token_adopted f d cfg b :
  d_token d = Some b -> token_wf b = true -> id_token (ident f d cfg) = b.
Proof.
  intros E Hw. unfold ident, start. rewrite (token_adopt d (f_token f) b E Hw).
  destruct (run_svcs f (last_or [] d) cfg). reflexivity.
Qed.

(* ---------- histories of completed starts ---------- *)
Lemma runs_token_const : forall h d b,
  d_token d = Some b -> token_wf b = true ->
  Forall (fun id => id_token id = b) (runs d h).
Proof.
  induction h as [|[f cfg] r IH]; intros d b E Hw; cbn [runs]; [constructor|].
  pose proof (start_token_adopted f d cfg b E Hw) as Ht.
  constructor; [exact Ht|].
  apply IH; [|exact Hw]. rewrite start_token_persisted, Ht. reflexivity.
Qed.

Lemma ident_token_wf f d cfg : token_wf (f_token f) = true -> token_wf (id_token (ident f d cfg)) = true.
Proof.
  intro H. unfold ident, start.
  pose proof (token_step_wf d (f_token f) H) as W.
  destruct (token_step d (f_token f)) as [t0 tok]. cbn [snd] in W.
  destruct (run_svcs f (last_or t0 d) cfg). exact W.
Qed.

Lemma token_stable d h id1 rest :
  Forall (fun fc => token_wf (f_token (fst fc)) = true) h ->
  runs d h = id1 :: rest -> Forall (fun id => id_token id = id_token id1) rest.
Proof.
  intros Hf H. destruct h as [|[f cfg] r]; cbn [runs] in H; [discriminate H|].
  inversion H; subst id1 rest. apply runs_token_const.
  - apply start_token_persisted.
  - apply ident_token_wf. inversion Hf; subst. assumption.
Qed.

Lemma runs_items_adopted : forall h d id it v w,
  In id (runs d h) -> In (it, v) (id_items id) -> kv_get (d_kv d) it = Some w -> v = w.
Proof.
  induction h as [|[f cfg] r IH]; intros d id it v w Hid Hin Hg; cbn [runs] in Hid; [contradiction|].
  destruct Hid as [<- | Hid].
  - apply (start_items_adopted f d cfg it v w Hin Hg).
  - apply (IH _ id it v w Hid Hin).
    apply (start_ext f d cfg); [apply after_in_crash_states | exact Hg].
Qed.

Lemma items_stable : forall h d i j idi idj it v w,
  i <= j -> nth_error (runs d h) i = Some idi -> nth_error (runs d h) j = Some idj ->
  In (it, v) (id_items idi) -> In (it, w) (id_items idj) -> v = w.
Proof.
  induction h as [|[f cfg] r IH]; intros d i j idi idj it v w Hij Hi Hj Hv Hw; cbn [runs] in *.
  - destruct i; discriminate Hi.
  - destruct i as [|i].
    + cbn [nth_error] in Hi. inversion Hi; subst idi.
      pose proof (start_items_persisted f d cfg it v Hv) as Pv.
      destruct j as [|j].
      * cbn [nth_error] in Hj. inversion Hj; subst idj.
        pose proof (start_items_persisted f d cfg it w Hw) as Pw. congruence.
      * cbn [nth_error] in Hj. apply nth_error_In in Hj. symmetry.
        apply (runs_items_adopted r _ idj it w v Hj Hw Pv).
    + destruct j as [|j]; [lia|]. cbn [nth_error] in Hi, Hj.
      apply (IH (after f d cfg) i j idi idj it v w); [lia | assumption..].
Qed.

(* ---------- well-formedness of the stored items at every crash point ---------- *)
Section KV.
  Variable wfk : item -> bytes -> bool.      (* the item's library accepts the value *)
  Variable pairs : bytes -> bytes -> bool.   (* tls.X509KeyPair(cert, key) succeeds *)

  Definition fresh_ok (f : fresh) : Prop :=
    (forall k, key_of k = None -> wfk k (f_key f k) = true) /\
    (forall c kk kb, key_of c = Some kk -> wfk c (f_cert f c kb) = true /\ pairs (f_cert f c kb) kb = true).

  Definition kv_ok (d : disk) : Prop :=
    (forall it v, kv_get (d_kv d) it = Some v -> wfk it v = true) /\
    (forall c kk v, key_of c = Some kk -> kv_get (d_kv d) c = Some v ->
       exists kb, kv_get (d_kv d) kk = Some kb /\ pairs v kb = true).

  Lemma key_of_key_none c kk : key_of c = Some kk -> key_of kk = None.
  Proof. destruct c; cbn [key_of]; intro H; inversion H; reflexivity. Qed.

  Lemma kvstep_ok f d d' : fresh_ok f -> kv_ok d -> kvstep f d d' -> kv_ok d'.
  Proof.
    intros [Fk Fc] [W P] [k [Hn [[Hk ->] | [kk [kb [Hk [Hkb ->]]]]]]]; unfold kv_ok; cbn [set_item d_kv].
    - split.
      + intros it v Hg. destruct (item_eqb k it) eqn:E.
        * apply item_eqb_eq in E; subst it. rewrite kv_get_set_same in Hg. inversion Hg; subst. apply Fk, Hk.
        * cbn [kv_set kv_get] in Hg. rewrite E in Hg. apply W, Hg.
      + intros c kk v Hc Hg.
        assert (Hck : k <> c) by (intro; subst c; congruence).
        rewrite (kv_get_set_other _ _ _ _ Hck) in Hg.
        destruct (P c kk v Hc Hg) as [kb [Hkb Hp]]. exists kb. split; [|exact Hp].
        assert (Hkk : k <> kk) by (intro; subst kk; congruence).
        rewrite (kv_get_set_other _ _ _ _ Hkk). exact Hkb.
    - destruct (Fc k kk kb Hk) as [Fw Fp]. split.
      + intros it v Hg. destruct (item_eqb k it) eqn:E.
        * apply item_eqb_eq in E; subst it. rewrite kv_get_set_same in Hg. inversion Hg; subst. exact Fw.
        * cbn [kv_set kv_get] in Hg. rewrite E in Hg. apply W, Hg.
      + intros c kk' v Hc Hg.
        assert (Hkk : k <> kk') by (intro; subst kk'; pose proof (key_of_key_none _ _ Hc); congruence).
        destruct (item_eqb k c) eqn:E.
        * apply item_eqb_eq in E; subst c. rewrite kv_get_set_same in Hg. inversion Hg; subst v.
          assert (kk' = kk) by congruence. subst kk'.
          exists kb. split; [rewrite (kv_get_set_other _ _ _ _ Hkk); exact Hkb | exact Fp].
        * cbn [kv_set kv_get] in Hg. rewrite E in Hg.
          destruct (P c kk' v Hc Hg) as [kb' [Hkb' Hp]]. exists kb'. split; [|exact Hp].
          rewrite (kv_get_set_other _ _ _ _ Hkk). exact Hkb'.
  Qed.

  Lemma step_ok f d d' : fresh_ok f -> kv_ok d -> step f d d' -> kv_ok d'.
  Proof.
    intros Hf Hd [H | H]; [exact (kvstep_ok f d d' Hf Hd H)|].
    unfold tokstep in H. unfold kv_ok in *. rewrite H. exact Hd.
  Qed.

  Lemma crash_states_ok f d cfg d' :
    fresh_ok f -> kv_ok d -> In d' (crash_states f d cfg) -> kv_ok d' /\ kvext d d'.
  Proof.
    intros Hf Hd Hin. split; [|exact (start_ext f d cfg d' Hin)].
    unfold crash_states in Hin. destruct Hin as [<- | Hin]; [exact Hd|].
    destruct (chain_inv (step f) kv_ok d (fst (start f d cfg))) as [A _].
    - intros a b Ha Hab. exact (step_ok f a b Hf Ha Hab).
    - exact Hd.
    - apply start_chain.
    - rewrite Forall_forall in A. apply A, Hin.
  Qed.

  (* after a kill anywhere in a start, the next completed start uses well-formed items,
     each certificate matching the key in use, and keeps every item the killed start had
     stored *)
  Lemma items_crash_safe f d cfg d' f' cfg' :
    fresh_ok f -> fresh_ok f' -> kv_ok d -> In d' (crash_states f d cfg) ->
    let id := ident f' d' cfg' in
    (forall it v, In (it, v) (id_items id) -> wfk it v = true) /\
    (forall c kk v, key_of c = Some kk -> In (c, v) (id_items id) ->
       exists kb, kv_get (d_kv (after f' d' cfg')) kk = Some kb /\ pairs v kb = true) /\
    (forall it v w, kv_get (d_kv d') it = Some w -> In (it, v) (id_items id) -> v = w) /\
    kv_ok (after f' d' cfg').
  Proof.
    intros Hf Hf' Hd Hin id.
    destruct (crash_states_ok f d cfg d' Hf Hd Hin) as [Hd' _].
    destruct (crash_states_ok f' d' cfg' _ Hf' Hd' (after_in_crash_states f' d' cfg')) as [[W P] _].
    split; [|split; [|split; [|split; assumption]]].
    - intros it v Hi. apply (W it v). apply start_items_persisted, Hi.
    - intros c kk v Hc Hi. apply (P c kk v Hc). apply start_items_persisted, Hi.
    - intros it v w Hg Hi. apply (start_items_adopted f' d' cfg' it v w Hi Hg).
  Qed.
End KV.

(* ---------- the token at every crash point ---------- *)
(* full statement for the token: whatever state the disk was in before a start (no token
   file, an established token, or a legacy empty / cut-short / otherwise malformed file)
   and wherever that start is killed, the next completed start uses a well-formed token
   and persists it, every later start of any history keeps it, and a well-formed token
   established before the killed start is the one used *)
Definition token_crash_safe : Prop :=
  forall f d cfg d' f' cfg' h,
    token_wf (f_token f) = true -> token_wf (f_token f') = true ->
    Forall (fun fc => token_wf (f_token (fst fc)) = true) h ->
    In d' (crash_states f d cfg) ->
    let tok := id_token (ident f' d' cfg') in
    token_wf tok = true /\
    d_token (after f' d' cfg') = Some tok /\
    Forall (fun id => id_token id = tok) (runs (after f' d' cfg') h) /\
    (forall t, d_token d = Some t -> token_wf t = true -> tok = t).

(* states of the token file along a start *)
Lemma token_step_states d uid t tok d' :
  token_step d uid = (t, tok) -> In d' t ->
  d_token d' = d_token d \/ (d_token d' = Some uid /\ tok = uid /\ (forall b, d_token d = Some b -> token_wf b = false)).
Proof.
  unfold token_step. intros H Hin.
  assert (W : forall t tok, (map (fun p => set_tmp d (Some p)) (prefixes uid) ++ [mkDisk (Some uid) None (d_kv d)], uid) = (t, tok) ->
              In d' t -> d_token d' = d_token d \/ (d_token d' = Some uid /\ tok = uid)).
  { intros t' tok' E Hi. inversion E; subst t' tok'. apply in_app_or in Hi. destruct Hi as [Hi | [<- | []]].
    - apply in_map_iff in Hi. destruct Hi as [p [<- _]]. left; reflexivity.
    - right; split; reflexivity. }
  destruct (d_token d) as [b|] eqn:E.
  - destruct (token_wf b) eqn:Ew.
    + inversion H; subst t. contradiction.
    + destruct (W _ _ H Hin) as [A | [A B]]; [left; exact A | right].
      split; [exact A | split; [exact B|]]. intros b' Hb'. inversion Hb'; subst. exact Ew.
  - destruct (W _ _ H Hin) as [A | [A B]]; [left; exact A | right].
    split; [exact A | split; [exact B|]]. intros b' Hb'. discriminate Hb'.
Qed.

(* the token file is, at every crash point, what it was before the start or the complete
   fresh id (the latter only when there was no well-formed token before) - never a part *)
Lemma crash_state_token f d cfg d' :
  In d' (crash_states f d cfg) ->
  d_token d' = d_token d \/ (d_token d' = Some (f_token f) /\ (forall b, d_token d = Some b -> token_wf b = false)).
Proof.
  unfold crash_states. intros [<- | Hin]; [left; reflexivity|].
  destruct (start_unfold f d cfg) as [t0 [tok [t1 [its [E0 [E1 E]]]]]]. rewrite E in Hin. cbn [fst] in Hin.
  apply in_app_or in Hin. destruct Hin as [Hin | Hin].
  - destruct (token_step_states d (f_token f) t0 tok d' E0 Hin) as [A | [A [_ B]]]; [left; exact A | right; split; assumption].
  - (* a key-value state: the token file is as the token step left it *)
    destruct (run_svcs_facts _ _ _ _ _ E1) as [A1 _].
    destruct (chain_kvstep_files _ _ _ A1) as [_ F]. rewrite Forall_forall in F.
    destruct (F d' Hin) as [Ft _]. rewrite Ft.
    destruct t0 as [|x r] eqn:Et0; [left; reflexivity|].
    assert (Hl : In (last_or (x :: r) d) (x :: r)).
    { cbn [last_or]. apply (last_or_In r x). }
    destruct (token_step_states d (f_token f) (x :: r) tok _ E0 Hl) as [A | [A [_ B]]]; [left; exact A | right; split; assumption].
Qed.

Lemma token_crash_safe_proved : token_crash_safe.
Proof.
  intros f d cfg d' f' cfg' h Hf Hf' Hh Hin tok.
  assert (Hw : token_wf tok = true) by (apply ident_token_wf, Hf').
  assert (Hp : d_token (after f' d' cfg') = Some tok) by apply start_token_persisted.
  split; [exact Hw | split; [exact Hp | split]].
  - apply runs_token_const; assumption.
  - intros t Et Hwt. destruct (crash_state_token f d cfg d' Hin) as [E | [_ E]].
    + apply start_token_adopted; [congruence | exact Hwt].
    + rewrite (E t Et) in Hwt. discriminate Hwt.
Qed.

(* a legacy token file (empty, cut short, or otherwise not a well-formed id) is healed:
   the start replaces it by its fresh id *)
Lemma legacy_token_healed f d cfg :
  (forall b, d_token d = Some b -> token_wf b = false) ->
  id_token (ident f d cfg) = f_token f /\ d_token (after f d cfg) = Some (f_token f).
Proof.
  intro H. assert (E : id_token (ident f d cfg) = f_token f).
  { unfold ident, start. pose proof (token_step_heals d (f_token f) H) as W.
    destruct (token_step d (f_token f)) as [t0 tok]. cbn [snd] in W.
    destruct (run_svcs f (last_or t0 d) cfg). exact W. }
  split; [exact E | rewrite start_token_persisted, E; reflexivity].
Qed.

Lemma token_wf_length t : token_wf t = true -> length t = 20.
Proof. unfold token_wf. intro H. apply andb_true_iff in H. destruct H as [H _]. apply Nat.eqb_eq, H. Qed.

(* in particular every proper prefix of an id (what the former in-place write could leave) *)
Lemma prefix_not_wf t k : token_wf t = true -> k < 20 -> token_wf (firstn k t) = false.
Proof.
  intros Hw Hk. pose proof (token_wf_length _ Hw) as Hl.
  unfold token_wf. rewrite firstn_length, Hl.
  replace (Nat.min k 20 =? 20) with false; [reflexivity|].
  symmetry. apply Nat.eqb_neq. lia.
Qed.

(* ---------- the checker's predicates follow from agreement with the model ---------- *)
Lemma all_items_complete it : In it all_items.
Proof. destruct it; cbv; tauto. Qed.

Lemma obytes_eqb_eq a b : obytes_eqb a b = true <-> a = b.
Proof.
  destruct a as [x|], b as [y|]; cbn [obytes_eqb]; split; intro H; try discriminate H; try reflexivity.
  - apply eqb_bytes_true in H. subst; reflexivity.
  - inversion H; subst. apply eqb_bytes_true. reflexivity.
Qed.

Lemma kv_eqb_eq a b : kv_eqb a b = true -> forall it, kv_get a it = kv_get b it.
Proof.
  unfold kv_eqb. intros H it. rewrite forallb_forall in H.
  apply obytes_eqb_eq. apply H. apply all_items_complete.
Qed.

Lemma kv_keeps_intro a b :
  (forall it v, kv_get a it = Some v -> kv_get b it = Some v) -> kv_keeps a b = true.
Proof.
  intro H. unfold kv_keeps. apply forallb_forall. intros it _.
  destruct (kv_get a it) as [v|] eqn:E; [|reflexivity].
  apply obytes_eqb_eq. apply H. exact E.
Qed.

Lemma agrees_cons d r rest :
  agrees d (r :: rest) = true ->
  id_token (ident (fresh_of r) d (r_cfg r)) = r_token r /\
  d_token (after (fresh_of r) d (r_cfg r)) = d_token (r_disk r) /\
  (forall it, kv_get (d_kv (after (fresh_of r) d (r_cfg r))) it = kv_get (d_kv (r_disk r)) it) /\
  agrees (after (fresh_of r) d (r_cfg r)) rest = true.
Proof.
  cbn [agrees]. intro H.
  apply andb_true_iff in H. destruct H as [H H4].
  apply andb_true_iff in H. destruct H as [H _].
  apply andb_true_iff in H. destruct H as [H _].
  apply andb_true_iff in H. destruct H as [H _].
  apply andb_true_iff in H. destruct H as [H _].
  apply andb_true_iff in H. destruct H as [H1 H2].
  unfold disk_eqb in H2.
  apply andb_true_iff in H2. destruct H2 as [H2 Hkv].
  apply andb_true_iff in H2. destruct H2 as [Htok _].
  split; [apply eqb_bytes_true, H1|]. split; [apply obytes_eqb_eq, Htok|].
  split; [apply kv_eqb_eq, Hkv | exact H4].
Qed.

Lemma agrees_runs_tokens : forall rs d,
  agrees d rs = true -> map id_token (runs d (history_of rs)) = map r_token rs.
Proof.
  induction rs as [|r rest IH]; intros d H; [reflexivity|].
  destruct (agrees_cons d r rest H) as [Ht [_ [_ Hr]]].
  cbn [history_of map runs]. rewrite Ht. f_equal. apply IH, Hr.
Qed.

Lemma agrees_tokens_persisted : forall rs d,
  agrees d rs = true -> tokens_persisted rs = true.
Proof.
  induction rs as [|r rest IH]; intros d H; [reflexivity|].
  destruct (agrees_cons d r rest H) as [Ht [Hf [_ Hr]]].
  unfold tokens_persisted. cbn [forallb]. apply andb_true_iff. split.
  - apply obytes_eqb_eq. rewrite <- Hf, start_token_persisted, Ht. reflexivity.
  - apply (IH _ Hr).
Qed.

Lemma agrees_tokens_equal rs d :
  agrees d rs = true -> tokens_wf rs = true -> tokens_equal rs = true.
Proof.
  intros H Hw. destruct rs as [|r0 rest]; [reflexivity|].
  pose proof (agrees_runs_tokens _ d H) as Hm.
  assert (HF : Forall (fun fc => token_wf (f_token (fst fc)) = true) (history_of (r0 :: rest))).
  { unfold tokens_wf in Hw. rewrite forallb_forall in Hw.
    apply Forall_forall. intros fc Hin. unfold history_of in Hin. apply in_map_iff in Hin.
    destruct Hin as [r [<- Hr]]. cbn [fst fresh_of f_token]. apply Hw, Hr. }
  destruct (runs d (history_of (r0 :: rest))) as [|id1 ids] eqn:E; [discriminate Hm|].
  pose proof (token_stable d _ id1 ids HF E) as St.
  cbn [map] in Hm. inversion Hm as [[H1 H2]].
  unfold tokens_equal. cbn [forallb]. apply andb_true_iff. split; [apply eqb_bytes_true; reflexivity|].
  apply forallb_forall. intros r Hr. apply eqb_bytes_true.
  apply (in_map r_token) in Hr. rewrite <- H2 in Hr. apply in_map_iff in Hr.
  destruct Hr as [id [<- Hid]]. rewrite Forall_forall in St. rewrite (St id Hid). exact H1.
Qed.

Lemma agrees_kv_monotone : forall rs d a,
  (forall it, kv_get a it = kv_get (d_kv d) it) -> agrees d rs = true ->
  kv_monotone a (map (fun r => d_kv (r_disk r)) rs) = true.
Proof.
  induction rs as [|r rest IH]; intros d a Ha H; [reflexivity|].
  destruct (agrees_cons d r rest H) as [_ [_ [Hkv Hr]]].
  cbn [map kv_monotone]. apply andb_true_iff. split.
  - apply kv_keeps_intro. intros it v Hg. rewrite <- Hkv.
    apply (stored_items_kept (fresh_of r) d (r_cfg r)); [apply after_in_crash_states|].
    rewrite <- Ha. exact Hg.
  - apply (IH (after (fresh_of r) d (r_cfg r))); [|exact Hr].
    intro it. symmetry. apply Hkv.
Qed.

(* observations that agree with the model cannot trip the token-changed (value part),
   token-not-persisted and stored-item-changed (store part) checks: these checks are
   consequences of the theorems plus correspondence, never stricter than the property *)
Lemma check_consistent c :
  agrees (c_disk0 c) (ok_runs c) = true -> tokens_wf (ok_runs c) = true ->
  tokens_equal (ok_runs c) = true /\ tokens_persisted (ok_runs c) = true /\
  kv_monotone (d_kv (c_disk0 c)) (map (fun r => d_kv (r_disk r)) (ok_runs c)) = true.
Proof.
  intros H Hw. split; [exact (agrees_tokens_equal _ _ H Hw)|].
  split; [exact (agrees_tokens_persisted _ _ H)|].
  apply (agrees_kv_monotone _ (c_disk0 c)); [reflexivity | exact H].
Qed.

(* ---------- what every service instance presents ---------- *)
Lemma set_nth_app_last {A} (h : list A) x p : set_nth (h ++ [x]) (length h) p = h ++ [p].
Proof. induction h as [|y r IH]; cbn [app length set_nth]; [reflexivity | rewrite IH; reflexivity]. Qed.

Lemma construct_spec stored h i : construct stored h i = (h ++ [presented_spec stored i], length h).
Proof.
  unfold construct, presented_spec. destruct (i_kind i); try reflexivity.
  destruct (i_opt i) as [p|]; [|reflexivity]. rewrite set_nth_app_last. reflexivity.
Qed.

(* constructing further instances never touches an earlier instance's cell *)
Lemma construct_all_spec stored : forall is h,
  construct_all stored h is = (h ++ map (presented_spec stored) is, seq (length h) (length is)).
Proof.
  induction is as [|i r IH]; intro h; cbn [construct_all map length seq].
  - rewrite app_nil_r. reflexivity.
  - rewrite construct_spec, IH. rewrite app_length, <- app_assoc. cbn [length app].
    replace (length h + 1) with (S (length h)) by lia. reflexivity.
Qed.

Lemma map_nth_seq {A} (d : A) : forall l, map (fun c => nth c l d) (seq 0 (length l)) = l.
Proof.
  induction l as [|x r IH]; [reflexivity|].
  cbn [length seq map nth]. f_equal. rewrite <- seq_shift, map_map. cbn [nth]. exact IH.
Qed.

Lemma presented_is_spec stored is : presented stored is = map (presented_spec stored) is.
Proof.
  unfold presented. rewrite construct_all_spec. cbn [app length].
  rewrite <- (map_length (presented_spec stored) is). apply map_nth_seq.
Qed.

(* an instance that carries no operator key presents the stored identity, whatever other
   instances are configured next to it and in whatever order they are constructed *)
Lemma presented_stored stored is n i :
  nth_error is n = Some i -> has_opkey i = false ->
  nth_error (presented stored is) n = Some (stored (i_kind i)).
Proof.
  intros Hn Ho. rewrite presented_is_spec. rewrite (map_nth_error _ _ _ Hn). f_equal.
  unfold presented_spec. unfold has_opkey in Ho.
  destruct (i_kind i); try reflexivity. destruct (i_opt i); [discriminate Ho | reflexivity].
Qed.

(* ---------- the token as delivered ---------- *)
Lemma wire_wrapped defined fs s : In s (wire defined fs) -> su_wrapped s = true.
Proof.
  unfold wire. intro H. apply in_flat_map in H. destruct H as [f [_ H]].
  apply in_map_iff in H. destruct H as [c [<- _]]. reflexivity.
Qed.

Lemma delivered_token tok ev_tok defined fs cat d :
  In d (deliver tok ev_tok (wire defined fs) cat) -> snd d = tok.
Proof.
  unfold deliver. intro H. apply in_map_iff in H. destruct H as [s [<- Hs]].
  apply filter_In in Hs. destruct Hs as [Hs _]. cbn [snd]. rewrite (wire_wrapped _ _ _ Hs). reflexivity.
Qed.

Lemma memN_In x l : memN x l = true <-> In x l.
Proof.
  unfold memN. rewrite existsb_exists. split.
  - intros [y [Hy E]]. apply N.eqb_eq in E. subst; exact Hy.
  - intro H. exists x. split; [exact H | apply N.eqb_refl].
Qed.

(* every (filter, listed configured channel) pair whose categories admit the event delivers it *)
Lemma delivery_complete tok ev_tok defined fs f c cat :
  In f fs -> In c (fl_chans f) -> In c defined ->
  (fl_cats f = [] \/ In cat (fl_cats f)) ->
  In (c, tok) (deliver tok ev_tok (wire defined fs) cat).
Proof.
  intros Hf Hc Hd Hm. unfold deliver.
  apply (in_map (fun s => (su_chan s, if su_wrapped s then tok else ev_tok)) _ (mkSub c (fl_cats f) true)).
  apply filter_In. split.
  - unfold wire. apply in_flat_map. exists f. split; [exact Hf|].
    apply (in_map (fun c => mkSub c (fl_cats f) true)). apply filter_In. split; [exact Hc | apply memN_In, Hd].
  - unfold sub_matches. cbn [su_cats]. destruct Hm as [-> | Hm]; [reflexivity|].
    destruct (fl_cats f) as [|x r] eqn:E; [reflexivity | apply memN_In, Hm].
Qed.

(* ---------- failed starts ---------- *)
Lemma failed_attempt f d cfg : attempt true f d cfg = ([], None).
Proof. reflexivity. Qed.

Lemma failed_starts_change_nothing : forall h d,
  runs_h d h = runs d (completed_steps h) /\ after_h d h = after_all d (completed_steps h).
Proof.
  induction h as [|s r IH]; intro d; [split; reflexivity|].
  cbn [runs_h after_h completed_steps flat_map]. unfold attempt.
  destruct (hs_open_fails s).
  - cbn [fst last_or app]. apply IH.
  - destruct (start (hs_fresh s) d (hs_cfg s)) as [t id] eqn:E. cbn [fst app runs after_all].
    unfold ident, after. rewrite E. cbn [fst snd].
    destruct (IH (last_or t d)) as [A B]. split; [f_equal; exact A | exact B].
Qed.

Lemma completed_steps_wf h :
  Forall (fun s => hs_open_fails s = false -> token_wf (f_token (hs_fresh s)) = true) h ->
  Forall (fun fc => token_wf (f_token (fst fc)) = true) (completed_steps h).
Proof.
  induction 1 as [|s r Hs Hr IH]; [constructor|].
  cbn [completed_steps flat_map]. destruct (hs_open_fails s); [exact IH|].
  cbn [app]. constructor; [apply Hs; reflexivity | exact IH].
Qed.

Lemma token_stable_h d h id1 rest :
  Forall (fun s => hs_open_fails s = false -> token_wf (f_token (hs_fresh s)) = true) h ->
  runs_h d h = id1 :: rest -> Forall (fun id => id_token id = id_token id1) rest.
Proof.
  intros Hw H. destruct (failed_starts_change_nothing h d) as [A _]. rewrite A in H.
  apply (token_stable d (completed_steps h) id1 rest (completed_steps_wf h Hw) H).
Qed.

Lemma items_stable_h h d i j idi idj it v w :
  i <= j -> nth_error (runs_h d h) i = Some idi -> nth_error (runs_h d h) j = Some idj ->
  In (it, v) (id_items idi) -> In (it, w) (id_items idj) -> v = w.
Proof.
  destruct (failed_starts_change_nothing h d) as [A _]. rewrite A. apply items_stable.
Qed.

(* ---------- how the data directory is spelled ---------- *)
Lemma norm_app acc a b : norm acc (a ++ b) = norm (rev (norm acc a)) b.
Proof.
  revert acc; induction a as [|c r IH]; intro acc; cbn [app norm].
  - rewrite rev_involutive. reflexivity.
  - destruct c; apply IH.
Qed.

Lemma norm_names acc ns : norm acc (map Name ns) = rev acc ++ ns.
Proof.
  revert acc; induction ns as [|n r IH]; intro acc; cbn [map norm].
  - rewrite app_nil_r. reflexivity.
  - rewrite IH. cbn [rev]. rewrite <- app_assoc. reflexivity.
Qed.

(* token file, token.tmp and the store live in one directory: the one the spelling denotes *)
Lemma state_in_data_dir home cwd s :
  token_path home cwd s = data_dir home cwd s ++ [TOKEN] /\
  token_tmp_path home cwd s = data_dir home cwd s ++ [TOKEN_TMP] /\
  store_path home cwd s = data_dir home cwd s ++ [BADGER_DB].
Proof.
  unfold token_path, token_tmp_path, store_path. cbn [norm rev]. rewrite !rev_involutive. repeat split.
Qed.

(* spelling the directory absolutely, through the home directory or relative to the working
   directory denotes the same directory; a trailing name/.. pair changes nothing *)
Lemma resolve_abs home cwd ns : resolve home cwd (mkSpell false true (map Name ns)) = ns.
Proof. unfold resolve. cbn [sp_tilde sp_abs sp_comps]. rewrite norm_names. reflexivity. Qed.

Lemma resolve_tilde home cwd ns : resolve home cwd (mkSpell true false (map Name ns)) = home ++ ns.
Proof. unfold resolve. cbn [sp_tilde sp_comps]. rewrite norm_names, rev_involutive. reflexivity. Qed.

Lemma resolve_rel home cwd ns : resolve home cwd (mkSpell false false (map Name ns)) = cwd ++ ns.
Proof. unfold resolve. cbn [sp_tilde sp_abs sp_comps]. rewrite norm_names, rev_involutive. reflexivity. Qed.

Lemma resolve_dotdot home cwd t a cs n :
  resolve home cwd (mkSpell t a (cs ++ [Name n; Up])) = resolve home cwd (mkSpell t a cs).
Proof.
  unfold resolve. cbn [sp_tilde sp_abs sp_comps].
  assert (H : forall acc, norm acc (cs ++ [Name n; Up]) = norm acc cs).
  { intro acc. rewrite norm_app. cbn [norm tl]. rewrite rev_involutive. reflexivity. }
  rewrite !H. reflexivity.
Qed.

(* two starts whose spellings denote one directory read and write the same token file,
   the same token.tmp and the same store *)
Lemma same_dir_same_state home cwd home' cwd' s s' :
  resolve home cwd s = resolve home' cwd' s' ->
  token_path home cwd s = token_path home' cwd' s' /\
  token_tmp_path home cwd s = token_tmp_path home' cwd' s' /\
  store_path home cwd s = store_path home' cwd' s'.
Proof.
  intro H. destruct (state_in_data_dir home cwd s) as [A [B C]].
  destruct (state_in_data_dir home' cwd' s') as [A' [B' C']].
  unfold data_dir in *. rewrite A, B, C, A', B', C', H. repeat split.
Qed.

(* ---------- one algorithm per instance ---------- *)
Lemma presented_algs_spec stored is :
  presented_algs stored is = map (fun i => [(1%N, presented_spec stored i)]) is.
Proof. unfold presented_algs. rewrite presented_is_spec, map_map. reflexivity. Qed.
