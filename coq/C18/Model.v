(* C18 - model of the sensor's load-or-generate identity functions over a disk that a
   kill can interrupt.  Executable definitions only.

   Code modelled (as it is in /repo now):
     server/options.go WithToken           - ioutil.ReadFile; a file holding a well-formed id
                                             (xid.FromString) is adopted; absent or anything
                                             else: ioutil.WriteFile(token.tmp, uid); os.Rename
     services/ssh/storage.go PrivateKey    - Get "private-key" / generateKey / Set
     services/{ftp,smtp,ldap}/storage.go Certificate
                                           - Get "pemkey" / generateKey / Set, then
                                             Get "pemcert" / generateCert(pemkey) / Set
     listener/agent/storage.go KeyPair     - Get "key" / GenerateKeypair / Set
     storage/storage.go                    - one badger transaction per Get / Set

   Disk: the token file, the temporary file token.tmp next to it and the key-value store.  A badger Set is atomic; a file
   write is not: a kill leaves the file created-and-empty or holding any prefix.  A start
   is modelled by the list of on-disk states it passes through (one per atomic
   mutation); the states a kill can leave are exactly the initial state and the members
   of that list.  Generator outputs (xid.New, rsa.GenerateKey, x509.CreateCertificate,
   libdisco.GenerateKeypair) are inputs [fresh].

   Formerly (before /repo commit "fix: WithToken writes the token atomically ...") WithToken
   wrote the token file in place and adopted whatever an existing file held, so a kill
   during the first write left an empty or cut-short token that was kept forever; such
   legacy files are initial states here and are healed (C18_token_crash_safe).

   Not modelled: errors of the filesystem and of badger (ReadFile failing for another
   reason than absence makes WithToken return the error; after a failing WriteFile the
   rename is skipped, a failing Set is logged); the behaviour on stored values their library rejects
   (makePrivateKey returns nil, KeyPair slices key[64:], generateCert dereferences a nil
   PEM block) - excluded by the invariant [kv_ok] of Proofs.v, which every crash state
   satisfies; the order in which Run instantiates services (Go map order: the
   configuration is a list here and every theorem quantifies over all lists). *)
From HT Require Import Common.Bytes.
Open Scope nat_scope.

Inductive svc := Ssh | Ftp | Smtp | Ldap | Agent.
Inductive item := SshKey | FtpKey | FtpCert | SmtpKey | SmtpCert | LdapKey | LdapCert | AgentKey.

Definition item_code (i : item) : N :=
  match i with
  | SshKey => 1 | FtpKey => 2 | FtpCert => 3 | SmtpKey => 4 | SmtpCert => 5
  | LdapKey => 6 | LdapCert => 7 | AgentKey => 8
  end%N.
Definition item_eqb (a b : item) : bool := (item_code a =? item_code b)%N.

Definition all_items : list item := [SshKey; FtpKey; FtpCert; SmtpKey; SmtpCert; LdapKey; LdapCert; AgentKey].

(* the key item a certificate item is generated from *)
Definition key_of (c : item) : option item :=
  match c with
  | FtpCert => Some FtpKey | SmtpCert => Some SmtpKey | LdapCert => Some LdapKey
  | _ => None
  end.

(* ---- key-value store: association list, first binding wins ---- *)
Definition kv := list (item * bytes).
Fixpoint kv_get (m : kv) (k : item) : option bytes :=
  match m with
  | [] => None
  | (j, v) :: r => if item_eqb j k then Some v else kv_get r k
  end.
Definition kv_set (m : kv) (k : item) (v : bytes) : kv := (k, v) :: m.

Record disk := mkDisk { d_token : option bytes; d_tmp : option bytes; d_kv : kv }.
Definition empty_disk := mkDisk None None [].

Definition set_token (d : disk) (t : option bytes) := mkDisk t (d_tmp d) (d_kv d).
Definition set_tmp (d : disk) (t : option bytes) := mkDisk (d_token d) t (d_kv d).
Definition set_item (d : disk) (k : item) (v : bytes) := mkDisk (d_token d) (d_tmp d) (kv_set (d_kv d) k v).

(* ---- the token ---- *)
(* xid.ID.String(): 20 characters of 0-9 a-v *)
Definition xid_char (c : N) : bool := ((48 <=? c) && (c <=? 57) || (97 <=? c) && (c <=? 118))%N.
Definition token_wf (t : bytes) : bool := (length t =? 20) && forallb xid_char t.

(* the contents a file passes through while [new] is written to it: truncated/created
   empty, then every longer prefix, finally all of it *)
Definition prefixes (new : bytes) : list bytes := map (fun k => firstn k new) (seq 0 (length new)) ++ [new].

Fixpoint last_or {A} (l : list A) (d : A) : A :=
  match l with
  | [] => d
  | x :: r => last_or r x
  end.

(* WithToken: a file that does not hold a well-formed id counts as absent; the id is
   written to token.tmp (created/truncated, then the bytes arrive) and renamed *)
Definition token_step (d : disk) (uid : bytes) : list disk * bytes :=
  let write := (map (fun p => set_tmp d (Some p)) (prefixes uid) ++ [mkDisk (Some uid) None (d_kv d)], uid) in
  match d_token d with
  | None => write
  | Some b => if token_wf b then ([], b) else write
  end.

(* ---- key-value items ---- *)
Record fresh := mkFresh {
  f_token : bytes;                   (* xid.New().String() of this process *)
  f_key : item -> bytes;             (* what the item's generator would return *)
  f_cert : item -> bytes -> bytes    (* generateCert(pemkey) *)
}.

(* Get; on error generate and Set *)
Definition load_or_gen (d : disk) (k : item) (gen : bytes) : list disk * bytes :=
  match kv_get (d_kv d) k with
  | Some v => ([], v)
  | None => ([set_item d k gen], gen)
  end.

(* Certificate(): key first, then the certificate made from whatever key is in hand *)
Definition tls_pair (f : fresh) (d : disk) (k c : item) : list disk * list (item * bytes) :=
  let '(t1, kb) := load_or_gen d k (f_key f k) in
  let '(t2, cb) := load_or_gen (last_or t1 d) c (f_cert f c kb) in
  (t1 ++ t2, [(k, kb); (c, cb)]).

Definition single (f : fresh) (d : disk) (k : item) : list disk * list (item * bytes) :=
  let '(t, v) := load_or_gen d k (f_key f k) in (t, [(k, v)]).

Definition run_svc (f : fresh) (d : disk) (s : svc) : list disk * list (item * bytes) :=
  match s with
  | Ssh => single f d SshKey
  | Ftp => tls_pair f d FtpKey FtpCert
  | Smtp => tls_pair f d SmtpKey SmtpCert
  | Ldap => tls_pair f d LdapKey LdapCert
  | Agent => single f d AgentKey
  end.

Fixpoint run_svcs (f : fresh) (d : disk) (cfg : list svc) : list disk * list (item * bytes) :=
  match cfg with
  | [] => ([], [])
  | s :: r =>
      let '(t1, i1) := run_svc f d s in
      let '(t2, i2) := run_svcs f (last_or t1 d) r in
      (t1 ++ t2, i1 ++ i2)
  end.

(* what a completed start uses: the token stamped on events and the items in use *)
Record identity := mkId { id_token : bytes; id_items : list (item * bytes) }.

(* one start: (on-disk states passed through, identity in use once it has completed) *)
Definition start (f : fresh) (d : disk) (cfg : list svc) : list disk * identity :=
  let '(t0, tok) := token_step d (f_token f) in
  let '(t1, its) := run_svcs f (last_or t0 d) cfg in
  (t0 ++ t1, mkId tok its).

(* every on-disk state a kill during (or before, or after) that start can leave *)
Definition crash_states (f : fresh) (d : disk) (cfg : list svc) : list disk :=
  d :: fst (start f d cfg).

Definition after (f : fresh) (d : disk) (cfg : list svc) : disk :=
  last_or (fst (start f d cfg)) d.
Definition ident (f : fresh) (d : disk) (cfg : list svc) : identity :=
  snd (start f d cfg).

(* a history of completed starts *)
Fixpoint runs (d : disk) (h : list (fresh * list svc)) : list identity :=
  match h with
  | [] => []
  | (f, cfg) :: r => ident f d cfg :: runs (after f d cfg) r
  end.
Fixpoint after_all (d : disk) (h : list (fresh * list svc)) : disk :=
  match h with
  | [] => d
  | (f, cfg) :: r => after_all (after f d cfg) r
  end.

(* ---- what each configured service instance PRESENTS to a client ----
   services/ssh/{ssh-simulator,auth,ssh-jail,ssh-proxy}.go, services/{ftp,smtp,ldap}: every
   constructor calls its storage function (PrivateKey / Certificate) and keeps the object
   it returns: PrivateKey returns a NEW *privateKey made from the stored bytes
   (makePrivateKey) on every call, Certificate a new tls.Certificate.  The only documented
   option touching identity is ssh-auth's `private-key` (the other ssh services tag an
   unexported field, which the toml decoder never sets): decoding it calls
   privateKey.UnmarshalText (pointer receiver) on the object the instance holds and overwrites it IN
   PLACE.  Objects are cells of a heap; a connection is served with the content of the
   instance's cell at that time (config.AddHostKey(s.key) per connection). *)
Inductive ikind := KSim | KAuth | KJail | KProxy | KFtp | KSmtp | KLdap | KAgent.
Record inst := mkInst { i_kind : ikind; i_opt : option bytes (* private-key option: the operator's key *) }.

Definition kind_svc (k : ikind) : svc :=
  match k with
  | KSim | KAuth | KJail | KProxy => Ssh
  | KFtp => Ftp | KSmtp => Smtp | KLdap => Ldap | KAgent => Agent
  end.
(* the stored item whose public side the client is shown *)
Definition shown_item (k : ikind) : item :=
  match k with
  | KSim | KAuth | KJail | KProxy => SshKey
  | KFtp => FtpCert | KSmtp => SmtpCert | KLdap => LdapCert | KAgent => AgentKey
  end.

Definition heap := list bytes.
Fixpoint set_nth {A} (l : list A) (n : nat) (v : A) : list A :=
  match l, n with
  | [], _ => []
  | _ :: r, O => v :: r
  | x :: r, S n' => x :: set_nth r n' v
  end.

(* constructor of one instance: a new cell holding the stored identity; then the options *)
Definition construct (stored : ikind -> bytes) (h : heap) (i : inst) : heap * nat :=
  let c := length h in
  let h1 := h ++ [stored (i_kind i)] in
  match i_kind i, i_opt i with
  | KAuth, Some p => (set_nth h1 c p, c)
  | _, _ => (h1, c)
  end.

Fixpoint construct_all (stored : ikind -> bytes) (h : heap) (is : list inst) : heap * list nat :=
  match is with
  | [] => (h, [])
  | i :: r =>
      let '(h1, c) := construct stored h i in
      let '(h2, cs) := construct_all stored h1 r in
      (h2, c :: cs)
  end.

(* what a client of each instance is shown once all services are constructed *)
Definition presented (stored : ikind -> bytes) (is : list inst) : list bytes :=
  let '(h, cs) := construct_all stored [] is in map (fun c => nth c h []) cs.

(* specification: the stored identity, except for an ssh-auth instance explicitly given an
   operator key, which presents that key - and nobody else does *)
Definition presented_spec (stored : ikind -> bytes) (i : inst) : bytes :=
  match i_kind i, i_opt i with
  | KAuth, Some p => p
  | k, _ => stored k
  end.

(* ---- the token as DELIVERED: wiring of channels and filters in server Run ----
   server/honeytrap.go Run: for every [[filter]] section in order, for every channel name
   it lists that is a configured channel (others are skipped with an error message):
   channel = TokenChannel(channel, hc.token), then a category filter around it when the
   section has categories, then bus.Subscribe.  EventBus.Send hands an event to every
   subscriber in subscription order.  Channels and categories are numbered; a category
   expression is a name (no meta characters, no name contained in another), so it matches
   exactly the events of that category; `services` expressions are not modelled.
   An event that reaches a subscription whose channel is not wrapped keeps whatever
   token field it has ([ev_tok], normally none). *)
Record filt := mkFilt { fl_chans : list N; fl_cats : list N }.
Record subscription := mkSub { su_chan : N; su_cats : list N; su_wrapped : bool }.

Definition memN (x : N) (l : list N) : bool := existsb (N.eqb x) l.

Definition wire (defined : list N) (fs : list filt) : list subscription :=
  flat_map (fun f => map (fun c => mkSub c (fl_cats f) true)
                         (filter (fun c => memN c defined) (fl_chans f))) fs.

Definition sub_matches (s : subscription) (cat : N) : bool :=
  match su_cats s with [] => true | cs => memN cat cs end.

(* (channel, token field of the event as it arrives there), in delivery order *)
Definition deliver (tok ev_tok : bytes) (subs : list subscription) (cat : N) : list (N * bytes) :=
  map (fun s => (su_chan s, if su_wrapped s then tok else ev_tok))
      (filter (fun s => sub_matches s cat) subs).

(* ---- starts that fail ----
   cmd/honeytrap/main.go applies WithConfig, WithDataDir, WithToken in this order;
   WithDataDir -> storage.SetDataDir -> MustDB: when badger.Open fails (another process
   holds the directory lock, a transient error) the process ends with log.Fatal - before
   WithToken and before any service constructor, hence before any write. *)
Definition attempt (open_fails : bool) (f : fresh) (d : disk) (cfg : list svc) : list disk * option identity :=
  if open_fails then ([], None)
  else let '(t, id) := start f d cfg in (t, Some id).

Record hstep := mkStep { hs_open_fails : bool; hs_fresh : fresh; hs_cfg : list svc }.

(* identities of the starts that completed, in order; the disk after the whole history *)
Fixpoint runs_h (d : disk) (h : list hstep) : list identity :=
  match h with
  | [] => []
  | s :: r =>
      let '(t, oid) := attempt (hs_open_fails s) (hs_fresh s) d (hs_cfg s) in
      match oid with
      | Some id => id :: runs_h (last_or t d) r
      | None => runs_h (last_or t d) r
      end
  end.
Fixpoint after_h (d : disk) (h : list hstep) : disk :=
  match h with
  | [] => d
  | s :: r => after_h (last_or (fst (attempt (hs_open_fails s) (hs_fresh s) d (hs_cfg s))) d) r
  end.
Definition completed_steps (h : list hstep) : list (fresh * list svc) :=
  flat_map (fun s => if hs_open_fails s then [] else [(hs_fresh s, hs_cfg s)]) h.

(* ---- one key / certificate per instance ----
   every ssh service calls config.AddHostKey once (the RSA key), every TLS service puts one
   certificate into its tls.Config: a client is offered exactly one host key algorithm /
   certificate type (numbered 1), whatever it asks for. *)
Definition offered_algs : list N := [1%N].
Definition presented_algs (stored : ikind -> bytes) (is : list inst) : list (list (N * bytes)) :=
  map (fun v => map (fun a => (a, v)) offered_algs) (presented stored is).

(* ---- how the data directory is SPELLED ----
   server/options.go WithDataDir(s): p := expand(s) (a leading ~ becomes the home
   directory), p = filepath.Abs(p) (relative: joined to the working directory; then
   Clean), b.dataDir = p and storage.SetDataDir(p), which opens p/badger.db; WithToken
   uses path.Join(b.dataDir, "token") and ... "token.tmp".  Paths are lists of
   components below the root; the splitter drops empty components and "."; ".." is
   [Up].  Lexical, like filepath.Clean: symbolic links are not modelled. *)
Inductive comp := Up | Name (n : N).
Record spelling := mkSpell { sp_tilde : bool; sp_abs : bool; sp_comps : list comp }.

(* Clean of root/acc/cs, [acc] reversed; ".." at the root stays at the root *)
Fixpoint norm (acc : list N) (cs : list comp) : list N :=
  match cs with
  | [] => rev acc
  | Up :: r => norm (tl acc) r
  | Name n :: r => norm (n :: acc) r
  end.

Definition resolve (home cwd : list N) (s : spelling) : list N :=
  if sp_tilde s then norm (rev home) (sp_comps s)
  else if sp_abs s then norm [] (sp_comps s)
  else norm (rev cwd) (sp_comps s).

Definition TOKEN := 1000%N.
Definition TOKEN_TMP := 1001%N.
Definition BADGER_DB := 1002%N.
(* where the three pieces of persisted state of a start live *)
Definition data_dir (home cwd : list N) (s : spelling) : list N := resolve home cwd s.
Definition store_path (home cwd : list N) (s : spelling) : list N := norm (rev (data_dir home cwd s)) [Name BADGER_DB].
Definition token_path (home cwd : list N) (s : spelling) : list N := norm (rev (data_dir home cwd s)) [Name TOKEN].
Definition token_tmp_path (home cwd : list N) (s : spelling) : list N := norm (rev (data_dir home cwd s)) [Name TOKEN_TMP].
