(* C18 - executable checks over the OBSERVATIONS of one data directory's history:
   the persisted state before the first completed start (pre-seeded crash state, or
   what a killed start left) and, per completed start of the real server in its own
   process, the token stamped on a delivered event, what clients were shown, and the
   persisted state afterwards.  Stored values and client-visible keys/certificates are
   6-byte SHA-256 digests; the token and the token file are the real bytes. *)
From HT Require Import Common.Bytes C18.Model.
Open Scope nat_scope.

Record run := mkRun {
  r_insts : list inst;              (* service instances configured in this start (kind, private-key option) *)
  r_token : bytes;                  (* "token" field of an event delivered to a configured channel *)
  r_ntok : N;                       (* number of distinct token values on the events of this start *)
  r_disk : disk;                    (* token file, token.tmp, kv items after the start *)
  r_pub : list (item * bytes);      (* public projection of each stored item (public key / certificate DER) *)
  r_shown : list (list (N * bytes));
                                    (* per instance, in the order of r_insts, per host key algorithm / certificate type the
                                       instance ADVERTISES (1 = the RSA key / RSA certificate / agent key): what a client
                                       restricted to that algorithm was shown in a real handshake; [] = nothing *)
  r_bad : list item;                (* stored items the real libraries reject (parse, Validate, X509KeyPair with the stored key) *)
  r_lock : bool;                    (* INPUT: the store's directory lock is held by another process while this start is
                                       attempted (an earlier start still running, or a foreign flock) *)
  r_failed : bool;                  (* the process ended without completing the start (all other observations are void) *)
  r_chans : list N;                 (* configured capture channels *)
  r_filters : list filt;            (* the [[filter]] sections, in order *)
  r_deliv : list (N * list (N * bytes));
                                    (* per probe event category: (channel, token field at arrival) in arrival order *)
  r_spell : spelling                (* INPUT: how the data directory was spelled for this start *)
}.

(* services enabled: one load-or-generate call per instance *)
Definition r_cfg (r : run) : list svc := map (fun i => kind_svc (i_kind i)) (r_insts r).

(* the public side of the stored identity an instance of kind k is made from *)
Definition stored_of (r : run) (k : ikind) : bytes :=
  match kv_get (r_pub r) (shown_item k) with Some b => b | None => [] end.

Fixpoint list_eqb {A B} (e : A -> B -> bool) (a : list A) (b : list B) : bool :=
  match a, b with
  | [], [] => true
  | x :: a', y :: b' => e x y && list_eqb e a' b'
  | _, _ => false
  end.

Definition has_opkey (i : inst) : bool :=
  match i_kind i, i_opt i with KAuth, Some _ => true | _, _ => false end.

Definition pair_eqb (a b : N * bytes) : bool := (fst a =? fst b)%N && eqb_bytes (snd a) (snd b).

Fixpoint nget (m : list (N * bytes)) (k : N) : option bytes :=
  match m with
  | [] => None
  | (j, v) :: r => if (j =? k)%N then Some v else nget r k
  end.

(* (100 * item + algorithm, value shown) of the instances that carry no operator key *)
Definition r_seen (r : run) : list (N * bytes) :=
  flat_map (fun ib => if has_opkey (fst ib) then []
                      else map (fun av => (100 * item_code (shown_item (i_kind (fst ib))) + fst av, snd av)%N) (snd ib))
           (combine (r_insts r) (r_shown r)).

Record case := mkCase {
  c_id : N;
  c_reach : bool;                   (* the initial state is one a kill during a first start (of the code before or after
                                       the repair) can leave; informational: every case is judged alike *)
  c_disk0 : disk;
  c_bad0 : list item;
  c_runs : list run;
  c_home : list N;                  (* components of the home directory, of the working directory of the starts and of the *)
  c_cwd : list N;                   (* data directory (names numbered per case) *)
  c_dir : list N
}.

Definition obytes_eqb (a b : option bytes) : bool :=
  match a, b with
  | Some x, Some y => eqb_bytes x y
  | None, None => true
  | _, _ => false
  end.

Definition kv_eqb (a b : kv) : bool := forallb (fun it => obytes_eqb (kv_get a it) (kv_get b it)) all_items.
Definition disk_eqb (a b : disk) : bool :=
  obytes_eqb (d_token a) (d_token b) && obytes_eqb (d_tmp a) (d_tmp b) && kv_eqb (d_kv a) (d_kv b).

(* ---- correspondence: the model of the code, fed with the generator outputs
   the implementation turned out to have used ---- *)
Definition odefault (o : option bytes) : bytes := match o with Some b => b | None => [] end.
Definition fresh_of (r : run) : fresh :=
  mkFresh (r_token r)
          (fun it => odefault (kv_get (d_kv (r_disk r)) it))
          (fun it _ => odefault (kv_get (d_kv (r_disk r)) it)).

Definition history_of (rs : list run) : list (fresh * list svc) := map (fun r => (fresh_of r, r_cfg r)) rs.

Fixpoint agrees (d : disk) (rs : list run) : bool :=
  match rs with
  | [] => true
  | r :: rest =>
      let f := fresh_of r in
      let d' := after f d (r_cfg r) in
      eqb_bytes (id_token (ident f d (r_cfg r))) (r_token r)
      && disk_eqb d' (r_disk r)
      && forallb (fun iv => obytes_eqb (kv_get (d_kv (r_disk r)) (fst iv)) (Some (snd iv)))
                 (id_items (ident f d (r_cfg r)))
      (* every probe event arrives on exactly the wired channels, with the token in use *)
      && forallb (fun cd => list_eqb (fun a b => (fst a =? fst b)%N && eqb_bytes (snd a) (snd b))
                                     (deliver (r_token r) [] (wire (r_chans r) (r_filters r)) (fst cd)) (snd cd))
                 (r_deliv r)
      (* every instance presents what the constructors' cells hold *)
      && list_eqb (list_eqb pair_eqb) (presented_algs (stored_of r) (r_insts r)) (r_shown r)
      (* a token the model generates is xid.New().String(): the observed one must have that shape *)
      && (match fst (token_step d (r_token r)) with [] => true | _ => token_wf (r_token r) end)
      && agrees d' rest
  end.

(* a start fails exactly when the directory lock is held elsewhere, and then changes
   nothing (C18_failed_starts_change_nothing): the model runs over the completed starts *)
Definition ok_runs (c : case) : list run := filter (fun r => negb (r_failed r)) (c_runs c).
Definition lock_ok (rs : list run) : bool := forallb (fun r => Bool.eqb (r_failed r) (r_lock r)) rs.
(* every start's spelling denotes the case's one data directory: all starts act on one disk *)
Definition spell_ok (c : case) : bool :=
  forallb (fun r => list_eqb N.eqb (resolve (c_home c) (c_cwd c) (r_spell r)) (c_dir c)) (c_runs c).
Definition model_agrees (c : case) : bool := lock_ok (c_runs c) && spell_ok c && agrees (c_disk0 c) (ok_runs c).

Definition mismatches (cs : list case) : list N :=
  map c_id (filter (fun c => negb (model_agrees c)) cs).

(* ---- the property, judged on the observations alone ---- *)
Definition SIG_TOKEN_MALFORMED := 1%N.     (* a start (after an interrupted start, on a legacy empty/cut-short token file, ...) uses a
                                              token that is not a well-formed id *)
Definition SIG_TOKEN_CHANGED := 2%N.       (* the token differs between starts (or between events of one start) *)
Definition SIG_TOKEN_NOT_PERSISTED := 3%N. (* the token in use is not what the token file holds afterwards *)
Definition SIG_ITEM_CHANGED := 4%N.        (* a stored or client-visible key/certificate changed or disappeared *)
Definition SIG_ITEM_MALFORMED := 5%N.      (* a stored item is rejected by its library, or a certificate without/not matching its key *)
Definition SIG_DELIVERY := 7%N.            (* an event reached a channel without (or with another than) the sensor's token, or did
                                              not reach a channel a filter wires it to *)
Definition SIG_NOT_PRESENTED := 6%N.       (* a service instance did not present the persisted identity to its client (or, given an
                                              operator key, not that key; or somebody else presented the operator key) *)

Definition svc_items (s : svc) : list item :=
  match s with
  | Ssh => [SshKey] | Ftp => [FtpKey; FtpCert] | Smtp => [SmtpKey; SmtpCert]
  | Ldap => [LdapKey; LdapCert] | Agent => [AgentKey]
  end.
Definition svc_shown (s : svc) : item :=
  match s with Ssh => SshKey | Ftp => FtpCert | Smtp => SmtpCert | Ldap => LdapCert | Agent => AgentKey end.

Definition tokens_wf (rs : list run) : bool := forallb (fun r => token_wf (r_token r)) rs.

Definition tokens_equal (rs : list run) : bool :=
  match rs with
  | [] => true
  | r0 :: _ => forallb (fun r => eqb_bytes (r_token r) (r_token r0)) rs
  end.
Definition tokens_same (rs : list run) : bool :=
  tokens_equal rs && forallb (fun r => (r_ntok r =? 1)%N) rs.

Definition tokens_persisted (rs : list run) : bool :=
  forallb (fun r => obytes_eqb (d_token (r_disk r)) (Some (r_token r))) rs.

(* stored items never change or disappear from one observed state to the next *)
Definition kv_keeps (a b : kv) : bool :=
  forallb (fun it => match kv_get a it with Some v => obytes_eqb (kv_get b it) (Some v) | None => true end) all_items.
Fixpoint kv_monotone (a : kv) (rest : list kv) : bool :=
  match rest with
  | [] => true
  | b :: r => kv_keeps a b && kv_monotone b r
  end.

(* what clients are shown never changes, per stored identity and per algorithm offered:
   [known] collects the first value per key *)
Fixpoint shown_stable (known : list (N * bytes)) (rs : list run) : bool :=
  match rs with
  | [] => true
  | r :: rest =>
      forallb (fun iv => match nget known (fst iv) with Some w => eqb_bytes w (snd iv) | None => true end) (r_seen r)
      && shown_stable (fold_left (fun k iv => match nget k (fst iv) with Some _ => k | None => iv :: k end)
                                 (r_seen r) known) rest
  end.

Definition mem_item (i : item) (l : list item) : bool := existsb (item_eqb i) l.

(* every certificate has its key next to it; nothing stored is rejected by its library *)
Definition kv_shape_ok (m : kv) (bad : list item) : bool :=
  forallb (fun it => match kv_get m it with
                     | None => true
                     | Some _ => negb (mem_item it bad)
                                 && match key_of it with
                                    | Some k => match kv_get m k with Some _ => true | None => false end
                                    | None => true
                                    end
                     end) all_items.

(* every enabled service has its items stored, and every instance shows its client the
   stored identity - except an ssh-auth instance given an operator key, which shows that *)
Definition presents_ok (r : run) : bool :=
  forallb (fun s =>
    forallb (fun it => match kv_get (d_kv (r_disk r)) it with Some _ => true | None => false end) (svc_items s))
    (r_cfg r)
  && forallb (fun i => match kv_get (r_pub r) (shown_item (i_kind i)) with Some _ => true | None => false end) (r_insts r)
  && forallb (fun l => forallb (fun av => match snd av with [] => false | _ => true end) l) (r_shown r)
  && list_eqb (fun v l => match nget l 1%N with Some w => eqb_bytes v w | None => false end)
              (map (presented_spec (stored_of r)) (r_insts r)) (r_shown r).

(* every delivery of every probe event carries the token of the FIRST completed start, and
   the deliveries are those the filters wire *)
Definition deliveries_ok (tok0 : bytes) (r : run) : bool :=
  forallb (fun cd => list_eqb (fun a b => (fst a =? fst b)%N && eqb_bytes (snd a) (snd b))
                              (deliver tok0 [] (wire (r_chans r) (r_filters r)) (fst cd)) (snd cd))
          (r_deliv r).

Definition case_sigs (c : case) : list N :=
  let rs := ok_runs c in
  (if tokens_wf rs then [] else [SIG_TOKEN_MALFORMED])
  ++ (if tokens_same rs then [] else [SIG_TOKEN_CHANGED])
  ++ (if tokens_persisted rs then [] else [SIG_TOKEN_NOT_PERSISTED])
  ++ (if kv_monotone (d_kv (c_disk0 c)) (map (fun r => d_kv (r_disk r)) rs) && shown_stable [] rs
      then [] else [SIG_ITEM_CHANGED])
  ++ (if kv_shape_ok (d_kv (c_disk0 c)) (c_bad0 c) && forallb (fun r => kv_shape_ok (d_kv (r_disk r)) (r_bad r)) rs
      then [] else [SIG_ITEM_MALFORMED])
  ++ (if forallb presents_ok rs then [] else [SIG_NOT_PRESENTED])
  ++ (if match rs with [] => true | r0 :: _ => forallb (deliveries_ok (r_token r0)) rs end then [] else [SIG_DELIVERY]).

Definition violations (cs : list case) : list (N * N) :=
  flat_map (fun c => map (fun s => (c_id c, s)) (case_sigs c)) cs.

(* tags: 1 + 2*[token file present at first] + 4*[items present at first] + 8*[more than two starts]
   + 16*[some start enabled a service] + 32*[some start has two instances sharing one stored identity]
   + 64*[some start has an instance with an operator key] + 128*[some start is attempted while the lock is held]
   + 256*[some channel is named by two or more filters] + 512*[some start spells the data directory other than absolutely]; never 0: every case is a restart history *)
Definition tags (cs : list case) : list (N * N) :=
  map (fun c => (c_id c,
    1 + (match d_token (c_disk0 c) with Some _ => 2 | None => 0 end)
      + (match d_kv (c_disk0 c) with [] => 0 | _ => 4 end)
      + (if (2 <? length (c_runs c))%nat then 8 else 0)
      + (if existsb (fun r => match r_cfg r with [] => false | _ => true end) (c_runs c) then 16 else 0)
      + (if existsb (fun r => negb (length (nodup N.eq_dec (map (fun i => item_code (shown_item (i_kind i))) (r_insts r)))
                                    =? length (r_insts r))%nat) (c_runs c) then 32 else 0)
      + (if existsb (fun r => existsb has_opkey (r_insts r)) (c_runs c) then 64 else 0)
      + (if existsb r_lock (c_runs c) then 128 else 0)
      + (if existsb (fun r => negb (length (nodup N.eq_dec (flat_map fl_chans (r_filters r)))
                                    =? length (flat_map fl_chans (r_filters r)))%nat) (c_runs c) then 256 else 0)
      + (if existsb (fun r => negb (sp_abs (r_spell r)) || existsb (fun x => match x with Up => true | _ => false end) (sp_comps (r_spell r)))
                    (c_runs c) then 512 else 0))%N) cs.
