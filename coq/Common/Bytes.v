(* Common byte-level definitions shared by all models.
   Bytes are [N] values below 256; byte strings are [list N].
   Lengths/offsets that mirror Go [int] are [Z]. *)
From Coq Require Export List NArith ZArith Bool Lia.
From Coq Require Import ZifyBool ZifyN ZifyNat.
Export ListNotations.

Ltac Zify.zify_post_hook ::= Z.div_mod_to_equations.

Open Scope Z_scope.

Definition bytes := list N.

Definition byteb (b : N) : bool := (b <? 256)%N.
Definition wf_bytes (l : bytes) : bool := forallb byteb l.

Definition zlen {A} (l : list A) : Z := Z.of_nat (length l).

(* Go slicing [l[a:b]] for 0 <= a <= b <= len l, as a total function. *)
Definition slice {A} (l : list A) (a b : Z) : list A :=
  firstn (Z.to_nat (b - a)) (skipn (Z.to_nat a) l).

(* Big-endian value of a byte string. *)
Fixpoint be_val_acc (acc : Z) (l : bytes) : Z :=
  match l with
  | [] => acc
  | b :: r => be_val_acc (acc * 256 + Z.of_N b) r
  end.
Definition be_val (l : bytes) : Z := be_val_acc 0 l.

(* Two's-complement reinterpretation of an unsigned k-bit value. *)
Definition to_signed (bits : Z) (v : Z) : Z :=
  if v <? 2 ^ (bits - 1) then v else v - 2 ^ bits.
Definition to_unsigned (bits : Z) (v : Z) : Z := v mod 2 ^ bits.

(* Big-endian encoding of the low 8*k bits of v, k bytes. *)
Fixpoint be_enc (k : nat) (v : Z) : bytes :=
  match k with
  | O => []
  | S k' => Z.to_N ((v / 256 ^ Z.of_nat k') mod 256) :: be_enc k' v
  end.

Definition eqb_bytes (a b : bytes) : bool :=
  if list_eq_dec N.eq_dec a b then true else false.

Lemma eqb_bytes_true a b : eqb_bytes a b = true <-> a = b.
Proof. unfold eqb_bytes; destruct (list_eq_dec N.eq_dec a b); split; congruence. Qed.

Lemma zlen_app {A} (a b : list A) : zlen (a ++ b) = zlen a + zlen b.
Proof. unfold zlen; rewrite app_length; lia. Qed.

Lemma zlen_nonneg {A} (l : list A) : 0 <= zlen l.
Proof. unfold zlen; lia. Qed.

Lemma zlen_cons {A} (x : A) l : zlen (x :: l) = 1 + zlen l.
Proof. unfold zlen; cbn [length]; lia. Qed.

Lemma zlen_nil {A} : zlen (@nil A) = 0.
Proof. reflexivity. Qed.

Lemma slice_length {A} (l : list A) a b :
  0 <= a -> a <= b -> b <= zlen l -> zlen (slice l a b) = b - a.
Proof.
  intros Ha Hab Hb; unfold slice, zlen in *.
  rewrite firstn_length, skipn_length; lia.
Qed.

Lemma wf_bytes_app a b : wf_bytes (a ++ b) = wf_bytes a && wf_bytes b.
Proof. unfold wf_bytes; apply forallb_app. Qed.

Lemma wf_bytes_firstn n l : wf_bytes l = true -> wf_bytes (firstn n l) = true.
Proof.
  intros H; rewrite <- (firstn_skipn n l), wf_bytes_app in H.
  apply andb_true_iff in H; tauto.
Qed.

Lemma wf_bytes_skipn n l : wf_bytes l = true -> wf_bytes (skipn n l) = true.
Proof.
  intros H; rewrite <- (firstn_skipn n l), wf_bytes_app in H.
  apply andb_true_iff in H; tauto.
Qed.

Lemma wf_bytes_slice l a b : wf_bytes l = true -> wf_bytes (slice l a b) = true.
Proof. intros H; unfold slice; apply wf_bytes_firstn, wf_bytes_skipn, H. Qed.

(* be_val / be_enc round trips *)
Lemma be_val_acc_app acc a b :
  be_val_acc acc (a ++ b) = be_val_acc (be_val_acc acc a) b.
Proof. revert acc; induction a as [|x a IH]; intros acc; cbn [be_val_acc app]; auto. Qed.

Lemma be_val_acc_bound acc l :
  wf_bytes l = true -> 0 <= acc ->
  acc * 256 ^ zlen l <= be_val_acc acc l < (acc + 1) * 256 ^ zlen l.
Proof.
  revert acc; induction l as [|x l IH]; intros acc Hwf Hacc.
  - rewrite zlen_nil; cbn [be_val_acc]; lia.
  - cbn [wf_bytes forallb] in Hwf; apply andb_true_iff in Hwf as [Hx Hl].
    unfold byteb in Hx. rewrite zlen_cons.
    cbn [be_val_acc].
    specialize (IH (acc * 256 + Z.of_N x) Hl ltac:(lia)).
    pose proof (zlen_nonneg l) as Hn.
    rewrite Z.pow_add_r by lia. change (256 ^ 1) with 256.
    assert (0 < 256 ^ zlen l) by (apply Z.pow_pos_nonneg; lia).
    nia.
Qed.

Lemma be_val_bound l : wf_bytes l = true -> 0 <= be_val l < 256 ^ zlen l.
Proof. intros H; pose proof (be_val_acc_bound 0 l H ltac:(lia)); unfold be_val; lia. Qed.
