(* Byte strings in case files arrive packed, 7 bytes (big-endian) per primitive 63-bit
   integer literal (coqc parses list-of-N literals slowly); [unpack len ws] is the byte
   string.  Used only when evaluating correspondence shards, never in a theorem. *)
From Coq Require Import List NArith ZArith.
From Coq Require Uint63.
Import ListNotations.

Module Packed.
  Import Uint63.
  Fixpoint low_bits (n : nat) (x : Uint63.int) : N :=
    match n with
    | O => 0%N
    | S n' => (if Uint63.is_even x then N.double else N.succ_double) (low_bits n' (Uint63.lsr x 1%uint63))
    end.
  Definition word_bytes (w : Uint63.int) : list N :=
    map (fun sh => low_bits 8 (Uint63.lsr w sh)) [48; 40; 32; 24; 16; 8; 0]%uint63.
  (* the last word holds len mod 7 bytes (right-aligned) when len is not a multiple of 7 *)
  Fixpoint unpack (len : Z) (ws : list Uint63.int) : list N :=
    match ws with
    | [] => []
    | [w] => skipn (Z.to_nat (7 - len)) (word_bytes w)
    | w :: r => word_bytes w ++ unpack (len - 7) r
    end.
End Packed.
Definition unpack := Packed.unpack.
