(* C16 - property theorems: the agent tunnel relays each remote connection's bytes in
   order, to it alone; every protocol message decodes to what was encoded. *)
From HT Require Import Common.Bytes C16.Model C16.Check C16.Proofs.
Open Scope Z_scope.

(* ---------------- codec ---------------- *)

(* a flushed bufio.Writer is transparent: MarshalBinary (every type but Handshake) is
   the concatenation of the fields *)
Theorem C16_marshal_is_field_concatenation : forall m,
  is_handshake m = false -> encode_msg m = ser_msg m.
Proof. exact encode_msg_ser. Qed.

(* every well-formed message (TCP/UDP addresses, any IP bytes, ports 0..65535) whose
   encoding fits the 4096-byte bufio buffer decodes to what was encoded *)
Theorem C16_codec_roundtrip : forall m,
  wf_msg m -> is_handshake m = false -> zlen (encode_msg m) <= BUFSZ -> transport m = Some m.
Proof. exact codec_roundtrip. Qed.

(* the decoder is right for a handshake whose sender flushes *)
Theorem C16_handshake_decodes_when_flushed : forall m,
  wf_msg m -> zlen (encode_flushed m) <= BUFSZ ->
  decode_msg (msg_type m) (encode_flushed m) = Some m.
Proof. exact handshake_flushed_roundtrip. Qed.

(* FULL statement "every message decodes to what was encoded" (payloads up to 65000):
   refuted one byte above the buffer size ... *)
Theorem C16_codec_roundtrip_large_refuted :
  exists m, wf_msg m /\ is_handshake m = false /\ zlen (encode_msg m) = BUFSZ + 1 /\
            transport m <> Some m.
Proof. exact roundtrip_large_refuted. Qed.

(* ... and for Handshake.MarshalBinary, which never flushes *)
Theorem C16_handshake_marshal_refuted :
  exists m, wf_msg m /\ encode_msg m = [] /\
            transport m = Some (MHandshake 0 [] [] [] []) /\ transport m <> Some m.
Proof. exact handshake_marshal_refuted. Qed.

(* ---------------- session: for every state, hence every history ---------------- *)

(* Connections.Get: the first registered connection whose two address strings equal
   the message's *)
Theorem C16_owner_is_first_registered_match : forall cs reg l r i,
  get_conn cs reg l r = GFound i ->
  exists pre post, reg = pre ++ i :: post /\ matches cs l r i /\
                   Forall (fun j => ~ matches cs l r j) pre.
Proof. exact get_conn_found. Qed.

Theorem C16_no_owner_means_no_match : forall cs reg l r,
  get_conn cs reg l r = GNone -> Forall (fun j => ~ matches cs l r j) reg.
Proof. exact get_conn_none. Qed.

(* address strings are equal iff the ports are and the IPs are, a 4-byte IP counting
   as its 16-byte form; TCP- and UDP-typed addresses print alike *)
Theorem C16_same_id : forall a b,
  addr_cmp a b = CEq <->
  exists ka kb, addr_key a = Some ka /\ addr_key b = Some kb /\ fst ka = fst kb /\ snd ka = snd kb.
Proof. exact addr_cmp_eq. Qed.

(* hello: a fresh, open, empty connection with the announced addresses is surfaced;
   existing connections are untouched *)
Theorem C16_hello_surfaces_announced : forall s l r,
  s_alive s = true ->
  exists s', serv_msg s (MHello l r) = (s', RAcc l r, [], None) /\
    conn_at s' (length (s_conns s)) = mkVc l r [] false /\
    (forall c, (c < length (s_conns s))%nat -> conn_at s' c = conn_at s c) /\
    s_reg s' = s_reg s ++ [length (s_conns s)] /\ s_alive s' = true.
Proof. exact hello_surfaces. Qed.

(* a data message appends exactly its payload to the connection it is routed to and
   changes no other connection (isolation) *)
Theorem C16_data_reaches_owner_only : forall s l r p i,
  routed s (MData l r p) = Some (i, p) ->
  exists s', serv_msg s (MData l r p) = (s', RNone, [], Some i) /\
    conn_at s' i = mkVc (vc_l (conn_at s i)) (vc_r (conn_at s i)) (vc_buf (conn_at s i) ++ p) false /\
    (forall c, c <> i -> conn_at s' c = conn_at s c) /\
    s_reg s' = s_reg s /\ s_alive s' = s_alive s /\ length (s_conns s') = length (s_conns s).
Proof. exact data_routed. Qed.

(* data/eof for an id that matches no registered connection is ignored *)
Theorem C16_unknown_id_ignored : forall s l r p,
  get_conn (s_conns s) (s_reg s) l r = GNone ->
  serv_msg s (MData l r p) = (s, RNone, [], None) /\ serv_msg s (MEof l r) = (s, RNone, [], None).
Proof. exact unknown_id_ignored. Qed.

(* eof ends exactly the matching connection (unregistered, closed, buffer still readable),
   tells the agent once, leaves the others alone *)
Theorem C16_eof_ends_exactly_that_connection : forall s l r i,
  s_alive s = true -> get_conn (s_conns s) (s_reg s) l r = GFound i ->
  exists s', serv_msg s (MEof l r) =
      (s', RNone, (if vc_closed (conn_at s i) then [] else [MEof (vc_l (conn_at s i)) (vc_r (conn_at s i))]), None) /\
    (forall c, c <> i -> conn_at s' c = conn_at s c) /\
    ((i < length (s_conns s))%nat -> conn_at s' i = close_vc (conn_at s i)) /\
    s_reg s' = remove_first i (s_reg s) /\ s_alive s' = true.
Proof. exact eof_closes_exactly. Qed.

(* the agent disconnecting ends every registered connection and touches no other *)
Theorem C16_disconnect_ends_registered : forall s c,
  In c (s_reg s) -> vc_closed (conn_at (teardown s) c) = true.
Proof. exact teardown_closes. Qed.

Theorem C16_disconnect_leaves_others : forall s c,
  ~ In c (s_reg s) -> conn_at (teardown s) c = conn_at s c.
Proof. exact teardown_others. Qed.

(* bytes a service writes go back as one frame tagged with that connection's addresses *)
Theorem C16_write_tagged : forall s c p,
  s_alive s = true ->
  step ideal_wire s (AWrite c p) = (s, RNone, [MData (vc_l (conn_at s c)) (vc_r (conn_at s c)) p]).
Proof. exact write_tagged. Qed.

(* for EVERY sequence of agent messages and service calls (reads of any size, waiting
   or not, writes, closes, disconnect), every wire and every connection c:
   bytes buffered at the start ++ payloads routed to c during the run
     = bytes the service read on c ++ bytes still buffered
   - in order, exactly once, nothing from any other connection *)
Theorem C16_stream_in_order_exactly_once : forall wire acts s c,
  let '(s', rs, _) := run wire s acts in
  vc_buf (conn_at s c) ++ run_recv wire s acts c = run_read acts rs c ++ vc_buf (conn_at s' c).
Proof. exact run_conserves. Qed.

(* a connection that has ended (eof, service close, disconnect) receives nothing more,
   whatever follows *)
Theorem C16_closed_receives_nothing : forall wire acts s c,
  (c < length (s_conns s))%nat -> vc_closed (conn_at s c) = true -> run_recv wire s acts c = [].
Proof. exact closed_gets_nothing. Qed.

(* and it is never reopened *)
Theorem C16_closed_stays_closed : forall wire s a c,
  (c < length (s_conns s))%nat -> vc_closed (conn_at s c) = true ->
  still_closed s (fst (fst (step wire s a))) c.
Proof. exact step_closed. Qed.

(* ---------------- one connection and its reader, step by step ---------------- *)

(* for EVERY schedule of receive / Close / reader steps (goroutine interleavings at the
   granularity of the mutex-protected sections): bytes read ++ bytes buffered = accepted
   payloads, in order - never reordered, duplicated or taken from elsewhere *)
Theorem C16_reader_never_ahead : forall evs s,
  c_got (crun s evs) ++ c_buf (crun s evs) = c_got s ++ c_buf s ++ accepted (c_closed s) evs.
Proof. exact crun_inv. Qed.

(* FULL statement "every accepted byte reaches the service before Read returns EOF":
   refuted - a receive between Read's empty-buffer test and its select wakes nobody,
   and after Close Read returns EOF without looking at the buffer *)
Theorem C16_bytes_lost_at_close_refuted :
  exists evs, let s := crun cst0 evs in
    c_pc s = PDone /\ c_got s = [] /\ accepted false evs = [1;2;3]%N.
Proof. exact lost_at_close. Qed.

(* outside that window it holds *)
Theorem C16_complete_outside_window : forall evs,
  window_free cst0 evs -> c_pc (crun cst0 evs) = PDone -> c_got (crun cst0 evs) = accepted false evs.
Proof. exact complete_outside_window. Qed.

Example C16_window_free_nonvacuous :
  let evs := [EReader 512; EReader 512; ERecv [1;2;3]%N; EReader 2; ERecv [4]%N; EClose; EReader 512; EReader 512; EReader 512] in
  window_free cst0 evs /\ c_pc (crun cst0 evs) = PDone /\ c_got (crun cst0 evs) = [1;2;3;4]%N.
Proof. vm_compute. repeat split. Qed.

(* non-vacuity *)
Example C16_roundtrip_hypotheses_met :
  wf_msg fit_witness /\ is_handshake fit_witness = false /\ zlen (encode_msg fit_witness) = BUFSZ.
Proof. exact wf_fit_witness. Qed.

Example C16_session_nonvacuous :
  let l := ATcp [192;0;2;1]%N 80 in let r1 := ATcp [10;0;0;7]%N 40000 in let r2 := ATcp [10;0;0;7]%N 40001 in
  let acts := [ASend (MHello l r1); ASend (MHello l r2); ASend (MData l r2 [1;2;3]%N); APark 0 10 (MData l r1 [4;5]%N);
               ASend (MEof l r2); ASend (MData l r2 [9]%N); ARead 1 2; ARead 1 2; ARead 1 2; AWrite 0 [7]%N; ADisc; ARead 0 5] in
  snd (fst (run transport sess0 acts)) =
    [RAcc l r1; RAcc l r2; RNone; RData [4;5]%N; RNone; RNone; RData [1;2]%N; RData [3]%N; REof; RNone; RNone; REof] /\
  snd (run transport sess0 acts) = [MEof l r2; MData l r1 [7]%N] /\
  run_recv transport sess0 acts 1 = [1;2;3]%N.
Proof. vm_compute. repeat split. Qed.

Print Assumptions C16_marshal_is_field_concatenation.
Print Assumptions C16_codec_roundtrip.
Print Assumptions C16_handshake_decodes_when_flushed.
Print Assumptions C16_codec_roundtrip_large_refuted.
Print Assumptions C16_handshake_marshal_refuted.
Print Assumptions C16_owner_is_first_registered_match.
Print Assumptions C16_no_owner_means_no_match.
Print Assumptions C16_same_id.
Print Assumptions C16_hello_surfaces_announced.
Print Assumptions C16_data_reaches_owner_only.
Print Assumptions C16_unknown_id_ignored.
Print Assumptions C16_eof_ends_exactly_that_connection.
Print Assumptions C16_disconnect_ends_registered.
Print Assumptions C16_disconnect_leaves_others.
Print Assumptions C16_write_tagged.
Print Assumptions C16_stream_in_order_exactly_once.
Print Assumptions C16_closed_receives_nothing.
Print Assumptions C16_closed_stays_closed.
Print Assumptions C16_reader_never_ahead.
Print Assumptions C16_bytes_lost_at_close_refuted.
Print Assumptions C16_complete_outside_window.
