(* C16 - property theorems: the agent tunnel relays each remote connection's bytes in
   order, to it alone; every protocol message decodes to what was encoded. *)
From HT Require Import Common.Bytes C16.Model C16.Check C16.Proofs.
Open Scope Z_scope.

(* ---------------- codec ---------------- *)

(* a flushed bufio.Writer is transparent: MarshalBinary of EVERY message type is the
   concatenation of its fields *)
Theorem C16_marshal_is_field_concatenation : forall m, encode_msg m = ser_msg m.
Proof. exact encode_msg_ser. Qed.

(* io.ReadFull over the bufio.Reader delivers exactly the next n bytes whatever the
   buffer holds (and the fuel of the loop model always suffices) ... *)
Theorem C16_readfull_exact : forall n r,
  wfrd r -> 0 <= n <= zlen (rd_rest r) ->
  exists r', rd_full n r = (Some (zfirstn n (rd_rest r)), r') /\
             rd_rest r' = zskipn n (rd_rest r) /\ wfrd r'.
Proof. exact rd_full_ok. Qed.

(* ... and fails exactly when fewer than n bytes are left *)
Theorem C16_readfull_short : forall n r,
  wfrd r -> zlen (rd_rest r) < n -> fst (rd_full n r) = None.
Proof. exact rd_full_short. Qed.

(* EVERY protocol message decodes to what was encoded: all seven message types, TCP/UDP
   addresses with any IP bytes, ports and protocol version 0..65535, at most 255 announced
   addresses (vd_msg is this value domain - it mentions no length), payloads/strings of
   any length.  The only hypothesis about size is that the encoding fits the uint16 frame
   length field of conn2.send. *)
Theorem C16_codec_roundtrip : forall m,
  vd_msg m -> zlen (encode_msg m) < 65536 -> transport m = Some m.
Proof. exact codec_roundtrip. Qed.

(* ---------------- session: for every state, hence every history ---------------- *)

(* Connections.Get: the first registered connection whose two address strings equal
   the message's *)
Theorem C16_owner_is_first_registered_match : forall cs reg l r i,
  get_conn cs reg l r = GFound i ->
  exists pre post, reg = pre ++ i :: post /\ matches cs l r i /\
                   Forall (fun j => ~ matches cs l r j) pre.
Proof. exact get_conn_found. Qed.

Theorem C16_no_owner_means_no_match : forall cs reg l r,
  get_conn cs reg l r = GNone -> Forall (fun j => ~ matches cs l r j) reg.
Proof. exact get_conn_none. Qed.

(* address strings are equal iff the ports are and the IPs are, a 4-byte IP counting
   as its 16-byte form; TCP- and UDP-typed addresses print alike *)
Theorem C16_same_id : forall a b,
  addr_cmp a b = CEq <->
  exists ka kb, addr_key a = Some ka /\ addr_key b = Some kb /\ fst ka = fst kb /\ snd ka = snd kb.
Proof. exact addr_cmp_eq. Qed.

(* The identity of a connection is the PAIR (local address, remote address), compared
   structurally ([pair_key]: each address as (IP in 16-byte form, port)).  In EVERY state
   whose registered connections were announced with pairwise distinct pairs, a frame
   naming the pair of registered connection i is looked up as connection i ... *)
Theorem C16_lookup_exact_on_distinct_pairs : forall cs reg l r i,
  keyed_reg cs reg -> NoDup (map (ckey cs) reg) -> In i reg ->
  pair_key l r = ckey cs i -> get_conn cs reg l r = GFound i.
Proof. intros cs reg l r i. exact (get_conn_exact cs reg l r i). Qed.

(* ... and a frame naming a pair nobody registered is looked up as nothing *)
Theorem C16_lookup_unknown_pair : forall cs reg l r,
  keyed_reg cs reg -> pair_key l r <> None -> ~ In (pair_key l r) (map (ckey cs) reg) ->
  get_conn cs reg l r = GNone.
Proof. intros cs reg l r. exact (get_conn_absent cs reg l r). Qed.

(* for ALL lists of pairwise distinct pairs (any length, any addresses, however alike
   their texts are): once announced, a frame naming pair number i - in any
   representation of the same addresses - finds exactly the connection surfaced for
   announcement i; its data reaches that connection and no other, its eof ends that
   connection and no other *)
Theorem C16_distinct_pairs_find_announced : forall ps i l r l' r',
  keyed_pairs ps -> NoDup (pkeys ps) -> nth_error ps i = Some (l, r) ->
  pair_key l' r' = pair_key l r ->
  get_conn (s_conns (announce ps)) (s_reg (announce ps)) l' r' = GFound i.
Proof. exact distinct_pairs_lookup. Qed.

Theorem C16_distinct_pairs_unannounced_ignored : forall ps l r,
  keyed_pairs ps -> pair_key l r <> None -> ~ In (pair_key l r) (pkeys ps) ->
  get_conn (s_conns (announce ps)) (s_reg (announce ps)) l r = GNone.
Proof. exact distinct_pairs_unknown. Qed.

Theorem C16_distinct_pairs_data_and_eof_exact : forall ps i l r p,
  keyed_pairs ps -> NoDup (pkeys ps) -> nth_error ps i = Some (l, r) ->
  let s := announce ps in
  (exists s', serv_msg s (MData l r p) = (s', RNone, [], Some i) /\
     conn_at s' i = mkVc l r p false /\ (forall c, c <> i -> conn_at s' c = conn_at s c)) /\
  (exists s', serv_msg s (MEof l r) = (s', RNone, [MEof l r], None) /\
     conn_at s' i = mkVc l r [] true /\ (forall c, c <> i -> conn_at s' c = conn_at s c) /\
     s_reg s' = remove_first i (s_reg s)).
Proof. exact distinct_pairs_data_eof. Qed.

(* a lookup through ONE derived key per connection (any key type, any key function) is
   Connections.Get in every state if the key is injective on pairs ... *)
Theorem C16_injective_key_is_faithful : forall K keq kf cs reg,
  (forall l r l' r', pair_key l r <> None -> pair_key l' r' <> None ->
     (keq (kf l r) (kf l' r') = true <-> pair_key l r = pair_key l' r')) ->
  forall l r, keyed_reg cs reg -> pair_key l r <> None ->
  get_conn cs reg l r = match get_by K keq kf cs reg l r with Some i => GFound i | None => GNone end.
Proof. exact get_by_injective. Qed.

(* ... and EVERY key that collapses two different pairs misroutes: with the two pairs
   announced, the frame for the second is looked up as the first *)
Theorem C16_collapsing_key_misroutes : forall K keq kf l1 r1 l2 r2,
  pair_key l1 r1 <> None -> pair_key l2 r2 <> None -> pair_key l1 r1 <> pair_key l2 r2 ->
  keq (kf l1 r1) (kf l2 r2) = true ->
  let s := announce [(l1, r1); (l2, r2)] in
  get_conn (s_conns s) (s_reg s) l2 r2 = GFound 1%nat /\
  get_by K keq kf (s_conns s) (s_reg s) l2 r2 = Some 0%nat.
Proof. exact collapsing_key_misroutes. Qed.

(* Laddr.String() ++ Raddr.String() is such a key: it is NOT injective on pairs
   ("10.0.0.5:222"+"210.1.1.1:40000" = "10.0.0.5:2222"+"10.1.1.1:40000"), which is why
   the model compares the two addresses separately and never through one text *)
Example C16_concat_key_injective_refuted :
  exists l1 r1 l2 r2,
    pair_key l1 r1 <> None /\ pair_key l2 r2 <> None /\
    pair_key l1 r1 <> pair_key l2 r2 /\ concat_key l1 r1 = concat_key l2 r2.
Proof.
  exists cw_l1, cw_r1, cw_l2, cw_r2.
  destruct concat_key_collides as (H1 & H2 & H3 & H4 & _). auto.
Qed.

Example C16_concat_key_misroutes :
  let s := announce [(cw_l1, cw_r1); (cw_l2, cw_r2)] in
  get_conn (s_conns s) (s_reg s) cw_l2 cw_r2 = GFound 1%nat /\
  get_by bytes eqb_bytes concat_key (s_conns s) (s_reg s) cw_l2 cw_r2 = Some 0%nat.
Proof. vm_compute. split; reflexivity. Qed.

(* non-vacuity: the textually confusable pairs ARE pairwise distinct pairs, so the
   theorems above apply to them (and to the v4 / v4-mapped spelling of the second) *)
Example C16_distinct_pairs_nonvacuous :
  let ps := [(cw_l1, cw_r1); (cw_l2, cw_r2); (cw_r1, cw_l1)] in
  keyed_pairs ps /\ NoDup (pkeys ps) /\
  get_conn (s_conns (announce ps)) (s_reg (announce ps))
           (ATcp [0;0;0;0;0;0;0;0;0;0;255;255;10;0;0;5]%N 2222) cw_r2 = GFound 1%nat.
Proof.
  cbv zeta. split; [|split].
  - repeat constructor; vm_compute; discriminate.
  - repeat constructor; vm_compute; intuition discriminate.
  - vm_compute. reflexivity.
Qed.

(* hello: a fresh, open, empty connection with the announced addresses is surfaced;
   existing connections are untouched *)
Theorem C16_hello_surfaces_announced : forall s l r,
  s_alive s = true ->
  exists s', serv_msg s (MHello l r) = (s', RAcc l r, [], None) /\
    conn_at s' (length (s_conns s)) = mkVc l r [] false /\
    (forall c, (c < length (s_conns s))%nat -> conn_at s' c = conn_at s c) /\
    s_reg s' = s_reg s ++ [length (s_conns s)] /\ s_alive s' = true.
Proof. exact hello_surfaces. Qed.

(* a data message appends exactly its payload to the connection it is routed to and
   changes no other connection (isolation) *)
Theorem C16_data_reaches_owner_only : forall s l r p i,
  routed s (MData l r p) = Some (i, p) ->
  exists s', serv_msg s (MData l r p) = (s', RNone, [], Some i) /\
    conn_at s' i = mkVc (vc_l (conn_at s i)) (vc_r (conn_at s i)) (vc_buf (conn_at s i) ++ p) false /\
    (forall c, c <> i -> conn_at s' c = conn_at s c) /\
    s_reg s' = s_reg s /\ s_alive s' = s_alive s /\ length (s_conns s') = length (s_conns s).
Proof. exact data_routed. Qed.

(* data/eof for an id that matches no registered connection is ignored *)
Theorem C16_unknown_id_ignored : forall s l r p,
  get_conn (s_conns s) (s_reg s) l r = GNone ->
  serv_msg s (MData l r p) = (s, RNone, [], None) /\ serv_msg s (MEof l r) = (s, RNone, [], None).
Proof. exact unknown_id_ignored. Qed.

(* eof ends exactly the matching connection (unregistered, closed, buffer still readable),
   tells the agent once, leaves the others alone *)
Theorem C16_eof_ends_exactly_that_connection : forall s l r i,
  s_alive s = true -> get_conn (s_conns s) (s_reg s) l r = GFound i ->
  exists s', serv_msg s (MEof l r) =
      (s', RNone, (if vc_closed (conn_at s i) then [] else [MEof (vc_l (conn_at s i)) (vc_r (conn_at s i))]), None) /\
    (forall c, c <> i -> conn_at s' c = conn_at s c) /\
    ((i < length (s_conns s))%nat -> conn_at s' i = close_vc (conn_at s i)) /\
    s_reg s' = remove_first i (s_reg s) /\ s_alive s' = true.
Proof. exact eof_closes_exactly. Qed.

(* the agent disconnecting ends every registered connection and touches no other *)
Theorem C16_disconnect_ends_registered : forall s c,
  In c (s_reg s) -> vc_closed (conn_at (teardown s) c) = true.
Proof. exact teardown_closes. Qed.

Theorem C16_disconnect_leaves_others : forall s c,
  ~ In c (s_reg s) -> conn_at (teardown s) c = conn_at s c.
Proof. exact teardown_others. Qed.

(* bytes a service writes go back as one frame tagged with that connection's addresses,
   carrying the bytes the buffer held when Write was called - even though the caller
   refills the buffer (with any q) as soon as Write has returned *)
Theorem C16_write_tagged : forall s c p q,
  s_alive s = true ->
  step ideal_wire s (AWrite c p q) = (s, RNone, [MData (vc_l (conn_at s c)) (vc_r (conn_at s c)) p]).
Proof. exact write_tagged. Qed.

(* buffer ownership on both outgoing queues (TCP data, datagram answers), for EVERY
   schedule of writes, buffer refills and sender-goroutine steps: frames sent ++ frames
   still queued (marshalled against ANY later heap h') = the buffer contents at the time
   of each Write, in order; queued messages never refer to a caller's buffer *)
Theorem C16_written_bytes_are_captured : forall evs s h',
  Forall is_val (o_q s) ->
  o_sent (orun s evs) ++ map (oframe h') (o_q (orun s evs)) =
    (o_sent s ++ map (oframe h') (o_q s)) ++ written (o_heap s) evs /\
  Forall is_val (o_q (orun s evs)).
Proof. exact orun_inv. Qed.

Theorem C16_agent_receives_what_was_written : forall heap evs,
  o_q (orun (mkO heap [] []) evs) = [] -> o_sent (orun (mkO heap [] []) evs) = written heap evs.
Proof. exact drained_is_written. Qed.

Example C16_ownership_nonvacuous :
  let l := ATcp [192;0;2;1]%N 80 in let r := ATcp [10;0;0;7]%N 40000 in
  let evs := [OWrite l r 0; OFill 0 [9;9]%N; OUdpW l r 0; OWrite l r 0; OFill 0 [5]%N; OSend; OSend; OSend] in
  let s := orun (mkO [[1;2]%N] [] []) evs in
  o_q s = [] /\ o_sent s = [MData l r [1;2]%N; MUdp l r [9;9]%N; MData l r [9;9]%N].
Proof. vm_compute. split; reflexivity. Qed.

(* for EVERY sequence of agent messages and service calls (reads of any size, waiting
   or not, writes, closes, disconnect), every wire and every connection c:
   bytes buffered at the start ++ payloads routed to c during the run
     = bytes the service read on c ++ bytes still buffered
   - in order, exactly once, nothing from any other connection *)
Theorem C16_stream_in_order_exactly_once : forall wire acts s c,
  let '(s', rs, _) := run wire s acts in
  vc_buf (conn_at s c) ++ run_recv wire s acts c = run_read acts rs c ++ vc_buf (conn_at s' c).
Proof. exact run_conserves. Qed.

(* a connection that has ended (eof, service close, disconnect) receives nothing more,
   whatever follows *)
Theorem C16_closed_receives_nothing : forall wire acts s c,
  (c < length (s_conns s))%nat -> vc_closed (conn_at s c) = true -> run_recv wire s acts c = [].
Proof. exact closed_gets_nothing. Qed.

(* and it is never reopened *)
Theorem C16_closed_stays_closed : forall wire s a c,
  (c < length (s_conns s))%nat -> vc_closed (conn_at s c) = true ->
  still_closed s (fst (fst (step wire s a))) c.
Proof. exact step_closed. Qed.

(* ---------------- relayed datagrams (ReadWriteUDP) ---------------- *)

(* every relayed datagram is its own flow.  For ALL lists of datagrams (any number, any
   UDP addresses, pairs alike or not) relayed on a session in any state that is still up,
   and for ALL answer schedules (any order, any datagram answered any number of times or
   never, however late): the services are handed exactly the datagrams sent, and the frames
   sent back to the agent are exactly, in schedule order, (pair of datagram i, answer bytes)
   - the pair captured when datagram i arrived, not that of whichever arrived last.
   Nothing else of the session changes. *)
Theorem C16_udp_replies_keep_their_pair : forall ds sch s,
  s_alive s = true -> forallb dg_udp ds = true ->
  run ideal_wire s (relay_acts ds ++ answer_acts sch) =
    (set_udp s (s_udp s ++ map dg_pair ds),
     relay_res ds ++ map (fun _ => RNone) sch,
     answer_frames (s_udp s ++ map dg_pair ds) sch).
Proof. exact udp_replies_keep_their_pair. Qed.

(* one answer, in any state: one frame with the pair of ITS datagram, no state change *)
Theorem C16_udp_answer_tagged_with_its_datagram : forall s i l r p q,
  s_alive s = true -> nth_error (s_udp s) i = Some (l, r) ->
  step ideal_wire s (AUdpR i p q) = (s, RNone, [MUdp l r p]).
Proof. exact answer_tagged. Qed.

(* whatever happens in between - ANY list of further actions (more datagrams, TCP frames,
   reads, writes, closes, answers, disconnect), over ANY wire: the pair of datagram i is
   still the same afterwards *)
Theorem C16_udp_pair_survives_any_history : forall wire acts s i pr,
  nth_error (s_udp s) i = Some pr ->
  nth_error (s_udp (fst (fst (run wire s acts)))) i = Some pr.
Proof. exact pair_survives. Qed.

(* non-interference with the TCP virtual connections, for ALL action lists: striking the
   whole datagram relay (the ReadWriteUDP messages and every answer) out of a history
   changes neither the connections, the registry, the liveness of the session, the result
   of any other action, nor any frame sent to the agent other than the datagram frames *)
Theorem C16_udp_relay_leaves_tcp_alone : forall acts s,
  let '(t1, rs1, fs1) := run ideal_wire s acts in
  let '(t2, rs2, fs2) := run ideal_wire s (filter (fun a => negb (is_relay_act a)) acts) in
  tcp_same t1 t2 /\ other_res acts rs1 = rs2 /\ filter (fun f => negb (is_udp_msg f)) fs1 = fs2.
Proof. intros acts s. exact (udp_relay_leaves_tcp_alone acts s s (tcp_same_refl s)). Qed.

(* non-vacuity: three datagrams (two sharing the local IP, one IPv6) answered in REVERSE
   order after all three have arrived, over the real codec; answer functions that all read
   one per-session variable (the datagram received last) would tag all three alike *)
Example C16_udp_three_datagrams_answered_in_reverse :
  let a := (AUdp [10;0;0;5]%N 53, AUdp [198;51;100;1]%N 40001, [113;49]%N) in
  let b := (AUdp [10;0;0;5]%N 123, AUdp [203;0;113;2]%N 40002, [113;50]%N) in
  let c := (AUdp [32;1;13;184;0;0;0;0;0;0;0;0;0;0;0;5]%N 161, AUdp [32;1;13;184;0;0;0;0;0;0;0;0;0;0;170;170]%N 40003, [113;51]%N) in
  let ds := [a; b; c] in
  let sch := [(2%nat, [114;51]%N, [0;0]%N); (1%nat, [114;50]%N, [0;0]%N); (0%nat, [114;49]%N, [0;0]%N)] in
  forallb dg_udp ds = true /\
  snd (run transport sess0 (relay_acts ds ++ answer_acts sch)) =
    [MUdp (fst (fst c)) (snd (fst c)) [114;51]%N; MUdp (fst (fst b)) (snd (fst b)) [114;50]%N;
     MUdp (fst (fst a)) (snd (fst a)) [114;49]%N] /\
  q_run sess0 (relay_acts ds ++ answer_acts sch) /\
  answer_frames_shared (map dg_pair ds) sch =
    [MUdp (fst (fst c)) (snd (fst c)) [114;51]%N; MUdp (fst (fst c)) (snd (fst c)) [114;50]%N;
     MUdp (fst (fst c)) (snd (fst c)) [114;49]%N].
Proof. vm_compute. repeat split; (reflexivity || discriminate || lia). Qed.

(* non-vacuity of the non-interference theorem: datagrams and answers between the frames
   of a TCP connection *)
Example C16_udp_relay_nonvacuous :
  let l := ATcp [192;0;2;1]%N 80 in let r := ATcp [10;0;0;7]%N 40000 in
  let ul := AUdp [192;0;2;1]%N 53 in let u1 := AUdp [10;0;0;7]%N 5000 in let u2 := AUdp [10;0;0;8]%N 5000 in
  let acts := [ASend (MHello l r); ASend (MUdp ul u1 [1]%N); ASend (MData l r [7;8]%N); ASend (MUdp ul u2 [2]%N);
               AUdpR 0 [9]%N [0]%N; AWrite 0 [5]%N [0]%N; ARead 0 10; AUdpR 1 [10]%N [0]%N; AUdpR 0 [11]%N [0]%N] in
  snd (run ideal_wire sess0 acts) =
    [MUdp ul u1 [9]%N; MData l r [5]%N; MUdp ul u2 [10]%N; MUdp ul u1 [11]%N] /\
  filter (fun a => negb (is_relay_act a)) acts = [ASend (MHello l r); ASend (MData l r [7;8]%N); AWrite 0 [5]%N [0]%N; ARead 0 10] /\
  snd (run ideal_wire sess0 (filter (fun a => negb (is_relay_act a)) acts)) = [MData l r [5]%N].
Proof. vm_compute. repeat split. Qed.

(* ---------------- whole runs over the real codec ---------------- *)

(* inside the quantifier (IPs of at most 16 bytes, ports 0..65535, payloads of at most
   65000 bytes, service writes on surfaced connections, datagram answers of at most 65000
   bytes on any datagram relayed so far) every message and every frame
   passes the real wire unchanged, so the run over the real codec IS the run over a
   faithful wire - to which all the session theorems above apply *)
Theorem C16_real_wire_is_faithful : forall acts s,
  qinv s -> qudp s -> q_run s acts -> run transport s acts = run ideal_wire s acts.
Proof. exact run_q. Qed.

Theorem C16_real_wire_is_faithful_from_start : forall acts,
  q_run sess0 acts -> run transport sess0 acts = run ideal_wire sess0 acts.
Proof. intros acts. exact (run_q acts sess0 qinv0 qudp0). Qed.

(* ---------------- one connection and its reader, step by step ---------------- *)

(* for EVERY schedule of receive / Close / reader steps (goroutine interleavings at the
   granularity of the mutex-protected sections and channel operations): bytes read ++
   bytes buffered = accepted payloads, in order - never reordered, duplicated or invented *)
Theorem C16_reader_never_ahead : forall evs s,
  c_got (crun s evs) ++ c_buf (crun s evs) = c_got s ++ c_buf s ++ accepted (c_closed s) evs.
Proof. exact crun_inv. Qed.

(* for EVERY schedule: when Read returns io.EOF the service has read every accepted byte *)
Theorem C16_all_delivered_before_eof : forall evs,
  c_pc (crun cst0 evs) = PDone -> c_got (crun cst0 evs) = accepted false evs.
Proof. exact all_delivered_before_eof. Qed.

(* for EVERY schedule: a reader that waits while bytes are buffered has a wake-up pending
   (no lost wake-up), and a reader waiting on a closed connection is let through *)
Theorem C16_no_lost_wakeup : forall evs, wake_ok (crun cst0 evs).
Proof. exact no_lost_wakeup. Qed.

Theorem C16_closed_lets_reader_through : forall s n,
  c_pc s = PWait -> c_closed s = true -> c_pc (cstep s (EReader n)) = PIdle.
Proof. exact closed_lets_reader_through. Qed.

(* the schedule that used to lose bytes: receive between the reader's empty-buffer test
   and its wait, then Close *)
Example C16_former_window_schedule :
  let evs := [EReader 512; ERecv [1;2;3]%N; EClose; EReader 512; EReader 512; EReader 512] in
  c_pc (crun cst0 evs) = PDone /\ c_got (crun cst0 evs) = [1;2;3]%N /\ accepted false evs = [1;2;3]%N.
Proof. vm_compute. repeat split. Qed.

(* non-vacuity *)
Example C16_roundtrip_hypotheses_met :
  (vd_msg large_witness /\ zlen (encode_msg large_witness) = 65032) /\
  (vd_msg hs_witness /\ zlen (encode_msg hs_witness) = 4118).
Proof. exact (conj large_witness_ok hs_witness_ok). Qed.

Example C16_session_nonvacuous :
  let l := ATcp [192;0;2;1]%N 80 in let r1 := ATcp [10;0;0;7]%N 40000 in let r2 := ATcp [10;0;0;7]%N 40001 in
  let acts := [ASend (MHello l r1); ASend (MHello l r2); ASend (MData l r2 [1;2;3]%N); APark 0 10 (MData l r1 [4;5]%N);
               ASend (MEof l r2); ASend (MData l r2 [9]%N); ARead 1 2; ARead 1 2; ARead 1 2; AWrite 0 [7]%N [8]%N; ADisc; ARead 0 5] in
  snd (fst (run transport sess0 acts)) =
    [RAcc l r1; RAcc l r2; RNone; RData [4;5]%N; RNone; RNone; RData [1;2]%N; RData [3]%N; REof; RNone; RNone; REof] /\
  snd (run transport sess0 acts) = [MEof l r2; MData l r1 [7]%N] /\
  run_recv transport sess0 acts 1 = [1;2;3]%N /\ q_run sess0 acts.
Proof. vm_compute. repeat split; (reflexivity || discriminate || lia). Qed.

Print Assumptions C16_marshal_is_field_concatenation.
Print Assumptions C16_readfull_exact.
Print Assumptions C16_readfull_short.
Print Assumptions C16_codec_roundtrip.
Print Assumptions C16_owner_is_first_registered_match.
Print Assumptions C16_no_owner_means_no_match.
Print Assumptions C16_same_id.
Print Assumptions C16_lookup_exact_on_distinct_pairs.
Print Assumptions C16_lookup_unknown_pair.
Print Assumptions C16_distinct_pairs_find_announced.
Print Assumptions C16_distinct_pairs_unannounced_ignored.
Print Assumptions C16_distinct_pairs_data_and_eof_exact.
Print Assumptions C16_injective_key_is_faithful.
Print Assumptions C16_collapsing_key_misroutes.
Print Assumptions C16_hello_surfaces_announced.
Print Assumptions C16_data_reaches_owner_only.
Print Assumptions C16_unknown_id_ignored.
Print Assumptions C16_eof_ends_exactly_that_connection.
Print Assumptions C16_disconnect_ends_registered.
Print Assumptions C16_disconnect_leaves_others.
Print Assumptions C16_write_tagged.
Print Assumptions C16_written_bytes_are_captured.
Print Assumptions C16_agent_receives_what_was_written.
Print Assumptions C16_stream_in_order_exactly_once.
Print Assumptions C16_closed_receives_nothing.
Print Assumptions C16_closed_stays_closed.
Print Assumptions C16_real_wire_is_faithful.
Print Assumptions C16_real_wire_is_faithful_from_start.
Print Assumptions C16_reader_never_ahead.
Print Assumptions C16_all_delivered_before_eof.
Print Assumptions C16_no_lost_wakeup.
Print Assumptions C16_closed_lets_reader_through.
Print Assumptions C16_udp_replies_keep_their_pair.
Print Assumptions C16_udp_answer_tagged_with_its_datagram.
Print Assumptions C16_udp_pair_survives_any_history.
Print Assumptions C16_udp_relay_leaves_tcp_alone.
