(* C16 - lemmas. *)
From HT Require Import Common.Bytes C16.Model C16.Check.
From Coq Require Import ZifyBool ZifyN ZifyNat.
Open Scope Z_scope.

(* ================================================================== *)
(* list helpers *)
Lemma zlen_zfirstn {A} n (l : list A) : 0 <= n <= zlen l -> zlen (zfirstn n l) = n.
Proof. intros H; unfold zfirstn, zlen in *; rewrite firstn_length; lia. Qed.

Lemma zlen_zskipn {A} n (l : list A) : 0 <= n <= zlen l -> zlen (zskipn n l) = zlen l - n.
Proof. intros H; unfold zskipn, zlen in *; rewrite skipn_length; lia. Qed.

Lemma zfirstn_app_exact {A} (a b : list A) : zfirstn (zlen a) (a ++ b) = a.
Proof.
  unfold zfirstn, zlen; rewrite Nat2Z.id.
  rewrite firstn_app, Nat.sub_diag, firstn_all; cbn [firstn]; apply app_nil_r.
Qed.

Lemma zskipn_app_exact {A} (a b : list A) : zskipn (zlen a) (a ++ b) = b.
Proof.
  unfold zskipn, zlen; rewrite Nat2Z.id.
  rewrite skipn_app, Nat.sub_diag, skipn_all; reflexivity.
Qed.

Lemma zfirstn_skipn {A} n (l : list A) : zfirstn n l ++ zskipn n l = l.
Proof. apply firstn_skipn. Qed.

(* ================================================================== *)
(* A. bufio.Writer is transparent: buffered ++ written = everything written *)
Definition flat (w : wr) : bytes := w_out w ++ w_buf w.

Lemma flat_write p w : flat (wr_write p w) = flat w ++ p.
Proof.
  unfold wr_write, flat.
  destruct (zlen p <=? BUFSZ - zlen (w_buf w)); cbn [w_out w_buf].
  - now rewrite app_assoc.
  - destruct (w_buf w) as [|b bs] eqn:E; cbn [w_out w_buf].
    + now rewrite !app_nil_r.
    + destruct (zlen (zskipn (BUFSZ - zlen (b :: bs)) p) <=? BUFSZ); cbn [w_out w_buf];
        rewrite ?app_nil_r, <- !app_assoc; f_equal; f_equal;
        apply (zfirstn_skipn (BUFSZ - zlen (b :: bs)) p).
Qed.

Lemma flat_byte c w : flat (wr_byte c w) = flat w ++ [c].
Proof.
  unfold wr_byte, flat. destruct (BUFSZ <=? zlen (w_buf w)); cbn [w_out w_buf].
  - reflexivity.
  - now rewrite app_assoc.
Qed.

Lemma flat_flush w : w_out (wr_flush w) = flat w.
Proof. reflexivity. Qed.

(* the field-by-field serialisation *)
Definition ser_u16 (v : Z) : bytes := u16_bytes v.
Definition ser_data (p : bytes) : bytes := u16_bytes (zlen p) ++ p.
Definition ser_addr (a : addr) : bytes :=
  match a with
  | ATcp ip port => [u8_byte 6] ++ ser_data ip ++ u16_bytes port
  | AUdp ip port => [u8_byte 17] ++ ser_data ip ++ u16_bytes port
  | ANil => ser_data [] ++ u16_bytes 0
  end.
Definition ser_addrs (l : list addr) : bytes := flat_map ser_addr l.
Definition ser_msg (m : msg) : bytes :=
  match m with
  | MHello l r => ser_addr l ++ ser_addr r
  | MEof l r => ser_addr l ++ ser_addr r
  | MData l r p => ser_addr l ++ ser_addr r ++ ser_data p
  | MUdp l r p => ser_addr l ++ ser_addr r ++ ser_data p
  | MHandshake pv v s c t => u16_bytes pv ++ ser_data v ++ ser_data s ++ ser_data c ++ ser_data t
  | MHsResp addrs => [u8_byte (zlen addrs)] ++ ser_addrs addrs
  | MPing => []
  end.

Lemma flat_u8 v w : flat (enc_u8 v w) = flat w ++ [u8_byte v].
Proof. apply flat_byte. Qed.
Lemma flat_u16 v w : flat (enc_u16 v w) = flat w ++ u16_bytes v.
Proof. apply flat_write. Qed.
Lemma flat_data p w : flat (enc_data p w) = flat w ++ ser_data p.
Proof. unfold enc_data, ser_data. now rewrite flat_write, flat_u16, app_assoc. Qed.
Lemma flat_addr a w : flat (enc_addr a w) = flat w ++ ser_addr a.
Proof.
  destruct a; cbn [enc_addr ser_addr]; rewrite flat_u16, flat_data, ?flat_u8, <- ?app_assoc; reflexivity.
Qed.
Lemma flat_addrs l : forall w, flat (enc_addrs l w) = flat w ++ ser_addrs l.
Proof.
  induction l as [|a l IH]; intros w; cbn [enc_addrs ser_addrs flat_map].
  - now rewrite app_nil_r.
  - rewrite IH, flat_addr, <- app_assoc. reflexivity.
Qed.

Lemma flat_new : flat new_wr = [].
Proof. reflexivity. Qed.

Lemma encode_flushed_ser m : encode_flushed m = ser_msg m.
Proof.
  destruct m; cbn [encode_flushed encode_msg ser_msg];
    rewrite ?flat_flush, ?flat_data, ?flat_addrs, ?flat_addr, ?flat_u16, ?flat_u8, ?flat_new;
    cbn [app]; rewrite <- ?app_assoc; reflexivity.
Qed.

Lemma encode_msg_ser m : encode_msg m = ser_msg m.
Proof. rewrite <- encode_flushed_ser. destruct m; reflexivity. Qed.

Lemma zfirstn_app_more {A} (a b : list A) k :
  0 <= k -> zfirstn (zlen a + k) (a ++ b) = a ++ zfirstn k b.
Proof.
  intros Hk. unfold zfirstn, zlen. rewrite Z2Nat.inj_add, Nat2Z.id by lia.
  apply firstn_app_2.
Qed.

Lemma zskipn_app_more {A} (a b : list A) k :
  0 <= k -> zskipn (zlen a + k) (a ++ b) = zskipn k b.
Proof.
  intros Hk. unfold zskipn, zlen. rewrite Z2Nat.inj_add, Nat2Z.id by lia.
  rewrite skipn_app, skipn_all2 by lia. cbn [app]. f_equal. lia.
Qed.

(* ================================================================== *)
(* B. reading: bufio.Reader + io.ReadFull deliver exactly the next n bytes, whatever the
      buffer happens to hold *)
Definition wfrd (r : rd) : Prop := 0 <= rd_avail r <= zlen (rd_rest r).

(* one Read on a non-exhausted reader: at least one byte, a prefix of what is left *)
Lemma rd_read_some n r :
  wfrd r -> 0 < n -> rd_rest r <> [] ->
  exists bs r', rd_read n r = (Some bs, r') /\ 0 < zlen bs <= n /\
                rd_rest r = bs ++ rd_rest r' /\ wfrd r'.
Proof.
  intros [W0 W1] Hn Hne. unfold rd_read.
  destruct (n <=? 0) eqn:E0; [lia|].
  destruct (rd_rest r) as [|b l] eqn:El; [contradiction|]. clear Hne.
  assert (Hlen : 1 <= zlen (b :: l)) by (rewrite zlen_cons; pose proof (zlen_nonneg l); lia).
  assert (Hgen : forall k a, 1 <= k <= n -> k <= a -> a <= zlen (b :: l) ->
            exists bs r', (Some (zfirstn k (b :: l)), mkRd (a - k) (zskipn k (b :: l))) = (Some bs, r') /\
              0 < zlen bs <= n /\ b :: l = bs ++ rd_rest r' /\ wfrd r').
  { intros k a Hk Hka Ha. eexists _, _. split; [reflexivity|]. cbn [rd_rest].
    rewrite zlen_zfirstn by lia. split; [lia|]. split; [symmetry; apply zfirstn_skipn|].
    unfold wfrd; cbn [rd_avail rd_rest]. rewrite zlen_zskipn by lia. lia. }
  destruct (rd_avail r <=? 0) eqn:Ea.
  - destruct (BUFSZ <=? n) eqn:Eb.
    + pose proof (Hgen (Z.min n (zlen (b :: l))) (Z.min n (zlen (b :: l))) ltac:(lia) ltac:(lia) ltac:(lia)) as H.
      rewrite Z.sub_diag in H. exact H.
    + apply Hgen; unfold BUFSZ in *; lia.
  - apply Hgen; lia.
Qed.

Lemma rd_read_none n r : wfrd r -> 0 < n -> rd_rest r = [] -> fst (rd_read n r) = None.
Proof.
  intros [W0 W1] Hn He. unfold rd_read. rewrite He in *. unfold zlen in W1; cbn [length] in W1.
  destruct (n <=? 0) eqn:E0; [lia|]. destruct (rd_avail r <=? 0) eqn:Ea; [reflexivity|lia].
Qed.

(* io.ReadFull: the fuel always suffices *)
Lemma rd_full_loop_ok fuel : forall need r,
  wfrd r -> 0 <= need <= zlen (rd_rest r) -> need <= Z.of_nat fuel ->
  exists r', rd_full_loop fuel need r = (Some (zfirstn need (rd_rest r)), r') /\
             rd_rest r' = zskipn need (rd_rest r) /\ wfrd r'.
Proof.
  induction fuel as [|f IH]; intros need r W Hn Hf.
  - assert (need = 0) by lia. subst need. exists r. cbn [rd_full_loop Z.leb Z.compare].
    split; [reflexivity|split; [reflexivity|exact W]].
  - cbn [rd_full_loop]. destruct (need <=? 0) eqn:E0.
    + assert (need = 0) by lia. subst need. exists r. split; [reflexivity|split; [reflexivity|exact W]].
    + assert (Hne : rd_rest r <> []).
      { intros He. rewrite He in Hn. unfold zlen in Hn; cbn [length] in Hn. lia. }
      destruct (rd_read_some need r W ltac:(lia) Hne) as (bs & r1 & E & Hb & Hr & W1).
      rewrite E. rewrite Hr in Hn. rewrite zlen_app in Hn.
      destruct (IH (need - zlen bs) r1 W1 ltac:(lia) ltac:(lia)) as (r2 & E2 & Hr2 & W2).
      rewrite E2. exists r2. rewrite Hr.
      pose proof (zfirstn_app_more bs (rd_rest r1) (need - zlen bs) ltac:(lia)) as F1.
      pose proof (zskipn_app_more bs (rd_rest r1) (need - zlen bs) ltac:(lia)) as F2.
      replace (zlen bs + (need - zlen bs)) with need in F1, F2 by lia.
      rewrite F1, F2. split; [reflexivity|split; assumption].
Qed.

Lemma rd_full_ok n r :
  wfrd r -> 0 <= n <= zlen (rd_rest r) ->
  exists r', rd_full n r = (Some (zfirstn n (rd_rest r)), r') /\
             rd_rest r' = zskipn n (rd_rest r) /\ wfrd r'.
Proof. intros W Hn. apply rd_full_loop_ok; try assumption. lia. Qed.

(* ... and when fewer than n bytes are left the outcome is the error, not "out of fuel" *)
Lemma rd_full_loop_short fuel : forall need r,
  wfrd r -> zlen (rd_rest r) < need -> need <= Z.of_nat fuel -> fst (rd_full_loop fuel need r) = None.
Proof.
  induction fuel as [|f IH]; intros need r W Hn Hf; pose proof (zlen_nonneg (rd_rest r)).
  - lia.
  - cbn [rd_full_loop]. destruct (need <=? 0) eqn:E0; [lia|].
    destruct (rd_rest r) as [|b l] eqn:El.
    + pose proof (rd_read_none need r W ltac:(lia) El) as Hnone.
      destruct (rd_read need r) as [[bs|] r1]; [discriminate|reflexivity].
    + assert (Hne : rd_rest r <> []) by (rewrite El; discriminate).
      destruct (rd_read_some need r W ltac:(lia) Hne) as (bs & r1 & E & Hb & Hr & W1).
      rewrite E. rewrite El in Hr. rewrite Hr, zlen_app in Hn.
      specialize (IH (need - zlen bs) r1 W1 ltac:(lia) ltac:(lia)).
      destruct (rd_full_loop f (need - zlen bs) r1) as [[t|] r2]; [discriminate|reflexivity].
Qed.

Lemma rd_full_short n r : wfrd r -> zlen (rd_rest r) < n -> fst (rd_full n r) = None.
Proof. intros W Hn. pose proof (zlen_nonneg (rd_rest r)). apply rd_full_loop_short; try assumption. lia. Qed.

Lemma rd_byte_some r b l :
  wfrd r -> rd_rest r = b :: l ->
  exists r', rd_byte r = (Some b, r') /\ rd_rest r' = l /\ wfrd r'.
Proof.
  intros [W0 W1] El. unfold rd_byte. rewrite El in *. rewrite zlen_cons in W1.
  pose proof (zlen_nonneg l).
  destruct (rd_avail r <=? 0) eqn:Ea; eexists; (split; [reflexivity|]); cbn [rd_rest];
    (split; [reflexivity|]); unfold wfrd; cbn [rd_avail rd_rest]; rewrite ?zlen_cons; unfold BUFSZ; lia.
Qed.

(* decoder positioned on [l], no error so far *)
Definition at_ (d : dec) (l : bytes) : Prop :=
  d_err d = false /\ wfrd (d_rd d) /\ rd_rest (d_rd d) = l.

Lemma u16_range v : 0 <= v < 65536 -> le16 (u16_bytes v) = v.
Proof.
  intros H. unfold le16, u16_bytes. cbn [nth].
  rewrite !Z2N.id by (apply Z.mod_pos_bound; lia). lia.
Qed.

Lemma u8_range v : 0 <= v < 256 -> Z.of_N (u8_byte v) = v.
Proof. intros H. unfold u8_byte. rewrite Z2N.id by (apply Z.mod_pos_bound; lia). lia. Qed.

Lemma dec_u8_ok d v tail :
  0 <= v < 256 -> at_ d (u8_byte v :: tail) ->
  exists d', dec_u8 d = (v, d') /\ at_ d' tail.
Proof.
  intros Hv (He & Hi & Hr). unfold dec_u8. rewrite He.
  destruct (rd_byte_some _ _ _ Hi Hr) as (r' & E & Hr' & Hi').
  rewrite E, (u8_range v Hv). eexists; split; [reflexivity|]. split; [reflexivity|split; [exact Hi'|exact Hr']].
Qed.

Lemma dec_u16_ok d v tail :
  0 <= v < 65536 -> at_ d (u16_bytes v ++ tail) ->
  exists d', dec_u16 d = (v, d') /\ at_ d' tail.
Proof.
  intros Hv (He & Hi & Hr). unfold dec_u16. rewrite He.
  assert (Hn : 0 <= 2 <= zlen (rd_rest (d_rd d))).
  { rewrite Hr. unfold u16_bytes. cbn [app]. rewrite !zlen_cons. pose proof (zlen_nonneg tail). lia. }
  destruct (rd_full_ok 2 _ Hi Hn) as (r' & E & Hr' & Hi').
  rewrite E, Hr. change 2 with (zlen (u16_bytes v)) at 1.
  rewrite zfirstn_app_exact, (u16_range v Hv).
  eexists; split; [reflexivity|]. repeat split; try apply Hi'.
  cbn [d_rd]. rewrite Hr', Hr. change 2 with (zlen (u16_bytes v)). apply zskipn_app_exact.
Qed.

Lemma dec_data_ok d p tail :
  zlen p < 65536 -> at_ d (ser_data p ++ tail) ->
  exists d', dec_data d = (p, d') /\ at_ d' tail.
Proof.
  intros Hp Hat. pose proof (zlen_nonneg p) as Hp0.
  unfold ser_data in Hat. rewrite <- app_assoc in Hat.
  destruct (dec_u16_ok d (zlen p) (p ++ tail) ltac:(lia) Hat) as (d1 & E1 & (He1 & Hi1 & Hr1)).
  unfold dec_data. destruct Hat as (He & _ & _). rewrite He, E1.
  assert (Hn : 0 <= zlen p <= zlen (rd_rest (d_rd d1))).
  { rewrite Hr1, zlen_app. pose proof (zlen_nonneg tail). lia. }
  destruct (rd_full_ok _ _ Hi1 Hn) as (r' & E & Hr' & Hi').
  rewrite E, Hr1, zfirstn_app_exact, He1.
  eexists; split; [reflexivity|]. repeat split; try apply Hi'.
  cbn [d_rd]. rewrite Hr', Hr1. apply zskipn_app_exact.
Qed.

(* addresses with field lengths that fit their uint16 length prefix *)
Definition wf_addr (a : addr) : Prop :=
  match a with
  | ATcp ip port | AUdp ip port => zlen ip < 65536 /\ 0 <= port < 65536
  | ANil => False
  end.

Lemma dec_addr_ok d a tail :
  wf_addr a -> at_ d (ser_addr a ++ tail) ->
  exists d', dec_addr d = (a, d') /\ at_ d' tail.
Proof.
  intros Hwf Hat. unfold dec_addr. pose proof Hat as (He & _ & _). rewrite He.
  destruct a as [ip port|ip port|]; [| |contradiction]; destruct Hwf as [Hip Hport];
    cbn [ser_addr] in Hat; rewrite <- !app_assoc in Hat; cbn [app] in Hat.
  - destruct (dec_u8_ok d 6 _ ltac:(lia) Hat) as (d1 & E1 & H1). rewrite E1.
    destruct (dec_data_ok d1 ip _ Hip H1) as (d2 & E2 & H2). rewrite E2.
    destruct (dec_u16_ok d2 port _ Hport H2) as (d3 & E3 & H3). rewrite E3.
    eexists; split; [reflexivity|assumption].
  - destruct (dec_u8_ok d 17 _ ltac:(lia) Hat) as (d1 & E1 & H1). rewrite E1.
    destruct (dec_data_ok d1 ip _ Hip H1) as (d2 & E2 & H2). rewrite E2.
    destruct (dec_u16_ok d2 port _ Hport H2) as (d3 & E3 & H3). rewrite E3.
    eexists; split; [reflexivity|assumption].
Qed.

Lemma dec_addrs_ok l : forall d tail,
  Forall wf_addr l -> at_ d (ser_addrs l ++ tail) ->
  exists d', dec_addrs (length l) d = (l, d') /\ at_ d' tail.
Proof.
  induction l as [|a l IH]; intros d tail Hwf Hat; cbn [length dec_addrs].
  - eexists; split; [reflexivity|exact Hat].
  - inversion Hwf as [|? ? Ha Hl]; subst.
    cbn [ser_addrs flat_map] in Hat. rewrite <- app_assoc in Hat.
    destruct (dec_addr_ok d a _ Ha Hat) as (d1 & E1 & H1). rewrite E1.
    destruct (IH d1 tail Hl H1) as (d2 & E2 & H2). rewrite E2.
    eexists; split; [reflexivity|assumption].
Qed.

Definition wf_msg (m : msg) : Prop :=
  match m with
  | MHello l r | MEof l r => wf_addr l /\ wf_addr r
  | MData l r p | MUdp l r p => wf_addr l /\ wf_addr r /\ zlen p < 65536
  | MHandshake pv v s c t =>
      0 <= pv < 65536 /\ zlen v < 65536 /\ zlen s < 65536 /\ zlen c < 65536 /\ zlen t < 65536
  | MHsResp addrs => Forall wf_addr addrs /\ zlen addrs < 256
  | MPing => True
  end.

Lemma at_new data : at_ (new_dec data) data.
Proof.
  repeat split. cbn [new_dec d_rd rd_avail]. lia. cbn [new_dec d_rd rd_avail rd_rest]. apply zlen_nonneg.
Qed.

(* decoding the field-by-field serialisation *)
Lemma decode_ser m : wf_msg m -> decode_msg (msg_type m) (ser_msg m) = Some m.
Proof.
  intros Hwf. pose proof (at_new (ser_msg m)) as Hat.
  destruct m as [l r|l r p|pv v s c t|addrs|l r| |l r p]; cbn [msg_type ser_msg wf_msg] in *;
    unfold decode_msg; cbn [Z.eqb].
  - destruct Hwf as [Hl Hr].
    destruct (dec_addr_ok _ l _ Hl Hat) as (d1 & E1 & H1). rewrite E1.
    rewrite <- (app_nil_r (ser_addr r)) in H1.
    destruct (dec_addr_ok _ r _ Hr H1) as (d2 & E2 & H2). rewrite E2. reflexivity.
  - destruct Hwf as (Hl & Hr & Hp).
    destruct (dec_addr_ok _ l _ Hl Hat) as (d1 & E1 & H1). rewrite E1.
    destruct (dec_addr_ok _ r _ Hr H1) as (d2 & E2 & H2). rewrite E2.
    rewrite <- (app_nil_r (ser_data p)) in H2.
    destruct (dec_data_ok _ p _ Hp H2) as (d3 & E3 & H3). rewrite E3. reflexivity.
  - destruct Hwf as (Hpv & Hv & Hs & Hc & Ht).
    destruct (dec_u16_ok _ pv _ Hpv Hat) as (d1 & E1 & H1). rewrite E1.
    destruct (dec_data_ok _ v _ Hv H1) as (d2 & E2 & H2). rewrite E2.
    destruct (dec_data_ok _ s _ Hs H2) as (d3 & E3 & H3). rewrite E3.
    destruct (dec_data_ok _ c _ Hc H3) as (d4 & E4 & H4). rewrite E4.
    rewrite <- (app_nil_r (ser_data t)) in H4.
    destruct (dec_data_ok _ t _ Ht H4) as (d5 & E5 & H5). rewrite E5. reflexivity.
  - destruct Hwf as (Hall & Hn). pose proof (zlen_nonneg addrs).
    cbn [app] in Hat |- *.
    destruct (dec_u8_ok _ (zlen addrs) _ ltac:(lia) Hat) as (d1 & E1 & H1). rewrite E1.
    replace (Z.to_nat (zlen addrs)) with (length addrs) by (unfold zlen; lia).
    rewrite <- (app_nil_r (ser_addrs addrs)) in H1.
    destruct (dec_addrs_ok addrs _ _ Hall H1) as (d2 & E2 & H2). rewrite E2. reflexivity.
  - destruct Hwf as [Hl Hr].
    destruct (dec_addr_ok _ l _ Hl Hat) as (d1 & E1 & H1). rewrite E1.
    rewrite <- (app_nil_r (ser_addr r)) in H1.
    destruct (dec_addr_ok _ r _ Hr H1) as (d2 & E2 & H2). rewrite E2. reflexivity.
  - reflexivity.
  - destruct Hwf as (Hl & Hr & Hp).
    destruct (dec_addr_ok _ l _ Hl Hat) as (d1 & E1 & H1). rewrite E1.
    destruct (dec_addr_ok _ r _ Hr H1) as (d2 & E2 & H2). rewrite E2.
    rewrite <- (app_nil_r (ser_data p)) in H2.
    destruct (dec_data_ok _ p _ Hp H2) as (d3 & E3 & H3). rewrite E3. reflexivity.
Qed.

(* the value domain of a message: TCP/UDP addresses, ports and protocol version that fit
   a uint16, at most 255 announced addresses.  No length appears here. *)
Definition vd_addr (a : addr) : Prop :=
  match a with
  | ATcp _ port | AUdp _ port => 0 <= port < 65536
  | ANil => False
  end.
Definition vd_msg (m : msg) : Prop :=
  match m with
  | MHello l r | MEof l r | MData l r _ | MUdp l r _ => vd_addr l /\ vd_addr r
  | MHandshake pv _ _ _ _ => 0 <= pv < 65536
  | MHsResp addrs => Forall vd_addr addrs /\ zlen addrs < 256
  | MPing => True
  end.

Lemma zlen_u16 v : zlen (u16_bytes v) = 2.
Proof. reflexivity. Qed.
Lemma zlen_ser_data p : zlen (ser_data p) = 2 + zlen p.
Proof. unfold ser_data. now rewrite zlen_app, zlen_u16. Qed.
Lemma zlen_ser_addr a :
  zlen (ser_addr a) = match a with ATcp ip _ | AUdp ip _ => 5 + zlen ip | ANil => 4 end.
Proof.
  destruct a; cbn [ser_addr]; rewrite ?zlen_app, ?zlen_ser_data, ?zlen_u16, ?zlen_cons, ?zlen_nil; lia.
Qed.

Lemma vd_wf_addr a n : vd_addr a -> zlen (ser_addr a) <= n -> n < 65536 -> wf_addr a.
Proof.
  intros Hv Hl Hn. rewrite zlen_ser_addr in Hl. destruct a; cbn [vd_addr wf_addr] in *; try contradiction; lia.
Qed.

Lemma vd_wf_addrs l : Forall vd_addr l -> zlen (ser_addrs l) < 65536 -> Forall wf_addr l.
Proof.
  induction l as [|a l IH]; intros Hv Hl; [constructor|].
  inversion Hv as [|? ? Ha Hr]; subst. cbn [ser_addrs flat_map] in Hl. rewrite zlen_app in Hl.
  fold (ser_addrs l) in Hl. pose proof (zlen_nonneg (ser_addrs l)). pose proof (zlen_nonneg (ser_addr a)).
  constructor; [apply (vd_wf_addr a (zlen (ser_addr a))); (assumption || lia)|apply IH; (assumption || lia)].
Qed.

(* below the uint16 frame length every field length fits its own uint16 prefix *)
Lemma vd_wf_msg m : vd_msg m -> zlen (ser_msg m) < 65536 -> wf_msg m.
Proof.
  intros Hv Hl. destruct m as [l r|l r p|pv v s c t|addrs|l r| |l r p]; cbn [vd_msg wf_msg ser_msg] in *;
    rewrite ?zlen_app, ?zlen_ser_data, ?zlen_u16, ?zlen_cons, ?zlen_nil in Hl.
  - pose proof (zlen_nonneg (ser_addr l)). pose proof (zlen_nonneg (ser_addr r)). destruct Hv.
    split; [apply (vd_wf_addr l (zlen (ser_addr l)))|apply (vd_wf_addr r (zlen (ser_addr r)))]; (assumption || lia).
  - pose proof (zlen_nonneg (ser_addr l)). pose proof (zlen_nonneg (ser_addr r)). pose proof (zlen_nonneg p). destruct Hv.
    split; [apply (vd_wf_addr l (zlen (ser_addr l)))|split; [apply (vd_wf_addr r (zlen (ser_addr r)))|]]; (assumption || lia).
  - pose proof (zlen_nonneg v). pose proof (zlen_nonneg s). pose proof (zlen_nonneg c). pose proof (zlen_nonneg t). lia.
  - destruct Hv as [Hv Hn]. pose proof (zlen_nonneg (ser_addrs addrs)).
    split; [apply vd_wf_addrs; (assumption || lia)|exact Hn].
  - pose proof (zlen_nonneg (ser_addr l)). pose proof (zlen_nonneg (ser_addr r)). destruct Hv.
    split; [apply (vd_wf_addr l (zlen (ser_addr l)))|apply (vd_wf_addr r (zlen (ser_addr r)))]; (assumption || lia).
  - exact I.
  - pose proof (zlen_nonneg (ser_addr l)). pose proof (zlen_nonneg (ser_addr r)). pose proof (zlen_nonneg p). destruct Hv.
    split; [apply (vd_wf_addr l (zlen (ser_addr l)))|split; [apply (vd_wf_addr r (zlen (ser_addr r)))|]]; (assumption || lia).
Qed.

(* the round trip: every message type, every encoding whose length fits the uint16 frame
   length field of conn2.send *)
Lemma codec_roundtrip m : vd_msg m -> zlen (encode_msg m) < 65536 -> transport m = Some m.
Proof.
  intros Hv Hlen. unfold transport. rewrite encode_msg_ser in *.
  apply decode_ser, vd_wf_msg; assumption.
Qed.

(* ================================================================== *)
(* C. the session machine *)

Lemma nth_upd {A} (l : list A) i x d c :
  nth c (upd l i x) d = if Nat.eqb i c && Nat.ltb c (length l) then x else nth c l d.
Proof.
  revert i c; induction l as [|y l IH]; intros i c; cbn [upd].
  - destruct i; cbn [length]; rewrite Bool.andb_false_r; reflexivity.
  - destruct i as [|i], c as [|c]; cbn [nth length Nat.eqb]; try reflexivity.
    rewrite IH. reflexivity.
Qed.

Lemma upd_length {A} (l : list A) i x : length (upd l i x) = length l.
Proof. revert i; induction l; intros [|i]; cbn [upd length]; auto. Qed.

Lemma closed_in_range s i : vc_closed (conn_at s i) = false -> (i < length (s_conns s))%nat.
Proof.
  unfold conn_at. intros H. destruct (Nat.ltb i (length (s_conns s))) eqn:E.
  - apply Nat.ltb_lt, E.
  - apply Nat.ltb_ge in E. rewrite nth_overflow in H by exact E. discriminate.
Qed.

Lemma buf_in_range s i : vc_buf (conn_at s i) <> [] -> (i < length (s_conns s))%nat.
Proof.
  unfold conn_at. intros H. destruct (Nat.ltb i (length (s_conns s))) eqn:E.
  - apply Nat.ltb_lt, E.
  - apply Nat.ltb_ge in E. rewrite nth_overflow in H by exact E. now contradiction H.
Qed.

(* closing the registered connections one by one *)
Definition close_all (reg : list nat) (cs : list vconn) : list vconn :=
  fold_left (fun cs i => upd cs i (close_vc (nth i cs dummy_vc))) reg cs.

Lemma close_all_nth reg : forall cs c,
  nth c (close_all reg cs) dummy_vc =
  if existsb (Nat.eqb c) reg then close_vc (nth c cs dummy_vc) else nth c cs dummy_vc.
Proof.
  induction reg as [|i reg IH]; intros cs c; cbn [close_all fold_left existsb]; [reflexivity|].
  fold (close_all reg (upd cs i (close_vc (nth i cs dummy_vc)))).
  rewrite IH, nth_upd. rewrite (Nat.eqb_sym c i).
  destruct (Nat.eqb i c) eqn:E; cbn [andb orb].
  - apply Nat.eqb_eq in E; subst i.
    destruct (Nat.ltb c (length cs)) eqn:L.
    + destruct (existsb (Nat.eqb c) reg); reflexivity.
    + apply Nat.ltb_ge in L. rewrite (nth_overflow cs dummy_vc L).
      destruct (existsb (Nat.eqb c) reg); reflexivity.
  - reflexivity.
Qed.

Lemma teardown_conn s c :
  conn_at (teardown s) c =
  if existsb (Nat.eqb c) (s_reg s) then close_vc (conn_at s c) else conn_at s c.
Proof. unfold conn_at, teardown; cbn [s_conns]. apply close_all_nth. Qed.

Lemma teardown_buf s c : vc_buf (conn_at (teardown s) c) = vc_buf (conn_at s c).
Proof. rewrite teardown_conn. destruct (existsb _ _); reflexivity. Qed.

Lemma conn_at_mk cs reg al nu c : conn_at (mkSess cs reg al nu) c = nth c cs dummy_vc.
Proof. reflexivity. Qed.

(* ---- routing: which connection receives the payload of a message ---- *)
Definition routed (s : sess) (m : msg) : option (nat * bytes) :=
  if negb (s_alive s) then None
  else match m with
       | MData l r p =>
         match get_conn (s_conns s) (s_reg s) l r with
         | GFound i => if vc_closed (conn_at s i) then None else Some (i, p)
         | _ => None
         end
       | _ => None
       end.

Definition matches (cs : list vconn) (l r : addr) (j : nat) : Prop :=
  addr_cmp (vc_l (nth j cs dummy_vc)) l = CEq /\ addr_cmp (vc_r (nth j cs dummy_vc)) r = CEq.

(* Connections.Get: the FIRST registered connection whose two address strings equal the message's *)
Lemma get_conn_found cs reg l r i :
  get_conn cs reg l r = GFound i ->
  exists pre post, reg = pre ++ i :: post /\ matches cs l r i /\ Forall (fun j => ~ matches cs l r j) pre.
Proof.
  induction reg as [|j reg IH]; cbn [get_conn]; [discriminate|].
  destruct (addr_cmp (vc_l (nth j cs dummy_vc)) l) eqn:E1; try discriminate.
  - destruct (addr_cmp (vc_r (nth j cs dummy_vc)) r) eqn:E2; try discriminate.
    + intros H; inversion H; subst j. exists [], reg. repeat split; auto.
    + intros H. destruct (IH H) as (pre & post & -> & Hm & Hf).
      exists (j :: pre), post. repeat split; try apply Hm.
      constructor; [|exact Hf]. intros [_ Hc]. congruence.
  - intros H. destruct (IH H) as (pre & post & -> & Hm & Hf).
    exists (j :: pre), post. repeat split; try apply Hm.
    constructor; [|exact Hf]. intros [Hc _]. congruence.
Qed.

Lemma get_conn_none cs reg l r :
  get_conn cs reg l r = GNone -> Forall (fun j => ~ matches cs l r j) reg.
Proof.
  induction reg as [|j reg IH]; cbn [get_conn]; [constructor|].
  destruct (addr_cmp (vc_l (nth j cs dummy_vc)) l) eqn:E1; try discriminate.
  - destruct (addr_cmp (vc_r (nth j cs dummy_vc)) r) eqn:E2; try discriminate.
    intros H. constructor; [|apply IH, H]. intros [_ Hc]. congruence.
  - intros H. constructor; [|apply IH, H]. intros [Hc _]. congruence.
Qed.

(* the string comparison: equal ports and equal IPs up to the 4-byte / 16-byte form *)
Lemma addr_cmp_eq a b :
  addr_cmp a b = CEq <->
  exists ka kb, addr_key a = Some ka /\ addr_key b = Some kb /\ fst ka = fst kb /\ snd ka = snd kb.
Proof.
  unfold addr_cmp. destruct (addr_key a) as [ka|], (addr_key b) as [kb|]; split;
    try discriminate; try (intros (x & y & H1 & H2 & _); discriminate).
  - unfold key_eqb. destruct (eqb_bytes (fst ka) (fst kb)) eqn:E1, (snd ka =? snd kb) eqn:E2;
      cbn [andb]; try discriminate.
    intros _. exists ka, kb. apply eqb_bytes_true in E1. repeat split; auto; lia.
  - intros (x & y & H1 & H2 & H3 & H4). inversion H1; inversion H2; subst x y.
    unfold key_eqb. apply eqb_bytes_true in H3. rewrite H3.
    replace (snd ka =? snd kb) with true by lia. reflexivity.
Qed.

(* ---- a data message touches only the connection it is routed to ---- *)
Lemma data_routed s l r p i :
  routed s (MData l r p) = Some (i, p) ->
  exists s', serv_msg s (MData l r p) = (s', RNone, [], Some i) /\
    conn_at s' i = mkVc (vc_l (conn_at s i)) (vc_r (conn_at s i)) (vc_buf (conn_at s i) ++ p) false /\
    (forall c, c <> i -> conn_at s' c = conn_at s c) /\
    s_reg s' = s_reg s /\ s_alive s' = s_alive s /\ length (s_conns s') = length (s_conns s).
Proof.
  unfold routed, serv_msg. destruct (s_alive s) eqn:Ea; cbn [negb]; [|discriminate].
  destruct (get_conn (s_conns s) (s_reg s) l r) as [j| |] eqn:Eg; try discriminate.
  destruct (vc_closed (conn_at s j)) eqn:Ec; [discriminate|].
  intros H; inversion H; subst j. eexists; split; [reflexivity|].
  pose proof (closed_in_range s i Ec) as Hr.
  rewrite !conn_at_mk. cbn [s_reg s_alive s_conns]. repeat split.
  - rewrite nth_upd, Nat.eqb_refl. apply Nat.ltb_lt in Hr. rewrite Hr. reflexivity.
  - intros c Hc. rewrite conn_at_mk, nth_upd. apply Nat.eqb_neq in Hc. rewrite Nat.eqb_sym in Hc.
    rewrite Hc. reflexivity.
  - apply upd_length.
Qed.

Lemma data_not_routed s l r p :
  routed s (MData l r p) = None -> get_conn (s_conns s) (s_reg s) l r <> GPanic ->
  serv_msg s (MData l r p) = (s, RNone, [], None).
Proof.
  unfold routed, serv_msg. destruct (s_alive s); cbn [negb]; [|reflexivity].
  destruct (get_conn (s_conns s) (s_reg s) l r) as [j| |]; try reflexivity.
  - destruct (vc_closed (conn_at s j)); [reflexivity|discriminate].
  - intros _ H. now contradiction H.
Qed.

(* data or eof for an id that matches no registered connection changes nothing *)
Lemma unknown_id_ignored s l r p :
  get_conn (s_conns s) (s_reg s) l r = GNone ->
  serv_msg s (MData l r p) = (s, RNone, [], None) /\ serv_msg s (MEof l r) = (s, RNone, [], None).
Proof.
  intros H. unfold serv_msg. rewrite H. destruct (s_alive s); cbn [negb]; split; reflexivity.
Qed.

(* hello: a fresh, open, empty connection with the announced addresses; the others untouched *)
Lemma hello_surfaces s l r :
  s_alive s = true ->
  exists s', serv_msg s (MHello l r) = (s', RAcc l r, [], None) /\
    conn_at s' (length (s_conns s)) = mkVc l r [] false /\
    (forall c, (c < length (s_conns s))%nat -> conn_at s' c = conn_at s c) /\
    s_reg s' = s_reg s ++ [length (s_conns s)] /\ s_alive s' = true.
Proof.
  intros Ha. unfold serv_msg. rewrite Ha. cbn [negb]. eexists; split; [reflexivity|].
  rewrite !conn_at_mk. cbn [s_reg s_alive]. repeat split.
  - rewrite app_nth2 by lia. rewrite Nat.sub_diag. reflexivity.
  - intros c Hc. rewrite conn_at_mk. apply app_nth1, Hc.
Qed.

(* eof: exactly the matching connection is closed and unregistered; its buffer stays readable *)
Lemma eof_closes_exactly s l r i :
  s_alive s = true -> get_conn (s_conns s) (s_reg s) l r = GFound i ->
  exists s', serv_msg s (MEof l r) =
      (s', RNone, (if vc_closed (conn_at s i) then [] else [MEof (vc_l (conn_at s i)) (vc_r (conn_at s i))]), None) /\
    (forall c, c <> i -> conn_at s' c = conn_at s c) /\
    ((i < length (s_conns s))%nat -> conn_at s' i = close_vc (conn_at s i)) /\
    s_reg s' = remove_first i (s_reg s) /\ s_alive s' = true.
Proof.
  intros Ha Hg. unfold serv_msg. rewrite Ha, Hg. cbn [negb]. eexists; split; [reflexivity|].
  cbn [s_reg s_alive]. repeat split.
  - intros c Hc. rewrite conn_at_mk, nth_upd. apply Nat.eqb_neq in Hc. rewrite Nat.eqb_sym in Hc.
    rewrite Hc. reflexivity.
  - intros Hr. rewrite conn_at_mk, nth_upd, Nat.eqb_refl. apply Nat.ltb_lt in Hr. rewrite Hr. reflexivity.
Qed.

(* the agent disconnecting (or serv failing) closes every registered connection, keeps
   the buffers, and touches no unregistered one *)
Lemma teardown_closes s c :
  In c (s_reg s) -> vc_closed (conn_at (teardown s) c) = true.
Proof.
  intros H. rewrite teardown_conn.
  replace (existsb (Nat.eqb c) (s_reg s)) with true; [reflexivity|].
  symmetry. apply existsb_exists. exists c. split; [exact H|apply Nat.eqb_refl].
Qed.

Lemma teardown_others s c :
  ~ In c (s_reg s) -> conn_at (teardown s) c = conn_at s c.
Proof.
  intros H. rewrite teardown_conn.
  destruct (existsb (Nat.eqb c) (s_reg s)) eqn:E; [|reflexivity].
  apply existsb_exists in E. destruct E as (x & Hx & Hxc). apply Nat.eqb_eq in Hxc. subst x. contradiction.
Qed.

(* a service write: exactly one frame, tagged with that connection's addresses; state unchanged *)
Lemma write_then_refill_eq p q : write_then_refill p q = p.
Proof. reflexivity. Qed.

Lemma write_tagged s c p q :
  s_alive s = true ->
  step ideal_wire s (AWrite c p q) = (s, RNone, [MData (vc_l (conn_at s c)) (vc_r (conn_at s c)) p]).
Proof. intros Ha. unfold step. rewrite Ha. reflexivity. Qed.

(* ---- conservation: routed bytes = bytes read ++ bytes still buffered ---- *)
Section Stream.
Variable wire : msg -> option msg.

Definition recv_of (s : sess) (m : msg) (c : nat) : bytes :=
  match wire m with
  | Some m' => match routed s m' with
               | Some (i, p) => if Nat.eqb i c then p else []
               | None => []
               end
  | None => []
  end.

Definition step_recv (s : sess) (a : act) (c : nat) : bytes :=
  match a with
  | ASend m => recv_of s m c
  | APark _ _ m => recv_of s m c
  | _ => []
  end.

Definition step_read (a : act) (r : res) (c : nat) : bytes :=
  match a, r with
  | ARead c' _, RData b => if Nat.eqb c' c then b else []
  | APark c' _ _, RData b => if Nat.eqb c' c then b else []
  | _, _ => []
  end.

Lemma recv_msg_buf s m c :
  let '(s', _, _, _) := recv_msg wire s m in
  vc_buf (conn_at s' c) = vc_buf (conn_at s c) ++ recv_of s m c.
Proof.
  unfold recv_msg, recv_of. destruct (wire m) as [m'|].
  2:{ destruct (s_alive s); rewrite ?teardown_buf, app_nil_r; reflexivity. }
  destruct (routed s m') as [[i p]|] eqn:Er.
  - destruct m'; try (unfold routed in Er; destruct (negb (s_alive s)); discriminate).
    assert (p0 = p).
    { unfold routed in Er. destruct (negb (s_alive s)); [discriminate|].
      destruct (get_conn _ _ _ _); try discriminate. destruct (vc_closed _); inversion Er; reflexivity. }
    subst p0. destruct (data_routed s l r p i Er) as (s' & E & Hi & Ho & _). rewrite E.
    destruct (Nat.eqb i c) eqn:Eic.
    + apply Nat.eqb_eq in Eic; subst c. rewrite Hi. reflexivity.
    + apply Nat.eqb_neq in Eic. rewrite Ho by auto. now rewrite app_nil_r.
  - rewrite app_nil_r. unfold routed in Er. unfold serv_msg.
    destruct (s_alive s) eqn:Ea; cbn [negb] in *; [|reflexivity].
    destruct m' as [l r|l r p|? ? ? ? ?|?|l r| |l r p]; try reflexivity.
    + rewrite conn_at_mk. unfold conn_at.
      destruct (Nat.ltb c (length (s_conns s))) eqn:L.
      * apply Nat.ltb_lt in L. rewrite app_nth1 by exact L. reflexivity.
      * apply Nat.ltb_ge in L. rewrite (nth_overflow (s_conns s) dummy_vc L).
        destruct (Nat.eq_dec c (length (s_conns s))) as [->|Hne].
        -- rewrite app_nth2, Nat.sub_diag by lia. reflexivity.
        -- rewrite nth_overflow; [reflexivity|]. rewrite app_length; cbn [length]. lia.
    + destruct (get_conn (s_conns s) (s_reg s) l r) as [j| |]; rewrite ?teardown_buf; try reflexivity.
      destruct (vc_closed (conn_at s j)); [reflexivity|discriminate].
    + destruct (get_conn (s_conns s) (s_reg s) l r) as [j| |]; rewrite ?teardown_buf; try reflexivity.
      rewrite conn_at_mk, nth_upd.
      destruct (Nat.eqb j c && Nat.ltb c (length (s_conns s))) eqn:E; [|reflexivity].
      apply andb_true_iff in E. destruct E as [E _]. apply Nat.eqb_eq in E. subst j. reflexivity.
    + destruct (is_udp l && is_udp r); rewrite ?teardown_buf; reflexivity.
Qed.

Lemma vc_read_buf s c' n c :
  let '(s', r) := vc_read s c' n in
  vc_buf (conn_at s c) = step_read (ARead c' n) r c ++ vc_buf (conn_at s' c).
Proof.
  unfold vc_read, step_read. destruct (vc_buf (conn_at s c')) as [|b0 bs] eqn:Eb.
  - destruct (vc_closed (conn_at s c')); reflexivity.
  - assert (Hr : (c' < length (s_conns s))%nat) by (apply buf_in_range; rewrite Eb; discriminate).
    rewrite conn_at_mk, nth_upd. apply Nat.ltb_lt in Hr.
    destruct (Nat.eqb c' c) eqn:E; cbn [andb].
    + apply Nat.eqb_eq in E; subst c'. rewrite Hr. cbn [vc_buf]. rewrite Eb.
      symmetry; apply zfirstn_skipn.
    + reflexivity.
Qed.

Lemma vc_read_routed s c' n m : routed (fst (vc_read s c' n)) m = routed s m.
Proof.
  unfold vc_read. destruct (vc_buf (conn_at s c')) as [|b0 bs] eqn:Eb.
  - destruct (vc_closed (conn_at s c')); reflexivity.
  - cbn [fst]. unfold routed. cbn [s_alive s_conns s_reg].
    destruct (negb (s_alive s)); [reflexivity|]. destruct m; try reflexivity.
    set (cs' := upd (s_conns s) c' _).
    assert (Hsame : forall j, vc_l (nth j cs' dummy_vc) = vc_l (nth j (s_conns s) dummy_vc) /\
                              vc_r (nth j cs' dummy_vc) = vc_r (nth j (s_conns s) dummy_vc) /\
                              vc_closed (nth j cs' dummy_vc) = vc_closed (nth j (s_conns s) dummy_vc)).
    { intros j. unfold cs'. rewrite nth_upd.
      destruct (Nat.eqb c' j && Nat.ltb j (length (s_conns s))) eqn:E; [|auto].
      apply andb_true_iff in E. destruct E as [E _]. apply Nat.eqb_eq in E. subst j. auto. }
    assert (Hg : get_conn cs' (s_reg s) l r = get_conn (s_conns s) (s_reg s) l r).
    { induction (s_reg s) as [|j reg IH]; cbn [get_conn]; [reflexivity|].
      destruct (Hsame j) as (-> & -> & _). rewrite IH. reflexivity. }
    rewrite Hg. destruct (get_conn (s_conns s) (s_reg s) l r) as [j| |]; try reflexivity.
    rewrite conn_at_mk. unfold conn_at. destruct (Hsame j) as (_ & _ & ->). reflexivity.
Qed.

Lemma step_read_park c' n m r c : step_read (APark c' n m) r c = step_read (ARead c' n) r c.
Proof. destruct r; reflexivity. Qed.

Lemma recv_after_read s c' n m c : recv_of (fst (vc_read s c' n)) m c = recv_of s m c.
Proof.
  unfold recv_of. destruct (wire m) as [m'|]; [|reflexivity]. rewrite vc_read_routed. reflexivity.
Qed.

(* Read returns at once, the message is processed afterwards *)
Lemma immediate_conserves s c' n m c :
  let '(s1, r) := vc_read s c' n in
  let '(s', _, _, _) := recv_msg wire s1 m in
  vc_buf (conn_at s c) ++ recv_of s m c = step_read (APark c' n m) r c ++ vc_buf (conn_at s' c).
Proof.
  pose proof (vc_read_buf s c' n c) as H1. pose proof (recv_after_read s c' n m c) as H2.
  destruct (vc_read s c' n) as [s1 r1]. cbn [fst] in H2.
  pose proof (recv_msg_buf s1 m c) as H3. destruct (recv_msg wire s1 m) as [[[s' r] fs] sg].
  rewrite step_read_park, H3, H2, H1, <- app_assoc. reflexivity.
Qed.

Lemma step_conserves s a c :
  let '(s', r, _) := step wire s a in
  vc_buf (conn_at s c) ++ step_recv s a c = step_read a r c ++ vc_buf (conn_at s' c).
Proof.
  destruct a as [m|c' n|c' n m|c' p q|c'|iu p q|]; cbn [step step_recv].
  - pose proof (recv_msg_buf s m c) as H. destruct (recv_msg wire s m) as [[[s' r] fs] sg].
    cbn [step_read]. rewrite H. reflexivity.
  - pose proof (vc_read_buf s c' n c) as H. destruct (vc_read s c' n) as [s' r].
    rewrite app_nil_r. exact H.
  - pose proof (immediate_conserves s c' n m c) as Himm.
    destruct (vc_buf (conn_at s c')) as [|b0 bs] eqn:Eb.
    + destruct (vc_closed (conn_at s c')) eqn:Ec.
      * destruct (vc_read s c' n) as [s1 r1]. destruct (recv_msg wire s1 m) as [[[s' r] fs] sg]. exact Himm.
      * clear Himm. pose proof (recv_msg_buf s m c) as H.
        destruct (recv_msg wire s m) as [[[s1 r1] fs] sg].
        pose proof (vc_read_buf s1 c' n c) as H2. destruct (vc_read s1 c' n) as [s' r].
        rewrite step_read_park, <- H2. symmetry; exact H.
    + destruct (vc_closed (conn_at s c'));
        destruct (vc_read s c' n) as [s1 r1]; destruct (recv_msg wire s1 m) as [[[s' r] fs] sg]; exact Himm.
  - destruct (s_alive s); cbn [step_read]; rewrite app_nil_r; reflexivity.
  - destruct (vc_closed (conn_at s c')) eqn:Ec; cbn [step_read]; rewrite app_nil_r; [reflexivity|].
    rewrite conn_at_mk, nth_upd.
    destruct (Nat.eqb c' c && Nat.ltb c (length (s_conns s))) eqn:E; [|reflexivity].
    apply andb_true_iff in E. destruct E as [E _]. apply Nat.eqb_eq in E. subst c'. reflexivity.
  - destruct (nth_error (s_udp s) iu) as [[l r]|]; [destruct (s_alive s)|];
      cbn [step_read]; rewrite app_nil_r; reflexivity.
  - cbn [step_read]. rewrite app_nil_r. destruct (s_alive s); rewrite ?teardown_buf; reflexivity.
Qed.

(* over a whole run *)
Fixpoint run_recv (s : sess) (acts : list act) (c : nat) : bytes :=
  match acts with
  | [] => []
  | a :: rest => step_recv s a c ++ run_recv (fst (fst (step wire s a))) rest c
  end.

Fixpoint run_read (acts : list act) (rs : list res) (c : nat) : bytes :=
  match acts, rs with
  | a :: acts', r :: rs' => step_read a r c ++ run_read acts' rs' c
  | _, _ => []
  end.

Lemma run_conserves acts : forall s c,
  let '(s', rs, _) := run wire s acts in
  vc_buf (conn_at s c) ++ run_recv s acts c = run_read acts rs c ++ vc_buf (conn_at s' c).
Proof.
  induction acts as [|a acts IH]; intros s c; cbn [run run_recv run_read].
  - now rewrite app_nil_r.
  - pose proof (step_conserves s a c) as Hs.
    destruct (step wire s a) as [[s1 r] fs] eqn:Es. cbn [fst].
    specialize (IH s1 c). destruct (run wire s1 acts) as [[s2 rs] fs2].
    cbn [run_read]. rewrite app_assoc, Hs, <- app_assoc, IH, app_assoc. reflexivity.
Qed.
End Stream.

(* ---- a closed connection receives nothing more, and is never reopened ---- *)
Lemma closed_no_recv wire s m c : vc_closed (conn_at s c) = true -> recv_of wire s m c = [].
Proof.
  intros Hc. unfold recv_of. destruct (wire m) as [m'|]; [|reflexivity].
  destruct (routed s m') as [[i p]|] eqn:Er; [|reflexivity].
  destruct (Nat.eqb i c) eqn:E; [|reflexivity]. apply Nat.eqb_eq in E; subst i.
  unfold routed in Er. destruct (negb (s_alive s)); [discriminate|].
  destruct m'; try discriminate. destruct (get_conn _ _ _ _) as [j| |]; try discriminate.
  destruct (vc_closed (conn_at s j)) eqn:Ej; [discriminate|]. inversion Er; subst j. congruence.
Qed.

Definition still_closed (s s' : sess) (c : nat) : Prop :=
  vc_closed (conn_at s' c) = true /\ (length (s_conns s) <= length (s_conns s'))%nat.

Lemma teardown_length s : length (s_conns (teardown s)) = length (s_conns s).
Proof.
  unfold teardown; cbn [s_conns]. generalize (s_conns s). induction (s_reg s) as [|i reg IH]; intros cs; cbn [fold_left]; [reflexivity|].
  rewrite IH. apply upd_length.
Qed.

Lemma teardown_closed s c : vc_closed (conn_at s c) = true -> still_closed s (teardown s) c.
Proof.
  intros H. split; [|rewrite teardown_length; lia].
  rewrite teardown_conn. destruct (existsb _ _); [reflexivity|exact H].
Qed.

Lemma recv_msg_closed wire s m c :
  (c < length (s_conns s))%nat -> vc_closed (conn_at s c) = true ->
  let '(s', _, _, _) := recv_msg wire s m in still_closed s s' c.
Proof.
  intros Hr Hc. unfold recv_msg.
  assert (Hsame : still_closed s s c) by (split; [exact Hc|lia]).
  destruct (wire m) as [m'|]; [|destruct (s_alive s); [apply teardown_closed, Hc|exact Hsame]].
  unfold serv_msg. destruct (negb (s_alive s)); [exact Hsame|].
  destruct m' as [l r|l r p|? ? ? ? ?|?|l r| |l r p]; try exact Hsame.
  - split; cbn [s_conns]; [|rewrite app_length; lia]. rewrite conn_at_mk, app_nth1 by exact Hr. exact Hc.
  - destruct (get_conn (s_conns s) (s_reg s) l r) as [j| |]; [|exact Hsame|apply teardown_closed, Hc].
    destruct (vc_closed (conn_at s j)) eqn:Ej; [exact Hsame|].
    split; cbn [s_conns]; [|rewrite upd_length; lia]. rewrite conn_at_mk, nth_upd.
    destruct (Nat.eqb j c && Nat.ltb c (length (s_conns s))) eqn:E; [|exact Hc].
    apply andb_true_iff in E. destruct E as [E _]. apply Nat.eqb_eq in E. subst j. congruence.
  - destruct (get_conn (s_conns s) (s_reg s) l r) as [j| |]; [|exact Hsame|apply teardown_closed, Hc].
    split; cbn [s_conns]; [|rewrite upd_length; lia]. rewrite conn_at_mk, nth_upd.
    destruct (Nat.eqb j c && Nat.ltb c (length (s_conns s))) eqn:E; [reflexivity|exact Hc].
  - destruct (is_udp l && is_udp r); [exact Hsame|apply teardown_closed, Hc].
Qed.

Lemma vc_read_closed s c' n c :
  vc_closed (conn_at s c) = true -> still_closed s (fst (vc_read s c' n)) c.
Proof.
  intros Hc. unfold vc_read. destruct (vc_buf (conn_at s c')) as [|b0 bs]; cbn [fst].
  - split; [exact Hc|lia].
  - split; cbn [s_conns]; [|rewrite upd_length; lia]. rewrite conn_at_mk, nth_upd.
    destruct (Nat.eqb c' c && Nat.ltb c (length (s_conns s))) eqn:E; [|exact Hc].
    apply andb_true_iff in E. destruct E as [E _]. apply Nat.eqb_eq in E. subst c'. exact Hc.
Qed.

Lemma still_closed_trans s s1 s2 c :
  still_closed s s1 c -> still_closed s1 s2 c -> still_closed s s2 c.
Proof. intros [_ H1] [H2 H3]. split; [exact H2|lia]. Qed.

Lemma step_closed wire s a c :
  (c < length (s_conns s))%nat -> vc_closed (conn_at s c) = true ->
  still_closed s (fst (fst (step wire s a))) c.
Proof.
  intros Hr Hc. assert (Hsame : still_closed s s c) by (split; [exact Hc|lia]).
  destruct a as [m|c' n|c' n m|c' p q|c'|iu p q|]; cbn [step].
  - pose proof (recv_msg_closed wire s m c Hr Hc) as H.
    destruct (recv_msg wire s m) as [[[s' r] fs] sg]. exact H.
  - pose proof (vc_read_closed s c' n c Hc) as H. destruct (vc_read s c' n) as [s' r]. exact H.
  - assert (Himm : let '(s1, r) := vc_read s c' n in
                   let '(s', _, fs, _) := recv_msg wire s1 m in still_closed s s' c).
    { pose proof (vc_read_closed s c' n c Hc) as H1. destruct (vc_read s c' n) as [s1 r1]. cbn [fst] in H1.
      destruct H1 as [H1 H1l].
      pose proof (recv_msg_closed wire s1 m c ltac:(lia) H1) as H2.
      destruct (recv_msg wire s1 m) as [[[s' r] fs] sg].
      eapply still_closed_trans; [split; [exact H1|exact H1l]|exact H2]. }
    destruct (vc_buf (conn_at s c')) as [|b0 bs] eqn:Eb.
    + destruct (vc_closed (conn_at s c')) eqn:Ec.
      * destruct (vc_read s c' n) as [s1 r1]. destruct (recv_msg wire s1 m) as [[[s' r] fs] sg]. exact Himm.
      * clear Himm. pose proof (recv_msg_closed wire s m c Hr Hc) as H.
        destruct (recv_msg wire s m) as [[[s1 r1] fs] sg].
        destruct H as [H Hl]. pose proof (vc_read_closed s1 c' n c H) as H2.
        destruct (vc_read s1 c' n) as [s' r]. cbn [fst] in *.
        eapply still_closed_trans; [split; [exact H|exact Hl]|exact H2].
    + destruct (vc_closed (conn_at s c'));
        destruct (vc_read s c' n) as [s1 r1]; destruct (recv_msg wire s1 m) as [[[s' r] fs] sg]; exact Himm.
  - destruct (s_alive s); exact Hsame.
  - destruct (vc_closed (conn_at s c')) eqn:Ec; cbn [fst]; [exact Hsame|].
    split; cbn [s_conns]; [|rewrite upd_length; lia]. rewrite conn_at_mk, nth_upd.
    destruct (Nat.eqb c' c && Nat.ltb c (length (s_conns s))) eqn:E; [reflexivity|exact Hc].
  - destruct (nth_error (s_udp s) iu) as [[l r]|]; [destruct (s_alive s)|]; exact Hsame.
  - cbn [fst]. destruct (s_alive s); [apply teardown_closed, Hc|exact Hsame].
Qed.

(* once closed (eof, service close, disconnect), nothing is ever routed to it again *)
Lemma closed_gets_nothing wire acts : forall s c,
  (c < length (s_conns s))%nat -> vc_closed (conn_at s c) = true -> run_recv wire s acts c = [].
Proof.
  induction acts as [|a acts IH]; intros s c Hr Hc; cbn [run_recv]; [reflexivity|].
  destruct (step_closed wire s a c Hr Hc) as [H1 H2].
  rewrite IH by (try exact H1; lia).
  rewrite app_nil_r. destruct a; cbn [step_recv]; try reflexivity; apply closed_no_recv, Hc.
Qed.

(* ================================================================== *)
(* C'. relayed datagrams: the list of datagram pseudo-connections only ever grows at its
   end - by exactly the (local, remote) pair of a ReadWriteUDP message that serv accepts *)
Definition udp_new (s : sess) (m : msg) : list (addr * addr) :=
  match m with
  | MUdp l r _ => if s_alive s && (is_udp l && is_udp r) then [(l, r)] else []
  | _ => []
  end.

Lemma teardown_udp s : s_udp (teardown s) = s_udp s.
Proof. reflexivity. Qed.

Lemma serv_msg_udp s m :
  s_udp (fst (fst (fst (serv_msg s m)))) = s_udp s ++ udp_new s m.
Proof.
  unfold serv_msg, udp_new. destruct (s_alive s) eqn:Ea; cbn [negb andb].
  - destruct m as [l r|l r p|? ? ? ? ?|?|l r| |l r p]; cbn [fst s_udp]; rewrite ?app_nil_r; try reflexivity.
    + destruct (get_conn (s_conns s) (s_reg s) l r) as [j| |]; [destruct (vc_closed (conn_at s j))| |];
        cbn [fst s_udp]; rewrite ?teardown_udp, ?app_nil_r; reflexivity.
    + destruct (get_conn (s_conns s) (s_reg s) l r) as [j| |];
        cbn [fst s_udp]; rewrite ?teardown_udp, ?app_nil_r; reflexivity.
    + destruct (is_udp l && is_udp r); cbn [fst s_udp]; rewrite ?teardown_udp, ?app_nil_r; reflexivity.
  - cbn [fst]. destruct m; rewrite app_nil_r; reflexivity.
Qed.

Lemma vc_read_udp s c n : s_udp (fst (vc_read s c n)) = s_udp s.
Proof. unfold vc_read. destruct (vc_buf (conn_at s c)); reflexivity. Qed.

Lemma vc_read_alive s c n : s_alive (fst (vc_read s c n)) = s_alive s.
Proof. unfold vc_read. destruct (vc_buf (conn_at s c)); reflexivity. Qed.

(* ================================================================== *)
(* D. witnesses for the hypotheses of the round trip *)
Definition large_witness : msg :=
  MData (ATcp [192;0;2;1]%N 80) (ATcp [32;1;13;184;0;0;0;0;0;0;0;0;0;0;0;1]%N 65535) (repeat 7%N (N.to_nat 65000)).
Definition hs_witness : msg :=
  MHandshake 1 [49;46;48]%N [97;98;99;100;101;102;48]%N [97;98;99;100;101;102;48;49]%N (repeat 116%N (N.to_nat 4090)).

Lemma large_witness_ok : vd_msg large_witness /\ zlen (encode_msg large_witness) = 65032.
Proof. repeat split; vm_compute; (reflexivity || discriminate). Qed.

Lemma hs_witness_ok : vd_msg hs_witness /\ zlen (encode_msg hs_witness) = 4118.
Proof. repeat split; vm_compute; (reflexivity || discriminate). Qed.

(* ================================================================== *)
(* E. one connection and its reader, step by step *)
Lemma cstep_closed s e :
  c_closed (cstep s e) = match e with EClose => true | _ => c_closed s end.
Proof.
  destruct e as [p| |n]; cbn [cstep].
  - destruct (c_closed s) eqn:E; [exact E|reflexivity].
  - reflexivity.
  - destruct (c_pc s); try reflexivity.
    + destruct (c_buf s); reflexivity.
    + destruct (c_tok s); [reflexivity|]. destruct (c_closed s) eqn:E; [reflexivity|exact E].
Qed.

Lemma cstep_inv s e :
  c_got (cstep s e) ++ c_buf (cstep s e) =
  c_got s ++ c_buf s ++ match e with ERecv p => if c_closed s then [] else p | _ => [] end.
Proof.
  destruct e as [p| |n]; cbn [cstep].
  - destruct (c_closed s); cbn [c_got c_buf]; now rewrite ?app_nil_r.
  - cbn [c_got c_buf]. now rewrite app_nil_r.
  - rewrite app_nil_r. destruct (c_pc s); cbn [c_got c_buf]; try reflexivity.
    + destruct (c_buf s) as [|b l] eqn:E; cbn [c_got c_buf]; [reflexivity|].
      rewrite <- app_assoc. f_equal. apply zfirstn_skipn.
    + destruct (c_tok s); [reflexivity|]. destruct (c_closed s); reflexivity.
Qed.

(* for EVERY schedule of receives, Close and reader steps: bytes read ++ bytes buffered
   = the accepted payloads, in order (nothing duplicated, reordered or invented) *)
Lemma crun_inv evs : forall s,
  c_got (crun s evs) ++ c_buf (crun s evs) = c_got s ++ c_buf s ++ accepted (c_closed s) evs.
Proof.
  induction evs as [|e evs IH]; intros s; cbn [crun fold_left accepted].
  - now rewrite app_nil_r.
  - fold (crun (cstep s e) evs). rewrite IH, app_assoc, cstep_inv, cstep_closed.
    destruct e as [p| |n]; cbn [accepted].
    + destruct (c_closed s); rewrite <- ?app_assoc; cbn [app]; reflexivity.
    + rewrite app_nil_r, <- app_assoc. reflexivity.
    + rewrite app_nil_r, <- app_assoc. reflexivity.
Qed.

(* Read returns io.EOF only when the connection is closed and the buffer is empty *)
Definition eof_ok (s : cst) : Prop := c_pc s = PDone -> c_buf s = [] /\ c_closed s = true.

Lemma cstep_eof_ok s e : eof_ok s -> eof_ok (cstep s e).
Proof.
  unfold eof_ok. intros Q. destruct e as [p| |n]; cbn [cstep].
  - destruct (c_closed s) eqn:Ec; [intros H; split; [apply Q, H|exact Ec]|]. cbn [c_pc c_buf c_closed]. intros H.
    destruct (Q H) as [_ H2]. discriminate H2.
  - cbn [c_pc c_buf c_closed]. intros H. split; [apply Q, H|reflexivity].
  - destruct (c_pc s) eqn:Ep.
    + destruct (c_buf s) eqn:Eb; cbn [c_pc c_buf c_closed]; intros H; [|discriminate H].
      destruct (c_closed s); [auto|discriminate H].
    + destruct (c_tok s); [cbn [c_pc]; intros H; discriminate H|].
      destruct (c_closed s); [cbn [c_pc]; intros H; discriminate H|]. rewrite Ep. intros H; discriminate H.
    + rewrite Ep. exact Q.
Qed.

Lemma crun_eof_ok evs : forall s, eof_ok s -> eof_ok (crun s evs).
Proof.
  induction evs as [|e evs IH]; intros s Q; cbn [crun fold_left]; [exact Q|].
  apply IH, cstep_eof_ok, Q.
Qed.

(* for EVERY schedule: when Read returns EOF the service has read every accepted byte *)
Lemma all_delivered_before_eof evs :
  c_pc (crun cst0 evs) = PDone -> c_got (crun cst0 evs) = accepted false evs.
Proof.
  intros D. pose proof (crun_inv evs cst0) as H. cbn [cst0 c_got c_buf c_closed app] in H.
  assert (Q : eof_ok cst0) by (intros H0; discriminate H0).
  destruct (crun_eof_ok evs cst0 Q D) as [Hb _]. rewrite Hb, app_nil_r in H. exact H.
Qed.

(* no lost wake-up: whenever the reader waits while bytes are buffered, a wake-up token
   is pending (so its next step lets it through) *)
Definition wake_ok (s : cst) : Prop := c_pc s = PWait -> c_buf s <> [] -> c_tok s = true.

Lemma cstep_wake_ok s e : wake_ok s -> wake_ok (cstep s e).
Proof.
  unfold wake_ok. intros Q. destruct e as [p| |n]; cbn [cstep].
  - destruct (c_closed s); [exact Q|]. cbn [c_tok]. reflexivity.
  - cbn [c_pc c_buf c_tok]. exact Q.
  - destruct (c_pc s) eqn:Ep.
    + destruct (c_buf s) eqn:Eb; cbn [c_pc c_buf c_tok]; intros H H2; [now contradiction H2|discriminate H].
    + destruct (c_tok s) eqn:Et; [cbn [c_pc]; intros H; discriminate H|].
      destruct (c_closed s); [cbn [c_pc]; intros H; discriminate H|].
      rewrite Ep, Et. exact Q.
    + rewrite Ep. intros H; discriminate H.
Qed.

Lemma no_lost_wakeup evs : wake_ok (crun cst0 evs).
Proof.
  assert (G : forall s, wake_ok s -> wake_ok (crun s evs)).
  { induction evs as [|e evs IH]; intros s Q; cbn [crun fold_left]; [exact Q|]. apply IH, cstep_wake_ok, Q. }
  apply G. intros H; discriminate H.
Qed.

(* a waiting reader on a closed connection is let through as well *)
Lemma closed_lets_reader_through s n :
  c_pc s = PWait -> c_closed s = true -> c_pc (cstep s (EReader n)) = PIdle.
Proof. intros Hp Hc. cbn [cstep]. rewrite Hp, Hc. destruct (c_tok s); reflexivity. Qed.

(* ================================================================== *)
(* F. inside the quantifier (TCP/UDP addresses with IPs of at most 16 bytes, ports
      0..65535, payloads of at most 65000 bytes) the real wire is the identity, so a whole
      run over the real codec is the run over a faithful wire *)
Definition q_addr (a : addr) : Prop :=
  match a with
  | ATcp ip port | AUdp ip port => zlen ip <= 16 /\ 0 <= port < 65536
  | ANil => False
  end.

Definition q_msg (m : msg) : Prop :=
  match m with
  | MHello l r | MEof l r => q_addr l /\ q_addr r
  | MData l r p | MUdp l r p => q_addr l /\ q_addr r /\ zlen p <= 65000
  | MPing => True
  | MHandshake _ _ _ _ _ | MHsResp _ => False
  end.

Lemma q_vd_addr a : q_addr a -> vd_addr a /\ zlen (ser_addr a) <= 21.
Proof.
  rewrite zlen_ser_addr. destruct a as [ip port|ip port|]; cbn [q_addr vd_addr]; try contradiction;
    pose proof (zlen_nonneg ip); intros [H1 H2]; split; lia.
Qed.

Lemma q_transport m : q_msg m -> transport m = Some m.
Proof.
  intros Hq. apply codec_roundtrip.
  - destruct m; cbn [q_msg vd_msg] in *; try contradiction; try exact I;
      repeat match goal with H : _ /\ _ |- _ => destruct H end;
      split; apply q_vd_addr; assumption.
  - rewrite encode_msg_ser. destruct m; cbn [q_msg ser_msg] in *; try contradiction;
      repeat match goal with H : _ /\ _ |- _ => destruct H end;
      rewrite ?zlen_app, ?zlen_ser_data, ?zlen_nil;
      repeat match goal with H : q_addr ?a |- _ => apply q_vd_addr in H; destruct H as [_ H] end;
      try lia.
Qed.

Lemma wire_out_q f : q_msg f -> wire_out transport f = [f].
Proof. intros H. unfold wire_out. now rewrite q_transport. Qed.

Lemma flat_map_wire_q fs :
  Forall q_msg fs -> flat_map (wire_out transport) fs = flat_map (wire_out ideal_wire) fs.
Proof.
  induction 1 as [|f fs Hf _ IH]; cbn [flat_map]; [reflexivity|]. now rewrite IH, wire_out_q.
Qed.

Definition qinv (s : sess) : Prop :=
  forall c, (c < length (s_conns s))%nat -> q_addr (vc_l (conn_at s c)) /\ q_addr (vc_r (conn_at s c)).

(* the pairs captured by the datagram pseudo-connections *)
Definition q_pair (pr : addr * addr) : Prop := q_addr (fst pr) /\ q_addr (snd pr).
Definition qudp (s : sess) : Prop := Forall q_pair (s_udp s).

Lemma qinv_conns s s' : s_conns s' = s_conns s -> qinv s -> qinv s'.
Proof. intros E Q c Hc. unfold conn_at. rewrite E in *. apply Q, Hc. Qed.

Lemma qinv_upd s i v reg al nu :
  qinv s -> vc_l v = vc_l (conn_at s i) -> vc_r v = vc_r (conn_at s i) ->
  qinv (mkSess (upd (s_conns s) i v) reg al nu).
Proof.
  intros Q Hl Hr c Hc. cbn [s_conns] in Hc. rewrite upd_length in Hc.
  rewrite conn_at_mk, nth_upd.
  destruct (Nat.eqb i c && Nat.ltb c (length (s_conns s))) eqn:E; [|apply Q, Hc].
  apply andb_true_iff in E. destruct E as [E _]. apply Nat.eqb_eq in E. subst i.
  rewrite Hl, Hr. apply Q, Hc.
Qed.

Lemma qinv_teardown s : qinv s -> qinv (teardown s).
Proof.
  intros Q c Hc. rewrite teardown_length in Hc. rewrite teardown_conn.
  destruct (existsb (Nat.eqb c) (s_reg s)); [cbn [close_vc vc_l vc_r]|]; apply Q, Hc.
Qed.

Lemma qinv_vc_read s c n : qinv s -> qinv (fst (vc_read s c n)).
Proof.
  intros Q. unfold vc_read. destruct (vc_buf (conn_at s c)); cbn [fst]; [exact Q|].
  apply qinv_upd; [exact Q|reflexivity|reflexivity].
Qed.

Lemma serv_msg_q s m :
  qinv s -> q_msg m ->
  let '(s', _, fs, _) := serv_msg s m in qinv s' /\ Forall q_msg fs.
Proof.
  intros Q Hm. unfold serv_msg. destruct (negb (s_alive s)); [split; [exact Q|constructor]|].
  destruct m as [l r|l r p|? ? ? ? ?|?|l r| |l r p]; cbn [q_msg] in Hm; try contradiction.
  - split; [|constructor]. intros c Hc. cbn [s_conns] in Hc. rewrite app_length in Hc. cbn [length] in Hc.
    rewrite conn_at_mk. destruct (Nat.eq_dec c (length (s_conns s))) as [->|Hne].
    + rewrite app_nth2, Nat.sub_diag by lia. cbn [nth vc_l vc_r]. tauto.
    + rewrite app_nth1 by lia. apply Q. lia.
  - destruct (get_conn (s_conns s) (s_reg s) l r) as [i| |].
    + destruct (vc_closed (conn_at s i)); (split; [|constructor]); [exact Q|].
      apply qinv_upd; [exact Q|reflexivity|reflexivity].
    + split; [exact Q|constructor].
    + split; [apply qinv_teardown, Q|constructor].
  - destruct (get_conn (s_conns s) (s_reg s) l r) as [i| |].
    + split; [apply qinv_upd; [exact Q|reflexivity|reflexivity]|].
      destruct (vc_closed (conn_at s i)) eqn:Ec; [constructor|].
      constructor; [|constructor]. cbn [q_msg]. apply Q, closed_in_range, Ec.
    + split; [exact Q|constructor].
    + split; [apply qinv_teardown, Q|constructor].
  - split; [exact Q|constructor].
  - destruct (is_udp l && is_udp r); (split; [|constructor]); [|apply qinv_teardown, Q].
    eapply qinv_conns; [|exact Q]. reflexivity.
Qed.

Lemma serv_msg_qudp s m : qudp s -> q_msg m -> qudp (fst (fst (fst (serv_msg s m)))).
Proof.
  intros U Hm. unfold qudp. rewrite serv_msg_udp. apply Forall_app. split; [exact U|].
  unfold udp_new. destruct m; try constructor.
  destruct (s_alive s && (is_udp l && is_udp r)); constructor; [|constructor].
  cbn [q_msg] in Hm. unfold q_pair; cbn [fst snd]. tauto.
Qed.

Lemma recv_msg_q s m :
  qinv s -> qudp s -> q_msg m ->
  recv_msg transport s m = recv_msg ideal_wire s m /\
  let '(s', _, fs, _) := recv_msg ideal_wire s m in
    qinv s' /\ qudp s' /\ flat_map (wire_out transport) fs = flat_map (wire_out ideal_wire) fs.
Proof.
  intros Q U Hm. unfold recv_msg, ideal_wire. rewrite (q_transport m Hm). split; [reflexivity|].
  pose proof (serv_msg_q s m Q Hm) as H. pose proof (serv_msg_qudp s m U Hm) as HU.
  destruct (serv_msg s m) as [[[s' r] fs] sg]. cbn [fst] in HU.
  destruct H as [H1 H2]. split; [exact H1|]. split; [exact HU|apply flat_map_wire_q, H2].
Qed.

Lemma qudp_vc_read s c n : qudp s -> qudp (fst (vc_read s c n)).
Proof. unfold qudp. now rewrite vc_read_udp. Qed.

Definition q_act (s : sess) (a : act) : Prop :=
  match a with
  | ASend m | APark _ _ m => q_msg m
  | AWrite c p _ => (c < length (s_conns s))%nat /\ zlen p <= 65000
  | AUdpR _ p _ => zlen p <= 65000
  | ARead _ _ | AClose _ | ADisc => True
  end.

Lemma step_q s a :
  qinv s -> qudp s -> q_act s a ->
  step transport s a = step ideal_wire s a /\
  qinv (fst (fst (step ideal_wire s a))) /\ qudp (fst (fst (step ideal_wire s a))).
Proof.
  intros Q U Ha. destruct a as [m|c n|c n m|c p q0|c|iu p q0|]; cbn [step q_act] in *.
  - destruct (recv_msg_q s m Q U Ha) as [E H]. rewrite E.
    destruct (recv_msg ideal_wire s m) as [[[s' r] fs] sg]. destruct H as (H1 & HU & H2). rewrite H2.
    split; [reflexivity|]. split; [exact H1|exact HU].
  - pose proof (qinv_vc_read s c n Q) as H. pose proof (qudp_vc_read s c n U) as HU.
    destruct (vc_read s c n) as [s' r]. split; [reflexivity|]. split; [exact H|exact HU].
  - assert (Himm : (let '(s1, r) := vc_read s c n in
                    let '(s', _, fs, _) := recv_msg transport s1 m in (s', r, flat_map (wire_out transport) fs)) =
                   (let '(s1, r) := vc_read s c n in
                    let '(s', _, fs, _) := recv_msg ideal_wire s1 m in (s', r, flat_map (wire_out ideal_wire) fs)) /\
                   qinv (fst (fst (let '(s1, r) := vc_read s c n in
                    let '(s', _, fs, _) := recv_msg ideal_wire s1 m in (s', r, flat_map (wire_out ideal_wire) fs)))) /\
                   qudp (fst (fst (let '(s1, r) := vc_read s c n in
                    let '(s', _, fs, _) := recv_msg ideal_wire s1 m in (s', r, flat_map (wire_out ideal_wire) fs))))).
    { pose proof (qinv_vc_read s c n Q) as Q1. pose proof (qudp_vc_read s c n U) as U1.
      destruct (vc_read s c n) as [s1 r1]. cbn [fst] in Q1, U1.
      destruct (recv_msg_q s1 m Q1 U1 Ha) as [E H]. rewrite E.
      destruct (recv_msg ideal_wire s1 m) as [[[s' r] fs] sg]. destruct H as (H1 & HU & H2). rewrite H2.
      split; [reflexivity|]. split; [exact H1|exact HU]. }
    destruct (vc_buf (conn_at s c)) as [|b0 bs].
    + destruct (vc_closed (conn_at s c)); [exact Himm|]. clear Himm.
      destruct (recv_msg_q s m Q U Ha) as [E H]. rewrite E.
      destruct (recv_msg ideal_wire s m) as [[[s1 r1] fs] sg]. destruct H as (H1 & HU & H2). rewrite H2.
      pose proof (qinv_vc_read s1 c n H1) as H3. pose proof (qudp_vc_read s1 c n HU) as HU3.
      destruct (vc_read s1 c n) as [s' r].
      split; [reflexivity|]. split; [exact H3|exact HU3].
    + destruct (vc_closed (conn_at s c)); exact Himm.
  - destruct Ha as [Hc Hp]. destruct (s_alive s); [|split; [reflexivity|split; [exact Q|exact U]]].
    split; [|split; [exact Q|exact U]]. rewrite wire_out_q; [reflexivity|]. cbn [q_msg].
    destruct (Q c Hc) as [H1 H2]. tauto.
  - destruct (vc_closed (conn_at s c)) eqn:Ec; [split; [reflexivity|split; [exact Q|exact U]]|].
    split; [|split; [apply qinv_upd; [exact Q|reflexivity|reflexivity]|exact U]].
    destruct (s_alive s); [|reflexivity]. rewrite wire_out_q; [reflexivity|].
    cbn [q_msg]. apply Q, closed_in_range, Ec.
  - destruct (nth_error (s_udp s) iu) as [[l r]|] eqn:En; [|split; [reflexivity|split; [exact Q|exact U]]].
    destruct (s_alive s); [|split; [reflexivity|split; [exact Q|exact U]]].
    split; [|split; [exact Q|exact U]]. rewrite wire_out_q; [reflexivity|]. cbn [q_msg].
    apply nth_error_In in En. unfold qudp in U. rewrite Forall_forall in U.
    destruct (U _ En) as [H1 H2]. cbn [fst snd] in H1, H2. tauto.
  - split; [reflexivity|]. cbn [fst]. destruct (s_alive s); [|split; [exact Q|exact U]].
    split; [apply qinv_teardown, Q|exact U].
Qed.

Fixpoint q_run (s : sess) (acts : list act) : Prop :=
  match acts with
  | [] => True
  | a :: rest => q_act s a /\ q_run (fst (fst (step ideal_wire s a))) rest
  end.

Lemma run_q acts : forall s, qinv s -> qudp s -> q_run s acts -> run transport s acts = run ideal_wire s acts.
Proof.
  induction acts as [|a acts IH]; intros s Q U H; [reflexivity|]. destruct H as [Ha Hr]. cbn [run].
  destruct (step_q s a Q U Ha) as (E & Q1 & U1). rewrite E.
  destruct (step ideal_wire s a) as [[s1 r] fs]. cbn [fst] in *. rewrite (IH s1 Q1 U1 Hr). reflexivity.
Qed.

Lemma qinv0 : qinv sess0.
Proof. intros c Hc. cbn in Hc. lia. Qed.

Lemma qudp0 : qudp sess0.
Proof. constructor. Qed.

(* ================================================================== *)
(* G. buffer ownership on the outgoing path: what the agent receives is what the buffer
      held when Write was called, whatever the service does with the buffer afterwards and
      whenever the sender goroutine gets to marshal the message *)
Definition is_val (x : bool * addr * addr * pay) : Prop := exists b, snd x = PVal b.

Lemma oframe_val h h' x : is_val x -> oframe h x = oframe h' x.
Proof. destruct x as [[[u l] r] p]. intros [b Hb]. cbn [snd] in Hb. subst p. reflexivity. Qed.

Definition ostep_new (s : ost) (e : oev) : list msg :=
  match e with
  | OWrite l r i => [MData l r (nth i (o_heap s) [])]
  | OUdpW l r i => [MUdp l r (nth i (o_heap s) [])]
  | _ => []
  end.

Lemma ostep_inv s e h' :
  Forall is_val (o_q s) ->
  o_sent (ostep s e) ++ map (oframe h') (o_q (ostep s e)) =
    (o_sent s ++ map (oframe h') (o_q s)) ++ ostep_new s e /\
  Forall is_val (o_q (ostep s e)) /\
  o_heap (ostep s e) = match e with OFill i q => upd (o_heap s) i q | _ => o_heap s end.
Proof.
  intros V. destruct e as [l r i|l r i|i q|]; cbn [ostep ostep_new o_sent o_q o_heap].
  - rewrite map_app, app_assoc. cbn [map oframe capture resolve]. repeat split.
    apply Forall_app; split; [exact V|]. constructor; [eexists; reflexivity|constructor].
  - rewrite map_app, app_assoc. cbn [map oframe capture resolve]. repeat split.
    apply Forall_app; split; [exact V|]. constructor; [eexists; reflexivity|constructor].
  - rewrite app_nil_r. repeat split. exact V.
  - rewrite app_nil_r. destruct s as [hp qq sent]. cbn [o_sent o_q o_heap] in *.
    destruct qq as [|x rest]; cbn [o_sent o_q o_heap].
    + repeat split. constructor.
    + inversion V as [|? ? Hx Hr]; subst. cbn [map]. rewrite <- app_assoc. cbn [app].
      rewrite (oframe_val hp h' x Hx). repeat split. exact Hr.
Qed.

Lemma orun_inv evs : forall s h',
  Forall is_val (o_q s) ->
  o_sent (orun s evs) ++ map (oframe h') (o_q (orun s evs)) =
    (o_sent s ++ map (oframe h') (o_q s)) ++ written (o_heap s) evs /\
  Forall is_val (o_q (orun s evs)).
Proof.
  induction evs as [|e evs IH]; intros s h' V; cbn [orun fold_left written].
  - rewrite app_nil_r. split; [reflexivity|exact V].
  - fold (orun (ostep s e) evs). destruct (ostep_inv s e h' V) as (E1 & V1 & Hh).
    destruct (IH (ostep s e) h' V1) as (E2 & V2). split; [|exact V2].
    rewrite E2, E1, Hh, <- app_assoc. f_equal.
    destruct e; cbn [ostep_new written app]; reflexivity.
Qed.

(* from an empty queue, for every schedule of writes, refills and sender steps: the frames
   sent so far followed by the frames still queued are exactly the written frames, and once
   the queue is drained the agent has received exactly those *)
Lemma sent_is_written heap evs h' :
  let s := orun (mkO heap [] []) evs in
  o_sent s ++ map (oframe h') (o_q s) = written heap evs.
Proof. destruct (orun_inv evs (mkO heap [] []) h' (Forall_nil _)) as [E _]. exact E. Qed.

Lemma drained_is_written heap evs :
  o_q (orun (mkO heap [] []) evs) = [] -> o_sent (orun (mkO heap [] []) evs) = written heap evs.
Proof.
  intros Hq. pose proof (sent_is_written heap evs []) as H. cbn zeta in H.
  rewrite Hq in H. cbn [map] in H. now rewrite app_nil_r in H.
Qed.

(* ================================================================== *)
(* G. the identity of a connection is the PAIR of its addresses: lookup is exact on every
   set of pairwise distinct pairs; a derived key must be injective on pairs *)

Lemma key_eqb_eq (a b : bytes * Z) : key_eqb a b = true <-> a = b.
Proof.
  destruct a as [ia pa], b as [ib pb]. unfold key_eqb; cbn [fst snd]. split.
  - intros H. apply andb_true_iff in H. destruct H as [H1 H2].
    apply eqb_bytes_true in H1. apply Z.eqb_eq in H2. congruence.
  - intros H. inversion H; subst. apply andb_true_iff. split; [apply eqb_bytes_true; reflexivity|apply Z.eqb_refl].
Qed.

Lemma pkey_eqb_eq (a b : pkey) : pkey_eqb a b = true <-> a = b.
Proof.
  destruct a as [a1 a2], b as [b1 b2]. unfold pkey_eqb; cbn [fst snd]. split.
  - intros H. apply andb_true_iff in H. destruct H as [H1 H2].
    apply key_eqb_eq in H1. apply key_eqb_eq in H2. congruence.
  - intros H. inversion H; subst. apply andb_true_iff. split; apply key_eqb_eq; reflexivity.
Qed.

(* the pair a registered connection was announced with *)
Definition ckey (cs : list vconn) (j : nat) : option pkey :=
  pair_key (vc_l (nth j cs dummy_vc)) (vc_r (nth j cs dummy_vc)).

Definition keyed_reg (cs : list vconn) (reg : list nat) : Prop := Forall (fun j => ckey cs j <> None) reg.

(* one step of Connections.Get, in terms of pairs *)
Lemma get_conn_step cs j reg l r k kc :
  ckey cs j = Some kc -> pair_key l r = Some k ->
  get_conn cs (j :: reg) l r = if pkey_eqb kc k then GFound j else get_conn cs reg l r.
Proof.
  unfold ckey, pair_key. cbn [get_conn]. unfold addr_cmp.
  destruct (addr_key (vc_l (nth j cs dummy_vc))) as [a|]; [|discriminate].
  destruct (addr_key (vc_r (nth j cs dummy_vc))) as [b|]; [|discriminate].
  destruct (addr_key l) as [x|]; [|discriminate].
  destruct (addr_key r) as [y|]; [|discriminate].
  intros H1 H2; inversion H1; inversion H2; subst kc k.
  unfold pkey_eqb; cbn [fst snd].
  destruct (key_eqb a x); cbn [andb]; [|reflexivity].
  destruct (key_eqb b y); reflexivity.
Qed.

Lemma get_conn_exact cs reg : forall l r i,
  keyed_reg cs reg -> NoDup (map (ckey cs) reg) -> In i reg ->
  pair_key l r = ckey cs i -> get_conn cs reg l r = GFound i.
Proof.
  induction reg as [|j reg IH]; intros l r i Hk Hn Hi He; [contradiction Hi|].
  inversion Hk as [|? ? Hj Hk']; subst. cbn [map] in Hn. inversion Hn as [|? ? Hnot Hn']; subst.
  assert (Hki : ckey cs i <> None).
  { unfold keyed_reg in Hk. rewrite Forall_forall in Hk. apply Hk, Hi. }
  destruct (ckey cs j) as [kc|] eqn:Ej; [|now contradiction Hj].
  destruct (pair_key l r) as [k|] eqn:Ek; [|now rewrite <- He in Hki; contradiction Hki].
  rewrite (get_conn_step cs j reg l r k kc Ej Ek).
  destruct (pkey_eqb kc k) eqn:Eq.
  - apply pkey_eqb_eq in Eq. subst kc. destruct Hi as [->|Hi]; [reflexivity|].
    exfalso. apply Hnot. rewrite He. apply in_map, Hi.
  - destruct Hi as [->|Hi].
    + rewrite Ej in He. inversion He; subst. 
      assert (pkey_eqb kc kc = true) by (apply pkey_eqb_eq; reflexivity). congruence.
    + apply IH; auto. rewrite Ek. exact He.
Qed.

Lemma get_conn_absent cs reg : forall l r,
  keyed_reg cs reg -> pair_key l r <> None -> ~ In (pair_key l r) (map (ckey cs) reg) ->
  get_conn cs reg l r = GNone.
Proof.
  induction reg as [|j reg IH]; intros l r Hk Hp Hn; [reflexivity|].
  inversion Hk as [|? ? Hj Hk']; subst.
  destruct (ckey cs j) as [kc|] eqn:Ej; [|now contradiction Hj].
  destruct (pair_key l r) as [k|] eqn:Ek; [|now contradiction Hp].
  rewrite (get_conn_step cs j reg l r k kc Ej Ek).
  destruct (pkey_eqb kc k) eqn:Eq.
  - apply pkey_eqb_eq in Eq. subst kc. exfalso. apply Hn. cbn [map]. left. exact Ej.
  - apply IH; auto.
    + rewrite Ek. discriminate.
    + rewrite Ek. intros Hin. apply Hn. cbn [map]. right. exact Hin.
Qed.

(* a derived key that is injective on pairs finds what Connections.Get finds - in every state *)
Lemma get_by_injective K keq kf cs reg :
  (forall l r l' r', pair_key l r <> None -> pair_key l' r' <> None ->
     (keq (kf l r) (kf l' r') = true <-> pair_key l r = pair_key l' r')) ->
  forall l r, keyed_reg cs reg -> pair_key l r <> None ->
  get_conn cs reg l r = match get_by K keq kf cs reg l r with Some i => GFound i | None => GNone end.
Proof.
  intros Hinj l r. induction reg as [|j reg IH]; intros Hk Hp; [reflexivity|].
  inversion Hk as [|? ? Hj Hk']; subst.
  destruct (ckey cs j) as [kc|] eqn:Ej; [|now contradiction Hj].
  destruct (pair_key l r) as [k|] eqn:Ek; [|now contradiction Hp].
  rewrite (get_conn_step cs j reg l r k kc Ej Ek). cbn [get_by].
  assert (Hiff := Hinj (vc_l (nth j cs dummy_vc)) (vc_r (nth j cs dummy_vc)) l r).
  unfold ckey in Ej. rewrite Ej, Ek in Hiff.
  specialize (Hiff ltac:(discriminate) ltac:(discriminate)).
  destruct (pkey_eqb kc k) eqn:Eq.
  - apply pkey_eqb_eq in Eq. subst kc.
    replace (keq _ _) with true; [reflexivity|]. symmetry. apply Hiff. reflexivity.
  - destruct (keq _ _) eqn:Eq2.
    + exfalso. assert (Some kc = Some k) as Hs by (apply Hiff; reflexivity). inversion Hs; subst.
      assert (pkey_eqb k k = true) by (apply pkey_eqb_eq; reflexivity). congruence.
    + apply IH; [exact Hk'|discriminate].
Qed.

(* ---- the state after the agent has announced a list of pairs ---- *)
Definition vc_of (p : addr * addr) : vconn := mkVc (fst p) (snd p) [] false.
Definition pkeys (ps : list (addr * addr)) : list (option pkey) := map (fun p => pair_key (fst p) (snd p)) ps.
Definition keyed_pairs (ps : list (addr * addr)) : Prop := Forall (fun p => pair_key (fst p) (snd p) <> None) ps.

Lemma hello_step_shape s p :
  s_alive s = true ->
  hello_step s p = mkSess (s_conns s ++ [vc_of p]) (s_reg s ++ [length (s_conns s)]) true (s_udp s).
Proof. intros Ha. unfold hello_step, serv_msg. rewrite Ha. reflexivity. Qed.

Lemma announce_from ps : forall s,
  s_alive s = true ->
  fold_left hello_step ps s =
    mkSess (s_conns s ++ map vc_of ps) (s_reg s ++ seq (length (s_conns s)) (length ps)) true (s_udp s).
Proof.
  induction ps as [|p ps IH]; intros s Ha; cbn [fold_left map length seq].
  - rewrite !app_nil_r. destruct s; cbn in *; subst; reflexivity.
  - rewrite hello_step_shape by exact Ha. rewrite IH by reflexivity. cbn [s_conns s_reg s_udp].
    rewrite app_length. cbn [length]. rewrite <- !app_assoc. cbn [app].
    replace (length (s_conns s) + 1)%nat with (S (length (s_conns s))) by lia. reflexivity.
Qed.

Lemma announce_shape ps : announce ps = mkSess (map vc_of ps) (seq 0 (length ps)) true [].
Proof. unfold announce. rewrite announce_from by reflexivity. reflexivity. Qed.

Lemma map_nth_seq {A B} (f : A -> B) (d : A) (l : list A) :
  map (fun j => f (nth j l d)) (seq 0 (length l)) = map f l.
Proof.
  induction l as [|x l IH]; [reflexivity|].
  cbn [length seq map nth]. f_equal. rewrite <- seq_shift, map_map. exact IH.
Qed.

Lemma announce_ckeys ps : map (ckey (map vc_of ps)) (seq 0 (length ps)) = pkeys ps.
Proof.
  unfold ckey, pkeys.
  rewrite <- (map_length vc_of ps).
  rewrite (map_nth_seq (fun c => pair_key (vc_l c) (vc_r c)) dummy_vc (map vc_of ps)).
  rewrite map_map. reflexivity.
Qed.

Lemma announce_keyed ps : keyed_pairs ps -> keyed_reg (map vc_of ps) (seq 0 (length ps)).
Proof.
  intros H. unfold keyed_reg. rewrite Forall_forall. intros j Hj.
  apply in_seq in Hj. cbn in Hj.
  assert (In (ckey (map vc_of ps) j) (pkeys ps)) as Hin.
  { rewrite <- announce_ckeys. apply in_map. apply in_seq. cbn. lia. }
  unfold pkeys in Hin. apply in_map_iff in Hin. destruct Hin as (p & Hp & Hin).
  unfold keyed_pairs in H. rewrite Forall_forall in H. rewrite <- Hp. apply H, Hin.
Qed.

Lemma announce_ckey_nth ps i l r :
  nth_error ps i = Some (l, r) -> ckey (map vc_of ps) i = pair_key l r.
Proof.
  intros H. unfold ckey.
  assert (nth i (map vc_of ps) dummy_vc = vc_of (l, r)) as ->; [|reflexivity].
  apply nth_error_nth. rewrite nth_error_map, H. reflexivity.
Qed.

(* for EVERY list of pairwise distinct pairs: once they are announced, a frame naming
   pair number i (in any representation with the same [pair_key]) is looked up as
   connection i - the one surfaced for that announcement - and no other *)
Lemma distinct_pairs_lookup ps i l r l' r' :
  keyed_pairs ps -> NoDup (pkeys ps) -> nth_error ps i = Some (l, r) ->
  pair_key l' r' = pair_key l r ->
  get_conn (s_conns (announce ps)) (s_reg (announce ps)) l' r' = GFound i.
Proof.
  intros Hk Hn Hi He. rewrite announce_shape. cbn [s_conns s_reg].
  apply get_conn_exact.
  - apply announce_keyed, Hk.
  - rewrite announce_ckeys. exact Hn.
  - apply in_seq. cbn. split; [lia|]. apply nth_error_Some. rewrite Hi. discriminate.
  - rewrite (announce_ckey_nth ps i l r Hi). exact He.
Qed.

Lemma distinct_pairs_unknown ps l r :
  keyed_pairs ps -> pair_key l r <> None -> ~ In (pair_key l r) (pkeys ps) ->
  get_conn (s_conns (announce ps)) (s_reg (announce ps)) l r = GNone.
Proof.
  intros Hk Hp Hn. rewrite announce_shape. cbn [s_conns s_reg].
  apply get_conn_absent; [apply announce_keyed, Hk|exact Hp|]. rewrite announce_ckeys. exact Hn.
Qed.

Lemma announce_conn_at ps i l r :
  nth_error ps i = Some (l, r) -> conn_at (announce ps) i = mkVc l r [] false.
Proof.
  intros H. rewrite announce_shape. unfold conn_at; cbn [s_conns].
  change (mkVc l r [] false) with (vc_of (l, r)).
  apply nth_error_nth. rewrite nth_error_map, H. reflexivity.
Qed.

(* ... hence its data reaches exactly connection i and its eof ends exactly connection i *)
Lemma distinct_pairs_data_eof ps i l r p :
  keyed_pairs ps -> NoDup (pkeys ps) -> nth_error ps i = Some (l, r) ->
  let s := announce ps in
  (exists s', serv_msg s (MData l r p) = (s', RNone, [], Some i) /\
     conn_at s' i = mkVc l r p false /\ (forall c, c <> i -> conn_at s' c = conn_at s c)) /\
  (exists s', serv_msg s (MEof l r) = (s', RNone, [MEof l r], None) /\
     conn_at s' i = mkVc l r [] true /\ (forall c, c <> i -> conn_at s' c = conn_at s c) /\
     s_reg s' = remove_first i (s_reg s)).
Proof.
  intros Hk Hn Hi s.
  pose proof (distinct_pairs_lookup ps i l r l r Hk Hn Hi eq_refl) as Hg. fold s in Hg.
  pose proof (announce_conn_at ps i l r Hi) as Hc. fold s in Hc.
  assert (Ha : s_alive s = true) by (unfold s; rewrite announce_shape; reflexivity).
  assert (Hr : (i < length (s_conns s))%nat).
  { apply closed_in_range. rewrite Hc. reflexivity. }
  split.
  - assert (routed s (MData l r p) = Some (i, p)) as Hrt.
    { unfold routed. rewrite Ha, Hg, Hc. reflexivity. }
    destruct (data_routed s l r p i Hrt) as (s' & E1 & E2 & E3 & _).
    exists s'. rewrite Hc in E2. cbn [vc_l vc_r vc_buf app] in E2. auto.
  - destruct (eof_closes_exactly s l r i Ha Hg) as (s' & E1 & E2 & E3 & E4 & _).
    exists s'. rewrite Hc in E1. cbn [vc_closed vc_l vc_r] in E1.
    specialize (E3 Hr). rewrite Hc in E3. auto.
Qed.

(* ANY derived key that gives two different pairs the same key misroutes: announce the
   two pairs, address the second - Connections.Get finds connection 1, the keyed lookup
   finds connection 0 *)
Lemma collapsing_key_misroutes K keq kf l1 r1 l2 r2 :
  pair_key l1 r1 <> None -> pair_key l2 r2 <> None -> pair_key l1 r1 <> pair_key l2 r2 ->
  keq (kf l1 r1) (kf l2 r2) = true ->
  let s := announce [(l1, r1); (l2, r2)] in
  get_conn (s_conns s) (s_reg s) l2 r2 = GFound 1%nat /\
  get_by K keq kf (s_conns s) (s_reg s) l2 r2 = Some 0%nat.
Proof.
  intros H1 H2 Hd Hc s. split.
  - apply (distinct_pairs_lookup [(l1, r1); (l2, r2)] 1 l2 r2 l2 r2); try reflexivity.
    + repeat constructor; assumption.
    + unfold pkeys; cbn [map fst snd]. constructor; [|constructor; [intros []|constructor]].
      intros [H|[]]. apply Hd. symmetry. exact H.
  - unfold s. rewrite announce_shape. cbn [s_conns s_reg length seq map get_by nth vc_of vc_l vc_r fst snd].
    rewrite Hc. reflexivity.
Qed.

(* the two address texts glued together without a separator give two different pairs the
   same text: one sensor address with a service on 222 and on 2222, two visitors with
   the same source port *)
Definition cw_l1 : addr := ATcp [10;0;0;5]%N 222.
Definition cw_r1 : addr := ATcp [210;1;1;1]%N 40000.
Definition cw_l2 : addr := ATcp [10;0;0;5]%N 2222.
Definition cw_r2 : addr := ATcp [10;1;1;1]%N 40000.

Lemma concat_key_collides :
  pair_key cw_l1 cw_r1 <> None /\ pair_key cw_l2 cw_r2 <> None /\
  pair_key cw_l1 cw_r1 <> pair_key cw_l2 cw_r2 /\
  concat_key cw_l1 cw_r1 = concat_key cw_l2 cw_r2 /\
  (* "10.0.0.5:222210.1.1.1:40000" *)
  concat_key cw_l1 cw_r1 =
    [49;48;46;48;46;48;46;53;58;50;50;50;50;49;48;46;49;46;49;46;49;58;52;48;48;48;48]%N.
Proof. vm_compute. repeat split; discriminate. Qed.

(* ================================================================== *)
(* H. relayed datagrams: each is its own flow *)

Lemma run_app wire a : forall s b,
  run wire s (a ++ b) =
  let '(s1, rs1, fs1) := run wire s a in
  let '(s2, rs2, fs2) := run wire s1 b in (s2, rs1 ++ rs2, fs1 ++ fs2).
Proof.
  induction a as [|x a IH]; intros s b; cbn [app run].
  - destruct (run wire s b) as [[s2 rs2] fs2]. reflexivity.
  - destruct (step wire s x) as [[s1 r] fs]. rewrite IH.
    destruct (run wire s1 a) as [[s1' rs1] fs1]. destruct (run wire s1' b) as [[s2 rs2] fs2].
    cbn [app]. rewrite app_assoc. reflexivity.
Qed.

(* an answer on datagram i: one frame with the pair captured for datagram i; no state changes *)
Lemma answer_tagged s i l r p q :
  s_alive s = true -> nth_error (s_udp s) i = Some (l, r) ->
  step ideal_wire s (AUdpR i p q) = (s, RNone, [MUdp l r p]).
Proof. intros Ha Hn. cbn [step]. rewrite Hn, Ha. reflexivity. Qed.

Lemma answer_no_state wire s i p q : fst (fst (step wire s (AUdpR i p q))) = s.
Proof. cbn [step]. destruct (nth_error (s_udp s) i) as [[l r]|]; [destruct (s_alive s)|]; reflexivity. Qed.

(* relaying a datagram: the services get exactly it; only the list of datagram flows grows *)
Lemma relay_one s d :
  s_alive s = true -> dg_udp d = true ->
  step ideal_wire s (ASend (dg_msg d)) =
    (set_udp s (s_udp s ++ [dg_pair d]), RUdpAcc (fst (fst d)) (snd (fst d)) (snd d), []).
Proof.
  intros Ha Hd. destruct d as [[l r] p]. unfold dg_udp, dg_msg, dg_pair in *. cbn [fst snd] in *.
  cbn [step recv_msg ideal_wire]. unfold serv_msg. rewrite Ha, Hd. cbn [negb flat_map]. unfold set_udp. rewrite Ha. reflexivity.
Qed.

Lemma relay_run ds : forall s,
  s_alive s = true -> forallb dg_udp ds = true ->
  run ideal_wire s (relay_acts ds) = (set_udp s (s_udp s ++ map dg_pair ds), relay_res ds, []).
Proof.
  induction ds as [|d ds IH]; intros s Ha Hd; cbn [relay_acts relay_res map run].
  - rewrite app_nil_r. destruct s; cbn in *; reflexivity.
  - cbn [forallb] in Hd. apply andb_true_iff in Hd. destruct Hd as [Hd Hds].
    rewrite relay_one by assumption. fold (relay_acts ds).
    rewrite IH by (try exact Hds; exact Ha). fold (relay_res ds).
    unfold set_udp; cbn [s_conns s_reg s_alive s_udp app]. rewrite <- app_assoc. reflexivity.
Qed.

(* ALL schedules: induction over the schedule *)
Lemma answers_run sch : forall s,
  s_alive s = true ->
  run ideal_wire s (answer_acts sch) = (s, map (fun _ => RNone) sch, answer_frames (s_udp s) sch).
Proof.
  induction sch as [|x sch IH]; intros s Ha; cbn [answer_acts map run answer_frames flat_map]; [reflexivity|].
  fold (answer_acts sch). fold (answer_frames (s_udp s) sch).
  destruct x as [[i p] q]. cbn [fst snd]. cbn [step].
  destruct (nth_error (s_udp s) i) as [[l r]|]; rewrite ?Ha, IH by exact Ha; reflexivity.
Qed.

Lemma udp_replies_keep_their_pair ds sch s :
  s_alive s = true -> forallb dg_udp ds = true ->
  run ideal_wire s (relay_acts ds ++ answer_acts sch) =
    (set_udp s (s_udp s ++ map dg_pair ds),
     relay_res ds ++ map (fun _ => RNone) sch,
     answer_frames (s_udp s ++ map dg_pair ds) sch).
Proof.
  intros Ha Hd. rewrite run_app, relay_run by assumption.
  rewrite answers_run by exact Ha. reflexivity.
Qed.

(* ---- whatever arrives in between: the pair of a datagram flow never changes ---- *)
Section AnyWire.
Variable wire : msg -> option msg.

Definition new_of (s : sess) (m : msg) : list (addr * addr) :=
  match wire m with Some m' => udp_new s m' | None => [] end.

Definition step_new (s : sess) (a : act) : list (addr * addr) :=
  match a with
  | ASend m => new_of s m
  | APark _ _ m => new_of s m
  | _ => []
  end.

Lemma recv_msg_udp s m : s_udp (fst (fst (fst (recv_msg wire s m)))) = s_udp s ++ new_of s m.
Proof.
  unfold recv_msg, new_of. destruct (wire m) as [m'|]; [apply serv_msg_udp|].
  destruct (s_alive s); cbn [fst]; rewrite ?teardown_udp, app_nil_r; reflexivity.
Qed.

Lemma udp_new_alive s s' m : s_alive s' = s_alive s -> udp_new s' m = udp_new s m.
Proof. intros E. unfold udp_new. rewrite E. reflexivity. Qed.

Lemma step_udp s a : s_udp (fst (fst (step wire s a))) = s_udp s ++ step_new s a.
Proof.
  destruct a as [m|c n|c n m|c p q|c|i p q|]; cbn [step step_new].
  - pose proof (recv_msg_udp s m) as H. destruct (recv_msg wire s m) as [[[s' r] fs] k]. exact H.
  - pose proof (vc_read_udp s c n) as H. destruct (vc_read s c n) as [s' r]. rewrite app_nil_r. exact H.
  - assert (Himm : s_udp (fst (fst (let '(s1, r) := vc_read s c n in
                      let '(s', _, fs, _) := recv_msg wire s1 m in (s', r, flat_map (wire_out wire) fs)))) =
                   s_udp s ++ new_of s m).
    { pose proof (vc_read_udp s c n) as H1. pose proof (vc_read_alive s c n) as H2.
      destruct (vc_read s c n) as [s1 r1]. cbn [fst] in H1, H2.
      pose proof (recv_msg_udp s1 m) as H3. destruct (recv_msg wire s1 m) as [[[s' r] fs] k].
      cbn [fst] in *. rewrite H3, H1. unfold new_of. destruct (wire m); [|reflexivity].
      now rewrite (udp_new_alive s s1). }
    destruct (vc_buf (conn_at s c)) as [|b0 bs].
    + destruct (vc_closed (conn_at s c)); [exact Himm|]. clear Himm.
      pose proof (recv_msg_udp s m) as H. destruct (recv_msg wire s m) as [[[s1 r1] fs] k]. cbn [fst] in H.
      pose proof (vc_read_udp s1 c n) as H2. destruct (vc_read s1 c n) as [s' r]. cbn [fst] in *. now rewrite H2.
    + destruct (vc_closed (conn_at s c)); exact Himm.
  - rewrite app_nil_r. destruct (s_alive s); reflexivity.
  - rewrite app_nil_r. destruct (vc_closed (conn_at s c)); reflexivity.
  - rewrite app_nil_r. apply (f_equal s_udp (answer_no_state wire s i p q)).
  - rewrite app_nil_r. cbn [fst]. destruct (s_alive s); reflexivity.
Qed.

Lemma run_step s a acts :
  fst (fst (run wire s (a :: acts))) = fst (fst (run wire (fst (fst (step wire s a))) acts)).
Proof.
  cbn [run]. destruct (step wire s a) as [[s1 r] fs]. cbn [fst]. destruct (run wire s1 acts) as [[s2 rs] fs2]. reflexivity.
Qed.

Lemma pair_survives acts : forall s i pr,
  nth_error (s_udp s) i = Some pr ->
  nth_error (s_udp (fst (fst (run wire s acts)))) i = Some pr.
Proof.
  induction acts as [|a acts IH]; intros s i pr H; [exact H|].
  rewrite run_step. apply IH. rewrite step_udp.
  rewrite nth_error_app1; [exact H|]. apply nth_error_Some. congruence.
Qed.
End AnyWire.

(* ---- the datagram flows are invisible to everything but an answer ---- *)
Lemma teardown_set_udp s u : teardown (set_udp s u) = set_udp (teardown s) u.
Proof. reflexivity. Qed.

Lemma serv_msg_set_udp s u m :
  serv_msg (set_udp s u) m =
  let '(s', r, fs, k) := serv_msg s m in (set_udp s' (u ++ udp_new s m), r, fs, k).
Proof.
  unfold serv_msg, udp_new, set_udp, conn_at. cbn [s_conns s_reg s_alive s_udp].
  destruct (s_alive s) eqn:Ea; cbn [negb andb].
  - destruct m as [l r|l r p|? ? ? ? ?|?|l r| |l r p]; cbn [s_conns s_reg s_alive s_udp];
      rewrite ?Ea, ?app_nil_r; try reflexivity.
    + destruct (get_conn (s_conns s) (s_reg s) l r) as [j| |]; cbn [s_conns s_reg s_alive s_udp];
        rewrite ?Ea; try reflexivity.
      destruct (vc_closed (nth j (s_conns s) dummy_vc)); cbn [s_conns s_reg s_alive s_udp]; rewrite ?Ea; reflexivity.
    + destruct (get_conn (s_conns s) (s_reg s) l r) as [j| |]; cbn [s_conns s_reg s_alive s_udp];
        rewrite ?Ea; reflexivity.
    + destruct (is_udp l && is_udp r); cbn [s_conns s_reg s_alive s_udp]; rewrite ?Ea, ?app_nil_r; reflexivity.
  - destruct m; cbn [s_conns s_reg s_alive s_udp]; rewrite ?Ea, ?app_nil_r; reflexivity.
Qed.

Lemma recv_msg_set_udp wire s u m :
  recv_msg wire (set_udp s u) m =
  let '(s', r, fs, k) := recv_msg wire s m in (set_udp s' (u ++ new_of wire s m), r, fs, k).
Proof.
  unfold recv_msg, new_of. destruct (wire m) as [m'|]; [apply serv_msg_set_udp|].
  cbn [set_udp s_alive]. destruct (s_alive s) eqn:Ea; rewrite app_nil_r.
  - rewrite teardown_set_udp. reflexivity.
  - unfold set_udp. reflexivity.
Qed.

Lemma vc_read_set_udp s u c n :
  vc_read (set_udp s u) c n = let '(s', r) := vc_read s c n in (set_udp s' u, r).
Proof.
  unfold vc_read, set_udp, conn_at. cbn [s_conns s_reg s_alive s_udp].
  destruct (vc_buf (nth c (s_conns s) dummy_vc)); reflexivity.
Qed.

Lemma step_set_udp wire s u a :
  (forall i p q, a <> AUdpR i p q) ->
  step wire (set_udp s u) a =
  let '(s', r, fs) := step wire s a in (set_udp s' (u ++ step_new wire s a), r, fs).
Proof.
  intros Hn. destruct a as [m|c n|c n m|c p q|c|i p q|]; cbn [step step_new].
  - rewrite recv_msg_set_udp. destruct (recv_msg wire s m) as [[[s' r] fs] k]. reflexivity.
  - rewrite vc_read_set_udp. destruct (vc_read s c n) as [s' r]. now rewrite app_nil_r.
  - assert (Himm : (let '(s1, r) := vc_read (set_udp s u) c n in
                    let '(s', _, fs, _) := recv_msg wire s1 m in (s', r, flat_map (wire_out wire) fs)) =
                   (let '(s', r, fs) := (let '(s1, r) := vc_read s c n in
                                         let '(s', _, fs, _) := recv_msg wire s1 m in (s', r, flat_map (wire_out wire) fs)) in
                    (set_udp s' (u ++ new_of wire s m), r, fs))).
    { rewrite vc_read_set_udp. pose proof (vc_read_alive s c n) as H2.
      destruct (vc_read s c n) as [s1 r1]. cbn [fst] in H2.
      rewrite recv_msg_set_udp. destruct (recv_msg wire s1 m) as [[[s' r] fs] k].
      unfold new_of. destruct (wire m); [|reflexivity]. now rewrite (udp_new_alive s s1). }
    change (conn_at (set_udp s u) c) with (conn_at s c).
    destruct (vc_buf (conn_at s c)) as [|b0 bs].
    + destruct (vc_closed (conn_at s c)); [exact Himm|]. clear Himm.
      rewrite recv_msg_set_udp. destruct (recv_msg wire s m) as [[[s1 r1] fs] k].
      rewrite vc_read_set_udp. destruct (vc_read s1 c n) as [s' r]. reflexivity.
    + destruct (vc_closed (conn_at s c)); exact Himm.
  - rewrite app_nil_r. change (conn_at (set_udp s u) c) with (conn_at s c). cbn [set_udp s_alive].
    destruct (s_alive s) eqn:Ea; unfold set_udp; rewrite ?Ea; reflexivity.
  - rewrite app_nil_r. change (conn_at (set_udp s u) c) with (conn_at s c).
    destruct (vc_closed (conn_at s c)); reflexivity.
  - exfalso. eapply Hn. reflexivity.
  - rewrite app_nil_r. cbn [set_udp s_alive]. destruct (s_alive s) eqn:Ea.
    + rewrite teardown_set_udp. reflexivity.
    + unfold set_udp. rewrite Ea. reflexivity.
Qed.

Definition tcp_same (s1 s2 : sess) : Prop :=
  s_conns s1 = s_conns s2 /\ s_reg s1 = s_reg s2 /\ s_alive s1 = s_alive s2.

Lemma tcp_same_set s1 s2 : tcp_same s1 s2 -> s1 = set_udp s2 (s_udp s1).
Proof. destruct s1, s2. unfold tcp_same, set_udp. cbn. intros (-> & -> & ->). reflexivity. Qed.

Lemma tcp_same_set_udp s u : tcp_same (set_udp s u) s.
Proof. repeat split. Qed.

Lemma tcp_same_refl s : tcp_same s s.
Proof. repeat split. Qed.

Lemma tcp_same_trans a b c : tcp_same a b -> tcp_same b c -> tcp_same a c.
Proof. unfold tcp_same. intros (A1 & A2 & A3) (B1 & B2 & B3). repeat split; congruence. Qed.

Definition no_udp (fs : list msg) : Prop := filter (fun f => negb (is_udp_msg f)) fs = fs.

Lemma serv_msg_no_udp s m : no_udp (snd (fst (serv_msg s m))).
Proof.
  unfold serv_msg, no_udp. destruct (negb (s_alive s)); [reflexivity|].
  destruct m as [l r|l r p|? ? ? ? ?|?|l r| |l r p]; try reflexivity.
  - destruct (get_conn (s_conns s) (s_reg s) l r) as [j| |]; try reflexivity.
    destruct (vc_closed (conn_at s j)); reflexivity.
  - destruct (get_conn (s_conns s) (s_reg s) l r) as [j| |]; try reflexivity.
    destruct (vc_closed (conn_at s j)); reflexivity.
  - destruct (is_udp l && is_udp r); reflexivity.
Qed.

Lemma flat_map_ideal fs : flat_map (wire_out ideal_wire) fs = fs.
Proof. induction fs as [|f fs IH]; [reflexivity|]. cbn [flat_map wire_out ideal_wire app]. now rewrite IH. Qed.

Lemma recv_msg_no_udp s m : no_udp (snd (fst (recv_msg ideal_wire s m))).
Proof. unfold recv_msg, ideal_wire. apply serv_msg_no_udp. Qed.

(* an action outside the relay: emits no datagram frame *)
Lemma step_other_no_udp s a : is_relay_act a = false -> no_udp (snd (step ideal_wire s a)).
Proof.
  intros Hr. destruct a as [m|c n|c n m|c p q|c|i p q|]; cbn [step].
  - pose proof (recv_msg_no_udp s m) as H. destruct (recv_msg ideal_wire s m) as [[[s' r] fs] k].
    cbn [fst snd] in *. now rewrite flat_map_ideal.
  - destruct (vc_read s c n) as [s' r]. reflexivity.
  - assert (Himm : no_udp (snd (let '(s1, r) := vc_read s c n in
                      let '(s', _, fs, _) := recv_msg ideal_wire s1 m in (s', r, flat_map (wire_out ideal_wire) fs)))).
    { destruct (vc_read s c n) as [s1 r1]. pose proof (recv_msg_no_udp s1 m) as H.
      destruct (recv_msg ideal_wire s1 m) as [[[s' r] fs] k]. cbn [fst snd] in *. now rewrite flat_map_ideal. }
    destruct (vc_buf (conn_at s c)) as [|b0 bs].
    + destruct (vc_closed (conn_at s c)); [exact Himm|]. clear Himm.
      pose proof (recv_msg_no_udp s m) as H. destruct (recv_msg ideal_wire s m) as [[[s1 r1] fs] k].
      destruct (vc_read s1 c n) as [s' r]. cbn [fst snd] in *. now rewrite flat_map_ideal.
    + destruct (vc_closed (conn_at s c)); exact Himm.
  - destruct (s_alive s); reflexivity.
  - destruct (vc_closed (conn_at s c)); [reflexivity|]. destruct (s_alive s); reflexivity.
  - discriminate Hr.
  - reflexivity.
Qed.

(* ... and behaves the same whatever datagram flows there are *)
Lemma step_other_same s1 s2 a :
  tcp_same s1 s2 -> is_relay_act a = false ->
  tcp_same (fst (fst (step ideal_wire s1 a))) (fst (fst (step ideal_wire s2 a))) /\
  snd (fst (step ideal_wire s1 a)) = snd (fst (step ideal_wire s2 a)) /\
  snd (step ideal_wire s1 a) = snd (step ideal_wire s2 a).
Proof.
  intros T Hr. rewrite (tcp_same_set s1 s2 T).
  rewrite step_set_udp by (intros i p q E; subst a; discriminate Hr).
  destruct (step ideal_wire s2 a) as [[s' r] fs]. cbn [fst snd].
  split; [apply tcp_same_set_udp|]. split; reflexivity.
Qed.

(* an action of the relay: touches nothing but the datagram flows, emits only datagram frames *)
Lemma step_relay s a :
  is_relay_act a = true ->
  tcp_same (fst (fst (step ideal_wire s a))) s /\
  filter (fun f => negb (is_udp_msg f)) (snd (step ideal_wire s a)) = [].
Proof.
  intros Hr. destruct a as [m|c n|c n m|c p q|c|i p q|]; try discriminate Hr.
  - destruct m as [l r|l r p|? ? ? ? ?|?|l r| |l r p]; try discriminate Hr. cbn [is_relay_act] in Hr.
    cbn [step recv_msg ideal_wire]. unfold serv_msg. rewrite Hr.
    destruct (s_alive s) eqn:Ea; cbn [negb fst snd flat_map filter]; split; try reflexivity.
    all: unfold tcp_same; cbn [s_conns s_reg s_alive]; rewrite ?Ea; auto.
  - cbn [step]. destruct (nth_error (s_udp s) i) as [[l r]|]; [destruct (s_alive s)|];
      cbn [fst snd]; split; try reflexivity; apply tcp_same_refl.
Qed.

Lemma udp_relay_leaves_tcp_alone acts : forall s1 s2,
  tcp_same s1 s2 ->
  let '(t1, rs1, fs1) := run ideal_wire s1 acts in
  let '(t2, rs2, fs2) := run ideal_wire s2 (filter (fun a => negb (is_relay_act a)) acts) in
  tcp_same t1 t2 /\ other_res acts rs1 = rs2 /\ filter (fun f => negb (is_udp_msg f)) fs1 = fs2.
Proof.
  induction acts as [|a acts IH]; intros s1 s2 T; cbn [run filter other_res].
  - repeat split; apply T.
  - destruct (is_relay_act a) eqn:Hr; cbn [negb].
    + destruct (step_relay s1 a Hr) as [T1 F1].
      destruct (step ideal_wire s1 a) as [[s1' r] fs]. cbn [fst snd] in T1, F1.
      specialize (IH s1' s2 (tcp_same_trans _ _ _ T1 T)).
      destruct (run ideal_wire s1' acts) as [[t1 rs1] fs1].
      destruct (run ideal_wire s2 (filter (fun a => negb (is_relay_act a)) acts)) as [[t2 rs2] fs2].
      destruct IH as (I1 & I2 & I3). rewrite filter_app, F1. cbn [app]. auto.
    + destruct (step_other_same s1 s2 a T Hr) as (T1 & R1 & F1).
      pose proof (step_other_no_udp s1 a Hr) as N1. cbn [run].
      destruct (step ideal_wire s1 a) as [[s1' r1] f1]. destruct (step ideal_wire s2 a) as [[s2' r2] f2].
      cbn [fst snd] in *. subst r2 f2.
      specialize (IH s1' s2' T1).
      destruct (run ideal_wire s1' acts) as [[t1 rs1] fs1].
      destruct (run ideal_wire s2' (filter (fun a => negb (is_relay_act a)) acts)) as [[t2 rs2] fs2].
      destruct IH as (I1 & I2 & I3). rewrite ?Hr, filter_app. unfold no_udp in N1. rewrite N1, I2, I3. auto.
Qed.

